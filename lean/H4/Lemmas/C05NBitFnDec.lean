import H4.Lemmas.C05NBitFn
/-! Lemmas for `H4.Props.C05NBitFn`, decoder part: the loops of `HCIcnbit_decode` (cnbit.c) as TRANSLATED from the C text (`H4.Gen.Fn.Cnbit`)
    compute the model's `decBytes` / `decItem` / `refillItems` / `decodeLoop` (`H4.NBit`).  Core only. -/
set_option linter.unusedSimpArgs false
set_option linter.unusedVariables false
namespace H4.Lemmas.C05NBitFn
open H4 H4.NBit H4.Bits H4.BitIO H4.Gen.Cnbit H4.Gen.Fn.Cnbit H4.Gen.Hbitio
open H4.Lemmas.C05Rle (bytes bytes_length bytes_getD bytes_append bytes_take bytes_drop byte_lt)

/-- a bit stream as the translated `Hbitread` sees it: one cell per bit, most significant first -/
def bitsI (l : List Bool) : List Int := l.map fun b => if b then 1 else 0

@[simp] theorem bitsI_length (l : List Bool) : (bitsI l).length = l.length := by simp [bitsI]
theorem bitsI_take (l : List Bool) (n : Nat) : (bitsI l).take n = bitsI (l.take n) := by simp [bitsI]
theorem bitsI_drop (l : List Bool) (n : Nat) : (bitsI l).drop n = bitsI (l.drop n) := by simp [bitsI]

theorem foldl_bitsI (l : List Bool) (a : Nat) :
    (bitsI l).foldl (fun acc b => acc * 2 + b) (a : Int) = ((l.foldl (fun a b => 2 * a + b.toNat) a : Nat) : Int) := by
  induction l generalizing a with
  | nil => rfl
  | cons b l ih =>
    simp only [bitsI, List.map_cons, List.foldl_cons] at ih ⊢
    have : (a : Int) * 2 + (if b = true then 1 else 0) = ((2 * a + b.toNat : Nat) : Int) := by cases b <;> simp <;> omega
    rw [this, ih]

/-- the word the translated `Hbitread(aid, w, &v)` stores: the next `w` bits, most significant first -/
theorem bitread_val (io_in : List Int) (p : Nat) (bits : List Bool) (w : Nat) (h : io_in.drop p = bitsI bits) :
    ((io_in.drop p).take w).foldl (fun acc b => acc * 2 + b) 0 = ((ofBits (bits.take w) : Nat) : Int) := by
  rw [h, bitsI_take]; exact foldl_bitsI _ 0

theorem bitread_ok_len (io_in : List Int) (p : Nat) (bits : List Bool) (w : Nat) (h : io_in.drop p = bitsI bits) (hp : p ≤ io_in.length) (hw : w ≤ bits.length) :
    (p : Int) + (w : Int) ≤ (io_in.length : Int) := by
  have := congrArg List.length h
  simp at this
  omega

theorem bitread_drop (io_in : List Int) (p : Nat) (bits : List Bool) (w : Nat) (h : io_in.drop p = bitsI bits) :
    io_in.drop (p + w) = bitsI (bits.drop w) := by
  rw [← List.drop_drop, h, bitsI_drop]

theorem dec_chk_true (s : HCIcnbit_decode.St) (c : Prop) [Decidable c] (h : c) : HCIcnbit_decode.chk s c = s := by
  simp [HCIcnbit_decode.chk, h]

/-- one pass through the body of the per-byte loop of the sign-extending branch of `HCIcnbit_decode`, for a byte whose mask entry has
    `length > 0`: one `Hbitread`, the model's `decByte`, and the sign bit when this is the sign byte -/
theorem dec_body2_read (m : MaskInfo) (mb j0 q p sM : Nat) (bits : List Bool) (fuel : Nat) (s : HCIcnbit_decode.St)
    (hg : GoodEntry m) (hlen : m.length > 0) (hmb : mb < 256)
    (hj : s.j = (j0 : Int)) (hmi : s.mask_info = (j0 : Int)) (hq : s.rbuf2 = (q : Int)) (hql : q < s.nbit_buffer.length)
    (hj16 : j0 < 16) (hlo : s.nbit_mask_info_offset.length = 16) (hll : s.nbit_mask_info_length.length = 16) (hlm : s.nbit_mask_info_mask.length = 16)
    (ho : s.nbit_mask_info_offset.getD j0 0 = (m.offset : Int)) (hl : s.nbit_mask_info_length.getD j0 0 = (m.length : Int))
    (hk : s.nbit_mask_info_mask.getD j0 0 = (m.mask : Int)) (hb : s.nbit_buffer.getD q 0 = (mb : Int))
    (hp : s.io_pos = (p : Int)) (hple : p ≤ s.io_in.length) (hin : s.io_in.drop p = bitsI bits) (hw : m.length ≤ bits.length)
    (hib : 0 ≤ s.input_bits) (hsm : s.sign_mask = (sM : Int)) (hub : s.ub = false) (hdone : s.done = false) :
    let v : Nat := ofBits (bits.take m.length)
    let x : Nat := (v <<< m.shift) % 2 ^ 32
    HCIcnbit_decode.loop2.body fuel s =
      { s with input_bits := (x : Int), io_pos := (p : Int) + (m.length : Int), nbit_buffer := s.nbit_buffer.set q ((decByte m mb v : Nat) : Int),
               sign_bit := if s.j = s.sign_byte then (if (sM &&& x) != 0 then 1 else 0) else s.sign_bit,
               j := s.j + 1, mask_info := s.mask_info + 1, rbuf2 := s.rbuf2 + 1 } := by
  obtain ⟨length, buf_i, mask_info, rbuf, rbuf2, orig_length, input_bits, sign_mask, sign_ext_mask, sign_byte, sign_bit, copy_length, buf_size, buf_items,
    i, j, mask_off, nt_size, buf_pos, buf_len, sign_ext, io_pos, fill_one, offset, buffer, mask_buf, lens, io_in, offs, masks, buf, ub, oof, ret, done⟩ := s
  simp only at hj hmi hq hql ho hl hk hb hp hple hin hib hsm hub hdone hlo hll hlm
  subst hj hmi hq hp hsm hub hdone
  obtain ⟨g1, g2, g3⟩ := hg
  have hj16' : (j0 : Int) < 16 := by omega
  have hql' : (q : Int) < (buffer.length : Int) := by omega
  have hlen' : (m.length : Int) > 0 := by omega
  have hok := bitread_ok_len io_in p bits m.length hin hple hw
  have hval := bitread_val io_in p bits m.length hin
  have hsh : ((m.offset : Int) - (m.length : Int) + 1).toNat = m.shift := by unfold MaskInfo.shift; omega
  have hsh0 : (0 : Int) ≤ (m.offset : Int) - (m.length : Int) + 1 := by omega
  have hsh32 : (m.offset : Int) - (m.length : Int) + 1 < 32 := by omega
  generalize hV : ofBits (List.take m.length bits) = V at hval
  have hA : (V : Int) * 2 ^ m.shift % 4294967296 = (((V <<< m.shift) % 2 ^ 32 : Nat) : Int) := by
    rw [Int.natCast_emod, Int.natCast_shiftLeft, Int.shiftLeft_eq]; rfl
  have hB : (V : Int) * 2 ^ m.shift % 256 = (((V <<< m.shift) % 256 : Nat) : Int) := by
    rw [Int.natCast_emod, Int.natCast_shiftLeft, Int.shiftLeft_eq]; rfl
  have hC : ((m.mask &&& ((V <<< m.shift) % 256) : Nat) : Int) % 256 = ((m.mask &&& ((V <<< m.shift) % 256) : Nat) : Int) := by
    have : m.mask &&& ((V <<< m.shift) % 256) ≤ (V <<< m.shift) % 256 := Nat.and_le_right
    have : (V <<< m.shift) % 256 < 256 := Nat.mod_lt _ (by omega)
    omega
  by_cases hsb : sign_byte = (j0 : Int)
  · subst hsb
    simp [-List.getD_eq_getElem?_getD, HCIcnbit_decode.loop2.body, HCIcnbit_decode.chk, hj16', hql', hlen, hlen', ho, hl, hk, hb, hlo, hll, hlm, hok, hval, hsh, hsh0, hsh32, hib,
      HCIcnbit_decode.St.set_sign_bit, HCIcnbit_decode.St.set_nbit_buffer, HCIcnbit_decode.St.set_j, HCIcnbit_decode.St.set_mask_info,
      HCIcnbit_decode.St.set_rbuf2, HCIcnbit_decode.St.set_input_bits, HCIcnbit_decode.St.set_io_pos, decByte, Int.shiftLeft_eq]
    simp only [hA, hB, hC, Int.toNat_natCast]
    exact ⟨trivial, trivial, ⟨Int.natCast_nonneg _, Int.natCast_nonneg _⟩, Int.natCast_nonneg _⟩
  · have hsb' : ¬ ((j0 : Int) = sign_byte) := fun h => hsb h.symm
    simp [-List.getD_eq_getElem?_getD, HCIcnbit_decode.loop2.body, HCIcnbit_decode.chk, hj16', hql', hlen, hlen', ho, hl, hk, hb, hlo, hll, hlm, hok, hval, hsh, hsh0, hsh32, hib, hsb',
      HCIcnbit_decode.St.set_sign_bit, HCIcnbit_decode.St.set_nbit_buffer, HCIcnbit_decode.St.set_j, HCIcnbit_decode.St.set_mask_info,
      HCIcnbit_decode.St.set_rbuf2, HCIcnbit_decode.St.set_input_bits, HCIcnbit_decode.St.set_io_pos, decByte, Int.shiftLeft_eq]
    simp only [hA, hB, hC, Int.toNat_natCast]
    exact ⟨trivial, Int.natCast_nonneg _, Int.natCast_nonneg _⟩

/-- the same pass for a byte whose mask entry has `length = 0`: nothing is read, the cursors move on -/
theorem dec_body2_skip (j0 : Nat) (fuel : Nat) (s : HCIcnbit_decode.St) (hj16 : j0 < 16) (hmi : s.mask_info = (j0 : Int))
    (hll : s.nbit_mask_info_length.length = 16) (hl : s.nbit_mask_info_length.getD j0 0 = 0) (hub : s.ub = false) :
    HCIcnbit_decode.loop2.body fuel s = { s with j := s.j + 1, mask_info := s.mask_info + 1, rbuf2 := s.rbuf2 + 1 } := by
  obtain ⟨length, buf_i, mask_info, rbuf, rbuf2, orig_length, input_bits, sign_mask, sign_ext_mask, sign_byte, sign_bit, copy_length, buf_size, buf_items,
    i, j, mask_off, nt_size, buf_pos, buf_len, sign_ext, io_pos, fill_one, offset, buffer, mask_buf, lens, io_in, offs, masks, buf, ub, oof, ret, done⟩ := s
  simp only at hmi hll hl hub
  subst hmi hub
  have hj16' : (j0 : Int) < 16 := by omega
  simp [-List.getD_eq_getElem?_getD, HCIcnbit_decode.loop2.body, HCIcnbit_decode.chk, hj16', hl, hll,
    HCIcnbit_decode.St.set_j, HCIcnbit_decode.St.set_mask_info, HCIcnbit_decode.St.set_rbuf2]

/-- one pass through the body of the per-byte loop of the branch WITHOUT sign extension, for a byte whose mask entry has `length > 0` and
    enough bits left: `Hbitread` delivers, the model's `decByte` is stored -/
theorem dec_body5_read (m : MaskInfo) (mb j0 q p : Nat) (bits : List Bool) (fuel : Nat) (s : HCIcnbit_decode.St)
    (hg : GoodEntry m) (hlen : m.length > 0) (hmb : mb < 256)
    (hmi : s.mask_info = (j0 : Int)) (hq : s.rbuf = (q : Int)) (hql : q < s.nbit_buffer.length)
    (hj16 : j0 < 16) (hlo : s.nbit_mask_info_offset.length = 16) (hll : s.nbit_mask_info_length.length = 16) (hlm : s.nbit_mask_info_mask.length = 16)
    (ho : s.nbit_mask_info_offset.getD j0 0 = (m.offset : Int)) (hl : s.nbit_mask_info_length.getD j0 0 = (m.length : Int))
    (hk : s.nbit_mask_info_mask.getD j0 0 = (m.mask : Int)) (hb : s.nbit_buffer.getD q 0 = (mb : Int))
    (hp : s.io_pos = (p : Int)) (hple : p ≤ s.io_in.length) (hin : s.io_in.drop p = bitsI bits) (hw : m.length ≤ bits.length)
    (hub : s.ub = false) (hdone : s.done = false) :
    let v : Nat := ofBits (bits.take m.length)
    HCIcnbit_decode.loop5.body fuel s =
      { s with input_bits := (v : Int), io_pos := (p : Int) + (m.length : Int), nbit_buffer := s.nbit_buffer.set q ((decByte m mb v : Nat) : Int),
               j := s.j + 1, mask_info := s.mask_info + 1, rbuf := s.rbuf + 1 } := by
  obtain ⟨length, buf_i, mask_info, rbuf, rbuf2, orig_length, input_bits, sign_mask, sign_ext_mask, sign_byte, sign_bit, copy_length, buf_size, buf_items,
    i, j, mask_off, nt_size, buf_pos, buf_len, sign_ext, io_pos, fill_one, offset, buffer, mask_buf, lens, io_in, offs, masks, buf, ub, oof, ret, done⟩ := s
  simp only at hmi hq hql ho hl hk hb hp hple hin hub hdone hlo hll hlm
  subst hmi hq hp hub hdone
  obtain ⟨g1, g2, g3⟩ := hg
  have hj16' : (j0 : Int) < 16 := by omega
  have hql' : (q : Int) < (buffer.length : Int) := by omega
  have hlen' : (m.length : Int) > 0 := by omega
  have hok := bitread_ok_len io_in p bits m.length hin hple hw
  have hval := bitread_val io_in p bits m.length hin
  have hsh : ((m.offset : Int) - (m.length : Int) + 1).toNat = m.shift := by unfold MaskInfo.shift; omega
  have hsh0 : (0 : Int) ≤ (m.offset : Int) - (m.length : Int) + 1 := by omega
  have hsh32 : (m.offset : Int) - (m.length : Int) + 1 < 32 := by omega
  generalize hV : ofBits (List.take m.length bits) = V at hval
  have hB : (V : Int) * 2 ^ m.shift % 256 = (((V <<< m.shift) % 256 : Nat) : Int) := by
    rw [Int.natCast_emod, Int.natCast_shiftLeft, Int.shiftLeft_eq]; rfl
  have hC : ((m.mask &&& ((V <<< m.shift) % 256) : Nat) : Int) % 256 = ((m.mask &&& ((V <<< m.shift) % 256) : Nat) : Int) := by
    have : m.mask &&& ((V <<< m.shift) % 256) ≤ (V <<< m.shift) % 256 := Nat.and_le_right
    have : (V <<< m.shift) % 256 < 256 := Nat.mod_lt _ (by omega)
    omega
  simp [-List.getD_eq_getElem?_getD, HCIcnbit_decode.loop5.body, HCIcnbit_decode.chk, hj16', hql', hlen, hlen', ho, hl, hk, hb, hlo, hll, hlm, hok, hval, hsh, hsh0, hsh32,
    HCIcnbit_decode.St.set_nbit_buffer, HCIcnbit_decode.St.set_j, HCIcnbit_decode.St.set_mask_info, HCIcnbit_decode.St.set_ret, HCIcnbit_decode.St.set_done,
    HCIcnbit_decode.St.set_rbuf, HCIcnbit_decode.St.set_input_bits, HCIcnbit_decode.St.set_io_pos, decByte, Int.shiftLeft_eq]
  simp only [hB, hC, Int.toNat_natCast]
  exact ⟨trivial, Int.natCast_nonneg _, Int.natCast_nonneg _⟩

theorem dec_body5_skip (j0 : Nat) (fuel : Nat) (s : HCIcnbit_decode.St) (hj16 : j0 < 16) (hmi : s.mask_info = (j0 : Int))
    (hll : s.nbit_mask_info_length.length = 16) (hl : s.nbit_mask_info_length.getD j0 0 = 0) (hub : s.ub = false) (hdone : s.done = false) :
    HCIcnbit_decode.loop5.body fuel s = { s with j := s.j + 1, mask_info := s.mask_info + 1, rbuf := s.rbuf + 1 } := by
  obtain ⟨length, buf_i, mask_info, rbuf, rbuf2, orig_length, input_bits, sign_mask, sign_ext_mask, sign_byte, sign_bit, copy_length, buf_size, buf_items,
    i, j, mask_off, nt_size, buf_pos, buf_len, sign_ext, io_pos, fill_one, offset, buffer, mask_buf, lens, io_in, offs, masks, buf, ub, oof, ret, done⟩ := s
  simp only at hmi hll hl hub hdone
  subst hmi hub hdone
  have hj16' : (j0 : Int) < 16 := by omega
  simp [-List.getD_eq_getElem?_getD, HCIcnbit_decode.loop5.body, HCIcnbit_decode.chk, hj16', hl, hll,
    HCIcnbit_decode.St.set_j, HCIcnbit_decode.St.set_mask_info, HCIcnbit_decode.St.set_rbuf]

/-- widths of the `Hbitread` calls made for the mask entries `mis` (`itemWidths c = widths (maskInfos c)`) -/
def widths (mis : List MaskInfo) : List Nat := mis.filterMap fun mi => if mi.length > 0 then some mi.length else none

theorem dec_loop2_stop (fuel : Nat) (s : HCIcnbit_decode.St) (h : ¬ ((s.j < s.nbit_nt_size) ∧ ¬(s.done))) : HCIcnbit_decode.loop2 fuel s = s := by
  cases fuel <;> rw [HCIcnbit_decode.loop2] <;> simp only [h, if_false]

theorem dec_loop2_succ (fuel : Nat) (s : HCIcnbit_decode.St) (h : (s.j < s.nbit_nt_size) ∧ ¬(s.done)) :
    HCIcnbit_decode.loop2 (fuel + 1) s = HCIcnbit_decode.loop2 fuel (HCIcnbit_decode.loop2.body (fuel + 1) s) := by
  rw [HCIcnbit_decode.loop2]; simp [h]

/-- the per-byte loop of the sign-extending branch over the mask entries `mis` (bytes `j0 ..` of the item at `q` in the expansion buffer, which
    holds the mask-buffer bytes `mbs` there) is the model's `decBytes` on the words cut from the bit stream -/
theorem dec_loop2 (sB sM : Nat) (prev : Bool) : ∀ (mis : List MaskInfo) (mbs : List Nat) (j0 q p : Nat) (bits : List Bool) (sb : Option Bool)
    (fuel : Nat) (s : HCIcnbit_decode.St),
    mis.length ≤ fuel → mbs.length = mis.length → (∀ m ∈ mis, GoodEntry m) → (∀ x ∈ mbs, x < 256) →
    s.j = (j0 : Int) → s.mask_info = (j0 : Int) → s.rbuf2 = (q : Int) → q + mis.length ≤ s.nbit_buffer.length → j0 + mis.length ≤ 16 →
    s.nbit_nt_size = ((j0 + mis.length : Nat) : Int) →
    s.nbit_mask_info_offset.length = 16 → s.nbit_mask_info_length.length = 16 → s.nbit_mask_info_mask.length = 16 →
    (∀ t, t < mis.length → s.nbit_mask_info_offset.getD (j0 + t) 0 = ((mis.getD t {}).offset : Int) ∧
      s.nbit_mask_info_length.getD (j0 + t) 0 = ((mis.getD t {}).length : Int) ∧ s.nbit_mask_info_mask.getD (j0 + t) 0 = ((mis.getD t {}).mask : Int)) →
    (∀ t, t < mis.length → s.nbit_buffer.getD (q + t) 0 = ((mbs.getD t 0 : Nat) : Int)) →
    s.io_pos = (p : Int) → p ≤ s.io_in.length → s.io_in.drop p = bitsI bits → (widths mis).sum ≤ bits.length →
    0 ≤ s.input_bits → s.sign_mask = (sM : Int) → s.sign_byte = (sB : Int) → s.sign_bit = b2i (sb.getD prev) → s.ub = false → s.done = false →
    let r := decBytes sB sM j0 mis mbs (takeFields bits (widths mis)) sb
    ∃ ib : Int, 0 ≤ ib ∧ HCIcnbit_decode.loop2 fuel s =
      { s with input_bits := ib, io_pos := (p : Int) + ((widths mis).sum : Nat),
               nbit_buffer := s.nbit_buffer.take q ++ r.1.map (fun (x : Nat) => (x : Int)) ++ s.nbit_buffer.drop (q + mis.length),
               sign_bit := b2i (r.2.getD prev), j := ((j0 + mis.length : Nat) : Int), mask_info := ((j0 + mis.length : Nat) : Int),
               rbuf2 := ((q + mis.length : Nat) : Int) } := by
  intro mis
  induction mis with
  | nil =>
    intro mbs j0 q p bits sb fuel s _ hmbs _ _ hj hmi hq _ _ hn _ _ _ _ _ hp _ _ _ hib _ _ hsbit _ _
    have hstop : ¬ ((s.j < s.nbit_nt_size) ∧ ¬(s.done)) := by rw [hj, hn]; simp
    rw [dec_loop2_stop fuel s hstop]
    have : mbs = [] := List.eq_nil_of_length_eq_zero (by simpa using hmbs)
    subst this
    refine ⟨s.input_bits, hib, ?_⟩
    cases s
    simp_all [decBytes, widths]
  | cons m mis ih =>
    intro mbs j0 q p bits sb fuel s hf hmbs hgood hmb256 hj hmi hq hql hj16 hn hlo hll hlm htab hbuf hp hple hin hw hib hsm hsby hsbit hub hdone
    cases mbs with
    | nil => simp at hmbs
    | cons mb mbs =>
    simp only [List.length_cons] at hf hmbs hql hj16 hn htab hbuf
    cases fuel with
    | zero => omega
    | succ fuel =>
    have hc : (s.j < s.nbit_nt_size) ∧ ¬(s.done) := by rw [hj, hn, hdone]; simp; omega
    rw [dec_loop2_succ fuel s hc]
    obtain ⟨t1, t2, t3⟩ := htab 0 (by omega)
    simp only [Nat.add_zero, List.getD_cons_zero] at t1 t2 t3
    have hb0 := hbuf 0 (by omega)
    simp only [Nat.add_zero, List.getD_cons_zero] at hb0
    have hgm : GoodEntry m := hgood m (by simp)
    have hmbv : mb < 256 := hmb256 mb (by simp)
    -- facts handed to the induction hypothesis that do not depend on the branch
    have htab' : ∀ (offs lens masks : List Int), offs = s.nbit_mask_info_offset → lens = s.nbit_mask_info_length → masks = s.nbit_mask_info_mask →
        ∀ t, t < mis.length → offs.getD (j0 + 1 + t) 0 = ((mis.getD t {}).offset : Int) ∧
          lens.getD (j0 + 1 + t) 0 = ((mis.getD t {}).length : Int) ∧ masks.getD (j0 + 1 + t) 0 = ((mis.getD t {}).mask : Int) := by
      intro offs lens masks e1 e2 e3 t ht
      subst e1 e2 e3
      have := htab (t + 1) (by omega)
      simpa [Nat.add_assoc, Nat.add_comm 1 t] using this
    by_cases hlen : m.length > 0
    · -- a byte with bits in the stream
      have hwid : widths (m :: mis) = m.length :: widths mis := by simp [widths, hlen]
      rw [hwid, List.sum_cons] at hw
      have hbody := dec_body2_read m mb j0 q p sM bits (fuel + 1) s hgm hlen hmbv hj hmi hq (by omega) (by omega) hlo hll hlm t1 t2 t3 hb0 hp hple hin
        (by omega) hib hsm hub hdone
      simp only at hbody
      generalize HCIcnbit_decode.loop2.body (fuel + 1) s = s1 at hbody
      generalize hv : ofBits (List.take m.length bits) = v at hbody
      generalize hx : (v <<< m.shift) % 2 ^ 32 = x at hbody
      have hsbit1 : s1.sign_bit = b2i ((if j0 = sB then some (sM &&& x != 0) else sb).getD prev) := by
        subst hbody
        simp only [hj, hsby, hsbit]
        by_cases hjs : j0 = sB
        · subst hjs; simp [b2i]
        · have : ¬ ((j0 : Int) = (sB : Int)) := by omega
          simp [this, hjs]
      obtain ⟨ib, hib2, hloop⟩ := ih mbs (j0 + 1) (q + 1) (p + m.length) (bits.drop m.length) (if j0 = sB then some (sM &&& x != 0) else sb) fuel s1
        (by omega) (by omega) (fun y hy => hgood y (by simp [hy])) (fun y hy => hmb256 y (by simp [hy]))
        (by subst hbody; simp [hj]) (by subst hbody; simp [hmi]) (by subst hbody; simp [hq]) (by subst hbody; simp; omega) (by omega)
        (by subst hbody; simp [hn]; omega) (by subst hbody; exact hlo) (by subst hbody; exact hll) (by subst hbody; exact hlm)
        (by subst hbody; exact htab' _ _ _ rfl rfl rfl)
        (by
          intro t ht
          subst hbody; simp only
          rw [List.getD_eq_getElem?_getD, List.getElem?_set_ne (by omega), ← List.getD_eq_getElem?_getD]
          have := hbuf (t + 1) (by omega)
          simpa [Nat.add_assoc, Nat.add_comm 1 t] using this)
        (by subst hbody; simp) (by subst hbody; have := bitread_ok_len s.io_in p bits m.length hin hple (by omega); simp only; omega)
        (by subst hbody; exact bitread_drop s.io_in p bits m.length hin) (by simp; omega)
        (by subst hbody; exact Int.natCast_nonneg _) (by subst hbody; exact hsm) (by subst hbody; exact hsby) hsbit1
        (by subst hbody; exact hub) (by subst hbody; exact hdone)
      refine ⟨ib, hib2, ?_⟩
      rw [hloop]
      subst hbody
      simp only [hwid, takeFields, decBytes, hlen, if_true, hv, hx, List.sum_cons, List.map_cons, List.length_cons]
      rw [H4.C2L.take_set_succ _ _ _ (by omega), List.drop_set_of_lt (by omega)]
      simp [Nat.add_assoc, Nat.add_comm 1 mis.length]
      omega
    · -- a byte without bits in the stream
      have hl0 : m.length = 0 := by omega
      have hwid : widths (m :: mis) = widths mis := by simp [widths, hlen]
      rw [hwid] at hw
      have hbody := dec_body2_skip j0 (fuel + 1) s (by omega) hmi hll (by rw [t2, hl0]; rfl) hub
      generalize HCIcnbit_decode.loop2.body (fuel + 1) s = s1 at hbody
      obtain ⟨ib, hib2, hloop⟩ := ih mbs (j0 + 1) (q + 1) p bits sb fuel s1
        (by omega) (by omega) (fun y hy => hgood y (by simp [hy])) (fun y hy => hmb256 y (by simp [hy]))
        (by subst hbody; simp [hj]) (by subst hbody; simp [hmi]) (by subst hbody; simp [hq]) (by subst hbody; simp; omega) (by omega)
        (by subst hbody; simp [hn]; omega) (by subst hbody; exact hlo) (by subst hbody; exact hll) (by subst hbody; exact hlm)
        (by subst hbody; exact htab' _ _ _ rfl rfl rfl)
        (by
          intro t ht
          subst hbody; simp only
          have := hbuf (t + 1) (by omega)
          simpa [Nat.add_assoc, Nat.add_comm 1 t] using this)
        (by subst hbody; exact hp) (by subst hbody; exact hple) (by subst hbody; exact hin) hw
        (by subst hbody; exact hib) (by subst hbody; exact hsm) (by subst hbody; exact hsby) (by subst hbody; exact hsbit)
        (by subst hbody; exact hub) (by subst hbody; exact hdone)
      refine ⟨ib, hib2, ?_⟩
      rw [hloop]
      subst hbody
      have hq1 : q < s.nbit_buffer.length := by omega
      have htk : s.nbit_buffer.take (q + 1) = s.nbit_buffer.take q ++ [(mb : Int)] := by
        rw [List.take_succ_eq_append_getElem hq1]
        have : s.nbit_buffer[q] = (mb : Int) := by simpa [hq1] using hb0
        rw [this]
      simp only [hwid, decBytes, hlen, if_false, List.map_cons, List.length_cons, htk]
      simp [Nat.add_assoc, Nat.add_comm 1 mis.length]

theorem dec_loop5_stop (fuel : Nat) (s : HCIcnbit_decode.St) (h : ¬ ((s.j < s.nbit_nt_size) ∧ ¬(s.done))) : HCIcnbit_decode.loop5 fuel s = s := by
  cases fuel <;> rw [HCIcnbit_decode.loop5] <;> simp only [h, if_false]

theorem dec_loop5_succ (fuel : Nat) (s : HCIcnbit_decode.St) (h : (s.j < s.nbit_nt_size) ∧ ¬(s.done)) :
    HCIcnbit_decode.loop5 (fuel + 1) s = HCIcnbit_decode.loop5 fuel (HCIcnbit_decode.loop5.body (fuel + 1) s) := by
  rw [HCIcnbit_decode.loop5]; simp [h]

/-- the per-byte loop of the branch without sign extension: the bytes of the model's `decBytes` (whose sign bookkeeping `sB sM sb` is irrelevant here) -/
theorem dec_loop5 (sB sM : Nat) : ∀ (mis : List MaskInfo) (mbs : List Nat) (j0 q p : Nat) (bits : List Bool) (sb : Option Bool)
    (fuel : Nat) (s : HCIcnbit_decode.St),
    mis.length ≤ fuel → mbs.length = mis.length → (∀ m ∈ mis, GoodEntry m) → (∀ x ∈ mbs, x < 256) →
    s.j = (j0 : Int) → s.mask_info = (j0 : Int) → s.rbuf = (q : Int) → q + mis.length ≤ s.nbit_buffer.length → j0 + mis.length ≤ 16 →
    s.nbit_nt_size = ((j0 + mis.length : Nat) : Int) →
    s.nbit_mask_info_offset.length = 16 → s.nbit_mask_info_length.length = 16 → s.nbit_mask_info_mask.length = 16 →
    (∀ t, t < mis.length → s.nbit_mask_info_offset.getD (j0 + t) 0 = ((mis.getD t {}).offset : Int) ∧
      s.nbit_mask_info_length.getD (j0 + t) 0 = ((mis.getD t {}).length : Int) ∧ s.nbit_mask_info_mask.getD (j0 + t) 0 = ((mis.getD t {}).mask : Int)) →
    (∀ t, t < mis.length → s.nbit_buffer.getD (q + t) 0 = ((mbs.getD t 0 : Nat) : Int)) →
    s.io_pos = (p : Int) → p ≤ s.io_in.length → s.io_in.drop p = bitsI bits → (widths mis).sum ≤ bits.length →
    0 ≤ s.input_bits → s.ub = false → s.done = false →
    let r := decBytes sB sM j0 mis mbs (takeFields bits (widths mis)) sb
    ∃ ib : Int, 0 ≤ ib ∧ HCIcnbit_decode.loop5 fuel s =
      { s with input_bits := ib, io_pos := (p : Int) + ((widths mis).sum : Nat),
               nbit_buffer := s.nbit_buffer.take q ++ r.1.map (fun (x : Nat) => (x : Int)) ++ s.nbit_buffer.drop (q + mis.length),
               j := ((j0 + mis.length : Nat) : Int), mask_info := ((j0 + mis.length : Nat) : Int),
               rbuf := ((q + mis.length : Nat) : Int) } := by
  intro mis
  induction mis with
  | nil =>
    intro mbs j0 q p bits sb fuel s _ hmbs _ _ hj hmi hq _ _ hn _ _ _ _ _ hp _ _ _ hib _ _
    have hstop : ¬ ((s.j < s.nbit_nt_size) ∧ ¬(s.done)) := by rw [hj, hn]; simp
    rw [dec_loop5_stop fuel s hstop]
    have : mbs = [] := List.eq_nil_of_length_eq_zero (by simpa using hmbs)
    subst this
    refine ⟨s.input_bits, hib, ?_⟩
    cases s
    simp_all [decBytes, widths]
  | cons m mis ih =>
    intro mbs j0 q p bits sb fuel s hf hmbs hgood hmb256 hj hmi hq hql hj16 hn hlo hll hlm htab hbuf hp hple hin hw hib hub hdone
    cases mbs with
    | nil => simp at hmbs
    | cons mb mbs =>
    simp only [List.length_cons] at hf hmbs hql hj16 hn htab hbuf
    cases fuel with
    | zero => omega
    | succ fuel =>
    have hc : (s.j < s.nbit_nt_size) ∧ ¬(s.done) := by rw [hj, hn, hdone]; simp; omega
    rw [dec_loop5_succ fuel s hc]
    obtain ⟨t1, t2, t3⟩ := htab 0 (by omega)
    simp only [Nat.add_zero, List.getD_cons_zero] at t1 t2 t3
    have hb0 := hbuf 0 (by omega)
    simp only [Nat.add_zero, List.getD_cons_zero] at hb0
    have hgm : GoodEntry m := hgood m (by simp)
    have hmbv : mb < 256 := hmb256 mb (by simp)
    -- facts handed to the induction hypothesis that do not depend on the branch
    have htab' : ∀ (offs lens masks : List Int), offs = s.nbit_mask_info_offset → lens = s.nbit_mask_info_length → masks = s.nbit_mask_info_mask →
        ∀ t, t < mis.length → offs.getD (j0 + 1 + t) 0 = ((mis.getD t {}).offset : Int) ∧
          lens.getD (j0 + 1 + t) 0 = ((mis.getD t {}).length : Int) ∧ masks.getD (j0 + 1 + t) 0 = ((mis.getD t {}).mask : Int) := by
      intro offs lens masks e1 e2 e3 t ht
      subst e1 e2 e3
      have := htab (t + 1) (by omega)
      simpa [Nat.add_assoc, Nat.add_comm 1 t] using this
    by_cases hlen : m.length > 0
    · -- a byte with bits in the stream
      have hwid : widths (m :: mis) = m.length :: widths mis := by simp [widths, hlen]
      rw [hwid, List.sum_cons] at hw
      have hbody := dec_body5_read m mb j0 q p bits (fuel + 1) s hgm hlen hmbv hmi hq (by omega) (by omega) hlo hll hlm t1 t2 t3 hb0 hp hple hin
        (by omega) hub hdone
      simp only at hbody
      generalize HCIcnbit_decode.loop5.body (fuel + 1) s = s1 at hbody
      generalize hv : ofBits (List.take m.length bits) = v at hbody
      obtain ⟨ib, hib2, hloop⟩ := ih mbs (j0 + 1) (q + 1) (p + m.length) (bits.drop m.length) (if j0 = sB then some (sM &&& ((v <<< m.shift) % 2 ^ 32) != 0) else sb) fuel s1
        (by omega) (by omega) (fun y hy => hgood y (by simp [hy])) (fun y hy => hmb256 y (by simp [hy]))
        (by subst hbody; simp [hj]) (by subst hbody; simp [hmi]) (by subst hbody; simp [hq]) (by subst hbody; simp; omega) (by omega)
        (by subst hbody; simp [hn]; omega) (by subst hbody; exact hlo) (by subst hbody; exact hll) (by subst hbody; exact hlm)
        (by subst hbody; exact htab' _ _ _ rfl rfl rfl)
        (by
          intro t ht
          subst hbody; simp only
          rw [List.getD_eq_getElem?_getD, List.getElem?_set_ne (by omega), ← List.getD_eq_getElem?_getD]
          have := hbuf (t + 1) (by omega)
          simpa [Nat.add_assoc, Nat.add_comm 1 t] using this)
        (by subst hbody; simp) (by subst hbody; have := bitread_ok_len s.io_in p bits m.length hin hple (by omega); simp only; omega)
        (by subst hbody; exact bitread_drop s.io_in p bits m.length hin) (by simp; omega)
        (by subst hbody; exact Int.natCast_nonneg _) (by subst hbody; exact hub) (by subst hbody; exact hdone)
      refine ⟨ib, hib2, ?_⟩
      rw [hloop]
      subst hbody
      simp only [hwid, takeFields, decBytes, hlen, if_true, hv, List.sum_cons, List.map_cons, List.length_cons]
      rw [H4.C2L.take_set_succ _ _ _ (by omega), List.drop_set_of_lt (by omega)]
      simp [Nat.add_assoc, Nat.add_comm 1 mis.length]
      omega
    · -- a byte without bits in the stream
      have hl0 : m.length = 0 := by omega
      have hwid : widths (m :: mis) = widths mis := by simp [widths, hlen]
      rw [hwid] at hw
      have hbody := dec_body5_skip j0 (fuel + 1) s (by omega) hmi hll (by rw [t2, hl0]; rfl) hub hdone
      generalize HCIcnbit_decode.loop5.body (fuel + 1) s = s1 at hbody
      obtain ⟨ib, hib2, hloop⟩ := ih mbs (j0 + 1) (q + 1) p bits sb fuel s1
        (by omega) (by omega) (fun y hy => hgood y (by simp [hy])) (fun y hy => hmb256 y (by simp [hy]))
        (by subst hbody; simp [hj]) (by subst hbody; simp [hmi]) (by subst hbody; simp [hq]) (by subst hbody; simp; omega) (by omega)
        (by subst hbody; simp [hn]; omega) (by subst hbody; exact hlo) (by subst hbody; exact hll) (by subst hbody; exact hlm)
        (by subst hbody; exact htab' _ _ _ rfl rfl rfl)
        (by
          intro t ht
          subst hbody; simp only
          have := hbuf (t + 1) (by omega)
          simpa [Nat.add_assoc, Nat.add_comm 1 t] using this)
        (by subst hbody; exact hp) (by subst hbody; exact hple) (by subst hbody; exact hin) hw
        (by subst hbody; exact hib) (by subst hbody; exact hub) (by subst hbody; exact hdone)
      refine ⟨ib, hib2, ?_⟩
      rw [hloop]
      subst hbody
      have hq1 : q < s.nbit_buffer.length := by omega
      have htk : s.nbit_buffer.take (q + 1) = s.nbit_buffer.take q ++ [(mb : Int)] := by
        rw [List.take_succ_eq_append_getElem hq1]
        have : s.nbit_buffer[q] = (mb : Int) := by simpa [hq1] using hb0
        rw [this]
      simp only [hwid, decBytes, hlen, if_false, List.map_cons, List.length_cons, htk]
      simp [Nat.add_assoc, Nat.add_comm 1 mis.length]

theorem dec_loop3_stop (fuel : Nat) (s : HCIcnbit_decode.St) (h : ¬ ((s.j < s.sign_byte) ∧ ¬(s.done))) : HCIcnbit_decode.loop3 fuel s = s := by
  cases fuel <;> rw [HCIcnbit_decode.loop3] <;> simp only [h, if_false]

theorem dec_loop3_succ (fuel : Nat) (s : HCIcnbit_decode.St) (h : (s.j < s.sign_byte) ∧ ¬(s.done)) :
    HCIcnbit_decode.loop3 (fuel + 1) s = HCIcnbit_decode.loop3 fuel (HCIcnbit_decode.loop3.body (fuel + 1) s) := by
  rw [HCIcnbit_decode.loop3]; simp [h]

theorem dec_body3 (q fuel : Nat) (s : HCIcnbit_decode.St) (hq : s.rbuf2 = (q : Int)) (hql : q < s.nbit_buffer.length) (hub : s.ub = false) :
    HCIcnbit_decode.loop3.body fuel s = { s with nbit_buffer := s.nbit_buffer.set q 255, j := s.j + 1, rbuf2 := s.rbuf2 + 1 } := by
  obtain ⟨length, buf_i, mask_info, rbuf, rbuf2, orig_length, input_bits, sign_mask, sign_ext_mask, sign_byte, sign_bit, copy_length, buf_size, buf_items,
    i, j, mask_off, nt_size, buf_pos, buf_len, sign_ext, io_pos, fill_one, offset, buffer, mask_buf, lens, io_in, offs, masks, buf, ub, oof, ret, done⟩ := s
  simp only at hq hql hub
  subst hq hub
  have hql' : (q : Int) < (buffer.length : Int) := by omega
  simp [HCIcnbit_decode.loop3.body, HCIcnbit_decode.chk, hql', HCIcnbit_decode.St.set_nbit_buffer, HCIcnbit_decode.St.set_j, HCIcnbit_decode.St.set_rbuf2]

/-- `for (j = 0; j < sign_byte; j++, rbuf2++) *rbuf2 = 0xff;` from `j = j0` on -/
theorem dec_loop3 : ∀ (k j0 q fuel : Nat) (s : HCIcnbit_decode.St), k ≤ fuel → s.j = (j0 : Int) → s.sign_byte = ((j0 + k : Nat) : Int) →
    s.rbuf2 = (q : Int) → q + k ≤ s.nbit_buffer.length → s.ub = false → s.done = false →
    HCIcnbit_decode.loop3 fuel s =
      { s with nbit_buffer := s.nbit_buffer.take q ++ List.replicate k 255 ++ s.nbit_buffer.drop (q + k), j := ((j0 + k : Nat) : Int),
               rbuf2 := ((q + k : Nat) : Int) } := by
  intro k
  induction k with
  | zero =>
    intro j0 q fuel s _ hj hsb hq _ _ _
    have : ¬ ((s.j < s.sign_byte) ∧ ¬(s.done)) := by rw [hj, hsb]; simp
    rw [dec_loop3_stop fuel s this]
    cases s; simp_all
  | succ k ih =>
    intro j0 q fuel s hf hj hsb hq hql hub hdone
    cases fuel with
    | zero => omega
    | succ fuel =>
      have hc : (s.j < s.sign_byte) ∧ ¬(s.done) := by rw [hj, hsb, hdone]; simp; omega
      rw [dec_loop3_succ fuel s hc]
      have hbody := dec_body3 q (fuel + 1) s hq (by omega) hub
      generalize HCIcnbit_decode.loop3.body (fuel + 1) s = s1 at hbody
      rw [ih (j0 + 1) (q + 1) fuel s1 (by omega) (by subst hbody; simp [hj]) (by subst hbody; simp [hsb]; omega) (by subst hbody; simp [hq])
        (by subst hbody; simp; omega) (by subst hbody; exact hub) (by subst hbody; exact hdone)]
      subst hbody
      simp only
      rw [H4.C2L.take_set_succ _ _ _ (by omega), List.drop_set_of_lt (by omega)]
      simp [Nat.add_assoc, Nat.add_comm 1 k, List.replicate_succ]

theorem dec_loop4_stop (fuel : Nat) (s : HCIcnbit_decode.St) (h : ¬ ((s.j < s.sign_byte) ∧ ¬(s.done))) : HCIcnbit_decode.loop4 fuel s = s := by
  cases fuel <;> rw [HCIcnbit_decode.loop4] <;> simp only [h, if_false]

theorem dec_loop4_succ (fuel : Nat) (s : HCIcnbit_decode.St) (h : (s.j < s.sign_byte) ∧ ¬(s.done)) :
    HCIcnbit_decode.loop4 (fuel + 1) s = HCIcnbit_decode.loop4 fuel (HCIcnbit_decode.loop4.body (fuel + 1) s) := by
  rw [HCIcnbit_decode.loop4]; simp [h]

theorem dec_body4 (q fuel : Nat) (s : HCIcnbit_decode.St) (hq : s.rbuf2 = (q : Int)) (hql : q < s.nbit_buffer.length) (hub : s.ub = false) :
    HCIcnbit_decode.loop4.body fuel s = { s with nbit_buffer := s.nbit_buffer.set q 0, j := s.j + 1, rbuf2 := s.rbuf2 + 1 } := by
  obtain ⟨length, buf_i, mask_info, rbuf, rbuf2, orig_length, input_bits, sign_mask, sign_ext_mask, sign_byte, sign_bit, copy_length, buf_size, buf_items,
    i, j, mask_off, nt_size, buf_pos, buf_len, sign_ext, io_pos, fill_one, offset, buffer, mask_buf, lens, io_in, offs, masks, buf, ub, oof, ret, done⟩ := s
  simp only at hq hql hub
  subst hq hub
  have hql' : (q : Int) < (buffer.length : Int) := by omega
  simp [HCIcnbit_decode.loop4.body, HCIcnbit_decode.chk, hql', HCIcnbit_decode.St.set_nbit_buffer, HCIcnbit_decode.St.set_j, HCIcnbit_decode.St.set_rbuf2]

/-- `for (j = 0; j < sign_byte; j++, rbuf2++) *rbuf2 = 0x00;` from `j = j0` on -/
theorem dec_loop4 : ∀ (k j0 q fuel : Nat) (s : HCIcnbit_decode.St), k ≤ fuel → s.j = (j0 : Int) → s.sign_byte = ((j0 + k : Nat) : Int) →
    s.rbuf2 = (q : Int) → q + k ≤ s.nbit_buffer.length → s.ub = false → s.done = false →
    HCIcnbit_decode.loop4 fuel s =
      { s with nbit_buffer := s.nbit_buffer.take q ++ List.replicate k 0 ++ s.nbit_buffer.drop (q + k), j := ((j0 + k : Nat) : Int),
               rbuf2 := ((q + k : Nat) : Int) } := by
  intro k
  induction k with
  | zero =>
    intro j0 q fuel s _ hj hsb hq _ _ _
    have : ¬ ((s.j < s.sign_byte) ∧ ¬(s.done)) := by rw [hj, hsb]; simp
    rw [dec_loop4_stop fuel s this]
    cases s; simp_all
  | succ k ih =>
    intro j0 q fuel s hf hj hsb hq hql hub hdone
    cases fuel with
    | zero => omega
    | succ fuel =>
      have hc : (s.j < s.sign_byte) ∧ ¬(s.done) := by rw [hj, hsb, hdone]; simp; omega
      rw [dec_loop4_succ fuel s hc]
      have hbody := dec_body4 q (fuel + 1) s hq (by omega) hub
      generalize HCIcnbit_decode.loop4.body (fuel + 1) s = s1 at hbody
      rw [ih (j0 + 1) (q + 1) fuel s1 (by omega) (by subst hbody; simp [hj]) (by subst hbody; simp [hsb]; omega) (by subst hbody; simp [hq])
        (by subst hbody; simp; omega) (by subst hbody; exact hub) (by subst hbody; exact hdone)]
      subst hbody
      simp only
      rw [H4.C2L.take_set_succ _ _ _ (by omega), List.drop_set_of_lt (by omega)]
      simp [Nat.add_assoc, Nat.add_comm 1 k, List.replicate_succ]


/-- the sign extension of `decItem` on the bytes of one item (the model's `mapIdx`) -/
def signFix (sB : Nat) (sign : Bool) (sem : Nat) (bytes : List Nat) : List Nat :=
  bytes.mapIdx fun j b =>
    if j < sB then (if sign then 255 else 0)
    else if j = sB then (if sign then (b ||| sem) % 256 else b &&& (255 ^^^ sem))
    else b

theorem signFix_eq (sign : Bool) (sem : Nat) (bs1 : List Nat) (x : Nat) (bs2 : List Nat) :
    signFix bs1.length sign sem (bs1 ++ x :: bs2) =
      List.replicate bs1.length (if sign then 255 else 0) ++ (if sign then (x ||| sem) % 256 else x &&& (255 ^^^ sem)) :: bs2 := by
  unfold signFix
  rw [List.mapIdx_eq_iff]
  intro i
  by_cases h1 : i < bs1.length
  · rw [List.getElem?_append_left (by simp; exact h1), List.getElem?_append_left h1]
    simp [List.getElem?_replicate, h1]
  · by_cases h2 : i = bs1.length
    · subst h2
      rw [List.getElem?_append_right (by simp), List.getElem?_append_right (by simp)]
      simp
    · rw [List.getElem?_append_right (by simp; omega), List.getElem?_append_right (by omega)]
      simp only [List.length_replicate]
      have : i - bs1.length = (i - bs1.length - 1) + 1 := by omega
      rw [this, List.getElem?_cons_succ, List.getElem?_cons_succ]
      cases bs2[i - bs1.length - 1]? <;> simp [h1, h2]

/-- the buffer surgery of the sign extension: `pre`, the item's bytes `bs1 ++ x :: bs2`, `post`; the bytes before the sign byte are overwritten
    with `F`, the sign byte with `newb` -/
theorem fix_buffer (pre post : List Int) (bs1 : List Int) (x : Int) (bs2 : List Int) (F newb : Int) :
    let b2 := pre ++ (bs1 ++ x :: bs2) ++ post
    let b3 := b2.take pre.length ++ List.replicate bs1.length F ++ b2.drop (pre.length + bs1.length)
    b3.getD (pre.length + bs1.length) 0 = x ∧ pre.length + bs1.length < b3.length ∧
      b3.set (pre.length + bs1.length) newb = pre ++ (List.replicate bs1.length F ++ newb :: bs2) ++ post := by
  intro b2 b3
  have e1 : b2.take pre.length = pre := by simp [b2, List.append_assoc]
  have e2 : b2.drop (pre.length + bs1.length) = x :: bs2 ++ post := by
    have : b2 = (pre ++ bs1) ++ (x :: bs2 ++ post) := by simp [b2, List.append_assoc]
    rw [this, List.drop_left' (by simp)]
  have e3 : b3 = (pre ++ List.replicate bs1.length F) ++ (x :: (bs2 ++ post)) := by simp [b3, e1, e2, List.append_assoc]
  have hl : (pre ++ List.replicate bs1.length F).length = pre.length + bs1.length := by simp
  refine ⟨?_, ?_, ?_⟩
  · rw [e3, List.getD_eq_getElem?_getD, List.getElem?_append_right (by rw [hl]; exact Nat.le_refl _), hl]; simp
  · rw [e3]; simp
  · rw [e3, ← hl, List.set_append_right _ _ (Nat.le_refl _)]; simp [List.append_assoc]


theorem length_takeFields (bits : List Bool) (ws : List Nat) : (takeFields bits ws).length = ws.length := by
  induction ws generalizing bits with
  | nil => rfl
  | cons w ws ih => simp [takeFields, ih]

theorem decBytes_length (sB sM : Nat) : ∀ (mis : List MaskInfo) (mbs : List Nat) (bits : List Bool) (j : Nat) (sb : Option Bool),
    mbs.length = mis.length → (decBytes sB sM j mis mbs (takeFields bits (widths mis)) sb).1.length = mis.length := by
  intro mis
  induction mis with
  | nil => intro mbs bits j sb _; simp [decBytes]
  | cons m mis ih =>
    intro mbs bits j sb h
    cases mbs with
    | nil => simp at h
    | cons mb mbs =>
      simp only [List.length_cons, Nat.add_right_cancel_iff] at h
      by_cases hl : m.length > 0
      · have hw : widths (m :: mis) = m.length :: widths mis := by simp [widths, hl]
        simp only [hw, takeFields, decBytes, hl, if_true, List.length_cons]
        rw [ih mbs _ _ _ h]
      · have hw : widths (m :: mis) = widths mis := by simp [widths, hl]
        simp only [hw, decBytes, hl, if_false, List.length_cons]
        rw [ih mbs _ _ _ h]

theorem decByte_lt (m : MaskInfo) (mb v : Nat) : decByte m mb v < 256 := Nat.mod_lt _ (by omega)

theorem decBytes_lt (sB sM : Nat) : ∀ (mis : List MaskInfo) (mbs : List Nat) (vals : List Nat) (j : Nat) (sb : Option Bool),
    (∀ x ∈ mbs, x < 256) → ∀ y ∈ (decBytes sB sM j mis mbs vals sb).1, y < 256 := by
  intro mis
  induction mis with
  | nil => intro mbs vals j sb _ y hy; simp [decBytes] at hy
  | cons m mis ih =>
    intro mbs vals j sb h y hy
    cases mbs with
    | nil => simp [decBytes] at hy
    | cons mb mbs =>
      by_cases hl : m.length > 0
      · cases vals with
        | nil => simp [decBytes, hl] at hy
        | cons v vs =>
          simp only [decBytes, hl, if_true, List.mem_cons] at hy
          rcases hy with hy | hy
          · subst hy; exact decByte_lt _ _ _
          · exact ih mbs vs _ _ (fun x hx => h x (by simp [hx])) y hy
      · simp only [decBytes, hl, if_false, List.mem_cons] at hy
        rcases hy with hy | hy
        · subst hy; exact h _ (by simp)
        · exact ih mbs vals _ _ (fun x hx => h x (by simp [hx])) y hy

theorem maskBuf_lt (c : Cfg) : ∀ x ∈ maskBuf c, x < 256 := by
  intro x hx
  unfold maskBuf at hx
  obtain ⟨m, _, rfl⟩ := List.mem_map.mp hx
  split
  · have : 255 &&& (255 ^^^ (m.mask % 256)) ≤ 255 := Nat.and_le_left
    omega
  · omega

theorem length_maskBuf (c : Cfg) : (maskBuf c).length = c.ntSize := by simp [maskBuf, length_maskInfos]

/-- `decItem` before the conversion to bytes -/
def decItemN (c : Cfg) (vals : List Nat) (prev : Bool) : List Nat × Bool :=
  let sem := (255 ^^^ (arr32 (c.maskOff % 8) % 256))
  let sB := c.ntSize - ((c.maskOff / 8) + 1)
  let sM := arr32 ((c.maskOff % 8) + 1) ^^^ arr32 (c.maskOff % 8)
  let r := decBytes sB sM 0 (maskInfos c) (maskBuf c) vals none
  let sign := r.2.getD prev
  if c.signExt then
    if sign != c.fillOne then (signFix sB sign sem r.1, sign) else (r.1, sign)
  else (r.1, prev)

theorem decItem_eq (c : Cfg) (vals : List Nat) (prev : Bool) :
    decItem c vals prev = ((decItemN c vals prev).1.map UInt8.ofNat, (decItemN c vals prev).2) := by
  unfold decItem decItemN signFix
  simp only
  split <;> (try split) <;> rfl


/-! the item loop body of `HCIcnbit_decode` cut into its fragments (copies of the generated text; `item_body_eq` re-checks them against it) -/

/-- `for (j = 0; j < sign_byte; j++, rbuf2++) *rbuf2 = 0xff;  *rbuf2 |= (uint8)sign_ext_mask;` -/
def fixOnes (fuel : Nat) (s : HCIcnbit_decode.St) : HCIcnbit_decode.St :=
  have s : HCIcnbit_decode.St := HCIcnbit_decode.St.set_j s (0)
  have s : HCIcnbit_decode.St := HCIcnbit_decode.loop3 fuel s
  have s : HCIcnbit_decode.St := HCIcnbit_decode.chk s ((0 : Int) ≤ (s.nbit_buffer.getD (Int.toNat (s.rbuf2)) 0) ∧ (0 : Int) ≤ ((s.sign_ext_mask) % 256))
  have s : HCIcnbit_decode.St := HCIcnbit_decode.chk s (0 ≤ s.rbuf2 ∧ s.rbuf2 < s.nbit_buffer.length)
  have s : HCIcnbit_decode.St := HCIcnbit_decode.St.set_nbit_buffer s (s.nbit_buffer.set (Int.toNat (s.rbuf2)) ((((Int.ofNat (Int.toNat ((s.nbit_buffer.getD (Int.toNat (s.rbuf2)) 0)) ||| Int.toNat (((s.sign_ext_mask) % 256))))) % 256)))
  s

/-- `for (j = 0; j < sign_byte; j++, rbuf2++) *rbuf2 = 0x00;  *rbuf2 &= (uint8)~sign_ext_mask;` -/
def fixZeros (fuel : Nat) (s : HCIcnbit_decode.St) : HCIcnbit_decode.St :=
  have s : HCIcnbit_decode.St := HCIcnbit_decode.St.set_j s (0)
  have s : HCIcnbit_decode.St := HCIcnbit_decode.loop4 fuel s
  have s : HCIcnbit_decode.St := HCIcnbit_decode.chk s ((0 : Int) ≤ (s.nbit_buffer.getD (Int.toNat (s.rbuf2)) 0) ∧ (0 : Int) ≤ (((((-(s.sign_ext_mask) - 1)) % 4294967296)) % 256))
  have s : HCIcnbit_decode.St := HCIcnbit_decode.chk s (0 ≤ s.rbuf2 ∧ s.rbuf2 < s.nbit_buffer.length)
  have s : HCIcnbit_decode.St := HCIcnbit_decode.St.set_nbit_buffer s (s.nbit_buffer.set (Int.toNat (s.rbuf2)) ((((Int.ofNat (Int.toNat ((s.nbit_buffer.getD (Int.toNat (s.rbuf2)) 0)) &&& Int.toNat ((((((-(s.sign_ext_mask) - 1)) % 4294967296)) % 256))))) % 256)))
  s

/-- `if (sign_bit != nbit_info->fill_one) { rbuf2 = rbuf; if (sign_bit == 1) … else … }` -/
def signFixC (fuel : Nat) (s : HCIcnbit_decode.St) : HCIcnbit_decode.St :=
  if (s.sign_bit ≠ s.nbit_fill_one) then
    have s : HCIcnbit_decode.St := HCIcnbit_decode.St.set_rbuf2 s (s.rbuf)
    if (s.sign_bit = 1) then fixOnes fuel s else fixZeros fuel s
  else s

/-- the sign-extending branch for one item -/
def itemSE (fuel : Nat) (s : HCIcnbit_decode.St) : HCIcnbit_decode.St :=
  have s : HCIcnbit_decode.St := HCIcnbit_decode.St.set_rbuf2 s (s.rbuf)
  have s : HCIcnbit_decode.St := HCIcnbit_decode.St.set_j s (0)
  have s : HCIcnbit_decode.St := HCIcnbit_decode.loop2 fuel s
  have s : HCIcnbit_decode.St := signFixC fuel s
  HCIcnbit_decode.St.set_rbuf s ((s.rbuf + s.nbit_nt_size))

/-- the branch without sign extension -/
def itemNS (fuel : Nat) (s : HCIcnbit_decode.St) : HCIcnbit_decode.St :=
  HCIcnbit_decode.loop5 fuel (HCIcnbit_decode.St.set_j s (0))

theorem item_body_eq (fuel : Nat) (s : HCIcnbit_decode.St) :
    HCIcnbit_decode.loop1.body fuel s =
      (have s1 : HCIcnbit_decode.St := HCIcnbit_decode.St.set_mask_info s (0)
       have s2 : HCIcnbit_decode.St := if (s1.nbit_sign_ext ≠ 0) then itemSE fuel s1 else itemNS fuel s1
       if s2.done then s2 else HCIcnbit_decode.St.set_i s2 ((s2.i + 1))) := rfl

theorem fixOnes_eq (pre post bs1 : List Int) (x sem : Nat) (bs2 : List Int) (fuel : Nat) (s : HCIcnbit_decode.St) (hf : bs1.length ≤ fuel)
    (hx : x < 256) (hq : s.rbuf2 = (pre.length : Int)) (hsb : s.sign_byte = (bs1.length : Int))
    (hbuf : s.nbit_buffer = pre ++ (bs1 ++ (x : Int) :: bs2) ++ post) (hsem : s.sign_ext_mask % 256 = (sem : Int)) (hub : s.ub = false)
    (hdone : s.done = false) :
    fixOnes fuel s = { s with nbit_buffer := pre ++ (List.replicate bs1.length 255 ++ (((x ||| sem) % 256 : Nat) : Int) :: bs2) ++ post,
                              j := (bs1.length : Int), rbuf2 := ((pre.length + bs1.length : Nat) : Int) } := by
  obtain ⟨f1, f2, f3⟩ := fix_buffer pre post bs1 (x : Int) bs2 255 (((x ||| sem) % 256 : Nat) : Int)
  have l3 := dec_loop3 bs1.length 0 pre.length fuel (HCIcnbit_decode.St.set_j s 0) hf rfl (by simp [hsb]) hq
    (by show pre.length + bs1.length ≤ s.nbit_buffer.length; rw [hbuf]; simp) hub hdone
  unfold fixOnes
  simp only [l3]
  obtain ⟨length, buf_i, mask_info, rbuf, rbuf2, orig_length, input_bits, sign_mask, sign_ext_mask, sign_byte, sign_bit, copy_length, buf_size, buf_items,
    i, j, mask_off, nt_size, buf_pos, buf_len, sign_ext, io_pos, fill_one, offset, buffer, mask_buf, lens, io_in, offs, masks, buf, ub, oof, ret, done⟩ := s
  simp only at hq hsb hbuf hsem hub hdone
  subst hq hsb hbuf hub hdone
  have hsem0 : (0 : Int) ≤ sign_ext_mask % 256 := by omega
  have hlt : ((pre.length + bs1.length : Nat) : Int) < ((pre ++ (bs1 ++ (x : Int) :: bs2) ++ post).take pre.length ++ List.replicate bs1.length 255 ++
      (pre ++ (bs1 ++ (x : Int) :: bs2) ++ post).drop (pre.length + bs1.length)).length := Int.ofNat_lt.mpr f2
  simp only [HCIcnbit_decode.chk, HCIcnbit_decode.St.set_j, HCIcnbit_decode.St.set_nbit_buffer, Int.toNat_natCast, f1, hsem, hsem0, hlt,
    Int.natCast_nonneg, Nat.zero_add, and_self, decide_true, Bool.not_true, Bool.or_false, Int.ofNat_eq_natCast, f3]
  have e : ((x ||| sem : Nat) : Int) % 256 = (((x ||| sem) % 256 : Nat) : Int) := by rw [Int.natCast_emod]; rfl
  rw [e, f3]

theorem fixZeros_eq (pre post bs1 : List Int) (x sem : Nat) (bs2 : List Int) (fuel : Nat) (s : HCIcnbit_decode.St) (hf : bs1.length ≤ fuel)
    (hx : x < 256) (hq : s.rbuf2 = (pre.length : Int)) (hsb : s.sign_byte = (bs1.length : Int))
    (hbuf : s.nbit_buffer = pre ++ (bs1 ++ (x : Int) :: bs2) ++ post) (hsem : (-(s.sign_ext_mask) - 1) % 4294967296 % 256 = ((255 ^^^ sem : Nat) : Int)) (hub : s.ub = false)
    (hdone : s.done = false) :
    fixZeros fuel s = { s with nbit_buffer := pre ++ (List.replicate bs1.length (0 : Int) ++ (((x &&& (255 ^^^ sem) : Nat) : Int) :: bs2)) ++ post, j := (bs1.length : Int), rbuf2 := ((pre.length + bs1.length : Nat) : Int) } := by
  obtain ⟨f1, f2, f3⟩ := fix_buffer pre post bs1 (x : Int) bs2 0 ((x &&& (255 ^^^ sem) : Nat) : Int)
  have l3 := dec_loop4 bs1.length 0 pre.length fuel (HCIcnbit_decode.St.set_j s 0) hf rfl (by simp [hsb]) hq
    (by show pre.length + bs1.length ≤ s.nbit_buffer.length; rw [hbuf]; simp) hub hdone
  unfold fixZeros
  simp only [l3]
  obtain ⟨length, buf_i, mask_info, rbuf, rbuf2, orig_length, input_bits, sign_mask, sign_ext_mask, sign_byte, sign_bit, copy_length, buf_size, buf_items,
    i, j, mask_off, nt_size, buf_pos, buf_len, sign_ext, io_pos, fill_one, offset, buffer, mask_buf, lens, io_in, offs, masks, buf, ub, oof, ret, done⟩ := s
  simp only at hq hsb hbuf hsem hub hdone
  subst hq hsb hbuf hub hdone
  have hsem0 : (0 : Int) ≤ (-(sign_ext_mask) - 1) % 4294967296 % 256 := by omega
  have hlt : ((pre.length + bs1.length : Nat) : Int) < ((pre ++ (bs1 ++ (x : Int) :: bs2) ++ post).take pre.length ++ List.replicate bs1.length 0 ++
      (pre ++ (bs1 ++ (x : Int) :: bs2) ++ post).drop (pre.length + bs1.length)).length := Int.ofNat_lt.mpr f2
  simp only [HCIcnbit_decode.chk, HCIcnbit_decode.St.set_j, HCIcnbit_decode.St.set_nbit_buffer, Int.toNat_natCast, f1, hsem, hsem0, hlt,
    Int.natCast_nonneg, Nat.zero_add, and_self, decide_true, Bool.not_true, Bool.or_false, Int.ofNat_eq_natCast, f3]
  have e : ((x &&& (255 ^^^ sem) : Nat) : Int) % 256 = ((x &&& (255 ^^^ sem) : Nat) : Int) := by
    have : x &&& (255 ^^^ sem) ≤ x := Nat.and_le_left
    omega
  rw [e, f3]

theorem b2i_ne (a b : Bool) : (b2i a ≠ b2i b) ↔ ((a != b) = true) := by cases a <;> cases b <;> simp [b2i]

/-- the sign extension of one item, on the bytes `bytes` the per-byte loop left at `pre.length` in the expansion buffer -/
theorem signFixC_eq (pre post : List Int) (bytes : List Nat) (sB sem : Nat) (sign fill : Bool) (fuel : Nat) (s : HCIcnbit_decode.St)
    (hf : sB ≤ fuel) (hsB : sB < bytes.length) (hlt : ∀ y ∈ bytes, y < 256)
    (hr : s.rbuf = (pre.length : Int)) (hsb : s.sign_byte = (sB : Int))
    (hbuf : s.nbit_buffer = pre ++ bytes.map (fun (y : Nat) => (y : Int)) ++ post)
    (hsem1 : s.sign_ext_mask % 256 = (sem : Int)) (hsem2 : (-(s.sign_ext_mask) - 1) % 4294967296 % 256 = ((255 ^^^ sem : Nat) : Int))
    (hsign : s.sign_bit = b2i sign) (hfill : s.nbit_fill_one = b2i fill) (hub : s.ub = false) (hdone : s.done = false) :
    ∃ j' rb2' : Int, signFixC fuel s =
      { s with nbit_buffer := pre ++ (if sign != fill then signFix sB sign sem bytes else bytes).map (fun (y : Nat) => (y : Int)) ++ post,
               j := j', rbuf2 := rb2' } := by
  by_cases hd : (sign != fill) = true
  · have hne : s.sign_bit ≠ s.nbit_fill_one := by rw [hsign, hfill]; exact (b2i_ne _ _).mpr hd
    have hsplit : bytes = bytes.take sB ++ bytes[sB] :: bytes.drop (sB + 1) := by
      rw [← List.drop_eq_getElem_cons, List.take_append_drop]
    have hxlt : bytes[sB] < 256 := hlt _ (List.getElem_mem _)
    generalize hb1 : bytes.take sB = bs1 at hsplit
    generalize hxx : bytes[sB] = x at hsplit hxlt
    generalize hb2 : bytes.drop (sB + 1) = bs2 at hsplit
    have hl1 : bs1.length = sB := by rw [← hb1, List.length_take]; omega
    have hmap : bytes.map (fun (y : Nat) => (y : Int)) = bs1.map (fun (y : Nat) => (y : Int)) ++ (x : Int) :: bs2.map (fun (y : Nat) => (y : Int)) := by
      rw [hsplit]; simp
    have hl1' : (bs1.map (fun (y : Nat) => (y : Int))).length = sB := by simp [hl1]
    unfold signFixC
    rw [if_pos hne]
    simp only [hd, if_true]
    rw [hsplit, ← hl1, signFix_eq]
    cases sign with
    | true =>
      have h1 : (HCIcnbit_decode.St.set_rbuf2 s s.rbuf).sign_bit = 1 := by show s.sign_bit = 1; rw [hsign]; rfl
      show ∃ j' rb2', (if (HCIcnbit_decode.St.set_rbuf2 s s.rbuf).sign_bit = 1 then fixOnes fuel (HCIcnbit_decode.St.set_rbuf2 s s.rbuf) else fixZeros fuel (HCIcnbit_decode.St.set_rbuf2 s s.rbuf)) = _
      rw [if_pos h1]
      have key := fixOnes_eq pre post (bs1.map (fun (y : Nat) => (y : Int))) x sem (bs2.map (fun (y : Nat) => (y : Int))) fuel
        (HCIcnbit_decode.St.set_rbuf2 s s.rbuf) (by rw [hl1']; exact hf) hxlt hr (by rw [hl1']; exact hsb) (by show s.nbit_buffer = _; rw [hbuf, hmap])
        hsem1 hub hdone
      rw [key]
      refine ⟨((bs1.map (fun (y : Nat) => (y : Int))).length : Int), ((pre.length + (bs1.map (fun (y : Nat) => (y : Int))).length : Nat) : Int), ?_⟩
      cases s
      simp [HCIcnbit_decode.St.set_rbuf2]
    | false =>
      have h1 : ¬ ((HCIcnbit_decode.St.set_rbuf2 s s.rbuf).sign_bit = 1) := by show ¬ (s.sign_bit = 1); rw [hsign]; decide
      show ∃ j' rb2', (if (HCIcnbit_decode.St.set_rbuf2 s s.rbuf).sign_bit = 1 then fixOnes fuel (HCIcnbit_decode.St.set_rbuf2 s s.rbuf) else fixZeros fuel (HCIcnbit_decode.St.set_rbuf2 s s.rbuf)) = _
      rw [if_neg h1]
      have key := fixZeros_eq pre post (bs1.map (fun (y : Nat) => (y : Int))) x sem (bs2.map (fun (y : Nat) => (y : Int))) fuel
        (HCIcnbit_decode.St.set_rbuf2 s s.rbuf) (by rw [hl1']; exact hf) hxlt hr (by rw [hl1']; exact hsb) (by show s.nbit_buffer = _; rw [hbuf, hmap])
        hsem2 hub hdone
      rw [key]
      refine ⟨((bs1.map (fun (y : Nat) => (y : Int))).length : Int), ((pre.length + (bs1.map (fun (y : Nat) => (y : Int))).length : Nat) : Int), ?_⟩
      cases s
      simp [HCIcnbit_decode.St.set_rbuf2]
  · have he : ¬ (s.sign_bit ≠ s.nbit_fill_one) := by rw [hsign, hfill, b2i_ne]; exact hd
    unfold signFixC
    rw [if_neg he]
    refine ⟨s.j, s.rbuf2, ?_⟩
    simp only [hd, Bool.false_eq_true, if_false]
    cases s
    simp_all


/-- what the item loop of `HCIcnbit_decode` needs of the state -/
structure ItemPre (c : Cfg) (r p : Nat) (bits : List Bool) (prev : Bool) (sem : Nat) (s : HCIcnbit_decode.St) : Prop where
  rbuf : s.rbuf = (r : Int)
  rlen : r + c.ntSize ≤ s.nbit_buffer.length
  nts : s.nbit_nt_size = (c.ntSize : Int)
  tab : TabRel c s.nbit_mask_info_offset s.nbit_mask_info_length s.nbit_mask_info_mask
  filled : ∀ t, t < c.ntSize → s.nbit_buffer.getD (r + t) 0 = (((maskBuf c).getD t 0 : Nat) : Int)
  pos : s.io_pos = (p : Int)
  ple : p ≤ s.io_in.length
  inp : s.io_in.drop p = bitsI bits
  enough : (itemWidths c).sum ≤ bits.length
  ibits : 0 ≤ s.input_bits
  smask : s.sign_mask = ((arr32 ((c.maskOff % 8) + 1) ^^^ arr32 (c.maskOff % 8) : Nat) : Int)
  sbyte : s.sign_byte = ((c.ntSize - ((c.maskOff / 8) + 1) : Nat) : Int)
  sem1 : s.sign_ext_mask % 256 = (sem : Int)
  sem2 : (-(s.sign_ext_mask) - 1) % 4294967296 % 256 = ((255 ^^^ sem : Nat) : Int)
  sbit : s.sign_bit = b2i prev
  sext : (s.nbit_sign_ext ≠ 0) ↔ c.signExt = true
  fill : s.nbit_fill_one = b2i c.fillOne
  ub : s.ub = false
  done : s.done = false


theorem dec_item_se (c : Cfg) (hr : InRange c) (hse : c.signExt = true) (r p : Nat) (bits : List Bool) (prev : Bool) (fuel : Nat) (s : HCIcnbit_decode.St)
    (hf : c.ntSize ≤ fuel) (h : ItemPre c r p bits prev (255 ^^^ (arr32 (c.maskOff % 8) % 256)) s) :
    let it := decItemN c (takeFields bits (itemWidths c)) prev
    ∃ (ib j' mi' rb2' : Int), 0 ≤ ib ∧ HCIcnbit_decode.loop1.body fuel s =
      { s with input_bits := ib, io_pos := (p : Int) + ((itemWidths c).sum : Nat),
               nbit_buffer := s.nbit_buffer.take r ++ it.1.map (fun (x : Nat) => (x : Int)) ++ s.nbit_buffer.drop (r + c.ntSize),
               sign_bit := b2i it.2, j := j', mask_info := mi', rbuf2 := rb2', rbuf := ((r + c.ntSize : Nat) : Int), i := s.i + 1 } := by
  intro it
  obtain ⟨h1, h2, h3, h4, h5, h6, h7, h8, h9, h10, h11, h12, h13, h14, h15, h16, h17, h18, h19⟩ := h
  obtain ⟨r1, r2, r3, r4⟩ := hr
  have c16 : NBIT_MASK_SIZE = 16 := rfl
  obtain ⟨t1, t2, t3, t4, t5⟩ := h4
  have hit : it = decItemN c (takeFields bits (itemWidths c)) prev := rfl
  unfold decItemN at hit
  simp only [hse, if_true] at hit
  generalize hsB : c.ntSize - ((c.maskOff / 8) + 1) = sB at *
  generalize hsM : arr32 ((c.maskOff % 8) + 1) ^^^ arr32 (c.maskOff % 8) = sM at *
  generalize hsem : 255 ^^^ (arr32 (c.maskOff % 8) % 256) = sem at *
  have hsBlt : sB < c.ntSize := by omega
  rw [item_body_eq]
  have hne : (HCIcnbit_decode.St.set_mask_info s 0).nbit_sign_ext ≠ 0 := by show s.nbit_sign_ext ≠ 0; exact h16.mpr hse
  simp only [if_pos hne]
  unfold itemSE
  -- the per-byte loop
  have l2 := dec_loop2 sB sM prev (maskInfos c) (maskBuf c) 0 r p bits none fuel
    (HCIcnbit_decode.St.set_j (HCIcnbit_decode.St.set_rbuf2 (HCIcnbit_decode.St.set_mask_info s 0) (HCIcnbit_decode.St.set_mask_info s 0).rbuf) 0)
    (by rw [length_maskInfos]; exact hf) (by rw [length_maskBuf, length_maskInfos]) (maskInfos_goodEntry c r3 r4) (maskBuf_lt c)
    rfl rfl h1 (by rw [length_maskInfos]; exact h2) (by rw [length_maskInfos]; omega) (by rw [length_maskInfos]; simpa using h3)
    (by simpa [c16] using t1) (by simpa [c16] using t2) (by simpa [c16] using t3)
    (by intro t ht; rw [length_maskInfos] at ht; simpa [mi] using t5 t ht)
    (by intro t ht; rw [length_maskInfos] at ht; exact h5 t ht)
    h6 h7 h8 h9 h10 h11 h12 h15 h18 h19
  rw [length_maskInfos] at l2
  obtain ⟨ib, hib, l2⟩ := l2
  have hDl := decBytes_length sB sM (maskInfos c) (maskBuf c) bits 0 none (by rw [length_maskBuf, length_maskInfos])
  have hDlt := decBytes_lt sB sM (maskInfos c) (maskBuf c) (takeFields bits (widths (maskInfos c))) 0 none (maskBuf_lt c)
  rw [length_maskInfos] at hDl
  have hw : itemWidths c = widths (maskInfos c) := rfl
  rw [hw] at hit
  generalize decBytes sB sM 0 (maskInfos c) (maskBuf c) (takeFields bits (widths (maskInfos c))) none = D at hDl hDlt hit l2
  obtain ⟨bytes, sbo⟩ := D
  simp only at hDl hDlt hit l2
  simp only [l2]
  -- the sign extension
  have hprel : (s.nbit_buffer.take r).length = r := by rw [List.length_take]; omega
  obtain ⟨j', rb2', sf⟩ := signFixC_eq (s.nbit_buffer.take r) (s.nbit_buffer.drop (r + c.ntSize)) bytes sB sem (sbo.getD prev) c.fillOne fuel
    { HCIcnbit_decode.St.set_j (HCIcnbit_decode.St.set_rbuf2 (HCIcnbit_decode.St.set_mask_info s 0) (HCIcnbit_decode.St.set_mask_info s 0).rbuf) 0 with
      input_bits := ib, io_pos := (p : Int) + ((widths (maskInfos c)).sum : Nat),
      nbit_buffer := s.nbit_buffer.take r ++ bytes.map (fun (x : Nat) => (x : Int)) ++ s.nbit_buffer.drop (r + c.ntSize),
      sign_bit := b2i (sbo.getD prev), j := ((0 + c.ntSize : Nat) : Int), mask_info := ((0 + c.ntSize : Nat) : Int), rbuf2 := ((r + c.ntSize : Nat) : Int) }
    (by omega) (by omega) hDlt (by rw [hprel]; exact h1) h12 rfl h13 h14 rfl h17 h18 h19
  rw [sf]
  refine ⟨ib, j', (c.ntSize : Int), rb2', hib, ?_⟩
  have hd : ¬ (s.done = true) := by rw [h19]; simp
  rw [hit]
  cases s
  simp only at h1 h3 h19
  subst h1 h3 h19
  simp [HCIcnbit_decode.St.set_j, HCIcnbit_decode.St.set_rbuf2, HCIcnbit_decode.St.set_mask_info, HCIcnbit_decode.St.set_rbuf, HCIcnbit_decode.St.set_i, hw]
  split <;> simp

theorem dec_item_ns (c : Cfg) (hr : InRange c) (hse : c.signExt = false) (r p : Nat) (bits : List Bool) (prev : Bool) (fuel : Nat) (s : HCIcnbit_decode.St)
    (hf : c.ntSize ≤ fuel) (h : ItemPre c r p bits prev (255 ^^^ (arr32 (c.maskOff % 8) % 256)) s) :
    let it := decItemN c (takeFields bits (itemWidths c)) prev
    ∃ (ib j' mi' rb2' : Int), 0 ≤ ib ∧ HCIcnbit_decode.loop1.body fuel s =
      { s with input_bits := ib, io_pos := (p : Int) + ((itemWidths c).sum : Nat),
               nbit_buffer := s.nbit_buffer.take r ++ it.1.map (fun (x : Nat) => (x : Int)) ++ s.nbit_buffer.drop (r + c.ntSize),
               sign_bit := b2i it.2, j := j', mask_info := mi', rbuf2 := rb2', rbuf := ((r + c.ntSize : Nat) : Int), i := s.i + 1 } := by
  intro it
  obtain ⟨h1, h2, h3, h4, h5, h6, h7, h8, h9, h10, h11, h12, h13, h14, h15, h16, h17, h18, h19⟩ := h
  obtain ⟨r1, r2, r3, r4⟩ := hr
  have c16 : NBIT_MASK_SIZE = 16 := rfl
  obtain ⟨t1, t2, t3, t4, t5⟩ := h4
  have hit : it = decItemN c (takeFields bits (itemWidths c)) prev := rfl
  unfold decItemN at hit
  simp only [hse, Bool.false_eq_true, if_false] at hit
  generalize hsB : c.ntSize - ((c.maskOff / 8) + 1) = sB at *
  generalize hsM : arr32 ((c.maskOff % 8) + 1) ^^^ arr32 (c.maskOff % 8) = sM at *
  rw [item_body_eq]
  have hne : ¬ ((HCIcnbit_decode.St.set_mask_info s 0).nbit_sign_ext ≠ 0) := by
    show ¬ (s.nbit_sign_ext ≠ 0)
    intro hx; have := h16.mp hx; rw [hse] at this; cases this
  simp only [if_neg hne]
  unfold itemNS
  have l5 := dec_loop5 sB sM (maskInfos c) (maskBuf c) 0 r p bits none fuel
    (HCIcnbit_decode.St.set_j (HCIcnbit_decode.St.set_mask_info s 0) 0)
    (by rw [length_maskInfos]; exact hf) (by rw [length_maskBuf, length_maskInfos]) (maskInfos_goodEntry c r3 r4) (maskBuf_lt c)
    rfl rfl h1 (by rw [length_maskInfos]; exact h2) (by rw [length_maskInfos]; omega) (by rw [length_maskInfos]; simpa using h3)
    (by simpa [c16] using t1) (by simpa [c16] using t2) (by simpa [c16] using t3)
    (by intro t ht; rw [length_maskInfos] at ht; simpa [mi] using t5 t ht)
    (by intro t ht; rw [length_maskInfos] at ht; exact h5 t ht)
    h6 h7 h8 h9 h10 h18 h19
  rw [length_maskInfos] at l5
  obtain ⟨ib, hib, l5⟩ := l5
  have hw : itemWidths c = widths (maskInfos c) := rfl
  rw [hw] at hit
  simp only [l5]
  refine ⟨ib, (c.ntSize : Int), (c.ntSize : Int), s.rbuf2, hib, ?_⟩
  rw [hit]
  cases s
  simp only at h1 h3 h19 h15
  subst h1 h3 h19 h15
  simp [HCIcnbit_decode.St.set_j, HCIcnbit_decode.St.set_mask_info, HCIcnbit_decode.St.set_i, hw]

/-- **one item** of the refill loop of `HCIcnbit_decode` (one pass through the body of its `for (i = 0; i < buf_items; i++)` loop, either
    branch): the model's `decItem` on the words cut from the bit stream, stored at `rbuf` -/
theorem dec_item (c : Cfg) (hr : InRange c) (r p : Nat) (bits : List Bool) (prev : Bool) (fuel : Nat) (s : HCIcnbit_decode.St)
    (hf : c.ntSize ≤ fuel) (h : ItemPre c r p bits prev (255 ^^^ (arr32 (c.maskOff % 8) % 256)) s) :
    let it := decItemN c (takeFields bits (itemWidths c)) prev
    ∃ (ib j' mi' rb2' : Int), 0 ≤ ib ∧ HCIcnbit_decode.loop1.body fuel s =
      { s with input_bits := ib, io_pos := (p : Int) + ((itemWidths c).sum : Nat),
               nbit_buffer := s.nbit_buffer.take r ++ it.1.map (fun (x : Nat) => (x : Int)) ++ s.nbit_buffer.drop (r + c.ntSize),
               sign_bit := b2i it.2, j := j', mask_info := mi', rbuf2 := rb2', rbuf := ((r + c.ntSize : Nat) : Int), i := s.i + 1 } := by
  cases hse : c.signExt with
  | true => exact dec_item_se c hr hse r p bits prev fuel s hf h
  | false => exact dec_item_ns c hr hse r p bits prev fuel s hf h


theorem length_decItemN (c : Cfg) (bits : List Bool) (prev : Bool) : (decItemN c (takeFields bits (itemWidths c)) prev).1.length = c.ntSize := by
  have h := decBytes_length (c.ntSize - ((c.maskOff / 8) + 1)) (arr32 ((c.maskOff % 8) + 1) ^^^ arr32 (c.maskOff % 8)) (maskInfos c) (maskBuf c) bits 0 none
    (by rw [length_maskBuf, length_maskInfos])
  rw [length_maskInfos] at h
  have hw : itemWidths c = widths (maskInfos c) := rfl
  unfold decItemN
  simp only [hw]
  split
  · split
    · simp only [signFix, List.length_mapIdx]; exact h
    · exact h
  · exact h

theorem decItemN_lt (c : Cfg) (vals : List Nat) (prev : Bool) : ∀ y ∈ (decItemN c vals prev).1, y < 256 := by
  have h := decBytes_lt (c.ntSize - ((c.maskOff / 8) + 1)) (arr32 ((c.maskOff % 8) + 1) ^^^ arr32 (c.maskOff % 8)) (maskInfos c) (maskBuf c) vals 0 none
    (maskBuf_lt c)
  intro y hy
  unfold decItemN at hy
  simp only at hy
  split at hy
  · split at hy
    · unfold signFix at hy
      obtain ⟨i, hi, rfl⟩ := List.mem_mapIdx.mp hy
      split
      · split <;> omega
      · split
        · split
          · exact Nat.mod_lt _ (by omega)
          · have := h _ (List.getElem_mem hi)
            have h2 : (decBytes (c.ntSize - (c.maskOff / 8 + 1)) (arr32 (c.maskOff % 8 + 1) ^^^ arr32 (c.maskOff % 8)) 0 (maskInfos c) (maskBuf c) vals none).fst[i] &&&
                (255 ^^^ (255 ^^^ arr32 (c.maskOff % 8) % 256)) ≤ _ := Nat.and_le_left
            omega
        · exact h _ (List.getElem_mem hi)
    · exact h y hy
  · exact h y hy

/-- `k` items expanded from a bit stream (the model's `refillItems` on the bits still to be delivered) -/
def refillBits (c : Cfg) : Nat → List Bool → Bool → List Nat × Bool
  | 0, _, sg => ([], sg)
  | k + 1, bits, sg =>
    let it := decItemN c (takeFields bits (itemWidths c)) sg
    let r := refillBits c k (bits.drop (itemWidths c).sum) it.2
    (it.1 ++ r.1, r.2)

theorem length_refillBits (c : Cfg) : ∀ (k : Nat) (bits : List Bool) (sg : Bool), (refillBits c k bits sg).1.length = k * c.ntSize := by
  intro k
  induction k with
  | zero => intros; simp [refillBits]
  | succ k ih => intro bits sg; simp only [refillBits, List.length_append, length_decItemN, ih]; rw [Nat.add_mul]; omega

theorem refillBits_lt (c : Cfg) : ∀ (k : Nat) (bits : List Bool) (sg : Bool), ∀ y ∈ (refillBits c k bits sg).1, y < 256 := by
  intro k
  induction k with
  | zero => intro bits sg y hy; simp [refillBits] at hy
  | succ k ih =>
    intro bits sg y hy
    simp only [refillBits, List.mem_append] at hy
    rcases hy with hy | hy
    · exact decItemN_lt c _ _ y hy
    · exact ih _ _ y hy

/-- what the refill loop of `HCIcnbit_decode` (`k` items still to expand at `rbuf = r`) needs of the state -/
structure LoopPre (c : Cfg) (k r p : Nat) (bits : List Bool) (prev : Bool) (s : HCIcnbit_decode.St) : Prop where
  rbuf : s.rbuf = (r : Int)
  rlen : r + k * c.ntSize ≤ s.nbit_buffer.length
  nts : s.nbit_nt_size = (c.ntSize : Int)
  tab : TabRel c s.nbit_mask_info_offset s.nbit_mask_info_length s.nbit_mask_info_mask
  filled : ∀ t, t < k * c.ntSize → s.nbit_buffer.getD (r + t) 0 = (((maskBuf c).getD (t % c.ntSize) 0 : Nat) : Int)
  pos : s.io_pos = (p : Int)
  ple : p ≤ s.io_in.length
  inp : s.io_in.drop p = bitsI bits
  enough : k * (itemWidths c).sum ≤ bits.length
  ibits : 0 ≤ s.input_bits
  smask : s.sign_mask = ((arr32 ((c.maskOff % 8) + 1) ^^^ arr32 (c.maskOff % 8) : Nat) : Int)
  sbyte : s.sign_byte = ((c.ntSize - ((c.maskOff / 8) + 1) : Nat) : Int)
  sem1 : s.sign_ext_mask % 256 = ((255 ^^^ (arr32 (c.maskOff % 8) % 256) : Nat) : Int)
  sem2 : (-(s.sign_ext_mask) - 1) % 4294967296 % 256 = ((255 ^^^ (255 ^^^ (arr32 (c.maskOff % 8) % 256)) : Nat) : Int)
  sbit : s.sign_bit = b2i prev
  sext : (s.nbit_sign_ext ≠ 0) ↔ c.signExt = true
  fill : s.nbit_fill_one = b2i c.fillOne
  ub : s.ub = false
  done : s.done = false

theorem LoopPre.item {c : Cfg} {k r p : Nat} {bits : List Bool} {prev : Bool} {s : HCIcnbit_decode.St} (h : LoopPre c (k + 1) r p bits prev s)
    (hn : 0 < c.ntSize) : ItemPre c r p bits prev (255 ^^^ (arr32 (c.maskOff % 8) % 256)) s := by
  obtain ⟨h1, h2, h3, h4, h5, h6, h7, h8, h9, h10, h11, h12, h13, h14, h15, h16, h17, h18, h19⟩ := h
  refine ⟨h1, ?_, h3, h4, ?_, h6, h7, h8, ?_, h10, h11, h12, h13, h14, h15, h16, h17, h18, h19⟩
  · rw [Nat.add_mul] at h2; omega
  · intro t ht
    have := h5 t (by rw [Nat.add_mul]; omega)
    rwa [Nat.mod_eq_of_lt ht] at this
  · rw [Nat.add_mul] at h9; omega

theorem dec_loop1_stop (fuel : Nat) (s : HCIcnbit_decode.St) (h : ¬ ((s.i < s.buf_items) ∧ ¬(s.done))) : HCIcnbit_decode.loop1 fuel s = s := by
  cases fuel <;> rw [HCIcnbit_decode.loop1] <;> simp only [h, if_false]

theorem dec_loop1_succ (fuel : Nat) (s : HCIcnbit_decode.St) (h : (s.i < s.buf_items) ∧ ¬(s.done)) :
    HCIcnbit_decode.loop1 (fuel + 1) s = HCIcnbit_decode.loop1 fuel (HCIcnbit_decode.loop1.body (fuel + 1) s) := by
  rw [HCIcnbit_decode.loop1]; simp [h]

/-- **the refill loop** `for (i = 0; i < buf_items; i++)` of `HCIcnbit_decode`: `k` items, the model's `refillItems` on the bits to come -/
theorem dec_loop1 (c : Cfg) (hr : InRange c) (hn : 0 < c.ntSize) : ∀ (k i0 r p : Nat) (bits : List Bool) (prev : Bool) (fuel : Nat) (s : HCIcnbit_decode.St),
    k + c.ntSize ≤ fuel → s.i = (i0 : Int) → s.buf_items = ((i0 + k : Nat) : Int) → LoopPre c k r p bits prev s →
    ∃ (ib j' mi' rb2' : Int), 0 ≤ ib ∧ HCIcnbit_decode.loop1 fuel s =
      { s with input_bits := ib, io_pos := (p : Int) + ((k * (itemWidths c).sum : Nat) : Int),
               nbit_buffer := s.nbit_buffer.take r ++ (refillBits c k bits prev).1.map (fun (x : Nat) => (x : Int)) ++ s.nbit_buffer.drop (r + k * c.ntSize),
               sign_bit := b2i (refillBits c k bits prev).2, j := j', mask_info := mi', rbuf2 := rb2', rbuf := ((r + k * c.ntSize : Nat) : Int),
               i := ((i0 + k : Nat) : Int) } := by
  intro k
  induction k with
  | zero =>
    intro i0 r p bits prev fuel s _ hi hbi h
    have hstop : ¬ ((s.i < s.buf_items) ∧ ¬(s.done)) := by rw [hi, hbi]; simp
    rw [dec_loop1_stop fuel s hstop]
    refine ⟨s.input_bits, s.j, s.mask_info, s.rbuf2, h.ibits, ?_⟩
    have h1 := h.rbuf; have h2 := h.pos; have h3 := h.sbit
    cases s
    simp_all [refillBits]
  | succ k ih =>
    intro i0 r p bits prev fuel s hf hi hbi h
    cases fuel with
    | zero => omega
    | succ fuel =>
      have hc : (s.i < s.buf_items) ∧ ¬(s.done) := by rw [hi, hbi, h.done]; simp; omega
      rw [dec_loop1_succ fuel s hc]
      obtain ⟨ib, j', mi', rb2', hib, hbody⟩ := dec_item c hr r p bits prev (fuel + 1) s (by omega) (h.item hn)
      generalize HCIcnbit_decode.loop1.body (fuel + 1) s = s1 at hbody
      generalize hIt : decItemN c (takeFields bits (itemWidths c)) prev = it at hbody
      have hitl : it.1.length = c.ntSize := by rw [← hIt]; exact length_decItemN c bits prev
      obtain ⟨h1, h2, h3, h4, h5, h6, h7, h8, h9, h10, h11, h12, h13, h14, h15, h16, h17, h18, h19⟩ := h
      have hrl : r ≤ s.nbit_buffer.length := by omega
      have hpre : LoopPre c k (r + c.ntSize) (p + (itemWidths c).sum) (bits.drop (itemWidths c).sum) it.2 s1 := by
        subst hbody
        refine ⟨by simp, ?_, h3, h4, ?_, by simp, ?_, ?_, ?_, hib, h11, h12, h13, h14, rfl, h16, h17, h18, h19⟩
        · simp only [List.length_append, List.length_take, List.length_map, List.length_drop, hitl]
          rw [Nat.add_mul] at h2; omega
        · intro t ht
          simp only
          rw [List.getD_eq_getElem?_getD, List.getElem?_append_right (by simp [hitl]; omega)]
          simp only [List.length_append, List.length_take, List.length_map, hitl, Nat.min_eq_left hrl, List.getElem?_drop]
          have := h5 (c.ntSize + t) (by rw [Nat.add_mul]; omega)
          rw [Nat.add_mod_left] at this
          rw [← this, List.getD_eq_getElem?_getD]
          congr 2; omega
        · simp only
          have := bitread_ok_len s.io_in p bits (itemWidths c).sum h8 h7 (by rw [Nat.add_mul] at h9; omega)
          omega
        · exact bitread_drop s.io_in p bits (itemWidths c).sum h8
        · simp only [List.length_drop]; rw [Nat.add_mul] at h9; omega
      obtain ⟨ib2, j2, mi2, rb22, hib2, hloop⟩ := ih (i0 + 1) (r + c.ntSize) (p + (itemWidths c).sum) (bits.drop (itemWidths c).sum) it.2 fuel s1
        (by omega) (by subst hbody; simp [hi]) (by subst hbody; simp [hbi]; omega) hpre
      refine ⟨ib2, j2, mi2, rb22, hib2, ?_⟩
      rw [hloop]
      subst hbody
      simp only [refillBits, hIt, List.map_append]
      have e1 : (s.nbit_buffer.take r ++ it.1.map (fun (x : Nat) => (x : Int)) ++ s.nbit_buffer.drop (r + c.ntSize)).take (r + c.ntSize) =
          s.nbit_buffer.take r ++ it.1.map (fun (x : Nat) => (x : Int)) := by
        rw [List.take_append_of_le_length (by simp [hitl]; omega), List.take_of_length_le (by simp [hitl]; omega)]
      have e2 : (s.nbit_buffer.take r ++ it.1.map (fun (x : Nat) => (x : Int)) ++ s.nbit_buffer.drop (r + c.ntSize)).drop (r + c.ntSize + k * c.ntSize) =
          s.nbit_buffer.drop (r + (k + 1) * c.ntSize) := by
        have hl : (s.nbit_buffer.take r ++ it.1.map (fun (x : Nat) => (x : Int))).length = r + c.ntSize := by simp [hitl]; omega
        rw [← List.drop_drop, List.drop_left' hl, List.drop_drop]
        congr 1; rw [Nat.add_mul]; omega
      rw [e1, e2]
      have a1 : r + c.ntSize + k * c.ntSize = r + (k + 1) * c.ntSize := by rw [Nat.add_mul]; omega
      have a2 : i0 + 1 + k = i0 + (k + 1) := by omega
      have a3 : ((p + (itemWidths c).sum : Nat) : Int) + ((k * (itemWidths c).sum : Nat) : Int) = (p : Int) + (((k + 1) * (itemWidths c).sum : Nat) : Int) := by
        rw [Nat.add_mul, Nat.one_mul]; push_cast; omega
      simp only [a1, a2, a3, List.append_assoc]


theorem itemWidths_ok (c : Cfg) (h1 : 1 ≤ c.maskLen) (h : c.maskLen ≤ c.maskOff + 1) : ∀ w ∈ itemWidths c, 1 ≤ w ∧ w ≤ 32 := by
  intro w hw
  unfold itemWidths at hw
  obtain ⟨m, hm, hw⟩ := List.mem_filterMap.mp hw
  have hg := maskInfos_goodEntry c h1 h m hm
  split at hw
  · cases hw; obtain ⟨g1, g2, _⟩ := hg; omega
  · cases hw

/-- the model's `refillItems` (through the real bit layer) delivers what `refillBits` computes from the bits still to come -/
theorem refillItems_bits (c : Cfg) (hw : ∀ w ∈ itemWidths c, 1 ≤ w ∧ w ≤ 32) : ∀ (k : Nat) (st : H4.BitIO.St) (sg : Bool), RInv st →
    k * (itemWidths c).sum ≤ (avail st).length →
    ∃ st', refillItems c k st sg = some ((refillBits c k (avail st) sg).1.map UInt8.ofNat, st', (refillBits c k (avail st) sg).2) ∧ RInv st' ∧
      avail st' = (avail st).drop (k * (itemWidths c).sum) := by
  intro k
  induction k with
  | zero => intro st sg hr _; exact ⟨st, by simp [refillItems, refillBits], hr, by simp⟩
  | succ k ih =>
    intro st sg hr hlen
    rw [Nat.add_mul, Nat.one_mul] at hlen
    obtain ⟨st1, e1, r1, a1⟩ := readFieldsS_ok (itemWidths c) st hr hw (by omega)
    obtain ⟨st2, e2, r2, a2⟩ := ih st1 (decItemN c (takeFields (avail st) (itemWidths c)) sg).2 r1 (by rw [a1]; simp; omega)
    refine ⟨st2, ?_, r2, ?_⟩
    · simp only [refillItems, e1, decItem_eq, e2, a1, refillBits, List.map_append]
    · rw [a2, a1, List.drop_drop, Nat.add_mul, Nat.one_mul, Nat.add_comm]

theorem getD_replicate_flatten (l : List Int) (hl : 0 < l.length) : ∀ (k t : Nat), t < k * l.length →
    (List.replicate k l).flatten.getD t 0 = l.getD (t % l.length) 0 := by
  intro k
  induction k with
  | zero => intro t h; simp at h
  | succ k ih =>
    intro t h
    rw [List.replicate_succ, List.flatten_cons]
    by_cases ht : t < l.length
    · rw [List.getD_eq_getElem?_getD, List.getElem?_append_left ht, Nat.mod_eq_of_lt ht, ← List.getD_eq_getElem?_getD]
    · have hk : t - l.length < k * l.length := by rw [Nat.add_mul, Nat.one_mul] at h; omega
      rw [List.getD_eq_getElem?_getD, List.getElem?_append_right (by omega), ← List.getD_eq_getElem?_getD, ih (t - l.length) hk]
      congr 1
      exact (Nat.mod_eq_sub_mod (by omega)).symm

/-! the body of the `while (length > 0)` loop of `HCIcnbit_decode` cut into its fragments (copies of the generated text; `body0_eq` re-checks them) -/

/-- the re-fill of the expansion buffer up to the item loop -/
def refillPre (s : HCIcnbit_decode.St) : HCIcnbit_decode.St :=
  have s : HCIcnbit_decode.St := HCIcnbit_decode.St.set_buf_size s ((if ((16 * 64) < s.length) then (16 * 64) else s.length))
  have s : HCIcnbit_decode.St := HCIcnbit_decode.chk s (s.nbit_nt_size ≠ 0)
  have s : HCIcnbit_decode.St := HCIcnbit_decode.chk s (¬(((Int.tdiv s.buf_size s.nbit_nt_size) > 1)) ∨ (s.nbit_nt_size ≠ 0))
  have s : HCIcnbit_decode.St := HCIcnbit_decode.St.set_buf_items s ((if ((Int.tdiv s.buf_size s.nbit_nt_size) > 1) then (Int.tdiv s.buf_size s.nbit_nt_size) else 1))
  have s : HCIcnbit_decode.St := HCIcnbit_decode.St.set_buf_size s ((s.buf_items * s.nbit_nt_size))
  have s : HCIcnbit_decode.St := HCIcnbit_decode.St.set_rbuf s (0)
  have s : HCIcnbit_decode.St := HCIcnbit_decode.chk s (((s.nbit_nt_size) % 4294967296) = 0 ∨ ((s.buf_items) % 4294967296) = 0 ∨ (0 ≤ s.rbuf ∧ s.rbuf + ((s.buf_items) % 4294967296) * ((s.nbit_nt_size) % 4294967296) ≤ s.nbit_buffer.length ∧ 0 ≤ 0 ∧ 0 + ((s.nbit_nt_size) % 4294967296) ≤ s.nbit_mask_buf.length))
  have s : HCIcnbit_decode.St := HCIcnbit_decode.St.set_nbit_buffer s ((s.nbit_buffer.take (Int.toNat (s.rbuf))) ++ (List.replicate (Int.toNat (((s.buf_items) % 4294967296))) ((s.nbit_mask_buf.drop (Int.toNat (0))).take (Int.toNat (((s.nbit_nt_size) % 4294967296))))).flatten ++ (s.nbit_buffer.drop (Int.toNat (s.rbuf + ((s.buf_items) % 4294967296) * ((s.nbit_nt_size) % 4294967296)))))
  HCIcnbit_decode.St.set_i s (0)

/-- after the item loop: `buf_pos = 0; buf_len = buf_size;` -/
def refillPost (s : HCIcnbit_decode.St) : HCIcnbit_decode.St :=
  have s : HCIcnbit_decode.St := if s.done then s else
    have s : HCIcnbit_decode.St := HCIcnbit_decode.St.set_nbit_buf_pos s (0)
    s
  have s : HCIcnbit_decode.St := if s.done then s else
    have s : HCIcnbit_decode.St := HCIcnbit_decode.St.set_nbit_buf_len s (s.buf_size)
    s
  s

/-- the delivery of expanded bytes: `copy_length = …; memcpy(buf, &buffer[buf_pos], copy_length); buf += …; length -= …; buf_pos += …` -/
def copyC (s : HCIcnbit_decode.St) : HCIcnbit_decode.St :=
  have s : HCIcnbit_decode.St := if s.done then s else
    have s : HCIcnbit_decode.St := HCIcnbit_decode.St.set_copy_length s ((if (s.length > (s.nbit_buf_len - s.nbit_buf_pos)) then (s.nbit_buf_len - s.nbit_buf_pos) else s.length))
    s
  have s : HCIcnbit_decode.St := if s.done then s else
    have s : HCIcnbit_decode.St := HCIcnbit_decode.chk s ((0 : Int) ≤ ((s.copy_length) % 18446744073709551616))
    have s : HCIcnbit_decode.St := HCIcnbit_decode.chk s (0 ≤ s.buf_i ∧ s.buf_i + ((s.copy_length) % 18446744073709551616) ≤ s.buf.length)
    have s : HCIcnbit_decode.St := HCIcnbit_decode.chk s (0 ≤ s.nbit_buf_pos ∧ s.nbit_buf_pos + ((s.copy_length) % 18446744073709551616) ≤ s.nbit_buffer.length)
    have s : HCIcnbit_decode.St := HCIcnbit_decode.St.set_buf s ((s.buf.take (Int.toNat (s.buf_i))) ++ ((s.nbit_buffer.drop (Int.toNat (s.nbit_buf_pos))).take (Int.toNat (((s.copy_length) % 18446744073709551616)))) ++ (s.buf.drop (Int.toNat (s.buf_i + ((s.copy_length) % 18446744073709551616)))))
    s
  have s : HCIcnbit_decode.St := if s.done then s else
    have s : HCIcnbit_decode.St := HCIcnbit_decode.St.set_buf_i s ((s.buf_i + s.copy_length))
    s
  have s : HCIcnbit_decode.St := if s.done then s else
    have s : HCIcnbit_decode.St := HCIcnbit_decode.St.set_length s ((s.length - s.copy_length))
    s
  have s : HCIcnbit_decode.St := if s.done then s else
    have s : HCIcnbit_decode.St := HCIcnbit_decode.St.set_nbit_buf_pos s ((s.nbit_buf_pos + s.copy_length))
    s
  s

theorem body0_eq (fuel : Nat) (s : HCIcnbit_decode.St) :
    HCIcnbit_decode.loop0.body fuel s =
      copyC (if (s.nbit_buf_pos ≥ s.nbit_buf_len) then refillPost (HCIcnbit_decode.loop1 fuel (refillPre s)) else s) := rfl

/-- number of items a re-fill for a request of `len` bytes expands -/
def refillCount (c : Cfg) (len : Nat) : Nat := max (min NBIT_BUF_SIZE len / c.ntSize) 1

theorem refillCount_le (c : Cfg) (hn : 0 < c.ntSize) (hn16 : c.ntSize ≤ 16) (len : Nat) : refillCount c len * c.ntSize ≤ 1024 ∧ 1 ≤ refillCount c len := by
  unfold refillCount
  have c1 : NBIT_BUF_SIZE = 1024 := rfl
  rw [c1]
  have h1 : min 1024 len / c.ntSize * c.ntSize ≤ min 1024 len := Nat.div_mul_le_self _ _
  generalize min 1024 len / c.ntSize = q at h1
  have h2 : min 1024 len ≤ 1024 := Nat.min_le_left _ _
  by_cases h : q ≥ 1
  · rw [Nat.max_eq_left h]; exact ⟨by omega, h⟩
  · have : q = 0 := by omega
    subst this; simp; omega

/-- the state of the re-fill when the item loop starts: `buf_items` items, the expansion buffer pre-filled with copies of `mask_buf` -/
theorem refillPre_eq (c : Cfg) (hn : 0 < c.ntSize) (hn16 : c.ntSize ≤ 16) (len : Nat) (hlen : 0 < len) (s : HCIcnbit_decode.St)
    (hl : s.length = (len : Int)) (hnt : s.nbit_nt_size = (c.ntSize : Int)) (hb : s.nbit_buffer.length = 1024) (hm : s.nbit_mask_buf.length = 16)
    (hub : s.ub = false) :
    refillPre s = { s with buf_size := ((refillCount c len * c.ntSize : Nat) : Int), buf_items := (refillCount c len : Int), rbuf := 0, i := 0,
                           nbit_buffer := (List.replicate (refillCount c len) (s.nbit_mask_buf.take c.ntSize)).flatten ++
                             s.nbit_buffer.drop (refillCount c len * c.ntSize) } := by
  obtain ⟨k1, k2⟩ := refillCount_le c hn hn16 len
  obtain ⟨length, buf_i, mask_info, rbuf, rbuf2, orig_length, input_bits, sign_mask, sign_ext_mask, sign_byte, sign_bit, copy_length, buf_size, buf_items,
    i, j, mask_off, nt_size, buf_pos, buf_len, sign_ext, io_pos, fill_one, offset, buffer, mask_buf, lens, io_in, offs, masks, buf, ub, oof, ret, done⟩ := s
  simp only at hl hnt hb hm hub
  subst hl hnt hub
  have hmin : (if (16 * 64 : Int) < (len : Int) then (16 * 64 : Int) else (len : Int)) = ((min NBIT_BUF_SIZE len : Nat) : Int) := by
    have c1 : NBIT_BUF_SIZE = 1024 := rfl
    rw [c1]; split <;> omega
  have htd : Int.tdiv ((min NBIT_BUF_SIZE len : Nat) : Int) (c.ntSize : Int) = ((min NBIT_BUF_SIZE len / c.ntSize : Nat) : Int) := H4.C2L.tdiv_nat _ _
  have hmax : (if ((min NBIT_BUF_SIZE len / c.ntSize : Nat) : Int) > 1 then ((min NBIT_BUF_SIZE len / c.ntSize : Nat) : Int) else 1) = ((refillCount c len : Nat) : Int) := by
    unfold refillCount; split <;> omega
  have hk1024 : refillCount c len ≤ 1024 := by
    have : refillCount c len * 1 ≤ refillCount c len * c.ntSize := Nat.mul_le_mul_left _ hn
    omega
  have hkm : ((refillCount c len : Nat) : Int) % 4294967296 = ((refillCount c len : Nat) : Int) := by omega
  have hnm : (c.ntSize : Int) % 4294967296 = (c.ntSize : Int) := by omega
  have hn0 : (c.ntSize : Int) ≠ 0 := by omega
  have hk0 : ((refillCount c len : Nat) : Int) ≠ 0 := by omega
  have hmul : ((refillCount c len : Nat) : Int) * (c.ntSize : Int) = ((refillCount c len * c.ntSize : Nat) : Int) := by push_cast; rfl
  have hle : ((refillCount c len * c.ntSize : Nat) : Int) ≤ (buffer.length : Int) := by omega
  have hle2 : (c.ntSize : Int) ≤ (mask_buf.length : Int) := by omega
  simp only [refillPre, HCIcnbit_decode.chk, HCIcnbit_decode.St.set_buf_size, HCIcnbit_decode.St.set_buf_items, HCIcnbit_decode.St.set_rbuf,
    HCIcnbit_decode.St.set_nbit_buffer, HCIcnbit_decode.St.set_i, hmin, htd, hmax, hkm, hnm, hn0, hk0, hmul, hle, hle2]
  have hle' : (0 : Int) + ((refillCount c len * c.ntSize : Nat) : Int) ≤ (buffer.length : Int) := by omega
  have hle2' : (0 : Int) + (c.ntSize : Int) ≤ (mask_buf.length : Int) := by omega
  simp only [Int.toNat_zero, Int.toNat_natCast, Int.zero_add, List.take_zero, List.nil_append, List.drop_zero, hn0, hle', hle2', ne_eq, not_false_eq_true,
    decide_true, Bool.not_true, Bool.or_false, Int.le_refl, and_self, true_and, or_true, false_or, Bool.false_or, hle, hle2]
  rfl


theorem length_replicate_flatten (l : List Int) (k : Nat) : (List.replicate k l).flatten.length = k * l.length := by
  induction k with
  | zero => simp
  | succ k ih => rw [List.replicate_succ, List.flatten_cons, List.length_append, ih, Nat.add_mul]; omega

theorem bytes_map_ofNat (l : List Nat) (h : ∀ y ∈ l, y < 256) : bytes (l.map UInt8.ofNat) = l.map (fun (x : Nat) => (x : Int)) := by
  induction l with
  | nil => rfl
  | cons a l ih =>
    simp only [List.map_cons, H4.Lemmas.C05Rle.bytes_cons]
    rw [ih (fun y hy => h y (by simp [hy]))]
    have : a < 256 := h a (by simp)
    have e : (UInt8.ofNat a).toNat = a := by rw [UInt8.toNat_ofNat']; omega
    rw [e]

/-- the re-fill step of the model's `decodeLoop` -/
def refillD (c : Cfg) (d : Dec) (length : Nat) : Dec :=
  if d.bufPos ≥ d.bufLen then
    let bufItems := max (min NBIT_BUF_SIZE length / c.ntSize) 1
    match refillItems c bufItems d.st d.sign with
    | none => { d with fail := true, bufPos := 0, bufLen := bufItems * c.ntSize }
    | some (items, st, sg) =>
      { d with st := st, sign := sg, buffer := items ++ d.buffer.drop items.length, bufPos := 0, bufLen := bufItems * c.ntSize }
  else d

theorem decodeLoop_succ (c : Cfg) (fuel : Nat) (d : Dec) (length : Nat) (acc : List UInt8) :
    decodeLoop c (fuel + 1) d length acc =
      if length = 0 then (d, acc)
      else
        let d1 := refillD c d length
        let copy := if length > d1.bufLen - d1.bufPos then d1.bufLen - d1.bufPos else length
        decodeLoop c fuel { d1 with bufPos := d1.bufPos + copy } (length - copy) (acc ++ (d1.buffer.drop d1.bufPos).take copy) := rfl

/-- the relation kept by the `while (length > 0)` loop of `HCIcnbit_decode` between the C state and the model's decoder `d`, with `len` bytes
    still to deliver at `buf + bi` -/
structure DInv (c : Cfg) (d : Dec) (len bi : Nat) (s : HCIcnbit_decode.St) : Prop where
  length : s.length = (len : Int)
  bufi : s.buf_i = (bi : Int)
  outlen : bi + len ≤ s.buf.length
  buffer : s.nbit_buffer = bytes d.buffer
  blen : d.buffer.length = 1024
  bpos : s.nbit_buf_pos = (d.bufPos : Int)
  bl : s.nbit_buf_len = (d.bufLen : Int)
  bl1024 : d.bufLen ≤ 1024
  nts : s.nbit_nt_size = (c.ntSize : Int)
  tab : TabRel c s.nbit_mask_info_offset s.nbit_mask_info_length s.nbit_mask_info_mask
  mlen : s.nbit_mask_buf.length = 16
  mbuf : ∀ t, t < c.ntSize → s.nbit_mask_buf.getD t 0 = (((maskBuf c).getD t 0 : Nat) : Int)
  rinv : RInv d.st
  pos : ∃ p : Nat, s.io_pos = (p : Int) ∧ p ≤ s.io_in.length ∧ s.io_in.drop p = bitsI (avail d.st)
  ibits : 0 ≤ s.input_bits
  smask : s.sign_mask = ((arr32 ((c.maskOff % 8) + 1) ^^^ arr32 (c.maskOff % 8) : Nat) : Int)
  sbyte : s.sign_byte = ((c.ntSize - ((c.maskOff / 8) + 1) : Nat) : Int)
  sem1 : s.sign_ext_mask % 256 = ((255 ^^^ (arr32 (c.maskOff % 8) % 256) : Nat) : Int)
  sem2 : (-(s.sign_ext_mask) - 1) % 4294967296 % 256 = ((255 ^^^ (255 ^^^ (arr32 (c.maskOff % 8) % 256)) : Nat) : Int)
  sbit : s.sign_bit = b2i d.sign
  sext : (s.nbit_sign_ext ≠ 0) ↔ c.signExt = true
  fill : s.nbit_fill_one = b2i c.fillOne
  ub : s.ub = false
  done : s.done = false

/-- fields of the C state the loop never changes -/
def Fixed (s s' : HCIcnbit_decode.St) : Prop :=
  s'.oof = s.oof ∧ s'.orig_length = s.orig_length ∧ s'.nbit_offset = s.nbit_offset ∧ s'.ret = s.ret ∧ s'.io_in = s.io_in ∧
  s'.nbit_mask_info_offset = s.nbit_mask_info_offset ∧ s'.nbit_mask_info_length = s.nbit_mask_info_length ∧
  s'.nbit_mask_info_mask = s.nbit_mask_info_mask ∧ s'.nbit_mask_buf = s.nbit_mask_buf ∧ s'.buf.length = s.buf.length

theorem Fixed.refl (s : HCIcnbit_decode.St) : Fixed s s := ⟨rfl, rfl, rfl, rfl, rfl, rfl, rfl, rfl, rfl, rfl⟩
theorem Fixed.trans {a b c : HCIcnbit_decode.St} (h1 : Fixed a b) (h2 : Fixed b c) : Fixed a c := by
  obtain ⟨a1, a2, a3, a4, a5, a6, a7, a8, a9, a10⟩ := h1
  obtain ⟨b1, b2, b3, b4, b5, b6, b7, b8, b9, b10⟩ := h2
  exact ⟨b1.trans a1, b2.trans a2, b3.trans a3, b4.trans a4, b5.trans a5, b6.trans a6, b7.trans a7, b8.trans a8, b9.trans a9, b10.trans a10⟩

theorem refillPost_eq (s : HCIcnbit_decode.St) (h : s.done = false) : refillPost s = { s with nbit_buf_pos := 0, nbit_buf_len := s.buf_size } := by
  unfold refillPost
  simp [h, HCIcnbit_decode.St.set_nbit_buf_pos, HCIcnbit_decode.St.set_nbit_buf_len]

/-- **the re-fill** of the expansion buffer (`buf_pos >= buf_len`): the model's `refillD`, provided the element holds the bits of the items -/
theorem refill_eq (c : Cfg) (hr : InRange c) (hn : 0 < c.ntSize) (d : Dec) (len bi fuel : Nat) (s : HCIcnbit_decode.St) (h : DInv c d len bi s)
    (hlen : 0 < len) (hge : d.bufPos ≥ d.bufLen) (hbits : refillCount c len * (itemWidths c).sum ≤ (avail d.st).length)
    (hf : refillCount c len + c.ntSize ≤ fuel) :
    DInv c (refillD c d len) len bi (refillPost (HCIcnbit_decode.loop1 fuel (refillPre s))) ∧
      Fixed s (refillPost (HCIcnbit_decode.loop1 fuel (refillPre s))) ∧ (refillPost (HCIcnbit_decode.loop1 fuel (refillPre s))).buf = s.buf ∧
      (refillD c d len).fail = d.fail ∧ (refillD c d len).bufPos = 0 ∧ (refillD c d len).bufLen = refillCount c len * c.ntSize ∧
      avail (refillD c d len).st = (avail d.st).drop (refillCount c len * (itemWidths c).sum) := by
  obtain ⟨r1, r2, r3, r4⟩ := hr
  have c16 : NBIT_MASK_SIZE = 16 := rfl
  rw [c16] at r1
  obtain ⟨k1, k2⟩ := refillCount_le c hn r1 len
  obtain ⟨g1, g2, g3, g4, g5, g6, g7, g8, g9, g10, g11, g12, g13, ⟨p, q1, q2, q3⟩, g15, g16, g17, g18, g19, g20, g21, g22, g23, g24⟩ := h
  have hbl : s.nbit_buffer.length = 1024 := by rw [g4, bytes_length, g5]
  rw [refillPre_eq c hn r1 len hlen s g1 g9 hbl g11 g23]
  have hkdef : max (min NBIT_BUF_SIZE len / c.ntSize) 1 = refillCount c len := rfl
  generalize hk : refillCount c len = k at *
  have htk : (s.nbit_mask_buf.take c.ntSize).length = c.ntSize := by rw [List.length_take, g11]; omega
  have hfl : (List.replicate k (s.nbit_mask_buf.take c.ntSize)).flatten.length = k * c.ntSize := by rw [length_replicate_flatten, htk]
  have hpre : LoopPre c k 0 p (avail d.st) d.sign
      { s with buf_size := ((k * c.ntSize : Nat) : Int), buf_items := (k : Int), rbuf := 0, i := 0,
               nbit_buffer := (List.replicate k (s.nbit_mask_buf.take c.ntSize)).flatten ++ s.nbit_buffer.drop (k * c.ntSize) } := by
    refine ⟨rfl, ?_, g9, g10, ?_, q1, q2, q3, hbits, g15, g16, g17, g18, g19, g20, g21, g22, g23, g24⟩
    · simp only [List.length_append, hfl, List.length_drop, hbl]; omega
    · intro t ht
      simp only [Nat.zero_add]
      rw [List.getD_eq_getElem?_getD, List.getElem?_append_left (by rw [hfl]; exact ht), ← List.getD_eq_getElem?_getD,
        getD_replicate_flatten _ (by rw [htk]; exact hn) k t (by rw [htk]; exact ht), htk]
      have hlt : t % c.ntSize < c.ntSize := Nat.mod_lt _ hn
      rw [List.getD_eq_getElem?_getD, List.getElem?_take, if_pos hlt, ← List.getD_eq_getElem?_getD]
      exact g12 _ hlt
  obtain ⟨ib, j', mi', rb2', hib, hloop⟩ := dec_loop1 c ⟨by rw [c16]; exact r1, r2, r3, r4⟩ hn k 0 0 p (avail d.st) d.sign fuel _ hf rfl (by simp) hpre
  rw [hloop, refillPost_eq]
  rotate_left
  · exact g24
  -- the model's re-fill
  obtain ⟨st', e1, ri', a'⟩ := refillItems_bits c (itemWidths_ok c r3 r4) k d.st d.sign g13 hbits
  have hRl := length_refillBits c k (avail d.st) d.sign
  have hRlt := refillBits_lt c k (avail d.st) d.sign
  generalize refillBits c k (avail d.st) d.sign = R at e1 hRl hRlt ⊢
  have hD : refillD c d len = { d with st := st', sign := R.2, buffer := R.1.map UInt8.ofNat ++ d.buffer.drop (R.1.map UInt8.ofNat).length, bufPos := 0, bufLen := k * c.ntSize } := by
    unfold refillD
    rw [if_pos hge]
    simp only [hkdef, e1]
  rw [hD]
  have hd : ¬ (s.done = true) := by rw [g24]; simp
  refine ⟨⟨g1, g2, g3, ?_, ?_, rfl, ?_, k1, g9, g10, g11, g12, ri', ⟨p + k * (itemWidths c).sum, ?_, ?_, ?_⟩, hib, g16, g17, g18, g19, rfl, g21, g22, g23, g24⟩,
    ⟨rfl, rfl, rfl, rfl, rfl, rfl, rfl, rfl, rfl, rfl⟩, rfl, rfl, rfl, rfl, a'⟩
  · -- the expansion buffer
    simp only [List.take_zero, List.nil_append, Nat.zero_add]
    rw [bytes_append, bytes_map_ofNat _ hRlt, List.length_map, hRl, List.drop_append_of_le_length (by rw [hfl]; exact Nat.le_refl _),
      List.drop_of_length_le (by rw [hfl]; exact Nat.le_refl _), List.nil_append]
    simp only [hfl, Nat.sub_self, List.drop_zero, g4, bytes_drop]
  · simp only [List.length_append, List.length_map, hRl, List.length_drop, g5]; omega
  · show ((k * c.ntSize : Nat) : Int) = _; rfl
  · show (p : Int) + ((k * (itemWidths c).sum : Nat) : Int) = _; push_cast; rfl
  · show p + k * (itemWidths c).sum ≤ s.io_in.length
    have := bitread_ok_len s.io_in p (avail d.st) (k * (itemWidths c).sum) q3 q2 hbits
    omega
  · show s.io_in.drop (p + k * (itemWidths c).sum) = _
    rw [a']; exact bitread_drop s.io_in p (avail d.st) _ q3

/-- the delivery step on a state whose expansion buffer holds undelivered bytes -/
theorem copyC_eq (len bi bp bl : Nat) (s : HCIcnbit_decode.St) (hl : s.length = (len : Int)) (hbi : s.buf_i = (bi : Int)) (hbp : s.nbit_buf_pos = (bp : Int))
    (hbl : s.nbit_buf_len = (bl : Int)) (hlt : bp < bl) (hbl1024 : bl ≤ 1024) (hbuf : bl ≤ s.nbit_buffer.length) (hout : bi + len ≤ s.buf.length) (hub : s.ub = false)
    (hdone : s.done = false) :
    copyC s = { s with copy_length := ((min len (bl - bp) : Nat) : Int),
                       buf := s.buf.take bi ++ (s.nbit_buffer.drop bp).take (min len (bl - bp)) ++ s.buf.drop (bi + min len (bl - bp)),
                       buf_i := ((bi + min len (bl - bp) : Nat) : Int), length := ((len - min len (bl - bp) : Nat) : Int),
                       nbit_buf_pos := ((bp + min len (bl - bp) : Nat) : Int) } := by
  obtain ⟨length, buf_i, mask_info, rbuf, rbuf2, orig_length, input_bits, sign_mask, sign_ext_mask, sign_byte, sign_bit, copy_length, buf_size, buf_items,
    i, j, mask_off, nt_size, buf_pos, buf_len, sign_ext, io_pos, fill_one, offset, buffer, mask_buf, lens, io_in, offs, masks, buf, ub, oof, ret, done⟩ := s
  simp only at hl hbi hbp hbl hbuf hout hub hdone
  subst hl hbi hbp hbl hub hdone
  have hc : (if (len : Int) > (bl : Int) - (bp : Int) then (bl : Int) - (bp : Int) else (len : Int)) = ((min len (bl - bp) : Nat) : Int) := by
    split <;> omega
  have hcple : min len (bl - bp) ≤ bl - bp ∧ min len (bl - bp) ≤ len := ⟨Nat.min_le_right _ _, Nat.min_le_left _ _⟩
  generalize hcp : min len (bl - bp) = cp at hc hcple
  have hcm : (cp : Int) % 18446744073709551616 = (cp : Int) := by omega
  have h1 : (bi : Int) + (cp : Int) ≤ (buf.length : Int) := by omega
  have h2 : (bp : Int) + (cp : Int) ≤ (buffer.length : Int) := by omega
  have e1 : ((bi : Int) + (cp : Int)).toNat = bi + cp := by omega
  have e2 : (len : Int) - (cp : Int) = ((len - cp : Nat) : Int) := by omega
  simp only [copyC, HCIcnbit_decode.chk, HCIcnbit_decode.St.set_copy_length, HCIcnbit_decode.St.set_buf, HCIcnbit_decode.St.set_buf_i,
    HCIcnbit_decode.St.set_length, HCIcnbit_decode.St.set_nbit_buf_pos, hc, hcm, h1, h2, e1, e2, Bool.false_eq_true, if_false, Int.toNat_natCast,
    Int.natCast_nonneg, and_self, decide_true, Bool.not_true, Bool.or_false, true_and]
  simp

/-- **the delivery step**: the model hands out `copy = min(length, buf_len - buf_pos)` bytes of its expansion buffer, the C code `memcpy`s them -/
theorem copy_step (c : Cfg) (d : Dec) (len bi : Nat) (s : HCIcnbit_decode.St) (h : DInv c d len bi s) (hlen : 0 < len) (hlt : d.bufPos < d.bufLen) :
    let copy := if len > d.bufLen - d.bufPos then d.bufLen - d.bufPos else len
    DInv c { d with bufPos := d.bufPos + copy } (len - copy) (bi + copy) (copyC s) ∧ Fixed s (copyC s) ∧
      (copyC s).buf = s.buf.take bi ++ bytes ((d.buffer.drop d.bufPos).take copy) ++ s.buf.drop (bi + copy) ∧ 1 ≤ copy ∧ copy ≤ len := by
  intro copy
  have hcopy : copy = min len (d.bufLen - d.bufPos) := by
    show (if len > d.bufLen - d.bufPos then d.bufLen - d.bufPos else len) = _
    split <;> omega
  obtain ⟨g1, g2, g3, g4, g5, g6, g7, g8, g9, g10, g11, g12, g13, g14, g15, g16, g17, g18, g19, g20, g21, g22, g23, g24⟩ := h
  have hbl : s.nbit_buffer.length = 1024 := by rw [g4, bytes_length, g5]
  rw [copyC_eq len bi d.bufPos d.bufLen s g1 g2 g6 g7 hlt g8 (by omega) g3 g23 g24, ← hcopy]
  have hc1 : 1 ≤ copy := by omega
  have hc2 : copy ≤ len := by omega
  refine ⟨⟨rfl, rfl, ?_, g4, g5, rfl, g7, g8, g9, g10, g11, g12, g13, g14, g15, g16, g17, g18, g19, g20, g21, g22, g23, g24⟩,
    ⟨rfl, rfl, rfl, rfl, rfl, rfl, rfl, rfl, rfl, ?_⟩, ?_, hc1, hc2⟩
  · simp only [List.length_append, List.length_take, List.length_drop, hbl]; omega
  · simp only [List.length_append, List.length_take, List.length_drop, hbl]; omega
  · simp only [g4, bytes_take, bytes_drop]

/-- number of items one `HCIcnbit_decode(length)` call expands, from the expansion-buffer bookkeeping alone (`fuel` as in `decodeLoop`) -/
def itemsRead (c : Cfg) : Nat → Nat → Nat → Nat → Nat
  | 0, _, _, _ => 0
  | f + 1, bp, bl, len =>
    if len = 0 then 0
    else if bp ≥ bl then
      let k := refillCount c len
      let copy := if len > k * c.ntSize - 0 then k * c.ntSize - 0 else len
      k + itemsRead c f (0 + copy) (k * c.ntSize) (len - copy)
    else
      let copy := if len > bl - bp then bl - bp else len
      itemsRead c f (bp + copy) bl (len - copy)

/-- one pass through the body of the `while (length > 0)` loop of `HCIcnbit_decode`: the model's re-fill (when due) and delivery -/
theorem body0_step (c : Cfg) (hr : InRange c) (hn : 0 < c.ntSize) (d : Dec) (len bi fuel : Nat) (s : HCIcnbit_decode.St) (h : DInv c d len bi s)
    (hlen : 0 < len) (hbits : d.bufPos ≥ d.bufLen → refillCount c len * (itemWidths c).sum ≤ (avail d.st).length) (hf : 1040 ≤ fuel) :
    let d1 := refillD c d len
    let copy := if len > d1.bufLen - d1.bufPos then d1.bufLen - d1.bufPos else len
    let s' := HCIcnbit_decode.loop0.body fuel s
    DInv c { d1 with bufPos := d1.bufPos + copy } (len - copy) (bi + copy) s' ∧ Fixed s s' ∧
      s'.buf = s.buf.take bi ++ bytes ((d1.buffer.drop d1.bufPos).take copy) ++ s.buf.drop (bi + copy) ∧ 1 ≤ copy ∧ copy ≤ len ∧
      d1.fail = d.fail ∧ d1.bufLen ≤ 1024 ∧ d1.buffer.length = 1024 ∧ d1.bufPos + copy ≤ d1.bufLen ∧
      (d.bufPos ≥ d.bufLen → d1.bufPos = 0 ∧ d1.bufLen = refillCount c len * c.ntSize ∧
        avail d1.st = (avail d.st).drop (refillCount c len * (itemWidths c).sum)) ∧
      (¬ d.bufPos ≥ d.bufLen → d1 = d) := by
  intro d1 copy s'
  have hs' : s' = copyC (if (s.nbit_buf_pos ≥ s.nbit_buf_len) then refillPost (HCIcnbit_decode.loop1 fuel (refillPre s)) else s) := body0_eq fuel s
  have c16 : NBIT_MASK_SIZE = 16 := rfl
  have hn16 : c.ntSize ≤ 16 := by have := hr.1; omega
  obtain ⟨k1, k2⟩ := refillCount_le c hn hn16 len
  have hk : refillCount c len ≤ 1024 := by have := Nat.mul_le_mul_left (refillCount c len) hn; omega
  have hkpos : 0 < refillCount c len * c.ntSize := Nat.mul_pos (by omega) hn
  by_cases hge : d.bufPos ≥ d.bufLen
  · have hge' : s.nbit_buf_pos ≥ s.nbit_buf_len := by rw [h.bpos, h.bl]; omega
    rw [if_pos hge'] at hs'
    obtain ⟨i1, f1, b1, e1, e2, e3, e4⟩ := refill_eq c hr hn d len bi fuel s h hlen hge (hbits hge) (by omega)
    generalize refillPost (HCIcnbit_decode.loop1 fuel (refillPre s)) = s1 at hs' i1 f1 b1
    have hlt : d1.bufPos < d1.bufLen := by show (refillD c d len).bufPos < (refillD c d len).bufLen; rw [e2, e3]; omega
    obtain ⟨i2, f2, b2, c1, c2⟩ := copy_step c d1 len bi s1 i1 hlen hlt
    rw [hs']
    refine ⟨i2, f1.trans f2, by rw [b2, b1], c1, c2, e1, i1.bl1024, i1.blen, ?_, fun _ => ⟨e2, e3, e4⟩, fun h => absurd hge h⟩
    show d1.bufPos + (if len > d1.bufLen - d1.bufPos then d1.bufLen - d1.bufPos else len) ≤ d1.bufLen
    split <;> omega
  · have hge' : ¬ (s.nbit_buf_pos ≥ s.nbit_buf_len) := by rw [h.bpos, h.bl]; omega
    rw [if_neg hge'] at hs'
    have hd1 : d1 = d := by show refillD c d len = d; unfold refillD; rw [if_neg hge]
    have hlt : d1.bufPos < d1.bufLen := by rw [hd1]; omega
    obtain ⟨i2, f2, b2, c1, c2⟩ := copy_step c d1 len bi s (hd1 ▸ h) hlen hlt
    rw [hs']
    refine ⟨i2, f2, b2, c1, c2, by rw [hd1], by rw [hd1]; exact h.bl1024, by rw [hd1]; exact h.blen, ?_, fun h => absurd h hge, fun _ => hd1⟩
    show d1.bufPos + (if len > d1.bufLen - d1.bufPos then d1.bufLen - d1.bufPos else len) ≤ d1.bufLen
    split <;> omega

theorem dec_loop0_stop (fuel : Nat) (s : HCIcnbit_decode.St) (h : ¬ ((s.length > 0) ∧ ¬(s.done))) : HCIcnbit_decode.loop0 fuel s = s := by
  cases fuel <;> rw [HCIcnbit_decode.loop0] <;> simp only [h, if_false]

theorem dec_loop0_succ (fuel : Nat) (s : HCIcnbit_decode.St) (h : (s.length > 0) ∧ ¬(s.done)) :
    HCIcnbit_decode.loop0 (fuel + 1) s = HCIcnbit_decode.loop0 fuel (HCIcnbit_decode.loop0.body (fuel + 1) s) := by
  rw [HCIcnbit_decode.loop0]; simp [h]

/-- **the `while (length > 0)` loop of `HCIcnbit_decode`** is the model's `decodeLoop`, as long as the element holds the bits of the items the
    call expands: the bytes delivered, the decoder state reached (related again: `DInv`), `fail` untouched -/
theorem dec_loop0 (c : Cfg) (hr : InRange c) (hn : 0 < c.ntSize) : ∀ (fm : Nat) (d : Dec) (len bi : Nat) (acc : List UInt8) (fuel : Nat)
    (s : HCIcnbit_decode.St), len < fm → len + 1040 ≤ fuel → DInv c d len bi s →
    itemsRead c fm d.bufPos d.bufLen len * (itemWidths c).sum ≤ (avail d.st).length →
    ∃ (d' : Dec) (nb : List UInt8), decodeLoop c fm d len acc = (d', acc ++ nb) ∧ nb.length = len ∧
      DInv c d' 0 (bi + len) (HCIcnbit_decode.loop0 fuel s) ∧ Fixed s (HCIcnbit_decode.loop0 fuel s) ∧
      (HCIcnbit_decode.loop0 fuel s).buf = s.buf.take bi ++ bytes nb ++ s.buf.drop (bi + len) ∧ d'.fail = d.fail := by
  intro fm
  induction fm with
  | zero => intro d len bi acc fuel s h; omega
  | succ fm ih =>
    intro d len bi acc fuel s hfm hfuel hinv hbits
    by_cases hl0 : len = 0
    · subst hl0
      have hstop : ¬ ((s.length > 0) ∧ ¬(s.done)) := by rw [hinv.length]; simp
      rw [dec_loop0_stop fuel s hstop]
      refine ⟨d, [], by simp [decodeLoop], rfl, hinv, Fixed.refl s, by simp, rfl⟩
    · have hlen : 0 < len := Nat.pos_of_ne_zero hl0
      cases fuel with
      | zero => omega
      | succ fuel =>
        have hc : (s.length > 0) ∧ ¬(s.done) := by rw [hinv.length, hinv.done]; simp; omega
        rw [dec_loop0_succ fuel s hc, decodeLoop_succ, if_neg hl0]
        simp only [itemsRead, hl0, if_false] at hbits
        have hb1 : d.bufPos ≥ d.bufLen → refillCount c len * (itemWidths c).sum ≤ (avail d.st).length := by
          intro hge
          rw [if_pos hge] at hbits
          rw [Nat.add_mul] at hbits
          omega
        obtain ⟨i1, f1, b1, c1, c2, e1, e2, e3, e4, e5, e6⟩ := body0_step c hr hn d len bi (fuel + 1) s hinv hlen hb1 (by omega)
        generalize HCIcnbit_decode.loop0.body (fuel + 1) s = s1 at i1 f1 b1
        generalize hd1 : refillD c d len = d1 at i1 b1 c1 c2 e1 e2 e3 e4 e5 e6 ⊢
        simp only
        generalize hcopy : (if len > d1.bufLen - d1.bufPos then d1.bufLen - d1.bufPos else len) = copy at i1 b1 c1 c2 e4 ⊢
        have hbits2 : itemsRead c fm (d1.bufPos + copy) d1.bufLen (len - copy) * (itemWidths c).sum ≤ (avail d1.st).length := by
          by_cases hge : d.bufPos ≥ d.bufLen
          · obtain ⟨p1, p2, p3⟩ := e5 hge
            rw [if_pos hge] at hbits
            rw [p1, p2] at hcopy
            rw [hcopy, Nat.add_mul] at hbits
            rw [p1, p2, p3, List.length_drop]
            omega
          · have := e6 hge
            rw [if_neg hge] at hbits
            rw [this] at hcopy ⊢
            rw [hcopy] at hbits
            exact hbits
        obtain ⟨d', nb, q1, q2, q3, q4, q5, q6⟩ := ih { d1 with bufPos := d1.bufPos + copy } (len - copy) (bi + copy)
          (acc ++ (d1.buffer.drop d1.bufPos).take copy) fuel s1 (by omega) (by omega) i1 hbits2
        have hchunk : ((d1.buffer.drop d1.bufPos).take copy).length = copy := by
          rw [List.length_take, List.length_drop, e3]; omega
        refine ⟨d', (d1.buffer.drop d1.bufPos).take copy ++ nb, by rw [q1, List.append_assoc], by rw [List.length_append, hchunk, q2]; omega,
          ?_, f1.trans q4, ?_, by rw [q6]; exact e1⟩
        · have : bi + copy + (len - copy) = bi + len := by omega
          rw [this] at q3; exact q3
        · rw [q5, b1]
          have hbl : (s.buf.take bi).length = bi := by rw [List.length_take]; have := hinv.outlen; omega
          have hl1 : (s.buf.take bi ++ bytes ((d1.buffer.drop d1.bufPos).take copy)).length = bi + copy := by
            rw [List.length_append, hbl, bytes_length, hchunk]
          have e7 : (s.buf.take bi ++ bytes ((d1.buffer.drop d1.bufPos).take copy) ++ s.buf.drop (bi + copy)).take (bi + copy) =
              s.buf.take bi ++ bytes ((d1.buffer.drop d1.bufPos).take copy) := by
            rw [List.take_append_of_le_length (by omega), List.take_of_length_le (by omega)]
          have e8 : (s.buf.take bi ++ bytes ((d1.buffer.drop d1.bufPos).take copy) ++ s.buf.drop (bi + copy)).drop (bi + copy + (len - copy)) =
              s.buf.drop (bi + len) := by
            rw [← List.drop_drop, List.drop_left' hl1, List.drop_drop]
            congr 1; omega
          rw [e7, e8, bytes_append]
          simp only [List.append_assoc]


/-- the prelude of `HCIcnbit_decode`: the sign-extension constants (a copy of the generated text; `dec_unfold` re-checks it) -/
def decPre (s : HCIcnbit_decode.St) : HCIcnbit_decode.St :=
  have s : HCIcnbit_decode.St := HCIcnbit_decode.St.set_sign_bit s (0)
  have s : HCIcnbit_decode.St := HCIcnbit_decode.chk s (8 ≠ 0)
  have s : HCIcnbit_decode.St := HCIcnbit_decode.chk s (0 ≤ (Int.tmod s.nbit_mask_off 8) ∧ (Int.tmod s.nbit_mask_off 8) < (H4.Gen.Cnbit.mask_arr32).length)
  have s : HCIcnbit_decode.St := HCIcnbit_decode.St.set_sign_ext_mask s ((((-((Int.ofNat ((H4.Gen.Cnbit.mask_arr32).getD (Int.toNat ((Int.tmod s.nbit_mask_off 8))) 0))) - 1)) % 4294967296))
  have s : HCIcnbit_decode.St := HCIcnbit_decode.chk s (8 ≠ 0)
  have s : HCIcnbit_decode.St := HCIcnbit_decode.St.set_sign_byte s ((s.nbit_nt_size - ((Int.tdiv s.nbit_mask_off 8) + 1)))
  have s : HCIcnbit_decode.St := HCIcnbit_decode.chk s (8 ≠ 0)
  have s : HCIcnbit_decode.St := HCIcnbit_decode.chk s (0 ≤ ((Int.tmod s.nbit_mask_off 8) + 1) ∧ ((Int.tmod s.nbit_mask_off 8) + 1) < (H4.Gen.Cnbit.mask_arr32).length)
  have s : HCIcnbit_decode.St := HCIcnbit_decode.chk s (0 ≤ (Int.tmod s.nbit_mask_off 8) ∧ (Int.tmod s.nbit_mask_off 8) < (H4.Gen.Cnbit.mask_arr32).length)
  have s : HCIcnbit_decode.St := HCIcnbit_decode.chk s ((0 : Int) ≤ (Int.ofNat ((H4.Gen.Cnbit.mask_arr32).getD (Int.toNat (((Int.tmod s.nbit_mask_off 8) + 1))) 0)) ∧ (0 : Int) ≤ (Int.ofNat ((H4.Gen.Cnbit.mask_arr32).getD (Int.toNat ((Int.tmod s.nbit_mask_off 8))) 0)))
  have s : HCIcnbit_decode.St := HCIcnbit_decode.St.set_sign_mask s ((Int.ofNat (Int.toNat ((Int.ofNat ((H4.Gen.Cnbit.mask_arr32).getD (Int.toNat (((Int.tmod s.nbit_mask_off 8) + 1))) 0))) ^^^ Int.toNat ((Int.ofNat ((H4.Gen.Cnbit.mask_arr32).getD (Int.toNat ((Int.tmod s.nbit_mask_off 8))) 0))))))
  HCIcnbit_decode.St.set_orig_length s (s.length)

/-- what `HCIcnbit_decode` does after its loop -/
def decFinish (s : HCIcnbit_decode.St) : HCIcnbit_decode.St :=
  have s : HCIcnbit_decode.St := if s.done then s else
    have s : HCIcnbit_decode.St := HCIcnbit_decode.St.set_nbit_offset s ((s.nbit_offset + s.orig_length))
    s
  have s : HCIcnbit_decode.St := if s.done then s else
    have s : HCIcnbit_decode.St := HCIcnbit_decode.St.set_ret s (0)
    have s : HCIcnbit_decode.St := HCIcnbit_decode.St.set_done s (true)
    s
  s

/-- the state `HCIcnbit_decode` starts from: its arguments -/
def decEntry (mask_off nt_size bp bl : Int) (buffer mbuf : List Int) (se : Int) (lens offs masks : List Int) (fo offset length : Int)
    (buf io_in : List Int) (io_pos : Int) : HCIcnbit_decode.St :=
  { nbit_mask_off := mask_off, nbit_nt_size := nt_size, nbit_buf_pos := bp, nbit_buf_len := bl, nbit_buffer := buffer, nbit_mask_buf := mbuf,
    nbit_sign_ext := se, nbit_mask_info_length := lens, nbit_mask_info_offset := offs, nbit_mask_info_mask := masks, nbit_fill_one := fo,
    nbit_offset := offset, length := length, buf := buf, io_in := io_in, io_pos := io_pos }

theorem dec_unfold (fuel : Nat) (mask_off nt_size bp bl : Int) (buffer mbuf : List Int) (se : Int) (lens offs masks : List Int) (fo offset length : Int)
    (buf io_in : List Int) (io_pos : Int) :
    HCIcnbit_decode fuel mask_off nt_size bp bl buffer mbuf se lens offs masks fo offset length buf io_in io_pos =
      decFinish (HCIcnbit_decode.loop0 fuel (decPre (decEntry mask_off nt_size bp bl buffer mbuf se lens offs masks fo offset length buf io_in io_pos))) := rfl

theorem sem_consts : ∀ o : Nat, o < 8 →
    ((-((arr32 o : Nat) : Int) - 1) % 4294967296) % 256 = ((255 ^^^ (arr32 o % 256) : Nat) : Int) ∧
    (-((-((arr32 o : Nat) : Int) - 1) % 4294967296) - 1) % 4294967296 % 256 = ((255 ^^^ (255 ^^^ (arr32 o % 256)) : Nat) : Int) := by
  decide +kernel

/-- the state when the loop of `HCIcnbit_decode` starts -/
theorem decPre_eq (c : Cfg) (hr : InRange c) (hn : 0 < c.ntSize) (s : HCIcnbit_decode.St) (hoff : s.nbit_mask_off = (c.maskOff : Int))
    (hnt : s.nbit_nt_size = (c.ntSize : Int)) (hub : s.ub = false) :
    decPre s = { s with sign_bit := 0, sign_ext_mask := (-((arr32 (c.maskOff % 8) : Nat) : Int) - 1) % 4294967296,
                        sign_byte := ((c.ntSize - ((c.maskOff / 8) + 1) : Nat) : Int),
                        sign_mask := ((arr32 ((c.maskOff % 8) + 1) ^^^ arr32 (c.maskOff % 8) : Nat) : Int), orig_length := s.length } := by
  obtain ⟨r1, r2, r3, r4⟩ := hr
  obtain ⟨length, buf_i, mask_info, rbuf, rbuf2, orig_length, input_bits, sign_mask, sign_ext_mask, sign_byte, sign_bit, copy_length, buf_size, buf_items,
    i, j, mask_off, nt_size, buf_pos, buf_len, sign_ext, io_pos, fill_one, offset, buffer, mask_buf, lens, io_in, offs, masks, buf, ub, oof, ret, done⟩ := s
  simp only at hoff hnt hub
  subst hoff hnt hub
  have h33 : mask_arr32.length = 33 := rfl
  have hm : Int.tmod (c.maskOff : Int) 8 = ((c.maskOff % 8 : Nat) : Int) := H4.C2L.tmod_nat _ 8
  have hd : Int.tdiv (c.maskOff : Int) 8 = ((c.maskOff / 8 : Nat) : Int) := H4.C2L.tdiv_nat _ 8
  have ho : c.maskOff % 8 < 8 := Nat.mod_lt _ (by omega)
  have hsb : (c.ntSize : Int) - (((c.maskOff / 8 : Nat) : Int) + 1) = ((c.ntSize - ((c.maskOff / 8) + 1) : Nat) : Int) := by omega
  have e1 : (((c.maskOff % 8 : Nat) : Int) + 1).toNat = c.maskOff % 8 + 1 := by omega
  have l1 : ((c.maskOff % 8 : Nat) : Int) < 33 := by omega
  have l2 : ((c.maskOff % 8 : Nat) : Int) + 1 < 33 := by omega
  simp only [decPre, HCIcnbit_decode.chk, HCIcnbit_decode.St.set_sign_bit, HCIcnbit_decode.St.set_sign_ext_mask, HCIcnbit_decode.St.set_sign_byte,
    HCIcnbit_decode.St.set_sign_mask, HCIcnbit_decode.St.set_orig_length, hm, hd, hsb, h33, e1, l1, l2, Int.toNat_natCast, arr32, Int.ofNat_eq_natCast]
  simp
  omega


/-- the correspondence between the model's decoder `d` (bit id, expansion buffer, `buf_pos`, `buf_len`) and the decoder side of the
    `comp_coder_nbit_info_t` record together with the position `io_pos` in the bit stream `io_in` of the underlying element:
    the tables are the model's (`TabRel`, `mask_buf`), the buffer holds the same bytes, and the bits still to come are the model's `avail` -/
structure DecRel (c : Cfg) (d : Dec) (buf_pos buf_len : Int) (buffer mask_buf offs lens masks io_in : List Int) (io_pos : Int) : Prop where
  buffer : buffer = bytes d.buffer
  blen : d.buffer.length = NBIT_BUF_SIZE
  bpos : buf_pos = (d.bufPos : Int)
  bl : buf_len = (d.bufLen : Int)
  bl1024 : d.bufLen ≤ NBIT_BUF_SIZE
  tab : TabRel c offs lens masks
  mlen : mask_buf.length = NBIT_MASK_SIZE
  mbuf : ∀ t, t < c.ntSize → mask_buf.getD t 0 = (((maskBuf c).getD t 0 : Nat) : Int)
  rinv : RInv d.st
  pos : ∃ p : Nat, io_pos = (p : Int) ∧ p ≤ io_in.length ∧ io_in.drop p = bitsI (avail d.st)

theorem decFinish_eq (s : HCIcnbit_decode.St) (h : s.done = false) :
    decFinish s = { s with nbit_offset := s.nbit_offset + s.orig_length, ret := 0, done := true } := by
  unfold decFinish
  simp [h, HCIcnbit_decode.St.set_nbit_offset, HCIcnbit_decode.St.set_ret, HCIcnbit_decode.St.set_done]

theorem dec_main (c : Cfg) (hr : InRange c) (hn : 0 < c.ntSize) (d : Dec) (n fuel : Nat) (hf : n + 1040 ≤ fuel)
    (buf_pos buf_len sign_ext offset io_pos : Int) (buffer mask_buf offs lens masks io_in out : List Int)
    (hse : (sign_ext ≠ 0) ↔ c.signExt = true) (hout : n ≤ out.length)
    (hrel : DecRel c d buf_pos buf_len buffer mask_buf offs lens masks io_in io_pos)
    (hbits : itemsRead c (n + 1) d.bufPos d.bufLen n * (itemWidths c).sum ≤ (avail d.st).length) :
    let s := HCIcnbit_decode fuel c.maskOff c.ntSize buf_pos buf_len buffer mask_buf sign_ext lens offs masks (b2i c.fillOne) offset n out io_in io_pos
    let r := decode c { d with sign := false } n
    s.ub = false ∧ s.oof = false ∧ s.ret = 0 ∧ s.buf = bytes r.2 ++ out.drop n ∧ r.2.length = n ∧ s.nbit_offset = offset + n ∧
      DecRel c r.1 s.nbit_buf_pos s.nbit_buf_len s.nbit_buffer s.nbit_mask_buf s.nbit_mask_info_offset s.nbit_mask_info_length s.nbit_mask_info_mask
        s.io_in s.io_pos ∧ r.1.fail = d.fail ∧
      s.nbit_mask_buf = mask_buf ∧ s.nbit_mask_info_offset = offs ∧ s.nbit_mask_info_length = lens ∧ s.nbit_mask_info_mask = masks ∧ s.io_in = io_in := by
  intro s r
  obtain ⟨g1, g2, g3, g4, g5, g6, g7, g8, g9, g10⟩ := hrel
  have c1 : NBIT_BUF_SIZE = 1024 := rfl
  have c16 : NBIT_MASK_SIZE = 16 := rfl
  rw [c1] at g2 g5; rw [c16] at g7
  have hs : s = decFinish (HCIcnbit_decode.loop0 fuel (decPre (decEntry c.maskOff c.ntSize buf_pos buf_len buffer mask_buf sign_ext lens offs masks
      (b2i c.fillOne) offset n out io_in io_pos))) := dec_unfold ..
  obtain ⟨s0, hs0⟩ : ∃ s0, s0 = decPre (decEntry c.maskOff c.ntSize buf_pos buf_len buffer mask_buf sign_ext lens offs masks
      (b2i c.fillOne) offset n out io_in io_pos) := ⟨_, rfl⟩
  rw [← hs0] at hs
  rw [decPre_eq c hr hn _ rfl rfl rfl] at hs0
  obtain ⟨q1, q2⟩ := sem_consts (c.maskOff % 8) (Nat.mod_lt _ (by omega))
  have hinv : DInv c { d with sign := false } n 0 s0 := by
    subst hs0
    exact ⟨rfl, rfl, by simpa [decEntry] using hout, g1, g2, g3, g4, g5, rfl, g6, g7, g8, g9, g10, Int.le_refl 0, rfl, rfl, q1, q2, rfl, hse, rfl, rfl, rfl⟩
  have hfx : s0.oof = false ∧ s0.orig_length = (n : Int) ∧ s0.nbit_offset = offset ∧ s0.buf = out := by subst hs0; exact ⟨rfl, rfl, rfl, rfl⟩
  have hfy : s0.nbit_mask_buf = mask_buf ∧ s0.nbit_mask_info_offset = offs ∧ s0.nbit_mask_info_length = lens ∧ s0.nbit_mask_info_mask = masks ∧ s0.io_in = io_in := by
    subst hs0; exact ⟨rfl, rfl, rfl, rfl, rfl⟩
  obtain ⟨d', nb, e1, e2, e3, e4, e5, e6⟩ := dec_loop0 c hr hn (n + 1) { d with sign := false } n 0 [] fuel s0 (by omega) hf hinv hbits
  have hr' : r = (d', nb) := by show decode c { d with sign := false } n = _; unfold decode; rw [e1]; rfl
  generalize HCIcnbit_decode.loop0 fuel s0 = s1 at hs e3 e4 e5
  obtain ⟨f1, f2, f3, f4, f5, f6, f7, f8, f9, f10⟩ := e4
  obtain ⟨x1, x2, x3, x4⟩ := hfx
  obtain ⟨y1, y2, y3, y4, y5⟩ := hfy
  rw [hs, hr', decFinish_eq s1 e3.done]
  refine ⟨e3.ub, by show s1.oof = false; rw [f1, x1], rfl, ?_, e2, ?_, ⟨e3.buffer, e3.blen, e3.bpos, e3.bl, e3.bl1024, e3.tab, e3.mlen, e3.mbuf, e3.rinv, e3.pos⟩, e6,
    by show s1.nbit_mask_buf = _; rw [f9, y1], by show s1.nbit_mask_info_offset = _; rw [f6, y2], by show s1.nbit_mask_info_length = _; rw [f7, y3],
    by show s1.nbit_mask_info_mask = _; rw [f8, y4], by show s1.io_in = _; rw [f5, y5]⟩
  · show s1.buf = _
    rw [e5, x4]; simp
  · show s1.nbit_offset + s1.orig_length = _
    rw [f3, f2, x2, x3]


/-- a freshly started bit read delivers exactly the bits of the element's bytes -/
theorem avail_startRead (e : List UInt8) : avail (startRead e) = bytesBits e := by
  have hB : BITBUF_SIZE = 4096 := rfl
  unfold startRead
  by_cases hpos : e.length > 0
  · have hnn : ¬ (min (e.length - 0) BITBUF_SIZE = 0 ∨ min (e.length - 0) BITBUF_SIZE + 0 > e.length) := by omega
    simp only [hpos, if_true, hRead, Bool.false_eq_true, if_false, hnn, List.drop_zero, St.load, St.setPtr, St.buf,
      List.reverse_nil, List.nil_append, List.take_zero, List.reverse_reverse, List.take_append_drop, List.drop_zero]
    generalize hn : min (e.length - 0) BITBUF_SIZE = n
    have hn1 : n ≤ e.length := by omega
    have hn2 : n ≤ 4096 := by omega
    have hl : (List.take n e).length = n := by rw [List.length_take]; omega
    simp only [avail, rest, window, msbBits, List.nil_append, hl, Nat.zero_add, Nat.sub_zero]
    rw [List.take_append_of_le_length (by omega), List.take_of_length_le (by omega), List.take_append_drop]
  · have he : e = [] := List.eq_nil_of_length_eq_zero (by omega)
    subst he
    simp only [List.length_nil, Nat.lt_irrefl, gt_iff_lt, if_false, St.setPtr, St.buf, List.reverse_nil, List.nil_append]
    simp only [avail, rest, window, msbBits, List.nil_append, Nat.sub_self, List.take_zero, List.drop_nil, bytesBits_nil, List.append_nil]


theorem refillCount_le_values (c : Cfg) (hn : 0 < c.ntSize) (m : Nat) (hm : 0 < m) : refillCount c (m * c.ntSize) ≤ m := by
  unfold refillCount
  have h1 : min NBIT_BUF_SIZE (m * c.ntSize) / c.ntSize ≤ m * c.ntSize / c.ntSize := Nat.div_le_div_right (Nat.min_le_right _ _)
  rw [Nat.mul_div_cancel _ hn] at h1
  omega

/-- a call for `m` whole values that finds the expansion buffer exhausted expands exactly `m` items -/
theorem itemsRead_whole (c : Cfg) (hn : 0 < c.ntSize) (hn16 : c.ntSize ≤ 16) : ∀ (f m bp bl : Nat), m * c.ntSize < f → bl ≤ bp →
    itemsRead c f bp bl (m * c.ntSize) = m := by
  intro f
  induction f with
  | zero => intro m bp bl h; omega
  | succ f ih =>
    intro m bp bl hf hb
    unfold itemsRead
    by_cases h0 : m * c.ntSize = 0
    · have : m = 0 := by
        cases m with
        | zero => rfl
        | succ m => exact absurd h0 (Nat.ne_of_gt (Nat.mul_pos (by omega) hn))
      simp [h0, this]
    · have hm : 0 < m := by
        cases m with
        | zero => simp at h0
        | succ m => omega
      have hk := refillCount_le_values c hn m hm
      obtain ⟨k1, k2⟩ := refillCount_le c hn hn16 (m * c.ntSize)
      generalize refillCount c (m * c.ntSize) = k at hk k1 k2
      have hkn : k * c.ntSize ≤ m * c.ntSize := Nat.mul_le_mul_right _ hk
      have hpos : 0 < k * c.ntSize := Nat.mul_pos (by omega) hn
      have hcopy : (if m * c.ntSize > k * c.ntSize - 0 then k * c.ntSize - 0 else m * c.ntSize) = k * c.ntSize := by split <;> omega
      have hrem : m * c.ntSize - k * c.ntSize = (m - k) * c.ntSize := by rw [Nat.sub_mul]
      simp only [h0, if_false, hb, ge_iff_le, if_true, hcopy, hrem, Nat.zero_add]
      rw [ih (m - k) (k * c.ntSize) (k * c.ntSize) (by rw [← hrem]; omega) (Nat.le_refl _)]
      omega

end H4.Lemmas.C05NBitFn
