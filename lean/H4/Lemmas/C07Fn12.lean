import H4.Lemmas.C07Fn11
import H4.Lemmas.C08Fn7
/-! Lemmas for `H4.Props.C07Fn3`, part 10: from the positional description of the final state back to the header the reader returns
    (C strings of names, the field table of `zipFields`, the attribute list).  Core only. -/
set_option linter.unusedSimpArgs false
set_option linter.unusedVariables false
namespace H4.Lemmas.C07Fn3
open H4 H4.Format H4.Gen.Hdf H4.Gen.Fn.Vio3 H4.C2L
open H4.Lemmas.C08Fn (bytesI bytesI_length bytesI_nil bytesI_cons bytesI_append)
open H4.Lemmas.C08Fn3 (b8 be16 be32 b8_range S32 be16N be16_eq be16N_lt be32N be32_eq be32N_lt w16 valsN valsN_length valsN_cons vals vals_eq fill
  vals_length fill_length orS strAt)

/-! ## from positions back to the reader's header -/

/-- a name as a C string: the bytes before the first NUL -/
def cstr (b : Bytes) : Bytes := b.takeWhile (· ≠ 0)

theorem takeWhile_bytesI (b : Bytes) : (bytesI b).takeWhile (· ≠ 0) = bytesI (cstr b) := by
  induction b with
  | nil => rfl
  | cons x xs ih =>
    by_cases hx : x = 0
    · subst hx; simp [bytesI, cstr]
    · have hx' : ((x.toNat : Int) ≠ 0) := by
        intro e; apply hx; exact UInt8.toNat_inj.mp (by simpa using e)
      simp only [cstr] at ih ⊢
      simp only [bytesI_cons, List.takeWhile_cons, ne_eq, hx', hx, not_false_eq_true, decide_true, if_true, ih]

theorem drop_take_bytesI (rec : Bytes) (tail : List Int) (p l : Nat) (h : p + l ≤ rec.length) :
    ((bytesI rec ++ tail).drop p).take l = bytesI ((rec.drop p).take l) := by
  rw [List.drop_append_of_le_length (by simpa using (by omega : p ≤ rec.length)), List.take_append_of_le_length (by simp; omega)]
  simp [bytesI, List.map_drop, List.map_take]

/-- `HIstrncpy` into a fixed array: the C string of the `l` record bytes at `p`, a NUL, the rest of the array -/
theorem cstrInto_eq (rec : Bytes) (tail : List Int) (p l : Nat) (old : List Int) (h : p + l ≤ rec.length) :
    cstrInto (bytesI rec ++ tail) p l old = bytesI (cstr ((rec.drop p).take l)) ++ 0 :: old.drop ((cstr ((rec.drop p).take l)).length + 1) := by
  simp only [cstrInto, drop_take_bytesI rec tail p l h, takeWhile_bytesI, bytesI_length]

theorem strAt_eq' (rec : Bytes) (tail : List Int) (p l : Nat) (h : p + l ≤ rec.length) :
    strAt (bytesI rec ++ tail) p l = bytesI (cstr ((rec.drop p).take l)) ++ 0 :: List.replicate (l - (cstr ((rec.drop p).take l)).length) 170 := by
  simp only [strAt, drop_take_bytesI rec tail p l h, takeWhile_bytesI, bytesI_length]

theorem zipFields_length : ∀ (n : Nat) (T : List Int) (I O R : List Nat) (N : List Bytes), T.length = n → I.length = n → O.length = n → R.length = n →
    N.length = n → (zipFields T I O R N).length = n ∧ (zipFields T I O R N).map (·.type) = T ∧ (zipFields T I O R N).map (·.isize) = I ∧
      (zipFields T I O R N).map (·.off) = O ∧ (zipFields T I O R N).map (·.order) = R ∧ (zipFields T I O R N).map (·.name) = N := by
  intro n
  induction n with
  | zero =>
    intro T I O R N h1 h2 h3 h4 h5
    have := List.eq_nil_of_length_eq_zero h1; subst this
    have := List.eq_nil_of_length_eq_zero h2; subst this
    have := List.eq_nil_of_length_eq_zero h3; subst this
    have := List.eq_nil_of_length_eq_zero h4; subst this
    have := List.eq_nil_of_length_eq_zero h5; subst this
    simp [zipFields]
  | succ n ih =>
    intro T I O R N h1 h2 h3 h4 h5
    match T, I, O, R, N, h1, h2, h3, h4, h5 with
    | t :: T, i :: I, o :: O, r :: R, nm :: N, h1, h2, h3, h4, h5 =>
      obtain ⟨a, b, c, d, e, f⟩ := ih T I O R N (by simpa using h1) (by simpa using h2) (by simpa using h3) (by simpa using h4) (by simpa using h5)
      simp only [zipFields, List.length_cons, List.map_cons, a, b, c, d, e, f]
      exact ⟨trivial, trivial, trivial, trivial, trivial, trivial⟩

theorem namesAt_length (rec : Bytes) (B : List Int) (p0 n : Nat) : (namesAt rec B p0 n).length = n := by simp [namesAt]

/-- name `t` of an accepted record has the length its prefix announces -/
theorem namesAt_getElem (rec : Bytes) (B : List Int) (p0 n t : Nat) (ht : t < n) (hend : namePos B p0 n ≤ rec.length) :
    (namesAt rec B p0 n)[t]'(by rw [namesAt_length]; exact ht) = (rec.drop (namePos B p0 t + 2)).take (nameLen B p0 t) ∧
      ((rec.drop (namePos B p0 t + 2)).take (nameLen B p0 t)).length = nameLen B p0 t := by
  have hmono := namePos_mono B p0 (t + 1) n (by omega)
  have hstep : namePos B p0 (t + 1) = namePos B p0 t + 2 + nameLen B p0 t := rfl
  constructor
  · simp [namesAt]
  · simp only [List.length_take, List.length_drop]; omega

/-- the rows of the name loop are the C strings of the reader's names, each in a block of `length + 1` cells -/
theorem rowsAt_names (rec : Bytes) (tail : List Int) (p0 n : Nat) (hend : namePos (bytesI rec ++ tail) p0 n ≤ rec.length) :
    rowsAt (bytesI rec ++ tail) p0 (List.replicate n []) n =
      (namesAt rec (bytesI rec ++ tail) p0 n).map fun nm => bytesI (cstr nm) ++ 0 :: List.replicate (nm.length - (cstr nm).length) 170 := by
  simp only [rowsAt, List.drop_replicate, Nat.sub_self, List.replicate_zero, List.append_nil, namesAt, List.map_map]
  apply List.map_congr_left
  intro t ht
  have ht' : t < n := by simpa using ht
  have hmono := namePos_mono (bytesI rec ++ tail) p0 (t + 1) n (by omega)
  have hstep : namePos (bytesI rec ++ tail) p0 (t + 1) = namePos (bytesI rec ++ tail) p0 t + 2 + nameLen (bytesI rec ++ tail) p0 t := rfl
  simp only [Function.comp]
  rw [strAt_eq' rec tail _ _ (by omega)]
  congr 3
  simp only [List.length_take, List.length_drop]; omega

theorem vals32_attrs (B : List Int) (p n : Nat) : vals32 B p 8 n = (attrsAt B p n).map (·.findex) := by
  simp [vals32, attrsAt]

theorem vals_atag (B : List Int) (p n : Nat) : vals B (p + 4) 8 n = ints ((attrsAt B p n).map (·.atag)) := by
  simp only [vals, attrsAt, ints, List.map_map]
  apply List.map_congr_left
  intro t _
  simp only [Function.comp, be16_eq]
  congr 2
  omega

theorem vals_aref (B : List Int) (p n : Nat) : vals B (p + 6) 8 n = ints ((attrsAt B p n).map (·.aref)) := by
  simp only [vals, attrsAt, ints, List.map_map]
  apply List.map_congr_left
  intro t _
  simp only [Function.comp, be16_eq]
  congr 2
  omega

theorem attrsAt_length (B : List Int) (p n : Nat) : (attrsAt B p n).length = n := by simp [attrsAt]


/-- a field that the field table does not assign -/
theorem SF7_proj {α} (f : St → α) (hbb : ∀ t v, f (vunpackvs.St.set_bb t v) = f t) (hi : ∀ t v, f (vunpackvs.St.set_i t v) = f t)
    (hu : ∀ t v, f (vunpackvs.St.set_int16var t v) = f t) (hrow : ∀ t v, f (vunpackvs.St.set_vs_wlist_name t v) = f t)
    (hrn : ∀ t v, f (vunpackvs.St.set_vs_wlist_name_null t v) = f t) (hb : ∀ t v, f (vunpackvs.St.set_vs_wlist_bptr t v) = f t)
    (hbn : ∀ t v, f (vunpackvs.St.set_vs_wlist_bptr_null t v) = f t)
    (c1 : ∀ t v, f (vunpackvs.St.set_vs_wlist_type t v) = f t) (c1n : ∀ t v, f (vunpackvs.St.set_vs_wlist_type_null t v) = f t)
    (c2 : ∀ t v, f (vunpackvs.St.set_vs_wlist_off t v) = f t) (c2n : ∀ t v, f (vunpackvs.St.set_vs_wlist_off_null t v) = f t)
    (c3 : ∀ t v, f (vunpackvs.St.set_vs_wlist_isize t v) = f t) (c3n : ∀ t v, f (vunpackvs.St.set_vs_wlist_isize_null t v) = f t)
    (c4 : ∀ t v, f (vunpackvs.St.set_vs_wlist_order t v) = f t) (c4n : ∀ t v, f (vunpackvs.St.set_vs_wlist_order_null t v) = f t)
    (c5 : ∀ t v, f (vunpackvs.St.set_vs_wlist_esize t v) = f t) (c5n : ∀ t v, f (vunpackvs.St.set_vs_wlist_esize_null t v) = f t)
    (B : List Int) (t : St) (n : Nat) : f (SF7 B t n) = f t := by
  rw [SF7, F4, hbb, hi, hu, hrow, hi, SF6, hrn, hrow, SF5, F3, hbb, hi, hb, hi, SF4, F2, hbb, hi, hb, hi, SF3, F1, hbb, hi, hb, hi, SF2, F0, hbb, hi, hb, hi,
    SAllocB, c5n, c5, c4n, c4, c3n, c3, c2n, c2, c1n, c1, hbn, hb]

/-- a version-4 field of `*vs` reaches the tail as the caller passed it -/
theorem keep4 {α} (f : St → α) (hbb : ∀ t v, f (vunpackvs.St.set_bb t v) = f t) (hi : ∀ t v, f (vunpackvs.St.set_i t v) = f t)
    (hu : ∀ t v, f (vunpackvs.St.set_int16var t v) = f t) (hrow : ∀ t v, f (vunpackvs.St.set_vs_wlist_name t v) = f t)
    (hrn : ∀ t v, f (vunpackvs.St.set_vs_wlist_name_null t v) = f t) (hb : ∀ t v, f (vunpackvs.St.set_vs_wlist_bptr t v) = f t)
    (hbn : ∀ t v, f (vunpackvs.St.set_vs_wlist_bptr_null t v) = f t)
    (c1 : ∀ t v, f (vunpackvs.St.set_vs_wlist_type t v) = f t) (c1n : ∀ t v, f (vunpackvs.St.set_vs_wlist_type_null t v) = f t)
    (c2 : ∀ t v, f (vunpackvs.St.set_vs_wlist_off t v) = f t) (c2n : ∀ t v, f (vunpackvs.St.set_vs_wlist_off_null t v) = f t)
    (c3 : ∀ t v, f (vunpackvs.St.set_vs_wlist_isize t v) = f t) (c3n : ∀ t v, f (vunpackvs.St.set_vs_wlist_isize_null t v) = f t)
    (c4 : ∀ t v, f (vunpackvs.St.set_vs_wlist_order t v) = f t) (c4n : ∀ t v, f (vunpackvs.St.set_vs_wlist_order_null t v) = f t)
    (c5 : ∀ t v, f (vunpackvs.St.set_vs_wlist_esize t v) = f t) (c5n : ∀ t v, f (vunpackvs.St.set_vs_wlist_esize_null t v) = f t)
    (ht : ∀ t v, f (vunpackvs.St.set_temp t v) = f t) (hx : ∀ t v, f (vunpackvs.St.set_vs_exref t v) = f t)
    (he : ∀ t v, f (vunpackvs.St.set_vs_extag t v) = f t) (hc : ∀ t v, f (vunpackvs.St.set_vs_vsclass t v) = f t)
    (hn : ∀ t v, f (vunpackvs.St.set_vs_vsname t v) = f t) (h0 : ∀ t, f (phNoFields t) = f t) (B : List Int) (L : Nat) (s : St)
    (hh : f (SHead B (SPre B L s)) = f s) : f (Smid B L s) = f s :=
  Smid_keep f hbb ht hx he hc hn hu h0 (fun t n => SF7_proj f hbb hi hu hrow hrn hb hbn c1 c1n c2 c2n c3 c3n c4 c4n c5 c5n B t n) hh

theorem fill_zero' (vs : List Int) (n : Nat) (h : vs.length = n) : fill (List.replicate n 170) 0 vs = vs := by
  simp [fill, h]


end H4.Lemmas.C07Fn3
