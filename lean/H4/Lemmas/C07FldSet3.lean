import H4.Lemmas.C07FldSet2
/-! `VSsetfields`: the name scans (loops 2, 3, 6 have one shape: `scan_generic`), instantiated for the user symbols (loop 2) and the
    reserved symbols (loop 3). -/
namespace H4.Lemmas.C07Fld
open H4.Gen.Fn.Dfconv H4.Gen.Fn.Vsfld H4.VData H4.Gen.Hdf H4.Gen.Vs H4.C2L H4.VsfldEnc
set_option linter.unusedVariables false
set_option linter.unusedSimpArgs false

/-- the tail shared by the bodies of the three name scans (loops 2, 3, 6): `if (!strcmp(…)) { … break; }` and the loop increment -/
def scanStep (s1 X : VSsetfields.St) (c : Prop) [Decidable c] : VSsetfields.St :=
  have s2 : VSsetfields.St := if c then X else s1
  have s3 : VSsetfields.St := VSsetfields.St.set_cnt s2 (false)
  have s4 : VSsetfields.St := if s3.gto ∨ s3.brk then s3 else
    have s5 : VSsetfields.St := VSsetfields.St.set_j s3 ((s3.j + 1))
    s5
  s4

theorem scanStep_yes (s1 X : VSsetfields.St) (c : Prop) [Decidable c] (hc : c) (hX : X.gto = true ∨ X.brk = true) :
    scanStep s1 X c = VSsetfields.St.set_cnt X false := by
  unfold scanStep
  simp only [if_pos hc]
  have hx : (VSsetfields.St.set_cnt X false).gto = true ∨ (VSsetfields.St.set_cnt X false).brk = true := hX
  rw [if_pos hx]

theorem scanStep_no (s1 X : VSsetfields.St) (c : Prop) [Decidable c] (hc : ¬ c) (hcl : s1.gto = false ∧ s1.brk = false) :
    scanStep s1 X c = { s1 with j := s1.j + 1, cnt := false } := by
  unfold scanStep
  simp only [if_neg hc]
  have hx : ¬ ((VSsetfields.St.set_cnt s1 false).gto = true ∨ (VSsetfields.St.set_cnt s1 false).brk = true) := by
    show ¬ (s1.gto = true ∨ s1.brk = true)
    simp [hcl.1, hcl.2]
  rw [if_neg hx]

theorem l2Body_eq (fuel : Nat) (s : VSsetfields.St) : l2Body fuel s =
    (have s : VSsetfields.St := VSsetfields.chk s (0 ≤ s.i ∧ s.i < s.av.length)
     have s : VSsetfields.St := VSsetfields.chk s (0 ≤ s.j ∧ s.j < s.vs_usym_name.length)
     have s : VSsetfields.St := VSsetfields.chk s ((strcmpC (s.av.getD (Int.toNat (s.i)) []) (s.vs_usym_name.getD (Int.toNat (s.j)) [])).isSome = true)
     scanStep s (l2A fuel s) (¬(((strcmpC (s.av.getD (Int.toNat (s.i)) []) (s.vs_usym_name.getD (Int.toNat (s.j)) [])).getD 0) ≠ 0))) := rfl

theorem sf_loop2_exit (fuel : Nat) (s : VSsetfields.St) (h : ¬ ((s.j < s.vs_nusym) ∧ ¬(s.gto ∨ s.brk))) :
    VSsetfields.loop2 fuel s = s := by
  cases fuel <;> (rw [VSsetfields.loop2, if_neg h])

/-- one pass of the scan of the user symbol table for the name `nm = av[i]` -/
theorem l2_step (fuel : Nat) (s : VSsetfields.St) (hcl : SfClean s) (usym : List SymDef) (hn : ∀ sd ∈ usym, NameOK sd.name)
    (nm : String) (hnm : NameOK nm) (pad : List Int)
    (hav : s.av.getD (Int.toNat s.i) [] = chars nm ++ 0 :: pad) (hi : 0 ≤ s.i ∧ s.i < s.av.length)
    (u1 : s.vs_usym_name = nameRows usym) (hnu : s.vs_nusym = usym.length) (j0 : Nat) (hj : s.j = j0) (hj0 : j0 < usym.length)
    (hX : (usym.getD j0 default).name = nm → (l2A (fuel + 1) s).gto = true ∨ (l2A (fuel + 1) s).brk = true) :
    VSsetfields.loop2 (fuel + 1) s = VSsetfields.loop2 fuel
      (if (usym.getD j0 default).name = nm then VSsetfields.St.set_cnt (l2A (fuel + 1) s) false else { s with j := s.j + 1, cnt := false }) := by
  obtain ⟨h1, h2, h3⟩ := hcl
  have hcond : (s.j < s.vs_nusym) ∧ ¬(s.gto ∨ s.brk) := ⟨by omega, by simp [h1, h2]⟩
  rw [VSsetfields.loop2, if_pos hcond, loop2_body_pieces, l2Body_eq]
  congr 1
  have hrow : s.vs_usym_name.getD (Int.toNat s.j) [] = chars (usym.getD j0 default).name ++ 0 :: [] := by
    rw [u1, hj]; simp [nameRows, hj0, cstr]
  obtain ⟨r, hr, hr0⟩ := strcmp_names nm (usym.getD j0 default).name hnm (hn _ (by simp [hj0])) pad []
  have c1 := sf_chk_true s _ hi
  have c2 := sf_chk_true s (0 ≤ s.j ∧ s.j < s.vs_usym_name.length) (by rw [u1]; simp [nameRows]; omega)
  have c3 := sf_chk_true s ((strcmpC (s.av.getD (Int.toNat (s.i)) []) (s.vs_usym_name.getD (Int.toNat (s.j)) [])).isSome = true)
    (by rw [hav, hrow, hr]; rfl)
  simp only [c1]
  simp only [c2]
  simp only [c3]
  rw [hav, hrow, hr]
  by_cases e : (usym.getD j0 default).name = nm
  · have : r = 0 := hr0.mpr e.symm
    subst this
    rw [if_pos e, scanStep_yes _ _ _ (by simp) (hX e)]
  · have hr' : r ≠ 0 := fun h => e (hr0.mp h).symm
    rw [if_neg e, scanStep_no _ _ _ (by simpa using hr') ⟨h1, h2⟩]

theorem st_j_zero (s : VSsetfields.St) : ({ s with j := s.j + ((0 : Nat) : Int) } : VSsetfields.St) = s := by
  cases s; simp

theorem st_j_step (s : VSsetfields.St) (d : Nat) (hc : s.cnt = false) :
    ({ ({ s with j := s.j + 1, cnt := false } : VSsetfields.St) with j := ({ s with j := s.j + 1, cnt := false } : VSsetfields.St).j + (d : Int) } : VSsetfields.St)
      = { s with j := s.j + ((d + 1 : Nat) : Int) } := by
  cases s; simp_all; omega

theorem st_j_len (s : VSsetfields.St) (L : Int) (hc : s.cnt = false) :
    ({ ({ s with j := s.j + 1, cnt := false } : VSsetfields.St) with j := L } : VSsetfields.St) = { s with j := L } := by
  cases s; simp_all

/-- the three name scans (loops 2, 3, 6) have one shape: `L` is the loop, `A` the branch run at the first candidate named `nm`,
    `P` what the loop needs of its state.  The scan stops at the first candidate named `nm` (running `A` there), or at the end. -/
theorem scan_generic (L A : Nat → VSsetfields.St → VSsetfields.St) (P : VSsetfields.St → Prop) (cands : List String) (nm : String)
    (hP : ∀ s, P s → s.cnt = false ∧ 0 ≤ s.j)
    (hPstep : ∀ s, P s → P { s with j := s.j + 1, cnt := false })
    (hexit1 : ∀ fuel s, (s.gto = true ∨ s.brk = true) → L fuel s = s)
    (hexit2 : ∀ fuel s, P s → cands.length ≤ s.j.toNat → L fuel s = s)
    (hstep : ∀ fuel s, P s → s.j.toNat < cands.length →
      (cands.getD s.j.toNat "" = nm → (A (fuel + 1) s).gto = true ∨ (A (fuel + 1) s).brk = true) →
      L (fuel + 1) s = L fuel (if cands.getD s.j.toNat "" = nm then VSsetfields.St.set_cnt (A (fuel + 1) s) false
        else { s with j := s.j + 1, cnt := false })) :
    ∀ (n fuel : Nat) (s : VSsetfields.St), n ≤ fuel → P s → s.j.toNat + n = cands.length →
    (∀ d f', (cands.drop s.j.toNat).findIdx? (· == nm) = some d →
      (A f' { s with j := s.j + d }).gto = true ∨ (A f' { s with j := s.j + d }).brk = true) →
    match (cands.drop s.j.toNat).findIdx? (· == nm) with
    | none => L fuel s = { s with j := cands.length }
    | some d => ∃ f', L fuel s = VSsetfields.St.set_cnt (A f' { s with j := s.j + d }) false := by
  intro n
  induction n with
  | zero =>
    intro fuel s _ hp hj hX
    obtain ⟨h3, hj0⟩ := hP s hp
    have : cands.drop s.j.toNat = [] := List.drop_eq_nil_of_le (by omega)
    rw [this]
    simp only [List.findIdx?_nil]
    rw [hexit2 _ _ hp (by omega)]
    have e : s.j = (cands.length : Int) := by omega
    rw [← e]
  | succ n ih =>
    intro fuel s hf hp hj hX
    obtain ⟨h3, hj0⟩ := hP s hp
    obtain ⟨fuel', rfl⟩ : ∃ f, fuel = f + 1 := ⟨fuel - 1, by omega⟩
    have hlt : s.j.toNat < cands.length := by omega
    have hdrop : cands.drop s.j.toNat = cands.getD s.j.toNat "" :: cands.drop (s.j.toNat + 1) := by
      rw [List.drop_eq_getElem_cons hlt]; simp [hlt]
    by_cases e : cands.getD s.j.toNat "" = nm
    · have hfi : (cands.drop s.j.toNat).findIdx? (· == nm) = some 0 := by
        rw [hdrop, List.findIdx?_cons]
        have : (cands.getD s.j.toNat "" == nm) = true := by rw [e]; exact beq_self_eq_true _
        rw [this]; rfl
      have hs0 := st_j_zero s
      have hx := hX 0 (fuel' + 1) hfi
      rw [hs0] at hx
      rw [hfi]
      refine ⟨fuel' + 1, ?_⟩
      rw [hs0, hstep fuel' s hp hlt (fun _ => hx), if_pos e]
      exact hexit1 _ _ hx
    · have e' : (cands.getD s.j.toNat "" == nm) = false := by simpa using e
      rw [hstep fuel' s hp hlt (fun h => absurd h e), if_neg e]
      have hj1 : (s.j + 1).toNat = s.j.toNat + 1 := by omega
      have key := ih fuel' { s with j := s.j + 1, cnt := false } (by omega) (hPstep s hp)
        (by show (s.j + 1).toNat + n = _; omega)
        (by
          intro d f' hd
          have hd' : (cands.drop s.j.toNat).findIdx? (· == nm) = some (d + 1) := by
            rw [hdrop, List.findIdx?_cons, e']
            show Option.map _ ((cands.drop (s.j.toNat + 1)).findIdx? _) = _
            rw [← hj1]; rw [show ({ s with j := s.j + 1, cnt := false } : VSsetfields.St).j.toNat = (s.j + 1).toNat from rfl] at hd
            rw [hd]; rfl
          have := hX (d + 1) f' hd'
          rw [st_j_step s d h3]; exact this)
      rw [hdrop, List.findIdx?_cons, e']
      simp only [Bool.false_eq_true, if_false]
      rw [show ({ s with j := s.j + 1, cnt := false } : VSsetfields.St).j.toNat = s.j.toNat + 1 from hj1] at key
      cases hfi : (cands.drop (s.j.toNat + 1)).findIdx? (· == nm) with
      | none =>
        rw [hfi] at key
        simp only [Option.map_none]
        rw [key]
        exact st_j_len s _ h3
      | some d =>
        rw [hfi] at key
        obtain ⟨f', hk⟩ := key
        simp only [Option.map_some]
        refine ⟨f', ?_⟩
        rw [hk, st_j_step s d h3]


/-- what the scan of the user symbol table needs of its state -/
def P2 (usym : List SymDef) (nm : String) (pad : List Int) (s : VSsetfields.St) : Prop :=
  SfClean s ∧ s.av.getD (Int.toNat s.i) [] = chars nm ++ 0 :: pad ∧ (0 ≤ s.i ∧ s.i < s.av.length) ∧
    s.vs_usym_name = nameRows usym ∧ s.vs_nusym = usym.length ∧ 0 ≤ s.j

theorem l2_scan (usym : List SymDef) (hn : ∀ sd ∈ usym, NameOK sd.name) (nm : String) (hnm : NameOK nm) (pad : List Int)
    (fuel : Nat) (s : VSsetfields.St) (hf : usym.length ≤ fuel) (hp : P2 usym nm pad s) (hj : s.j = 0)
    (hX : ∀ d f', (usym.map (·.name)).findIdx? (· == nm) = some d →
      (l2A f' { s with j := s.j + d }).gto = true ∨ (l2A f' { s with j := s.j + d }).brk = true) :
    match (usym.map (·.name)).findIdx? (· == nm) with
    | none => VSsetfields.loop2 fuel s = { s with j := usym.length }
    | some d => ∃ f', VSsetfields.loop2 fuel s = VSsetfields.St.set_cnt (l2A f' { s with j := s.j + d }) false := by
  have hj' : s.j.toNat = 0 := by omega
  have := scan_generic VSsetfields.loop2 l2A (P2 usym nm pad) (usym.map (·.name)) nm
    (fun s hp => ⟨hp.1.2.2, hp.2.2.2.2.2⟩)
    (fun s hp => ⟨⟨hp.1.1, hp.1.2.1, rfl⟩, hp.2.1, hp.2.2.1, hp.2.2.2.1, hp.2.2.2.2.1, by show 0 ≤ s.j + 1; have := hp.2.2.2.2.2; omega⟩)
    (fun fuel s h => sf_loop2_exit fuel s (by intro hc; rcases h with h | h; exact hc.2 (Or.inl h); exact hc.2 (Or.inr h)))
    (fun fuel s hp h => sf_loop2_exit fuel s (by
      intro hc; have := hp.2.2.2.2.1; have := hp.2.2.2.2.2; simp at h; omega))
    (fun fuel s hp hlt hx => by
      have hlt' : s.j.toNat < usym.length := by simpa using hlt
      have hg : (usym.map (·.name)).getD s.j.toNat "" = (usym.getD s.j.toNat default).name := by simp [hlt']
      rw [hg] at hx ⊢
      exact l2_step fuel s hp.1 usym hn nm hnm pad hp.2.1 hp.2.2.1 hp.2.2.2.1 hp.2.2.2.2.1 s.j.toNat (by have := hp.2.2.2.2.2; omega) hlt' hx)
    usym.length fuel s hf hp (by simp [hj']) (by rw [hj']; simpa using hX)
  rw [hj'] at this
  simpa using this

/-! ### the scan of the reserved symbols (loop 3) -/

theorem l3Body_eq (fuel : Nat) (s : VSsetfields.St) : l3Body fuel s =
    (have s : VSsetfields.St := VSsetfields.chk s (0 ≤ s.i ∧ s.i < s.av.length)
     have s : VSsetfields.St := VSsetfields.chk s (0 ≤ s.j ∧ s.j < (H4.Gen.Vs.RSTAB_NAME).length)
     have s : VSsetfields.St := VSsetfields.chk s ((strcmpC (s.av.getD (Int.toNat (s.i)) []) ((H4.Gen.Vs.RSTAB_NAME).getD (Int.toNat (s.j)) [])).isSome = true)
     scanStep s (l3A fuel s) (¬(((strcmpC (s.av.getD (Int.toNat (s.i)) []) ((H4.Gen.Vs.RSTAB_NAME).getD (Int.toNat (s.j)) [])).getD 0) ≠ 0))) := rfl

theorem sf_loop3_eq (fuel : Nat) (s : VSsetfields.St) : VSsetfields.loop3 (fuel + 1) s =
    if (s.j < 9) ∧ ¬(s.gto ∨ s.brk) then VSsetfields.loop3 fuel (VSsetfields.loop3.body (fuel + 1) s) else s := by
  rw [VSsetfields.loop3]
  simp only [sf_chk_true s (16 ≠ 0) (by decide)]
  rfl

theorem sf_loop3_exit (fuel : Nat) (s : VSsetfields.St) (h : ¬ ((s.j < 9) ∧ ¬(s.gto ∨ s.brk))) :
    VSsetfields.loop3 fuel s = s := by
  cases fuel with
  | zero =>
    rw [VSsetfields.loop3]
    simp only [sf_chk_true s (16 ≠ 0) (by decide)]
    exact if_neg h
  | succ f => rw [sf_loop3_eq, if_neg h]

theorem l3_step (fuel : Nat) (s : VSsetfields.St) (hcl : SfClean s) (nm : String) (hnm : NameOK nm) (pad : List Int)
    (hav : s.av.getD (Int.toNat s.i) [] = chars nm ++ 0 :: pad) (hi : 0 ≤ s.i ∧ s.i < s.av.length)
    (j0 : Nat) (hj : s.j = j0) (hj0 : j0 < 9)
    (hX : (rstab.getD j0 default).name = nm → (l3A (fuel + 1) s).gto = true ∨ (l3A (fuel + 1) s).brk = true) :
    VSsetfields.loop3 (fuel + 1) s = VSsetfields.loop3 fuel
      (if (rstab.getD j0 default).name = nm then VSsetfields.St.set_cnt (l3A (fuel + 1) s) false else { s with j := s.j + 1, cnt := false }) := by
  obtain ⟨h1, h2, h3⟩ := hcl
  obtain ⟨r1, r2, r3, r4, r5, rr⟩ := rstab_rows
  obtain ⟨q1, q2, _⟩ := rr j0 hj0
  have hcond : (s.j < 9) ∧ ¬(s.gto ∨ s.brk) := ⟨by omega, by simp [h1, h2]⟩
  rw [sf_loop3_eq, if_pos hcond, loop3_body_pieces, l3Body_eq]
  congr 1
  have hjt : Int.toNat s.j = j0 := by omega
  have hrow : RSTAB_NAME.getD (Int.toNat s.j) [] = chars (rstab.getD j0 default).name ++ 0 :: [] := by rw [hjt, q1]; rfl
  obtain ⟨r, hr, hr0⟩ := strcmp_names nm (rstab.getD j0 default).name hnm q2 pad []
  have c1 := sf_chk_true s _ hi
  have c2 := sf_chk_true s (0 ≤ s.j ∧ s.j < (H4.Gen.Vs.RSTAB_NAME).length) (by rw [r1]; omega)
  have c3 := sf_chk_true s ((strcmpC (s.av.getD (Int.toNat (s.i)) []) ((H4.Gen.Vs.RSTAB_NAME).getD (Int.toNat (s.j)) [])).isSome = true)
    (by rw [hav, hrow, hr]; rfl)
  simp only [c1]
  simp only [c2]
  simp only [c3]
  rw [hav, hrow, hr]
  by_cases e : (rstab.getD j0 default).name = nm
  · have : r = 0 := hr0.mpr e.symm
    subst this
    rw [if_pos e, scanStep_yes _ _ _ (by simp) (hX e)]
  · have hr' : r ≠ 0 := fun h => e (hr0.mp h).symm
    rw [if_neg e, scanStep_no _ _ _ (by simpa using hr') ⟨h1, h2⟩]

def P3 (nm : String) (pad : List Int) (s : VSsetfields.St) : Prop :=
  SfClean s ∧ s.av.getD (Int.toNat s.i) [] = chars nm ++ 0 :: pad ∧ (0 ≤ s.i ∧ s.i < s.av.length) ∧ 0 ≤ s.j

theorem l3_scan (nm : String) (hnm : NameOK nm) (pad : List Int)
    (fuel : Nat) (s : VSsetfields.St) (hf : 9 ≤ fuel) (hp : P3 nm pad s) (hj : s.j = 0)
    (hX : ∀ d f', (rstab.map (·.name)).findIdx? (· == nm) = some d →
      (l3A f' { s with j := s.j + d }).gto = true ∨ (l3A f' { s with j := s.j + d }).brk = true) :
    match (rstab.map (·.name)).findIdx? (· == nm) with
    | none => VSsetfields.loop3 fuel s = { s with j := 9 }
    | some d => ∃ f', VSsetfields.loop3 fuel s = VSsetfields.St.set_cnt (l3A f' { s with j := s.j + d }) false := by
  have hj' : s.j.toNat = 0 := by omega
  have hlen : (rstab.map (·.name)).length = 9 := by simp [rstab_rows.2.2.2.2.1]
  have := scan_generic VSsetfields.loop3 l3A (P3 nm pad) (rstab.map (·.name)) nm
    (fun s hp => ⟨hp.1.2.2, hp.2.2.2⟩)
    (fun s hp => ⟨⟨hp.1.1, hp.1.2.1, rfl⟩, hp.2.1, hp.2.2.1, by show 0 ≤ s.j + 1; have := hp.2.2.2; omega⟩)
    (fun fuel s h => sf_loop3_exit fuel s (by intro hc; rcases h with h | h; exact hc.2 (Or.inl h); exact hc.2 (Or.inr h)))
    (fun fuel s hp h => sf_loop3_exit fuel s (by
      intro hc; have := hp.2.2.2; rw [hlen] at h; omega))
    (fun fuel s hp hlt hx => by
      have hlt' : s.j.toNat < 9 := by rw [hlen] at hlt; exact hlt
      have hg : (rstab.map (·.name)).getD s.j.toNat "" = (rstab.getD s.j.toNat default).name := by
        have : s.j.toNat < rstab.length := by rw [rstab_rows.2.2.2.2.1]; exact hlt'
        simp [this]
      rw [hg] at hx ⊢
      exact l3_step fuel s hp.1 nm hnm pad hp.2.1 hp.2.2.1 s.j.toNat (by have := hp.2.2.2; omega) hlt' hx)
    9 fuel s hf hp (by rw [hlen]; omega) (by rw [hj']; simpa using hX)
  rw [hj', hlen] at this
  simpa using this
end H4.Lemmas.C07Fld
