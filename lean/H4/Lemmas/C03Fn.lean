import H4.Slab
import H4.Lemmas.C2L
import H4.Gen.Fn.Putget
/-! C03, function-level Tie A: loop lemmas for `NCvcmaxcontig` of `mfhdf/src/putget.c` as translated by gen/c2lean.py
    (`H4.Gen.Fn.Putget`), and the pure model lemmas that tie its answer to the decision inside `Slab.runs`.  Core only. -/
set_option linter.unusedSimpArgs false
namespace H4.Lemmas.C03Fn
open H4 H4.Slab H4.C2L H4.Gen.Fn.Putget

/-! ## the translated loop -/

theorem chk_true (s : NCvcmaxcontig.St) (c : Prop) [Decidable c] (h : c) : NCvcmaxcontig.chk s c = s := by
  cases s; simp [NCvcmaxcontig.chk, h]

/-- `unsigned long` conversion of a value below 2^63 -/
theorem wrap_nat (a : Nat) (h : a < 2 ^ 63) : (a : Int) % 18446744073709551616 = a := by omega

/-- `*shp - *orp` in `unsigned long` for `origin ≤ shape` -/
theorem wrap_sub (a b : Nat) (ha : a < 2 ^ 63) (hb : b ≤ a) :
    ((a : Int) - (b : Int)) % 18446744073709551616 = ((a - b : Nat) : Int) := by omega

/-- all values of a C array of `long`/`unsigned long` are below 2^63 -/
def Small (l : List Nat) : Prop := ∀ x ∈ l, x < 2 ^ 63

instance (l : List Nat) : Decidable (Small l) := by unfold Small; exact inferInstance

theorem Small.getD {l : List Nat} (h : Small l) (i : Nat) : l.getD i 0 < 2 ^ 63 := by
  by_cases hi : i < l.length
  · simp only [List.getD_eq_getElem?_getD, List.getElem?_eq_getElem hi, Option.getD_some]
    exact h _ (List.getElem_mem hi)
  · simp only [List.getD_eq_getElem?_getD, List.getElem?_eq_none (by omega : l.length ≤ i), Option.getD_none]
    omega

/-- one pass through the loop body at index `j` -/
theorem body_eq (fuel : Nat) (s : NCvcmaxcontig.St) (shape origin edges : List Nat) (j : Nat)
    (hsh : s.vp_shape = ints shape) (hor : s.origin = ints origin) (hed : s.edges = ints edges)
    (hj1 : j < shape.length) (hj2 : j < origin.length) (hj3 : j < edges.length)
    (hshp : s.shp = j) (hedp : s.edp = j) (horp : s.orp = j)
    (hdone : s.done = false) (hbrk : s.brk = false) (hcnt : s.cnt = false)
    (hS : shape.getD j 0 < 2 ^ 63) (hO : origin.getD j 0 ≤ shape.getD j 0) (hE : edges.getD j 0 < 2 ^ 63) :
    NCvcmaxcontig.loop0.body fuel s =
      if shape.getD j 0 - origin.getD j 0 < edges.getD j 0 then { s with retnull := true, done := true }
      else if edges.getD j 0 < shape.getD j 0 then { s with brk := true }
      else { s with shp := (j : Int) - 1, edp := (j : Int) - 1, orp := (j : Int) - 1 } := by
  have c1 : 0 ≤ s.edp ∧ s.edp < s.edges.length := by rw [hedp, hed]; simp; omega
  have c2 : 0 ≤ s.shp ∧ s.shp < s.vp_shape.length := by rw [hshp, hsh]; simp; omega
  have c3 : 0 ≤ s.orp ∧ s.orp < s.origin.length := by rw [horp, hor]; simp; omega
  have gE : s.edges.getD (Int.toNat s.edp) 0 = ((edges.getD j 0 : Nat) : Int) := by
    rw [hedp, hed]; simp [List.getD_eq_getElem?_getD]
  have gS : s.vp_shape.getD (Int.toNat s.shp) 0 = ((shape.getD j 0 : Nat) : Int) := by
    rw [hshp, hsh]; simp [List.getD_eq_getElem?_getD]
  have gO : s.origin.getD (Int.toNat s.orp) 0 = ((origin.getD j 0 : Nat) : Int) := by
    rw [horp, hor]; simp [List.getD_eq_getElem?_getD]
  have hO' : origin.getD j 0 < 2 ^ 63 := by omega
  unfold NCvcmaxcontig.loop0.body
  by_cases r : shape.getD j 0 - origin.getD j 0 < edges.getD j 0
  · have r' : ((edges.getD j 0 : Nat) : Int) > ((shape.getD j 0 - origin.getD j 0 : Nat) : Int) ∨ ((edges.getD j 0 : Nat) : Int) < 0 := by omega
    simp only [chk_true s _ c1, chk_true s _ c2, chk_true s _ c3, chk_true s _ (Or.inr c1 : _ ∨ _), gE, gS, gO,
      wrap_nat _ hE, wrap_nat _ hO', wrap_sub _ _ hS hO, r', r, if_true, NCvcmaxcontig.St.set_done, NCvcmaxcontig.St.set_retnull,
      NCvcmaxcontig.St.set_cnt, true_or]
    cases s; simp_all
  · have r' : ¬ (((edges.getD j 0 : Nat) : Int) > ((shape.getD j 0 - origin.getD j 0 : Nat) : Int) ∨ ((edges.getD j 0 : Nat) : Int) < 0) := by omega
    have nx : ¬ (s.done = true ∨ s.brk = true ∨ s.cnt = true) := by simp [hdone, hbrk, hcnt]
    by_cases b : edges.getD j 0 < shape.getD j 0
    · have b' : ((edges.getD j 0 : Nat) : Int) < ((shape.getD j 0 : Nat) : Int) := by omega
      simp only [chk_true s _ c1, chk_true s _ c2, chk_true s _ c3, chk_true s _ (Or.inr c1 : _ ∨ _), gE, gS, gO,
        wrap_nat _ hE, wrap_nat _ hO', wrap_sub _ _ hS hO, r', r, b, b', nx, if_true, if_false, NCvcmaxcontig.St.set_brk,
        NCvcmaxcontig.St.set_cnt, true_or, or_true]
      cases s; simp_all
    · have b' : ¬ (((edges.getD j 0 : Nat) : Int) < ((shape.getD j 0 : Nat) : Int)) := by omega
      simp only [chk_true s _ c1, chk_true s _ c2, chk_true s _ c3, chk_true s _ (Or.inr c1 : _ ∨ _), gE, gS, gO,
        wrap_nat _ hE, wrap_nat _ hO', wrap_sub _ _ hS hO, r', r, b, b', nx, if_true, if_false, NCvcmaxcontig.St.set_brk,
        NCvcmaxcontig.St.set_cnt, NCvcmaxcontig.St.set_shp, NCvcmaxcontig.St.set_edp, NCvcmaxcontig.St.set_orp, hdone, hbrk]
      cases s; simp_all

/-- the loop does nothing once a `return`/`break` is pending or the cursor has passed `boundary` -/
theorem loop0_stop (fuel : Nat) (s : NCvcmaxcontig.St) (h : s.done = true ∨ s.brk = true ∨ s.shp < s.boundary) :
    NCvcmaxcontig.loop0 fuel s = s := by
  have : ¬ ((s.shp ≥ s.boundary) ∧ ¬(s.done = true ∨ s.brk = true)) := by
    rcases h with h | h | h
    · simp [h]
    · simp [h]
    · intro ⟨h1, _⟩; omega
  cases fuel <;> simp only [NCvcmaxcontig.loop0, this, if_false]

/-- the translated loop computes the model's scan `maxContigScan` (for every state that satisfies the invariant) -/
theorem loop0_spec (shape origin edges : List Nat) (b : Nat)
    (hl2 : origin.length = shape.length) (hl3 : edges.length = shape.length)
    (hS : Small shape) (hE : Small edges)
    (hO : ∀ j, b ≤ j → j < shape.length → origin.getD j 0 ≤ shape.getD j 0) :
    ∀ (m fuel : Nat) (s : NCvcmaxcontig.St), m ≤ shape.length → m ≤ fuel → b ≤ m →
      s.vp_shape = ints shape → s.origin = ints origin → s.edges = ints edges →
      s.shp = (m : Int) - 1 → s.edp = (m : Int) - 1 → s.orp = (m : Int) - 1 → s.boundary = b →
      s.done = false → s.brk = false → s.cnt = false → s.ub = false → s.oof = false → s.retnull = false →
      (NCvcmaxcontig.loop0 fuel s).ub = false ∧ (NCvcmaxcontig.loop0 fuel s).oof = false ∧
      (NCvcmaxcontig.loop0 fuel s).cnt = false ∧ (NCvcmaxcontig.loop0 fuel s).boundary = b ∧
      match maxContigScan shape origin edges b m with
      | none => (NCvcmaxcontig.loop0 fuel s).done = true ∧ (NCvcmaxcontig.loop0 fuel s).retnull = true
      | some k => (NCvcmaxcontig.loop0 fuel s).done = false ∧ (NCvcmaxcontig.loop0 fuel s).retnull = false ∧
          (if (NCvcmaxcontig.loop0 fuel s).shp < (NCvcmaxcontig.loop0 fuel s).boundary
            then (NCvcmaxcontig.loop0 fuel s).edp + 1 else (NCvcmaxcontig.loop0 fuel s).edp) = (k : Int) := by
  intro m
  induction m with
  | zero =>
    intro fuel s _ _ hb hsh hor hed hshp hedp horp hbd hdone hbrk hcnt hub hoof hrn
    have hb0 : b = 0 := by omega
    rw [loop0_stop fuel s (by right; right; rw [hshp, hbd]; omega)]
    simp only [maxContigScan]
    refine ⟨hub, hoof, hcnt, hbd, hdone, hrn, ?_⟩
    rw [hshp, hbd, hedp, hb0]; simp
  | succ j ih =>
    intro fuel s hm hf hb hsh hor hed hshp hedp horp hbd hdone hbrk hcnt hub hoof hrn
    have hshp' : s.shp = (j : Int) := by rw [hshp]; omega
    have hedp' : s.edp = (j : Int) := by rw [hedp]; omega
    have horp' : s.orp = (j : Int) := by rw [horp]; omega
    by_cases hjb : j < b
    · rw [loop0_stop fuel s (by right; right; rw [hshp', hbd]; omega)]
      simp only [maxContigScan, hjb, if_true]
      refine ⟨hub, hoof, hcnt, hbd, hdone, hrn, ?_⟩
      rw [hshp', hbd, hedp']
      have hb' : (b : Int) = (j : Int) + 1 := by omega
      rw [hb', if_pos (by omega)]
    · cases fuel with
      | zero => omega
      | succ fuel =>
        have hgo : (s.shp ≥ s.boundary) ∧ ¬(s.done = true ∨ s.brk = true) := by
          refine ⟨by rw [hshp', hbd]; omega, by simp [hdone, hbrk]⟩
        have hstep : NCvcmaxcontig.loop0 (fuel + 1) s = NCvcmaxcontig.loop0 fuel (NCvcmaxcontig.loop0.body (fuel + 1) s) := by
          rw [NCvcmaxcontig.loop0, if_pos hgo]
        rw [hstep, body_eq (fuel + 1) s shape origin edges j hsh hor hed (by omega) (by omega) (by omega) hshp' hedp' horp'
          hdone hbrk hcnt (hS.getD j) (hO j (by omega) (by omega)) (hE.getD j)]
        simp only [maxContigScan, hjb, if_false]
        by_cases r : shape.getD j 0 - origin.getD j 0 < edges.getD j 0
        · simp only [r, if_true]
          rw [loop0_stop _ _ (by left; rfl)]
          exact ⟨hub, hoof, hcnt, hbd, rfl, rfl⟩
        · simp only [r, if_false]
          by_cases c : edges.getD j 0 < shape.getD j 0
          · simp only [c, if_true]
            rw [loop0_stop _ _ (by right; left; rfl)]
            refine ⟨hub, hoof, hcnt, hbd, hdone, hrn, ?_⟩
            show (if s.shp < s.boundary then s.edp + 1 else s.edp) = (j : Int)
            rw [hshp', hbd, hedp']
            have : ¬ ((j : Int) < (b : Int)) := by omega
            simp [this]
          · simp only [c, if_false]
            exact ih fuel _ (by omega) (by omega) (by omega) hsh hor hed (by simp) (by simp) (by simp) hbd hdone hbrk hcnt hub hoof hrn

/-- the state in which the translated `NCvcmaxcontig` enters its loop -/
@[reducible] def pre (n recsize len : Int) (shape origin edges : List Int) (b : Int) : NCvcmaxcontig.St :=
  (((({ vp_assoc_count := n, handle_recsize := recsize, vp_len := len, vp_shape_null := false, vp_shape := shape,
        edges := edges, origin := origin } : NCvcmaxcontig.St).set_boundary b).set_shp (n - 1)).set_edp (n - 1)).set_orp (n - 1)

/-- the translated `NCvcmaxcontig` on a variable with a shape, for either value of `boundary`:
    `b = 0` fixed-size variable (`shape[0] ≠ 0`), `b = 1` record variable that is not the one-dimensional only record variable -/
theorem entry_spec (shape origin edges : List Nat) (recsize len : Int) (fuel b : Nat) (hne : 0 < shape.length)
    (hl2 : origin.length = shape.length) (hl3 : edges.length = shape.length)
    (hS : Small shape) (hE : Small edges)
    (hb : (shape.getD 0 0 ≠ 0 ∧ b = 0) ∨ (shape.getD 0 0 = 0 ∧ ¬ (shape.length = 1 ∧ recsize ≤ len) ∧ b = 1))
    (hO : ∀ j, b ≤ j → j < shape.length → origin.getD j 0 ≤ shape.getD j 0) (hf : shape.length ≤ fuel) :
    (NCvcmaxcontig fuel recsize false (ints shape) shape.length len (ints origin) (ints edges)).ub = false ∧
    (NCvcmaxcontig fuel recsize false (ints shape) shape.length len (ints origin) (ints edges)).oof = false ∧
    (NCvcmaxcontig fuel recsize false (ints shape) shape.length len (ints origin) (ints edges)).done = true ∧
    (NCvcmaxcontig fuel recsize false (ints shape) shape.length len (ints origin) (ints edges)).boundary = b ∧
    match maxContigScan shape origin edges b shape.length with
    | none => (NCvcmaxcontig fuel recsize false (ints shape) shape.length len (ints origin) (ints edges)).retnull = true
    | some k => (NCvcmaxcontig fuel recsize false (ints shape) shape.length len (ints origin) (ints edges)).retnull = false ∧
        (NCvcmaxcontig fuel recsize false (ints shape) shape.length len (ints origin) (ints edges)).ret = (k : Int) := by
  have g0 : (ints shape).getD 0 0 = ((shape.getD 0 0 : Nat) : Int) := by simp [List.getD_eq_getElem?_getD]
  have hb1 : b ≤ shape.length := by omega
  have key := loop0_spec shape origin edges b hl2 hl3 hS hE hO shape.length fuel
    (pre shape.length recsize len (ints shape) (ints origin) (ints edges) b)
    (Nat.le_refl _) hf hb1 rfl rfl rfl rfl rfl rfl rfl rfl rfl rfl rfl rfl rfl
  rcases hb with ⟨h0, rfl⟩ | ⟨h0, h1, rfl⟩
  · simp [NCvcmaxcontig, NCvcmaxcontig.chk, -List.getD_eq_getElem?_getD, g0, h0, hne]
    generalize hr : NCvcmaxcontig.loop0 fuel _ = r at key
    obtain ⟨hub, hoof, hcnt, hbd, hm⟩ := key
    cases hsc : maxContigScan shape origin edges 0 shape.length with
    | none =>
      rw [hsc] at hm
      simp [hm.1, hm.2, hub, hoof, hbd]
    | some k =>
      rw [hsc] at hm
      obtain ⟨hd, hn, hk⟩ := hm
      simp only [hd, hcnt, hn, hub, hoof, hbd]
      by_cases hlt : r.shp < r.boundary
      · rw [if_pos hlt] at hk
        rw [hbd] at hlt
        simp at hlt
        simp [hlt, hd, hcnt, hn, hub, hoof, ← hk, hbd]
      · rw [if_neg hlt] at hk
        rw [hbd] at hlt
        simp only [Int.natCast_zero, Int.natCast_one] at hlt
        simp [hlt, hd, hcnt, hn, hub, hoof, hk, hbd]
  · have h1' : ¬ ((shape.length : Int) = 1 ∧ recsize ≤ len) := by omega
    simp [NCvcmaxcontig, NCvcmaxcontig.chk, -List.getD_eq_getElem?_getD, g0, h0, hne, h1']
    generalize hr : NCvcmaxcontig.loop0 fuel _ = r at key
    obtain ⟨hub, hoof, hcnt, hbd, hm⟩ := key
    cases hsc : maxContigScan shape origin edges 1 shape.length with
    | none =>
      rw [hsc] at hm
      simp [hm.1, hm.2, hub, hoof, hbd]
    | some k =>
      rw [hsc] at hm
      obtain ⟨hd, hn, hk⟩ := hm
      simp only [hd, hcnt, hn, hub, hoof, hbd]
      by_cases hlt : r.shp < r.boundary
      · rw [if_pos hlt] at hk
        rw [hbd] at hlt
        simp at hlt
        simp [hlt, hd, hcnt, hn, hub, hoof, ← hk, hbd]
      · rw [if_neg hlt] at hk
        rw [hbd] at hlt
        simp only [Int.natCast_zero, Int.natCast_one] at hlt
        simp [hlt, hd, hcnt, hn, hub, hoof, hk, hbd]

/-- the early return of `NCvcmaxcontig`: the one-dimensional only record variable answers `edges` without looking at the request -/
theorem entry_early (shape origin edges : List Nat) (recsize len : Int) (fuel : Nat) (hn : shape.length = 1)
    (h0 : shape.getD 0 0 = 0) (h1 : recsize ≤ len) :
    (NCvcmaxcontig fuel recsize false (ints shape) shape.length len (ints origin) (ints edges)).ub = false ∧
    (NCvcmaxcontig fuel recsize false (ints shape) shape.length len (ints origin) (ints edges)).oof = false ∧
    (NCvcmaxcontig fuel recsize false (ints shape) shape.length len (ints origin) (ints edges)).done = true ∧
    (NCvcmaxcontig fuel recsize false (ints shape) shape.length len (ints origin) (ints edges)).retnull = false ∧
    (NCvcmaxcontig fuel recsize false (ints shape) shape.length len (ints origin) (ints edges)).ret = 0 := by
  have g0 : (ints shape).getD 0 0 = ((shape.getD 0 0 : Nat) : Int) := by simp [List.getD_eq_getElem?_getD]
  simp [NCvcmaxcontig, NCvcmaxcontig.chk, -List.getD_eq_getElem?_getD, g0, h0, hn, h1]

/-! ## memory safety and termination for arbitrary values -/

/-- what one pass through the loop body does to the control fields, whatever the VALUES in the arrays are -/
theorem body_safe (fuel : Nat) (s : NCvcmaxcontig.St) (j : Nat)
    (hj1 : j < s.vp_shape.length) (hj2 : j < s.origin.length) (hj3 : j < s.edges.length)
    (hshp : s.shp = j) (hedp : s.edp = j) (horp : s.orp = j)
    (hdone : s.done = false) (hbrk : s.brk = false) (hcnt : s.cnt = false) :
    let r := NCvcmaxcontig.loop0.body fuel s
    r.ub = s.ub ∧ r.oof = s.oof ∧ r.cnt = false ∧ r.boundary = s.boundary ∧
    r.vp_shape = s.vp_shape ∧ r.origin = s.origin ∧ r.edges = s.edges ∧
    (r.done = true ∨ r.brk = true ∨
      (r.done = false ∧ r.brk = false ∧ r.shp = (j : Int) - 1 ∧ r.edp = (j : Int) - 1 ∧ r.orp = (j : Int) - 1)) := by
  have c1 : 0 ≤ s.edp ∧ s.edp < s.edges.length := by rw [hedp]; omega
  have c2 : 0 ≤ s.shp ∧ s.shp < s.vp_shape.length := by rw [hshp]; omega
  have c3 : 0 ≤ s.orp ∧ s.orp < s.origin.length := by rw [horp]; omega
  have nx : ¬ (s.done = true ∨ s.brk = true ∨ s.cnt = true) := by simp [hdone, hbrk, hcnt]
  dsimp only
  unfold NCvcmaxcontig.loop0.body
  by_cases hA : ((((s.edges.getD (Int.toNat (s.edp)) 0)) % 18446744073709551616) > ((((s.vp_shape.getD (Int.toNat (s.shp)) 0) - (((s.origin.getD (Int.toNat (s.orp)) 0)) % 18446744073709551616))) % 18446744073709551616)) ∨ ((s.edges.getD (Int.toNat (s.edp)) 0) < 0)
  · simp only [chk_true s _ c1, chk_true s _ c2, chk_true s _ c3, chk_true s _ (Or.inr c1 : _ ∨ _), hA, if_true,
      NCvcmaxcontig.St.set_done, NCvcmaxcontig.St.set_retnull, NCvcmaxcontig.St.set_cnt, true_or]
    simp
  · by_cases hB : ((((s.edges.getD (Int.toNat (s.edp)) 0)) % 18446744073709551616) < (s.vp_shape.getD (Int.toNat (s.shp)) 0))
    · simp only [chk_true s _ c1, chk_true s _ c2, chk_true s _ c3, chk_true s _ (Or.inr c1 : _ ∨ _), hA, hB, nx, if_true, if_false,
        NCvcmaxcontig.St.set_brk, NCvcmaxcontig.St.set_cnt, true_or, or_true]
      simp
    · simp only [chk_true s _ c1, chk_true s _ c2, chk_true s _ c3, chk_true s _ (Or.inr c1 : _ ∨ _), hA, hB, nx, if_true, if_false,
        NCvcmaxcontig.St.set_brk, NCvcmaxcontig.St.set_cnt, NCvcmaxcontig.St.set_shp, NCvcmaxcontig.St.set_edp, NCvcmaxcontig.St.set_orp,
        hdone, hbrk]
      simp [hdone, hbrk, hshp, hedp, horp]

/-- the translated loop never indexes outside the three arrays and terminates within `rank` passes, whatever the values are -/
theorem loop0_safe : ∀ (m fuel : Nat) (s : NCvcmaxcontig.St),
    m ≤ s.vp_shape.length → m ≤ s.origin.length → m ≤ s.edges.length → m ≤ fuel →
    s.shp = (m : Int) - 1 → s.edp = (m : Int) - 1 → s.orp = (m : Int) - 1 → 0 ≤ s.boundary →
    s.done = false → s.brk = false → s.cnt = false → s.ub = false → s.oof = false →
    (NCvcmaxcontig.loop0 fuel s).ub = false ∧ (NCvcmaxcontig.loop0 fuel s).oof = false ∧ (NCvcmaxcontig.loop0 fuel s).cnt = false := by
  intro m
  induction m with
  | zero =>
    intro fuel s _ _ _ _ hshp _ _ hb _ _ hcnt hub hoof
    rw [loop0_stop fuel s (by right; right; rw [hshp]; omega)]
    exact ⟨hub, hoof, hcnt⟩
  | succ j ih =>
    intro fuel s h1 h2 h3 hf hshp hedp horp hb hdone hbrk hcnt hub hoof
    by_cases hlt : s.shp < s.boundary
    · rw [loop0_stop fuel s (by right; right; exact hlt)]
      exact ⟨hub, hoof, hcnt⟩
    · cases fuel with
      | zero => omega
      | succ fuel =>
        have hgo : (s.shp ≥ s.boundary) ∧ ¬(s.done = true ∨ s.brk = true) := ⟨by omega, by simp [hdone, hbrk]⟩
        have hstep : NCvcmaxcontig.loop0 (fuel + 1) s = NCvcmaxcontig.loop0 fuel (NCvcmaxcontig.loop0.body (fuel + 1) s) := by
          rw [NCvcmaxcontig.loop0, if_pos hgo]
        obtain ⟨b1, b2, b3, b4, b5, b6, b7, b8⟩ := body_safe (fuel + 1) s j (by omega) (by omega) (by omega)
          (by rw [hshp]; omega) (by rw [hedp]; omega) (by rw [horp]; omega) hdone hbrk hcnt
        rw [hstep]
        rcases b8 with d | d | ⟨d1, d2, d3, d4, d5⟩
        · rw [loop0_stop _ _ (Or.inl d)]; exact ⟨by rw [b1]; exact hub, by rw [b2]; exact hoof, b3⟩
        · rw [loop0_stop _ _ (Or.inr (Or.inl d))]; exact ⟨by rw [b1]; exact hub, by rw [b2]; exact hoof, b3⟩
        · exact ih fuel _ (by rw [b5]; omega) (by rw [b6]; omega) (by rw [b7]; omega) (by omega) d3 d4 d5 (by rw [b4]; exact hb)
            d1 d2 b3 (by rw [b1]; exact hub) (by rw [b2]; exact hoof)

/-- **memory safety and termination for EVERY input**: whatever the values in `shape/origin/edges` (any integers, also negative or
    huge ones), `recsize`, `len`: with the three arrays of the variable's rank ≥ 1 the translated `NCvcmaxcontig` never indexes outside
    them, its loop ends within `rank` passes, and it returns (a pointer or NULL) -/
theorem entry_safe (shape origin edges : List Int) (recsize len : Int) (fuel : Nat) (hne : 0 < shape.length)
    (hl2 : origin.length = shape.length) (hl3 : edges.length = shape.length) (hf : shape.length ≤ fuel) :
    (NCvcmaxcontig fuel recsize false shape shape.length len origin edges).ub = false ∧
    (NCvcmaxcontig fuel recsize false shape shape.length len origin edges).oof = false ∧
    (NCvcmaxcontig fuel recsize false shape shape.length len origin edges).done = true := by
  by_cases h0 : shape.getD 0 0 = 0
  · by_cases h1 : (shape.length : Int) = 1 ∧ recsize ≤ len
    · simp [NCvcmaxcontig, NCvcmaxcontig.chk, -List.getD_eq_getElem?_getD, h0, hne, h1]
    · have key := loop0_safe shape.length fuel (pre shape.length recsize len shape origin edges 1)
        (Nat.le_refl _) (by simp [hl2]) (by simp [hl3]) hf rfl rfl rfl (by simp) rfl rfl rfl rfl rfl
      simp [NCvcmaxcontig, NCvcmaxcontig.chk, -List.getD_eq_getElem?_getD, h0, hne, h1]
      generalize hr : NCvcmaxcontig.loop0 fuel _ = r at key
      obtain ⟨hub, hoof, hcnt⟩ := key
      cases hd : r.done <;> by_cases hlt : r.shp < r.boundary <;> simp [hd, hub, hoof, hcnt, hlt]
  · have key := loop0_safe shape.length fuel (pre shape.length recsize len shape origin edges 0)
      (Nat.le_refl _) (by simp [hl2]) (by simp [hl3]) hf rfl rfl rfl (by simp) rfl rfl rfl rfl rfl
    simp [NCvcmaxcontig, NCvcmaxcontig.chk, -List.getD_eq_getElem?_getD, h0, hne]
    generalize hr : NCvcmaxcontig.loop0 fuel _ = r at key
    obtain ⟨hub, hoof, hcnt⟩ := key
    cases hd : r.done <;> by_cases hlt : r.shp < r.boundary <;> simp [hd, hub, hoof, hcnt, hlt]

/-! ## the model side: `NCvcmaxcontig`'s answer is the place where `Slab.runs` stops enumerating -/

theorem inRange_length : ∀ (sh s e : List Nat), inRange sh s e → s.length = sh.length ∧ e.length = sh.length := by
  intro sh
  induction sh with
  | nil => intro s e h; cases s <;> cases e <;> simp_all [inRange]
  | cons x xs ih =>
    intro s e h
    cases s with
    | nil => cases e <;> simp [inRange] at h
    | cons y ys => cases e with
      | nil => simp [inRange] at h
      | cons z zs => have := ih ys zs h.2; simp; omega

theorem inRange_getD : ∀ (sh s e : List Nat), inRange sh s e → ∀ j, j < sh.length →
    s.getD j 0 + e.getD j 0 ≤ sh.getD j 0 := by
  intro sh
  induction sh with
  | nil => intro s e _ j hj; simp at hj
  | cons x xs ih =>
    intro s e h j hj
    cases s with
    | nil => cases e <;> simp [inRange] at h
    | cons y ys => cases e with
      | nil => simp [inRange] at h
      | cons z zs =>
        cases j with
        | zero => simpa using h.1
        | succ j => simpa using ih ys zs h.2 j (by simpa using hj)

theorem getD_drop_head (l : List Nat) (j : Nat) (h : j < l.length) : l.drop j = l.getD j 0 :: l.drop (j + 1) := by
  rw [List.drop_eq_getElem_cons h]; simp [h]

/-- `full` of the dimensions from `j` on, one dimension at a time -/
theorem full_drop_step (sh s e : List Nat) (j : Nat) (h1 : j < sh.length) (h2 : s.length = sh.length) (h3 : e.length = sh.length) :
    full (sh.drop j) (s.drop j) (e.drop j) =
      (s.getD j 0 == 0 && e.getD j 0 == sh.getD j 0 && full (sh.drop (j + 1)) (s.drop (j + 1)) (e.drop (j + 1))) := by
  rw [getD_drop_head sh j h1, getD_drop_head s j (by omega), getD_drop_head e j (by omega)]
  simp only [full, List.drop_succ_cons]

theorem full_drop : ∀ (sh s e : List Nat) (k : Nat), full sh s e = true → full (sh.drop k) (s.drop k) (e.drop k) = true := by
  intro sh
  induction sh with
  | nil => intro s e k _; simp [full]
  | cons x xs ih =>
    intro s e k h
    cases k with
    | zero => simpa using h
    | succ k =>
      cases s with
      | nil => simp [full]
      | cons y ys => cases e with
        | nil => simp [full]
        | cons z zs =>
          simp only [full, Bool.and_eq_true] at h
          simpa using ih ys zs k h.2

theorem full_drop_forall (sh s e : List Nat) (h2 : s.length = sh.length) (h3 : e.length = sh.length) :
    ∀ (d m : Nat), full (sh.drop m) (s.drop m) (e.drop m) = true → m + d < sh.length →
      s.getD (m + d) 0 = 0 ∧ e.getD (m + d) 0 = sh.getD (m + d) 0 := by
  intro d
  induction d with
  | zero =>
    intro m hf hm
    rw [full_drop_step sh s e m (by omega) h2 h3] at hf
    simp only [Bool.and_eq_true, beq_iff_eq] at hf
    exact ⟨hf.1.1, hf.1.2⟩
  | succ d ih =>
    intro m hf hm
    rw [full_drop_step sh s e m (by omega) h2 h3] at hf
    simp only [Bool.and_eq_true, beq_iff_eq] at hf
    have := ih (m + 1) hf.2 (by omega)
    rw [show m + (d + 1) = m + 1 + d by omega]; exact this

theorem cut_zero (sh s e : List Nat) (h : full sh s e = true) : cut sh s e = 0 := by
  cases sh with
  | nil => simp [cut]
  | cons x xs => cases s with
    | nil => simp [cut]
    | cons y ys => cases e with
      | nil => simp [cut]
      | cons z zs =>
        simp only [full, Bool.and_eq_true] at h
        simp [cut, h.2]

/-- `cut` is the index `j` whose successors are all taken whole while the dimensions from `j` on are not -/
theorem cut_eq : ∀ (sh s e : List Nat) (j : Nat), s.length = sh.length → e.length = sh.length → j < sh.length →
    full (sh.drop (j + 1)) (s.drop (j + 1)) (e.drop (j + 1)) = true → full (sh.drop j) (s.drop j) (e.drop j) = false →
    cut sh s e = j := by
  intro sh
  induction sh with
  | nil => intro s e j _ _ hj; simp at hj
  | cons x xs ih =>
    intro s e j h2 h3 hj hf hn
    cases s with
    | nil => simp at h2
    | cons y ys => cases e with
      | nil => simp at h3
      | cons z zs =>
        cases j with
        | zero => simp only [List.drop_succ_cons, List.drop_zero] at hf; simp [cut, hf]
        | succ j =>
          simp only [List.drop_succ_cons] at hf hn
          have hnf : full xs ys zs = false := by
            cases hx : full xs ys zs with
            | false => rfl
            | true => rw [full_drop xs ys zs j hx] at hn; exact absurd hn (by simp)
          have := ih ys zs j (by simpa using h2) (by simpa using h3) (by simpa using hj) hf hn
          simp [cut, hnf, this]

theorem cut_lt : ∀ (sh s e : List Nat), sh ≠ [] → cut sh s e < sh.length := by
  intro sh
  induction sh with
  | nil => intro s e h; exact absurd rfl h
  | cons x xs ih =>
    intro s e _
    cases s with
    | nil => simp [cut]
    | cons y ys => cases e with
      | nil => simp [cut]
      | cons z zs =>
        simp only [cut]
        split
        · simp
        · rename_i hnf
          have hx : xs ≠ [] := by
            intro hx; subst hx; simp [full] at hnf
          have := ih ys zs hx
          simp; omega

/-- the dimensions after `cut` are taken whole, and (unless `cut = 0`) the dimensions from `cut` on are not -/
theorem cut_full : ∀ (sh s e : List Nat),
    full (sh.drop (cut sh s e + 1)) (s.drop (cut sh s e + 1)) (e.drop (cut sh s e + 1)) = true ∧
    (0 < cut sh s e → full (sh.drop (cut sh s e)) (s.drop (cut sh s e)) (e.drop (cut sh s e)) = false) := by
  intro sh
  induction sh with
  | nil => intro s e; simp [cut, full]
  | cons x xs ih =>
    intro s e
    cases s with
    | nil => simp [cut, full]
    | cons y ys => cases e with
      | nil => simp [cut, full]
      | cons z zs =>
        simp only [cut]
        split
        · rename_i hf; simp [hf]
        · rename_i hnf
          obtain ⟨i1, i2⟩ := ih ys zs
          refine ⟨by simpa using i1, fun _ => ?_⟩
          simp only [List.drop_succ_cons]
          by_cases hc : 0 < cut xs ys zs
          · exact i2 hc
          · have : cut xs ys zs = 0 := by omega
            rw [this]; simpa using hnf

/-- for an in-range request the scan of `NCvcmaxcontig` (fixed-size variable) arrives at `Slab.cut` -/
theorem scan_eq_cut (sh s e : List Nat) (hr : inRange sh s e) :
    ∀ m, m ≤ sh.length → full (sh.drop m) (s.drop m) (e.drop m) = true →
      maxContigScan sh s e 0 m = some (cut sh s e) := by
  obtain ⟨h2, h3⟩ := inRange_length sh s e hr
  intro m
  induction m with
  | zero => intro _ hf; simp only [List.drop_zero] at hf; simp [maxContigScan, cut_zero sh s e hf]
  | succ j ih =>
    intro hm hf
    have hin := inRange_getD sh s e hr j (by omega)
    have hstep := full_drop_step sh s e j (by omega) h2 h3
    simp only [maxContigScan, Nat.not_lt_zero, if_false]
    rw [if_neg (by omega)]
    by_cases c : e.getD j 0 < sh.getD j 0
    · rw [if_pos c]
      have hne : (e.getD j 0 == sh.getD j 0) = false := by simp only [beq_eq_false_iff_ne, ne_eq]; omega
      rw [hne] at hstep
      simp only [Bool.and_false, Bool.false_and] at hstep
      rw [cut_eq sh s e j h2 h3 (by omega) hf hstep]
    · rw [if_neg c]
      have h1 : (e.getD j 0 == sh.getD j 0) = true := by simp only [beq_iff_eq]; omega
      have h0 : (s.getD j 0 == 0) = true := by simp only [beq_iff_eq]; omega
      rw [h1, h0, hf] at hstep
      exact ih (by omega) hstep

theorem full_prod : ∀ (sh s e : List Nat), s.length = sh.length → e.length = sh.length → full sh s e = true →
    prod e = prod sh ∧ offset sh s = 0 := by
  intro sh
  induction sh with
  | nil => intro s e _ h _; cases e with
    | nil => simp [offset]
    | cons _ _ => simp at h
  | cons x xs ih =>
    intro s e h2 h3 hf
    cases e with
    | nil => simp at h3
    | cons z zs =>
      cases s with
      | nil => simp at h2
      | cons y ys =>
        simp only [full, Bool.and_eq_true, beq_iff_eq] at hf
        obtain ⟨i1, i2⟩ := ih ys zs (by simpa using h2) (by simpa using h3) hf.2
        simp [prod, offset, hf.1.1, hf.1.2, i1, i2]

/-- `Slab.runs` issues exactly the requests of `NCvario` driven by the index `Slab.cut` -/
theorem runs_eq_runsAt_cut : ∀ (sh s e : List Nat) (base : Nat), s.length = sh.length → e.length = sh.length →
    runs sh s e base = runsAt (cut sh s e) sh s e base := by
  intro sh
  induction sh with
  | nil => intro s e base _ _; simp [runs, cut, runsAt]
  | cons x xs ih =>
    intro s e base h2 h3
    cases s with
    | nil => simp at h2
    | cons y ys => cases e with
      | nil => simp at h3
      | cons z zs =>
        simp only [runs, cut]
        split
        · rename_i hf
          obtain ⟨i1, i2⟩ := full_prod xs ys zs (by simpa using h2) (by simpa using h3) hf
          simp [runsAt, offset, i1, i2]
        · simp only [runsAt]
          congr 1; funext i
          exact ih ys zs _ (by simpa using h2) (by simpa using h3)

/-- the edges of an in-range request are not longer than the extents -/
theorem small_of_inRange (sh s e : List Nat) (hr : inRange sh s e) (hS : Small sh) : Small e := by
  obtain ⟨_, h3⟩ := inRange_length sh s e hr
  intro x hx
  obtain ⟨j, hj, rfl⟩ := List.getElem_of_mem hx
  have h1 := inRange_getD sh s e hr j (by omega)
  have h2 := hS.getD j
  have : e.getD j 0 = e[j] := by simp [hj]
  omega

/-- an edge that does not fit, below a suffix that is scanned without `break`, makes the scan refuse the request -/
theorem scan_none (shape origin edges : List Nat) (b j : Nat) (hbj : b ≤ j)
    (hsuf : ∀ i, j < i → i < shape.length → origin.getD i 0 + edges.getD i 0 ≤ shape.getD i 0 ∧ shape.getD i 0 ≤ edges.getD i 0)
    (hbad : shape.getD j 0 - origin.getD j 0 < edges.getD j 0) :
    ∀ m, j < m → m ≤ shape.length → maxContigScan shape origin edges b m = none := by
  intro m
  induction m with
  | zero => intro h; omega
  | succ i ih =>
    intro h1 h2
    simp only [maxContigScan]
    rw [if_neg (by omega)]
    by_cases hij : i = j
    · subst hij; rw [if_pos hbad]
    · obtain ⟨a1, a2⟩ := hsuf i (by omega) (by omega)
      rw [if_neg (by omega), if_neg (by omega)]
      exact ih (by omega) (by omega)

/-- the scan never answers an index below `boundary` -/
theorem scan_ge (shape origin edges : List Nat) (b : Nat) : ∀ m k, maxContigScan shape origin edges b m = some k → b ≤ k := by
  intro m
  induction m with
  | zero => intro k h; simp only [maxContigScan, Option.some.injEq] at h; omega
  | succ i ih =>
    intro k h
    simp only [maxContigScan] at h
    split at h
    · simp only [Option.some.injEq] at h; omega
    · split at h
      · exact absurd h (by simp)
      · split at h
        · simp only [Option.some.injEq] at h; omega
        · exact ih k h

end H4.Lemmas.C03Fn
