import H4.Lemmas.C07FldSet5
/-! `VSsetfields`: the field loop follows `buildWList.go` (`l1_loop`); the small loops 0, 7, 4 (offsets: `offLoop`). -/
namespace H4.Lemmas.C07Fld
open H4.Gen.Fn.Dfconv H4.Gen.Fn.Vsfld H4.VData H4.Gen.Hdf H4.Gen.Vs H4.C2L H4.VsfldEnc
set_option linter.unusedVariables false
set_option linter.unusedSimpArgs false

theorem l1_body {usym : List SymDef} {names : List String} {pads : List (List Int)} {s0 s : VSsetfields.St} {fs : List Field} {iv : Nat}
    (E : BEnv usym names pads s0) (I : BInv names s0 fs iv s) (hk : fs.length < names.length) (fuel : Nat) (hf : usym.length ≤ fuel)
    (hf9 : 9 ≤ fuel) :
    match goStep usym (names.getD fs.length "") iv with
    | some (f, iv') => BInv names s0 (fs ++ [f]) iv' (VSsetfields.loop1.body fuel s)
    | none => BFail s0 (VSsetfields.loop1.body fuel s) := by
  cases hd : (usym.map (·.name)).findIdx? (· == names.getD fs.length "") with
  | none => exact l1_rstab E I hk fuel hf hf9 hd
  | some d => exact l1_user E I hk fuel hf d hd

theorem sf_loop1_exit (fuel : Nat) (s : VSsetfields.St) (h : ¬ ((s.i < s.ac) ∧ ¬(s.gto ∨ s.brk))) :
    VSsetfields.loop1 fuel s = s := by
  cases fuel <;> (rw [VSsetfields.loop1, if_neg h])

/-- the field loop: it follows `buildWList.go` -/
theorem l1_loop {usym : List SymDef} {names : List String} {pads : List (List Int)} {s0 : VSsetfields.St} (E : BEnv usym names pads s0) :
    ∀ (n fuel : Nat) (s : VSsetfields.St) (fs : List Field) (iv : Nat), BInv names s0 fs iv s → fs.length + n = names.length →
    n + usym.length + 9 ≤ fuel →
    match buildWList.go usym (names.drop fs.length) fs.reverse iv with
    | some (fs', iv') => BInv names s0 fs' iv' (VSsetfields.loop1 fuel s) ∧ fs'.length = names.length
    | none => BFail s0 (VSsetfields.loop1 fuel s) := by
  intro n
  induction n with
  | zero =>
    intro fuel s fs iv I hn hf
    obtain ⟨_, a2, _⟩ := frame_fields I.fr
    have : names.drop fs.length = [] := List.drop_eq_nil_of_le (by omega)
    rw [this]
    simp only [buildWList.go, List.reverse_reverse]
    rw [sf_loop1_exit _ _ (by rw [I.hi, a2, E.hac]; omega)]
    exact ⟨I, by omega⟩
  | succ n ih =>
    intro fuel s fs iv I hn hf
    obtain ⟨_, a2, _⟩ := frame_fields I.fr
    obtain ⟨h1, h2, h3⟩ := I.cl
    obtain ⟨fuel', rfl⟩ : ∃ f, fuel = f + 1 := ⟨fuel - 1, by omega⟩
    have hk : fs.length < names.length := by omega
    have hdrop : names.drop fs.length = names.getD fs.length "" :: names.drop (fs.length + 1) := by
      rw [List.drop_eq_getElem_cons hk]; simp [hk]
    have hcond : (s.i < s.ac) ∧ ¬(s.gto ∨ s.brk) := ⟨by rw [I.hi, a2, E.hac]; omega, by simp [h1, h2]⟩
    rw [VSsetfields.loop1, if_pos hcond, hdrop, go_cons]
    have hb := l1_body E I hk (fuel' + 1) (by omega) (by omega)
    cases hg : goStep usym (names.getD fs.length "") iv with
    | none =>
      rw [hg] at hb
      simp only at hb ⊢
      rw [sf_loop1_exit _ _ (by intro hc; exact hc.2 (Or.inl hb.1))]
      exact hb
    | some p =>
      obtain ⟨f, iv'⟩ := p
      rw [hg] at hb
      simp only at hb ⊢
      have := ih fuel' _ (fs ++ [f]) iv' hb (by simp; omega) (by omega)
      simpa using this

/-! ### the small loops: 0 (NULL rows), 7 (free of the rows), 4 (offsets) -/

theorem sf_loop0_exit (fuel : Nat) (s : VSsetfields.St) (h : ¬ ((s.i < s.ac) ∧ ¬(s.gto ∨ s.brk))) :
    VSsetfields.loop0 fuel s = s := by
  cases fuel <;> (rw [VSsetfields.loop0, if_neg h])

/-- `for (i = 0; i < ac; i++) wlist->name[i] = NULL;` -/
theorem sf_loop0_spec : ∀ (n fuel : Nat) (s : VSsetfields.St) (ac : Nat), n ≤ fuel → s.ac = ac → 0 ≤ s.i → s.i.toNat + n = ac →
    s.gto = false → s.brk = false → s.cnt = false → s.vs_wlist_name.length = ac →
    VSsetfields.loop0 fuel s = { s with i := ac, vs_wlist_name := s.vs_wlist_name.take s.i.toNat ++ List.replicate n [] } := by
  intro n
  induction n with
  | zero =>
    intro fuel s ac _ hac hi0 hi h1 h2 h3 hl
    rw [sf_loop0_exit _ _ (by omega)]
    have e : s.i = (ac : Int) := by omega
    have : s.vs_wlist_name.take s.i.toNat ++ List.replicate 0 [] = s.vs_wlist_name := by
      simp; rw [List.take_of_length_le (by omega)]
    rw [this, ← e]
  | succ n ih =>
    intro fuel s ac hf hac hi0 hi h1 h2 h3 hl
    obtain ⟨fuel', rfl⟩ : ∃ f, fuel = f + 1 := ⟨fuel - 1, by omega⟩
    have hcond : (s.i < s.ac) ∧ ¬(s.gto ∨ s.brk) := ⟨by omega, by simp [h1, h2]⟩
    rw [VSsetfields.loop0, if_pos hcond]
    have hb : VSsetfields.loop0.body (fuel' + 1) s = { s with vs_wlist_name := s.vs_wlist_name.set s.i.toNat [], i := s.i + 1 } := by
      simp only [VSsetfields.loop0.body]
      rw [sf_chk_true _ _ (by omega)]
      cases s; simp_all
    rw [hb, ih fuel' { s with vs_wlist_name := s.vs_wlist_name.set s.i.toNat [], i := s.i + 1 } ac (by omega) hac (by show 0 ≤ s.i + 1; omega) (by show (s.i + 1).toNat + n = ac; omega) h1 h2 h3 (by simp [hl])]
    have hj1 : (s.i + 1).toNat = s.i.toNat + 1 := by omega
    have : (s.vs_wlist_name.set s.i.toNat []).take (s.i + 1).toNat ++ List.replicate n [] = s.vs_wlist_name.take s.i.toNat ++ List.replicate (n + 1) [] := by
      rw [hj1, take_set_succ _ _ _ (by omega), List.replicate_succ]; simp
    simp only [this]

theorem sf_loop7_exit (fuel : Nat) (s : VSsetfields.St) (h : ¬ ((s.i < s.ac) ∧ ¬(s.gto ∨ s.brk))) :
    VSsetfields.loop7 fuel s = s := by
  cases fuel <;> (rw [VSsetfields.loop7, if_neg h])

/-- `for (i = 0; i < ac; i++) free(wlist->name[i]);` -/
theorem sf_loop7_spec : ∀ (n fuel : Nat) (s : VSsetfields.St) (ac : Nat), n ≤ fuel → s.ac = ac → 0 ≤ s.i → s.i.toNat + n = ac →
    s.gto = false → s.brk = false → s.cnt = false →
    VSsetfields.loop7 fuel s = { s with i := ac } := by
  intro n
  induction n with
  | zero =>
    intro fuel s ac _ hac hi0 hi h1 h2 h3
    rw [sf_loop7_exit _ _ (by omega)]
    have e : s.i = (ac : Int) := by omega
    rw [← e]
  | succ n ih =>
    intro fuel s ac hf hac hi0 hi h1 h2 h3
    obtain ⟨fuel', rfl⟩ : ∃ f, fuel = f + 1 := ⟨fuel - 1, by omega⟩
    have hcond : (s.i < s.ac) ∧ ¬(s.gto ∨ s.brk) := ⟨by omega, by simp [h1, h2]⟩
    rw [VSsetfields.loop7, if_pos hcond]
    have hb : VSsetfields.loop7.body (fuel' + 1) s = { s with i := s.i + 1 } := by
      simp only [VSsetfields.loop7.body]
      cases s; simp_all
    rw [hb, ih fuel' { s with i := s.i + 1 } ac (by omega) hac (by show 0 ≤ s.i + 1; omega) (by show (s.i + 1).toNat + n = ac; omega) h1 h2 h3]

/-- the offset loop on the block `bptr`: `n` passes from field `i` on with the running offset `uj` -/
def offLoop (ac : Nat) : Nat → Nat → Int → List Int → List Int × Int
  | 0, _, uj, b => (b, uj)
  | n + 1, i, uj, b => offLoop ac n (i + 1) ((uj + (b.set (ac + i) uj).getD (2 * ac + i) 0) % 65536) (b.set (ac + i) uj)

theorem sf_loop4_exit (fuel : Nat) (s : VSsetfields.St) (h : ¬ ((s.i < s.vs_wlist_n) ∧ ¬(s.gto ∨ s.brk))) :
    VSsetfields.loop4 fuel s = s := by
  cases fuel <;> (rw [VSsetfields.loop4, if_neg h])

/-- `for (uj = 0, i = 0; i < wlist->n; i++) { wlist->off[i] = uj; uj += wlist->isize[i]; }` -/
theorem sf_loop4_spec (ac : Nat) : ∀ (n fuel : Nat) (s : VSsetfields.St), n ≤ fuel → s.vs_wlist_n = ac → 0 ≤ s.i → s.i.toNat + n = ac →
    s.gto = false → s.brk = false → s.cnt = false → s.vs_wlist_off_i = ac → s.vs_wlist_isize_i = 2 * ac → s.vs_wlist_bptr.length = 5 * ac →
    VSsetfields.loop4 fuel s = { s with i := ac, vs_wlist_bptr := (offLoop ac n s.i.toNat s.uj s.vs_wlist_bptr).1, uj := (offLoop ac n s.i.toNat s.uj s.vs_wlist_bptr).2 } := by
  intro n
  induction n with
  | zero =>
    intro fuel s _ hn hi0 hi h1 h2 h3 c2 c3 hl
    rw [sf_loop4_exit _ _ (by omega)]
    have e : s.i = (ac : Int) := by omega
    simp only [offLoop]
    rw [← e]
  | succ n ih =>
    intro fuel s hf hn hi0 hi h1 h2 h3 c2 c3 hl
    obtain ⟨fuel', rfl⟩ : ∃ f, fuel = f + 1 := ⟨fuel - 1, by omega⟩
    have hcond : (s.i < s.vs_wlist_n) ∧ ¬(s.gto ∨ s.brk) := ⟨by omega, by simp [h1, h2]⟩
    rw [VSsetfields.loop4, if_pos hcond]
    have t1 : Int.toNat (s.vs_wlist_off_i + s.i) = ac + s.i.toNat := by omega
    have t2 : Int.toNat (s.vs_wlist_isize_i + s.i) = 2 * ac + s.i.toNat := by omega
    have hb : VSsetfields.loop4.body (fuel' + 1) s = { s with vs_wlist_bptr := s.vs_wlist_bptr.set (ac + s.i.toNat) s.uj, uj := (s.uj + (s.vs_wlist_bptr.set (ac + s.i.toNat) s.uj).getD (2 * ac + s.i.toNat) 0) % 65536, i := s.i + 1 } := by
      simp only [VSsetfields.loop4.body]
      rw [sf_chk_true s _ (by omega)]
      rw [sf_chk_true _ _ (by show 0 ≤ s.vs_wlist_isize_i + s.i ∧ s.vs_wlist_isize_i + s.i < ((s.vs_wlist_bptr.set _ _).length : Int); rw [List.length_set]; omega)]
      simp only [t1, t2]
      cases s; simp_all
    rw [hb, ih fuel' { s with vs_wlist_bptr := s.vs_wlist_bptr.set (ac + s.i.toNat) s.uj, uj := (s.uj + (s.vs_wlist_bptr.set (ac + s.i.toNat) s.uj).getD (2 * ac + s.i.toNat) 0) % 65536, i := s.i + 1 }
      (by omega) hn (by show 0 ≤ s.i + 1; omega) (by show (s.i + 1).toNat + n = ac; omega) h1 h2 h3 c2 c3 (by simp [hl])]
    have hj1 : (s.i + 1).toNat = s.i.toNat + 1 := by omega
    simp only [hj1, offLoop]

theorem pre_succ (l : List Nat) (j : Nat) (h : j < l.length) : pre l (j + 1) = pre l j + l.getD j 0 := by
  unfold pre
  rw [List.take_succ_eq_append_getElem h, List.sum_append]
  simp [h]

theorem pre_le_sum (l : List Nat) (j : Nat) : pre l j ≤ l.sum := by
  unfold pre
  have : l.sum = (l.take j).sum + (l.drop j).sum := by rw [← List.sum_append, List.take_append_drop]
  omega

/-- what the offset loop leaves in the block: field `j` gets the sum of the sizes of the fields before it; the cells outside the
    offset array are not touched -/
theorem offLoop_spec (ac : Nat) (isz : List Nat) (hlen : isz.length = ac) (hsum : isz.sum ≤ 65535) :
    ∀ (n i : Nat) (b : List Int), i + n = ac → b.length = 5 * ac → (∀ j, j < ac → b.getD (2 * ac + j) 0 = ((isz.getD j 0 : Nat) : Int)) →
    (offLoop ac n i ((pre isz i : Nat) : Int) b).1.length = 5 * ac ∧
    (∀ j, i ≤ j → j < ac → (offLoop ac n i ((pre isz i : Nat) : Int) b).1.getD (ac + j) 0 = ((pre isz j : Nat) : Int)) ∧
    (∀ idx, (idx < ac + i ∨ 2 * ac ≤ idx) → (offLoop ac n i ((pre isz i : Nat) : Int) b).1.getD idx 0 = b.getD idx 0) := by
  intro n
  induction n with
  | zero =>
    intro i b hi hb hc
    simp only [offLoop]
    exact ⟨hb, fun j h1 h2 => by omega, fun _ _ => trivial⟩
  | succ n ih =>
    intro i b hi hb hc
    simp only [offLoop]
    have hcell : (b.set (ac + i) ((pre isz i : Nat) : Int)).getD (2 * ac + i) 0 = ((isz.getD i 0 : Nat) : Int) := by
      rw [getD_set_ne' _ _ _ _ _ (by omega)]; exact hc i (by omega)
    have hpre : (((pre isz i : Nat) : Int) + (b.set (ac + i) ((pre isz i : Nat) : Int)).getD (2 * ac + i) 0) % 65536 = ((pre isz (i + 1) : Nat) : Int) := by
      rw [hcell, pre_succ isz i (by omega)]
      have := pre_le_sum isz (i + 1)
      rw [pre_succ isz i (by omega)] at this
      omega
    rw [hpre]
    obtain ⟨r1, r2, r3⟩ := ih (i + 1) (b.set (ac + i) ((pre isz i : Nat) : Int)) (by omega) (by simp [hb])
      (fun j hj => by rw [getD_set_ne' _ _ _ _ _ (by omega)]; exact hc j hj)
    refine ⟨r1, ?_, ?_⟩
    · intro j h1 h2
      by_cases e : j = i
      · subst e
        rw [r3 (ac + j) (Or.inl (by omega)), getD_set_self _ _ _ _ (by omega)]
      · exact r2 j (by omega) h2
    · intro idx hidx
      rw [r3 idx (by omega), getD_set_ne' _ _ _ _ _ (by omega)]
end H4.Lemmas.C07Fld
