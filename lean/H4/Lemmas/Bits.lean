import H4.Bits
/-! Lemmas on the bit-list vocabulary (`msbBits`, `ofBits`, `bytesBits`). Core only. -/
namespace H4.Bits

@[simp] theorem length_msbBits (w n : Nat) : (msbBits w n).length = w := by
  induction w with
  | zero => rfl
  | succ w ih => simp [msbBits, ih]

theorem msbBits_congr {w n m : Nat} (h : ∀ i, i < w → n.testBit i = m.testBit i) : msbBits w n = msbBits w m := by
  induction w with
  | zero => rfl
  | succ w ih =>
    simp only [msbBits]
    rw [h w (by omega), ih (fun i hi => h i (by omega))]

theorem msbBits_mod {w k : Nat} (n : Nat) (h : w ≤ k) : msbBits w (n % 2 ^ k) = msbBits w n := by
  apply msbBits_congr
  intro i hi
  rw [Nat.testBit_mod_two_pow]
  simp [show i < k by omega]

/-- splitting a field: the high `a` bits, then the low `b` bits -/
theorem msbBits_add (a b n : Nat) : msbBits (a + b) n = msbBits a (n / 2 ^ b) ++ msbBits b n := by
  induction a with
  | zero => simp [msbBits]
  | succ a ih =>
    have : a + 1 + b = (a + b) + 1 := by omega
    rw [this]
    simp only [msbBits, List.cons_append]
    rw [ih, Nat.testBit_div_two_pow]

theorem msbBits_succ_right (w n : Nat) : msbBits (w + 1) n = msbBits w (n / 2) ++ [n.testBit 0] := by
  have := msbBits_add w 1 n
  simpa [msbBits] using this

theorem ofBits_append (l1 l2 : List Bool) : ofBits (l1 ++ l2) = ofBits l1 * 2 ^ l2.length + ofBits l2 := by
  unfold ofBits
  rw [List.foldl_append]
  generalize List.foldl (fun a b => 2 * a + b.toNat) 0 l1 = x
  induction l2 generalizing x with
  | nil => simp
  | cons b l ih =>
    simp only [List.foldl_cons, List.length_cons]
    rw [ih (2 * x + b.toNat), ih (2 * 0 + b.toNat)]
    rw [Nat.pow_succ]
    simp [Nat.add_mul, Nat.mul_assoc, Nat.mul_comm, Nat.add_assoc]

theorem ofBits_singleton (b : Bool) : ofBits [b] = b.toNat := by simp [ofBits]

theorem ofBits_cons (b : Bool) (l : List Bool) : ofBits (b :: l) = b.toNat * 2 ^ l.length + ofBits l := by
  have := ofBits_append [b] l
  simpa [ofBits_singleton] using this

theorem ofBits_lt (l : List Bool) : ofBits l < 2 ^ l.length := by
  induction l with
  | nil => simp [ofBits]
  | cons b l ih =>
    rw [ofBits_cons, List.length_cons, Nat.pow_succ]
    cases b <;> simp <;> omega

theorem ofBits_msbBits (w n : Nat) : ofBits (msbBits w n) = n % 2 ^ w := by
  induction w generalizing n with
  | zero => simp [msbBits, ofBits, Nat.mod_one]
  | succ w ih =>
    rw [msbBits_succ_right, ofBits_append, ih, ofBits_singleton]
    simp only [List.length_cons, List.length_nil, Nat.zero_add, Nat.pow_one]
    have h1 : (n.testBit 0).toNat = n % 2 := by
      rw [Nat.testBit_zero]; rcases Nat.mod_two_eq_zero_or_one n with h | h <;> simp [h]
    rw [h1, Nat.pow_succ]
    have := Nat.mod_mul_right_div_self n 2 (2 ^ w)
    have h2 : n % (2 ^ w * 2) = n % (2 * 2 ^ w) := by rw [Nat.mul_comm]
    rw [h2, Nat.mod_mul]
    omega

theorem msbBits_ofBits (l : List Bool) : msbBits l.length (ofBits l) = l := by
  induction l with
  | nil => rfl
  | cons b l ih =>
    rw [ofBits_cons, List.length_cons]
    simp only [msbBits]
    have hlt := ofBits_lt l
    have h1 : (b.toNat * 2 ^ l.length + ofBits l).testBit l.length = b := by
      rw [Nat.mul_comm, Nat.testBit_two_pow_mul_add _ hlt]
      cases b <;> simp
    have h2 : msbBits l.length (b.toNat * 2 ^ l.length + ofBits l) = msbBits l.length (ofBits l) := by
      apply msbBits_congr
      intro i hi
      rw [Nat.mul_comm, Nat.testBit_two_pow_mul_add _ hlt]
      simp [hi]
    rw [h1, h2, ih]

theorem msbBits_eq_of_mod {w n m : Nat} (h : n % 2 ^ w = m % 2 ^ w) : msbBits w n = msbBits w m := by
  rw [← msbBits_mod n (Nat.le_refl w), ← msbBits_mod m (Nat.le_refl w), h]

@[simp] theorem bytesBits_nil : bytesBits [] = [] := rfl
theorem bytesBits_cons (b : UInt8) (l : List UInt8) : bytesBits (b :: l) = msbBits 8 b.toNat ++ bytesBits l := by
  simp [bytesBits]
theorem bytesBits_append (a b : List UInt8) : bytesBits (a ++ b) = bytesBits a ++ bytesBits b := by
  simp [bytesBits]
@[simp] theorem length_bytesBits (l : List UInt8) : (bytesBits l).length = 8 * l.length := by
  induction l with
  | nil => rfl
  | cons b l ih => rw [bytesBits_cons]; simp [ih]; omega
theorem bytesBits_singleton (b : UInt8) : bytesBits [b] = msbBits 8 b.toNat := by simp [bytesBits]

theorem fieldsBits_cons (f : Nat × Nat) (fs : List (Nat × Nat)) : fieldsBits (f :: fs) = msbBits f.1 f.2 ++ fieldsBits fs := by
  simp [fieldsBits]
theorem fieldsBits_append (a b : List (Nat × Nat)) : fieldsBits (a ++ b) = fieldsBits a ++ fieldsBits b := by
  simp [fieldsBits]
@[simp] theorem fieldsBits_nil : fieldsBits [] = [] := rfl

/-- a byte written from a Nat -/
theorem toNat_ofNat_byte (n : Nat) : (UInt8.ofNat n).toNat = n % 256 := by
  simp [UInt8.toNat_ofNat']

end H4.Bits
