import H4.Elem
/-! Pointwise facts about the physical-file primitives of `H4.Elem` (`rd`, `diskWrite`, `diskRead`). -/
namespace H4.Elem

theorem rd_eq (d : Bytes) (i : Nat) : rd d i = d[i]?.getD 0 := by
  simp [rd, List.getD]

theorem rd_of_lt (d : Bytes) (i : Nat) (h : i < d.length) : rd d i = d[i] := by
  simp [rd_eq, h]

theorem rd_of_ge (d : Bytes) (i : Nat) (h : d.length ≤ i) : rd d i = 0 := by
  simp [rd_eq, h]

theorem zeros_length (n : Nat) : (zeros n).length = n := by simp [zeros]

theorem diskWrite_nil (d : Bytes) (off : Nat) : diskWrite d off [] = d := rfl

theorem diskWrite_length (d : Bytes) (off : Nat) (bs : Bytes) (h : bs ≠ []) :
    (diskWrite d off bs).length = max d.length (off + bs.length) := by
  cases bs with
  | nil => exact absurd rfl h
  | cons b t =>
    simp only [diskWrite, List.length_append, List.length_take, List.length_drop, zeros_length, List.length_cons]
    omega

/-- a write changes exactly the bytes of its range (gap bytes read 0 before and after) -/
theorem rd_diskWrite (d : Bytes) (off : Nat) (bs : Bytes) (i : Nat) :
    rd (diskWrite d off bs) i = if off ≤ i ∧ i < off + bs.length then bs.getD (i - off) 0 else rd d i := by
  cases bs with
  | nil =>
    have : ¬ (off ≤ i ∧ i < off + ([] : Bytes).length) := by simp
    rw [if_neg this]; rfl
  | cons b t =>
    simp only [diskWrite, rd_eq, List.getD_eq_getElem?_getD]
    by_cases h1 : i < off
    · have : ¬ (off ≤ i ∧ i < off + (b :: t).length) := by omega
      simp only [this, if_false]
      rw [List.append_assoc, List.getElem?_append_left (by simp [zeros_length]; omega)]
      rw [List.getElem?_take, if_pos h1, List.getElem?_append]
      by_cases h2 : i < d.length
      · simp [h2]
      · simp only [h2, if_false]
        rw [List.getElem?_eq_none (by omega : d.length ≤ i)]
        simp only [zeros, List.getElem?_replicate]
        split <;> rfl
    · by_cases h2 : i < off + (b :: t).length
      · have : off ≤ i ∧ i < off + (b :: t).length := by omega
        simp only [this, and_self, if_true]
        rw [List.append_assoc, List.getElem?_append_right (by simp [zeros_length]; omega)]
        have hl : (List.take off (d ++ zeros (off - d.length))).length = off := by simp [zeros_length]; omega
        rw [hl, List.getElem?_append_left (by omega)]
      · have : ¬ (off ≤ i ∧ i < off + (b :: t).length) := by omega
        simp only [this, if_false]
        have hl : (List.take off (d ++ zeros (off - d.length))).length = off := by simp [zeros_length]; omega
        rw [List.append_assoc, List.getElem?_append_right (by omega), hl,
          List.getElem?_append_right (by omega), List.getElem?_drop]
        congr 2
        omega

theorem diskRead_eq (d : Bytes) (off n : Nat) (bs : Bytes) (h : diskRead d off n = some bs) :
    bs = (List.range n).map (fun i => rd d (off + i)) := by
  unfold diskRead at h
  split at h
  · subst_vars; simp at h; subst h; simp
  · split at h
    · simp at h; subst h
      apply List.ext_getElem?
      intro i
      simp only [List.getElem?_take, List.getElem?_drop, List.getElem?_map, List.getElem?_range]
      by_cases hi : i < n
      · have : off + i < d.length := by omega
        simp [hi, rd_eq, this]
      · simp [hi]
    · simp at h

theorem diskRead_some (d : Bytes) (off n : Nat) (h : off + n ≤ d.length) :
    diskRead d off n = some ((List.range n).map (fun i => rd d (off + i))) := by
  have : ∃ bs, diskRead d off n = some bs := by
    unfold diskRead; split
    · exact ⟨_, rfl⟩
    · first
        | exact ⟨_, rfl⟩
        | (split
           · exact ⟨_, rfl⟩
           · contradiction)
  obtain ⟨bs, hb⟩ := this
  rw [hb, diskRead_eq d off n bs hb]

theorem diskRead_length (d : Bytes) (off n : Nat) (bs : Bytes) (h : diskRead d off n = some bs) : bs.length = n := by
  rw [diskRead_eq d off n bs h]; simp

theorem hpRead_eq (f : File) (off n : Nat) (bs : Bytes) (h : f.hpRead off n = some bs) :
    bs = (List.range n).map (fun i => rd f.disk (off + i)) := by
  unfold File.hpRead at h
  cases hd : diskRead f.disk off n with
  | some b =>
    rw [hd] at h
    simp only [Option.some.injEq] at h
    rw [← h]; exact diskRead_eq _ _ _ _ hd
  | none =>
    rw [hd] at h
    simp only at h
    split at h
    · exact (Option.some.inj h).symm
    · cases h

theorem hpRead_some (f : File) (off n : Nat) (h : off + n ≤ f.disk.length) :
    f.hpRead off n = some ((List.range n).map (fun i => rd f.disk (off + i))) := by
  unfold File.hpRead
  rw [diskRead_some _ _ _ h]

theorem hpRead_length (f : File) (off n : Nat) (bs : Bytes) (h : f.hpRead off n = some bs) : bs.length = n := by
  rw [hpRead_eq f off n bs h]; simp

end H4.Elem
