import H4.VGroup
/-! Lemmas about the member arrays of a Vgroup (`vinsertpair`, `Vdeletetagref`, the readers). -/
namespace H4.VGroup
open H4.Gen.Hdf

theorem consts : MAXNVELT = 64 ∧ DFTAG_VG = 1965 ∧ DFTAG_VH = 1962 ∧ VSDESCTAG = 1962 ∧ DFTAG_NULL = 1 ∧
    VSET_VERSION = 3 ∧ VSET_NEW_VERSION = 4 ∧ VG_ATTR_SET = 1 ∧ MAX_REF = 65535 := by decide

theorem Mem.fresh_ok : Mem.fresh.OK := by decide

theorem Mem.fresh_members : Mem.fresh.members = [] := by simp [Mem.fresh, Mem.members]

theorem Mem.members_length {m : Mem} (h : m.OK) : m.members.length = m.nvelt := by
  obtain ⟨h1, h2, _, _⟩ := h
  simp [Mem.members]; omega

/-- the growth step neither drops nor reorders members -/
theorem Mem.grow_members {m : Mem} (h : m.OK) : m.grow.members = m.members := by
  obtain ⟨h1, h2, _, _⟩ := h
  unfold Mem.grow
  split
  · simp only [Mem.members]
    rw [List.take_append_of_le_length (by omega)]
  · rfl

theorem Mem.grow_nvelt (m : Mem) : m.grow.nvelt = m.nvelt := by
  unfold Mem.grow; split <;> rfl

theorem Mem.grow_ok {m : Mem} (h : m.OK) : m.grow.OK ∧ m.grow.nvelt < m.grow.msize := by
  obtain ⟨h1, h2, h3, h4⟩ := h
  unfold Mem.grow
  split
  · refine ⟨⟨?_, ?_, ?_, ?_⟩, ?_⟩ <;> simp <;> omega
  · exact ⟨⟨h1, h2, h3, h4⟩, by omega⟩

theorem take_set_snoc {α} (l : List α) (n : Nat) (x : α) (h : n < l.length) :
    (l.set n x).take (n + 1) = l.take n ++ [x] := by
  induction l generalizing n with
  | nil => simp at h
  | cons a t ih =>
    cases n with
    | zero => simp
    | succ k => simp at h; simp [ih k h]

/-- `vinsertpair` on a Vgroup that is not full appends at the end, whether or not it had to grow -/
theorem vinsertpair_snoc {m : Mem} (h : m.OK) (hn : m.nvelt < 65535) (t r : Nat) :
    ∃ p, vinsertpair m t r = some p ∧ p.1.members = m.members ++ [(t, r)] ∧ p.2 = m.members.length + 1 ∧ p.1.OK := by
  obtain ⟨g1, g2⟩ := Mem.grow_ok h
  have gm := Mem.grow_members h
  have gn := Mem.grow_nvelt m
  obtain ⟨a1, a2, a3, a4⟩ := g1
  have hl := Mem.members_length h
  have hmod : (m.grow.nvelt + 1) % 65536 = m.grow.nvelt + 1 := Nat.mod_eq_of_lt (by omega)
  have c : MAX_REF = 65535 := by decide
  have hne : ¬ m.nvelt = MAX_REF := by omega
  refine ⟨({ m.grow with arr := m.grow.arr.set m.grow.nvelt (t, r), nvelt := (m.grow.nvelt + 1) % 65536 }, (m.grow.nvelt + 1) % 65536),
    by simp only [vinsertpair, hne, if_false], ?_, ?_, ?_⟩
  · simp only [Mem.members, hmod]
    rw [take_set_snoc _ _ _ (by omega)]
    simp only [Mem.members] at gm
    rw [gm]
  · simp only [hmod]; omega
  · simp only [hmod]
    refine ⟨?_, ?_, ?_, ?_⟩ <;> simp <;> omega

/-- a full Vgroup (65535 members) refuses the insertion -/
theorem vinsertpair_full {m : Mem} (hn : m.nvelt = 65535) (t r : Nat) : vinsertpair m t r = none := by
  have c : MAX_REF = 65535 := by decide
  simp [vinsertpair, hn, c]

theorem idxOf?_some_lt {α} [BEq α] [LawfulBEq α] {a : α} {l : List α} {i : Nat} (h : List.idxOf? a l = some i) :
    i < l.length ∧ a ∈ l := by
  induction l generalizing i with
  | nil => simp [List.idxOf?] at h
  | cons b t ih =>
    simp only [List.idxOf?, List.findIdx?_cons] at h
    by_cases hb : (b == a) = true
    · simp [hb] at h; subst h; simp at hb; simp [hb]
    · simp [hb] at h
      obtain ⟨j, hj, rfl⟩ := h
      have := ih (i := j) (by simpa [List.idxOf?] using hj)
      simp; constructor; omega; right; exact this.2

theorem idxOf?_none {α} [BEq α] [LawfulBEq α] {a : α} {l : List α} (h : List.idxOf? a l = none) : a ∉ l := by
  intro hm
  simp only [List.idxOf?, List.findIdx?_eq_none_iff] at h
  have := h a hm
  simp at this

/-- `Vdeletetagref` removes the FIRST occurrence and keeps the order of all other members -/
theorem vdeletetagref_erase {m : Mem} (h : m.OK) (t r : Nat) :
    (match vdeletetagref m t r with
     | some m' => (t, r) ∈ m.members ∧ m'.members = m.members.erase (t, r) ∧ m'.OK
     | none => (t, r) ∉ m.members) := by
  obtain ⟨h1, h2, h3, h4⟩ := h
  have hl : m.members.length = m.nvelt := Mem.members_length ⟨h1, h2, h3, h4⟩
  unfold vdeletetagref
  have he := List.erase_eq_eraseIdx m.members (t, r)
  cases hi : List.idxOf? (t, r) m.members with
  | none => simp only; exact idxOf?_none hi
  | some i =>
    simp only
    rw [hi] at he; simp only at he
    obtain ⟨ilt, imem⟩ := idxOf?_some_lt hi
    have hlen : (m.members.eraseIdx i).length = m.nvelt - 1 := by
      rw [List.length_eraseIdx]; simp [hl]; omega
    refine ⟨imem, ?_, ?_⟩
    · simp only [Mem.members] at *
      rw [List.take_append_of_le_length (by omega)]
      rw [List.take_of_length_le (by omega)]
      exact he.symm
    · refine ⟨?_, ?_, h3, ?_⟩
      · simp only [List.length_append, List.length_cons, List.length_drop, hlen]
        omega
      · simp only; omega
      · simp only; omega

theorem vinqtagref_mem (m : Mem) (t r : Nat) : vinqtagref m t r = true ↔ (t, r) ∈ m.members := by
  simp [vinqtagref]

theorem vntagrefs_length {m : Mem} (h : m.OK) : vntagrefs m = m.members.length := by
  rw [Mem.members_length h]; rfl

theorem vgettagrefs_take (m : Mem) (n : Nat) : vgettagrefs m n = m.members.take n := by
  simp [vgettagrefs, Mem.members, List.take_take]

theorem vgettagref_get {m : Mem} (h : m.OK) (i : Nat) : vgettagref m (i : Int) = m.members[i]? := by
  obtain ⟨h1, h2, _, _⟩ := h
  unfold vgettagref
  by_cases hi : i < m.nvelt
  · have : ¬ ((i : Int) < 0 ∨ (i : Int) > (m.nvelt : Int) - 1) := by omega
    simp only [this, if_false, Int.toNat_natCast, Mem.members]
    rw [List.getElem?_take]; simp [hi]
  · have : ((i : Int) < 0 ∨ (i : Int) > (m.nvelt : Int) - 1) := by omega
    simp only [this, if_true, Mem.members]
    rw [List.getElem?_take]; simp [hi]

theorem vgettagref_neg (m : Mem) (i : Int) (h : i < 0) : vgettagref m i = none := by
  simp [vgettagref, h]

theorem vnrefs_count (m : Mem) (t : Nat) : vnrefs m t = (m.members.filter (fun p => p.1 == t)).length := rfl

end H4.VGroup
