import H4.Lemmas.ElemWrite
/-! Frame: an operation that only changes bytes inside extents of "target-owned" slots leaves every other element alone. -/
namespace H4.Elem
open H4.Gen.Hdf

theorem bytesAt_congr (f f' : File) (o l : Nat) (h : ∀ i, i < l → rd f'.disk (o + i) = rd f.disk (o + i)) :
    f'.bytesAt o l = f.bytesAt o l := by
  unfold File.bytesAt
  apply List.map_congr_left
  intro i hi
  exact h i (List.mem_range.mp hi)

theorem linkedBytes_congr {f f' : File} {li : LinkInfo} (hl : WFLs f li)
    (hbe : ∀ ref x, f.blockExt ref = some x → f'.blockExt ref = some x)
    (hrd : ∀ t idx o l r, li.blockRef t idx ≠ 0 → f.blockExt (li.blockRef t idx) = some (o, l) → r < l →
      rd f'.disk (o + r) = rd f.disk (o + r)) :
    f'.linkedBytes li = f.linkedBytes li := by
  unfold File.linkedBytes
  apply List.map_congr_left
  intro i _
  exact lbyte_congr hl rfl rfl rfl (fun _ _ => rfl) hbe hrd i

theorem blockExt_keep2 {f f' : File} (hw' : WFF f') {ref : Nat} {x : Nat × Nat} (h : f.blockExt ref = some x)
    (hk : ∀ j, f.hasKey j DFTAG_LINKED ref → f'.dd j = f.dd j) : f'.blockExt ref = some x := by
  obtain ⟨j, hjk, hje⟩ := blockExt_slot h
  have hd := hk j hjk
  have : f'.hasKey j DFTAG_LINKED ref := by unfold File.hasKey File.live at *; rw [hd]; exact hjk
  exact blockExt_of_slot hw' this (by rw [hd]; exact hje)

/-- the frame rule for one element (slot `s'`) -/
theorem slotBytes_frame {f f' : File} (hw : WFE f) (hw' : WFF f') (s' : Nat) (hs' : f.live s')
    (T : Nat → Prop)
    (hdd : ∀ j, f.live j → ¬ T j → f'.dd j = f.dd j)
    (hlink : f'.link (f.keyOf s') = f.link (f.keyOf s'))
    (hrd : ∀ x, x < f.endOff →
      (∀ j o l, T j → f.live j → (f.dd j).ext = some (o, l) → ¬ (o ≤ x ∧ x < o + l)) → rd f'.disk x = rd f.disk x)
    (hT : ¬ T s')
    (hTb : isSpecial (f.dd s').tag = true → ∀ li, f.link (f.keyOf s') = some li → ∀ j, f.blockSlotOf li j → ¬ T j) :
    f'.slotBytes s' = f.slotBytes s' := by
  unfold File.slotBytes
  simp only
  rw [hdd s' hs' hT]
  by_cases hsp : isSpecial (f.dd s').tag = true
  · simp only [hsp, if_true]
    have hk : (baseTag (f.dd s').tag, (f.dd s').ref) = f.keyOf s' := rfl
    rw [hk, hlink]
    cases hli : f.link (f.keyOf s') with
    | none => rfl
    | some li =>
      simp only [Option.map_some]
      congr 1
      obtain ⟨li', ho, hl, h1, h2, _, _⟩ := hw.linked_ok s' hs' hsp
      rw [hli] at h1
      simp only [Option.some.injEq] at h1
      subst h1
      have hbe : ∀ t idx x, li.blockRef t idx ≠ 0 → f.blockExt (li.blockRef t idx) = some x →
          f'.blockExt (li.blockRef t idx) = some x := by
        intro t idx x h0 hx
        exact blockExt_keep2 hw' hx (fun j hj => hdd j hj.1 (hTb hsp li hli j ⟨t, idx, h0, hj⟩))
      unfold File.linkedBytes
      apply List.map_congr_left
      intro i _
      obtain ⟨t, idx, r, hidx, hr, hi'⟩ := pos_block li.firstLen li.blockLen li.numBlocks i h2.blk_pos h2.nb_pos
      rw [← hi', lbyte_block f li h2.blk_pos h2.nb_pos t idx r hidx hr, lbyte_block f' li h2.blk_pos h2.nb_pos t idx r hidx hr]
      unfold File.blockByte
      by_cases h0 : li.blockRef t idx = 0
      · simp [h0]
      simp only [h0, if_false]
      obtain ⟨_, o, hx⟩ := h2.toWFLs.ref_block t idx hidx h0
      rw [hx, hbe t idx _ h0 hx]
      simp only
      generalize blockLenOf li.firstLen li.blockLen (t * li.numBlocks + idx) = l at hr hx
      obtain ⟨j, hjk, hje⟩ := blockExt_slot hx
      have hnT : ¬ T j := hTb hsp li hli j ⟨t, idx, h0, hjk⟩
      have hle := hw.ext_le j o l hjk.1 hje
      apply hrd (o + r) (by omega)
      intro j2 o2 l2 hT2 hl2 he2
      have hne : j ≠ j2 := fun e => hnT (e ▸ hT2)
      have := hw.disj j j2 o l o2 l2 hne hjk.1 hl2 hje he2 (o + r)
      omega
  · have hsp' : isSpecial (f.dd s').tag = false := by simpa using hsp
    simp only [hsp', Bool.false_eq_true, if_false]
    cases he : (f.dd s').ext with
    | none => rfl
    | some e =>
      obtain ⟨o, l⟩ := e
      simp only [Option.map_some]
      congr 1
      apply bytesAt_congr
      intro i hi
      have hle := hw.ext_le s' o l hs' he
      apply hrd (o + i) (by omega)
      intro j2 o2 l2 hT2 hl2 he2
      have hne : s' ≠ j2 := fun e => hT (e ▸ hT2)
      have := hw.disj s' j2 o l o2 l2 hne hs' hl2 he he2 (o + i)
      omega

end H4.Elem

namespace H4.Elem
open H4.Gen.Hdf

/-- a descriptor stays consistent when its blocks' DDs and the bytes inside them stay -/
theorem WFL.frame {f f' : File} {li : LinkInfo} (h : WFL f li) (hw' : WFF f')
    (hk : ∀ j, f.blockSlotOf li j → f'.dd j = f.dd j)
    (hrd : ∀ t idx o l r, li.blockRef t idx ≠ 0 → f.blockExt (li.blockRef t idx) = some (o, l) → r < l →
      rd f'.disk (o + r) = rd f.disk (o + r)) : WFL f' li := by
  have hbe : ∀ t idx x, li.blockRef t idx ≠ 0 → f.blockExt (li.blockRef t idx) = some x → f'.blockExt (li.blockRef t idx) = some x := by
    intro t idx x h0 hx
    exact blockExt_keep2 hw' hx (fun j hj => hk j ⟨t, idx, h0, hj⟩)
  refine ⟨⟨h.blk_pos, h.nb_pos, h.tables_ne, h.table_len, ?_, h.inj⟩, h.covers, ?_⟩
  · intro t idx ht hidx h0
    obtain ⟨o, ho⟩ := h.block_ok t idx ht hidx h0
    exact ⟨o, hbe t idx _ h0 ho⟩
  · intro i hi
    rw [← h.zero_beyond i hi]
    -- same proof as lbyte_congr, with the block-wise hypotheses
    obtain ⟨t, idx, r, hidx, hr, hi'⟩ := pos_block li.firstLen li.blockLen li.numBlocks i h.blk_pos h.nb_pos
    rw [← hi', lbyte_block f li h.blk_pos h.nb_pos t idx r hidx hr, lbyte_block f' li h.blk_pos h.nb_pos t idx r hidx hr]
    unfold File.blockByte
    by_cases h0 : li.blockRef t idx = 0
    · simp [h0]
    · simp only [h0, if_false]
      obtain ⟨_, o, ho⟩ := h.toWFLs.ref_block t idx hidx h0
      rw [ho, hbe t idx _ h0 ho]
      exact hrd t idx o _ r h0 ho hr

theorem keyOf_eq {f f' : File} {s : Nat} (h : f'.dd s = f.dd s) : f'.keyOf s = f.keyOf s := by
  unfold File.keyOf; rw [h]

theorem link_of_links {f f' : File} (h : f'.links = f.links) (k : Nat × Nat) : f'.link k = f.link k := by
  unfold File.link; rw [h]

/-- a step that changes one plain user element (slot `s`, possibly created by the step) and allocates nothing with tag
    `DFTAG_LINKED` keeps the file well-formed and every other element as it was -/
theorem WFE.plain_step {f f' : File} (hw : WFE f) (hw' : WFF f') (s : Nat)
    (hdd : ∀ j, f.live j → j ≠ s → f'.dd j = f.dd j)
    (hs' : isSpecial (f'.dd s).tag = false ∧ baseTag (f'.dd s).tag ≠ DFTAG_LINKED)
    (hs : f.live s → isSpecial (f.dd s).tag = false ∧ baseTag (f.dd s).tag ≠ DFTAG_LINKED)
    (hnew : ∀ j, f'.live j → ¬ f.live j → j = s)
    (hlinks : f'.links = f.links)
    (hrd : ∀ x, x < f.endOff → (∀ o l, f.live s → (f.dd s).ext = some (o, l) → ¬ (o ≤ x ∧ x < o + l)) →
      rd f'.disk x = rd f.disk x) :
    WFE f' ∧ ∀ s', f.live s' → s' ≠ s → f'.slotBytes s' = f.slotBytes s' := by
  -- block slots are never the target
  have hblk_ne : ∀ li j, f.blockSlotOf li j → j ≠ s ∧ f.live j := by
    intro li j ⟨t, idx, _, hk⟩
    refine ⟨?_, hk.1⟩
    intro e
    subst e
    have := (hs hk.1).2
    rw [hk.2.1] at this
    exact this (by decide)
  have hblk_dd : ∀ li j, f.blockSlotOf li j → f'.dd j = f.dd j := fun li j h => hdd j (hblk_ne li j h).2 (hblk_ne li j h).1
  have hrd_blk : ∀ (li : LinkInfo) t idx o l r, li.blockRef t idx ≠ 0 → f.blockExt (li.blockRef t idx) = some (o, l) → r < l →
      rd f'.disk (o + r) = rd f.disk (o + r) := by
    intro li t idx o l r h0 hx hr
    obtain ⟨j, hjk, hje⟩ := blockExt_slot hx
    have hne := (hblk_ne li j ⟨t, idx, h0, hjk⟩).1
    have hle := hw.ext_le j o l hjk.1 hje
    apply hrd (o + r) (by omega)
    intro o2 l2 hl2 he2
    have := hw.disj j s o l o2 l2 hne hjk.1 hl2 hje he2 (o + r)
    omega
  have hlive_old : ∀ j, f'.live j → j ≠ s → f.live j ∧ f'.dd j = f.dd j := by
    intro j hj hne
    have hl : f.live j := by
      by_cases hl : f.live j
      · exact hl
      · exact absurd (hnew j hj hl) hne
    exact ⟨hl, hdd j hl hne⟩
  have hspecial_old : ∀ j, f'.live j → isSpecial (f'.dd j).tag = true → j ≠ s := by
    intro j _ hsp e
    subst e
    rw [hs'.1] at hsp
    exact absurd hsp (by decide)
  have hbs : ∀ li j, (∀ t idx, li.blockRef t idx ≠ 0 → ∃ x, f.blockExt (li.blockRef t idx) = some x) →
      f'.blockSlotOf li j → f.blockSlotOf li j := by
    intro li j hex ⟨t, idx, h0, hk⟩
    refine ⟨t, idx, h0, ?_⟩
    obtain ⟨x, hx⟩ := hex t idx h0
    obtain ⟨j2, hjk2, _⟩ := blockExt_slot hx
    have hd2 := hblk_dd li j2 ⟨t, idx, h0, hjk2⟩
    have hk2' : f'.hasKey j2 DFTAG_LINKED (li.blockRef t idx) := by
      unfold File.hasKey File.live at *; rw [hd2]; exact hjk2
    have : j = j2 := hw'.uniq j j2 hk.1 hk2'.1 (by rw [hk.2.1, hk2'.2.1]) (by rw [hk.2.2, hk2'.2.2])
    rw [this]; exact hjk2
  constructor
  · refine ⟨hw', ?_, ?_, ?_⟩
    · intro s1 hl1 hsp1
      have hne := hspecial_old s1 hl1 hsp1
      obtain ⟨hl, hd⟩ := hlive_old s1 hl1 hne
      rw [hd] at hsp1
      obtain ⟨li, ho, hlen, h1, h2, h3, h4⟩ := hw.linked_ok s1 hl hsp1
      refine ⟨li, ho, hlen, by rw [keyOf_eq hd, link_of_links hlinks]; exact h1, ?_, by rw [hd]; exact h3, h4⟩
      exact h2.frame hw' (hblk_dd li) (hrd_blk li)
    · intro s1 hl1 hsp1
      have hne := hspecial_old s1 hl1 hsp1
      obtain ⟨hl, hd⟩ := hlive_old s1 hl1 hne
      rw [hd] at hsp1 ⊢
      exact hw.hdr_tag s1 hl hsp1
    · intro s1 s2 li1 li2 j hl1 hsp1 hl2 hsp2 hk1 hk2 hb1 hb2
      have hne1 := hspecial_old s1 hl1 hsp1
      have hne2 := hspecial_old s2 hl2 hsp2
      obtain ⟨hl1', hd1⟩ := hlive_old s1 hl1 hne1
      obtain ⟨hl2', hd2⟩ := hlive_old s2 hl2 hne2
      rw [hd1] at hsp1; rw [hd2] at hsp2
      rw [keyOf_eq hd1, link_of_links hlinks] at hk1
      rw [keyOf_eq hd2, link_of_links hlinks] at hk2
      obtain ⟨li1', _, _, h11, h12, _, _⟩ := hw.linked_ok s1 hl1' hsp1
      obtain ⟨li2', _, _, h21, h22, _, _⟩ := hw.linked_ok s2 hl2' hsp2
      rw [hk1] at h11; rw [hk2] at h21
      simp only [Option.some.injEq] at h11 h21
      subst h11 h21
      have ex1 : ∀ t idx, li1.blockRef t idx ≠ 0 → ∃ x, f.blockExt (li1.blockRef t idx) = some x := by
        intro t idx h0
        by_cases hi : idx < li1.numBlocks
        · obtain ⟨_, o, ho⟩ := h12.toWFLs.ref_block t idx hi h0; exact ⟨_, ho⟩
        · by_cases ht : t < li1.tables.length
          · exact absurd (blockRef_idx_ge li1 t idx (by rw [h12.table_len t ht]; omega)) h0
          · exact absurd (blockRef_ge li1 t idx (by omega)) h0
      have ex2 : ∀ t idx, li2.blockRef t idx ≠ 0 → ∃ x, f.blockExt (li2.blockRef t idx) = some x := by
        intro t idx h0
        by_cases hi : idx < li2.numBlocks
        · obtain ⟨_, o, ho⟩ := h22.toWFLs.ref_block t idx hi h0; exact ⟨_, ho⟩
        · by_cases ht : t < li2.tables.length
          · exact absurd (blockRef_idx_ge li2 t idx (by rw [h22.table_len t ht]; omega)) h0
          · exact absurd (blockRef_ge li2 t idx (by omega)) h0
      exact hw.own s1 s2 li1 li2 j hl1' hsp1 hl2' hsp2 hk1 hk2 (hbs li1 j ex1 hb1) (hbs li2 j ex2 hb2)
  · intro s1 hl1 hne1
    apply slotBytes_frame hw hw' s1 hl1 (T := fun j => j = s)
    · intro j hj e
      exact hdd j hj e
    · exact link_of_links hlinks _
    · intro x hx hn
      apply hrd x hx
      intro o l hl he
      exact hn s o l rfl hl he
    · exact hne1
    · intro _ li _ j hb e
      exact (hblk_ne li j hb).1 e

end H4.Elem
