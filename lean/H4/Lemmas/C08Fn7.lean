import H4.Lemmas.C08Fn6
/-! Lemmas for `H4.Props.C08Fn3`, part 5: the whole translated `vunpackvg` on each kind of accepted record (version above 4; up to
    3; 4 without and with an attribute list), the refusal of a negative attribute count, and the fields of the final states.
    Core only. -/
set_option linter.unusedSimpArgs false
set_option linter.unusedVariables false
namespace H4.Lemmas.C08Fn3
open H4 H4.VGroup H4.Gen.Hdf H4.Gen.Fn.Vgp3 H4.C2L
open H4.Lemmas.C08Fn (bytesI bytesI_length bytesI_nil bytesI_cons bytesI_append StrArg)

/-! ## the whole function on an accepted record, and the fields of the state it leaves -/

/-- the state `done: return ret_value;` leaves -/
def Epi (s : St) : St := ((s.set_gto false).set_ret s.ret_value).set_done true

theorem SStr_proj {α} (f : St → α) (setnull : St → Bool → St) (setreg : St → List Int → St)
    (h1 : ∀ t b, f (setnull t b) = f t) (h2 : ∀ t x, f (setreg t x) = f t) (h3 : ∀ t v, f (vunpackvg.St.set_bb t v) = f t)
    (B : List Int) (s : St) (p l : Nat) : f (SStr setnull setreg B s p l) = f s := by
  simp only [SStr]; split
  · rw [h1]
  · rw [h3, h1, h2]

/-- a field that the name and class blocks do not assign -/
theorem Sb9_thru {α} (f : St → α) (hn : ∀ t b, f (vunpackvg.St.set_vg_vgname_null t b) = f t) (hnr : ∀ t x, f (vunpackvg.St.set_vg_vgname t x) = f t)
    (hc : ∀ t b, f (vunpackvg.St.set_vg_vgclass_null t b) = f t) (hcr : ∀ t x, f (vunpackvg.St.set_vg_vgclass t x) = f t)
    (hb : ∀ t v, f (vunpackvg.St.set_bb t v) = f t) (hu : ∀ t v, f (vunpackvg.St.set_uint16var t v) = f t)
    (he : ∀ t v, f (vunpackvg.St.set_vg_extag t v) = f t) (hx : ∀ t v, f (vunpackvg.St.set_vg_exref t v) = f t)
    (B : List Int) (s : St) : f (Sb9 B s) = f (Sb3 B s) := by
  rw [Sb9, hb, hx, Sb8, hb, he, Sb7, SStr_proj f _ _ hc hcr hb, Sb6, hb, hu, Sb5, SStr_proj f _ _ hn hnr hb, Sb4, hb, hu]

theorem Sb9_version (B : List Int) (L : Nat) (s : St) : (Sb9 B (SPre B L s)).vg_version = w16 (be16 B (L - 5)) := by
  rw [Sb9_thru (·.vg_version) (fun _ _ => rfl) (fun _ _ => rfl) (fun _ _ => rfl) (fun _ _ => rfl) (fun _ _ => rfl) (fun _ _ => rfl)
    (fun _ _ => rfl) (fun _ _ => rfl)]
  rfl

/-! ### fields of the final states -/

theorem Sb3_tag (B : List Int) (s : St) : (Sb3 B s).vg_tag = fill (List.replicate (max (nvN B) 64) 170) 0 (vals B 2 2 (nvN B)) := rfl
theorem Sb3_ref (B : List Int) (s : St) :
    (Sb3 B s).vg_ref = fill (List.replicate (max (nvN B) 64) 170) 0 (vals B (2 + 2 * nvN B) 2 (nvN B)) := rfl

theorem Sb9_tag (B : List Int) (s : St) : (Sb9 B s).vg_tag = fill (List.replicate (max (nvN B) 64) 170) 0 (vals B 2 2 (nvN B)) := by
  rw [Sb9_thru (·.vg_tag) (fun _ _ => rfl) (fun _ _ => rfl) (fun _ _ => rfl) (fun _ _ => rfl) (fun _ _ => rfl) (fun _ _ => rfl)
    (fun _ _ => rfl) (fun _ _ => rfl)]; rfl
theorem Sb9_ref (B : List Int) (s : St) :
    (Sb9 B s).vg_ref = fill (List.replicate (max (nvN B) 64) 170) 0 (vals B (2 + 2 * nvN B) 2 (nvN B)) := by
  rw [Sb9_thru (·.vg_ref) (fun _ _ => rfl) (fun _ _ => rfl) (fun _ _ => rfl) (fun _ _ => rfl) (fun _ _ => rfl) (fun _ _ => rfl)
    (fun _ _ => rfl) (fun _ _ => rfl)]; rfl
theorem Sb9_nvelt (B : List Int) (s : St) : (Sb9 B s).vg_nvelt = (nvN B : Int) := by
  rw [Sb9_thru (·.vg_nvelt) (fun _ _ => rfl) (fun _ _ => rfl) (fun _ _ => rfl) (fun _ _ => rfl) (fun _ _ => rfl) (fun _ _ => rfl)
    (fun _ _ => rfl) (fun _ _ => rfl)]; rfl
theorem Sb9_msize (B : List Int) (s : St) : (Sb9 B s).vg_msize = ((max (nvN B) 64 : Nat) : Int) := by
  rw [Sb9_thru (·.vg_msize) (fun _ _ => rfl) (fun _ _ => rfl) (fun _ _ => rfl) (fun _ _ => rfl) (fun _ _ => rfl) (fun _ _ => rfl)
    (fun _ _ => rfl) (fun _ _ => rfl)]; rfl
theorem Sb9_tag_null (B : List Int) (s : St) : (Sb9 B s).vg_tag_null = false := by
  rw [Sb9_thru (·.vg_tag_null) (fun _ _ => rfl) (fun _ _ => rfl) (fun _ _ => rfl) (fun _ _ => rfl) (fun _ _ => rfl) (fun _ _ => rfl)
    (fun _ _ => rfl) (fun _ _ => rfl)]; rfl
theorem Sb9_ref_null (B : List Int) (s : St) : (Sb9 B s).vg_ref_null = false := by
  rw [Sb9_thru (·.vg_ref_null) (fun _ _ => rfl) (fun _ _ => rfl) (fun _ _ => rfl) (fun _ _ => rfl) (fun _ _ => rfl) (fun _ _ => rfl)
    (fun _ _ => rfl) (fun _ _ => rfl)]; rfl
theorem Sb9_more (B : List Int) (L : Nat) (s : St) : (Sb9 B (SPre B L s)).vg_more = w16 (be16 B (L - 3)) := by
  rw [Sb9_thru (·.vg_more) (fun _ _ => rfl) (fun _ _ => rfl) (fun _ _ => rfl) (fun _ _ => rfl) (fun _ _ => rfl) (fun _ _ => rfl)
    (fun _ _ => rfl) (fun _ _ => rfl)]; rfl
theorem Sb9_ret_value (B : List Int) (L : Nat) (s : St) : (Sb9 B (SPre B L s)).ret_value = 0 := by
  rw [Sb9_thru (·.ret_value) (fun _ _ => rfl) (fun _ _ => rfl) (fun _ _ => rfl) (fun _ _ => rfl) (fun _ _ => rfl) (fun _ _ => rfl)
    (fun _ _ => rfl) (fun _ _ => rfl)]; rfl
theorem Sb9_flags (B : List Int) (L : Nat) (s : St) : (Sb9 B (SPre B L s)).vg_flags = s.vg_flags := by
  rw [Sb9_thru (·.vg_flags) (fun _ _ => rfl) (fun _ _ => rfl) (fun _ _ => rfl) (fun _ _ => rfl) (fun _ _ => rfl) (fun _ _ => rfl)
    (fun _ _ => rfl) (fun _ _ => rfl)]; rfl
theorem Sb9_nattrs (B : List Int) (L : Nat) (s : St) : (Sb9 B (SPre B L s)).vg_nattrs = s.vg_nattrs := by
  rw [Sb9_thru (·.vg_nattrs) (fun _ _ => rfl) (fun _ _ => rfl) (fun _ _ => rfl) (fun _ _ => rfl) (fun _ _ => rfl) (fun _ _ => rfl)
    (fun _ _ => rfl) (fun _ _ => rfl)]; rfl
theorem Sb9_extag (B : List Int) (s : St) : (Sb9 B s).vg_extag = be16 B (pE B) := rfl
theorem Sb9_exref (B : List Int) (s : St) : (Sb9 B s).vg_exref = be16 B (pE B + 2) := rfl

/-- the C string of a name / class field as the caller of `vpackvg` would pass it -/
theorem SStr_arg (rec : Bytes) (tail : List Int) (p l : Nat) (hl : p + l ≤ rec.length) :
    strAt (bytesI rec ++ tail) p l = bytesI (nameAt rec p l) ++ 0 :: List.replicate (l - (nameAt rec p l).length) 170 := by
  have e : ((bytesI rec ++ tail).drop p).take l = bytesI ((rec.drop p).take l) := by
    rw [List.drop_append_of_le_length (by simpa using (by omega : p ≤ rec.length)), List.take_append_of_le_length (by simp; omega)]
    simp [bytesI, List.map_drop, List.map_take]
  have tw : ∀ b : Bytes, (bytesI b).takeWhile (· ≠ 0) = bytesI (b.takeWhile (· ≠ 0)) := by
    intro b
    induction b with
    | nil => rfl
    | cons x xs ih =>
      by_cases hx : x = 0
      · subst hx; simp [bytesI]
      · have hx' : ((x.toNat : Int) ≠ 0) := by
          intro e; apply hx; exact UInt8.toNat_inj.mp (by simpa using e)
        simp only [bytesI_cons, List.takeWhile_cons, ne_eq, hx', hx, not_false_eq_true, decide_true, if_true, ih]
  simp only [strAt, nameAt, e, tw, bytesI_length]

theorem Sb9_name (B : List Int) (s : St) :
    (Sb9 B s).vg_vgname_null = decide (lN B = 0) ∧ (lN B ≠ 0 → (Sb9 B s).vg_vgname = strAt B (pN B + 2) (lN B)) := by
  have e1 : (Sb9 B s).vg_vgname_null = (Sb5 B s).vg_vgname_null := by
    show (Sb7 B s).vg_vgname_null = _
    rw [Sb7, SStr_proj (·.vg_vgname_null) vunpackvg.St.set_vg_vgclass_null vunpackvg.St.set_vg_vgclass (fun _ _ => rfl) (fun _ _ => rfl) (fun _ _ => rfl)]; rfl
  have e2 : (Sb9 B s).vg_vgname = (Sb5 B s).vg_vgname := by
    show (Sb7 B s).vg_vgname = _
    rw [Sb7, SStr_proj (·.vg_vgname) vunpackvg.St.set_vg_vgclass_null vunpackvg.St.set_vg_vgclass (fun _ _ => rfl) (fun _ _ => rfl) (fun _ _ => rfl)]; rfl
  rw [e1, e2, Sb5]
  simp only [SStr]
  split
  · rename_i h0; simp [h0]
  · rename_i h0; simp [h0]

theorem Sb9_class (B : List Int) (s : St) :
    (Sb9 B s).vg_vgclass_null = decide (lC B = 0) ∧ (lC B ≠ 0 → (Sb9 B s).vg_vgclass = strAt B (pC B + 2) (lC B)) := by
  have e1 : (Sb9 B s).vg_vgclass_null = (Sb7 B s).vg_vgclass_null := rfl
  have e2 : (Sb9 B s).vg_vgclass = (Sb7 B s).vg_vgclass := rfl
  rw [e1, e2, Sb7]
  simp only [SStr]
  split
  · rename_i h0; simp [h0]
  · rename_i h0; simp [h0]


/-- what the caller must provide: the buffer holds `L ≥ 5` bytes, `len = L`, the flags of a fresh state -/
structure Init (B : List Int) (L : Nat) (s : St) : Prop where
  buf : s.buf = B
  len : s.len = L
  ub : s.ub = false
  oof : s.oof = false
  done : s.done = false
  gto : s.gto = false

/-- a version above 4: only `version` and `more` are set -/
theorem run_hi {B L s} (h : Init B L s) (fuel : Nat) (h5 : 5 ≤ L) (hL : L ≤ B.length) (hv : ¬ w16 (be16 B (L - 5)) ≤ 4) :
    run fuel s = Epi (SPre B L s) ∧ (Epi (SPre B L s)).ub = false ∧ (Epi (SPre B L s)).oof = false ∧ (Epi (SPre B L s)).ret = 0 := by
  obtain ⟨q, o⟩ := phPre_ok B L s h.buf h.len h5 hL h.ub h.oof h.done h.gto
  refine ⟨?_, o.ub, o.oof, rfl⟩
  simp only [run]
  rw [q, if_neg (show ¬ (SPre B L s).vg_version ≤ 4 from hv), phEpi_ok _ o.done]
  rfl

/-- versions up to 3 (and below): the fields up to `exref` -/
theorem run_old {B L s} (h : Init B L s) (fuel : Nat) (h5 : 5 ≤ L) (hL : L ≤ B.length) (hv : w16 (be16 B (L - 5)) ≤ 4)
    (hv4 : w16 (be16 B (L - 5)) ≠ 4) (hb : pE B + 4 ≤ B.length) (hf : nvN B ≤ fuel) :
    run fuel s = Epi (Sb9 B (SPre B L s)) ∧ (Epi (Sb9 B (SPre B L s))).ub = false ∧ (Epi (Sb9 B (SPre B L s))).oof = false ∧
      (Epi (Sb9 B (SPre B L s))).ret = 0 := by
  obtain ⟨q, o⟩ := phPre_ok B L s h.buf h.len h5 hL h.ub h.oof h.done h.gto
  obtain ⟨q9, o9⟩ := body9_ok o fuel hb hf
  refine ⟨?_, o9.ub, o9.oof, Sb9_ret_value B L s⟩
  have hver : (Sb9 B (SPre B L s)).vg_version = w16 (be16 B (L - 5)) := Sb9_version B L s
  simp only [run]
  rw [q, if_pos (show (SPre B L s).vg_version ≤ 4 from hv), phBody, q9, phV4_old o9 fuel (by rw [hver]; exact hv4), phEpi_ok _ o9.done]
  rfl

/-- version 4 without `VG_ATTR_SET` -/
theorem run_v4 {B L s} (h : Init B L s) (fuel : Nat) (h5 : 5 ≤ L) (hL : L ≤ B.length) (hv4 : w16 (be16 B (L - 5)) = 4)
    (hb : pE B + 8 ≤ B.length) (ha : be32N B (pE B + 4) % 2 = 0) (hf : nvN B ≤ fuel) :
    run fuel s = Epi (((Sb9 B (SPre B L s)).set_vg_flags (be32 B (pE B + 4))).set_bb ((pE B + 4 + 4 : Nat) : Int)) ∧
      (run fuel s).ub = false ∧ (run fuel s).oof = false ∧ (run fuel s).ret = 0 := by
  obtain ⟨q, o⟩ := phPre_ok B L s h.buf h.len h5 hL h.ub h.oof h.done h.gto
  obtain ⟨q9, o9⟩ := body9_ok o fuel (by omega) hf
  have hver := Sb9_version B L s
  obtain ⟨qv, ov⟩ := phV4_flags o9 fuel (by rw [hver]; exact hv4) (by omega) ha
  have key : run fuel s = Epi (((Sb9 B (SPre B L s)).set_vg_flags (be32 B (pE B + 4))).set_bb ((pE B + 4 + 4 : Nat) : Int)) := by
    simp only [run]
    rw [q, if_pos (show (SPre B L s).vg_version ≤ 4 by show w16 _ ≤ 4; omega), phBody, q9, qv, phEpi_ok _ ov.done]
    rfl
  refine ⟨key, ?_, ?_, ?_⟩
  · rw [key]; exact ov.ub
  · rw [key]; exact ov.oof
  · rw [key]; exact Sb9_ret_value B L s

/-- version 4 with an attribute list of `be32N B (pE B + 8)` pairs -/
theorem run_attr {B L s} (h : Init B L s) (fuel : Nat) (h5 : 5 ≤ L) (hL : L ≤ B.length) (hv4 : w16 (be16 B (L - 5)) = 4)
    (ha : be32N B (pE B + 4) % 2 = 1) (hna : be32N B (pE B + 8) < 2147483648)
    (hb : pE B + 12 + 4 * be32N B (pE B + 8) ≤ B.length) (hf : nvN B ≤ fuel) (hf2 : be32N B (pE B + 8) ≤ fuel) :
    run fuel s = Epi (SAttr B (Sb9 B (SPre B L s)) (pE B + 4) (be32N B (pE B + 8))) ∧
      (run fuel s).ub = false ∧ (run fuel s).oof = false ∧ (run fuel s).ret = 0 := by
  obtain ⟨q, o⟩ := phPre_ok B L s h.buf h.len h5 hL h.ub h.oof h.done h.gto
  obtain ⟨q9, o9⟩ := body9_ok o fuel (by omega) hf
  have hver := Sb9_version B L s
  have e8 : pE B + 4 + 4 = pE B + 8 := by omega
  obtain ⟨qv, ov⟩ := phV4_attrs o9 fuel (by rw [hver]; exact hv4) ha (by rw [e8]; exact hna) (by rw [e8]; omega) (by rw [e8]; exact hf2)
  rw [e8] at qv ov
  have key : run fuel s = Epi (SAttr B (Sb9 B (SPre B L s)) (pE B + 4) (be32N B (pE B + 8))) := by
    simp only [run]
    rw [q, if_pos (show (SPre B L s).vg_version ≤ 4 by show w16 _ ≤ 4; omega), phBody, q9, qv, phEpi_ok _ ov.done]
    rfl
  refine ⟨key, ?_, ?_, ?_⟩
  · rw [key]; exact ov.ub
  · rw [key]; exact ov.oof
  · rw [key]; exact Sb9_ret_value B L s

/-- version 4 with `VG_ATTR_SET` and a negative `nattrs`: no undefined behaviour, the function returns FAIL -/
theorem run_fail {B L s} (h : Init B L s) (fuel : Nat) (h5 : 5 ≤ L) (hL : L ≤ B.length) (hv4 : w16 (be16 B (L - 5)) = 4)
    (ha : be32N B (pE B + 4) % 2 = 1) (hb : pE B + 12 ≤ B.length) (hna : 2147483648 ≤ be32N B (pE B + 8)) (hf : nvN B ≤ fuel) :
    (run fuel s).ub = false ∧ (run fuel s).oof = false ∧ (run fuel s).ret = -1 := by
  obtain ⟨q, o⟩ := phPre_ok B L s h.buf h.len h5 hL h.ub h.oof h.done h.gto
  obtain ⟨q9, o9⟩ := body9_ok o fuel (by omega) hf
  have hver := Sb9_version B L s
  have e8 : pE B + 4 + 4 = pE B + 8 := by omega
  obtain ⟨f1, f2, f3, f4⟩ := phV4_fail o9 fuel (by rw [hver]; exact hv4) ha (by omega) (by rw [e8]; exact hna)
  simp only [run]
  rw [q, if_pos (show (SPre B L s).vg_version ≤ 4 by show w16 _ ≤ 4; omega), phBody, q9, phEpi_ok _ f3]
  exact ⟨f1, f2, f4⟩

end H4.Lemmas.C08Fn3
