import H4.Lemmas.C01Fn
/-! The zero-fill loop of the translated `Hwrite` (`H4.Gen.Fn.Hfile2.Hwrite.loop0`) and the model-side case lemmas of `hwrite` on an ordinary element. -/
namespace H4.Lemmas.C01Fn
open H4 H4.Elem H4.Gen.Fn.Hfile2 H4.Gen.Hdf
set_option linter.unusedSimpArgs false
set_option linter.unusedVariables false

/-- the `HP_write(file_rec, zeros, n)` rows of the zero-fill loop of `Hwrite` for a gap of `g` bytes: full 512-byte pieces, then the rest -/
def zrows (g : Nat) : List (List Int) :=
  List.replicate (g / 512) [5, 512] ++ (if g % 512 = 0 then [] else [[5, ((g % 512 : Nat) : Int)]])

/-- last value of the loop's local `n` -/
def lastN (g : Nat) (n0 : Int) : Int := if g = 0 then n0 else if g % 512 = 0 then 512 else ((g % 512 : Nat) : Int)

theorem zrows_zero : zrows 0 = [] := by simp [zrows]

theorem zrows_small (g : Nat) (h0 : 0 < g) (h : g ≤ 512) : zrows g = [[5, (g : Int)]] := by
  unfold zrows
  by_cases e : g = 512
  · subst e; simp
  · have h1 : g / 512 = 0 := by omega
    have h2 : g % 512 = g := by omega
    simp [h1, h2]; omega

theorem zrows_big (g : Nat) (h : 512 < g) : zrows g = [5, 512] :: zrows (g - 512) := by
  unfold zrows
  have h1 : g / 512 = (g - 512) / 512 + 1 := by omega
  have h2 : g % 512 = (g - 512) % 512 := by omega
  rw [h1, h2, List.replicate_succ]; rfl

theorem loop0_step (fuel : Nat) (s : Hwrite.St) (hg : 0 < s.gap) (hw : s.HP_write_ret ≠ -1) (hd : s.done = false) (ht : s.gto = false) :
    Hwrite.loop0 (fuel + 1) s = Hwrite.loop0 fuel
      { s with n := (if s.gap > 512 then 512 else s.gap), calls := s.calls ++ [[5, (if s.gap > 512 then 512 else s.gap)]],
               file_rec_f_cur_off := s.file_rec_f_cur_off + (if s.gap > 512 then 512 else s.gap),
               gap := s.gap - (if s.gap > 512 then 512 else s.gap) } := by
  rw [Hwrite.loop0]
  cases s
  simp only at hg hw hd ht
  subst hd ht
  simp [hg, Hwrite.loop0.body, hw]

theorem loop0_spec : ∀ (fuel g : Nat) (s : Hwrite.St), s.gap = g → s.HP_write_ret ≠ -1 → s.done = false → s.gto = false →
    (g + 511) / 512 ≤ fuel →
    Hwrite.loop0 fuel s = { s with gap := 0, n := lastN g s.n, calls := s.calls ++ zrows g, file_rec_f_cur_off := s.file_rec_f_cur_off + g } := by
  intro fuel
  induction fuel with
  | zero =>
    intro g s hg _ _ _ h
    have h0 : g = 0 := by omega
    subst h0
    rw [Hwrite.loop0]
    simp [hg, lastN, zrows_zero]
    cases s; simp_all
  | succ fuel ih =>
    intro g s hg hw hd ht hf
    by_cases h0 : g = 0
    · subst h0
      rw [Hwrite.loop0]
      simp [hg, lastN, zrows_zero]
      cases s; simp_all
    · have hpos : 0 < s.gap := by omega
      rw [loop0_step fuel s hpos hw hd ht]
      by_cases hb : 512 < g
      · have e : s.gap > 512 := by omega
        rw [ih (g - 512) _ (by simp [e]; omega) (by simpa using hw) (by simpa using hd) (by simpa using ht) (by omega)]
        simp [e, zrows_big g hb, lastN]
        refine ⟨by omega, ?_⟩
        have hm : (g - 512) % 512 = g % 512 := by omega
        rw [hm, if_neg h0]
        by_cases h5 : g - 512 = 0
        · have : g % 512 = 0 := by omega
          simp [h5, this]
        · simp [h5]
          omega
      · have e : ¬ (s.gap > 512) := by omega
        rw [ih 0 _ (by simp [e]) (by simpa using hw) (by simpa using hd) (by simpa using ht) (by simp)]
        simp [e, zrows_small g (by omega) (by omega), lastN, zrows_zero, h0]
        refine ⟨hg, ?_, hg⟩
        split <;> omega


/-- `hwrite` on an ordinary access record with write access whose element has a length: `hwritePlain` on the refreshed record -/
theorem hwrite_old (w : World) (h : Nat) (a : Acc) (hw : w.acc h = some a) (hs : a.special = false) (hcw : a.canWrite = true)
    (bs : Bytes) (o l : Nat) (he : ((w.file a.file).dd a.slot).ext = some (o, l)) :
    hwrite w h bs = hwritePlain (w.refresh h) h { a with newElem := false } (w.file a.file) bs := by
  unfold hwrite hwriteCore
  rw [hw, refresh_acc w h a hw]
  cases hn : a.newElem <;> simp [hcw, hs, Acc.refresh, he, hn, refresh_file]
  · congr 1
    cases a; simp_all

/-- `hwrite` on a new element: `Hsetlength(length)`, then `hwritePlain` on the appendable record -/
theorem hwrite_new (w : World) (h : Nat) (a : Acc) (hw : w.acc h = some a) (hs : a.special = false) (hcw : a.canWrite = true)
    (bs : Bytes) (hn : a.newElem = true) (he : ((w.file a.file).dd a.slot).ext = none) :
    hwrite w h bs = hwritePlain (w.refresh h) h { a with newElem := false, appendable := true }
      ((w.file a.file).setLength a.slot bs.length).1 bs := by
  unfold hwrite hwriteCore
  rw [hw, refresh_acc w h a hw]
  simp [hcw, hs, Acc.refresh, he, hn, refresh_file]

/-- `hwritePlain` refuses: an empty write, or one beyond the end of an element that is not appendable; the record and the file passed in are
    what the world holds afterwards -/
theorem plain_refused (w : World) (h : Nat) (a : Acc) (f : File) (bs : Bytes) (o l : Nat) (he : (f.dd a.slot).ext = some (o, l))
    (hfi : a.file < w.files.length)
    (hr : bs.length = 0 ∨ (a.appendable = false ∧ bs.length + a.posn > l)) :
    (hwritePlain w h a f bs).2 = .fail ∧ (hwritePlain w h a f bs).1.acc h = some a ∧ (hwritePlain w h a f bs).1.file a.file = f := by
  unfold hwritePlain
  have hl : ddLen (f.dd a.slot) = l := by simp [ddLen, he]
  have hc : ((bs.length : Int) ≤ 0 ∨ a.appendable = false ∧ (bs.length : Int) + a.posn > ddLen (f.dd a.slot)) := by
    rw [hl]
    rcases hr with h1 | ⟨h1, h2⟩
    · left; omega
    · right; exact ⟨h1, by omega⟩
  rw [if_pos hc]
  exact ⟨rfl, by simp [acc_setAcc], by rw [file_setAcc, file_setFile_same _ _ _ hfi]⟩

/-- `hwritePlain` takes the promotion branch -/
def plainPromotes (a : Acc) (f : File) (n : Nat) : Prop :=
  0 < n ∧ a.appendable = true ∧ (n : Int) + a.posn > ddLen (f.dd a.slot) ∧ ddLen (f.dd a.slot) + ddOff (f.dd a.slot) ≠ f.endOff

theorem plain_promote_refused (w : World) (h : Nat) (a : Acc) (f : File) (bs : Bytes) (hp : plainPromotes a f bs.length)
    (hfi : a.file < w.files.length) (hwr : f.writable = false) :
    (hwritePlain w h a f bs).2 = .fail ∧ (hwritePlain w h a f bs).1.acc h = some { a with appendable := false } ∧
    (hwritePlain w h a f bs).1.file a.file = f := by
  obtain ⟨h0, happ, hg, hend⟩ := hp
  unfold hwritePlain
  have hc : ¬ ((bs.length : Int) ≤ 0 ∨ a.appendable = false ∧ (bs.length : Int) + a.posn > ddLen (f.dd a.slot)) := by
    rw [happ]; intro hx; rcases hx with hx | ⟨hx, _⟩
    · omega
    · cases hx
  rw [if_neg hc, if_pos ⟨happ, hg, hend⟩, if_pos hwr]
  exact ⟨rfl, by simp [acc_setAcc], by rw [file_setAcc, file_setFile_same _ _ _ hfi]⟩

/-- `hwritePlain` writes in place (growing the element in place when it is appendable and the last thing in the file) -/
theorem plain_written (w : World) (h : Nat) (a : Acc) (f : File) (bs : Bytes) (o l : Nat) (he : (f.dd a.slot).ext = some (o, l))
    (hfi : a.file < w.files.length) (hsl : a.slot < f.mem.length) (h0 : 0 < bs.length)
    (hin : a.appendable = false → bs.length + a.posn ≤ l)
    (hend : a.appendable = true → bs.length + a.posn > l → l + o = f.endOff) :
    (hwritePlain w h a f bs).2 = .num bs.length ∧
    (hwritePlain w h a f bs).1.acc h = some { a with posn := a.posn + bs.length } ∧
    ddView ((hwritePlain w h a f bs).1.file a.file) a.slot =
      ((o : Int), (if a.appendable = true ∧ bs.length + a.posn > l then ((a.posn + bs.length : Nat) : Int) else (l : Int)),
       ((max f.endOff (o + a.posn + bs.length) : Nat) : Int)) := by
  have hl : ddLen (f.dd a.slot) = l := by simp [ddLen, he]
  have ho : ddOff (f.dd a.slot) = o := by simp [ddOff, he]
  unfold hwritePlain
  have hc : ¬ ((bs.length : Int) ≤ 0 ∨ a.appendable = false ∧ (bs.length : Int) + a.posn > ddLen (f.dd a.slot)) := by
    rw [hl]; intro hx; rcases hx with hx | ⟨hx1, hx2⟩
    · omega
    · have := hin hx1; omega
  rw [if_neg hc]
  by_cases hgrow : a.appendable = true ∧ bs.length + a.posn > l
  · have hg : a.appendable = true ∧ (bs.length : Int) + a.posn > ddLen (f.dd a.slot) := ⟨hgrow.1, by rw [hl]; omega⟩
    have hat : ¬ (a.appendable = true ∧ (bs.length : Int) + a.posn > ddLen (f.dd a.slot) ∧ ddLen (f.dd a.slot) + ddOff (f.dd a.slot) ≠ f.endOff) := by
      intro hx; have := hend hgrow.1 hgrow.2; rw [hl, ho] at hx; omega
    rw [if_neg hat]
    refine ⟨rfl, by simp [acc_setAcc], ?_⟩
    have hg1 : (bs.length : Int) + a.posn > l := by omega
    simp only [file_setAcc, file_setFile_same _ _ _ hfi, hl, ho, hgrow.1, hgrow.2, hg1, true_and, and_self, if_true, Int.toNat_natCast, ddView]
    have key : ∀ g0 : File, g0.mem = f.mem → g0.endOff = f.endOff →
        ddView { ((g0.ddSetExt a.slot (o, a.posn + bs.length)).pwrite (o + a.posn) bs) with
                 endOff := max ((g0.ddSetExt a.slot (o, a.posn + bs.length)).pwrite (o + a.posn) bs).endOff (o + a.posn + bs.length) } a.slot =
          ((o : Int), ((a.posn + bs.length : Nat) : Int), ((max f.endOff (o + a.posn + bs.length) : Nat) : Int)) := by
      intro g0 hm hE
      have hs0 : a.slot < g0.mem.length := by rw [hm]; exact hsl
      have e1 : (g0.ddSetExt a.slot (o, a.posn + bs.length)).endOff = max f.endOff (o + (a.posn + bs.length)) := by
        rw [ddSetExt_endOff _ _ _ hs0, hE]
      have e2 : ((g0.ddSetExt a.slot (o, a.posn + bs.length)).dd a.slot).ext = some (o, a.posn + bs.length) := by
        rw [ddSetExt_dd _ _ _ _ hs0]; simp
      simp only [ddView]
      have e3 : ∀ (g : File) (x : Nat), ({ g with endOff := x } : File).dd a.slot = g.dd a.slot := fun _ _ => rfl
      rw [e3, pwrite_dd]
      have e4 : ((g0.ddSetExt a.slot (o, a.posn + bs.length)).pwrite (o + a.posn) bs).endOff = (g0.ddSetExt a.slot (o, a.posn + bs.length)).endOff := rfl
      simp only [ddOff, ddLen, e2, e4, e1]
      refine Prod.ext rfl (Prod.ext rfl ?_)
      simp only []
      omega
    by_cases hgap : (a.posn : Int) > l
    · rw [if_pos hgap]
      exact key (f.pwrite (o + l) (zeros (a.posn - l))) rfl rfl
    · rw [if_neg hgap]
      exact key f rfl rfl
  · have hg : ¬ (a.appendable = true ∧ (bs.length : Int) + a.posn > ddLen (f.dd a.slot)) := by
      rw [hl]; intro hx; exact hgrow ⟨hx.1, by omega⟩
    have hat : ¬ (a.appendable = true ∧ (bs.length : Int) + a.posn > ddLen (f.dd a.slot) ∧ ddLen (f.dd a.slot) + ddOff (f.dd a.slot) ≠ f.endOff) := by
      intro hx; exact hg ⟨hx.1, hx.2.1⟩
    have hg3 : ¬ (a.appendable = true ∧ (bs.length : Int) + a.posn > ddLen (f.dd a.slot) ∧ (a.posn : Int) > ddLen (f.dd a.slot)) := by
      intro hx; exact hg ⟨hx.1, hx.2.1⟩
    rw [if_neg hat]
    refine ⟨rfl, by simp [acc_setAcc], ?_⟩
    simp only [file_setAcc, file_setFile_same _ _ _ hfi, hg, hg3, if_false, hgrow, ho, Int.toNat_natCast]
    have e3 : ∀ (g : File) (x : Nat), ({ g with endOff := x } : File).dd a.slot = g.dd a.slot := fun _ _ => rfl
    unfold ddView
    rw [e3, pwrite_dd]
    have e4 : (f.pwrite (o + a.posn) bs).endOff = f.endOff := rfl
    simp only [ddOff, ddLen, he, e4]


/-- the file after the model's `setLength`: the descriptor has the extent at the old end of file, the end of file has moved, nothing else
    that the write looks at has changed -/
theorem setLength_facts (f : File) (slot n : Nat) (hs : slot < f.mem.length) :
    ((f.setLength slot n).1.dd slot).ext = some (f.endOff, n) ∧ (f.setLength slot n).1.endOff = f.endOff + n ∧
    (f.setLength slot n).1.mem.length = f.mem.length ∧ (f.setLength slot n).1.writable = f.writable := by
  unfold File.setLength
  simp only []
  have hs' : slot < (f.getDiskBlock n).1.mem.length := by rw [getDiskBlock_mem]; exact hs
  refine ⟨?_, ?_, ?_, ?_⟩
  · rw [ddSetExt_dd _ _ _ _ hs']; simp [getDiskBlock_off]
  · rw [ddSetExt_endOff _ _ _ hs', getDiskBlock_endOff]; simp [getDiskBlock_off]
  · unfold File.ddSetExt; rw [updateDD_mem]; simp [getDiskBlock_mem]
  · unfold File.ddSetExt File.updateDD File.getDiskBlock
    simp only []
    split <;> split <;> split <;> rfl

/-- the loop lemma as a rewrite rule whose hypotheses are equations on fields of the concrete state (so that `simp` discharges them) -/
theorem loop0_at (fuel g : Nat) (hf : (g + 511) / 512 ≤ fuel) (s : Hwrite.St) (hg : s.gap = g) (hw : s.HP_write_ret = 0)
    (hd : s.done = false) (ht : s.gto = false) :
    Hwrite.loop0 fuel s = { s with gap := 0, n := lastN g s.n, calls := s.calls ++ zrows g, file_rec_f_cur_off := s.file_rec_f_cur_off + g } :=
  loop0_spec fuel g s hg (by rw [hw]; decide) hd ht hf

/-- position, `appendable` and `new_elem` of the model's access record, as C integers -/
def accView (w : World) (h : Nat) : Option (Int × Int × Int) :=
  (w.acc h).map fun a => ((a.posn : Int), b2i a.appendable, b2i a.newElem)

/-- calls of the layer below that `Hwrite` makes on an element at offset `o` with length `l` (after `Hsetlength` for a new element):
    nothing when the write is refused; `HLconvert` (+ the write on the converted element) on the promotion path; else the zero fill of a gap,
    the new length, and the transfer `HPseek(posn + o)`, `HP_write(n)` -/
def plainCalls (aid ddid conv : Int) (a : Acc) (app : Bool) (o l e n : Nat) : List (List Int) :=
  if n = 0 ∨ (app = false ∧ n + a.posn > l) then []
  else if app = true ∧ n + a.posn > l ∧ l + o ≠ e then
    [[cCONV, aid, a.blockSize, a.numBlocks]] ++ (if conv = -1 then [] else [[cREWRITE, aid, n]])
  else
    (if app = true ∧ n + a.posn > l ∧ a.posn > l then [[cSEEK, ((o + l : Nat) : Int)]] ++ zrows (a.posn - l) else []) ++
    (if app = true ∧ n + a.posn > l then [[cUPD, ddid, -2, ((a.posn + n : Nat) : Int)]] else []) ++
    [[cSEEK, ((a.posn + o : Nat) : Int)], [cWRITE, (n : Int)]]

/-- calls of the layer below that `Hwrite` makes after `HIrefresh_new` on a record with write access: for a new element `Hsetlength`
    (its own `HIrefresh_new`, `HPgetdiskblock(length, FALSE)`, `HTPupdate(ddid, end of file, length)`), then `HTPinquire` and `plainCalls` -/
def writeCalls (aid ddid conv : Int) (a : Acc) (f : File) (n : Nat) : List (List Int) :=
  match (f.dd a.slot).ext with
  | none => [[cINQ, ddid], [cBLOCK, (n : Int), 0], [cUPD, ddid, (f.endOff : Int), (n : Int)], [cINQ, ddid]] ++
            plainCalls aid ddid conv a true f.endOff n (f.endOff + n) n
  | some (o, l) => [[cINQ, ddid]] ++ plainCalls aid ddid conv a a.appendable o l f.endOff n

end H4.Lemmas.C01Fn
