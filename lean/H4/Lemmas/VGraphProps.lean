import H4.Lemmas.VGroupRefine
/-! Facts about the answers themselves: lone sets, `Vgetid` iteration, name/class set-get. -/
namespace H4.VGroup
open H4.Gen.Hdf

theorem loneOf_mem {β} (mem : β → List Pair) (t : Nat) (fl : List Nat) (vgs : List (Nat × β)) (r : Nat) :
    r ∈ loneOf mem t fl vgs ↔ r ∈ fl ∧ ∀ e ∈ vgs, (t, r) ∉ mem e.2 := by
  simp only [loneOf, List.mem_filter, Bool.not_eq_eq_eq_not, Bool.not_true, List.any_eq_false,
    List.contains_iff_mem]

theorem loneOf_sublist {β} (mem : β → List Pair) (t : Nat) (fl : List Nat) (vgs : List (Nat × β)) :
    (loneOf mem t fl vgs).Sublist fl := List.filter_sublist

/-- repeated `Vgetid`: start from `id`, stop at the first failure -/
def walk (refs : List Nat) : Nat → Int → List Nat
  | 0, _ => []
  | f + 1, id =>
    match getidIn refs id with
    | .int n => n.toNat :: walk refs f n
    | _ => []

theorem walk_succ (refs : List Nat) (f : Nat) (id : Int) :
    walk refs (f + 1) id = (match getidIn refs id with | .int n => n.toNat :: walk refs f n | _ => []) := rfl

theorem dropWhile_ne {pre post : List Nat} {a : Nat} (h : a ∉ pre) :
    (pre ++ a :: post).dropWhile (fun (r : Nat) => decide ((r : Int) ≠ (a : Int))) = a :: post := by
  induction pre with
  | nil => simp [List.dropWhile]
  | cons b t ih =>
    have hb : b ≠ a := fun e => h (by simp [e])
    have ht : a ∉ t := fun e => h (by simp [e])
    simp only [List.cons_append, List.dropWhile_cons]
    have : decide ((b : Int) ≠ (a : Int)) = true := by simp; omega
    simp only [this, if_true]
    exact ih ht

theorem getidIn_mid {pre post : List Nat} {a : Nat} (h : a ∉ pre) :
    getidIn (pre ++ a :: post) (a : Int) = (match post with | [] => .fail | b :: _ => .int b) := by
  unfold getidIn
  have h1 : ¬ ((a : Int) < -1) := by omega
  have h2 : ¬ ((a : Int) = -1) := by omega
  simp only [h1, h2, if_false, dropWhile_ne h]
  cases post <;> rfl

theorem walk_from {post : List Nat} : ∀ (pre : List Nat) (a : Nat), (pre ++ a :: post).Nodup →
    walk (pre ++ a :: post) (post.length + 1) (a : Int) = post := by
  induction post with
  | nil =>
    intro pre a hn
    have ha : a ∉ pre := by
      intro hm
      have := List.nodup_append.mp hn
      exact this.2.2 a hm a (by simp) rfl
    rw [List.length_nil, walk_succ, getidIn_mid ha]
  | cons b rest ih =>
    intro pre a hn
    have ha : a ∉ pre := by
      intro hm
      have := List.nodup_append.mp hn
      exact this.2.2 a hm a (by simp) rfl
    rw [List.length_cons, walk_succ, getidIn_mid ha]
    simp only [Int.toNat_natCast]
    have e : pre ++ a :: b :: rest = (pre ++ [a]) ++ b :: rest := by simp
    rw [e] at hn ⊢
    rw [ih (pre ++ [a]) b hn]

/-- iterating `Vgetid` from -1 visits each existing Vgroup ref exactly once, in ascending order -/
theorem getid_walk (refs : List Nat) (h : refs.Pairwise (· < ·)) : walk refs (refs.length + 1) (-1) = refs := by
  have hnd : refs.Nodup := h.imp (fun hlt => by omega)
  cases refs with
  | nil => rfl
  | cons a post =>
    have h1 : getidIn (a :: post) (-1) = .int a := by simp [getidIn]
    rw [List.length_cons, walk_succ, h1]
    simp only [Int.toNat_natCast]
    have := walk_from (post := post) [] a (by simpa using hnd)
    simp only [List.nil_append] at this
    rw [this]

/-! name / class set-get on the implementation model -/

theorem withSlot_then {s : File} {slot : Nat} {k : VGroup → VGroup × Out} {f : VGroup → Out} {g : VGroup} {r : Nat}
    (h1 : alook slot s.slots = some r) (h2 : alook r s.vgs = some g) :
    (withSlot (withSlot s slot k).1 slot (fun x => (x, f x))).2 = f (k g).1 := by
  simp only [withSlot, withSlotG, h1, h2, alook_aset, if_true, Option.map_some]

theorem setname_ok_inv {s : File} {slot : Nat} {n : Bytes} (h : (step s (.setname slot n)).2 = .ok) :
    ∃ r g, alook slot s.slots = some r ∧ alook r s.vgs = some g ∧ g.access = accW := by
  simp only [step, withSlot, withSlotG] at h
  cases h1 : alook slot s.slots with
  | none => simp [h1] at h
  | some r =>
    cases h2 : alook r s.vgs with
    | none => simp [h1, h2] at h
    | some g =>
      refine ⟨r, g, rfl, h2, ?_⟩
      simp only [h1, h2] at h
      by_cases c : g.access = accW
      · exact c
      · simp [c] at h

theorem setclass_ok_inv {s : File} {slot : Nat} {n : Bytes} (h : (step s (.setclass slot n)).2 = .ok) :
    ∃ r g, alook slot s.slots = some r ∧ alook r s.vgs = some g ∧ g.access = accW := by
  simp only [step, withSlot, withSlotG] at h
  cases h1 : alook slot s.slots with
  | none => simp [h1] at h
  | some r =>
    cases h2 : alook r s.vgs with
    | none => simp [h1, h2] at h
    | some g =>
      refine ⟨r, g, rfl, h2, ?_⟩
      simp only [h1, h2] at h
      by_cases c : g.access = accW
      · exact c
      · simp [c] at h

end H4.VGroup
