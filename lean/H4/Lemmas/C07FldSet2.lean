import H4.Lemmas.C07FldSet1
import Mathlib.Tactic.Set
/-! `VSsetfields`: the two field branches as a whole (`l2A_run`: user symbol, `l3A_run`: reserved symbol), on a state described by
    natural numbers: field number `k` of `ac`, symbol index `j0`, record size so far `iv`. -/
namespace H4.Lemmas.C07Fld
open H4.Gen.Fn.Dfconv H4.Gen.Fn.Vsfld H4.VData H4.Gen.Hdf H4.Gen.Vs H4.C2L H4.VsfldEnc
set_option linter.unusedVariables false
set_option linter.unusedSimpArgs false

/-- `x | DFNT_NATIVE`: bit 12 is set -/
theorem or_native (x : Nat) : x ||| 4096 = x + 4096 * (1 - x / 4096 % 2) := by
  have h1 : (x ||| 4096) / 2^12 = x / 2^12 ||| 4096 / 2^12 := Nat.or_div_two_pow ..
  have h2 : (x ||| 4096) % 2^12 = x % 2^12 ||| 4096 % 2^12 := Nat.or_mod_two_pow ..
  have h3 : (x / 2^12 ||| 1) / 2^1 = x / 2^12 / 2^1 ||| 1 / 2^1 := Nat.or_div_two_pow ..
  have h4 : (x / 2^12 ||| 1) % 2^1 = x / 2^12 % 2^1 ||| 1 % 2^1 := Nat.or_mod_two_pow ..
  simp only [Nat.reducePow, Nat.reduceDiv, Nat.reduceMod, Nat.or_zero, Nat.pow_one] at h1 h2 h3 h4
  have h5 : x / 4096 % 2 ||| 1 = 1 := by
    rcases Nat.mod_two_eq_zero_or_one (x / 4096) with h | h <;> rw [h] <;> rfl
  rw [h5] at h4
  omega

/-- `DFKNTsize(type | DFNT_NATIVE)` of a type `DFKNTsize` knows is the native size of the model -/
theorem ntInfo_native {t : Nat} {nt : NT} (h : ntInfo t = some nt) : ntsize ((t ||| 4096 : Nat) : Int) = nt.nsz := by
  have hlt := (ntInfo_tsz_le h).2
  unfold ntsize
  rw [if_neg (by omega)]
  simp only [Int.toNat_natCast]
  rw [or_native]
  unfold ntInfo at h ⊢
  simp only [tables.2.2.2.1, tables.2.2.2.2.1, tables.2.2.2.2.2] at h ⊢
  split at h
  · cases h
  · rename_i hc
    simp only [beq_iff_eq, not_or, Nat.not_le] at hc
    have e1 : (t + 4096 * (1 - t / 4096 % 2)) % 4096 = t % 4096 := by omega
    have e2 : (t + 4096 * (1 - t / 4096 % 2)) / 4096 % 2 = 1 := by omega
    have e3 : (t + 4096 * (1 - t / 4096 % 2)) / 8192 % 2 = t / 8192 % 2 := by omega
    have e4 : ¬ ((t + 4096 * (1 - t / 4096 % 2)) / 8192 % 2 = 1 ∨ t + 4096 * (1 - t / 4096 % 2) ≥ 2 * 16384) := by omega
    simp only [e1, e2, beq_iff_eq]
    rw [if_neg (by simpa using e4)]
    split at h
    · cases h
    · rename_i i hi
      cases h
      simp

/-- the part of the state the field loop of `VSsetfields` leaves alone (inputs, the other members of the vdata, the flags
    `building` and `ret_value`) -/
def sfFrame (s : VSsetfields.St) :=
  ((s.av, s.ac, s.vs_usym_name, s.vs_usym_type, s.vs_usym_isize, s.vs_usym_order, s.vs_nusym),
   (s.vs_wlist_type_i, s.vs_wlist_off_i, s.vs_wlist_isize_i, s.vs_wlist_order_i, s.vs_wlist_esize_i),
   (s.vs_access, s.vs_nvertices, s.vs_rlist_n, s.vs_rlist_item, s.vs_marked, s.vs_new_h_sz),
   (s.vs_wlist_bptr_null, s.vs_wlist_name_null, s.vs_rlist_item_null, s.fields_null, s.w_null, s.vs_null),
   (s.building, s.vkey_group, s.scan_ret, s.vkey))

/-- a field list refused in the middle of the field loop: `goto done` with `ret_value = FAIL`, nothing of the frame touched, no
    undefined behaviour -/
def SfFailed (s r : VSsetfields.St) : Prop :=
  r.gto = true ∧ r.brk = false ∧ r.ret_value = -1 ∧ sfFrame r = sfFrame s ∧ r.ub = s.ub ∧ r.oof = s.oof

theorem col_getD {α} (f : α → Int) (l : List α) (j : Nat) (h : j < l.length) (d : α) : (l.map f).getD j 0 = f (l.getD j d) := by
  simp [h]

theorem DFKNTsize_native (fuel : Nat) {t : Nat} {nt : NT} (h : ntInfo t = some nt) :
    DFKNTsize fuel (Int.ofNat (Int.toNat (t : Int) ||| Int.toNat 4096)) =
      ⟨Int.ofNat (Int.toNat (t : Int) ||| Int.toNat 4096), false, false, (nt.nsz : Int), true⟩ := by
  have hlt := (ntInfo_tsz_le h).2
  have e : Int.ofNat (Int.toNat (t : Int) ||| Int.toNat 4096) = ((t ||| 4096 : Nat) : Int) := by simp
  rw [e, DFKNTsize_spec fuel _ (by omega) (by rw [or_native]; omega), ntInfo_native h]

/-- the user-symbol branch for the symbol `sd = usym[j0]` as field number `k` of `ac`: refused when the field or the record gets
    larger than `MAX_FIELD_SIZE`, otherwise name, type, order, esize, isize of field `k` are stored and `ivsize`, `n` advance -/
theorem l2A_run (fuel : Nat) (s : VSsetfields.St) (hcl : SfClean s) (ac k j0 iv : Nat) (usym : List SymDef) (nt : NT)
    (hk : s.vs_wlist_n = k) (hkac : k < ac)
    (c1 : s.vs_wlist_type_i = 0) (c3 : s.vs_wlist_isize_i = 2 * ac) (c4 : s.vs_wlist_order_i = 3 * ac) (c5 : s.vs_wlist_esize_i = 4 * ac)
    (hbl : s.vs_wlist_bptr.length = 5 * ac) (hnl : s.vs_wlist_name.length = ac)
    (hj : s.j = j0) (hj0 : j0 < usym.length)
    (u1 : s.vs_usym_name = nameRows usym) (u2 : s.vs_usym_type = typeCol usym) (u3 : s.vs_usym_isize = isizeCol usym)
    (u4 : s.vs_usym_order = orderCol usym)
    (hname : NameOK (usym.getD j0 default).name) (hnt : ntInfo (usym.getD j0 default).type = some nt) (ho : 1 ≤ (usym.getD j0 default).order)
    (hiv : s.vs_wlist_ivsize = iv) :
    if (usym.getD j0 default).order * (usym.getD j0 default).isize > 65535 ∨ iv + (usym.getD j0 default).order * (usym.getD j0 default).isize > 65535 then SfFailed s (l2A fuel s)
    else l2A fuel s = { s with found := 1, vs_wlist_name := s.vs_wlist_name.set k (cstr (usym.getD j0 default).name), order := (usym.getD j0 default).order, value := ((iv + (usym.getD j0 default).order * (usym.getD j0 default).isize : Nat) : Int), vs_wlist_bptr := (((s.vs_wlist_bptr.set k ((usym.getD j0 default).type : Int)).set (3 * ac + k) ((usym.getD j0 default).order : Int)).set (4 * ac + k) ((((usym.getD j0 default).order * nt.nsz : Nat) : Int) % 65536)).set (2 * ac + k) (((usym.getD j0 default).order * (usym.getD j0 default).isize : Nat) : Int), vs_wlist_ivsize := ((iv + (usym.getD j0 default).order * (usym.getD j0 default).isize : Nat) : Int), vs_wlist_n := (k : Int) + 1, brk := true } := by
  obtain ⟨sd, hsd⟩ : ∃ x, x = usym.getD j0 default := ⟨_, rfl⟩
  rw [← hsd] at hname hnt ho ⊢
  obtain ⟨isz, hisz⟩ : ∃ x, x = sd.order * sd.isize := ⟨_, rfl⟩
  rw [← hisz]
  obtain ⟨h1, h2, h3⟩ := hcl
  have hnsz := (ntInfo_valid hnt).1
  have hnz : 1 ≤ nt.nsz := by have := (ntInfo_valid hnt).2; omega
  -- the row and the columns at j0
  have hrow : s.vs_usym_name.getD (Int.toNat s.j) [] = chars sd.name ++ 0 :: [] := by
    rw [u1, hj]; simp [nameRows, hj0, cstr, hsd]
  have hO : s.vs_usym_order.getD (Int.toNat s.j) 0 = (sd.order : Int) := by rw [u4, hj]; simp [orderCol, hj0, hsd]
  have hT : s.vs_usym_type.getD (Int.toNat s.j) 0 = (sd.type : Int) := by rw [u2, hj]; simp [typeCol, hj0, hsd]
  have hI : s.vs_usym_isize.getD (Int.toNat s.j) 0 = (sd.isize : Int) := by rw [u3, hj]; simp [isizeCol, hj0, hsd]
  have lj1 : 0 ≤ s.j ∧ s.j < (s.vs_usym_name.length : Int) := by rw [u1, hj]; simp [nameRows]; omega
  have lj2 : 0 ≤ s.j ∧ s.j < (s.vs_usym_type.length : Int) := by rw [u2, hj]; simp [typeCol]; omega
  have lj3 : 0 ≤ s.j ∧ s.j < (s.vs_usym_isize.length : Int) := by rw [u3, hj]; simp [isizeCol]; omega
  have lj4 : 0 ≤ s.j ∧ s.j < (s.vs_usym_order.length : Int) := by rw [u4, hj]; simp [orderCol]; omega
  have hkn : Int.toNat s.vs_wlist_n = k := by omega
  have i1 : Int.toNat (s.vs_wlist_type_i + s.vs_wlist_n) = k := by omega
  have i3 : Int.toNat (s.vs_wlist_isize_i + s.vs_wlist_n) = 2 * ac + k := by omega
  have i4 : Int.toNat (s.vs_wlist_order_i + s.vs_wlist_n) = 3 * ac + k := by omega
  have i5 : Int.toNat (s.vs_wlist_esize_i + s.vs_wlist_n) = 4 * ac + k := by omega
  have b1 : 0 ≤ s.vs_wlist_type_i + s.vs_wlist_n ∧ s.vs_wlist_type_i + s.vs_wlist_n < (5 * ac : Nat) := by omega
  have b3 : 0 ≤ s.vs_wlist_isize_i + s.vs_wlist_n ∧ s.vs_wlist_isize_i + s.vs_wlist_n < (5 * ac : Nat) := by omega
  have b4 : 0 ≤ s.vs_wlist_order_i + s.vs_wlist_n ∧ s.vs_wlist_order_i + s.vs_wlist_n < (5 * ac : Nat) := by omega
  have b5 : 0 ≤ s.vs_wlist_esize_i + s.vs_wlist_n ∧ s.vs_wlist_esize_i + s.vs_wlist_n < (5 * ac : Nat) := by omega
  rw [l2A_spec fuel s ⟨h1, h2, h3⟩ (by omega) lj1 (chars sd.name) [] hrow (chars_ok hname)]
  set S1 : VSsetfields.St := { s with found := 1, vs_wlist_name := s.vs_wlist_name.set (Int.toNat s.vs_wlist_n) (chars sd.name ++ [0]) } with hS1
  rw [l2B_spec fuel S1 ⟨h1, h2, h3⟩ lj4 lj2 (by show _ ∧ _ < (s.vs_wlist_bptr.length : Int); rw [hbl]; exact b1)
    (by show _ ∧ _ < (s.vs_wlist_bptr.length : Int); rw [hbl]; exact b4)]
  set S2 : VSsetfields.St := { S1 with order := S1.vs_usym_order.getD (Int.toNat S1.j) 0, vs_wlist_bptr := (S1.vs_wlist_bptr.set (Int.toNat (S1.vs_wlist_type_i + S1.vs_wlist_n)) (S1.vs_usym_type.getD (Int.toNat S1.j) 0)).set (Int.toNat (S1.vs_wlist_order_i + S1.vs_wlist_n)) (S1.vs_usym_order.getD (Int.toNat S1.j) 0) } with hS2
  have hD := DFKNTsize_native fuel hnt
  have hT2 : S2.vs_usym_type.getD (Int.toNat S2.j) 0 = (sd.type : Int) := hT
  rw [l2C_spec fuel S2 ⟨h1, h2, h3⟩ lj2 (by rw [hT2]; omega) (nt.nsz : Int) (by rw [hT2]; exact hD)
    (by show _ ∧ _ < (((s.vs_wlist_bptr.set _ _).set _ _).length : Int); rw [List.length_set, List.length_set, hbl]; exact b5)]
  have hord2 : S2.order = (sd.order : Int) := hO
  have hne : ¬ (S2.order * (nt.nsz : Int) = -1) := by
    rw [hord2]
    have : (0 : Int) ≤ (sd.order : Int) * (nt.nsz : Int) := Int.mul_nonneg (by omega) (by omega)
    omega
  rw [if_neg hne]
  set S3 : VSsetfields.St := { S2 with value := S2.order * (nt.nsz : Int), vs_wlist_bptr := S2.vs_wlist_bptr.set (Int.toNat (S2.vs_wlist_esize_i + S2.vs_wlist_n)) ((S2.order * (nt.nsz : Int)) % 65536) } with hS3
  rw [l2D_spec fuel S3 ⟨h1, h2, h3⟩ lj3
    (by show _ ∧ _ < ((((s.vs_wlist_bptr.set _ _).set _ _).set _ _).length : Int); rw [List.length_set, List.length_set, List.length_set, hbl]; exact b3)]
  have hmul : S3.order * S3.vs_usym_isize.getD (Int.toNat S3.j) 0 = ((isz : Nat) : Int) := by
    show s.vs_usym_order.getD (Int.toNat s.j) 0 * s.vs_usym_isize.getD (Int.toNat s.j) 0 = _
    rw [hO, hI, hisz]; push_cast; rfl
  rw [hmul]
  by_cases g1 : isz > 65535
  · have e : ((isz : Nat) : Int) > 65535 := by omega
    simp only [if_pos e]
    rw [if_pos (Or.inl g1)]
    exact ⟨rfl, h2, rfl, rfl, rfl, rfl⟩
  · have e : ¬ (((isz : Nat) : Int) > 65535) := by omega
    simp only [if_neg e]
    set S4 : VSsetfields.St := { S3 with value := ((isz : Nat) : Int), vs_wlist_bptr := S3.vs_wlist_bptr.set (Int.toNat (S3.vs_wlist_isize_i + S3.vs_wlist_n)) (((isz : Nat) : Int) % 65536) } with hS4
    have hlen4 : S4.vs_wlist_bptr.length = 5 * ac := by
      show ((((s.vs_wlist_bptr.set _ _).set _ _).set _ _).set _ _).length = _
      simp [hbl]
    rw [l2E_spec fuel S4 ⟨h1, h2, h3⟩ (by show _ ∧ _ < (S4.vs_wlist_bptr.length : Int); rw [hlen4]; exact b3)]
    have hmod : ((isz : Nat) : Int) % 65536 = ((isz : Nat) : Int) := by omega
    have hcell : S4.vs_wlist_bptr.getD (Int.toNat (S4.vs_wlist_isize_i + S4.vs_wlist_n)) 0 = ((isz : Nat) : Int) := by
      show (S3.vs_wlist_bptr.set (Int.toNat (s.vs_wlist_isize_i + s.vs_wlist_n)) (((isz : Nat) : Int) % 65536)).getD (Int.toNat (s.vs_wlist_isize_i + s.vs_wlist_n)) 0 = _
      rw [hmod, getD_set_self]
      show _ < (((s.vs_wlist_bptr.set _ _).set _ _).set _ _).length
      simp [hbl]; omega
    have hiv4 : S4.vs_wlist_ivsize = (iv : Int) := hiv
    rw [hcell, hiv4]
    by_cases g2 : iv + isz > 65535
    · have e2 : (iv : Int) + ((isz : Nat) : Int) > 65535 := by omega
      simp only [if_pos e2]
      rw [if_pos (Or.inr g2)]
      exact ⟨rfl, h2, rfl, rfl, rfl, rfl⟩
    · have e2 : ¬ ((iv : Int) + ((isz : Nat) : Int) > 65535) := by omega
      simp only [if_neg e2]
      have e3 : ¬ (isz > 65535 ∨ iv + isz > 65535) := by omega
      rw [if_neg e3]
      have hmod2 : ((iv : Int) + ((isz : Nat) : Int)) % 65536 = ((iv + isz : Nat) : Int) := by omega
      rw [hmod2]
      have e5 : ((sd.order : Int) * (nt.nsz : Int)) = ((sd.order * nt.nsz : Nat) : Int) := by push_cast; rfl
      have e6 : (iv : Int) + ((isz : Nat) : Int) = ((iv + isz : Nat) : Int) := by push_cast; rfl
      simp only [hS4, hS3, hS2, hS1, hO, hT, hkn, i1, i3, i4, i5, hmod, e5, e6, cstr]
      rw [hk]

/-- the generated tables of `rstab[]` and the model's `rstab` agree; every reserved symbol has order 1 and 4 bytes -/
theorem rstab_rows : RSTAB_NAME.length = 9 ∧ RSTAB_TYPE.length = 9 ∧ RSTAB_ISIZE.length = 9 ∧ RSTAB_ORDER.length = 9 ∧ rstab.length = 9 ∧
    ∀ j < 9, RSTAB_NAME.getD j [] = cstr (rstab.getD j default).name ∧ NameOK (rstab.getD j default).name ∧
      RSTAB_TYPE.getD j 0 = (rstab.getD j default).type ∧ RSTAB_ISIZE.getD j 0 = (rstab.getD j default).isize ∧
      RSTAB_ORDER.getD j 0 = (rstab.getD j default).order ∧ 1 ≤ (rstab.getD j default).order ∧
      (rstab.getD j default).order * (rstab.getD j default).isize < 65536 := by decide

theorem DFKNTsize_native' (fuel : Nat) {t : Nat} {nt : NT} (h : ntInfo t = some nt) :
    DFKNTsize fuel (((t ||| 4096 : Nat) : Int)) = ⟨((t ||| 4096 : Nat) : Int), false, false, (nt.nsz : Int), true⟩ := by
  have := DFKNTsize_native fuel h
  simpa using this

/-- the reserved-symbol branch for `sd = rstab[j0]` as field number `k` of `ac`: refused when the record gets larger than
    `MAX_FIELD_SIZE` (test added by commit fef3f30) -/
theorem l3A_run (fuel : Nat) (s : VSsetfields.St) (hcl : SfClean s) (ac k j0 iv : Nat) (nt : NT)
    (hk : s.vs_wlist_n = k) (hkac : k < ac)
    (c1 : s.vs_wlist_type_i = 0) (c3 : s.vs_wlist_isize_i = 2 * ac) (c4 : s.vs_wlist_order_i = 3 * ac) (c5 : s.vs_wlist_esize_i = 4 * ac)
    (hbl : s.vs_wlist_bptr.length = 5 * ac) (hnl : s.vs_wlist_name.length = ac)
    (hj : s.j = j0) (hj0 : j0 < 9)
    (hnt : ntInfo (rstab.getD j0 default).type = some nt)
    (hiv : s.vs_wlist_ivsize = iv) :
    if iv + (rstab.getD j0 default).order * (rstab.getD j0 default).isize % 65536 > 65535 then SfFailed s (l3A fuel s)
    else l3A fuel s = { s with found := 1, vs_wlist_name := s.vs_wlist_name.set k (cstr (rstab.getD j0 default).name), order := (rstab.getD j0 default).order, value := ((iv + (rstab.getD j0 default).order * (rstab.getD j0 default).isize % 65536 : Nat) : Int), vs_wlist_bptr := (((s.vs_wlist_bptr.set k ((rstab.getD j0 default).type : Int)).set (3 * ac + k) ((rstab.getD j0 default).order : Int)).set (4 * ac + k) ((((rstab.getD j0 default).order * nt.nsz : Nat) : Int) % 65536)).set (2 * ac + k) (((rstab.getD j0 default).order * (rstab.getD j0 default).isize % 65536 : Nat) : Int), vs_wlist_ivsize := ((iv + (rstab.getD j0 default).order * (rstab.getD j0 default).isize % 65536 : Nat) : Int), vs_wlist_n := (k : Int) + 1, brk := true } := by
  obtain ⟨r1, r2, r3, r4, r5, rr⟩ := rstab_rows
  obtain ⟨q1, q2, q3, q4, q5, q6, q7⟩ := rr j0 hj0
  obtain ⟨sd, hsd⟩ : ∃ x, x = rstab.getD j0 default := ⟨_, rfl⟩
  rw [← hsd] at hnt q1 q2 q3 q4 q5 q6 q7 ⊢
  obtain ⟨isz, hisz⟩ : ∃ x, x = sd.order * sd.isize % 65536 := ⟨_, rfl⟩
  rw [← hisz]
  obtain ⟨h1, h2, h3⟩ := hcl
  have hnz : 1 ≤ nt.nsz := by have := ntInfo_valid hnt; omega
  have hjt : Int.toNat s.j = j0 := by omega
  have hrow : RSTAB_NAME.getD (Int.toNat s.j) [] = chars sd.name ++ 0 :: [] := by rw [hjt, q1]; rfl
  have hO : RSTAB_ORDER.getD (Int.toNat s.j) 0 = sd.order := by rw [hjt, q5]
  have hT : RSTAB_TYPE.getD (Int.toNat s.j) 0 = sd.type := by rw [hjt, q3]
  have hI : RSTAB_ISIZE.getD (Int.toNat s.j) 0 = sd.isize := by rw [hjt, q4]
  have lj1 : 0 ≤ s.j ∧ s.j < (RSTAB_NAME.length : Int) := by rw [r1]; omega
  have lj2 : 0 ≤ s.j ∧ s.j < (RSTAB_TYPE.length : Int) := by rw [r2]; omega
  have lj3 : 0 ≤ s.j ∧ s.j < (RSTAB_ISIZE.length : Int) := by rw [r3]; omega
  have lj4 : 0 ≤ s.j ∧ s.j < (RSTAB_ORDER.length : Int) := by rw [r4]; omega
  have hkn : Int.toNat s.vs_wlist_n = k := by omega
  have i1 : Int.toNat (s.vs_wlist_type_i + s.vs_wlist_n) = k := by omega
  have i3 : Int.toNat (s.vs_wlist_isize_i + s.vs_wlist_n) = 2 * ac + k := by omega
  have i4 : Int.toNat (s.vs_wlist_order_i + s.vs_wlist_n) = 3 * ac + k := by omega
  have i5 : Int.toNat (s.vs_wlist_esize_i + s.vs_wlist_n) = 4 * ac + k := by omega
  have b1 : 0 ≤ s.vs_wlist_type_i + s.vs_wlist_n ∧ s.vs_wlist_type_i + s.vs_wlist_n < (5 * ac : Nat) := by omega
  have b3 : 0 ≤ s.vs_wlist_isize_i + s.vs_wlist_n ∧ s.vs_wlist_isize_i + s.vs_wlist_n < (5 * ac : Nat) := by omega
  have b4 : 0 ≤ s.vs_wlist_order_i + s.vs_wlist_n ∧ s.vs_wlist_order_i + s.vs_wlist_n < (5 * ac : Nat) := by omega
  have b5 : 0 ≤ s.vs_wlist_esize_i + s.vs_wlist_n ∧ s.vs_wlist_esize_i + s.vs_wlist_n < (5 * ac : Nat) := by omega
  rw [l3A_spec fuel s ⟨h1, h2, h3⟩ (by omega) lj1 (chars sd.name) [] hrow (chars_ok q2)]
  set S1 : VSsetfields.St := { s with found := 1, vs_wlist_name := s.vs_wlist_name.set (Int.toNat s.vs_wlist_n) (chars sd.name ++ [0]) } with hS1
  rw [l3B_spec fuel S1 ⟨h1, h2, h3⟩ lj4 lj2 sd.order sd.type hO hT (by show _ ∧ _ < (s.vs_wlist_bptr.length : Int); rw [hbl]; exact b1)
    (by show _ ∧ _ < (s.vs_wlist_bptr.length : Int); rw [hbl]; exact b4)]
  set S2 : VSsetfields.St := { S1 with order := (sd.order : Int), vs_wlist_bptr := (S1.vs_wlist_bptr.set (Int.toNat (S1.vs_wlist_type_i + S1.vs_wlist_n)) (sd.type : Int)).set (Int.toNat (S1.vs_wlist_order_i + S1.vs_wlist_n)) (sd.order : Int) } with hS2
  rw [l3C_spec fuel S2 ⟨h1, h2, h3⟩ lj2 sd.type hT (nt.nsz : Int) (DFKNTsize_native' fuel hnt)
    (by show _ ∧ _ < (((s.vs_wlist_bptr.set _ _).set _ _).length : Int); rw [List.length_set, List.length_set, hbl]; exact b5)]
  have hne : ¬ (S2.order * (nt.nsz : Int) = -1) := by
    show ¬ ((sd.order : Int) * (nt.nsz : Int) = -1)
    have : (0 : Int) ≤ (sd.order : Int) * (nt.nsz : Int) := Int.mul_nonneg (by omega) (by omega)
    omega
  rw [if_neg hne]
  set S3 : VSsetfields.St := { S2 with value := S2.order * (nt.nsz : Int), vs_wlist_bptr := S2.vs_wlist_bptr.set (Int.toNat (S2.vs_wlist_esize_i + S2.vs_wlist_n)) ((S2.order * (nt.nsz : Int)) % 65536) } with hS3
  rw [l3D_spec fuel S3 ⟨h1, h2, h3⟩ lj3 sd.isize hI
    (by show _ ∧ _ < ((((s.vs_wlist_bptr.set _ _).set _ _).set _ _).length : Int); rw [List.length_set, List.length_set, List.length_set, hbl]; exact b3)]
  have hmul : (S3.order * (sd.isize : Int)) % 65536 = ((isz : Nat) : Int) := by
    show ((sd.order : Int) * (sd.isize : Int)) % 65536 = _
    rw [hisz]; push_cast; rfl
  rw [hmul]
  set S4 : VSsetfields.St := { S3 with vs_wlist_bptr := S3.vs_wlist_bptr.set (Int.toNat (S3.vs_wlist_isize_i + S3.vs_wlist_n)) ((isz : Nat) : Int) } with hS4
  have hlen4 : S4.vs_wlist_bptr.length = 5 * ac := by
    show ((((s.vs_wlist_bptr.set _ _).set _ _).set _ _).set _ _).length = _
    simp [hbl]
  rw [l3E_spec fuel S4 ⟨h1, h2, h3⟩ (by show _ ∧ _ < (S4.vs_wlist_bptr.length : Int); rw [hlen4]; exact b3)]
  have hcell : S4.vs_wlist_bptr.getD (Int.toNat (S4.vs_wlist_isize_i + S4.vs_wlist_n)) 0 = ((isz : Nat) : Int) := by
    show (S3.vs_wlist_bptr.set (Int.toNat (s.vs_wlist_isize_i + s.vs_wlist_n)) ((isz : Nat) : Int)).getD (Int.toNat (s.vs_wlist_isize_i + s.vs_wlist_n)) 0 = _
    rw [getD_set_self]
    show _ < (((s.vs_wlist_bptr.set _ _).set _ _).set _ _).length
    simp [hbl]; omega
  have hiv4 : S4.vs_wlist_ivsize = (iv : Int) := hiv
  rw [hcell, hiv4]
  by_cases g2 : iv + isz > 65535
  · have e2 : (iv : Int) + ((isz : Nat) : Int) > 65535 := by omega
    simp only [if_pos e2]
    rw [if_pos g2]
    exact ⟨rfl, h2, rfl, rfl, rfl, rfl⟩
  · have e2 : ¬ ((iv : Int) + ((isz : Nat) : Int) > 65535) := by omega
    simp only [if_neg e2]
    rw [if_neg g2]
    have hmod2 : ((iv : Int) + ((isz : Nat) : Int)) % 65536 = ((iv + isz : Nat) : Int) := by omega
    rw [hmod2]
    have e5 : ((sd.order : Int) * (nt.nsz : Int)) = ((sd.order * nt.nsz : Nat) : Int) := by push_cast; rfl
    have e6 : (iv : Int) + ((isz : Nat) : Int) = ((iv + isz : Nat) : Int) := by push_cast; rfl
    simp only [hS4, hS3, hS2, hS1, hkn, i1, i3, i4, i5, e5, e6, cstr]
    rw [hk]
end H4.Lemmas.C07Fld
