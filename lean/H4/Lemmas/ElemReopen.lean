import H4.Lemmas.ElemOpsOpen
/-! `Hclose` followed by `Hopen`: nothing an element consists of is lost (`reopen_preserves`). -/
namespace H4.Elem
open H4.Gen.Hdf

theorem rd_padTo (d : Bytes) (n x : Nat) : rd (padTo d n) x = rd d x := by
  unfold padTo
  simp only [rd_eq, List.getElem?_append]
  split
  · rfl
  · rename_i h
    rw [List.getElem?_eq_none (Nat.le_of_not_lt h)]
    simp only [zeros, List.getElem?_replicate]
    split <;> rfl

theorem foldl_pad_rd (l : List Nat) (g : Nat → Bool) (o : Nat → Nat) (d : Bytes) (x : Nat) :
    rd (l.foldl (fun d b => if g b then padTo d (o b) else d) d) x = rd d x := by
  induction l generalizing d with
  | nil => rfl
  | cons b bs ih =>
    simp only [List.foldl_cons]
    rw [ih]
    split
    · exact rd_padTo _ _ _
    · rfl

/-- `HIsync`: after it the on-disk DD image is the DD list; no byte an element reads has changed -/
theorem sync_spec (f : File) (hw : WFF f) (hc : Coh f) :
    f.sync.mem = f.mem ∧ f.sync.dsk = f.mem ∧ (∀ x, rd f.sync.disk x = rd f.disk x) ∧ f.sync.links = f.links ∧
    f.sync.endOff = f.endOff ∧ f.sync.ndds = f.ndds ∧ f.sync.blkOff = f.blkOff ∧ f.sync.present = f.present ∧
    f.sync.blkDirty.length = f.blkDirty.length := by
  have hall : (List.range f.mem.length).map (fun i => if f.blkDirty.getD (i / f.ndds) false then f.dd i else f.dsk.getD i nilDD) = f.mem := by
    apply List.ext_getElem?
    intro i
    simp only [List.getElem?_map]
    by_cases hi : i < f.mem.length
    · rw [List.getElem?_range hi]
      simp only [Option.map_some]
      have hm : f.mem[i]? = some (f.dd i) := by simp [dd_def, hi]
      rw [hm]
      by_cases hd : f.blkDirty.getD (i / f.ndds) false = true
      · rw [if_pos hd]
      · have : f.blkDirty.getD (i / f.ndds) false = false := by simpa using hd
        simp only [this, Bool.false_eq_true, if_false]
        rw [hc.dirty_ok i hi this]
    · rw [List.getElem?_eq_none (by simp; omega : (List.range f.mem.length).length ≤ i), List.getElem?_eq_none (by omega)]
      rfl
  unfold File.sync
  split
  · refine ⟨rfl, hall, ?_, rfl, rfl, rfl, rfl, rfl, by simp⟩
    intro x
    simp only
    split
    · rw [rd_diskWrite]
      split
      · rename_i h
        simp at h
        have : x = f.endOff := by omega
        rw [hw.tail0 x (by omega)]
        simp [this]
      · exact foldl_pad_rd _ _ _ _ _
    · exact foldl_pad_rd _ _ _ _ _
  · rename_i hnd
    refine ⟨rfl, ?_, fun _ => rfl, rfl, rfl, rfl, rfl, rfl, rfl⟩
    -- nothing is dirty: the image already matches
    have hclean : ∀ b, f.blkDirty.getD b false = false := by
      intro b
      have h1 : ¬ (f.blkDirty.any id = true) := by
        intro h2; apply hnd; simp [hc.cache, h2]
      cases hb : f.blkDirty.getD b false with
      | false => rfl
      | true =>
        exfalso; apply h1
        rw [List.any_eq_true]
        by_cases hbl : b < f.blkDirty.length
        · refine ⟨f.blkDirty[b], List.getElem_mem hbl, ?_⟩
          simp [List.getD_eq_getElem?_getD, hbl] at hb
          simpa using hb
        · simp [List.getD_eq_getElem?_getD, List.getElem?_eq_none (Nat.le_of_not_lt hbl)] at hb
    apply List.ext_getElem?
    intro i
    by_cases hi : i < f.mem.length
    · have hm : f.mem[i]? = some (f.dd i) := by simp [dd_def, hi]
      have hd := hc.dirty_ok i hi (hclean _)
      have hil : i < f.dsk.length := by rw [hc.dsk_len]; exact hi
      simp only [List.getD_eq_getElem?_getD, hil, List.getElem?_eq_getElem, Option.getD_some] at hd
      rw [hm, List.getElem?_eq_getElem hil, hd]
    · rw [List.getElem?_eq_none (by rw [hc.dsk_len]; omega), List.getElem?_eq_none (by omega)]

end H4.Elem

namespace H4.Elem
open H4.Gen.Hdf

theorem foldl_max_ext_mono (l : List DD) (a : Nat) :
    a ≤ l.foldl (fun m d => match d.ext with | some (o, n) => max m (o + n) | none => m) a := by
  induction l generalizing a with
  | nil => exact Nat.le_refl _
  | cons d ds ih =>
    simp only [List.foldl_cons]
    refine Nat.le_trans ?_ (ih _)
    cases d.ext with
    | none => exact Nat.le_refl _
    | some e => obtain ⟨o, n⟩ := e; simp only; omega

theorem foldl_max_ext_ge (l : List DD) (a : Nat) (d : DD) (hd : d ∈ l) (o n : Nat) (he : d.ext = some (o, n)) :
    o + n ≤ l.foldl (fun m d => match d.ext with | some (o, n) => max m (o + n) | none => m) a := by
  induction l generalizing a with
  | nil => simp at hd
  | cons x xs ih =>
    simp only [List.foldl_cons, List.mem_cons] at hd ⊢
    rcases hd with rfl | hd
    · refine Nat.le_trans ?_ (foldl_max_ext_mono xs _)
      rw [he]; simp only; omega
    · exact ih _ hd

/-- `HTPstart`'s `f_end_off` covers every DD's extent -/
theorem endOffOf_ge (ndds : Nat) (blk : List Nat) (l : List DD) (i o n : Nat) (hi : i < l.length) (he : (l.getD i nilDD).ext = some (o, n)) :
    o + n ≤ endOffOf ndds blk l := by
  unfold endOffOf
  apply foldl_max_ext_ge l _ (l.getD i nilDD) _ o n he
  simp only [List.getD_eq_getElem?_getD, hi, List.getElem?_eq_getElem, Option.getD_some]
  exact List.getElem_mem hi

/-- a well-formed DD list registers no tag/ref twice: `HTPstart` will not see `DFE_DUPDD` -/
theorem dupDDs_false (f : File) (hw : WFF f) : dupDDs f.mem = false := by
  cases h : dupDDs f.mem with
  | false => rfl
  | true =>
    exfalso
    unfold dupDDs at h
    rw [List.any_eq_true] at h
    obtain ⟨i, _, h⟩ := h
    rw [List.any_eq_true] at h
    obtain ⟨j, _, h⟩ := h
    simp only [Bool.and_eq_true, decide_eq_true_eq, bne_iff_ne, ne_eq, beq_iff_eq] at h
    obtain ⟨⟨⟨⟨hij, hi⟩, hj⟩, ht⟩, hr⟩ := h
    have := hw.uniq i j hi hj ht hr
    omega

/-- **`reopen_preserves`**: `Hclose` (which flushes the DD list) followed by `Hopen` gives a well-formed file in which
    every element is the same byte string as before — provided nothing but zeros lies beyond the end of file that
    `HTPstart` recomputes from the DDs (it does not after `Htrunc` of the last element: finding F20) -/
theorem reopen_preserves (f : File) (hw : WFE f) (hc : Coh f) (wr : Bool)
    (hz : ∀ k, endOffOf f.ndds f.blkOff f.mem ≤ k → rd f.disk k = 0) :
    ∃ g, f.sync.reopen wr = some g ∧ WFE g ∧ Coh g ∧ (∀ t r, g.elem t r = f.elem t r) ∧ g.present = f.present ∧
      g.isOpen = true := by
  obtain ⟨s1, s2, s3, s4, s5, s6, s7, s8, s9⟩ := sync_spec f hw.toWFF hc
  have hdup : dupDDs f.sync.dsk = false := by rw [s2]; exact dupDDs_false f hw.toWFF
  have hre : ∃ g, f.sync.reopen wr = some g ∧ g.mem = f.sync.dsk ∧ g.disk = f.sync.disk ∧ g.links = f.sync.links ∧
      g.endOff = endOffOf f.sync.ndds f.sync.blkOff f.sync.dsk ∧ g.ndds = f.sync.ndds ∧ g.present = f.sync.present ∧
      g.isOpen = true ∧ g.cache = true ∧ g.dsk = f.sync.dsk ∧ g.blkDirty = f.sync.blkDirty.map (fun _ => false) := by
    unfold File.reopen
    rw [hdup]
    exact ⟨_, rfl, rfl, rfl, rfl, rfl, rfl, rfl, rfl, rfl, rfl, rfl⟩
  obtain ⟨g, hgo, g1, g2, g3, g4, g5, g6, g7, g8, g9, g10⟩ := hre
  refine ⟨g, hgo, ?_⟩
  have gmem : g.mem = f.mem := by rw [g1]; exact s2
  have gdd : ∀ j, g.dd j = f.dd j := by intro j; simp only [File.dd, gmem]
  have grd : ∀ x, rd g.disk x = rd f.disk x := by intro x; rw [g2]; exact s3 x
  have glinks : g.links = f.links := by rw [g3]; exact s4
  have gend : g.endOff = endOffOf f.ndds f.blkOff f.mem := by rw [g4, s6, s7, s2]
  have glive : ∀ j, g.live j ↔ f.live j := by intro j; unfold File.live; rw [gdd]
  have hw' : WFF g := by
    refine ⟨by rw [g5, s6]; exact hw.ndds_pos, ?_, ?_, ?_, ?_⟩
    · intro j o l hj he
      rw [gdd] at he
      rw [gend]
      have hjl := live_lt f j ((glive j).mp hj)
      exact endOffOf_ge _ _ _ j o l hjl (by simpa [File.dd] using he)
    · intro a b oa la ob lb hab ha hb hea heb
      rw [gdd] at hea heb
      exact hw.disj a b oa la ob lb hab ((glive a).mp ha) ((glive b).mp hb) hea heb
    · intro k hk; rw [grd]; rw [gend] at hk; exact hz k hk
    · intro a b ha hb ht hr
      rw [gdd, gdd] at ht hr
      exact hw.uniq a b ((glive a).mp ha) ((glive b).mp hb) ht hr
  have hframe : ∀ j, f.live j → g.slotBytes j = f.slotBytes j := by
    intro j hj
    apply slotBytes_frame hw hw' j hj (T := fun _ => False)
    · intro x _ _; exact gdd x
    · exact link_of_links glinks _
    · intro x _ _; exact grd x
    · exact fun h => h
    · intro _ _ _ _ _ h; exact h
  refine ⟨⟨hw', ?_, ?_, ?_⟩, ?_, ?_, by rw [g6]; exact s8, g7⟩
  · intro s hs hsp
    rw [gdd] at hsp
    obtain ⟨li, ho, hl, h1, h2, h3, h4⟩ := hw.linked_ok s ((glive s).mp hs) hsp
    refine ⟨li, ho, hl, by rw [keyOf_eq (gdd s), link_of_links glinks]; exact h1, ?_, by rw [gdd]; exact h3, h4⟩
    exact h2.frame hw' (fun j _ => gdd j) (fun _ _ o _ r _ _ _ => grd (o + r))
  · intro s hs hsp
    rw [gdd] at hsp ⊢
    exact hw.hdr_tag s ((glive s).mp hs) hsp
  · intro s1' s2' l1 l2 j h1 hs1 h2 hs2 hk1 hk2 hb1 hb2
    rw [gdd] at hs1 hs2
    rw [keyOf_eq (gdd s1'), link_of_links glinks] at hk1
    rw [keyOf_eq (gdd s2'), link_of_links glinks] at hk2
    have tr : ∀ (li : LinkInfo), g.blockSlotOf li j → f.blockSlotOf li j := by
      intro li ⟨t, idx, h0, hk⟩
      exact ⟨t, idx, h0, by unfold File.hasKey File.live at *; rw [← gdd]; exact hk⟩
    exact hw.own s1' s2' l1 l2 j ((glive s1').mp h1) hs1 ((glive s2').mp h2) hs2 hk1 hk2 (tr l1 hb1) (tr l2 hb2)
  · -- Coh
    have gdsk : g.dsk = g.mem := by rw [g9, g1]
    refine ⟨g8, by rw [g5, s6]; exact hw.ndds_pos, by rw [gdsk], ?_, ?_⟩
    · rw [gmem, g10, g5, List.length_map, s9, s6]; exact hc.dirty_len
    · intro i _ _
      rw [gdsk]; rfl
  · intro t r
    apply elem_frame hw.toWFF hw'
    · intro j; exact hasKey_congr (by rw [gdd]) (by rw [gdd])
    · intro j hk; exact hframe j hk.1

end H4.Elem
