import H4.Lemmas.ElemOpsMisc
/-! `Hstartaccess`, `Hstartwrite`. -/
namespace H4.Elem
open H4.Gen.Hdf

theorem file_lt_of_open (w : World) (i : Nat) (h : (w.file i).isOpen = true) : i < w.files.length := by
  by_cases hi : i < w.files.length
  · exact hi
  · exfalso
    have : w.file i = {} := by simp [file_def, List.getElem?_eq_none (Nat.le_of_not_lt hi)]
    rw [this] at h
    exact absurd h (by decide)

theorem default_blk : 1 ≤ HDF_APPENDABLE_BLOCK_LEN ∧ 1 ≤ HDF_APPENDABLE_BLOCK_NUM := by decide

theorem userKey_base {k : Nat × Nat} (hu : UserKey k) : baseTag k.1 = k.1 := baseTag_not_special _ hu.1

/-- adding an access record `h` (not in use) on slot `s` of file `fi`, whose attach counter goes up -/
theorem open_handle_ok (w : World) (hw : WFW w) (h fi : Nat) (hnone : w.acc h = none) (hfi : fi < w.files.length)
    (a : Acc) (haf : a.file = fi) (hposn : a.posn = 0)
    (hH : (w.file fi).live a.slot ∧ UserKey ((w.file fi).keyOf a.slot) ∧ a.special = isSpecial ((w.file fi).dd a.slot).tag ∧
      (a.special = false → ((w.file fi).dd a.slot).ext = none → a.newElem = true) ∧ (a.special = true → a.newElem = false) ∧
      (1 ≤ a.blockSize ∧ 1 ≤ a.numBlocks)) :
    let w' := (w.setFile fi { w.file fi with attach := (w.file fi).attach + 1 }).setAcc h a
    WFW w' ∧ ((abs w).setHnd h (some { file := fi, key := (w.file fi).keyOf a.slot, pos := 0 })).Eqv (abs w') := by
  intro w'
  have hww : WFW w' := by
    apply hw.update fi hfi _ ((hw.files fi).attach _) (coh_attach (hw.coh fi) _) h a haf
    · exact hH
    · intro _ _ _ _ _; exact ⟨rfl, rfl, id⟩
  refine ⟨hww, ?_⟩
  have := abs_update hw fi hfi { w.file fi with attach := (w.file fi).attach + 1 } ((hw.files fi).attach _).toWFF h a haf
    ((w.file fi).keyOf a.slot) ((w.file fi).elem ((w.file fi).keyOf a.slot).1 ((w.file fi).keyOf a.slot).2) rfl rfl
    (fun _ _ _ => rfl) (fun _ _ _ _ _ => rfl)
  rw [hposn] at this
  exact Eqv.trans (Eqv.setHnd (Eqv.symm (setElem_same (abs w) fi _ _ rfl)) h _) this

theorem stepOK_startaccess (w : World) (hw : WFW w) (h fi tag ref : Nat) (wr app : Bool)
    (hsafe : OpSafe w (.startaccess h fi tag ref wr app)) : StepOK w (.startaccess h fi tag ref wr app) := by
  obtain ⟨hnone, hu⟩ := hsafe
  by_cases hop' : (w.file fi).isOpen = false
  · exact stepOK_fail_same w hw _ (by simp only [step, hstartaccess]; rw [if_pos (by simp [hop'])])
  have hop : (w.file fi).isOpen = true := by simpa using hop'
  have hfi := file_lt_of_open w fi hop
  by_cases hwrt : (wr && !(w.file fi).writable) = true
  · exact stepOK_fail_same w hw _ (by simp only [step, hstartaccess]; rw [if_neg (by simp [hop]), if_pos hwrt])
  have hE := hw.files fi
  have hbase : baseTag tag = tag := userKey_base hu
  cases hsel : (w.file fi).select tag ref with
  | none =>
    by_cases hwr' : wr = false
    · exact stepOK_fail_same w hw _ (by
        simp only [step, hstartaccess]; rw [if_neg (by simp [hop]), if_neg hwrt]; simp only [hsel]
        rw [if_pos (by simp [hwr'])])
    have hwr : wr = true := by simpa using hwr'
    -- a new DD without data
    have hfresh : ∀ j, ¬ (w.file fi).hasKey j tag ref := select_none _ _ _ hsel
    have C := ddCreate_spec (w.file fi) tag ref hE.ndds_pos hE.tail0
    have W1 := C.wff hE.toWFF hu.2.2.1 hfresh
    have hC1 := coh_ddCreate (hw.coh fi) tag ref
    generalize hc : (w.file fi).ddCreate tag ref = c at C W1 hC1
    obtain ⟨f1, i⟩ := c
    simp only at C W1 hC1
    have hstep : step w (.startaccess h fi tag ref wr app) =
        ((w.setFile fi { f1 with attach := f1.attach + 1 }).setAcc h
          { file := fi, slot := i, appendable := app, newElem := true, canWrite := wr }, .ok) := by
      simp only [step, hstartaccess]
      rw [if_neg (by simp [hop]), if_neg hwrt]
      simp only [hsel]
      rw [if_neg (by simp [hwr])]
      simp only [hc]
    have hnl : ¬ (w.file fi).live i := fun hl => hl C.was_free
    have hlive1 : ∀ j, f1.live j ↔ ((w.file fi).live j ∨ j = i) := by
      intro j; unfold File.live
      by_cases e : j = i
      · subst e; rw [C.dd_new]; simp; exact hu.2.2.1
      · rw [C.dd_keep j e]; simp [e]
    obtain ⟨E1, hfr1⟩ := hE.plain_step W1 i (fun x _ hne => C.dd_keep x hne)
      (by rw [C.dd_new]; exact ⟨hu.1, by rw [hbase]; exact hu.2.1⟩) (fun hl => absurd hl hnl)
      (fun x hx1 hnx => by rcases (hlive1 x).mp hx1 with h1 | h1
                           · exact absurd h1 hnx
                           · exact h1) C.links (fun y _ _ => C.rd_keep y)
    have hkey1 : f1.keyOf i = (tag, ref) := by unfold File.keyOf; rw [C.dd_new]; simp [hbase]
    unfold StepOK
    rw [hstep]
    have hww : WFW ((w.setFile fi { f1 with attach := f1.attach + 1 }).setAcc h
        { file := fi, slot := i, appendable := app, newElem := true, canWrite := wr }) := by
      apply hw.update fi hfi _ (E1.attach _) (coh_attach hC1 _) h _ rfl
      · refine ⟨(hlive1 i).mpr (Or.inr rfl), ?_, ?_, ?_, fun hh => absurd (show false = true from hh) (by decide), default_blk⟩
        · show UserKey (f1.keyOf i); rw [hkey1]; exact hu
        · show false = isSpecial (f1.dd i).tag; rw [C.dd_new]; exact hu.1.symm
        · intro _ _; rfl
      · intro h' a'' _ ha'' ef
        have hl := (hw.handles h' a'' ha'').live
        rw [ef] at hl
        have hne : a''.slot ≠ i := fun e => hnl (e ▸ hl)
        show (f1.dd a''.slot).tag = _ ∧ (f1.dd a''.slot).ref = _ ∧ ((f1.dd a''.slot).ext = none → _)
        rw [C.dd_keep _ hne]; exact ⟨rfl, rfl, id⟩
    refine ⟨hww, ((abs w).setElem fi (tag, ref) (some none)).setHnd h (some { file := fi, key := (tag, ref), pos := 0 }), ?_, ?_⟩
    · have hel : (abs w).elem fi (tag, ref) = none := by rw [abs_elem]; unfold File.elem; rw [hsel]; rfl
      simp only [specStep, hbase, hel, if_true]
    · have := abs_update hw fi hfi { f1 with attach := f1.attach + 1 } (E1.attach _).toWFF h
        { file := fi, slot := i, appendable := app, newElem := true, canWrite := wr } rfl (tag, ref) (some none) C.present
        (by
          have h1 := elem_keyOf f1 W1 i ((hlive1 i).mpr (Or.inr rfl))
          rw [hkey1] at h1
          show f1.elem tag ref = _
          rw [h1, slotBytes_plain _ _ (by rw [C.dd_new]; exact hu.1), C.dd_new]; rfl)
        (by
          intro k' hu' hne
          show f1.elem k'.1 k'.2 = _
          apply elem_frame hE.toWFF W1
          · intro j
            by_cases e : j = i
            · subst e
              constructor
              · intro hk; exact absurd ((keyOf_of_hasKey hu' hk).symm.trans hkey1) hne
              · intro hk; exact absurd hk.1 hnl
            · exact hasKey_congr (by rw [C.dd_keep j e]) (by rw [C.dd_keep j e])
          · intro j hk
            have hji : j ≠ i := fun e => hnl (e ▸ hk.1)
            exact hfr1 j hk.1 hji)
        (by
          intro h' a'' _ ha'' ef
          have hl := (hw.handles h' a'' ha'').live
          rw [ef] at hl
          have hne : a''.slot ≠ i := fun e => hnl (e ▸ hl)
          show f1.keyOf a''.slot = _
          exact keyOf_eq (C.dd_keep _ hne))
      have hk2 : ({ f1 with attach := f1.attach + 1 } : File).keyOf i = (tag, ref) := hkey1
      rw [hk2] at this
      exact this
  | some i =>
    have hk := select_some _ _ _ i hsel
    have hkey : (w.file fi).keyOf i = (tag, ref) := by
      unfold File.keyOf; rw [hk.2.1, hk.2.2, hbase]
    have hel : (abs w).elem fi (tag, ref) = some ((w.file fi).slotBytes i) := by
      rw [abs_elem]; unfold File.elem; rw [hsel]; rfl
    by_cases hsp : isSpecial ((w.file fi).dd i).tag = true
    · obtain ⟨li, ho, hl, hlink, hwl, _, _⟩ := hE.linked_ok i hk.1 hsp
      have hlink' : (w.file fi).link (baseTag ((w.file fi).dd i).tag, ((w.file fi).dd i).ref) = some li := hlink
      have hstep : step w (.startaccess h fi tag ref wr app) =
          ((w.setFile fi { w.file fi with attach := (w.file fi).attach + 1 }).setAcc h
            { file := fi, slot := i, appendable := app, canWrite := wr, special := true,
              blockSize := li.blockLen, numBlocks := li.numBlocks }, .ok) := by
        simp only [step, hstartaccess]
        rw [if_neg (by simp [hop]), if_neg hwrt]
        simp only [hsel]
        rw [if_pos hsp]
        simp only [hlink']
      obtain ⟨hww, heqv⟩ := open_handle_ok w hw h fi hnone hfi
        { file := fi, slot := i, appendable := app, canWrite := wr, special := true, blockSize := li.blockLen, numBlocks := li.numBlocks }
        rfl rfl ⟨hk.1, by rw [hkey]; exact hu, hsp.symm, fun hh => absurd (show true = false from hh) (by decide), fun _ => rfl, hwl.blk_pos, hwl.nb_pos⟩
      unfold StepOK
      rw [hstep]
      refine ⟨hww, _, ?_, by rw [hkey] at heqv; exact heqv⟩
      simp only [specStep, hbase, hel]
      simp
    · have hsp0 : isSpecial ((w.file fi).dd i).tag = false := by simpa using hsp
      have hstep : step w (.startaccess h fi tag ref wr app) =
          ((w.setFile fi { w.file fi with attach := (w.file fi).attach + 1 }).setAcc h
            { file := fi, slot := i, appendable := app, newElem := ((w.file fi).dd i).ext.isNone, canWrite := wr }, .ok) := by
        simp only [step, hstartaccess]
        rw [if_neg (by simp [hop]), if_neg hwrt]
        simp only [hsel]
        rw [if_neg hsp]
      obtain ⟨hww, heqv⟩ := open_handle_ok w hw h fi hnone hfi
        { file := fi, slot := i, appendable := app, newElem := ((w.file fi).dd i).ext.isNone, canWrite := wr }
        rfl rfl ⟨hk.1, by rw [hkey]; exact hu, hsp0.symm, fun _ hx => by
          show ((w.file fi).dd i).ext.isNone = true
          have hx' : ((w.file fi).dd i).ext = none := hx
          rw [hx']; rfl, fun hh => absurd (show false = true from hh) (by decide), default_blk⟩
      unfold StepOK
      rw [hstep]
      refine ⟨hww, _, ?_, by rw [hkey] at heqv; exact heqv⟩
      simp only [specStep, hbase, hel]
      simp

end H4.Elem
