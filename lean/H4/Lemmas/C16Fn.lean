import H4.HPWorld
/-! Lemmas for `H4.Props.C16Fn`: what the TRANSLATED `HPseek` / `HP_write` / `HP_read` (`H4.Gen.Fn.Hfile`, generated from the current
    text of `hdf/src/hfile.c`) compute, for EVERY result of every stdio call they make (`*_spec`: never undefined behaviour, the record
    fields, the requests issued), as closed-form summaries `seekOut` / `writeOut` / `readOut`. -/
namespace H4.Lemmas.C16Fn
open H4.Gen.Fn.Hfile H4.HPIO H4.HPWorld
set_option linter.unusedSimpArgs false
set_option linter.unusedVariables false

theorem hpReadZ_false (h : HP) (n : Nat) (fs fr : Option Fault) : hpReadZ h n false fs fr = hpRead true h n fs fr := by
  unfold hpReadZ hpRead
  split <;> rename_i h1 ok _ <;> cases ok <;> simp <;> cases fr <;> simp

/-- `(int32)` of a `size_t` (two's complement wrap, as every supported target does it) -/
def wrap32 (r : Int) : Int := (r + 2147483648) % 4294967296 - 2147483648

/-- what one `HPseek` does, as far as the C text can tell (`r` = the result of the `fseek` it may issue) -/
structure SOut where
  ret : Int
  cur : Int
  last : Int
  cnt : Int
  newlog : List Int
deriving DecidableEq, Repr

def seekOut (cur last off : Int) (tape : List Int) (cnt : Int) : SOut :=
  let r := tape.getD cnt.toNat 0
  if cur ≠ off ∨ last = 0 then
    if r = 0 then ⟨0, off, 1, cnt + 1, [1, off, r]⟩ else ⟨-1, cur, last, cnt + 1, [1, off, r]⟩
  else ⟨0, cur, last, cnt, []⟩

theorem HPseek_spec (fuel : Nat) (cur last off : Int) (tape : List Int) (cnt : Int) (log : List Int) :
    let s := HPseek fuel cur last off tape cnt log
    let o := seekOut cur last off tape cnt
    s.ub = false ∧ s.oof = false ∧ s.ret = o.ret ∧ s.file_rec_f_cur_off = o.cur ∧ s.file_rec_last_op = o.last ∧
    s.io_cnt = o.cnt ∧ s.io_log = log ++ o.newlog := by
  intro s o
  by_cases h1 : cur ≠ off ∨ last = 0
  · by_cases h2 : tape[cnt.toNat]?.getD 0 = 0
    · simp [s, o, seekOut, HPseek, h1, h2, HPseek.St.set_ret_value, HPseek.St.set_io_cnt, HPseek.St.set_io_log, HPseek.St.set_gto, HPseek.St.set_file_rec_f_cur_off, HPseek.St.set_file_rec_last_op, HPseek.St.set_ret, HPseek.St.set_done]
    · simp [s, o, seekOut, HPseek, h1, h2, HPseek.St.set_ret_value, HPseek.St.set_io_cnt, HPseek.St.set_io_log, HPseek.St.set_gto, HPseek.St.set_file_rec_f_cur_off, HPseek.St.set_file_rec_last_op, HPseek.St.set_ret, HPseek.St.set_done]
  · simp [s, o, seekOut, HPseek, h1, HPseek.St.set_ret_value, HPseek.St.set_io_cnt, HPseek.St.set_io_log, HPseek.St.set_gto, HPseek.St.set_file_rec_f_cur_off, HPseek.St.set_file_rec_last_op, HPseek.St.set_ret, HPseek.St.set_done]

structure WOut where
  ret : Int
  cur : Int
  last : Int
  cnt : Int
  newlog : List Int
  payload : List Int
deriving DecidableEq, Repr

def writeOut (last cur : Int) (buf : List Int) (bytes : Int) (tape : List Int) (cnt : Int) : WOut :=
  let sk : SOut := if last = 3 ∨ last = 0 then seekOut cur 0 cur tape cnt else ⟨0, cur, last, cnt, []⟩
  if sk.ret = -1 then ⟨-1, sk.cur, sk.last, sk.cnt, sk.newlog, []⟩ else
  let r := tape.getD sk.cnt.toNat 0
  let rec_ := sk.newlog ++ [3, bytes, r]
  if bytes = r then ⟨0, sk.cur + bytes, 2, sk.cnt + 1, rec_, buf.take bytes.toNat⟩
  else ⟨-1, sk.cur, 0, sk.cnt + 1, rec_, buf.take bytes.toNat⟩

theorem HP_write_spec (fuel : Nat) (last cur : Int) (buf : List Int) (bytes : Int) (tape : List Int) (cnt : Int) (log out : List Int)
    (hb : 0 ≤ bytes) (hbi : bytes < 2147483648) (hbuf : bytes ≤ buf.length) :
    let s := HP_write fuel last cur buf bytes tape cnt log out
    let o := writeOut last cur buf bytes tape cnt
    s.ub = false ∧ s.oof = false ∧ s.ret = o.ret ∧ s.file_rec_f_cur_off = o.cur ∧ s.file_rec_last_op = o.last ∧
    s.io_cnt = o.cnt ∧ s.io_log = log ++ o.newlog ∧ s.io_out = out ++ o.payload := by
  intro s o
  have hm : bytes % 18446744073709551616 = bytes := by omega
  have hsk := HPseek_spec fuel cur 0 cur tape cnt log
  simp only at hsk
  obtain ⟨k1, k2, k3, k4, k5, k6, k7⟩ := hsk
  have setters := @id True trivial
  by_cases h1 : last = 3 ∨ last = 0
  · by_cases h2 : tape[cnt.toNat]?.getD 0 = 0
    · have e : seekOut cur 0 cur tape cnt = ⟨0, cur, 1, cnt + 1, [1, cur, 0]⟩ := by simp [seekOut, h2]
      rw [e] at k3 k4 k5 k6 k7
      by_cases h3 : bytes = tape[(cnt + 1).toNat]?.getD 0
      · simp [s, o, writeOut, HP_write, HP_write.chk, HP_write.St.join, h1, e, k1, k2, k3, k4, k5, k6, k7, h3.symm, hm, hb, hbuf,
          HP_write.St.set_ret_value, HP_write.St.set_io_cnt, HP_write.St.set_io_log, HP_write.St.set_gto, HP_write.St.set_file_rec_f_cur_off, HP_write.St.set_file_rec_last_op, HP_write.St.set_ret, HP_write.St.set_done, HP_write.St.set_io_out]
      · simp [s, o, writeOut, HP_write, HP_write.chk, HP_write.St.join, h1, e, k1, k2, k3, k4, k5, k6, k7, h3, hm, hb, hbuf,
          HP_write.St.set_ret_value, HP_write.St.set_io_cnt, HP_write.St.set_io_log, HP_write.St.set_gto, HP_write.St.set_file_rec_f_cur_off, HP_write.St.set_file_rec_last_op, HP_write.St.set_ret, HP_write.St.set_done, HP_write.St.set_io_out]
    · have e : seekOut cur 0 cur tape cnt = ⟨-1, cur, 0, cnt + 1, [1, cur, tape[cnt.toNat]?.getD 0]⟩ := by simp [seekOut, h2]
      rw [e] at k3 k4 k5 k6 k7
      simp [s, o, writeOut, HP_write, HP_write.chk, HP_write.St.join, h1, e, k1, k2, k3, k4, k5, k6, k7, hm, hb, hbuf,
          HP_write.St.set_ret_value, HP_write.St.set_io_cnt, HP_write.St.set_io_log, HP_write.St.set_gto, HP_write.St.set_file_rec_f_cur_off, HP_write.St.set_file_rec_last_op, HP_write.St.set_ret, HP_write.St.set_done, HP_write.St.set_io_out]
  · by_cases h3 : bytes = tape[cnt.toNat]?.getD 0
    · simp [s, o, writeOut, HP_write, HP_write.chk, HP_write.St.join, h1, h3.symm, hm, hb, hbuf,
          HP_write.St.set_ret_value, HP_write.St.set_io_cnt, HP_write.St.set_io_log, HP_write.St.set_gto, HP_write.St.set_file_rec_f_cur_off, HP_write.St.set_file_rec_last_op, HP_write.St.set_ret, HP_write.St.set_done, HP_write.St.set_io_out]
    · simp [s, o, writeOut, HP_write, HP_write.chk, HP_write.St.join, h1, h3, hm, hb, hbuf,
          HP_write.St.set_ret_value, HP_write.St.set_io_cnt, HP_write.St.set_io_log, HP_write.St.set_gto, HP_write.St.set_file_rec_f_cur_off, HP_write.St.set_file_rec_last_op, HP_write.St.set_ret, HP_write.St.set_done, HP_write.St.set_io_out]

structure ROut where
  ret : Int
  cur : Int
  last : Int
  cnt : Int
  newlog : List Int
  buf : List Int
  pos : Int
deriving DecidableEq, Repr

/-- the `fread` + `ferror` part of `HP_read`: `r` = what `fread` returned, `e` = what `ferror` answered -/
structure TOut where
  ret : Int
  cur : Int
  last : Int
  buf : List Int
  pos : Int
deriving DecidableEq, Repr

def readTail (cur cache dirty endoff : Int) (buf : List Int) (bytes r e : Int) (inp : List Int) (pos : Int) : TOut :=
  let got := wrap32 r
  let d := (inp.drop pos.toNat).take (min r.toNat bytes.toNat)
  let buf1 := d ++ buf.drop d.length
  if e ≠ 0 ∨ got < 0 ∨ got > bytes then ⟨-1, cur, 0, buf1, pos + d.length⟩
  else if got < bytes then
    if ¬(cache ≠ 0 ∧ Int.ofNat (dirty.toNat &&& 2) ≠ 0) ∨ bytes > endoff - cur then ⟨-1, cur, 0, buf1, pos + d.length⟩
    else ⟨0, cur + bytes, 0, buf1.take got.toNat ++ List.replicate (bytes - got).toNat 0 ++ buf1.drop bytes.toNat, pos + d.length⟩
  else ⟨0, cur + bytes, 3, buf1, pos + d.length⟩

def readOut (last cur cache dirty endoff : Int) (buf : List Int) (bytes : Int) (tape : List Int) (cnt : Int) (inp : List Int) (pos : Int) : ROut :=
  let sk : SOut := if last = 2 ∨ last = 0 then seekOut cur 0 cur tape cnt else ⟨0, cur, last, cnt, []⟩
  if sk.ret = -1 then ⟨-1, sk.cur, sk.last, sk.cnt, sk.newlog, buf, pos⟩ else
  let r := tape.getD sk.cnt.toNat 0
  let e := tape.getD (sk.cnt + 1).toNat 0
  let t := readTail sk.cur cache dirty endoff buf bytes r e inp pos
  ⟨t.ret, t.cur, t.last, sk.cnt + 2, sk.newlog ++ [2, bytes, r, 4, 0, e], t.buf, t.pos⟩

macro "rd_simp" : tactic => `(tactic|
  simp [readOut, readTail, wrap32, HP_read, HP_read.chk, HP_read.St.join, *,
      HP_read.St.set_ret_value, HP_read.St.set_io_cnt, HP_read.St.set_io_log, HP_read.St.set_gto, HP_read.St.set_file_rec_f_cur_off, HP_read.St.set_file_rec_last_op, HP_read.St.set_ret, HP_read.St.set_done, HP_read.St.set_got, HP_read.St.set_buf, HP_read.St.set_io_pos] <;> omega)

set_option hygiene false in
macro "rd_tail" : tactic => `(tactic|
    (by_cases he0 : e = 0
     · by_cases hg0 : g < 0
       · rd_simp
       · by_cases hgb : bytes < g
         · rd_simp
         · by_cases hlt : g < bytes
           · have hm2 : (bytes - g) % 18446744073709551616 = bytes - g := by omega
             by_cases hc : cache = 0
             · rd_simp
             · by_cases hdz : dirty.toNat &&& 2 = 0
               · rd_simp
               · by_cases hef : endoff - cur < bytes
                 · rd_simp
                 · rd_simp
           · rd_simp
     · rd_simp))

theorem HP_read_spec (fuel : Nat) (last cur cache dirty endoff : Int) (buf : List Int) (bytes : Int) (tape : List Int) (cnt : Int)
    (log inp : List Int) (pos : Int)
    (hb : 0 ≤ bytes) (hbi : bytes < 2147483648) (hbuf : bytes ≤ buf.length) (hd : 0 ≤ dirty) :
    let s := HP_read fuel last cur cache dirty endoff buf bytes tape cnt log inp pos
    let o := readOut last cur cache dirty endoff buf bytes tape cnt inp pos
    s.ub = false ∧ s.oof = false ∧ s.ret = o.ret ∧ s.file_rec_f_cur_off = o.cur ∧ s.file_rec_last_op = o.last ∧
    s.io_cnt = o.cnt ∧ s.io_log = log ++ o.newlog ∧ s.buf = o.buf ∧ s.io_pos = o.pos := by
  intro s o
  simp only [s, o]
  clear s o
  have hm : bytes % 18446744073709551616 = bytes := by omega
  have hsk := HPseek_spec fuel cur 0 cur tape cnt log
  simp only at hsk
  obtain ⟨k1, k2, k3, k4, k5, k6, k7⟩ := hsk
  by_cases h1 : last = 2 ∨ last = 0
  · by_cases h2 : tape[cnt.toNat]?.getD 0 = 0
    · have e : seekOut cur 0 cur tape cnt = ⟨0, cur, 1, cnt + 1, [1, cur, 0]⟩ := by simp [seekOut, h2]
      rw [e] at k3 k4 k5 k6 k7
      simp only at k3 k4 k5 k6 k7
      obtain ⟨r, hr⟩ : ∃ r, tape[(cnt + 1).toNat]?.getD 0 = r := ⟨_, rfl⟩
      obtain ⟨e, he⟩ : ∃ e, tape[(cnt + 1 + 1).toNat]?.getD 0 = e := ⟨_, rfl⟩
      obtain ⟨g, hg⟩ : ∃ g, (r + 2147483648) % 4294967296 - 2147483648 = g := ⟨_, rfl⟩
      rd_tail
    · have e : seekOut cur 0 cur tape cnt = ⟨-1, cur, 0, cnt + 1, [1, cur, tape[cnt.toNat]?.getD 0]⟩ := by simp [seekOut, h2]
      rw [e] at k3 k4 k5 k6 k7
      simp only at k3 k4 k5 k6 k7
      rd_simp
  · obtain ⟨r, hr⟩ : ∃ r, tape[cnt.toNat]?.getD 0 = r := ⟨_, rfl⟩
    obtain ⟨e, he⟩ : ∃ e, tape[(cnt + 1).toNat]?.getD 0 = e := ⟨_, rfl⟩
    obtain ⟨g, hg⟩ : ∃ g, (r + 2147483648) % 4294967296 - 2147483648 = g := ⟨_, rfl⟩
    rd_tail
/-! ### constants, conversions, the contract unfolded -/

theorem consts : H4.Gen.Hpio.H4_OP_UNKNOWN = 0 ∧ H4.Gen.Hpio.H4_OP_SEEK = 1 ∧ H4.Gen.Hpio.H4_OP_WRITE = 2 ∧ H4.Gen.Hpio.H4_OP_READ = 3 ∧
    H4.Gen.Hpio.FILE_END_DIRTY = 2 ∧ H4.Gen.Hpio.SEEK_SET_ = 0 := by decide

theorem opc : opCode .unknown = 0 ∧ opCode .seek = 1 ∧ opCode .write = 2 ∧ opCode .read = 3 := by decide

@[simp] theorem toInts_length (bs : List Byte) : (toInts bs).length = bs.length := by simp [toInts]
@[simp] theorem toBytes_toInts (bs : List Byte) : toBytes (toInts bs) = bs := by
  induction bs with
  | nil => rfl
  | cons b bs ih => simp [toBytes, toInts] at ih ⊢; exact ih

@[simp] theorem take_toInts (bs : List Byte) : List.take bs.length (toInts bs) = toInts bs := by
  rw [List.take_of_length_le]; simp
@[simp] theorem take_toInts' (bs : List Byte) : (toInts bs = List.take bs.length (toInts bs)) = True := by simp

theorem wrap32_id (x : Int) (h0 : 0 ≤ x) (h1 : x < 2147483648) : wrap32 x = x := by unfold wrap32; omega

theorem wrap32_small (r b : Int) (h0 : 0 ≤ r) (h1 : r ≤ b) (hb : b < 2147483648) (hw : wrap32 r = b) : r = b := by
  unfold wrap32 at hw; omega

/-- what serving one `fread(n)` + `ferror` pair means (the contract, unfolded) -/
theorem serve_read (w : Stream) (err : Bool) (n : Nat) (r e : Int) (input : List Int) (fr : Option Fault) (w' : Stream) :
    serve w err [cRead, (n : Int), r, cFerror, 0, e] [] input [fr] = some w' ↔
      match fr with
      | none => r = ((min n (w.data.length - w.pos) : Nat) : Int) ∧
                input.take (min n (w.data.length - w.pos)) = toInts ((w.data.drop w.pos).take (min n (w.data.length - w.pos))) ∧
                e = 0 ∧ w' = { w with pos := w.pos + min n (w.data.length - w.pos) }
      | some f => 0 ≤ r ∧ r ≤ n ∧ e ≠ 0 ∧ w' = { w with pos := f.pos } := by
  cases fr <;> simp [serve, cRead, cFerror, cSeek, consts, and_assoc] <;> (intros; constructor <;> (intro h; exact h.symm))

theorem readOut_newlog (last cur cache dirty endoff : Int) (buf : List Int) (bytes : Int) (tape : List Int) (cnt : Int) (inp : List Int) (pos : Int) :
    (readOut last cur cache dirty endoff buf bytes tape cnt inp pos).newlog =
      (let sk : SOut := if last = 2 ∨ last = 0 then seekOut cur 0 cur tape cnt else ⟨0, cur, last, cnt, []⟩
       if sk.ret = -1 then sk.newlog else sk.newlog ++ [2, bytes, tape.getD sk.cnt.toNat 0, 4, 0, tape.getD (sk.cnt + 1).toNat 0]) := by
  unfold readOut
  simp only []
  repeat' (first | rfl | split)

theorem readTail_last (cur cache dirty endoff : Int) (buf : List Int) (bytes r e : Int) (inp : List Int) (pos : Int) :
    let t := readTail cur cache dirty endoff buf bytes r e inp pos
    t.last ≠ 0 → e = 0 ∧ wrap32 r = bytes ∧ t.cur = cur + bytes ∧ t.last = 3 ∧ t.ret = 0 := by
  intro t
  simp only [t, readTail]
  split
  · simp
  · split
    · split <;> simp
    · rename_i h1 h2
      simp
      omega

theorem readTail_refines (d : List Byte) (p c : Nat) (l : LastOp) (hl : l = .seek ∨ l = .read)
    (n : Nat) (cache dirty endoff : Int) (buf inp : List Int) (pos r e : Int) (fs fr : Option Fault) (err : Bool) (w' : Stream)
    (hn0 : 0 < n) (hn : n < 2147483648)
    (hs : serve ⟨d, p⟩ err [cRead, (n : Int), r, cFerror, 0, e] [] (inp.drop pos.toNat) [fr] = some w') :
    let t := readTail c cache dirty endoff buf n r e inp pos
    let zok := decide (cache ≠ 0 ∧ dirty.toNat &&& H4.Gen.Hpio.FILE_END_DIRTY ≠ 0 ∧ (n : Int) ≤ endoff - c)
    let m := hpReadZ ⟨⟨d, p⟩, c, l⟩ n zok fs fr
    t.ret = (if m.2.isSome then 0 else -1) ∧ t.cur = m.1.cur ∧ t.last = opCode m.1.last ∧
      w'.data = m.1.s.data ∧ (w'.pos = m.1.s.pos ∨ (m.1.last = .unknown ∧ m.1.s.data.length < w'.pos)) := by
  intro t zok m
  simp only [t, zok, m]
  rw [serve_read] at hs
  cases fr with
  | some f =>
    obtain ⟨h0, h1, he, hw⟩ := hs
    subst hw
    rcases hl with rfl | rfl <;> simp [readTail, he, hpReadZ, opc]
  | none =>
    obtain ⟨hr, hin, he, hw⟩ := hs
    subst hw he
    simp only at hr
    have hnn : ¬ ((n : Int) < 0) := by omega
    by_cases hfull : p + n ≤ d.length
    · have hk : min n (d.length - p) = n := by omega
      rw [hk] at hr ⊢
      have hg : wrap32 r = n := by rw [hr]; exact wrap32_id _ (by omega) (by omega)
      rcases hl with rfl | rfl <;> simp [readTail, hpReadZ, opc, hg, hfull, hnn]
    · obtain ⟨k, hk⟩ : ∃ k, min n (d.length - p) = k := ⟨_, rfl⟩
      rw [hk] at hr ⊢
      have hkn : k < n := by omega
      have hg : wrap32 r = k := by rw [hr]; exact wrap32_id _ (by omega) (by omega)
      have h1 : ¬ ((k : Int) < 0) := by omega
      have h2 : ¬ ((n : Int) < k) := by omega
      have h3 : (k : Int) < n := by omega
      have h4 : p + k = d.length ∨ d.length < p + k := by omega
      by_cases hc : cache = 0 <;> by_cases hdz : dirty.toNat &&& 2 = 0 <;> by_cases hef : (n : Int) ≤ endoff - (c : Int) <;>
        (have hef2 : (endoff - (c : Int) < n) = ¬ ((n : Int) ≤ endoff - (c : Int)) := by simp) <;>
        rcases hl with rfl | rfl <;> simp [readTail, hpReadZ, opc, hg, hfull, hnn, h1, h2, h3, hc, hdz, hef, hef2, consts] <;> exact h4

theorem toInts_append (a b : List Byte) : toInts (a ++ b) = toInts a ++ toInts b := by simp [toInts]
theorem toInts_replicate0 (k : Nat) : toInts (List.replicate k 0) = List.replicate k 0 := by simp [toInts]

/-- the bytes `HP_read` leaves in the caller's buffer when it reports success are the model's -/
theorem readTail_data (d : List Byte) (p c : Nat) (l : LastOp) (hl : l = .seek ∨ l = .read)
    (n : Nat) (cache dirty endoff : Int) (buf inp : List Int) (pos r e : Int) (fs fr : Option Fault) (err : Bool) (w' : Stream)
    (hn0 : 0 < n) (hn : n < 2147483648)
    (hs : serve ⟨d, p⟩ err [cRead, (n : Int), r, cFerror, 0, e] [] (inp.drop pos.toNat) [fr] = some w') :
    let t := readTail c cache dirty endoff buf n r e inp pos
    let zok := decide (cache ≠ 0 ∧ dirty.toNat &&& H4.Gen.Hpio.FILE_END_DIRTY ≠ 0 ∧ (n : Int) ≤ endoff - c)
    let m := hpReadZ ⟨⟨d, p⟩, c, l⟩ n zok fs fr
    ∀ bs, m.2 = some bs → t.buf.take n = toInts bs := by
  intro t zok m bs
  simp only [t, zok, m]
  rw [serve_read] at hs
  cases fr with
  | some f => rcases hl with rfl | rfl <;> simp [hpReadZ]
  | none =>
    obtain ⟨hr, hin, he, hw⟩ := hs
    subst hw he
    simp only at hr hin
    have hnn : ¬ ((n : Int) < 0) := by omega
    by_cases hfull : p + n ≤ d.length
    · have hk : min n (d.length - p) = n := by omega
      rw [hk] at hr hin
      have hg : wrap32 r = n := by rw [hr]; exact wrap32_id _ (by omega) (by omega)
      have hlen : (toInts (List.take n (List.drop p d))).length = n := by simp; omega
      have hrn : min r.toNat n = n := by rw [hr]; simp
      have e1 : (readTail c cache dirty endoff buf n r 0 inp pos).buf =
          toInts (List.take n (List.drop p d)) ++ buf.drop n := by
        simp only [readTail, hg]
        simp [hnn, hrn, hin, hlen]
      rw [e1]
      rcases hl with rfl | rfl <;> simp [hpReadZ, hfull] <;> (intro h; subst h; rw [List.take_left' hlen])
    · have hk : min n (d.length - p) = d.length - p := by omega
      obtain ⟨k, hkdef⟩ : ∃ k, d.length - p = k := ⟨_, rfl⟩
      rw [hk, hkdef] at hr hin
      have hkn : k < n := by omega
      have hg : wrap32 r = k := by rw [hr]; exact wrap32_id _ (by omega) (by omega)
      have h1 : ¬ ((k : Int) < 0) := by omega
      have h2 : ¬ ((n : Int) < k) := by omega
      have h3 : (k : Int) < n := by omega
      have hdl : (List.drop p d).length = k := by simp; omega
      have htk : List.take k (List.drop p d) = List.drop p d := List.take_of_length_le (by omega)
      have htn : List.take n (List.drop p d) = List.drop p d := List.take_of_length_le (by omega)
      rw [htk] at hin
      have hlen : (toInts (List.drop p d)).length = k := by simp; omega
      have hrn : min r.toNat n = k := by rw [hr]; simp; omega
      by_cases hz : (cache ≠ 0 ∧ dirty.toNat &&& H4.Gen.Hpio.FILE_END_DIRTY ≠ 0 ∧ (n : Int) ≤ endoff - c)
      · have hz1 : ¬ cache = 0 := hz.1
        have hz2 : ¬ dirty.toNat &&& 2 = 0 := by simpa [consts] using hz.2.1
        have hz3 : ¬ (endoff - (c : Int) < n) := by omega
        have e1 : (readTail c cache dirty endoff buf n r 0 inp pos).buf =
            toInts (List.drop p d) ++ List.replicate (n - k) 0 ++ (toInts (List.drop p d) ++ buf.drop k).drop n := by
          simp only [readTail, hg]
          simp [hnn, h1, h2, h3, hrn, hin, hlen, hz1, hz2, hz3]
        rw [e1]
        have hl2 : (toInts (List.drop p d) ++ List.replicate (n - k) (0 : Int)).length = n := by simp [hlen]; omega
        rcases hl with rfl | rfl <;> simp [hpReadZ, hfull, hz, htn, hdl] <;>
          (intro h; subst h; rw [← List.append_assoc, List.take_left' hl2, toInts_append, toInts_replicate0])
      · rcases hl with rfl | rfl <;> simp [hpReadZ, hfull, hz]

theorem HPseek_ok (fuel : Nat) (a b c : Int) (t : List Int) (d : Int) (l : List Int) :
    (HPseek fuel a b c t d l).ub = false ∧ (HPseek fuel a b c t d l).oof = false := by
  obtain ⟨h1, h2, _⟩ := HPseek_spec fuel a b c t d l; exact ⟨h1, h2⟩
theorem HP_write1_ok (fuel : Nat) (a b x : Int) (t : List Int) (d : Int) (l o : List Int) :
    (HP_write fuel a b [x] 1 t d l o).ub = false ∧ (HP_write fuel a b [x] 1 t d l o).oof = false := by
  obtain ⟨h1, h2, _⟩ := HP_write_spec fuel a b [x] 1 t d l o (by omega) (by omega) (by simp); exact ⟨h1, h2⟩

end H4.Lemmas.C16Fn
