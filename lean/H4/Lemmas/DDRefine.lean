import H4.Lemmas.DDSpec
/-! # Every API call refines the map specification and keeps the invariant -/
namespace H4.DD
open H4.Gen.Hdf H4.Bitvect

theorem live_eq_of_key {l : List DD} (hn : KeysNodup l) {d d' : DD} (h1 : d ∈ liveOf l) (h2 : d' ∈ liveOf l)
    (hk : keyOf d = keyOf d') : d = d' := by
  obtain ⟨m1, l1⟩ := mem_liveOf.mp h1
  obtain ⟨m2, l2⟩ := mem_liveOf.mp h2
  obtain ⟨a, b, e1⟩ := List.append_of_mem m1
  obtain ⟨a', b', e2⟩ := List.append_of_mem m2
  exact (split_unique hn e1 e2 l1 l2 hk).2.1

theorem lookupPos_some {s : File} {t r : Nat} {q : Pos} (h : lookupPos s t r = some q) :
    Valid s.blocks q ∧ isLive (getDD s.blocks q) = true ∧ keyOf (getDD s.blocks q) = (baseTag t, r) :=
  lookupDD_some h

theorem lookupPos_none {s : File} (hw : WF s) {t r : Nat} (h : lookupPos s t r = none) :
    ∀ d ∈ s.live, keyOf d ≠ (baseTag t, r) := lookupDD_none hw h

theorem hfind_exact (s : File) {t r : Nat} (ht : t ≠ 0) (hr : r ≠ 0) (dir : Dir) :
    hfind s t r 0 0 dir = ((lookupPos s t r).map (getDD s.blocks), s) := by
  rw [hfind_start, htiFindDD_exact s ht hr]
  cases lookupPos s t r <;> rfl

theorem getDD_mem_live {s : File} {q : Pos} (hv : Valid s.blocks q) (hl : isLive (getDD s.blocks q) = true) :
    getDD s.blocks q ∈ s.live := mem_liveOf.mpr ⟨getDD_mem_slots hv, hl⟩

/-- `Hstartaccess` on a tag/ref that exists -/
theorem hstartaccess_found (cfg : Cfg) {s : File} (hw : WF s) {t r : Nat} (ht0 : t ≠ 0) (hr0 : r ≠ 0) {d : DD}
    (hd : d ∈ s.live) (hk : keyOf d = (baseTag t, r)) (write : Bool) :
    ∃ q, Valid s.blocks q ∧ getDD s.blocks q = d ∧
      hstartaccess cfg s t r write =
        if (!isSpecial t) = true ∧ isSpecial d.tag = true then (Acc.special q, s)
        else (Acc.ok q (decide (d.off = INVALID_OFFSET ∧ d.len = INVALID_LENGTH)),
              { s with maxref := if d.ref > s.maxref then d.ref else s.maxref }) := by
  have hlook : ∃ q0, lookupPos s t r = some q0 ∧ getDD s.blocks q0 = d := by
    cases hq : lookupPos s t r with
    | none => exact absurd hk (lookupPos_none hw hq d hd)
    | some q0 =>
      obtain ⟨hv, hl, hkk⟩ := lookupPos_some hq
      exact ⟨q0, rfl, live_eq_of_key hw.wfl.nodup (getDD_mem_live hv hl) hd (by rw [hkk, hk])⟩
  obtain ⟨q0, hq0, hg0⟩ := hlook
  have hok := hw.wfl.live_ok d hd
  obtain ⟨q, hsel, hgq⟩ := htpSelect_of_live hw hd (t := d.tag) rfl (by omega) (by omega)
  obtain ⟨hvq, _, _⟩ := htpSelect_some hsel
  refine ⟨q, hvq, hgq, ?_⟩
  unfold hstartaccess
  rw [hfind_exact s ht0 hr0, hq0]
  simp only [Option.map_some, hg0, hsel, hgq]

/-- `Hstartaccess` on a tag/ref that does not exist -/
theorem hstartaccess_absent (cfg : Cfg) {s : File} (hw : WF s) {t r : Nat} (ht0 : t ≠ 0) (hr0 : r ≠ 0)
    (hfree : ∀ d ∈ s.live, keyOf d ≠ (baseTag t, r)) (write : Bool) :
    hstartaccess cfg s t r write =
      if write = false then (Acc.fail, s)
      else match htpCreate cfg s t r with
        | (none, s') => (Acc.fail, s')
        | (some p, s') => (Acc.ok p true, { s' with maxref := if r > s'.maxref then r else s'.maxref }) := by
  have hlook : lookupPos s t r = none := by
    cases hq : lookupPos s t r with
    | none => rfl
    | some q0 =>
      obtain ⟨hv, hl, hkk⟩ := lookupPos_some hq
      exact absurd hkk (hfree _ (getDD_mem_live hv hl))
  have hsel : htpSelect s t r = none := by
    rw [htpSelect_eq]; split
    · rfl
    · exact hlook
  unfold hstartaccess
  rw [hfind_exact s ht0 hr0, hlook]
  simp only [Option.map_none, hsel]
  cases write
  · simp
  · simp; rfl

/-! ## small state changes that do not touch the directory -/

theorem Inv_maxref_raise {cfg : Cfg} {s : File} (h : Inv cfg s) (r : Nat) :
    Inv cfg { s with maxref := if r > s.maxref then r else s.maxref } := by
  refine ⟨⟨h.wf.wfl, h.wf.noub, h.wf.ne, h.wf.slotne⟩, DiskOK_frame h.disk rfl rfl rfl rfl rfl, ?_⟩
  intro hf d hd
  have := h.maxref hf d hd
  show d.ref ≤ if r > s.maxref then r else s.maxref
  split <;> omega

theorem Inv_fEnd_raise {cfg : Cfg} {s : File} (h : Inv cfg s) (n : Nat) (L : List Wr) :
    Inv cfg { s with fEnd := s.fEnd + n, log := L } :=
  ⟨⟨h.wf.wfl, h.wf.noub, h.wf.ne, h.wf.slotne⟩,
   DiskOK_fEnd_ge h.disk rfl rfl (by show s.fEnd ≤ s.fEnd + n; omega) rfl rfl, h.maxref⟩

/-- the invariant does not look at the write log -/
theorem Inv_logW {cfg : Cfg} {s : File} (h : Inv cfg s) (w : Wr) : Inv cfg (logW w s) :=
  ⟨⟨h.wf.wfl, h.wf.noub, h.wf.ne, h.wf.slotne⟩, DiskOK_frame h.disk rfl rfl rfl rfl rfl, h.maxref⟩
theorem abs_logW (s : File) (w : Wr) : (logW w s).abs = s.abs := rfl

/-- `Hsetlength`: the descriptor at `p` gets the end of the file as offset and the length -/
theorem hsetlength_inv (cfg : Cfg) {s : File} (h : Inv cfg s) {p : Pos} (hv : Valid s.blocks p)
    (hl : isLive (getDD s.blocks p) = true) (n : Nat) :
    Inv cfg (hsetlength s p n) ∧
    (∃ pre post, s.slots = pre ++ getDD s.blocks p :: post ∧
      (hsetlength s p n).slots = pre ++ ⟨(getDD s.blocks p).tag, (getDD s.blocks p).ref, (s.fEnd : Int), (n : Int)⟩ :: post) ∧
    getDD (hsetlength s p n).blocks p = ⟨(getDD s.blocks p).tag, (getDD s.blocks p).ref, (s.fEnd : Int), (n : Int)⟩ := by
  unfold hsetlength
  have h1 := Inv_fEnd_raise h n (if s.cache = false ∧ 0 < n then Wr.ext (s.fEnd + n - 1) :: s.log else s.log)
  have hupd : updDD (getDD s.blocks p) (s.fEnd : Int) (n : Int) = ⟨(getDD s.blocks p).tag, (getDD s.blocks p).ref, (s.fEnd : Int), (n : Int)⟩ := by
    unfold updDD
    have a : ((n : Int) ≠ -2) := by omega
    have b : ((s.fEnd : Int) ≠ -2) := by omega
    simp [a, b]
  have hol : okOL (updDD (getDD s.blocks p) (s.fEnd : Int) (n : Int)) := by
    rw [hupd]; unfold okOL; simp only
    refine ⟨⟨fun hh => by omega, fun hh => by omega⟩, by omega, by omega⟩
  obtain ⟨hi, ⟨pre, post, e1, e2⟩, _, hg, _⟩ :=
    htpUpdate_inv cfg h1 (p := p) hv hl (s.fEnd : Int) (n : Int) hol
  rw [hupd] at e2 hg
  exact ⟨hi, ⟨pre, post, e1, e2⟩, hg⟩

theorem specSet_append_new {sp : List Ent} {k : Nat × Nat} (hk : ∀ e ∈ sp, entKey e ≠ k) (e0 : Ent) (he : entKey e0 = k)
    (len : Int) : specSet (sp ++ [e0]) k len = sp ++ [(e0.1, e0.2.1, len)] := by
  unfold specSet
  rw [List.map_append, map_id_of_ne hk]
  simp [he]

theorem abs_mem_key {s : File} {e : Ent} (he : e ∈ s.abs) : ∃ d ∈ s.live, ent d = e := by
  obtain ⟨d, hd, rfl⟩ := List.mem_map.mp he
  exact ⟨d, hd, rfl⟩

theorem abs_keys_ne {s : File} {k : Nat × Nat} (h : ∀ d ∈ s.live, keyOf d ≠ k) : ∀ e ∈ s.abs, entKey e ≠ k := by
  intro e he
  obtain ⟨d, hd, rfl⟩ := abs_mem_key he
  exact h d hd

theorem abs_of_slots {s s' : File} (h : s'.slots = s.slots) : s'.abs = s.abs := by
  unfold File.abs; rw [h]

/-! ## `Hstartaccess(base, r, DFACC_WRITE)`: the four outcomes -/

theorem access_write_cases (cfg : Cfg) {s : File} (h : Inv cfg s) {base r : Nat} (hb0 : base ≠ 0)
    (hbs : isSpecial base = false) (hbl : base < 65536) (hr : r ≠ 0) (hr2 : r < 65536) (hg : guardF3 cfg s = true) :
    (∃ d ∈ s.live, keyOf d = (base, r) ∧ isSpecial d.tag = true ∧
        ∃ q, hstartaccess cfg s base r true = (Acc.special q, s)) ∨
    (∃ d ∈ s.live, keyOf d = (base, r) ∧ isSpecial d.tag = false ∧
        ∃ q s1, hstartaccess cfg s base r true = (Acc.ok q (decide (d.len = -1)), s1) ∧ Inv cfg s1 ∧
          s1.slots = s.slots ∧ Valid s1.blocks q ∧ getDD s1.blocks q = d) ∨
    ((∀ d ∈ s.live, keyOf d ≠ (base, r)) ∧ base = 1 ∧ hstartaccess cfg s base r true = (Acc.fail, s)) ∨
    ((∀ d ∈ s.live, keyOf d ≠ (base, r)) ∧ base ≠ 1 ∧
        ∃ p s1, hstartaccess cfg s base r true = (Acc.ok p true, s1) ∧ Inv cfg s1 ∧ Valid s1.blocks p ∧
          getDD s1.blocks p = ⟨base, r, -1, -1⟩ ∧ s1.live.Perm (⟨base, r, -1, -1⟩ :: s.live)) := by
  have hbb : baseTag base = base := baseTag_of_not_special hbs
  by_cases hex : ∃ d ∈ s.live, keyOf d = (base, r)
  · obtain ⟨d, hd, hk⟩ := hex
    obtain ⟨q, hvq, hgq, hacc⟩ := hstartaccess_found cfg h.wf hb0 hr hd (by rw [hbb]; exact hk) true
    by_cases hsp : isSpecial d.tag = true
    · left
      refine ⟨d, hd, hk, hsp, q, ?_⟩
      rw [hacc, if_pos ⟨by simp [hbs], hsp⟩]
    · right; left
      have hsp' : isSpecial d.tag = false := by cases hh : isSpecial d.tag <;> simp_all
      refine ⟨d, hd, hk, hsp', q, _, ?_, Inv_maxref_raise h d.ref, rfl, hvq, hgq⟩
      rw [hacc, if_neg (by simp [hsp'])]
      have hol := (h.wf.wfl.offlen d hd).1
      have : decide (d.off = INVALID_OFFSET ∧ d.len = INVALID_LENGTH) = decide (d.len = -1) := by
        simp only [INVALID_OFFSET, INVALID_LENGTH]
        congr 1
        apply propext
        constructor
        · exact fun hh => hh.2
        · exact fun hh => ⟨hol.mpr hh, hh⟩
      rw [this]
  · have hfree : ∀ d ∈ s.live, keyOf d ≠ (base, r) := fun d hd hk => hex ⟨d, hd, hk⟩
    have hacc := hstartaccess_absent cfg h.wf hb0 hr (by rw [hbb]; exact hfree) true
    rw [if_neg (by simp)] at hacc
    right; right
    by_cases hb1 : base = 1
    · left
      refine ⟨hfree, hb1, ?_⟩
      rw [hacc]
      have : htpCreate cfg s base r = (none, s) := by
        unfold htpCreate; rw [if_pos (Or.inl (by simpa [DFTAG_NULL] using hb1))]
      rw [this]
    · right
      obtain ⟨p, s', hc, hinv, hv, hget, hperm, _, _, _⟩ :=
        htpCreate_inv cfg h (tag := base) (ref := r) ⟨by omega, hbl⟩ ⟨by omega, hr2⟩ (by rw [hbb]; exact hfree) hg
      refine ⟨hfree, hb1, p, _, ?_, Inv_maxref_raise hinv r, hv, hget, hperm⟩
      rw [hacc, hc]

theorem toNat_cast {l : Int} (h : 0 ≤ l) : ((l.toNat : Nat) : Int) = l := by omega

/-- **`Hputelement` / `Hstartwrite`+`Hendaccess`** refine `specWrite` -/
theorem write_refines (cfg : Cfg) (put : Bool) {s : File} (h : Inv cfg s) {t r : Nat} {l : Int}
    (hb : baseTag t ≠ 0) (hr : r ≠ 0) (ht : t < 65536) (hr2 : r < 65536) (hg : guardF3 cfg s = true) :
    let x := if put then hputelement cfg s t r l else hstartwriteEnd cfg s t r l
    Inv cfg x.2 ∧ Out.ofRes x.1 = (specWrite s.abs (baseTag t) r l put).1 ∧
      x.2.abs.Perm (specWrite s.abs (baseTag t) r l put).2 := by
  have hbs := baseTag_not_special t
  have hbl : baseTag t < 65536 := by unfold baseTag; split <;> omega
  have hx : (if put then hputelement cfg s t r l else hstartwriteEnd cfg s t r l) =
      (match hstartaccess cfg s (baseTag t) r true with
       | (.fail, s) => (.fail, s)
       | (.special _, s) => (.unsupported, s)
       | (.ok p newElem, s) =>
         if put then
           (if newElem ∧ l < 0 then (.fail, s)
            else
              (if l ≤ 0 ∨ l > (getDD (if newElem then hsetlength s p l.toNat else s).blocks p).len
               then (.fail, (if newElem then hsetlength s p l.toNat else s))
               else (.num l, logW (.data (getDD (if newElem then hsetlength s p l.toNat else s).blocks p).off.toNat l.toNat)
                      (if newElem then hsetlength s p l.toNat else s))))
         else (if newElem then (if l < 0 then (.fail, s) else (.ok, hsetlength s p l.toNat)) else (.ok, s))) := by
    cases put
    · simp only [Bool.false_eq_true, if_false]; unfold hstartwriteEnd; rfl
    · simp only [if_true]; unfold hputelement; rfl
  intro x
  have hx' : x = _ := hx
  rw [hx']
  rcases access_write_cases cfg h hb hbs hbl hr hr2 hg with
    ⟨d, hd, hk, hsp, q, hacc⟩ | ⟨d, hd, hk, hsp, q, s1, hacc, hinv1, hsl1, hv1, hg1⟩ |
    ⟨hfree, hb1, hacc⟩ | ⟨hfree, hb1, p, s1, hacc, hinv1, hv1, hg1, hperm1⟩
  · -- special element
    have hget : specGet s.abs (baseTag t, r) = some (ent d) := by rw [← hk]; exact specGet_some h.wf.wfl.nodup hd
    rw [hacc]
    simp only [specWrite, hget, ent, hsp, if_true]
    exact ⟨h, rfl, List.Perm.refl _⟩
  · -- existing ordinary element
    have hget : specGet s.abs (baseTag t, r) = some (ent d) := by rw [← hk]; exact specGet_some h.wf.wfl.nodup hd
    have hl1 : isLive (getDD s1.blocks q) = true := by rw [hg1]; exact (mem_liveOf.mp hd).2
    have habs1 : s1.abs = s.abs := abs_of_slots hsl1
    rw [hacc]
    simp only [specWrite, hget, ent, hsp, Bool.false_eq_true, if_false]
    by_cases hnew : d.len = -1
    · -- no data yet: the length is set now
      simp only [hnew, decide_true, true_and, if_true]
      by_cases hl0 : l < 0
      · simp only [hl0, if_true]
        cases put <;> simp only [Bool.false_eq_true, if_false, if_true] <;>
          exact ⟨hinv1, rfl, by rw [habs1]⟩
      · simp only [hl0, if_false]
        obtain ⟨hinv2, ⟨pre, post, e1, e2⟩, hg2⟩ := hsetlength_inv cfg hinv1 hv1 hl1 l.toNat
        rw [hg1] at e1 e2 hg2
        have hn1 : KeysNodup (pre ++ d :: post) := by rw [← e1]; exact hinv1.wf.wfl.nodup
        have hdl : isLive d = true := (mem_liveOf.mp hd).2
        have habs2 : (hsetlength s1 q l.toNat).abs = specSet s.abs (baseTag t, r) l := by
          unfold File.abs
          rw [e2, absl_update (new := ⟨d.tag, d.ref, (s1.fEnd : Int), (l.toNat : Int)⟩) hn1 hdl rfl rfl, ← e1, hsl1, hk]
          simp only [toNat_cast (by omega : 0 ≤ l)]
        cases put
        · simp only [Bool.false_eq_true, if_false]
          exact ⟨hinv2, rfl, by rw [habs2]⟩
        · simp only [if_true, hg2, toNat_cast (by omega : 0 ≤ l)]
          have : ¬ (l > l) := by omega
          by_cases hle : l ≤ 0
          · simp only [hle, true_or, if_true]
            exact ⟨hinv2, rfl, by rw [habs2]⟩
          · simp only [hle, false_or, this, if_false]
            exact ⟨Inv_logW hinv2 _, rfl, by rw [abs_logW, habs2]⟩
    · simp only [hnew, decide_false, false_and, Bool.false_eq_true, if_false, hg1]
      cases put
      · simp only [Bool.false_eq_true, if_false]
        exact ⟨hinv1, rfl, by rw [habs1]⟩
      · simp only [if_true]
        by_cases hc : l ≤ 0 ∨ l > d.len
        · simp only [hc, if_true]; exact ⟨hinv1, rfl, by rw [habs1]⟩
        · simp only [hc, if_false]; exact ⟨Inv_logW hinv1 _, rfl, by rw [abs_logW, habs1]⟩
  · -- absent, base tag DFTAG_NULL: nothing can be created
    have hget : specGet s.abs (baseTag t, r) = none := specGet_none hfree
    rw [hacc]
    simp only [specWrite, hget]
    simp only [hb1, DFTAG_NULL, if_true]
    exact ⟨h, rfl, List.Perm.refl _⟩
  · -- absent: created
    have hget : specGet s.abs (baseTag t, r) = none := specGet_none hfree
    have hb1' : ¬ baseTag t = DFTAG_NULL := by simpa [DFTAG_NULL] using hb1
    have hlnew : isLive (⟨baseTag t, r, -1, -1⟩ : DD) = true := by simp [isLive, DFTAG_NULL]; exact hb1
    have habs1 : s1.abs.Perm (s.abs ++ [(baseTag t, r, -1)]) := by
      have := hperm1.map ent
      exact this.trans (List.perm_append_singleton _ _).symm
    have hl1 : isLive (getDD s1.blocks p) = true := by rw [hg1]; exact hlnew
    rw [hacc]
    simp only [specWrite, hget, hb1', if_false, true_and]
    by_cases hl0 : l < 0
    · simp only [hl0, if_true]
      cases put <;> simp only [Bool.false_eq_true, if_false, if_true] <;> exact ⟨hinv1, rfl, habs1⟩
    · simp only [hl0, if_false]
      obtain ⟨hinv2, ⟨pre, post, e1, e2⟩, hg2⟩ := hsetlength_inv cfg hinv1 hv1 hl1 l.toNat
      rw [hg1] at e1 e2 hg2
      have hn1 : KeysNodup (pre ++ (⟨baseTag t, r, -1, -1⟩ : DD) :: post) := by rw [← e1]; exact hinv1.wf.wfl.nodup
      have hkk : keyOf (⟨baseTag t, r, -1, -1⟩ : DD) = (baseTag t, r) := by simp [keyOf, baseTag_idem]
      have habs2 : (hsetlength s1 p l.toNat).abs.Perm (s.abs ++ [(baseTag t, r, l)]) := by
        have e : (hsetlength s1 p l.toNat).abs = specSet s1.abs (baseTag t, r) l := by
          unfold File.abs
          have e2' : (hsetlength s1 p l.toNat).slots = pre ++ (⟨baseTag t, r, (s1.fEnd : Int), (l.toNat : Int)⟩ : DD) :: post := e2
          rw [e2', absl_update (new := ⟨baseTag t, r, (s1.fEnd : Int), (l.toNat : Int)⟩) hn1 hlnew rfl rfl, ← e1, hkk]
          simp only [toNat_cast (by omega : 0 ≤ l)]
        rw [e]
        have hp : (specSet s1.abs (baseTag t, r) l).Perm (specSet (s.abs ++ [(baseTag t, r, -1)]) (baseTag t, r) l) :=
          habs1.map _
        rw [specSet_append_new (abs_keys_ne hfree) (baseTag t, r, -1) (by simp [entKey, baseTag_idem])] at hp
        exact hp
      cases put
      · simp only [Bool.false_eq_true, if_false]
        exact ⟨hinv2, rfl, habs2⟩
      · simp only [if_true, hg2, toNat_cast (by omega : 0 ≤ l)]
        have : ¬ (l > l) := by omega
        by_cases hle : l ≤ 0
        · simp only [hle, true_or, if_true]
          exact ⟨hinv2, rfl, habs2⟩
        · simp only [hle, false_or, this, if_false]
          exact ⟨Inv_logW hinv2 _, rfl, by rw [abs_logW]; exact habs2⟩

/-! ## `Hdeldd`, `HDreuse_tagref`, `Hdupdd`, `Hlength`/`Hoffset` -/

theorem select_cases {s : File} (hw : WF s) (t r : Nat) :
    (htpSelect s t r = none ∧ ((t = 0 ∨ t = 1 ∨ r = 0) ∨ ∀ d ∈ s.live, keyOf d ≠ (baseTag t, r))) ∨
    (∃ q, htpSelect s t r = some q ∧ ¬ (t = 0 ∨ t = 1 ∨ r = 0) ∧ Valid s.blocks q ∧ isLive (getDD s.blocks q) = true ∧
      keyOf (getDD s.blocks q) = (baseTag t, r) ∧ getDD s.blocks q ∈ s.live) := by
  by_cases hwild : t = 0 ∨ t = 1 ∨ r = 0
  · exact Or.inl ⟨htpSelect_wild hwild, Or.inl hwild⟩
  · cases hsel : htpSelect s t r with
    | none => exact Or.inl ⟨rfl, Or.inr (htpSelect_none hw (by omega) (by omega) (by omega) hsel)⟩
    | some q =>
      obtain ⟨hv, hl, hk⟩ := htpSelect_some hsel
      exact Or.inr ⟨q, rfl, hwild, hv, hl, hk, getDD_mem_live hv hl⟩

theorem hdeldd_eq (cfg : Cfg) (s : File) (t r : Nat) : hdeldd cfg s t r =
    if t = 0 ∨ r = 0 then (false, s)
    else match htpSelect s t r with
      | none => (false, s)
      | some p => htpDelete cfg s p := rfl

theorem hdreuse_eq (s : File) (t r : Nat) : hdreuse s t r =
    if t = 0 ∨ r = 0 then (false, s)
    else match htpSelect s t r with
      | none => (false, s)
      | some p => (true, htpUpdate s p INVALID_OFFSET INVALID_LENGTH) := rfl

theorem del_refines (cfg : Cfg) {s : File} (h : Inv cfg s) (t r : Nat) (hg : guardF4 cfg s = true) :
    Inv cfg (hdeldd cfg s t r).2 ∧ Out.ofBool (hdeldd cfg s t r).1 = (specStep cfg s.abs (.del t r)).1 ∧
      (hdeldd cfg s t r).2.abs.Perm (specStep cfg s.abs (.del t r)).2 := by
  rw [hdeldd_eq]
  simp only [specStep]
  by_cases h0 : t = 0 ∨ r = 0
  · rw [if_pos h0, if_pos (by omega)]
    exact ⟨h, rfl, List.Perm.refl _⟩
  · rw [if_neg h0]
    rcases select_cases h.wf t r with ⟨hsel, hwhy⟩ | ⟨q, hsel, hnw, hv, hl, hk, hm⟩
    · rw [hsel]
      simp only
      rcases hwhy with hw | hfree
      · rw [if_pos (by omega)]; exact ⟨h, rfl, List.Perm.refl _⟩
      · by_cases h1 : t = 1
        · rw [if_pos (by omega)]; exact ⟨h, rfl, List.Perm.refl _⟩
        · have hgn : specGet s.abs (baseTag t, r) = none := specGet_none hfree
          rw [if_neg (by omega), hgn]; exact ⟨h, rfl, List.Perm.refl _⟩
    · rw [hsel, if_neg (by omega)]
      simp only
      have hget : specGet s.abs (baseTag t, r) = some (ent (getDD s.blocks q)) := by
        rw [← hk]; exact specGet_some h.wf.wfl.nodup hm
      rw [hget]
      simp only
      obtain ⟨s', hd, hinv, ⟨pre, post, e1, e2⟩, _⟩ := htpDelete_inv cfg h hv hl hg
      rw [hd]
      refine ⟨hinv, rfl, ?_⟩
      have hn : KeysNodup (pre ++ getDD s.blocks q :: post) := by rw [← e1]; exact h.wf.wfl.nodup
      unfold File.abs
      rw [e2, absl_delete hn hl, ← e1, hk]

theorem reuse_refines (cfg : Cfg) {s : File} (h : Inv cfg s) (t r : Nat) :
    Inv cfg (hdreuse s t r).2 ∧ Out.ofBool (hdreuse s t r).1 = (specStep cfg s.abs (.reuse t r)).1 ∧
      (hdreuse s t r).2.abs.Perm (specStep cfg s.abs (.reuse t r)).2 := by
  rw [hdreuse_eq]
  simp only [specStep]
  by_cases h0 : t = 0 ∨ r = 0
  · rw [if_pos h0, if_pos (by omega)]
    exact ⟨h, rfl, List.Perm.refl _⟩
  · rw [if_neg h0]
    rcases select_cases h.wf t r with ⟨hsel, hwhy⟩ | ⟨q, hsel, hnw, hv, hl, hk, hm⟩
    · rw [hsel]
      simp only
      rcases hwhy with hw | hfree
      · rw [if_pos (by omega)]; exact ⟨h, rfl, List.Perm.refl _⟩
      · by_cases h1 : t = 1
        · rw [if_pos (by omega)]; exact ⟨h, rfl, List.Perm.refl _⟩
        · have hgn : specGet s.abs (baseTag t, r) = none := specGet_none hfree
          rw [if_neg (by omega), hgn]; exact ⟨h, rfl, List.Perm.refl _⟩
    · rw [hsel, if_neg (by omega)]
      simp only
      have hget : specGet s.abs (baseTag t, r) = some (ent (getDD s.blocks q)) := by
        rw [← hk]; exact specGet_some h.wf.wfl.nodup hm
      rw [hget]
      simp only
      have hupd : updDD (getDD s.blocks q) INVALID_OFFSET INVALID_LENGTH =
          ⟨(getDD s.blocks q).tag, (getDD s.blocks q).ref, -1, -1⟩ := by
        simp [updDD, INVALID_OFFSET, INVALID_LENGTH]
      obtain ⟨hinv, ⟨pre, post, e1, e2⟩, _⟩ := htpUpdate_inv cfg h hv hl INVALID_OFFSET INVALID_LENGTH
        (by rw [hupd]; simp [okOL])
      refine ⟨hinv, rfl, ?_⟩
      rw [hupd] at e2
      have hn : KeysNodup (pre ++ getDD s.blocks q :: post) := by rw [← e1]; exact h.wf.wfl.nodup
      unfold File.abs
      rw [e2, absl_update (new := ⟨(getDD s.blocks q).tag, (getDD s.blocks q).ref, -1, -1⟩) hn hl rfl rfl, ← e1, hk]

theorem hdupdd_eq (cfg : Cfg) (s : File) (t r ot or' : Nat) : hdupdd cfg s t r ot or' =
    match htpSelect s ot or' with
    | none => (false, s)
    | some old =>
      match htpCreate cfg s t r with
      | (none, s) => (false, s)
      | (some p, s) => (true, htpUpdate s p (getDD s.blocks old).off (getDD s.blocks old).len) := rfl

theorem htpCreate_wild (cfg : Cfg) (s : File) {t r : Nat} (h : t = 0 ∨ t = 1 ∨ r = 0) : htpCreate cfg s t r = (none, s) := by
  unfold htpCreate
  rw [if_pos]
  show t = 1 ∨ t = 0 ∨ r = 0
  omega

theorem dup_refines (cfg : Cfg) {s : File} (h : Inv cfg s) (t r ot or' : Nat) (ht : t < 65536) (hr : r < 65536)
    (hg3 : guardF3 cfg s = true) (hg17 : cfg.fixF17 = true ∨ (htpSelect s t r).isNone = true) :
    Inv cfg (hdupdd cfg s t r ot or').2 ∧
      Out.ofBool (hdupdd cfg s t r ot or').1 = (specStep cfg s.abs (.dup t r ot or')).1 ∧
      (hdupdd cfg s t r ot or').2.abs.Perm (specStep cfg s.abs (.dup t r ot or')).2 := by
  rw [hdupdd_eq]
  simp only [specStep]
  rcases select_cases h.wf ot or' with ⟨hsel, hwhy⟩ | ⟨old, hsel, hnw, hvo, hlo, hko, hmo⟩
  · rw [hsel]
    simp only
    rcases hwhy with hw | hfree
    · rw [if_pos hw]; exact ⟨h, rfl, List.Perm.refl _⟩
    · by_cases hw : ot = 0 ∨ ot = 1 ∨ or' = 0
      · rw [if_pos hw]; exact ⟨h, rfl, List.Perm.refl _⟩
      · have hgn : specGet s.abs (baseTag ot, or') = none := specGet_none hfree
        rw [if_neg hw, hgn]; exact ⟨h, rfl, List.Perm.refl _⟩
  · have hgo : specGet s.abs (baseTag ot, or') = some (ent (getDD s.blocks old)) := by
      rw [← hko]; exact specGet_some h.wf.wfl.nodup hmo
    rw [hsel, if_neg hnw, hgo]
    simp only
    rcases select_cases h.wf t r with ⟨hseln, hwhyn⟩ | ⟨qn, hseln, hnwn, hvn, hln, hkn, hmn⟩
    · by_cases hwn : t = 0 ∨ t = 1 ∨ r = 0
      · rw [htpCreate_wild cfg s hwn, if_pos hwn]
        exact ⟨h, rfl, List.Perm.refl _⟩
      · have hfree : ∀ d ∈ s.live, keyOf d ≠ (baseTag t, r) := by
          rcases hwhyn with hw | hf
          · exact absurd hw hwn
          · exact hf
        have hgn : specGet s.abs (baseTag t, r) = none := specGet_none hfree
        rw [if_neg hwn, hgn]
        simp only
        obtain ⟨p, s1, hc, hinv1, hv1, hg1, hperm1, hothers, _, _⟩ :=
          htpCreate_inv cfg h (tag := t) (ref := r) ⟨by omega, ht⟩ ⟨by omega, hr⟩ hfree hg3
        rw [hc]
        simp only
        obtain ⟨hvo1, hgo1, _⟩ := hothers old hvo hlo
        rw [hgo1]
        have hok := h.wf.wfl.offlen _ hmo
        obtain ⟨ho1, ho2, ho3⟩ := hok
        have hlnew : isLive (⟨t, r, -1, -1⟩ : DD) = true := by simp [isLive, DFTAG_NULL]; omega
        have hl1 : isLive (getDD s1.blocks p) = true := by rw [hg1]; exact hlnew
        have hupd : updDD (getDD s1.blocks p) (getDD s.blocks old).off (getDD s.blocks old).len =
            ⟨t, r, (getDD s.blocks old).off, (getDD s.blocks old).len⟩ := by
          rw [hg1]; unfold updDD
          have a : (getDD s.blocks old).len ≠ -2 := by omega
          have b : (getDD s.blocks old).off ≠ -2 := by omega
          simp [a, b]
        obtain ⟨hinv2, ⟨pre, post, e1, e2⟩, _⟩ := htpUpdate_inv cfg hinv1 hv1 hl1
          (getDD s.blocks old).off (getDD s.blocks old).len (by rw [hupd]; exact ⟨ho1, ho2, ho3⟩)
        refine ⟨hinv2, rfl, ?_⟩
        rw [hupd] at e2
        rw [hg1] at e1
        have hn1 : KeysNodup (pre ++ (⟨t, r, -1, -1⟩ : DD) :: post) := by rw [← e1]; exact hinv1.wf.wfl.nodup
        have habs1 : s1.abs.Perm (s.abs ++ [(t, r, -1)]) := by
          have := hperm1.map ent
          exact this.trans (List.perm_append_singleton _ _).symm
        have e : (htpUpdate s1 p (getDD s.blocks old).off (getDD s.blocks old).len).abs =
            specSet s1.abs (baseTag t, r) (getDD s.blocks old).len := by
          unfold File.abs
          rw [e2, absl_update (new := ⟨t, r, (getDD s.blocks old).off, (getDD s.blocks old).len⟩) hn1 hlnew rfl rfl, ← e1]
          rfl
        rw [e]
        have hp : (specSet s1.abs (baseTag t, r) (getDD s.blocks old).len).Perm
            (specSet (s.abs ++ [(t, r, -1)]) (baseTag t, r) (getDD s.blocks old).len) := habs1.map _
        rw [specSet_append_new (abs_keys_ne hfree) (t, r, -1) rfl] at hp
        exact hp
    · -- the new tag/ref is in use: only the fixed code gets here (guard)
      have hf17 : cfg.fixF17 = true := by
        rcases hg17 with h17 | h17
        · exact h17
        · rw [hseln] at h17; simp at h17
      have hcr : htpCreate cfg s t r = (none, s) := by
        unfold htpCreate
        rw [if_neg (by simp only [DFTAG_NULL, DFTAG_WILDCARD, DFREF_WILDCARD]; omega)]
        have hl : (lookupDD s.tags s.blocks (baseTag t) r).isSome = true := by
          have := htpSelect_eq s t r
          rw [if_neg (by simp only [DFTAG_NULL, DFTAG_WILDCARD, DFREF_WILDCARD]; omega), hseln] at this
          unfold lookupPos at this
          rw [← this]; rfl
        rw [if_pos ⟨hf17, hl⟩]
      rw [hcr]
      have hgn : specGet s.abs (baseTag t, r) = some (ent (getDD s.blocks qn)) := by
        rw [← hkn]; exact specGet_some h.wf.wfl.nodup hmn
      rw [if_neg hnwn, hgn]
      exact ⟨h, rfl, List.Perm.refl _⟩

theorem inquire_refines (cfg : Cfg) {s : File} (h : Inv cfg s) (t r : Nat) (hb : baseTag t ≠ 0) (hr : r ≠ 0) :
    ∃ s', (step cfg s (.inquire t r)).2 = some s' ∧ Inv cfg s' ∧
      eraseOut (.inquire t r) (step cfg s (.inquire t r)).1 = (specStep cfg s.abs (.inquire t r)).1 ∧
      s'.abs.Perm (specStep cfg s.abs (.inquire t r)).2 := by
  have hbs := baseTag_not_special t
  have hbb : baseTag (baseTag t) = baseTag t := baseTag_idem t
  simp only [specStep]
  by_cases hex : ∃ d ∈ s.live, keyOf d = (baseTag t, r)
  · obtain ⟨d, hd, hk⟩ := hex
    obtain ⟨q, hvq, hgq, hacc⟩ := hstartaccess_found cfg h.wf hb hr hd (by rw [hbb]; exact hk) false
    have hget : specGet s.abs (baseTag t, r) = some (ent d) := by rw [← hk]; exact specGet_some h.wf.wfl.nodup hd
    rw [hget]
    by_cases hsp : isSpecial d.tag = true
    · have hq : hinquire cfg s t r = (none, true, s) := by
        unfold hinquire; rw [hacc, if_pos ⟨by simp [hbs], hsp⟩]
      simp only [step, hq, ent, hsp, if_true]
      exact ⟨s, rfl, h, rfl, List.Perm.refl _⟩
    · have hsp' : isSpecial d.tag = false := by cases hh : isSpecial d.tag <;> simp_all
      have hq : hinquire cfg s t r = (some d, false, { s with maxref := if d.ref > s.maxref then d.ref else s.maxref }) := by
        unfold hinquire; rw [hacc, if_neg (by simp [hsp'])]
        simp only
        show (some (getDD s.blocks q), false, _) = _
        rw [hgq]
      simp only [step, hq, ent, hsp', Bool.false_eq_true, if_false]
      exact ⟨_, rfl, Inv_maxref_raise h d.ref, rfl, List.Perm.refl _⟩
  · have hfree : ∀ d ∈ s.live, keyOf d ≠ (baseTag t, r) := fun d hd hk => hex ⟨d, hd, hk⟩
    have hacc := hstartaccess_absent cfg h.wf hb hr (by rw [hbb]; exact hfree) false
    rw [if_pos rfl] at hacc
    have hget : specGet s.abs (baseTag t, r) = none := specGet_none hfree
    have hq : hinquire cfg s t r = (none, false, s) := by
      unfold hinquire; rw [hacc]
    rw [hget]
    simp only [step, hq]
    exact ⟨s, rfl, h, rfl, List.Perm.refl _⟩

end H4.DD
