import H4.RleSess
import H4.Props.C05Rle
/-! Lemmas for `H4.Props.C05RleSess`: the functions AROUND the run-length coder, as TRANSLATED from crle.c (`HCIcrle_init`,
    `HCIcrle_staccess`, `HCPcrle_read`, `HCPcrle_write`, `HCPcrle_endaccess`; `H4.Gen.Fn.Crle`, regenerated on every run) are their leaf
    function plus the test the C text makes, and every operation of the session model `H4.RleSess` keeps the session invariant `SInv`:
    the shared record is EITHER the encoder's (`WInv`: related to a model encoder state, everything emitted is in the underlying element,
    the position is its end, a record holding pending bytes has `encoding` set) OR the decoder's (`RInv`: `encoding` clear, `second_byte`
    NIL, the element decodes to the data, the record is related to "the bytes from `offset` on are still to come").  Core only. -/
set_option linter.unusedSimpArgs false
set_option linter.unusedVariables false
namespace H4.Lemmas.C05RleSess
open H4 H4.Rle H4.RleSess H4.Gen.Crle H4.Gen.Fn.Crle H4.Lemmas.C05Rle H4.Props.C05Rle

/-! ## the translated wrappers -/

/-- **`HCIcrle_init`** as translated from crle.c: whatever the record held, it is reset to "nothing decoded, nothing waits to be
    encoded" - in particular `encoding = FALSE` (`buf_length` and the buffer are not touched) -/
theorem init_spec (fuel : Nat) (st enc pos last second off : Int) :
    let s := HCIcrle_init fuel st enc pos last second off
    s.ub = false ∧ s.oof = false ∧ s.ret = 0 ∧ s.rle_rle_state = 0 ∧ s.rle_encoding = 0 ∧ s.rle_buf_pos = 0 ∧ s.rle_last_byte = nil32 ∧
      s.rle_second_byte = nil32 ∧ s.rle_offset = 0 := by
  simp [HCIcrle_init, nil32, RLE_NIL]

/-- **`HCIcrle_staccess`** as translated from crle.c (the access id of the underlying element was obtained): `HCIcrle_init`'s record -/
theorem staccess_spec (fuel : Nat) (aid st enc pos last second off mode new_aid : Int) (h : new_aid ≠ -1) :
    let s := HCIcrle_staccess fuel aid st enc pos last second off mode new_aid
    s.ub = false ∧ s.oof = false ∧ s.ret = 0 ∧ s.rle_rle_state = 0 ∧ s.rle_encoding = 0 ∧ s.rle_buf_pos = 0 ∧ s.rle_last_byte = nil32 ∧
      s.rle_second_byte = nil32 ∧ s.rle_offset = 0 := by
  have hi := init_spec fuel st enc pos last second off
  simp only at hi
  obtain ⟨i1, i2, i3, i4, i5, i6, i7, i8, i9⟩ := hi
  simp [HCIcrle_staccess, HCIcrle_staccess.St.join, h, i1, i2, i3, i4, i5, i6, i7, i8, i9]

/-- **`HCPcrle_write`** as translated from crle.c, when its test lets the write through: `HCIcrle_encode` on the same record -/
theorem write_spec (fuel : Nat) (ilen off enc st : Int) (buffer : List Int) (last len pos second length : Int) (data out : List Int)
    (hok : ¬ (ilen ≠ off ∧ (off ≠ 0 ∧ length ≤ ilen - off)))
    (hr : (HCIcrle_encode fuel enc st buffer last len pos second off length data out).ret ≠ -1) :
    let r := HCIcrle_encode fuel enc st buffer last len pos second off length data out
    let s := HCPcrle_write fuel ilen off enc st buffer last len pos second length data out
    s.ub = r.ub ∧ s.oof = r.oof ∧ s.ret = length ∧ s.rle_rle_state = r.rle_rle_state ∧ s.rle_buf_length = r.rle_buf_length ∧
      s.rle_buf_pos = r.rle_buf_pos ∧ s.rle_last_byte = r.rle_last_byte ∧ s.rle_second_byte = r.rle_second_byte ∧
      s.rle_offset = r.rle_offset ∧ s.rle_encoding = r.rle_encoding ∧ s.rle_buffer = r.rle_buffer ∧ s.io_out = r.io_out := by
  intro r s
  simp [r, s, HCPcrle_write, HCPcrle_write.St.join, hok, hr]

/-- **`HCPcrle_read`** as translated from crle.c: `HCIcrle_decode` on the same record -/
theorem read_spec (fuel : Nat) (st len last : Int) (buffer : List Int) (pos off length : Int) (data inp : List Int) (io_pos : Int)
    (hr : (HCIcrle_decode fuel st len last buffer pos off length data inp io_pos).ret ≠ -1) :
    let r := HCIcrle_decode fuel st len last buffer pos off length data inp io_pos
    let s := HCPcrle_read fuel st len last buffer pos off length data inp io_pos
    s.ub = r.ub ∧ s.oof = r.oof ∧ s.ret = length ∧ s.rle_rle_state = r.rle_rle_state ∧ s.rle_buf_length = r.rle_buf_length ∧
      s.rle_buf_pos = r.rle_buf_pos ∧ s.rle_last_byte = r.rle_last_byte ∧ s.rle_offset = r.rle_offset ∧ s.rle_buffer = r.rle_buffer ∧
      s.data = r.buf ∧ s.io_pos = r.io_pos := by
  intro r s
  simp [r, s, HCPcrle_read, HCPcrle_read.St.join, hr]

/-- **`HCPcrle_endaccess`** as translated from crle.c, write access, `encoding` set, state RUN or MIX: the flush of `HCIcrle_term` -/
theorem endaccess_flush (fuel : Nat) (access enc st len last : Int) (buffer : List Int) (second : Int) (out : List Int)
    (ha : 0 ≤ access) (hw : access.toNat &&& 2 ≠ 0) (he : enc ≠ 0) (hst : st ≠ 0)
    (hr : (HCIcrle_term fuel st len last buffer enc second out).ret = 0) :
    let r := HCIcrle_term fuel st len last buffer enc second out
    let s := HCPcrle_endaccess fuel access enc st len last buffer second out
    s.ub = r.ub ∧ s.oof = r.oof ∧ s.ret = 0 ∧ s.io_out = r.io_out := by
  intro r s
  simp [r, s, HCPcrle_endaccess, HCPcrle_endaccess.St.join, HCPcrle_endaccess.chk, ha, hw, he, hst, hr]

/-- ... and otherwise (no write access, or `encoding` clear: the record is the decoder's, or state INIT): nothing is written -/
theorem endaccess_noflush (fuel : Nat) (access enc st len last : Int) (buffer : List Int) (second : Int) (out : List Int)
    (ha : 0 ≤ access) (h : ¬ (access.toNat &&& 2 ≠ 0 ∧ enc ≠ 0 ∧ st ≠ 0)) :
    let s := HCPcrle_endaccess fuel access enc st len last buffer second out
    s.ub = false ∧ s.oof = false ∧ s.ret = 0 ∧ s.io_out = out := by
  intro s
  have h' : ¬ ((¬ (access.toNat &&& 2 = 0) ∧ ¬ enc = 0) ∧ ¬ st = 0) := by
    intro ⟨⟨a, b⟩, c⟩; exact h ⟨a, b, c⟩
  simp [s, HCPcrle_endaccess, HCPcrle_endaccess.St.join, HCPcrle_endaccess.chk, ha, h']

/-! ## facts about the model's streams and the coder record at the turn-round points -/

theorem or128_and127 : ∀ n < 256, n &&& 128 ≠ 0 → 128 ||| (n &&& 127) = n := by decide +kernel
theorem and127_of_lo : ∀ n < 256, n &&& 128 = 0 → n &&& 127 = n := by decide +kernel

/-- a stream the model's decoder accepts IS a sequence of valid packets, serialised -/
theorem decFuel_parse : ∀ (fuel : Nat) (cs out : List Byte), decFuel fuel cs = some out →
    ∃ ps : List Pkt, (∀ p ∈ ps, p.Valid) ∧ ser ps = cs ∧ expand ps = out := by
  obtain ⟨c1, c2, c3, c4, c5, c6⟩ := consts
  intro fuel
  induction fuel with
  | zero =>
    intro cs out h
    cases cs with
    | nil => simp [decFuel] at h; subst h; exact ⟨[], by simp, rfl, rfl⟩
    | cons c r => simp [decFuel] at h
  | succ f ih =>
    intro cs out h
    cases cs with
    | nil => simp [decFuel] at h; subst h; exact ⟨[], by simp, rfl, rfl⟩
    | cons c rest =>
      have hc := UInt8.toNat_lt c
      simp only [decFuel] at h
      split at h
      · rename_i hrun
        cases rest with
        | nil => simp at h
        | cons v r =>
          simp only [Option.map_eq_some_iff] at h
          obtain ⟨a, ha, rfl⟩ := h
          obtain ⟨ps, hv, hs, he⟩ := ih r a ha
          refine ⟨.run ((c.toNat &&& COUNT_MASK) + RLE_MIN_RUN) v :: ps, ?_, ?_, ?_⟩
          · intro p hp
            rcases List.mem_cons.mp hp with rfl | hp
            · simp only [Pkt.Valid, c2, c4, c5]
              have : c.toNat &&& 127 ≤ 127 := Nat.and_le_right
              omega
            · exact hv p hp
          · simp only [ser, List.flatMap_cons, Pkt.ser] at hs ⊢
            rw [hs, c1, c2, c4, Nat.add_sub_cancel, or128_and127 c.toNat hc (by rw [c1] at hrun; exact hrun)]
            simp
          · simp only [expand, List.flatMap_cons, Pkt.expand] at he ⊢
            rw [he]
      · rename_i hmix
        simp only [ne_eq, Decidable.not_not] at hmix
        split at h
        · simp at h
        · rename_i hlen
          simp only [Option.map_eq_some_iff] at h
          obtain ⟨a, ha, rfl⟩ := h
          obtain ⟨ps, hv, hs, he⟩ := ih _ a ha
          have hn : (rest.take ((c.toNat &&& COUNT_MASK) + RLE_MIN_MIX)).length = (c.toNat &&& COUNT_MASK) + RLE_MIN_MIX := by
            rw [List.length_take]; omega
          refine ⟨.mix (rest.take ((c.toNat &&& COUNT_MASK) + RLE_MIN_MIX)) :: ps, ?_, ?_, ?_⟩
          · intro p hp
            rcases List.mem_cons.mp hp with rfl | hp
            · show RLE_MIN_MIX ≤ _ ∧ _ ≤ RLE_BUF_SIZE
              rw [hn, c2, c3, c6]
              have : c.toNat &&& 127 ≤ 127 := Nat.and_le_right
              omega
            · exact hv p hp
          · simp only [ser, List.flatMap_cons, Pkt.ser, hn] at hs ⊢
            rw [hs, c2, c6, Nat.add_sub_cancel, and127_of_lo c.toNat hc (by rw [c1] at hmix; exact hmix)]
            simp
          · simp only [expand, List.flatMap_cons, Pkt.expand] at he ⊢
            rw [he]

theorem dec_parse (cs out : List Byte) (h : dec cs = some out) :
    ∃ ps : List Pkt, (∀ p ∈ ps, p.Valid) ∧ ser ps = cs ∧ expand ps = out := decFuel_parse _ cs out h

/-- in state INIT one pass through the loop of `HCIcrle_encode` does not look at `last_byte` (it stores the new byte there) -/
theorem enc_body_init_last (fuel : Nat) (s : HCIcrle_encode.St) (hst : s.rle_rle_state = 0) (x : Int) :
    HCIcrle_encode.loop0.body fuel { s with rle_last_byte := x } = HCIcrle_encode.loop0.body fuel s := by
  obtain ⟨length, buf_i, orig_length, c_, rle_encoding, st, last, len, pos, second, offset, buf, buffer, io_out, ub, oof, ret, done⟩ := s
  simp only at hst
  subst hst
  simp [-List.getD_eq_getElem?_getD, HCIcrle_encode.loop0.body, HCIcrle_encode.chk]

/-- `HCIcrle_encode` entered in state INIT with at least one byte to store: the old content of `last_byte` - left behind by the
    decoder when the access id turns from reading to writing - does not matter -/
theorem encode_init_last (fuel : Nat) (encoding : Int) (buffer : List Int) (last len pos second offset length : Int) (buf io_out : List Int)
    (hl : length > 0) (x : Int) :
    HCIcrle_encode (fuel + 1) encoding 0 buffer x len pos second offset length buf io_out =
      HCIcrle_encode (fuel + 1) encoding 0 buffer last len pos second offset length buf io_out := by
  rw [enc_unfold, enc_unfold]
  have hc : ∀ y, (encStart encoding 0 buffer y len pos second offset length buf io_out).length > 0 ∧
      ¬ ((encStart encoding 0 buffer y len pos second offset length buf io_out).done = true) := by
    intro y; simp [encStart, hl]
  rw [HCIcrle_encode.loop0, HCIcrle_encode.loop0, if_pos (hc x), if_pos (hc last)]
  have e : encStart encoding 0 buffer x len pos second offset length buf io_out =
      { encStart encoding 0 buffer last len pos second offset length buf io_out with rle_last_byte := x } := by
    simp [encStart]
  rw [e, enc_body_init_last _ _ (by simp [encStart])]

/-- nothing left to deliver: the decoder is between packets, at the end of the underlying element -/
theorem decRel_nil (cs : List Byte) (st len last pos : Int) (buffer : List Int) (io_pos : Int)
    (h : DecRel cs [] st len last pos buffer io_pos) : st = 0 ∧ io_pos = (cs.length : Int) := by
  obtain ⟨hb, k, f, tail, hk, hkle, hdec, hc⟩ := h
  rcases hc with ⟨hst, ht⟩ | hl
  · subst ht
    have := decFuel_nil f _ hdec
    have hk' : cs.length ≤ k := by
      rcases Nat.lt_or_ge k cs.length with h | h
      · have : (cs.drop k).length = cs.length - k := by simp
        rw [‹cs.drop k = []›] at this; simp at this; omega
      · exact h
    exact ⟨hst, by rw [hk]; congr 1; omega⟩
  · rcases hl with ⟨_, L, v, hL0, _, _, _, hrem⟩ | ⟨_, L, P, l, hL0, _, _, hPL, hl, hrem⟩
    · have := congrArg List.length hrem
      simp at this; omega
    · have hlen := congrArg List.length hl
      simp [bytes] at hlen
      have hr := congrArg List.length hrem
      simp at hr
      rw [hb] at hlen
      omega

/-! ## the session invariant -/

theorem ints_eq (l : List Byte) : ints l = bytes l := rfl

theorem put_end (file out : List Int) (fpos : Int) (h : fpos = (file.length : Int)) : put file fpos out = file ++ out := by
  subst h; simp [put]

theorem put_nil (file : List Int) (fpos : Int) : put file fpos [] = file := by simp [put]

/-- the record is the ENCODER's: related to a model encoder state `e`, the packets `em` emitted so far are the underlying element, the
    position of `info->aid` is its end, the data is what the packets expand to plus what is pending in the record, and a record that
    holds pending bytes says so (`encoding`) -/
def WInv (σ : St) (data : List Byte) : Prop :=
  ∃ (e : Enc) (em : List Pkt), EncRel e σ.st σ.len σ.pos σ.last σ.second σ.buffer ∧ Rle.Inv e ∧ (∀ p ∈ em, p.Valid) ∧
    σ.file = bytes (ser em) ∧ σ.fpos = (σ.file.length : Int) ∧ expand em ++ pending e = data ∧ σ.offset = (data.length : Int) ∧
    (σ.st ≠ 0 → σ.encoding ≠ 0)

/-- the record is the DECODER's: `encoding` is clear, `second_byte` is NIL (the decoder never touches it, the encoder relies on it when
    it takes over), the underlying element decodes to the data and the record + position are related to "`data` from `offset` on is
    still to come" -/
def RInv (σ : St) (data : List Byte) : Prop :=
  σ.encoding = 0 ∧ σ.second = nil32 ∧ ∃ (cs : List Byte) (k : Nat), σ.file = bytes cs ∧ dec cs = some data ∧ σ.offset = (k : Int) ∧
    k ≤ data.length ∧ DecRel cs (data.drop k) σ.st σ.len σ.last σ.pos σ.buffer σ.fpos

/-- the session invariant: `info->length` is the number of bytes written, the access id has write access, and the record is either
    the encoder's or the decoder's -/
def SInv (σ : St) (data : List Byte) : Prop :=
  σ.length = (data.length : Int) ∧ data.length < 2 ^ 31 ∧ 0 ≤ σ.access ∧ σ.access.toNat &&& 2 ≠ 0 ∧ (WInv σ data ∨ RInv σ data)

/-- **start of access** (`HCIcrle_staccess` on a record with ANY content): reader at offset 0 -/
theorem start_step (σ : St) (cs data : List Byte) (mode : Int) (hf : σ.file = bytes cs) (hd : dec cs = some data)
    (hl : σ.length = (data.length : Int)) (hb : σ.buffer.length = RLE_BUF_SIZE) (ha : 0 ≤ σ.access) (hw : σ.access.toNat &&& 2 ≠ 0)
    (hsz : data.length < 2 ^ 31) :
    ∃ σ0, start σ mode 1 = some σ0 ∧ SInv σ0 data ∧ σ0.offset = 0 := by
  have h := staccess_spec 0 0 σ.st σ.encoding σ.pos σ.last σ.second σ.offset mode 1 (by decide)
  simp only at h
  generalize hs : HCIcrle_staccess 0 0 σ.st σ.encoding σ.pos σ.last σ.second σ.offset mode 1 = s at h
  obtain ⟨h1, h2, h3, h4, h5, h6, h7, h8, h9⟩ := h
  refine ⟨{ σ with st := s.rle_rle_state, encoding := s.rle_encoding, pos := s.rle_buf_pos, last := s.rle_last_byte,
                   second := s.rle_second_byte, offset := s.rle_offset, fpos := 0 }, ?_, ?_, h9⟩
  · simp only [start, hs, h1, h2, h3]; rfl
  · refine ⟨hl, hsz, ha, hw, Or.inr ⟨h5, h8, cs, 0, hf, hd, by simp [h9], Nat.zero_le _, ?_⟩⟩
    simp only [h4, List.drop_zero]
    exact decRel_init cs data hd σ.len _ _ σ.buffer hb

/-- **`Hwrite` at the end of the data** (any non-empty `bs`): the record becomes / stays the encoder's for `data ++ bs` -/
theorem write_step (σ : St) (data bs : List Byte) (h : SInv σ data) (hoff : σ.offset = (data.length : Int)) (hne : bs ≠ [])
    (hsz : data.length + bs.length < 2 ^ 31) :
    ∃ σ', write σ bs = some σ' ∧ SInv σ' (data ++ bs) ∧ σ'.offset = ((data ++ bs).length : Int) := by
  obtain ⟨hlen, hdsz, ha, hw, hmode⟩ := h
  have view : ∃ (e : Enc) (em : List Pkt) (last' : Int), EncRel e σ.st σ.len σ.pos last' σ.second σ.buffer ∧ Rle.Inv e ∧
      (∀ p ∈ em, p.Valid) ∧ σ.file = bytes (ser em) ∧ σ.fpos = (σ.file.length : Int) ∧ expand em ++ pending e = data ∧
      HCIcrle_encode bs.length σ.encoding σ.st σ.buffer σ.last σ.len σ.pos σ.second σ.offset bs.length (bytes bs) [] =
        HCIcrle_encode bs.length σ.encoding σ.st σ.buffer last' σ.len σ.pos σ.second σ.offset bs.length (bytes bs) [] := by
    rcases hmode with ⟨e, em, h1, h2, h3, h4, h5, h6, h7, h8⟩ | ⟨r1, r2, cs, k, r3, r4, r5, r6, r7⟩
    · exact ⟨e, em, σ.last, h1, h2, h3, h4, h5, h6, rfl⟩
    · have hk : k = data.length := by omega
      subst hk
      rw [List.drop_length] at r7
      obtain ⟨hst, hfp⟩ := decRel_nil cs _ _ _ _ _ _ r7
      obtain ⟨em, hv, hs, he⟩ := dec_parse cs data r4
      obtain ⟨n, hn⟩ : ∃ n, bs.length = n + 1 := by
        cases bs with
        | nil => exact absurd rfl hne
        | cons b t => exact ⟨t.length, rfl⟩
      refine ⟨{}, em, nil32, ⟨r7.1, rfl, by rw [r2]; rfl, by simpa using hst⟩, init_inv, hv, by rw [r3, hs], by rw [hfp, r3]; simp,
        by simp [pending, he], ?_⟩
      rw [hst, hn]
      exact encode_init_last n σ.encoding σ.buffer nil32 σ.len σ.pos σ.second σ.offset _ (bytes bs) [] (by omega) σ.last
  obtain ⟨e, em, last', hrel, hinv, hval, hfile, hfpos, hdata, hsame⟩ := view
  have key := HCIcrle_encode_refines e bs bs.length (Nat.le_refl _) σ.encoding σ.st σ.len σ.pos last' σ.second σ.offset σ.buffer []
    (by omega) (by omega) hrel
  simp only at key
  rw [← hsame] at key
  generalize hr : HCIcrle_encode bs.length σ.encoding σ.st σ.buffer σ.last σ.len σ.pos σ.second σ.offset bs.length (bytes bs) [] = r at key
  obtain ⟨g1, g2, g3, g4, g5, g6, g7⟩ := key
  have hok : ¬ (σ.length ≠ σ.offset ∧ (σ.offset ≠ 0 ∧ (bs.length : Int) ≤ σ.length - σ.offset)) := by
    rw [hlen, hoff]; simp
  have ws := write_spec bs.length σ.length σ.offset σ.encoding σ.st σ.buffer σ.last σ.len σ.pos σ.second bs.length (bytes bs) [] hok
    (by rw [hr, g3]; decide)
  simp only [hr] at ws
  generalize hs : HCPcrle_write bs.length σ.length σ.offset σ.encoding σ.st σ.buffer σ.last σ.len σ.pos σ.second bs.length (bytes bs) [] = s at ws
  obtain ⟨w1, w2, w3, w4, w5, w6, w7, w8, w9, w10, w11, w12⟩ := ws
  obtain ⟨q1, q2, q3⟩ := run_ok bs e hinv
  have hbl : (0 : Int) < bs.length := by
    cases bs with
    | nil => exact absurd rfl hne
    | cons b t => simp
  have hret : (s.ret == -1) = false := by rw [w3]; simp
  have hnew : s.rle_offset = ((data ++ bs).length : Int) := by rw [w9, g6, hoff]; simp
  refine ⟨{ σ with st := s.rle_rle_state, len := s.rle_buf_length, pos := s.rle_buf_pos, last := s.rle_last_byte,
                   second := s.rle_second_byte, offset := s.rle_offset, encoding := s.rle_encoding, buffer := s.rle_buffer,
                   file := put σ.file σ.fpos s.io_out, fpos := σ.fpos + s.io_out.length,
                   length := if s.rle_offset > σ.length then s.rle_offset else σ.length }, ?_, ?_, hnew⟩
  · simp only [write, ints_eq, hs, w1, w2, g1, g2, hret]; rfl
  · have hfile' : put σ.file σ.fpos s.io_out = bytes (ser (em ++ (encRun e bs).2)) := by
      rw [put_end _ _ _ hfpos, w12, g4, hfile, List.nil_append, ← bytes_append]
      simp [ser]
    refine ⟨?_, by simp; omega, ha, hw, Or.inl ⟨(encRun e bs).1, em ++ (encRun e bs).2, ?_, q1, ?_, hfile', ?_, ?_, hnew, ?_⟩⟩
    · show (if s.rle_offset > σ.length then s.rle_offset else σ.length) = _
      rw [hnew, hlen]; simp; omega
    · show EncRel _ s.rle_rle_state s.rle_buf_length s.rle_buf_pos s.rle_last_byte s.rle_second_byte s.rle_buffer
      rw [w4, w5, w6, w7, w8, w11]; exact g5
    · intro p hp
      rcases List.mem_append.mp hp with hp | hp
      · exact hval p hp
      · exact q2 p hp
    · show σ.fpos + (s.io_out.length : Int) = ((put σ.file σ.fpos s.io_out).length : Int)
      rw [put_end _ _ _ hfpos, hfpos]; simp
    · simp only [expand, List.flatMap_append, List.append_assoc] at q3 hdata ⊢
      rw [q3, ← List.append_assoc, hdata]
    · intro _
      show s.rle_encoding ≠ 0
      rw [w10, g7, if_neg hne]; decide

/-- one `HCIcrle_decode` of `n` bytes on a reader's record at offset `k`: the bytes `data[k .. k+n)`, reader at `k + n` -/
theorem decode_core (σ : St) (data : List Byte) (n k : Nat) (hdsz : data.length < 2 ^ 31) (hr : RInv σ data) (hk : σ.offset = (k : Int))
    (hle : k + n ≤ data.length) :
    let s := HCIcrle_decode n σ.st σ.len σ.last σ.buffer σ.pos σ.offset n (List.replicate n 0xA5) σ.file σ.fpos
    s.ub = false ∧ s.oof = false ∧ s.ret = 0 ∧ s.buf = bytes ((data.drop k).take n) ∧ s.rle_offset = ((k + n : Nat) : Int) ∧
      RInv { σ with st := s.rle_rle_state, len := s.rle_buf_length, last := s.rle_last_byte, buffer := s.rle_buffer, pos := s.rle_buf_pos,
                    offset := s.rle_offset, fpos := s.io_pos } data := by
  obtain ⟨r1, r2, cs, k', r3, r4, r5, r6, r7⟩ := hr
  have hkk : k' = k := by omega
  subst hkk
  have key := HCIcrle_decode_refines cs (data.drop k') n n σ.st σ.len σ.last σ.pos σ.offset σ.fpos σ.buffer (List.replicate n 0xA5)
    (Nat.le_refl _) (by omega) (by omega) (by simp) r7 (by simp; omega)
  simp only at key
  rw [← r3] at key
  intro s
  obtain ⟨g1, g2, g3, g4, g5, g6⟩ := key
  refine ⟨g1, g2, g3, by rw [g4]; simp, by rw [g5, hk]; simp, r1, r2, cs, k' + n, r3, r4, by show s.rle_offset = _; rw [g5, hk]; simp, hle, ?_⟩
  rw [← List.drop_drop]
  exact g6

/-- **`Hread` of `n ≥ 1` bytes inside the data**: the bytes written there; the record stays the decoder's -/
theorem read_step (σ : St) (data : List Byte) (n k : Nat) (h : SInv σ data) (hk : σ.offset = (k : Int)) (hn : 0 < n)
    (hle : k + n ≤ data.length) :
    ∃ σ' out, read σ n = some (σ', out) ∧ out = bytes ((data.drop k).take n) ∧ SInv σ' data ∧ σ'.offset = ((k + n : Nat) : Int) := by
  obtain ⟨hlen, hdsz, ha, hw, hmode⟩ := h
  rcases hmode with ⟨e, em, h1, h2, h3, h4, h5, h6, h7, h8⟩ | hr
  · omega
  · have key := decode_core σ data n k hdsz hr hk hle
    simp only at key
    have rs := read_spec n σ.st σ.len σ.last σ.buffer σ.pos σ.offset n (List.replicate n 0xA5) σ.file σ.fpos (by rw [key.2.2.1]; decide)
    simp only at rs
    generalize hd : HCIcrle_decode n σ.st σ.len σ.last σ.buffer σ.pos σ.offset n (List.replicate n 0xA5) σ.file σ.fpos = d at key rs
    generalize hs : HCPcrle_read n σ.st σ.len σ.last σ.buffer σ.pos σ.offset n (List.replicate n 0xA5) σ.file σ.fpos = s at rs
    obtain ⟨g1, g2, g3, g4, g5, g6⟩ := key
    obtain ⟨w1, w2, w3, w4, w5, w6, w7, w8, w9, w10, w11⟩ := rs
    have hrange : ¬ (σ.offset + (n : Int) > σ.length) := by rw [hk, hlen]; omega
    have hret : (s.ret == -1) = false := by rw [w3]; simp
    refine ⟨{ σ with st := s.rle_rle_state, len := s.rle_buf_length, last := s.rle_last_byte, buffer := s.rle_buffer, pos := s.rle_buf_pos,
                     offset := s.rle_offset, fpos := s.io_pos }, s.data, ?_, by rw [w10, g4], ⟨hlen, hdsz, ha, hw, Or.inr ?_⟩,
            by show s.rle_offset = _; rw [w8, g5]⟩
    · simp only [RleSess.read, hrange, if_false, hs, w1, w2, g1, g2, hret]; rfl
    · rw [w4, w5, w6, w7, w8, w9, w11]; exact g6

/-- one `HCIcrle_decode(info, n, tmp_buf)` of `HCPcrle_seek` on a reader's record -/
theorem skip_step (σ : St) (data : List Byte) (n k : Nat) (hdsz : data.length < 2 ^ 31) (hr : RInv σ data) (hk : σ.offset = (k : Int))
    (hle : k + n ≤ data.length) :
    ∃ σ', skip σ n = some σ' ∧ RInv σ' data ∧ σ'.offset = ((k + n : Nat) : Int) ∧ σ'.length = σ.length ∧ σ'.access = σ.access := by
  have key := decode_core σ data n k hdsz hr hk hle
  simp only at key
  generalize hd : HCIcrle_decode n σ.st σ.len σ.last σ.buffer σ.pos σ.offset n (List.replicate n 0xA5) σ.file σ.fpos = d at key
  obtain ⟨g1, g2, g3, g4, g5, g6⟩ := key
  refine ⟨{ σ with st := d.rle_rle_state, len := d.rle_buf_length, last := d.rle_last_byte, buffer := d.rle_buffer, pos := d.rle_buf_pos,
                   offset := d.rle_offset, fpos := d.io_pos }, ?_, g6, g5, rfl, rfl⟩
  simp only [skip, hd, g1, g2, g3]; rfl

theorem tmp_buf_size : TMP_BUF_SIZE = 8192 := rfl

/-- the forward half of `HCPcrle_seek` on a reader's record: chunks of `TMP_BUF_SIZE`, then the rest -/
theorem forward_step (data : List Byte) (hdsz : data.length < 2 ^ 31) : ∀ (fuel : Nat) (σ : St) (k off : Nat), RInv σ data →
    σ.offset = (k : Int) → k ≤ off → off ≤ data.length → (off - k) / TMP_BUF_SIZE + 1 ≤ fuel →
    ∃ σ', forward fuel σ off = some σ' ∧ RInv σ' data ∧ σ'.offset = (off : Int) ∧ σ'.length = σ.length ∧ σ'.access = σ.access := by
  intro fuel
  induction fuel with
  | zero => intro σ k off _ _ _ _ hf; exact absurd hf (Nat.not_succ_le_zero _)
  | succ f ih =>
    intro σ k off hr hk hko hod hf
    rw [tmp_buf_size] at hf
    by_cases hc : k + 8192 < off
    · obtain ⟨σ1, s1, s2, s3, s4, s5⟩ := skip_step σ data TMP_BUF_SIZE k hdsz hr hk (by rw [tmp_buf_size]; omega)
      obtain ⟨σ2, t1, t2, t3, t4, t5⟩ := ih σ1 (k + TMP_BUF_SIZE) off s2 s3 (by rw [tmp_buf_size]; omega) hod
        (by rw [tmp_buf_size]; omega)
      refine ⟨σ2, ?_, t2, t3, by rw [t4, s4], by rw [t5, s5]⟩
      have hc' : σ.offset + ((TMP_BUF_SIZE : Nat) : Int) < (off : Int) := by rw [hk, tmp_buf_size]; omega
      simp only [forward, hc', if_true, s1, Option.bind_some]
      exact t1
    · have hc' : ¬ (σ.offset + ((TMP_BUF_SIZE : Nat) : Int) < (off : Int)) := by rw [hk, tmp_buf_size]; omega
      by_cases hlt : k < off
      · obtain ⟨σ1, s1, s2, s3, s4, s5⟩ := skip_step σ data (off - k) k hdsz hr hk (by omega)
        refine ⟨σ1, ?_, s2, by rw [s3]; congr 1; omega, s4, s5⟩
        have hlt' : σ.offset < (off : Int) := by rw [hk]; omega
        have hn : ((off : Int) - σ.offset).toNat = off - k := by rw [hk]; omega
        simp only [forward, hc', if_false, hlt', if_true, hn]
        exact s1
      · have hlt' : ¬ (σ.offset < (off : Int)) := by rw [hk]; omega
        refine ⟨σ, by simp only [forward, hc', if_false, hlt'], hr, by rw [hk]; congr 1; omega, rfl, rfl⟩

/-- the forward half of `HCPcrle_seek` when the position is the target already: nothing happens (this is all a writer may do) -/
theorem forward_same (fuel : Nat) (σ : St) (off : Nat) (h : σ.offset = (off : Int)) : forward (fuel + 1) σ off = some σ := by
  have h1 : ¬ (σ.offset + ((TMP_BUF_SIZE : Nat) : Int) < (off : Int)) := by rw [h, tmp_buf_size]; omega
  have h2 : ¬ (σ.offset < (off : Int)) := by rw [h]; omega
  simp only [forward, h1, if_false, h2]

theorem dfacc_write : H4.Gen.Hdf.DFACC_WRITE = 2 := rfl

/-- what `HCIcrle_init` makes of a record whose underlying element decodes to `data`: a reader at offset 0 -/
theorem init_reader (σ : St) (cs data : List Byte) (hf : σ.file = bytes cs) (hd : dec cs = some data) (hb : σ.buffer.length = RLE_BUF_SIZE) :
    ∃ σ', reinit σ = some σ' ∧
      RInv σ' data ∧ σ'.offset = 0 ∧ σ'.length = σ.length ∧ σ'.access = σ.access := by
  have h := init_spec 0 σ.st σ.encoding σ.pos σ.last σ.second σ.offset
  simp only at h
  generalize hs : HCIcrle_init 0 σ.st σ.encoding σ.pos σ.last σ.second σ.offset = i at h
  obtain ⟨h1, h2, h3, h4, h5, h6, h7, h8, h9⟩ := h
  refine ⟨{ σ with st := i.rle_rle_state, encoding := i.rle_encoding, pos := i.rle_buf_pos, last := i.rle_last_byte,
                   second := i.rle_second_byte, offset := i.rle_offset, fpos := 0 }, ?_, ?_, h9, rfl, rfl⟩
  · simp only [reinit, hs, h1, h2, h3]; rfl
  · refine ⟨h5, h8, cs, 0, hf, hd, by simp [h9], Nat.zero_le _, ?_⟩
    simp only [h4, List.drop_zero]
    exact decRel_init cs data hd σ.len _ _ σ.buffer hb

/-- **the backward half of `HCPcrle_seek`** (`offset < rle_info->offset`): a writer's pending bytes are flushed - exactly when the record
    holds any -, a reader's record is NOT flushed, and `HCIcrle_init` leaves a reader at offset 0 of an element that decodes to the data -/
theorem rewind_step (σ : St) (data : List Byte) (h : SInv σ data) :
    ∃ σ', rewind σ = some σ' ∧ RInv σ' data ∧ σ'.offset = 0 ∧ σ'.length = σ.length ∧ σ'.access = σ.access := by
  obtain ⟨hlen, hdsz, ha, hw, hmode⟩ := h
  rcases hmode with ⟨e, em, h1, h2, h3, h4, h5, h6, h7, h8⟩ | hr
  · by_cases hst : σ.st = 0
    · -- state INIT: nothing is pending, nothing is flushed
      have hm : e.mode = .init := by
        obtain ⟨-, -, -, hm⟩ := h1
        revert hm; cases e.mode <;> simp <;> omega
      have hp : pending e = [] := by simp [pending, hm]
      have hd : dec (ser em) = some data := by
        rw [dec_ser em h3]; rw [hp, List.append_nil] at h6; rw [h6]
      obtain ⟨σ', i1, i2, i3, i4, i5⟩ := init_reader σ (ser em) data h4 hd h1.1
      refine ⟨σ', ?_, i2, i3, i4, i5⟩
      have hc : ¬ ((σ.access.toNat &&& H4.Gen.Hdf.DFACC_WRITE) ≠ 0 ∧ σ.encoding ≠ 0 ∧ σ.st ≠ 0) := by
        intro ⟨_, _, c⟩; exact c hst
      rw [rewind, if_neg hc, Option.bind_some]
      exact i1
    · -- state RUN / MIX: `encoding` is set, `HCIcrle_term` appends the model's last packet
      have hm : e.mode ≠ .init := by
        intro hm
        obtain ⟨-, -, -, hm'⟩ := h1
        rw [hm] at hm'
        exact hst hm'
      have key := HCIcrle_term_refines e hm 0 σ.st σ.len σ.pos σ.last σ.second σ.encoding σ.buffer [] h1
      simp only at key
      generalize ht : HCIcrle_term 0 σ.st σ.len σ.last σ.buffer σ.encoding σ.second [] = t at key
      obtain ⟨g1, g2, g3, g4, g5, g6⟩ := key
      obtain ⟨t1, t2⟩ := term_ok e h2
      have hv : ∀ p ∈ em ++ encTerm e, p.Valid := by
        intro p hp
        rcases List.mem_append.mp hp with hp | hp
        · exact h3 p hp
        · exact t1 p hp
      have hd : dec (ser (em ++ encTerm e)) = some data := by
        rw [dec_ser _ hv]
        simp only [expand, List.flatMap_append] at t2 h6 ⊢
        rw [t2, h6]
      have hfile : put σ.file σ.fpos t.io_out = bytes (ser (em ++ encTerm e)) := by
        rw [put_end _ _ _ h5, g4, h4, List.nil_append, ← bytes_append]; simp [ser]
      generalize hσ1 : ({ σ with st := t.rle_rle_state, len := t.rle_buf_length, last := t.rle_last_byte, buffer := t.rle_buffer,
                                  encoding := t.rle_encoding, second := t.rle_second_byte,
                                  file := put σ.file σ.fpos t.io_out, fpos := σ.fpos + t.io_out.length } : St) = σ1
      have hfl : flush σ = some σ1 := by
        simp only [flush, ht, g1, g2, g3, ← hσ1]; rfl
      obtain ⟨σ', i1, i2, i3, i4, i5⟩ := init_reader σ1 (ser (em ++ encTerm e)) data (by rw [← hσ1]; exact hfile) hd
        (by rw [← hσ1]; exact g5.1)
      rw [← hσ1] at i4 i5
      refine ⟨σ', ?_, i2, i3, i4, i5⟩
      have hc : (σ.access.toNat &&& H4.Gen.Hdf.DFACC_WRITE) ≠ 0 ∧ σ.encoding ≠ 0 ∧ σ.st ≠ 0 := ⟨by rw [dfacc_write]; exact hw, h8 hst, hst⟩
      rw [rewind, if_pos hc, hfl, Option.bind_some]
      exact i1
  · -- the decoder's record: `encoding` is clear, nothing is written
    obtain ⟨r1, r2, cs, k, r3, r4, r5, r6, r7⟩ := hr
    obtain ⟨σ', i1, i2, i3, i4, i5⟩ := init_reader σ cs data r3 r4 r7.1
    refine ⟨σ', ?_, i2, i3, i4, i5⟩
    have hc : ¬ ((σ.access.toNat &&& H4.Gen.Hdf.DFACC_WRITE) ≠ 0 ∧ σ.encoding ≠ 0 ∧ σ.st ≠ 0) := by
      intro ⟨_, c, _⟩; exact c r1
    rw [rewind, if_neg hc, Option.bind_some]
    exact i1

/-- **`Hseek` to any offset inside the data**, forward or backward, from a writer's or a reader's record -/
theorem seek_step (σ : St) (data : List Byte) (k off : Nat) (h : SInv σ data) (hk : σ.offset = (k : Int)) (hod : off ≤ data.length) :
    ∃ σ', seek σ off = some σ' ∧ SInv σ' data ∧ σ'.offset = (off : Int) := by
  have h0 := h
  obtain ⟨hlen, hdsz, ha, hw, hmode⟩ := h
  by_cases hb : off < k
  · obtain ⟨σ1, r1, r2, r3, r4, r5⟩ := rewind_step σ data h0
    obtain ⟨σ2, f1, f2, f3, f4, f5⟩ := forward_step data hdsz (off / TMP_BUF_SIZE + 1) σ1 0 off r2 (by rw [r3]; rfl) (Nat.zero_le _) hod
      (by simp)
    refine ⟨σ2, ?_, ⟨by rw [f4, r4]; exact hlen, hdsz, by rw [f5, r5]; exact ha, by rw [f5, r5]; exact hw, Or.inr f2⟩, f3⟩
    have hc : (off : Int) < σ.offset := by rw [hk]; omega
    simp only [seek, hc, if_true, r1, Option.bind_some]
    exact f1
  · have hc : ¬ ((off : Int) < σ.offset) := by rw [hk]; omega
    rcases hmode with ⟨e, em, h1, h2, h3, h4, h5, h6, h7, h8⟩ | hr
    · have hko : k = off := by omega
      subst hko
      exact ⟨σ, by simp only [seek, hc, if_false, Option.bind_some]; exact forward_same _ σ k hk, h0, hk⟩
    · obtain ⟨σ2, f1, f2, f3, f4, f5⟩ := forward_step data hdsz (off / TMP_BUF_SIZE + 1) σ k off hr hk (by omega) hod
        (by rw [tmp_buf_size]; omega)
      refine ⟨σ2, ?_, ⟨by rw [f4]; exact hlen, hdsz, by rw [f5]; exact ha, by rw [f5]; exact hw, Or.inr f2⟩, f3⟩
      simp only [seek, hc, if_false, Option.bind_some]
      exact f1

/-- **`Hendaccess`**: the underlying element is left as a stream that decodes to exactly the data - a writer's pending bytes are
    flushed, a reader's record (however far it got into a run or a literal packet) is not -/
theorem end_step (σ : St) (data : List Byte) (h : SInv σ data) : ∃ raw, RleSess.endaccess σ = some (bytes raw) ∧ dec raw = some data := by
  obtain ⟨hlen, hdsz, ha, hw, hmode⟩ := h
  rcases hmode with ⟨e, em, h1, h2, h3, h4, h5, h6, h7, h8⟩ | hr
  · by_cases hst : σ.st = 0
    · have hm : e.mode = .init := by
        obtain ⟨-, -, -, hm⟩ := h1
        revert hm; cases e.mode <;> simp <;> omega
      have hp : pending e = [] := by simp [pending, hm]
      have hd : dec (ser em) = some data := by
        rw [dec_ser em h3]; rw [hp, List.append_nil] at h6; rw [h6]
      have key := endaccess_noflush 0 σ.access σ.encoding σ.st σ.len σ.last σ.buffer σ.second [] ha (by intro ⟨_, _, c⟩; exact c hst)
      simp only at key
      generalize hs : HCPcrle_endaccess 0 σ.access σ.encoding σ.st σ.len σ.last σ.buffer σ.second [] = s at key
      obtain ⟨g1, g2, g3, g4⟩ := key
      have hret : (s.ret != 0) = false := by rw [g3]; rfl
      refine ⟨ser em, ?_, hd⟩
      simp only [RleSess.endaccess, hs, g1, g2, hret, Bool.or_self, Bool.false_eq_true, if_false, g4, put_nil, h4]
    · have hm : e.mode ≠ .init := by
        intro hm
        obtain ⟨-, -, -, hm'⟩ := h1
        rw [hm] at hm'
        exact hst hm'
      have key := HCIcrle_term_refines e hm 0 σ.st σ.len σ.pos σ.last σ.second σ.encoding σ.buffer [] h1
      simp only at key
      obtain ⟨t1, t2⟩ := term_ok e h2
      have hv : ∀ p ∈ em ++ encTerm e, p.Valid := by
        intro p hp
        rcases List.mem_append.mp hp with hp | hp
        · exact h3 p hp
        · exact t1 p hp
      have hd : dec (ser (em ++ encTerm e)) = some data := by
        rw [dec_ser _ hv]
        simp only [expand, List.flatMap_append] at t2 h6 ⊢
        rw [t2, h6]
      have fl := endaccess_flush 0 σ.access σ.encoding σ.st σ.len σ.last σ.buffer σ.second [] ha hw (h8 hst) hst key.2.2.1
      simp only at fl
      generalize ht : HCIcrle_term 0 σ.st σ.len σ.last σ.buffer σ.encoding σ.second [] = t at key fl
      generalize hs : HCPcrle_endaccess 0 σ.access σ.encoding σ.st σ.len σ.last σ.buffer σ.second [] = s at fl
      obtain ⟨g1, g2, g3, g4, g5, g6⟩ := key
      obtain ⟨f1, f2, f3, f4⟩ := fl
      have hret : (s.ret != 0) = false := by rw [f3]; rfl
      refine ⟨ser (em ++ encTerm e), ?_, hd⟩
      simp only [RleSess.endaccess, hs, f1, f2, g1, g2, hret, Bool.or_self, Bool.false_eq_true, if_false, f4, g4]
      rw [put_end _ _ _ h5, h4, List.nil_append, ← bytes_append]; simp [ser]
  · obtain ⟨r1, r2, cs, k, r3, r4, r5, r6, r7⟩ := hr
    have key := endaccess_noflush 0 σ.access σ.encoding σ.st σ.len σ.last σ.buffer σ.second [] ha (by intro ⟨_, c, _⟩; exact c r1)
    simp only at key
    generalize hs : HCPcrle_endaccess 0 σ.access σ.encoding σ.st σ.len σ.last σ.buffer σ.second [] = s at key
    obtain ⟨g1, g2, g3, g4⟩ := key
    have hret : (s.ret != 0) = false := by rw [g3]; rfl
    refine ⟨cs, ?_, r4⟩
    simp only [RleSess.endaccess, hs, g1, g2, hret, Bool.or_self, Bool.false_eq_true, if_false, g4, put_nil, r3]

/-- **any in-scope history** keeps the invariant, succeeds at every call, and its reads deliver the bytes written so far -/
theorem run_inv : ∀ (ops : List Op) (σ : St) (data : List Byte) (pos : Nat), SInv σ data → σ.offset = (pos : Int) →
    InScope data.length pos ops → data.length + (written ops).length < 2 ^ 31 →
    ∃ σ' rd, run σ ops = some (σ', rd) ∧ rd = bytes (expected data pos ops) ∧ SInv σ' (data ++ written ops) := by
  intro ops
  induction ops with
  | nil => intro σ data pos h _ _ _; exact ⟨σ, [], rfl, rfl, by simpa [written] using h⟩
  | cons op ops ih =>
    intro σ data pos h hp hs hsz
    cases op with
    | write bs =>
      obtain ⟨s1, s2, s3⟩ := hs
      simp only [written, List.length_append] at hsz
      obtain ⟨σ1, w1, w2, w3⟩ := write_step σ data bs h (by rw [hp, s1]) s2 (by omega)
      obtain ⟨σ2, rd, r1, r2, r3⟩ := ih σ1 (data ++ bs) (data.length + bs.length) w2 (by rw [w3]; simp)
        (by simpa using s3) (by simp; omega)
      refine ⟨σ2, rd, by simp only [run, w1, Option.bind_some, r1], by simpa [expected] using r2, ?_⟩
      simpa [written, List.append_assoc] using r3
    | seek off =>
      obtain ⟨s1, s2⟩ := hs
      obtain ⟨σ1, w1, w2, w3⟩ := seek_step σ data pos off h hp s1
      obtain ⟨σ2, rd, r1, r2, r3⟩ := ih σ1 data off w2 w3 s2 (by simpa [written] using hsz)
      exact ⟨σ2, rd, by simp only [run, w1, Option.bind_some, r1], by simpa [expected] using r2, by simpa [written] using r3⟩
    | read n =>
      obtain ⟨s1, s2, s3⟩ := hs
      obtain ⟨σ1, out, w1, w2, w3, w4⟩ := read_step σ data n pos h hp s1 s2
      obtain ⟨σ2, rd, r1, r2, r3⟩ := ih σ1 data (pos + n) w3 w4 s3 (by simpa [written] using hsz)
      refine ⟨σ2, out ++ rd, by simp only [run, w1, Option.bind_some, r1, Option.map_some], ?_, by simpa [written] using r3⟩
      rw [w2, r2, ← bytes_append]; rfl
end H4.Lemmas.C05RleSess
