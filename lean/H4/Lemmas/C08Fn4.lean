import H4.Lemmas.C08Fn3
/-! Lemmas for `H4.Props.C08Fn3`, part 2: the allocation of the attribute list, the name / class block (`malloc` + `HIstrncpy`), one
    generic induction for the translated `for` loops and the three loops of `vunpackvg` on a state without undefined behaviour.
    Core only. -/
set_option linter.unusedSimpArgs false
set_option linter.unusedVariables false
namespace H4.Lemmas.C08Fn3
open H4 H4.VGroup H4.Gen.Hdf H4.Gen.Fn.Vgp3 H4.C2L
open H4.Lemmas.C08Fn (bytesI bytesI_length bytesI_nil bytesI_cons bytesI_append)

/-- `vg->alist = malloc(nattrs * sizeof(vg_attr_t))` for a non-negative count: both field arrays get `nattrs` fresh cells -/
theorem allocAlist_ok (s : St) (na : Nat) (hn : s.vg_nattrs = na) (hlt : na < 2147483648) :
    allocAlist s = ((s.set_vg_alist_atag (List.replicate na 170)).set_vg_alist_aref (List.replicate na 170)).set_vg_alist_null false := by
  have c : ¬ (((((s.vg_nattrs) % 18446744073709551616) * 4)) % 18446744073709551616 > 9223372036854775807) := by rw [hn]; omega
  have t : Int.toNat (Int.tdiv (((((s.vg_nattrs) % 18446744073709551616) * 4)) % 18446744073709551616) 4) = na := by
    rw [hn, Int.tdiv_eq_ediv_of_nonneg (by omega)]; omega
  simp only [allocAlist, vunpackvg.St.set_vg_alist_atag, vunpackvg.St.set_vg_alist_aref, vunpackvg.St.set_vg_alist_null, c, t,
    if_false, decide_false, Bool.false_eq_true]

/-- `vg->alist = malloc(…)` for a negative count: `(size_t)nattrs * 4` exceeds `PTRDIFF_MAX`, the allocation fails, `goto done`
    with `ret_value = FAIL` -/
theorem allocAlist_fail (s : St) (hn : s.vg_nattrs < 0) (hlo : -2147483648 ≤ s.vg_nattrs) :
    allocAlist s = ((((s.set_vg_alist_atag []).set_vg_alist_aref []).set_vg_alist_null true).set_ret_value (-1)).set_gto true := by
  have c : (((((s.vg_nattrs) % 18446744073709551616) * 4)) % 18446744073709551616 > 9223372036854775807) := by omega
  simp only [allocAlist, vunpackvg.St.set_vg_alist_atag, vunpackvg.St.set_vg_alist_aref, vunpackvg.St.set_vg_alist_null, c,
    if_true, decide_true, vunpackvg.St.set_ret_value, vunpackvg.St.set_gto]

theorem take_takeWhile_length {α} (q : α → Bool) (X : List α) (l : Nat) :
    X.take ((X.take l).takeWhile q).length = (X.take l).takeWhile q := by
  induction X generalizing l with
  | nil => simp
  | cons a t ih =>
    cases l with
    | zero => simp
    | succ l =>
      simp only [List.take_succ_cons, List.takeWhile_cons]
      split
      · simp [ih]
      · simp

/-- the name / class block for a length prefix `l > 0` whose `l` bytes are inside the buffer: a fresh block of `l + 1` cells gets
    the bytes before the first NUL (at most `l`), a NUL, and keeps its indeterminate tail; `bb` skips `l` bytes -/
theorem pstr_ok (setnull : St → Bool → St) (reg : St → List Int) (setreg : St → List Int → St)
    (fn : ∀ b, Frame (setnull · b)) (fr : ∀ x, Frame (setreg · x))
    (un : ∀ t b, (setnull t b).uint16var = t.uint16var) (ur : ∀ t x, (setreg t x).uint16var = t.uint16var)
    (rn : ∀ t b, reg (setnull t b) = reg t) (rr : ∀ t x, reg (setreg t x) = x)
    (ss : ∀ t a f b, setreg (setnull (setreg t a) f) b = setnull (setreg t b) f)
    {B s p} (h : Ok B s p) (l : Nat) (hu : s.uint16var = l) (hl0 : 0 < l) (hlt : l < 65536) (hl : p + l ≤ B.length) :
    pstr s setnull reg setreg =
      vunpackvg.St.set_bb (setnull (setreg s (((B.drop p).take l).takeWhile (· ≠ 0) ++ 0 ::
        List.replicate (l - (((B.drop p).take l).takeWhile (· ≠ 0)).length) 170)) false) ((p + l : Nat) : Int) := by
  have hb := h.buf
  subst hb
  have h0 : ¬ (s.uint16var = 0) := by rw [hu]; omega
  have c : ¬ ((((s.uint16var + 1)) % 18446744073709551616) > 9223372036854775807) := by rw [hu]; omega
  have t : Int.toNat (Int.tdiv (((s.uint16var + 1)) % 18446744073709551616) 1) = l + 1 := by
    rw [hu, Int.tdiv_eq_ediv_of_nonneg (by omega)]; omega
  simp only [pstr, if_neg h0]
  rw [if_neg c, t]
  have c' : ¬ (((((setreg s (List.replicate (l + 1) 170)).uint16var + 1)) % 18446744073709551616) > 9223372036854775807) := by
    rw [ur, hu]; omega
  rw [decide_eq_false c']
  generalize hs2 : setnull (setreg s (List.replicate (l + 1) 170)) false = s2
  have u2 : s2.uint16var = l := by rw [← hs2, un, ur, hu]
  have b2 : s2.bb = p := by rw [← hs2, (fn _).bb, (fr _).bb, h.bb]
  have f2 : s2.buf = s.buf := by rw [← hs2, (fn _).buf, (fr _).buf]
  have r2 : reg s2 = List.replicate (l + 1) 170 := by rw [← hs2, rn, rr]
  have e1 : Int.toNat ((l : Int) + 1 - 1) = l := by omega
  have e2 : Int.toNat ((p : Int)) = p := by omega
  have hK : (((s.buf.drop p).take l).takeWhile (· ≠ 0)).length ≤ l := by
    have := (List.takeWhile_prefix (l := (s.buf.drop p).take l) (· ≠ (0 : Int))).length_le
    simp only [List.length_take, List.length_drop] at this
    omega
  rw [chk_true s2 _ (by
    rw [u2, b2, f2, e1, e2]
    right
    refine ⟨by omega, ?_⟩
    simp only [List.length_drop]
    omega)]
  rw [chk_true s2 _ (by
    rw [u2, b2, f2, r2, e1, e2]
    right
    simp only [List.length_replicate, Int.ofNat_eq_natCast]
    omega)]
  have h1 : ¬ (s2.uint16var + 1 = 0) := by rw [u2]; omega
  rw [if_neg h1, u2, b2, f2, r2, e1, e2, take_takeWhile_length, ← hs2, ss]
  have e3 : Int.toNat (0 + (Int.ofNat (((s.buf.drop p).take l).takeWhile (· ≠ 0)).length + 1)) =
      (((s.buf.drop p).take l).takeWhile (· ≠ 0)).length + 1 := by
    simp only [Int.ofNat_eq_natCast]; omega
  have e4 : Int.toNat 0 = 0 := rfl
  rw [e3, e4, List.take_zero, List.nil_append, List.drop_replicate]
  have e5 : l + 1 - ((((s.buf.drop p).take l).takeWhile (· ≠ 0)).length + 1) = l - (((s.buf.drop p).take l).takeWhile (· ≠ 0)).length := by omega
  rw [e5]
  simp only [vunpackvg.St.set_bb, (fn _).bb, (fr _).bb, un, ur, h.bb, hu, List.append_assoc, List.cons_append, List.nil_append]
  congr 1


/-- a translated `for` loop whose states are known: `F j` after `j` passes, the condition holds at `F j` for `j < m` and fails
    at `F m`; with fuel for the `m` passes the loop ends in `F m` (no `oof`) -/
theorem loop_iter (loop : Nat → St → St) (c : St → Prop) [DecidablePred c] (body : Nat → St → St)
    (h0 : ∀ s, ¬ c s → loop 0 s = s)
    (hs : ∀ fuel s, loop (fuel + 1) s = if c s then loop fuel (body (fuel + 1) s) else s)
    (m : Nat) (F : Nat → St) (hb : ∀ j, j < m → c (F j) ∧ ∀ fuel, body fuel (F j) = F (j + 1)) (he : ¬ c (F m)) :
    ∀ d j fuel, j + d = m → d ≤ fuel → loop fuel (F j) = F m := by
  intro d
  induction d with
  | zero =>
    intro j fuel hj _
    have : j = m := by omega
    subst this
    cases fuel with
    | zero => exact h0 _ he
    | succ f => rw [hs, if_neg he]
  | succ d ih =>
    intro j fuel hj hf
    obtain ⟨f, rfl⟩ : ∃ f, fuel = f + 1 := ⟨fuel - 1, by omega⟩
    obtain ⟨hc, hbd⟩ := hb j (by omega)
    rw [hs, if_pos hc, hbd]
    exact ih (j + 1) f (by omega) (by omega)

/-- the 16-bit values at `p, p+st, p+2*st, …` -/
def vals (B : List Int) (p st m : Nat) : List Int := (List.range m).map fun j => be16 B (p + st * j)

@[simp] theorem vals_length (B : List Int) (p st m : Nat) : (vals B p st m).length = m := by simp [vals]

theorem vals_succ (B : List Int) (p st m : Nat) : vals B p st (m + 1) = vals B p st m ++ [be16 B (p + st * m)] := by
  simp [vals, List.range_succ]

/-- the cells `k .. k+j-1` of an array replaced -/
def fill (l : List Int) (k : Nat) (vs : List Int) : List Int := l.take k ++ vs ++ l.drop (k + vs.length)

theorem fill_nil (l : List Int) (k : Nat) : fill l k [] = l := by simp [fill]

theorem fill_length (l : List Int) (k : Nat) (vs : List Int) (h : k + vs.length ≤ l.length) : (fill l k vs).length = l.length := by
  simp only [fill, List.length_append, List.length_take, List.length_drop]; omega

theorem fill_snoc (l : List Int) (k : Nat) (vs : List Int) (v : Int) (h : k + vs.length < l.length) :
    (fill l k vs).set (k + vs.length) v = fill l k (vs ++ [v]) := by
  simp only [fill, List.length_append, List.length_cons, List.length_nil]
  rw [List.set_append_right _ _ (by simp only [List.length_append, List.length_take]; omega)]
  have e : k + vs.length - (l.take k ++ vs).length = 0 := by
    simp only [List.length_append, List.length_take]; omega
  rw [e, List.drop_eq_getElem_cons (by omega), List.set_cons_zero]
  simp only [List.append_assoc, List.cons_append, List.nil_append]
  congr 3

/-- the state of the tag loop after `j` passes -/
def F0 (B : List Int) (s : St) (p : Nat) (j : Nat) : St :=
  ((s.set_vg_tag (fill s.vg_tag 0 (vals B p 2 j))).set_u ((j : Nat) : Int)).set_bb ((p + 2 * j : Nat) : Int)

theorem loop0_ok {B s p} (h : Ok B s p) (m fuel : Nat) (hu : s.u = 0) (hn : s.vg_nvelt = (m : Int)) (hm : m < 4294967296)
    (hl : p + 2 * m ≤ B.length) (ht : m ≤ s.vg_tag.length) (hf : m ≤ fuel) :
    vunpackvg.loop0 fuel s = F0 B s p m ∧ Ok B (F0 B s p m) (p + 2 * m) := by
  refine ⟨?_, ⟨h.buf, rfl, h.ub, h.oof, h.done, h.gto⟩⟩
  have hF0 : F0 B s p 0 = s := by
    simp only [F0, vals, List.range_zero, List.map_nil, fill_nil, vunpackvg.St.set_vg_tag, vunpackvg.St.set_u, vunpackvg.St.set_bb]
    have e1 : ((0 : Nat) : Int) = s.u := by rw [hu]; rfl
    have e2 : ((p + 2 * 0 : Nat) : Int) = s.bb := by rw [h.bb]; rfl
    rw [e1, e2]
  have key := loop_iter vunpackvg.loop0 (fun s => (s.u < s.vg_nvelt) ∧ ¬(s.done ∨ s.gto)) vunpackvg.loop0.body
    (fun s hc => by rw [vunpackvg.loop0]; exact if_neg hc)
    (fun fuel s => by rw [vunpackvg.loop0])
    m (F0 B s p)
    (fun j hj => by
      have ok : Ok B (F0 B s p j) (p + 2 * j) := ⟨h.buf, rfl, h.ub, h.oof, h.done, h.gto⟩
      refine ⟨⟨?_, ?_⟩, fun fuel => ?_⟩
      · show ((j : Nat) : Int) < s.vg_nvelt
        rw [hn]; omega
      · show ¬ (s.done = true ∨ s.gto = true)
        rw [h.done, h.gto]; simp
      · rw [loop0_body]
        obtain ⟨q, _⟩ := dec16a_ok (·.u) (·.vg_tag) vunpackvg.St.set_vg_tag
          (fun _ => ⟨fun _ => rfl, fun _ => rfl, fun _ => rfl, fun _ => rfl, fun _ => rfl, fun _ => rfl⟩)
          (fun _ _ => rfl) (fun _ _ => rfl) (fun _ _ _ => rfl) ok (by omega) j rfl
          (by show j < (fill s.vg_tag 0 (vals B p 2 j)).length; rw [fill_length _ _ _ (by simp; omega)]; omega)
        simp only [q]
        show vunpackvg.St.set_u (vunpackvg.St.set_bb (vunpackvg.St.set_vg_tag (F0 B s p j) ((fill s.vg_tag 0 (vals B p 2 j)).set j (be16 B (p + 2 * j)))) _) _ = _
        have e := fill_snoc s.vg_tag 0 (vals B p 2 j) (be16 B (p + 2 * j)) (by simp; omega)
        simp only [vals_length, Nat.zero_add] at e
        rw [e, ← vals_succ]
        simp only [F0, vunpackvg.St.set_vg_tag, vunpackvg.St.set_u, vunpackvg.St.set_bb]
        congr 1
        omega)
    (by
      show ¬ (((m : Nat) : Int) < s.vg_nvelt ∧ _)
      rw [hn]; omega)
    m 0 fuel (by omega) hf
  rw [hF0] at key
  exact key

/-- the state of the ref loop after `j` passes -/
def F1 (B : List Int) (s : St) (p : Nat) (j : Nat) : St :=
  ((s.set_vg_ref (fill s.vg_ref 0 (vals B p 2 j))).set_u ((j : Nat) : Int)).set_bb ((p + 2 * j : Nat) : Int)

theorem loop1_ok {B s p} (h : Ok B s p) (m fuel : Nat) (hu : s.u = 0) (hn : s.vg_nvelt = (m : Int)) (hm : m < 4294967296)
    (hl : p + 2 * m ≤ B.length) (ht : m ≤ s.vg_ref.length) (hf : m ≤ fuel) :
    vunpackvg.loop1 fuel s = F1 B s p m ∧ Ok B (F1 B s p m) (p + 2 * m) := by
  refine ⟨?_, ⟨h.buf, rfl, h.ub, h.oof, h.done, h.gto⟩⟩
  have hF1 : F1 B s p 0 = s := by
    simp only [F1, vals, List.range_zero, List.map_nil, fill_nil, vunpackvg.St.set_vg_ref, vunpackvg.St.set_u, vunpackvg.St.set_bb]
    have e1 : ((0 : Nat) : Int) = s.u := by rw [hu]; rfl
    have e2 : ((p + 2 * 0 : Nat) : Int) = s.bb := by rw [h.bb]; rfl
    rw [e1, e2]
  have key := loop_iter vunpackvg.loop1 (fun s => (s.u < s.vg_nvelt) ∧ ¬(s.done ∨ s.gto)) vunpackvg.loop1.body
    (fun s hc => by rw [vunpackvg.loop1]; exact if_neg hc)
    (fun fuel s => by rw [vunpackvg.loop1])
    m (F1 B s p)
    (fun j hj => by
      have ok : Ok B (F1 B s p j) (p + 2 * j) := ⟨h.buf, rfl, h.ub, h.oof, h.done, h.gto⟩
      refine ⟨⟨?_, ?_⟩, fun fuel => ?_⟩
      · show ((j : Nat) : Int) < s.vg_nvelt
        rw [hn]; omega
      · show ¬ (s.done = true ∨ s.gto = true)
        rw [h.done, h.gto]; simp
      · rw [loop1_body]
        obtain ⟨q, _⟩ := dec16a_ok (·.u) (·.vg_ref) vunpackvg.St.set_vg_ref
          (fun _ => ⟨fun _ => rfl, fun _ => rfl, fun _ => rfl, fun _ => rfl, fun _ => rfl, fun _ => rfl⟩)
          (fun _ _ => rfl) (fun _ _ => rfl) (fun _ _ _ => rfl) ok (by omega) j rfl
          (by show j < (fill s.vg_ref 0 (vals B p 2 j)).length; rw [fill_length _ _ _ (by simp; omega)]; omega)
        simp only [q]
        show vunpackvg.St.set_u (vunpackvg.St.set_bb (vunpackvg.St.set_vg_ref (F1 B s p j) ((fill s.vg_ref 0 (vals B p 2 j)).set j (be16 B (p + 2 * j)))) _) _ = _
        have e := fill_snoc s.vg_ref 0 (vals B p 2 j) (be16 B (p + 2 * j)) (by simp; omega)
        simp only [vals_length, Nat.zero_add] at e
        rw [e, ← vals_succ]
        simp only [F1, vunpackvg.St.set_vg_ref, vunpackvg.St.set_u, vunpackvg.St.set_bb]
        congr 1
        omega)
    (by
      show ¬ (((m : Nat) : Int) < s.vg_nvelt ∧ _)
      rw [hn]; omega)
    m 0 fuel (by omega) hf
  rw [hF1] at key
  exact key

/-- the state of the attribute loop after `j` passes -/
def F2 (B : List Int) (s : St) (p : Nat) (j : Nat) : St :=
  (((s.set_vg_alist_atag (fill s.vg_alist_atag 0 (vals B p 4 j))).set_vg_alist_aref (fill s.vg_alist_aref 0 (vals B (p + 2) 4 j))).set_i
    ((j : Nat) : Int)).set_bb ((p + 4 * j : Nat) : Int)

theorem loop2_ok {B s p} (h : Ok B s p) (m fuel : Nat) (hu : s.i = 0) (hn : s.vg_nattrs = (m : Int))
    (hl : p + 4 * m ≤ B.length) (ht : m ≤ s.vg_alist_atag.length) (ht2 : m ≤ s.vg_alist_aref.length) (hf : m ≤ fuel) :
    vunpackvg.loop2 fuel s = F2 B s p m ∧ Ok B (F2 B s p m) (p + 4 * m) := by
  refine ⟨?_, ⟨h.buf, rfl, h.ub, h.oof, h.done, h.gto⟩⟩
  have hF0 : F2 B s p 0 = s := by
    simp only [F2, vals, List.range_zero, List.map_nil, fill_nil, vunpackvg.St.set_vg_alist_atag, vunpackvg.St.set_vg_alist_aref,
      vunpackvg.St.set_i, vunpackvg.St.set_bb]
    have e1 : ((0 : Nat) : Int) = s.i := by rw [hu]; rfl
    have e2 : ((p + 4 * 0 : Nat) : Int) = s.bb := by rw [h.bb]; rfl
    rw [e1, e2]
  have key := loop_iter vunpackvg.loop2 (fun s => (s.i < s.vg_nattrs) ∧ ¬(s.done ∨ s.gto)) vunpackvg.loop2.body
    (fun s hc => by rw [vunpackvg.loop2]; exact if_neg hc)
    (fun fuel s => by rw [vunpackvg.loop2])
    m (F2 B s p)
    (fun j hj => by
      have ok : Ok B (F2 B s p j) (p + 4 * j) := ⟨h.buf, rfl, h.ub, h.oof, h.done, h.gto⟩
      refine ⟨⟨?_, ?_⟩, fun fuel => ?_⟩
      · show ((j : Nat) : Int) < s.vg_nattrs
        rw [hn]; omega
      · show ¬ (s.done = true ∨ s.gto = true)
        rw [h.done, h.gto]; simp
      · rw [loop2_body]
        obtain ⟨q, ok2⟩ := dec16a_ok (·.i) (·.vg_alist_atag) vunpackvg.St.set_vg_alist_atag
          (fun _ => ⟨fun _ => rfl, fun _ => rfl, fun _ => rfl, fun _ => rfl, fun _ => rfl, fun _ => rfl⟩)
          (fun _ _ => rfl) (fun _ _ => rfl) (fun _ _ _ => rfl) ok (by omega) j rfl
          (by show j < (fill s.vg_alist_atag 0 (vals B p 4 j)).length; rw [fill_length _ _ _ (by simp; omega)]; omega)
        obtain ⟨q2, _⟩ := dec16a_ok (·.i) (·.vg_alist_aref) vunpackvg.St.set_vg_alist_aref
          (fun _ => ⟨fun _ => rfl, fun _ => rfl, fun _ => rfl, fun _ => rfl, fun _ => rfl, fun _ => rfl⟩)
          (fun _ _ => rfl) (fun _ _ => rfl) (fun _ _ _ => rfl) ok2 (by omega) j rfl
          (by show j < (fill s.vg_alist_aref 0 (vals B (p + 2) 4 j)).length; rw [fill_length _ _ _ (by simp; omega)]; omega)
        simp only [q, q2]
        show vunpackvg.St.set_i (vunpackvg.St.set_bb (vunpackvg.St.set_vg_alist_aref (vunpackvg.St.set_bb (vunpackvg.St.set_vg_alist_atag (F2 B s p j)
          ((fill s.vg_alist_atag 0 (vals B p 4 j)).set j (be16 B (p + 4 * j)))) _) ((fill s.vg_alist_aref 0 (vals B (p + 2) 4 j)).set j (be16 B (p + 4 * j + 2)))) _) _ = _
        have e := fill_snoc s.vg_alist_atag 0 (vals B p 4 j) (be16 B (p + 4 * j)) (by simp; omega)
        have e' := fill_snoc s.vg_alist_aref 0 (vals B (p + 2) 4 j) (be16 B (p + 4 * j + 2)) (by simp; omega)
        simp only [vals_length, Nat.zero_add] at e e'
        have a1 : p + 4 * j + 2 = p + 2 + 4 * j := by omega
        rw [e, e', ← vals_succ, a1, ← vals_succ]
        simp only [F2, vunpackvg.St.set_vg_alist_atag, vunpackvg.St.set_vg_alist_aref, vunpackvg.St.set_i, vunpackvg.St.set_bb]
        congr 1
        omega)
    (by
      show ¬ (((m : Nat) : Int) < s.vg_nattrs ∧ _)
      rw [hn]; omega)
    m 0 fuel (by omega) hf
  rw [hF0] at key
  exact key


end H4.Lemmas.C08Fn3
