import H4.Lemmas.C07FldDef
/-! `VSsetfields` (vsfld.c) as translated statement by statement (`H4.Gen.Fn.Vsfld.VSsetfields`), cut into pieces: COPIES of the generated
    text (statement groups of the function body, of the field-list branch, and of the bodies of loops 2, 3 and 6), glued to the
    generated definitions by the `…_pieces` theorems, all proved by `rfl` — so a change of the C text breaks the glue.  The pieces of
    the loop bodies are in continuation style (each ends with a call of the next one), which keeps the `rfl` checks fast. -/
namespace H4.Lemmas.C07Fld
open H4.Gen.Fn.Dfconv H4.Gen.Fn.Vsfld H4.VData H4.Gen.Hdf H4.Gen.Vs H4.C2L H4.VsfldEnc
set_option linter.unusedVariables false
set_option linter.unusedSimpArgs false

def sfChk (fuel : Nat) (s : VSsetfields.St) : VSsetfields.St :=
  have s : VSsetfields.St := VSsetfields.St.set_building s (0)
  have s : VSsetfields.St := VSsetfields.St.set_ret_value s ((- 1))
  have s : VSsetfields.St := if (s.fields_null = true) then
      have s : VSsetfields.St := VSsetfields.St.set_ret_value s ((- 1))
      have s : VSsetfields.St := VSsetfields.St.set_gto s (true)
      s
    else
      s
  have s : VSsetfields.St := if s.gto ∨ s.brk ∨ s.cnt then s else
    have s : VSsetfields.St := if (s.vkey_group ≠ 4) then
        have s : VSsetfields.St := VSsetfields.St.set_ret_value s ((- 1))
        have s : VSsetfields.St := VSsetfields.St.set_gto s (true)
        s
      else
        s
    s
  have s : VSsetfields.St := if s.gto ∨ s.brk ∨ s.cnt then s else
    have s : VSsetfields.St := if (s.w_null = true) then
        have s : VSsetfields.St := VSsetfields.St.set_ret_value s ((- 1))
        have s : VSsetfields.St := VSsetfields.St.set_gto s (true)
        s
      else
        s
    s
  have s : VSsetfields.St := if s.gto ∨ s.brk ∨ s.cnt then s else
    have s : VSsetfields.St := if (s.vs_null = true) then
        have s : VSsetfields.St := VSsetfields.St.set_ret_value s ((- 1))
        have s : VSsetfields.St := VSsetfields.St.set_gto s (true)
        s
      else
        s
    s
  have s : VSsetfields.St := if s.gto ∨ s.brk ∨ s.cnt then s else
    have s : VSsetfields.St := if ((s.scan_ret = (- 1)) ∨ (s.ac = 0)) then
        have s : VSsetfields.St := VSsetfields.St.set_ret_value s ((- 1))
        have s : VSsetfields.St := VSsetfields.St.set_gto s (true)
        s
      else
        s
    s
  have s : VSsetfields.St := if s.gto ∨ s.brk ∨ s.cnt then s else
    have s : VSsetfields.St := if (s.ac > 256) then
        have s : VSsetfields.St := VSsetfields.St.set_ret_value s ((- 1))
        have s : VSsetfields.St := VSsetfields.St.set_gto s (true)
        s
      else
        s
    s
  s

def sfRead (fuel : Nat) (s : VSsetfields.St) : VSsetfields.St :=
  have s : VSsetfields.St := if s.gto ∨ s.brk ∨ s.cnt then s else
    have s : VSsetfields.St := if (s.vs_nvertices > 0) then
        have s : VSsetfields.St := VSsetfields.St.set_vs_rlist_n s (0)
        have s : VSsetfields.St := VSsetfields.St.set_vs_rlist_item s ([])
        have s : VSsetfields.St := VSsetfields.St.set_vs_rlist_item_null s (true)
        have s : VSsetfields.St := VSsetfields.chk s ((0 : Int) ≤ (Int.tdiv (((4 * ((s.ac) % 18446744073709551616))) % 18446744073709551616) 4))
        have s : VSsetfields.St := VSsetfields.St.set_vs_rlist_item s (List.replicate (Int.toNat (Int.tdiv (((4 * ((s.ac) % 18446744073709551616))) % 18446744073709551616) 4)) 170)
        have s : VSsetfields.St := VSsetfields.St.set_vs_rlist_item_null s (false)
        have s : VSsetfields.St := if False then
            have s : VSsetfields.St := VSsetfields.St.set_ret_value s ((- 1))
            have s : VSsetfields.St := VSsetfields.St.set_gto s (true)
            s
          else
            s
        have s : VSsetfields.St := if s.gto ∨ s.brk ∨ s.cnt then s else
          have s : VSsetfields.St := VSsetfields.St.set_i s (0)
          have s : VSsetfields.St := VSsetfields.loop5 fuel s
          have s : VSsetfields.St := VSsetfields.St.set_brk s (false)
          s
        have s : VSsetfields.St := if s.gto ∨ s.brk ∨ s.cnt then s else
          have s : VSsetfields.St := VSsetfields.St.set_ret_value s (0)
          s
        s
      else
        s
    s
  s

def sfDone (fuel : Nat) (s : VSsetfields.St) : VSsetfields.St :=
  have s : VSsetfields.St := VSsetfields.St.set_gto s (false)
  have s : VSsetfields.St := if (s.building ≠ 0) then
      have s : VSsetfields.St := VSsetfields.St.set_i s (0)
      have s : VSsetfields.St := VSsetfields.loop7 fuel s
      have s : VSsetfields.St := VSsetfields.St.set_brk s (false)
      have s : VSsetfields.St := VSsetfields.St.set_vs_wlist_name s ([])
      have s : VSsetfields.St := VSsetfields.St.set_vs_wlist_name_null s (true)
      have s : VSsetfields.St := VSsetfields.St.set_vs_wlist_bptr s ([])
      have s : VSsetfields.St := VSsetfields.St.set_vs_wlist_bptr_null s (true)
      have s : VSsetfields.St := VSsetfields.St.set_vs_wlist_n s (0)
      have s : VSsetfields.St := VSsetfields.St.set_vs_wlist_ivsize s (((0) % 65536))
      s
    else
      s
  s

def sfRet (fuel : Nat) (s : VSsetfields.St) : VSsetfields.St :=
  have s : VSsetfields.St := if s.gto ∨ s.brk ∨ s.cnt then s else
    have s : VSsetfields.St := VSsetfields.St.set_ret s (s.ret_value)
    s
  s

def sfBInit (fuel : Nat) (s : VSsetfields.St) : VSsetfields.St :=
  have s : VSsetfields.St := VSsetfields.St.set_vs_wlist_ivsize s (((0) % 65536))
  have s : VSsetfields.St := VSsetfields.St.set_vs_wlist_n s (0)
  have s : VSsetfields.St := VSsetfields.chk s ((0 : Int) ≤ (Int.tdiv (((2 * (((s.ac * 5)) % 18446744073709551616))) % 18446744073709551616) 2))
  have s : VSsetfields.St := VSsetfields.St.set_vs_wlist_bptr s (List.replicate (Int.toNat (Int.tdiv (((2 * (((s.ac * 5)) % 18446744073709551616))) % 18446744073709551616) 2)) 170)
  have s : VSsetfields.St := VSsetfields.St.set_vs_wlist_bptr_null s (false)
  have s : VSsetfields.St := if False then
      have s : VSsetfields.St := VSsetfields.St.set_ret_value s ((- 1))
      have s : VSsetfields.St := VSsetfields.St.set_gto s (true)
      s
    else
      s
  have s : VSsetfields.St := if s.gto ∨ s.brk ∨ s.cnt then s else
    have s : VSsetfields.St := VSsetfields.St.set_vs_wlist_type_i s (0)
    s
  have s : VSsetfields.St := if s.gto ∨ s.brk ∨ s.cnt then s else
    have s : VSsetfields.St := VSsetfields.St.set_vs_wlist_off_i s ((s.vs_wlist_type_i + s.ac))
    s
  have s : VSsetfields.St := if s.gto ∨ s.brk ∨ s.cnt then s else
    have s : VSsetfields.St := VSsetfields.St.set_vs_wlist_isize_i s ((s.vs_wlist_off_i + s.ac))
    s
  have s : VSsetfields.St := if s.gto ∨ s.brk ∨ s.cnt then s else
    have s : VSsetfields.St := VSsetfields.St.set_vs_wlist_order_i s ((s.vs_wlist_isize_i + s.ac))
    s
  have s : VSsetfields.St := if s.gto ∨ s.brk ∨ s.cnt then s else
    have s : VSsetfields.St := VSsetfields.St.set_vs_wlist_esize_i s ((s.vs_wlist_order_i + s.ac))
    s
  have s : VSsetfields.St := if s.gto ∨ s.brk ∨ s.cnt then s else
    have s : VSsetfields.St := VSsetfields.chk s ((0 : Int) ≤ (Int.tdiv (((8 * ((s.ac) % 18446744073709551616))) % 18446744073709551616) 8))
    have s : VSsetfields.St := VSsetfields.St.set_vs_wlist_name s (List.replicate (Int.toNat (Int.tdiv (((8 * ((s.ac) % 18446744073709551616))) % 18446744073709551616) 8)) [])
    have s : VSsetfields.St := VSsetfields.St.set_vs_wlist_name_null s (false)
    have s : VSsetfields.St := if False then
        have s : VSsetfields.St := VSsetfields.St.set_ret_value s ((- 1))
        have s : VSsetfields.St := VSsetfields.St.set_gto s (true)
        s
      else
        s
    s
  s

def sfBNull (fuel : Nat) (s : VSsetfields.St) : VSsetfields.St :=
  have s : VSsetfields.St := if s.gto ∨ s.brk ∨ s.cnt then s else
    have s : VSsetfields.St := VSsetfields.St.set_i s (0)
    have s : VSsetfields.St := VSsetfields.loop0 fuel s
    have s : VSsetfields.St := VSsetfields.St.set_brk s (false)
    s
  s

def sfBFlag (fuel : Nat) (s : VSsetfields.St) : VSsetfields.St :=
  have s : VSsetfields.St := if s.gto ∨ s.brk ∨ s.cnt then s else
    have s : VSsetfields.St := VSsetfields.St.set_building s ((if (0 ≠ 0) then 0 else 1))
    s
  s

def sfBFields (fuel : Nat) (s : VSsetfields.St) : VSsetfields.St :=
  have s : VSsetfields.St := if s.gto ∨ s.brk ∨ s.cnt then s else
    have s : VSsetfields.St := VSsetfields.St.set_i s (0)
    have s : VSsetfields.St := VSsetfields.loop1 fuel s
    have s : VSsetfields.St := VSsetfields.St.set_brk s (false)
    s
  s

def sfBOffs (fuel : Nat) (s : VSsetfields.St) : VSsetfields.St :=
  have s : VSsetfields.St := if s.gto ∨ s.brk ∨ s.cnt then s else
    have s : VSsetfields.St := VSsetfields.St.set_uj s (((0) % 65536))
    have s : VSsetfields.St := VSsetfields.St.set_i s (0)
    have s : VSsetfields.St := VSsetfields.loop4 fuel s
    have s : VSsetfields.St := VSsetfields.St.set_brk s (false)
    s
  s

def sfBFin (fuel : Nat) (s : VSsetfields.St) : VSsetfields.St :=
  have s : VSsetfields.St := if s.gto ∨ s.brk ∨ s.cnt then s else
    have s : VSsetfields.St := VSsetfields.St.set_vs_marked s ((if (0 ≠ 0) then 0 else 1))
    s
  have s : VSsetfields.St := if s.gto ∨ s.brk ∨ s.cnt then s else
    have s : VSsetfields.St := VSsetfields.St.set_vs_new_h_sz s ((if (0 ≠ 0) then 0 else 1))
    s
  have s : VSsetfields.St := if s.gto ∨ s.brk ∨ s.cnt then s else
    have s : VSsetfields.St := VSsetfields.St.set_building s (0)
    s
  have s : VSsetfields.St := if s.gto ∨ s.brk ∨ s.cnt then s else
    have s : VSsetfields.St := VSsetfields.St.set_ret_value s (0)
    have s : VSsetfields.St := VSsetfields.St.set_gto s (true)
    s
  s

def sfBuild (fuel : Nat) (s : VSsetfields.St) : VSsetfields.St :=
  if s.gto ∨ s.brk ∨ s.cnt then s else
    if (s.vs_access = 119) then
      if (s.vs_nvertices = 0) then
        if (s.vs_wlist_n = 0) then sfBFin fuel (sfBOffs fuel (sfBFields fuel (sfBFlag fuel (sfBNull fuel (sfBInit fuel (s))))))
        else s
      else s
    else s

theorem VSsetfields_pieces (fuel : Nat) (vkey : Int) (fields_null : Bool) (ac : Int) (av : List (List Int)) (vkey_group : Int) (w_null : Bool) (vs_null : Bool) (scan_ret : Int) (vs_access : Int) (vs_nvertices : Int) (vs_wlist_n : Int) (vs_wlist_ivsize : Int) (vs_wlist_bptr : List Int) (vs_wlist_bptr_null : Bool) (vs_wlist_type_i : Int) (vs_wlist_off_i : Int) (vs_wlist_isize_i : Int) (vs_wlist_order_i : Int) (vs_wlist_esize_i : Int) (vs_wlist_name : List (List Int)) (vs_wlist_name_null : Bool) (vs_nusym : Int) (vs_usym_name : List (List Int)) (vs_usym_order : List Int) (vs_usym_type : List Int) (vs_usym_isize : List Int) (vs_marked : Int) (vs_new_h_sz : Int) (vs_rlist_n : Int) (vs_rlist_item : List Int) (vs_rlist_item_null : Bool) :
    VSsetfields fuel vkey fields_null ac av vkey_group w_null vs_null scan_ret vs_access vs_nvertices vs_wlist_n vs_wlist_ivsize vs_wlist_bptr vs_wlist_bptr_null vs_wlist_type_i vs_wlist_off_i vs_wlist_isize_i vs_wlist_order_i vs_wlist_esize_i vs_wlist_name vs_wlist_name_null vs_nusym vs_usym_name vs_usym_order vs_usym_type vs_usym_isize vs_marked vs_new_h_sz vs_rlist_n vs_rlist_item vs_rlist_item_null =
    sfRet fuel (sfDone fuel (sfRead fuel (sfBuild fuel (sfChk fuel ({ vkey := vkey, fields_null := fields_null, ac := ac, av := av, vkey_group := vkey_group, w_null := w_null, vs_null := vs_null, scan_ret := scan_ret, vs_access := vs_access, vs_nvertices := vs_nvertices, vs_wlist_n := vs_wlist_n, vs_wlist_ivsize := vs_wlist_ivsize, vs_wlist_bptr := vs_wlist_bptr, vs_wlist_bptr_null := vs_wlist_bptr_null, vs_wlist_type_i := vs_wlist_type_i, vs_wlist_off_i := vs_wlist_off_i, vs_wlist_isize_i := vs_wlist_isize_i, vs_wlist_order_i := vs_wlist_order_i, vs_wlist_esize_i := vs_wlist_esize_i, vs_wlist_name := vs_wlist_name, vs_wlist_name_null := vs_wlist_name_null, vs_nusym := vs_nusym, vs_usym_name := vs_usym_name, vs_usym_order := vs_usym_order, vs_usym_type := vs_usym_type, vs_usym_isize := vs_usym_isize, vs_marked := vs_marked, vs_new_h_sz := vs_new_h_sz, vs_rlist_n := vs_rlist_n, vs_rlist_item := vs_rlist_item, vs_rlist_item_null := vs_rlist_item_null }))))) := rfl

def l2E (fuel : Nat) (s : VSsetfields.St) : VSsetfields.St :=
  have s : VSsetfields.St := if s.gto ∨ s.brk ∨ s.cnt then s else
    have s : VSsetfields.St := VSsetfields.chk s (0 ≤ (s.vs_wlist_isize_i + s.vs_wlist_n) ∧ (s.vs_wlist_isize_i + s.vs_wlist_n) < s.vs_wlist_bptr.length)
    have s : VSsetfields.St := VSsetfields.St.set_value s ((s.vs_wlist_ivsize + (s.vs_wlist_bptr.getD (Int.toNat ((s.vs_wlist_isize_i + s.vs_wlist_n))) 0)))
    s
  have s : VSsetfields.St := if s.gto ∨ s.brk ∨ s.cnt then s else
    have s : VSsetfields.St := if (s.value > 65535) then
        have s : VSsetfields.St := VSsetfields.St.set_ret_value s ((- 1))
        have s : VSsetfields.St := VSsetfields.St.set_gto s (true)
        s
      else
        s
    s
  have s : VSsetfields.St := if s.gto ∨ s.brk ∨ s.cnt then s else
    have s : VSsetfields.St := VSsetfields.St.set_vs_wlist_ivsize s (((s.value) % 65536))
    s
  have s : VSsetfields.St := if s.gto ∨ s.brk ∨ s.cnt then s else
    have s : VSsetfields.St := VSsetfields.St.set_vs_wlist_n s ((s.vs_wlist_n + 1))
    s
  have s : VSsetfields.St := if s.gto ∨ s.brk ∨ s.cnt then s else
    have s : VSsetfields.St := VSsetfields.St.set_brk s (true)
    s
  s

def l2D (fuel : Nat) (s : VSsetfields.St) : VSsetfields.St :=
  have s : VSsetfields.St := if s.gto ∨ s.brk ∨ s.cnt then s else
    have s : VSsetfields.St := VSsetfields.chk s (0 ≤ s.j ∧ s.j < s.vs_usym_isize.length)
    have s : VSsetfields.St := VSsetfields.St.set_value s ((s.order * (s.vs_usym_isize.getD (Int.toNat (s.j)) 0)))
    s
  have s : VSsetfields.St := if s.gto ∨ s.brk ∨ s.cnt then s else
    have s : VSsetfields.St := if (s.value > 65535) then
        have s : VSsetfields.St := VSsetfields.St.set_ret_value s ((- 1))
        have s : VSsetfields.St := VSsetfields.St.set_gto s (true)
        s
      else
        s
    s
  have s : VSsetfields.St := if s.gto ∨ s.brk ∨ s.cnt then s else
    have s : VSsetfields.St := VSsetfields.chk s (0 ≤ (s.vs_wlist_isize_i + s.vs_wlist_n) ∧ (s.vs_wlist_isize_i + s.vs_wlist_n) < s.vs_wlist_bptr.length)
    have s : VSsetfields.St := VSsetfields.St.set_vs_wlist_bptr s (s.vs_wlist_bptr.set (Int.toNat ((s.vs_wlist_isize_i + s.vs_wlist_n))) (((s.value) % 65536)))
    s
  l2E fuel s

def l2C (fuel : Nat) (s : VSsetfields.St) : VSsetfields.St :=
  have s : VSsetfields.St := if s.gto ∨ s.brk ∨ s.cnt then s else
    have s : VSsetfields.St := VSsetfields.chk s (0 ≤ s.j ∧ s.j < s.vs_usym_type.length)
    have s : VSsetfields.St := VSsetfields.chk s ((0 : Int) ≤ (s.vs_usym_type.getD (Int.toNat (s.j)) 0) ∧ (0 : Int) ≤ 4096)
    let r0 : H4.Gen.Fn.Dfconv.DFKNTsize.St := H4.Gen.Fn.Dfconv.DFKNTsize fuel ((Int.ofNat (Int.toNat ((s.vs_usym_type.getD (Int.toNat (s.j)) 0)) ||| Int.toNat (4096))))
    have s : VSsetfields.St := VSsetfields.St.join s r0.ub r0.oof
    have s : VSsetfields.St := VSsetfields.St.set_value s ((s.order * r0.ret))
    s
  have s : VSsetfields.St := if s.gto ∨ s.brk ∨ s.cnt then s else
    have s : VSsetfields.St := if (s.value = (- 1)) then
        have s : VSsetfields.St := VSsetfields.St.set_ret_value s ((- 1))
        have s : VSsetfields.St := VSsetfields.St.set_gto s (true)
        s
      else
        s
    s
  have s : VSsetfields.St := if s.gto ∨ s.brk ∨ s.cnt then s else
    have s : VSsetfields.St := VSsetfields.chk s (0 ≤ (s.vs_wlist_esize_i + s.vs_wlist_n) ∧ (s.vs_wlist_esize_i + s.vs_wlist_n) < s.vs_wlist_bptr.length)
    have s : VSsetfields.St := VSsetfields.St.set_vs_wlist_bptr s (s.vs_wlist_bptr.set (Int.toNat ((s.vs_wlist_esize_i + s.vs_wlist_n))) (((s.value) % 65536)))
    s
  l2D fuel s

def l2B (fuel : Nat) (s : VSsetfields.St) : VSsetfields.St :=
  have s : VSsetfields.St := if s.gto ∨ s.brk ∨ s.cnt then s else
    have s : VSsetfields.St := VSsetfields.chk s (0 ≤ s.j ∧ s.j < s.vs_usym_order.length)
    have s : VSsetfields.St := VSsetfields.St.set_order s ((s.vs_usym_order.getD (Int.toNat (s.j)) 0))
    s
  have s : VSsetfields.St := if s.gto ∨ s.brk ∨ s.cnt then s else
    have s : VSsetfields.St := VSsetfields.chk s (0 ≤ s.j ∧ s.j < s.vs_usym_type.length)
    have s : VSsetfields.St := VSsetfields.chk s (0 ≤ (s.vs_wlist_type_i + s.vs_wlist_n) ∧ (s.vs_wlist_type_i + s.vs_wlist_n) < s.vs_wlist_bptr.length)
    have s : VSsetfields.St := VSsetfields.St.set_vs_wlist_bptr s (s.vs_wlist_bptr.set (Int.toNat ((s.vs_wlist_type_i + s.vs_wlist_n))) ((s.vs_usym_type.getD (Int.toNat (s.j)) 0)))
    s
  have s : VSsetfields.St := if s.gto ∨ s.brk ∨ s.cnt then s else
    have s : VSsetfields.St := VSsetfields.chk s (0 ≤ (s.vs_wlist_order_i + s.vs_wlist_n) ∧ (s.vs_wlist_order_i + s.vs_wlist_n) < s.vs_wlist_bptr.length)
    have s : VSsetfields.St := VSsetfields.St.set_vs_wlist_bptr s (s.vs_wlist_bptr.set (Int.toNat ((s.vs_wlist_order_i + s.vs_wlist_n))) (s.order))
    s
  l2C fuel s

def l2A (fuel : Nat) (s : VSsetfields.St) : VSsetfields.St :=
  have s : VSsetfields.St := VSsetfields.St.set_found s ((if (0 ≠ 0) then 0 else 1))
  have s : VSsetfields.St := VSsetfields.chk s (0 ≤ s.vs_wlist_n ∧ s.vs_wlist_n < s.vs_wlist_name.length)
  have s : VSsetfields.St := VSsetfields.chk s (0 ≤ s.j ∧ s.j < s.vs_usym_name.length)
  have s : VSsetfields.St := VSsetfields.chk s ((0 : Int) ∈ (s.vs_usym_name.getD (Int.toNat (s.j)) []))
  have s : VSsetfields.St := VSsetfields.St.set_vs_wlist_name s (s.vs_wlist_name.set (Int.toNat (s.vs_wlist_n)) (((s.vs_usym_name.getD (Int.toNat (s.j)) []).take (((s.vs_usym_name.getD (Int.toNat (s.j)) []).takeWhile (· ≠ 0)).length + 1))))
  have s : VSsetfields.St := if False then
      have s : VSsetfields.St := VSsetfields.St.set_ret_value s ((- 1))
      have s : VSsetfields.St := VSsetfields.St.set_gto s (true)
      s
    else
      s
  l2B fuel s

def l2Body (fuel : Nat) (s : VSsetfields.St) : VSsetfields.St :=
  have s : VSsetfields.St := VSsetfields.chk s (0 ≤ s.i ∧ s.i < s.av.length)
  have s : VSsetfields.St := VSsetfields.chk s (0 ≤ s.j ∧ s.j < s.vs_usym_name.length)
  have s : VSsetfields.St := VSsetfields.chk s ((strcmpC (s.av.getD (Int.toNat (s.i)) []) (s.vs_usym_name.getD (Int.toNat (s.j)) [])).isSome = true)
  have s : VSsetfields.St := if (¬(((strcmpC (s.av.getD (Int.toNat (s.i)) []) (s.vs_usym_name.getD (Int.toNat (s.j)) [])).getD 0) ≠ 0)) then l2A fuel s else s
  have s : VSsetfields.St := VSsetfields.St.set_cnt s (false)
  have s : VSsetfields.St := if s.gto ∨ s.brk then s else
    have s : VSsetfields.St := VSsetfields.St.set_j s ((s.j + 1))
    s
  s

theorem loop2_body_pieces (fuel : Nat) (s : VSsetfields.St) : VSsetfields.loop2.body fuel s = l2Body fuel s := rfl

def l3E (fuel : Nat) (s : VSsetfields.St) : VSsetfields.St :=
  have s : VSsetfields.St := if s.gto ∨ s.brk ∨ s.cnt then s else
    have s : VSsetfields.St := VSsetfields.chk s (0 ≤ (s.vs_wlist_isize_i + s.vs_wlist_n) ∧ (s.vs_wlist_isize_i + s.vs_wlist_n) < s.vs_wlist_bptr.length)
    have s : VSsetfields.St := VSsetfields.St.set_value s ((s.vs_wlist_ivsize + (s.vs_wlist_bptr.getD (Int.toNat ((s.vs_wlist_isize_i + s.vs_wlist_n))) 0)))
    s
  have s : VSsetfields.St := if s.gto ∨ s.brk ∨ s.cnt then s else
    have s : VSsetfields.St := if (s.value > 65535) then
        have s : VSsetfields.St := VSsetfields.St.set_ret_value s ((- 1))
        have s : VSsetfields.St := VSsetfields.St.set_gto s (true)
        s
      else
        s
    s
  have s : VSsetfields.St := if s.gto ∨ s.brk ∨ s.cnt then s else
    have s : VSsetfields.St := VSsetfields.St.set_vs_wlist_ivsize s (((s.value) % 65536))
    s
  have s : VSsetfields.St := if s.gto ∨ s.brk ∨ s.cnt then s else
    have s : VSsetfields.St := VSsetfields.St.set_vs_wlist_n s ((s.vs_wlist_n + 1))
    s
  have s : VSsetfields.St := if s.gto ∨ s.brk ∨ s.cnt then s else
    have s : VSsetfields.St := VSsetfields.St.set_brk s (true)
    s
  s

def l3D (fuel : Nat) (s : VSsetfields.St) : VSsetfields.St :=
  have s : VSsetfields.St := if s.gto ∨ s.brk ∨ s.cnt then s else
    have s : VSsetfields.St := VSsetfields.chk s (0 ≤ s.j ∧ s.j < (H4.Gen.Vs.RSTAB_ISIZE).length)
    have s : VSsetfields.St := VSsetfields.chk s (0 ≤ (s.vs_wlist_isize_i + s.vs_wlist_n) ∧ (s.vs_wlist_isize_i + s.vs_wlist_n) < s.vs_wlist_bptr.length)
    have s : VSsetfields.St := VSsetfields.St.set_vs_wlist_bptr s (s.vs_wlist_bptr.set (Int.toNat ((s.vs_wlist_isize_i + s.vs_wlist_n))) ((((s.order * (Int.ofNat ((H4.Gen.Vs.RSTAB_ISIZE).getD (Int.toNat (s.j)) 0)))) % 65536)))
    s
  l3E fuel s

def l3C (fuel : Nat) (s : VSsetfields.St) : VSsetfields.St :=
  have s : VSsetfields.St := if s.gto ∨ s.brk ∨ s.cnt then s else
    have s : VSsetfields.St := VSsetfields.chk s (0 ≤ s.j ∧ s.j < (H4.Gen.Vs.RSTAB_TYPE).length)
    have s : VSsetfields.St := VSsetfields.chk s ((0 : Int) ≤ (Int.ofNat ((H4.Gen.Vs.RSTAB_TYPE).getD (Int.toNat (s.j)) 0)) ∧ (0 : Int) ≤ 4096)
    let r1 : H4.Gen.Fn.Dfconv.DFKNTsize.St := H4.Gen.Fn.Dfconv.DFKNTsize fuel ((Int.ofNat (Int.toNat ((Int.ofNat ((H4.Gen.Vs.RSTAB_TYPE).getD (Int.toNat (s.j)) 0))) ||| Int.toNat (4096))))
    have s : VSsetfields.St := VSsetfields.St.join s r1.ub r1.oof
    have s : VSsetfields.St := VSsetfields.St.set_value s ((s.order * r1.ret))
    s
  have s : VSsetfields.St := if s.gto ∨ s.brk ∨ s.cnt then s else
    have s : VSsetfields.St := if (s.value = (- 1)) then
        have s : VSsetfields.St := VSsetfields.St.set_ret_value s ((- 1))
        have s : VSsetfields.St := VSsetfields.St.set_gto s (true)
        s
      else
        s
    s
  have s : VSsetfields.St := if s.gto ∨ s.brk ∨ s.cnt then s else
    have s : VSsetfields.St := VSsetfields.chk s (0 ≤ (s.vs_wlist_esize_i + s.vs_wlist_n) ∧ (s.vs_wlist_esize_i + s.vs_wlist_n) < s.vs_wlist_bptr.length)
    have s : VSsetfields.St := VSsetfields.St.set_vs_wlist_bptr s (s.vs_wlist_bptr.set (Int.toNat ((s.vs_wlist_esize_i + s.vs_wlist_n))) (((s.value) % 65536)))
    s
  l3D fuel s

def l3B (fuel : Nat) (s : VSsetfields.St) : VSsetfields.St :=
  have s : VSsetfields.St := if s.gto ∨ s.brk ∨ s.cnt then s else
    have s : VSsetfields.St := VSsetfields.chk s (0 ≤ s.j ∧ s.j < (H4.Gen.Vs.RSTAB_ORDER).length)
    have s : VSsetfields.St := VSsetfields.St.set_order s ((Int.ofNat ((H4.Gen.Vs.RSTAB_ORDER).getD (Int.toNat (s.j)) 0)))
    s
  have s : VSsetfields.St := if s.gto ∨ s.brk ∨ s.cnt then s else
    have s : VSsetfields.St := VSsetfields.chk s (0 ≤ s.j ∧ s.j < (H4.Gen.Vs.RSTAB_TYPE).length)
    have s : VSsetfields.St := VSsetfields.chk s (0 ≤ (s.vs_wlist_type_i + s.vs_wlist_n) ∧ (s.vs_wlist_type_i + s.vs_wlist_n) < s.vs_wlist_bptr.length)
    have s : VSsetfields.St := VSsetfields.St.set_vs_wlist_bptr s (s.vs_wlist_bptr.set (Int.toNat ((s.vs_wlist_type_i + s.vs_wlist_n))) ((Int.ofNat ((H4.Gen.Vs.RSTAB_TYPE).getD (Int.toNat (s.j)) 0))))
    s
  have s : VSsetfields.St := if s.gto ∨ s.brk ∨ s.cnt then s else
    have s : VSsetfields.St := VSsetfields.chk s (0 ≤ (s.vs_wlist_order_i + s.vs_wlist_n) ∧ (s.vs_wlist_order_i + s.vs_wlist_n) < s.vs_wlist_bptr.length)
    have s : VSsetfields.St := VSsetfields.St.set_vs_wlist_bptr s (s.vs_wlist_bptr.set (Int.toNat ((s.vs_wlist_order_i + s.vs_wlist_n))) (s.order))
    s
  l3C fuel s

def l3A (fuel : Nat) (s : VSsetfields.St) : VSsetfields.St :=
  have s : VSsetfields.St := VSsetfields.St.set_found s ((if (0 ≠ 0) then 0 else 1))
  have s : VSsetfields.St := VSsetfields.chk s (0 ≤ s.vs_wlist_n ∧ s.vs_wlist_n < s.vs_wlist_name.length)
  have s : VSsetfields.St := VSsetfields.chk s (0 ≤ s.j ∧ s.j < (H4.Gen.Vs.RSTAB_NAME).length)
  have s : VSsetfields.St := VSsetfields.chk s ((0 : Int) ∈ ((H4.Gen.Vs.RSTAB_NAME).getD (Int.toNat (s.j)) []))
  have s : VSsetfields.St := VSsetfields.St.set_vs_wlist_name s (s.vs_wlist_name.set (Int.toNat (s.vs_wlist_n)) ((((H4.Gen.Vs.RSTAB_NAME).getD (Int.toNat (s.j)) []).take ((((H4.Gen.Vs.RSTAB_NAME).getD (Int.toNat (s.j)) []).takeWhile (· ≠ 0)).length + 1))))
  have s : VSsetfields.St := if False then
      have s : VSsetfields.St := VSsetfields.St.set_ret_value s ((- 1))
      have s : VSsetfields.St := VSsetfields.St.set_gto s (true)
      s
    else
      s
  l3B fuel s

def l3Body (fuel : Nat) (s : VSsetfields.St) : VSsetfields.St :=
  have s : VSsetfields.St := VSsetfields.chk s (0 ≤ s.i ∧ s.i < s.av.length)
  have s : VSsetfields.St := VSsetfields.chk s (0 ≤ s.j ∧ s.j < (H4.Gen.Vs.RSTAB_NAME).length)
  have s : VSsetfields.St := VSsetfields.chk s ((strcmpC (s.av.getD (Int.toNat (s.i)) []) ((H4.Gen.Vs.RSTAB_NAME).getD (Int.toNat (s.j)) [])).isSome = true)
  have s : VSsetfields.St := if (¬(((strcmpC (s.av.getD (Int.toNat (s.i)) []) ((H4.Gen.Vs.RSTAB_NAME).getD (Int.toNat (s.j)) [])).getD 0) ≠ 0)) then l3A fuel s else s
  have s : VSsetfields.St := VSsetfields.St.set_cnt s (false)
  have s : VSsetfields.St := if s.gto ∨ s.brk then s else
    have s : VSsetfields.St := VSsetfields.St.set_j s ((s.j + 1))
    s
  s

theorem loop3_body_pieces (fuel : Nat) (s : VSsetfields.St) : VSsetfields.loop3.body fuel s = l3Body fuel s := rfl

def l6A (fuel : Nat) (s : VSsetfields.St) : VSsetfields.St :=
  have s : VSsetfields.St := VSsetfields.St.set_found s ((if (0 ≠ 0) then 0 else 1))
  have s : VSsetfields.St := VSsetfields.chk s (0 ≤ s.vs_rlist_n ∧ s.vs_rlist_n < s.vs_rlist_item.length)
  have s : VSsetfields.St := VSsetfields.St.set_vs_rlist_item s (s.vs_rlist_item.set (Int.toNat (s.vs_rlist_n)) (s.j))
  have s : VSsetfields.St := VSsetfields.St.set_vs_rlist_n s ((s.vs_rlist_n + 1))
  have s : VSsetfields.St := VSsetfields.St.set_brk s (true)
  s

def l6Body (fuel : Nat) (s : VSsetfields.St) : VSsetfields.St :=
  have s : VSsetfields.St := VSsetfields.chk s (0 ≤ s.i ∧ s.i < s.av.length)
  have s : VSsetfields.St := VSsetfields.chk s (0 ≤ s.j ∧ s.j < s.vs_wlist_name.length)
  have s : VSsetfields.St := VSsetfields.chk s ((strcmpC (s.av.getD (Int.toNat (s.i)) []) (s.vs_wlist_name.getD (Int.toNat (s.j)) [])).isSome = true)
  have s : VSsetfields.St := if (¬(((strcmpC (s.av.getD (Int.toNat (s.i)) []) (s.vs_wlist_name.getD (Int.toNat (s.j)) [])).getD 0) ≠ 0)) then l6A fuel s else s
  have s : VSsetfields.St := VSsetfields.St.set_cnt s (false)
  have s : VSsetfields.St := if s.gto ∨ s.brk then s else
    have s : VSsetfields.St := VSsetfields.St.set_j s ((s.j + 1))
    s
  s

theorem loop6_body_pieces (fuel : Nat) (s : VSsetfields.St) : VSsetfields.loop6.body fuel s = l6Body fuel s := rfl

def l1C (fuel : Nat) (s : VSsetfields.St) : VSsetfields.St :=
  have s : VSsetfields.St := if s.gto ∨ s.brk ∨ s.cnt then s else
    have s : VSsetfields.St := if (¬(s.found ≠ 0)) then
        have s : VSsetfields.St := VSsetfields.St.set_ret_value s ((- 1))
        have s : VSsetfields.St := VSsetfields.St.set_gto s (true)
        s
      else
        s
    s
  have s : VSsetfields.St := VSsetfields.St.set_cnt s (false)
  have s : VSsetfields.St := if s.gto ∨ s.brk then s else
    have s : VSsetfields.St := VSsetfields.St.set_i s ((s.i + 1))
    s
  s

def l1B (fuel : Nat) (s : VSsetfields.St) : VSsetfields.St :=
  have s : VSsetfields.St := if s.gto ∨ s.brk ∨ s.cnt then s else
    have s : VSsetfields.St := if (¬(s.found ≠ 0)) then
        have s : VSsetfields.St := VSsetfields.St.set_j s (0)
        have s : VSsetfields.St := VSsetfields.loop3 fuel s
        have s : VSsetfields.St := VSsetfields.St.set_brk s (false)
        s
      else
        s
    s
  l1C fuel s

def l1A (fuel : Nat) (s : VSsetfields.St) : VSsetfields.St :=
  have s : VSsetfields.St := VSsetfields.St.set_found s (0)
  have s : VSsetfields.St := VSsetfields.St.set_j s (0)
  have s : VSsetfields.St := VSsetfields.loop2 fuel s
  have s : VSsetfields.St := VSsetfields.St.set_brk s (false)
  l1B fuel s

theorem loop1_body_pieces (fuel : Nat) (s : VSsetfields.St) : VSsetfields.loop1.body fuel s = l1A fuel s := rfl

def l5B (fuel : Nat) (s : VSsetfields.St) : VSsetfields.St :=
  have s : VSsetfields.St := if s.gto ∨ s.brk ∨ s.cnt then s else
    have s : VSsetfields.St := if (¬(s.found ≠ 0)) then
        have s : VSsetfields.St := VSsetfields.St.set_ret_value s ((- 1))
        have s : VSsetfields.St := VSsetfields.St.set_gto s (true)
        s
      else
        s
    s
  have s : VSsetfields.St := VSsetfields.St.set_cnt s (false)
  have s : VSsetfields.St := if s.gto ∨ s.brk then s else
    have s : VSsetfields.St := VSsetfields.St.set_i s ((s.i + 1))
    s
  s

def l5A (fuel : Nat) (s : VSsetfields.St) : VSsetfields.St :=
  have s : VSsetfields.St := VSsetfields.St.set_found s (0)
  have s : VSsetfields.St := VSsetfields.St.set_j s (0)
  have s : VSsetfields.St := VSsetfields.loop6 fuel s
  have s : VSsetfields.St := VSsetfields.St.set_brk s (false)
  l5B fuel s

theorem loop5_body_pieces (fuel : Nat) (s : VSsetfields.St) : VSsetfields.loop5.body fuel s = l5A fuel s := rfl


end H4.Lemmas.C07Fld
