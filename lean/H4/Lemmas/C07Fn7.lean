import H4.Lemmas.C07Fn6
/-! Lemmas for `H4.Props.C07Fn3`, part 5: every phase of the translated `vunpackvs` on a state without undefined behaviour, with the
    state it leaves: preamble, head, the field table (block, cursors, four array loops, name rows), vsname / vsclass, extag / exref, the
    two middle trailer copies, the version-4 fields, the old-type mapping.  Core only. -/
set_option linter.unusedSimpArgs false
set_option linter.unusedVariables false
namespace H4.Lemmas.C07Fn3
open H4 H4.Gen.Hdf H4.Gen.Fn.Vio3 H4.C2L
open H4.Lemmas.C08Fn3 (andS orS andU orU andS_255 andU_255 b8 be16 be32 b8_range b8_nat or_add or_add' orS_nat orU_nat v16 S32 orS_S32 orS_S32i
  nattrs_val flags_val be16N be16_eq be16N_lt be32N be32_eq be32N_lt w16 take_takeWhile_length vals vals_length vals_succ fill fill_nil fill_length
  fill_snoc strAt attr_bit)

/-! ## the phases on a state without undefined behaviour -/

theorem frame_rfl {α} (set : St → α → St) (h1 : ∀ t v, (set t v).bb = t.bb := by intros; rfl) (h2 : ∀ t v, (set t v).buf = t.buf := by intros; rfl)
    (h3 : ∀ t v, (set t v).ub = t.ub := by intros; rfl) (h4 : ∀ t v, (set t v).oof = t.oof := by intros; rfl)
    (h5 : ∀ t v, (set t v).done = t.done := by intros; rfl) (h6 : ∀ t v, (set t v).gto = t.gto := by intros; rfl) : ∀ v, Frame (set · v) :=
  frameOf set h1 h2 h3 h4 h5 h6

/-- the state after the preamble: version and more read from `buf[len-5 ..]`, cursor back at 0 -/
def SPre (B : List Int) (L : Nat) (s : St) : St :=
  ((((s.set_ret_value 0).set_uint16var (be16 B (L - 3))).set_vs_version (w16 (be16 B (L - 5)))).set_vs_more (w16 (be16 B (L - 3)))).set_bb 0

theorem phPre_ok (B : List Int) (L : Nat) (s : St) (hb : s.buf = B) (hlen : s.len = L) (h5 : 5 ≤ L) (hL : L ≤ B.length)
    (hub : s.ub = false) (hoof : s.oof = false) (hd : s.done = false) (hg : s.gto = false) :
    phPre s = SPre B L s ∧ Ok B (SPre B L s) 0 := by
  refine ⟨?_, ⟨hb, rfl, hub, hoof, hd, hg⟩⟩
  have o0 : Ok B (phPre0 s) (L - 5) := ⟨hb, by show s.len - 5 = _; rw [hlen]; omega, hub, hoof, hd, hg⟩
  obtain ⟨q1, o1⟩ := dec16v_ok o0 (by omega)
  have e1 : phVer (phPre0 s) = (((phPre0 s).set_uint16var (be16 B (L - 5))).set_bb ((L - 5 + 2 : Nat) : Int)).set_vs_version (w16 (be16 B (L - 5))) := by
    simp only [phVer]; rw [q1]; rfl
  have o1' : Ok B (phVer (phPre0 s)) (L - 5 + 2) := by rw [e1]; exact ⟨hb, rfl, hub, hoof, hd, hg⟩
  obtain ⟨q2, o2⟩ := dec16v_ok o1' (by omega)
  have e2 : L - 5 + 2 = L - 3 := by omega
  simp only [phPre, phMore]
  rw [q2, e1, e2]
  rfl

/-- interlace, nvertices, ivsize, nfields (`nf` = the 16-bit pattern, below 32768) -/
def SHead (B : List Int) (s : St) : St :=
  (((((s.set_vs_interlace (w16 (be16 B 0))).set_vs_nvertices (S32 (be32 B 2))).set_vs_wlist_ivsize (be16 B 6)).set_int16var (be16N B 8 : Int)).set_vs_wlist_n
    (be16N B 8 : Int)).set_bb 10

theorem phHead_ok {B s} (h : Ok B s 0) (hl : 10 ≤ B.length) (hnf : be16N B 8 < 32768) : phHead s = SHead B s ∧ Ok B (SHead B s) 10 := by
  refine ⟨?_, ⟨h.buf, rfl, h.ub, h.oof, h.done, h.gto⟩⟩
  obtain ⟨q1, o1⟩ := decS16s_ok (·.vs_interlace) vunpackvs.St.set_vs_interlace (frame_rfl _) (fun _ _ => rfl) (fun _ _ _ => rfl) h (by omega)
  obtain ⟨q2, o2⟩ := decS32s_ok (·.vs_nvertices) vunpackvs.St.set_vs_nvertices (frame_rfl _) (fun _ _ => rfl) (fun _ _ _ => rfl) o1 (by omega)
  obtain ⟨q3, o3⟩ := dec16s_ok (·.vs_wlist_ivsize) vunpackvs.St.set_vs_wlist_ivsize (frame_rfl _) (fun _ _ => rfl) (fun _ _ _ => rfl) o2 (by omega)
  obtain ⟨q4, o4⟩ := decS16s_ok (·.int16var) vunpackvs.St.set_int16var (frame_rfl _) (fun _ _ => rfl) (fun _ _ _ => rfl) o3 (by omega)
  have ew : w16 (be16 B (0 + 2 + 4 + 2)) = (be16N B 8 : Int) := by
    have e8 : 0 + 2 + 4 + 2 = 8 := rfl
    rw [e8, be16_eq]; simp only [w16]; omega
  rw [ew] at q4
  simp only [phHead, decS16v]
  rw [q1, q2, q3, q4]
  rfl

/-- the block of `5 n` cells and the five cursors `0, n, 2n, 3n, 4n` -/
def SAllocB (s : St) (n : Nat) : St :=
  ((((((((((((s.set_vs_wlist_bptr (List.replicate (5 * n) 170)).set_vs_wlist_bptr_null false).set_vs_wlist_type 0).set_vs_wlist_type_null false).set_vs_wlist_off
    (n : Int)).set_vs_wlist_off_null false).set_vs_wlist_isize ((2 * n : Nat) : Int)).set_vs_wlist_isize_null false).set_vs_wlist_order ((3 * n : Nat) : Int)).set_vs_wlist_order_null
    false).set_vs_wlist_esize ((4 * n : Nat) : Int)).set_vs_wlist_esize_null false)

theorem phAllocB_ok {B s p} (h : Ok B s p) (n : Nat) (hn : s.vs_wlist_n = (n : Int)) (hlt : n < 32768) :
    phAllocB s = SAllocB s n ∧ Ok B (SAllocB s n) p := by
  refine ⟨?_, ⟨h.buf, h.bb, h.ub, h.oof, h.done, h.gto⟩⟩
  have e5 : ((n : Int) * 5) % 18446744073709551616 = (n : Int) * 5 := Int.emod_eq_of_lt (by omega) (by omega)
  have e10 : (2 * ((n : Int) * 5)) % 18446744073709551616 = 2 * ((n : Int) * 5) := Int.emod_eq_of_lt (by omega) (by omega)
  have c : ¬ ((((2 * (((s.vs_wlist_n * 5)) % 18446744073709551616))) % 18446744073709551616) > 9223372036854775807) := by rw [hn, e5, e10]; omega
  have t : Int.toNat (Int.tdiv (((2 * (((s.vs_wlist_n * 5)) % 18446744073709551616))) % 18446744073709551616) 2) = 5 * n := by
    rw [hn, e5, e10, Int.mul_tdiv_cancel_left _ (by decide)]; omega
  simp only [phAllocB]
  rw [if_neg c, decide_eq_false c, t]
  simp only [guard, fail, SAllocB, vunpackvs.St.set_vs_wlist_bptr, vunpackvs.St.set_vs_wlist_bptr_null, vunpackvs.St.set_vs_wlist_type, vunpackvs.St.set_vs_wlist_type_null,
    vunpackvs.St.set_vs_wlist_off, vunpackvs.St.set_vs_wlist_off_null, vunpackvs.St.set_vs_wlist_isize, vunpackvs.St.set_vs_wlist_isize_null,
    vunpackvs.St.set_vs_wlist_order, vunpackvs.St.set_vs_wlist_order_null, vunpackvs.St.set_vs_wlist_esize, vunpackvs.St.set_vs_wlist_esize_null,
    h.done, h.gto, Bool.false_eq_true, or_self, if_false, hn]
  congr 1 <;> omega

theorem phLoop_ok {B s p} (h : Ok B s p) (loop : St → St) : phLoop s loop = loop (s.set_i 0) := by
  rw [phLoop, guard_ok h]

def SF2 (B : List Int) (s : St) (n : Nat) : St := F0 B ((SAllocB s n).set_i 0) 10 0 n
def SF3 (B : List Int) (s : St) (n : Nat) : St := F1 B ((SF2 B s n).set_i 0) (10 + 2 * n) (2 * n) n
def SF4 (B : List Int) (s : St) (n : Nat) : St := F2 B ((SF3 B s n).set_i 0) (10 + 2 * n + 2 * n) n n
def SF5 (B : List Int) (s : St) (n : Nat) : St := F3 B ((SF4 B s n).set_i 0) (10 + 2 * n + 2 * n + 2 * n) (3 * n) n
def SF6 (B : List Int) (s : St) (n : Nat) : St := ((SF5 B s n).set_vs_wlist_name (List.replicate n [])).set_vs_wlist_name_null false
/-- the state after the field table of `n > 0` fields: the block filled (types, offsets, isizes, orders; `esize` cells still
    indeterminate), `n` name rows, cursor behind the last name -/
def SF7 (B : List Int) (s : St) (n : Nat) : St := F4 B ((SF6 B s n).set_i 0) (10 + 8 * n) n

theorem phAllocN_ok {B s p} (h : Ok B s p) (n : Nat) (hn : s.vs_wlist_n = (n : Int)) (hlt : n < 32768) :
    phAllocN s = (s.set_vs_wlist_name (List.replicate n [])).set_vs_wlist_name_null false := by
  have e8 : (8 * ((n : Int) % 18446744073709551616)) % 18446744073709551616 = 8 * (n : Int) := by
    have : (n : Int) % 18446744073709551616 = n := Int.emod_eq_of_lt (by omega) (by omega)
    rw [this]; exact Int.emod_eq_of_lt (by omega) (by omega)
  have c : ¬ ((((8 * ((s.vs_wlist_n) % 18446744073709551616))) % 18446744073709551616) > 9223372036854775807) := by rw [hn, e8]; omega
  have t : Int.toNat (Int.tdiv (((8 * ((s.vs_wlist_n) % 18446744073709551616))) % 18446744073709551616) 8) = n := by
    rw [hn, e8, Int.mul_tdiv_cancel_left _ (by decide)]; omega
  rw [phAllocN, guard_ok h]
  simp only []
  rw [if_neg c, decide_eq_false c, t]
  simp only [fail, vunpackvs.St.set_vs_wlist_name, vunpackvs.St.set_vs_wlist_name_null, Bool.false_eq_true, if_false]

/-- **the field table** of `n > 0` fields whose names end inside the buffer -/
theorem phFields_ok (M D : Int → Int) {B s} (h : Ok B s 10) (fuel n : Nat) (hn : s.vs_wlist_n = (n : Int)) (hn0 : 0 < n) (hlt : n < 32768)
    (hlen : ∀ t, t < n → nameLen B (10 + 8 * n) t < 32768) (hend : namePos B (10 + 8 * n) n ≤ B.length) (hf : n ≤ fuel) :
    phFields M D fuel s = SF7 B s n ∧ Ok B (SF7 B s n) (namePos B (10 + 8 * n) n) := by
  have hp0 : 10 + 8 * n ≤ B.length := Nat.le_trans (namePos_mono B (10 + 8 * n) 0 n (by omega)) hend
  obtain ⟨q1, o1⟩ := phAllocB_ok h n hn hlt
  have o1' : Ok B ((SAllocB s n).set_i 0) 10 := ⟨o1.buf, o1.bb, o1.ub, o1.oof, o1.done, o1.gto⟩
  obtain ⟨q2, o2⟩ := loop0_ok M D o1' n fuel 0 rfl hn rfl (by omega) (by show 0 + n ≤ (List.replicate (5 * n) 170).length; simp; omega) hf
  have o2' : Ok B ((SF2 B s n).set_i 0) (10 + 2 * n) := ⟨o2.buf, o2.bb, o2.ub, o2.oof, o2.done, o2.gto⟩
  have len2 : (SF2 B s n).vs_wlist_bptr.length = 5 * n := by
    show (fill (List.replicate (5 * n) 170) 0 _).length = _
    rw [fill_length _ _ _ (by simp; omega)]; simp
  obtain ⟨q3, o3⟩ := loop1_ok M D o2' n fuel (2 * n) rfl hn rfl (by omega) (by show 2 * n + n ≤ (SF2 B s n).vs_wlist_bptr.length; rw [len2]; omega) hf
  have o3' : Ok B ((SF3 B s n).set_i 0) (10 + 2 * n + 2 * n) := ⟨o3.buf, o3.bb, o3.ub, o3.oof, o3.done, o3.gto⟩
  have len3 : (SF3 B s n).vs_wlist_bptr.length = 5 * n := by
    show (fill (SF2 B s n).vs_wlist_bptr (2 * n) _).length = _
    rw [fill_length _ _ _ (by simp [idv]; rw [len2]; omega), len2]
  obtain ⟨q4, o4⟩ := loop2_ok M D o3' n fuel n rfl hn rfl (by omega) (by show n + n ≤ (SF3 B s n).vs_wlist_bptr.length; rw [len3]; omega) hf
  have o4' : Ok B ((SF4 B s n).set_i 0) (10 + 2 * n + 2 * n + 2 * n) := ⟨o4.buf, o4.bb, o4.ub, o4.oof, o4.done, o4.gto⟩
  have len4 : (SF4 B s n).vs_wlist_bptr.length = 5 * n := by
    show (fill (SF3 B s n).vs_wlist_bptr n _).length = _
    rw [fill_length _ _ _ (by simp [idv]; rw [len3]; omega), len3]
  obtain ⟨q5, o5⟩ := loop3_ok M D o4' n fuel (3 * n) rfl hn rfl (by omega) (by show 3 * n + n ≤ (SF4 B s n).vs_wlist_bptr.length; rw [len4]; omega) hf
  have e8 : 10 + 2 * n + 2 * n + 2 * n + 2 * n = 10 + 8 * n := by omega
  rw [e8] at o5
  have q6 := phAllocN_ok o5 n hn hlt
  have o6' : Ok B ((SF6 B s n).set_i 0) (10 + 8 * n) := ⟨o5.buf, o5.bb, o5.ub, o5.oof, o5.done, o5.gto⟩
  obtain ⟨q7, o7⟩ := loop4_ok M D o6' n fuel rfl hn (by show (List.replicate n ([] : List Int)).length = n; simp) hlen hend hf
  refine ⟨?_, o7⟩
  have q2' : vunpackvs.loop0 M D fuel (vunpackvs.St.set_i (SAllocB s n) 0) = SF2 B s n := q2
  have q3' : vunpackvs.loop1 M D fuel (vunpackvs.St.set_i (SF2 B s n) 0) = SF3 B s n := q3
  have q4' : vunpackvs.loop2 M D fuel (vunpackvs.St.set_i (SF3 B s n) 0) = SF4 B s n := q4
  have q5' : vunpackvs.loop3 M D fuel (vunpackvs.St.set_i (SF4 B s n) 0) = SF5 B s n := q5
  have q6' : phAllocN (SF5 B s n) = SF6 B s n := q6
  have q7' : vunpackvs.loop4 M D fuel (vunpackvs.St.set_i (SF6 B s n) 0) = SF7 B s n := q7
  have o2s : Ok B (SF2 B s n) (10 + 2 * n) := o2
  have o3s : Ok B (SF3 B s n) (10 + 2 * n + 2 * n) := o3
  have o4s : Ok B (SF4 B s n) (10 + 2 * n + 2 * n + 2 * n) := o4
  have o6s : Ok B (SF6 B s n) (10 + 8 * n) := ⟨o5.buf, o5.bb, o5.ub, o5.oof, o5.done, o5.gto⟩
  simp only [phFields]
  rw [q1, phLoop_ok o1, q2', phLoop_ok o2s, q3', phLoop_ok o3s, q4', phLoop_ok o4s, q5', q6', phLoop_ok o6s, q7']

/-- the state after the field table (`n` = number of fields) -/
def STable (B : List Int) (s : St) (n : Nat) : St := if n = 0 then phNoFields s else SF7 B s n

/-- position of the `vsname` length prefix -/
def pV (B : List Int) : Nat := namePos B (10 + 8 * be16N B 8) (be16N B 8)

theorem phTable_ok (M D : Int → Int) {B s} (h : Ok B s 10) (fuel n : Nat) (hn : s.vs_wlist_n = (n : Int)) (hlt : n < 32768)
    (hlen : ∀ t, t < n → nameLen B (10 + 8 * n) t < 32768) (hend : namePos B (10 + 8 * n) n ≤ B.length) (hf : n ≤ fuel) :
    phTable M D fuel s = STable B s n ∧ Ok B (STable B s n) (namePos B (10 + 8 * n) n) := by
  have c : ¬ (s.vs_wlist_n < 0) := by rw [hn]; omega
  simp only [phTable, STable]
  rw [if_neg c]
  by_cases h0 : n = 0
  · subst h0
    rw [if_pos (by rw [hn]; rfl), if_pos rfl]
    exact ⟨rfl, ⟨h.buf, h.bb, h.ub, h.oof, h.done, h.gto⟩⟩
  · rw [if_neg (by rw [hn]; omega), if_neg h0]
    exact phFields_ok M D h fuel n hn (by omega) hlt hlen hend hf

/-- the C string that `HIstrncpy` leaves at the start of a fixed array `old`: the bytes before the first NUL among the `l` bytes at `p`,
    a NUL, the rest of the array as it was -/
def cstrInto (B : List Int) (p l : Nat) (old : List Int) : List Int :=
  ((B.drop p).take l).takeWhile (· ≠ 0) ++ 0 :: old.drop ((((B.drop p).take l).takeWhile (· ≠ 0)).length + 1)

/-- the state after a `vsname` / `vsclass` field whose length prefix is at `p` -/
def SFix (reg : St → List Int) (setreg : St → List Int → St) (B : List Int) (s : St) (p : Nat) : St :=
  vunpackvs.St.set_bb (setreg (s.set_int16var (be16N B p : Int)) (cstrInto B (p + 2) (be16N B p) (reg s))) ((p + 2 + be16N B p : Nat) : Int)

theorem phStr_ok (reg : St → List Int) (setreg : St → List Int → St) (fr : ∀ x, Frame (setreg · x))
    (ri : ∀ t v w, reg (vunpackvs.St.set_bb (vunpackvs.St.set_int16var t v) w) = reg t)
    (ui : ∀ t x, (setreg t x).int16var = t.int16var)
    (sb : ∀ t v x w, vunpackvs.St.set_bb (setreg (vunpackvs.St.set_bb t v) x) w = vunpackvs.St.set_bb (setreg t x) w)
    {B s p} (h : Ok B s p) (hl : p + 2 + be16N B p ≤ B.length) (hlt : be16N B p < 32768)
    (hfit : (((B.drop (p + 2)).take (be16N B p)).takeWhile (· ≠ 0)).length + 1 ≤ (reg s).length) :
    phStr s reg setreg = SFix reg setreg B s p ∧ Ok B (SFix reg setreg B s p) (p + 2 + be16N B p) := by
  refine ⟨?_, ((h.frame ((frame_rfl vunpackvs.St.set_int16var) _)).frame (fr _)).move _⟩
  obtain ⟨q1, o1⟩ := decS16s_ok (·.int16var) vunpackvs.St.set_int16var (frame_rfl _) (fun _ _ => rfl) (fun _ _ _ => rfl) h (by omega)
  have ew : w16 (be16 B p) = (be16N B p : Int) := by
    rw [be16_eq]; simp only [w16]; omega
  rw [ew] at q1 o1
  simp only [phStr]
  rw [guard_ok h]
  simp only [decS16v]
  rw [q1, guard_ok o1]
  have q2 := cpy_ok reg setreg o1 (be16N B p) rfl (by omega) (by rw [ri]; exact hfit)
  rw [q2, ri]
  have o2 : Ok B (setreg (vunpackvs.St.set_bb (vunpackvs.St.set_int16var s (be16N B p : Int)) ((p + 2 : Nat) : Int))
      (cstrInto B (p + 2) (be16N B p) (reg s))) (p + 2) := o1.frame (fr _)
  rw [show (((B.drop (p + 2)).take (be16N B p)).takeWhile (· ≠ 0) ++ 0 :: (reg s).drop ((((B.drop (p + 2)).take (be16N B p)).takeWhile (· ≠ 0)).length + 1))
    = cstrInto B (p + 2) (be16N B p) (reg s) from rfl, guard_ok o2]
  obtain ⟨q3, _⟩ := skip_ok o2 (be16N B p) (by rw [ui]) hlt
  rw [q3, sb]
  rfl

theorem phExtag_ok {B s p} (h : Ok B s p) (hl : p + 2 ≤ B.length) :
    phExtag s = (s.set_vs_extag (be16 B p)).set_bb ((p + 2 : Nat) : Int) ∧
      Ok B ((s.set_vs_extag (be16 B p)).set_bb ((p + 2 : Nat) : Int)) (p + 2) := by
  rw [phExtag, guard_ok h]
  exact dec16s_ok (·.vs_extag) vunpackvs.St.set_vs_extag (frame_rfl _) (fun _ _ => rfl) (fun _ _ _ => rfl) h hl

theorem phExref_ok {B s p} (h : Ok B s p) (hl : p + 2 ≤ B.length) :
    phExref s = (s.set_vs_exref (be16 B p)).set_bb ((p + 2 : Nat) : Int) ∧
      Ok B ((s.set_vs_exref (be16 B p)).set_bb ((p + 2 : Nat) : Int)) (p + 2) := by
  rw [phExref, guard_ok h]
  exact dec16s_ok (·.vs_exref) vunpackvs.St.set_vs_exref (frame_rfl _) (fun _ _ => rfl) (fun _ _ _ => rfl) h hl

/-- the middle copy of version / more agrees with the trailer -/
theorem phMid_ok {B s p} (h : Ok B s p) (x : St → Int) (hx : ∀ t v w, x (vunpackvs.St.set_bb (vunpackvs.St.set_temp t v) w) = x t)
    (hl : p + 2 ≤ B.length) (heq : w16 (be16 B p) = x s) :
    phMid s x = (s.set_temp (w16 (be16 B p))).set_bb ((p + 2 : Nat) : Int) ∧
      Ok B ((s.set_temp (w16 (be16 B p))).set_bb ((p + 2 : Nat) : Int)) (p + 2) := by
  obtain ⟨q1, o1⟩ := decS16s_ok (·.temp) vunpackvs.St.set_temp (frame_rfl _) (fun _ _ => rfl) (fun _ _ _ => rfl) h hl
  refine ⟨?_, o1⟩
  simp only [phMid]
  rw [guard_ok h, q1, guard_ok o1]
  have : ¬ ((vunpackvs.St.set_bb (vunpackvs.St.set_temp s (w16 (be16 B p))) ((p + 2 : Nat) : Int)).temp ≠ x (vunpackvs.St.set_bb (vunpackvs.St.set_temp s (w16 (be16 B p))) ((p + 2 : Nat) : Int))) := by
    rw [hx]; show ¬ (w16 (be16 B p) ≠ x s); rw [heq]; simp
  rw [if_neg this]

/-- the middle copy DIFFERS: `HGOTO_ERROR(DFE_BADVH, FAIL)` -/
theorem phMid_fail {B s p} (h : Ok B s p) (x : St → Int) (hx : ∀ t v w, x (vunpackvs.St.set_bb (vunpackvs.St.set_temp t v) w) = x t)
    (hl : p + 2 ≤ B.length) (hne : w16 (be16 B p) ≠ x s) :
    (phMid s x).ub = false ∧ (phMid s x).oof = false ∧ (phMid s x).done = false ∧ (phMid s x).gto = true ∧ (phMid s x).ret_value = -1 := by
  obtain ⟨q1, o1⟩ := decS16s_ok (·.temp) vunpackvs.St.set_temp (frame_rfl _) (fun _ _ => rfl) (fun _ _ _ => rfl) h hl
  simp only [phMid]
  rw [guard_ok h, q1, guard_ok o1]
  have : ((vunpackvs.St.set_bb (vunpackvs.St.set_temp s (w16 (be16 B p))) ((p + 2 : Nat) : Int)).temp ≠ x (vunpackvs.St.set_bb (vunpackvs.St.set_temp s (w16 (be16 B p))) ((p + 2 : Nat) : Int))) := by
    rw [hx]; exact hne
  rw [if_pos this]
  exact ⟨h.ub, h.oof, h.done, rfl, rfl⟩

/-! ### the version-4 fields -/

theorem allocAlist_ok (s : St) (na : Nat) (hn : s.vs_nattrs = na) (hlt : na < 2147483648) :
    allocAlist s = (((s.set_vs_alist_findex (List.replicate na 170)).set_vs_alist_atag (List.replicate na 170)).set_vs_alist_aref (List.replicate na 170)).set_vs_alist_null false := by
  have e1 : ((na : Int) % 18446744073709551616) = na := Int.emod_eq_of_lt (by omega) (by omega)
  have e2 : ((na : Int) * 8) % 18446744073709551616 = na * 8 := Int.emod_eq_of_lt (by omega) (by omega)
  have c : ¬ (((((s.vs_nattrs) % 18446744073709551616) * 8)) % 18446744073709551616 > 9223372036854775807) := by rw [hn, e1, e2]; omega
  have t : Int.toNat (Int.tdiv (((((s.vs_nattrs) % 18446744073709551616) * 8)) % 18446744073709551616) 8) = na := by
    rw [hn, e1, e2, Int.mul_tdiv_cancel _ (by decide)]; omega
  simp only [allocAlist, fail, vunpackvs.St.set_vs_alist_findex, vunpackvs.St.set_vs_alist_atag, vunpackvs.St.set_vs_alist_aref, vunpackvs.St.set_vs_alist_null, c, t,
    if_false, decide_false, Bool.false_eq_true]

theorem allocAlist_fail (s : St) (hn : s.vs_nattrs < 0) (hlo : -2147483648 ≤ s.vs_nattrs) :
    (allocAlist s).gto = true ∧ (allocAlist s).ret_value = -1 ∧ (allocAlist s).ub = s.ub ∧ (allocAlist s).oof = s.oof ∧ (allocAlist s).done = s.done := by
  have e1 : ((s.vs_nattrs) % 18446744073709551616) = s.vs_nattrs + 18446744073709551616 := by omega
  have c : (((((s.vs_nattrs) % 18446744073709551616) * 8)) % 18446744073709551616 > 9223372036854775807) := by
    rw [e1]; omega
  simp only [allocAlist, fail, vunpackvs.St.set_vs_alist_findex, vunpackvs.St.set_vs_alist_atag, vunpackvs.St.set_vs_alist_aref, vunpackvs.St.set_vs_alist_null, c,
    if_true, decide_true, vunpackvs.St.set_ret_value, vunpackvs.St.set_gto]
  simp

theorem phV4_old (M D : Int → Int) {B s p} (h : Ok B s p) (fuel : Nat) (hv : s.vs_version ≠ 4) : phV4 M D fuel s = s := by
  rw [phV4, guard_ok h]; exact if_neg hv

theorem phV4_flags (M D : Int → Int) {B s p} (h : Ok B s p) (fuel : Nat) (hv : s.vs_version = 4) (hl : p + 4 ≤ B.length) (ha : be32N B p % 2 = 0) :
    phV4 M D fuel s = (s.set_vs_flags (be32 B p)).set_bb ((p + 4 : Nat) : Int) ∧
      Ok B ((s.set_vs_flags (be32 B p)).set_bb ((p + 4 : Nat) : Int)) (p + 4) := by
  obtain ⟨q, o⟩ := decFlags_ok h hl
  refine ⟨?_, o⟩
  rw [phV4, guard_ok h]
  simp only [if_pos hv]
  rw [q]
  have : ¬ (andU ((vunpackvs.St.set_vs_flags s (be32 B p)).set_bb ((p + 4 : Nat) : Int)).vs_flags (((1 : Int) % 4294967296)) ≠ 0) := by
    show ¬ (andU (be32 B p) _ ≠ 0)
    rw [be32_eq, attr_bit _ (be32N_lt B p)]; omega
  rw [if_neg this]

/-- the state before the attribute loop -/
def SAlloc (B : List Int) (s : St) (p na : Nat) : St :=
  vunpackvs.St.set_i (vunpackvs.St.set_vs_alist_null (vunpackvs.St.set_vs_alist_aref (vunpackvs.St.set_vs_alist_atag (vunpackvs.St.set_vs_alist_findex
    (vunpackvs.St.set_bb (vunpackvs.St.set_vs_nattrs (vunpackvs.St.set_bb (vunpackvs.St.set_vs_flags s (be32 B p)) ((p + 4 : Nat) : Int)) (na : Int))
      ((p + 8 : Nat) : Int)) (List.replicate na 170)) (List.replicate na 170)) (List.replicate na 170)) false) 0

/-- the state after the attribute list of `na` triples that starts at `p + 8` (`p` = position of the flags word) -/
def SAttr (B : List Int) (s : St) (p na : Nat) : St := F5 B (SAlloc B s p na) (p + 8) na

theorem phV4_attrs (M D : Int → Int) {B s p} (h : Ok B s p) (fuel : Nat) (hv : s.vs_version = 4) (ha : be32N B p % 2 = 1)
    (hna : be32N B (p + 4) < 2147483648) (hl : p + 8 + 8 * be32N B (p + 4) ≤ B.length) (hf : be32N B (p + 4) ≤ fuel) :
    phV4 M D fuel s = SAttr B s p (be32N B (p + 4)) ∧ Ok B (SAttr B s p (be32N B (p + 4))) (p + 8 + 8 * be32N B (p + 4)) := by
  obtain ⟨q, o⟩ := decFlags_ok h (by omega)
  obtain ⟨q2, o2⟩ := decS32s_ok (·.vs_nattrs) vunpackvs.St.set_vs_nattrs (frame_rfl _) (fun _ _ => rfl) (fun _ _ _ => rfl) o (by omega)
  have e8 : p + 4 + 4 = p + 8 := by omega
  rw [e8] at q2 o2
  have s32 : S32 (be32 B (p + 4)) = (be32N B (p + 4) : Int) := by
    rw [be32_eq]; simp only [S32]; split <;> omega
  rw [s32] at q2 o2
  have q3 := allocAlist_ok (vunpackvs.St.set_bb (vunpackvs.St.set_vs_nattrs (vunpackvs.St.set_bb (vunpackvs.St.set_vs_flags s (be32 B p)) ((p + 4 : Nat) : Int))
    (be32N B (p + 4) : Int)) ((p + 8 : Nat) : Int)) (be32N B (p + 4)) rfl hna
  have o3 : Ok B (SAlloc B s p (be32N B (p + 4))) (p + 8) := ⟨h.buf, rfl, h.ub, h.oof, h.done, h.gto⟩
  obtain ⟨q4, o4⟩ := loop5_ok M D o3 (be32N B (p + 4)) fuel rfl rfl hl
    (by show _ ≤ (List.replicate _ _).length; simp) (by show _ ≤ (List.replicate _ _).length; simp) (by show _ ≤ (List.replicate _ _).length; simp) hf
  refine ⟨?_, o4⟩
  rw [phV4, guard_ok h]
  simp only [if_pos hv]
  rw [q]
  have : (andU ((vunpackvs.St.set_vs_flags s (be32 B p)).set_bb ((p + 4 : Nat) : Int)).vs_flags (((1 : Int) % 4294967296)) ≠ 0) := by
    show (andU (be32 B p) _ ≠ 0)
    rw [be32_eq, attr_bit _ (be32N_lt B p)]; omega
  rw [if_pos this]
  simp only [phAttrs]
  rw [q2, q3]
  have og : Ok B (vunpackvs.St.set_vs_alist_null (vunpackvs.St.set_vs_alist_aref (vunpackvs.St.set_vs_alist_atag (vunpackvs.St.set_vs_alist_findex
    (vunpackvs.St.set_bb (vunpackvs.St.set_vs_nattrs (vunpackvs.St.set_bb (vunpackvs.St.set_vs_flags s (be32 B p)) ((p + 4 : Nat) : Int)) (be32N B (p + 4) : Int))
      ((p + 8 : Nat) : Int)) (List.replicate (be32N B (p + 4)) 170)) (List.replicate (be32N B (p + 4)) 170)) (List.replicate (be32N B (p + 4)) 170)) false) (p + 8) :=
    ⟨h.buf, rfl, h.ub, h.oof, h.done, h.gto⟩
  rw [phLoop_ok og]
  exact q4

/-- `if (vs->version <= VSET_OLD_TYPES) …` -/
theorem phOld_new (M D : Int → Int) {B s p} (h : Ok B s p) (fuel : Nat) (hv : ¬ s.vs_version ≤ 2) : phOld M D fuel s = s := by
  rw [phOld, guard_ok h]; exact if_neg hv

theorem phOld_old (M D : Int → Int) {B s p} (h : Ok B s p) (fuel : Nat) (hv : s.vs_version ≤ 2) (m tN : Nat) (hn : s.vs_wlist_n = (m : Int))
    (hc : s.vs_wlist_type = (tN : Int)) (ht : tN + m ≤ s.vs_wlist_bptr.length) (hf : m ≤ fuel) :
    phOld M D fuel s = F6 M (s.set_i 0) tN m ∧ Ok B (F6 M (s.set_i 0) tN m) p := by
  rw [phOld, guard_ok h]
  simp only [if_pos hv]
  exact loop6_ok M D (show Ok B (s.set_i 0) p from ⟨h.buf, h.bb, h.ub, h.oof, h.done, h.gto⟩) m fuel tN rfl hn hc ht hf

theorem phEpi_ok (s : St) (hd : s.done = false) : phEpi s = ((s.set_gto false).set_ret s.ret_value).set_done true := by
  simp only [phEpi, hd]; rfl

end H4.Lemmas.C07Fn3
