import H4.Lemmas.ElemDisk
import H4.ElemSpec
import H4.Lemmas.ElemTag
/-! The DD list and the allocator of `H4.Elem`: effect of each primitive on the parts of the state the byte-array view
    depends on (`mem`, `rd disk`, `endOff`, `links`), and preservation of `WFF`. -/
namespace H4.Elem
open H4.Gen.Hdf

theorem dd_def (f : File) (i : Nat) : f.dd i = f.mem[i]?.getD nilDD := by
  simp [File.dd, List.getD_eq_getElem?_getD]

theorem dd_of_ge (f : File) (i : Nat) (h : f.mem.length ≤ i) : f.dd i = nilDD := by
  simp [dd_def, h]

theorem live_lt (f : File) (i : Nat) (h : f.live i) : i < f.mem.length := by
  by_cases hi : i < f.mem.length
  · exact hi
  · exfalso; apply h; rw [dd_of_ge f i (by omega)]; rfl

theorem nilDD_tag : nilDD.tag = DFTAG_NULL := rfl

/-- `mem.set` seen through `dd` -/
theorem dd_set (f : File) (g : File) (i j : Nat) (d : DD) (hg : g.mem = f.mem.set i d) (hi : i < f.mem.length) :
    g.dd j = if j = i then d else f.dd j := by
  simp only [dd_def, hg, List.getElem?_set]
  by_cases h : i = j
  · subst h; simp [hi]
  · have : ¬ (j = i) := fun e => h e.symm
    simp [h, this]

/-! ### `HTPselect` -/

theorem select_some (f : File) (tag ref i : Nat) (h : f.select tag ref = some i) : f.hasKey i tag ref := by
  unfold File.select at h
  rw [List.findIdx?_eq_some_iff_getElem] at h
  obtain ⟨hi, hp, _⟩ := h
  simp only [Bool.and_eq_true, bne_iff_ne, ne_eq, beq_iff_eq] at hp
  have : f.dd i = f.mem[i] := by simp [dd_def, hi]
  unfold File.hasKey File.live
  rw [this]
  exact ⟨hp.1.1, hp.1.2, hp.2⟩

theorem select_of_hasKey (f : File) (hu : WFF f) (tag ref i : Nat) (h : f.hasKey i tag ref) : f.select tag ref = some i := by
  have hi := live_lt f i h.1
  unfold File.select
  rw [List.findIdx?_eq_some_iff_getElem]
  have e : f.dd i = f.mem[i] := by simp [dd_def, hi]
  refine ⟨hi, ?_, ?_⟩
  · simp only [Bool.and_eq_true, bne_iff_ne, ne_eq, beq_iff_eq]
    rw [← e]
    exact ⟨⟨h.1, h.2.1⟩, h.2.2⟩
  · intro j hj hp
    simp only [Bool.and_eq_true, bne_iff_ne, ne_eq, beq_iff_eq] at hp
    have hj' : j < f.mem.length := by omega
    have ej : f.dd j = f.mem[j] := by simp [dd_def, hj']
    rw [← ej] at hp
    have := hu.uniq j i hp.1.1 h.1 (by rw [hp.1.2, h.2.1]) (by rw [hp.2, h.2.2])
    omega

theorem select_none (f : File) (tag ref : Nat) (h : f.select tag ref = none) (i : Nat) : ¬ f.hasKey i tag ref := by
  intro hk
  have hi := live_lt f i hk.1
  unfold File.select at h
  rw [List.findIdx?_eq_none_iff] at h
  have := h (f.mem[i]) (List.getElem_mem hi)
  have e : f.dd i = f.mem[i] := by simp [dd_def, hi]
  rw [← e] at this
  simp only [Bool.and_eq_false_iff, bne_eq_false_iff_eq, beq_eq_false_iff_ne, ne_eq] at this
  rcases this with (h1 | h1) | h1
  · exact hk.1 h1
  · exact h1 hk.2.1
  · exact h1 hk.2.2

theorem select_none_of (f : File) (tag ref : Nat) (h : ∀ i, ¬ f.hasKey i tag ref) : f.select tag ref = none := by
  cases hs : f.select tag ref with
  | none => rfl
  | some i => exact absurd (select_some f tag ref i hs) (h i)

end H4.Elem

namespace H4.Elem
open H4.Gen.Hdf

/-! ### `HTIupdate_dd` -/

theorem updateDD_mem (f : File) (i : Nat) : (f.updateDD i).mem = f.mem := by
  unfold File.updateDD; simp only [File.dd]; split <;> split <;> rfl
theorem updateDD_disk (f : File) (i : Nat) : (f.updateDD i).disk = f.disk := by
  unfold File.updateDD; simp only [File.dd]; split <;> split <;> rfl
theorem updateDD_links (f : File) (i : Nat) : (f.updateDD i).links = f.links := by
  unfold File.updateDD; simp only [File.dd]; split <;> split <;> rfl
theorem updateDD_ndds (f : File) (i : Nat) : (f.updateDD i).ndds = f.ndds := by
  unfold File.updateDD; simp only [File.dd]; split <;> split <;> rfl
theorem updateDD_present (f : File) (i : Nat) : (f.updateDD i).present = f.present := by
  unfold File.updateDD; simp only [File.dd]; split <;> split <;> rfl
theorem updateDD_dd (f : File) (i j : Nat) : (f.updateDD i).dd j = f.dd j := by
  simp [File.dd, updateDD_mem]
theorem updateDD_endOff (f : File) (i : Nat) :
    (f.updateDD i).endOff = match (f.dd i).ext with | some (o, l) => max f.endOff (o + l) | none => f.endOff := by
  unfold File.updateDD
  by_cases hc : f.cache
  · simp only [hc, if_true, File.dd]; split <;> simp_all
  · simp only [hc, Bool.false_eq_true, if_false, File.dd]
    have : (f.dsk.set i (f.mem.getD i nilDD)).length = f.dsk.length := by simp
    split <;> simp_all

/-! ### `HPgetdiskblock` -/

theorem getDiskBlock_off (f : File) (n : Nat) : (f.getDiskBlock n).2 = f.endOff := rfl
theorem getDiskBlock_mem (f : File) (n : Nat) : (f.getDiskBlock n).1.mem = f.mem := by
  unfold File.getDiskBlock; simp only; split
  · rfl
  · split <;> rfl
theorem getDiskBlock_links (f : File) (n : Nat) : (f.getDiskBlock n).1.links = f.links := by
  unfold File.getDiskBlock; simp only; split
  · rfl
  · split <;> rfl
theorem getDiskBlock_ndds (f : File) (n : Nat) : (f.getDiskBlock n).1.ndds = f.ndds := by
  unfold File.getDiskBlock; simp only; split
  · rfl
  · split <;> rfl
theorem getDiskBlock_cache (f : File) (n : Nat) : (f.getDiskBlock n).1.cache = f.cache := by
  unfold File.getDiskBlock; simp only; split
  · rfl
  · split <;> rfl
theorem getDiskBlock_present (f : File) (n : Nat) : (f.getDiskBlock n).1.present = f.present := by
  unfold File.getDiskBlock; simp only; split
  · rfl
  · split <;> rfl
theorem getDiskBlock_endOff (f : File) (n : Nat) : (f.getDiskBlock n).1.endOff = f.endOff + n := by
  unfold File.getDiskBlock; simp only
theorem getDiskBlock_dd (f : File) (n j : Nat) : (f.getDiskBlock n).1.dd j = f.dd j := by
  simp [File.dd, getDiskBlock_mem]

/-- reserving space changes no byte: the marker byte is a zero written where zeros are -/
theorem getDiskBlock_rd (f : File) (n : Nat) (ht : ∀ k, f.endOff ≤ k → rd f.disk k = 0) (x : Nat) :
    rd (f.getDiskBlock n).1.disk x = rd f.disk x := by
  unfold File.getDiskBlock; simp only
  split
  · rfl
  · split
    · rfl
    · simp only [rd_diskWrite]
      split
      · rename_i h
        have : x = f.endOff + n - 1 := by simp at h; omega
        rw [ht x (by omega)]
        simp [this]
      · rfl

end H4.Elem

namespace H4.Elem
open H4.Gen.Hdf

/-- writing zeros at or beyond `f_end_off` changes no byte -/
theorem rd_write_zeros_tail (d : Bytes) (e off k : Nat) (ht : ∀ x, e ≤ x → rd d x = 0) (ho : e ≤ off) (x : Nat) :
    rd (diskWrite d off (zeros k)) x = rd d x := by
  rw [rd_diskWrite]
  split
  · rename_i h
    rw [ht x (by omega)]
    simp [zeros, List.getD_eq_getElem?_getD, List.getElem?_replicate]
    split <;> rfl
  · rfl

/-! ### `HTInew_dd_block` -/

theorem newDDBlock_mem (f : File) : f.newDDBlock.mem = f.mem ++ List.replicate f.ndds nilDD := by
  unfold File.newDDBlock; simp only [getDiskBlock_mem, getDiskBlock_ndds]
theorem newDDBlock_links (f : File) : f.newDDBlock.links = f.links := by
  unfold File.newDDBlock; simp only [getDiskBlock_links]
theorem newDDBlock_ndds (f : File) : f.newDDBlock.ndds = f.ndds := by
  unfold File.newDDBlock; simp only [getDiskBlock_ndds]
theorem newDDBlock_cache (f : File) : f.newDDBlock.cache = f.cache := by
  unfold File.newDDBlock; simp only [getDiskBlock_cache]
theorem newDDBlock_present (f : File) : f.newDDBlock.present = f.present := by
  unfold File.newDDBlock; simp only [getDiskBlock_present]
theorem newDDBlock_endOff (f : File) : f.newDDBlock.endOff = f.endOff + ddBlockSize f.ndds := by
  unfold File.newDDBlock; simp only [getDiskBlock_endOff]
theorem newDDBlock_dd (f : File) (j : Nat) : f.newDDBlock.dd j = f.dd j := by
  simp only [dd_def, newDDBlock_mem, List.getElem?_append]
  split
  · rfl
  · rename_i h
    rw [List.getElem?_eq_none (by omega : f.mem.length ≤ j)]
    simp only [List.getElem?_replicate]
    split <;> rfl
theorem newDDBlock_rd (f : File) (ht : ∀ k, f.endOff ≤ k → rd f.disk k = 0) (x : Nat) :
    rd f.newDDBlock.disk x = rd f.disk x := by
  unfold File.newDDBlock
  simp only [getDiskBlock_off, getDiskBlock_cache]
  have h1 : ∀ k, f.endOff ≤ k → rd (f.getDiskBlock (ddBlockSize f.ndds)).1.disk k = 0 := by
    intro k hk; rw [getDiskBlock_rd f _ ht]; exact ht k hk
  rw [rd_write_zeros_tail _ f.endOff _ _ h1 (Nat.le_refl _), getDiskBlock_rd f _ ht]

/-! ### `HTPcreate` -/

theorem findFree_some (f : File) (i : Nat) (h : f.findFree = some i) : i < f.mem.length ∧ (f.dd i).tag = DFTAG_NULL := by
  unfold File.findFree at h
  rw [List.findIdx?_eq_some_iff_getElem] at h
  obtain ⟨hi, hp, _⟩ := h
  refine ⟨hi, ?_⟩
  have : f.dd i = f.mem[i] := by simp [dd_def, hi]
  rw [this]
  simpa using hp

/-- everything `HTPcreate` does, as far as elements can tell -/
structure Created (f f' : File) (i tag ref : Nat) : Prop where
  lt : i < f'.mem.length
  was_free : (f.dd i).tag = DFTAG_NULL
  dd_new : f'.dd i = { tag := tag, ref := ref, ext := none }
  dd_keep : ∀ j, j ≠ i → f'.dd j = f.dd j
  rd_keep : ∀ x, rd f'.disk x = rd f.disk x
  end_le : f.endOff ≤ f'.endOff
  tail0 : ∀ k, f'.endOff ≤ k → rd f'.disk k = 0
  links : f'.links = f.links
  ndds : f'.ndds = f.ndds
  cache : f'.cache = f.cache
  present : f'.present = f.present

theorem ddCreate_spec (f : File) (tag ref : Nat) (hn : 1 ≤ f.ndds) (ht : ∀ k, f.endOff ≤ k → rd f.disk k = 0) :
    Created f (f.ddCreate tag ref).1 (f.ddCreate tag ref).2 tag ref := by
  unfold File.ddCreate
  cases hf : f.findFree with
  | some i =>
    obtain ⟨hi, hfree⟩ := findFree_some f i hf
    simp only
    refine ⟨?_, hfree, ?_, ?_, ?_, ?_, ?_, ?_, ?_, ?_, by rw [updateDD_present]⟩
    · simp [updateDD_mem, hi]
    · rw [updateDD_dd]; rw [dd_set f _ i i _ rfl hi]; simp
    · intro j hj; rw [updateDD_dd, dd_set f _ i j _ rfl hi]; simp [hj]
    · intro x; rw [updateDD_disk]
    · rw [updateDD_endOff]; rw [dd_set f _ i i _ rfl hi]; simp
    · intro k hk; rw [updateDD_disk]; rw [updateDD_endOff, dd_set f _ i i _ rfl hi] at hk; simp at hk; exact ht k hk
    · rw [updateDD_links]
    · rw [updateDD_ndds]
    · unfold File.updateDD; simp only [File.dd]; split <;> split <;> rfl
  | none =>
    simp only
    have hlen : f.mem.length < f.newDDBlock.mem.length := by rw [newDDBlock_mem]; simp; omega
    have hfree : (f.dd f.mem.length).tag = DFTAG_NULL := by rw [dd_of_ge f _ (Nat.le_refl _)]; rfl
    refine ⟨?_, hfree, ?_, ?_, ?_, ?_, ?_, ?_, ?_, ?_, by rw [updateDD_present]; exact newDDBlock_present f⟩
    · simp [updateDD_mem]; exact hlen
    · rw [updateDD_dd, dd_set f.newDDBlock _ _ _ _ rfl hlen]; simp
    · intro j hj; rw [updateDD_dd, dd_set f.newDDBlock _ _ j _ rfl hlen]; simp [hj, newDDBlock_dd]
    · intro x; rw [updateDD_disk]; exact newDDBlock_rd f ht x
    · rw [updateDD_endOff, dd_set f.newDDBlock _ _ _ _ rfl hlen]; simp [newDDBlock_endOff]
    · intro k hk
      rw [updateDD_disk]
      rw [updateDD_endOff, dd_set f.newDDBlock _ _ _ _ rfl hlen] at hk
      simp [newDDBlock_endOff] at hk
      show rd f.newDDBlock.disk k = 0
      rw [newDDBlock_rd f ht]; exact ht k (Nat.le_trans (Nat.le_add_right _ _) hk)
    · rw [updateDD_links]; exact newDDBlock_links f
    · rw [updateDD_ndds]; exact newDDBlock_ndds f
    · have : ∀ g : File, ∀ i, (g.updateDD i).cache = g.cache := by
        intro g i; unfold File.updateDD; simp only [File.dd]; split <;> split <;> rfl
      rw [this]; exact newDDBlock_cache f

end H4.Elem

namespace H4.Elem
open H4.Gen.Hdf

/-! ### `HTPupdate`, `Hsetlength`, `HTPdelete`, `HP_write` -/

theorem ddSetExt_dd (f : File) (i j : Nat) (e : Nat × Nat) (hi : i < f.mem.length) :
    (f.ddSetExt i e).dd j = if j = i then { f.dd i with ext := some e } else f.dd j := by
  unfold File.ddSetExt
  rw [updateDD_dd, dd_set f _ i j _ rfl hi]
theorem ddSetExt_disk (f : File) (i : Nat) (e : Nat × Nat) : (f.ddSetExt i e).disk = f.disk := by
  unfold File.ddSetExt; rw [updateDD_disk]
theorem ddSetExt_links (f : File) (i : Nat) (e : Nat × Nat) : (f.ddSetExt i e).links = f.links := by
  unfold File.ddSetExt; rw [updateDD_links]
theorem ddSetExt_ndds (f : File) (i : Nat) (e : Nat × Nat) : (f.ddSetExt i e).ndds = f.ndds := by
  unfold File.ddSetExt; rw [updateDD_ndds]
theorem ddSetExt_endOff (f : File) (i : Nat) (e : Nat × Nat) (hi : i < f.mem.length) :
    (f.ddSetExt i e).endOff = max f.endOff (e.1 + e.2) := by
  unfold File.ddSetExt
  rw [updateDD_endOff, dd_set f _ i i _ rfl hi]
  simp

theorem pwrite_dd (f : File) (off : Nat) (bs : Bytes) (j : Nat) : (f.pwrite off bs).dd j = f.dd j := rfl
theorem pwrite_rd (f : File) (off : Nat) (bs : Bytes) (x : Nat) :
    rd (f.pwrite off bs).disk x = if off ≤ x ∧ x < off + bs.length then bs.getD (x - off) 0 else rd f.disk x := by
  unfold File.pwrite; simp only; exact rd_diskWrite _ _ _ _

/-- what `Hsetlength` on slot `i` (a DD without data) achieves -/
structure Sized (f f' : File) (i n off : Nat) : Prop where
  off_eq : off = f.endOff
  dd_new : f'.dd i = { f.dd i with ext := some (off, n) }
  dd_keep : ∀ j, j ≠ i → f'.dd j = f.dd j
  rd_keep : ∀ x, rd f'.disk x = rd f.disk x
  end_eq : f'.endOff = f.endOff + n
  links : f'.links = f.links
  ndds : f'.ndds = f.ndds
  mem_len : f'.mem.length = f.mem.length
  present : f'.present = f.present

theorem setLength_spec (f : File) (i n : Nat) (hi : i < f.mem.length) (ht : ∀ k, f.endOff ≤ k → rd f.disk k = 0) :
    Sized f (f.setLength i n).1 i n (f.setLength i n).2 := by
  unfold File.setLength
  simp only
  have hi' : i < (f.getDiskBlock n).1.mem.length := by rw [getDiskBlock_mem]; exact hi
  refine ⟨rfl, ?_, ?_, ?_, ?_, ?_, ?_, ?_, by unfold File.ddSetExt; rw [updateDD_present]; exact getDiskBlock_present f n⟩
  · rw [ddSetExt_dd _ _ _ _ hi']; simp [getDiskBlock_dd, getDiskBlock_off]
  · intro j hj; rw [ddSetExt_dd _ _ _ _ hi']; simp [hj, getDiskBlock_dd]
  · intro x; rw [ddSetExt_disk]; exact getDiskBlock_rd f n ht x
  · rw [ddSetExt_endOff _ _ _ hi', getDiskBlock_endOff, getDiskBlock_off]; simp
  · rw [ddSetExt_links, getDiskBlock_links]
  · rw [ddSetExt_ndds, getDiskBlock_ndds]
  · unfold File.ddSetExt; rw [updateDD_mem]; simp [getDiskBlock_mem]

/-- `Hsetlength` keeps the file well-formed: the new extent starts where everything else ends -/
theorem Sized.wff {f f' : File} {i n off : Nat} (h : Sized f f' i n off) (hw : WFF f) (hlive : f.live i)
    (hnone : (f.dd i).ext = none) : WFF f' := by
  have hl : ∀ j, f'.live j ↔ f.live j := by
    intro j
    unfold File.live
    by_cases hj : j = i
    · subst hj; rw [h.dd_new]
    · rw [h.dd_keep j hj]
  have hext : ∀ j o l, (f'.dd j).ext = some (o, l) → (j = i ∧ o = f.endOff ∧ l = n) ∨ (j ≠ i ∧ (f.dd j).ext = some (o, l)) := by
    intro j o l he
    by_cases hj : j = i
    · subst hj; rw [h.dd_new] at he; simp at he; left; exact ⟨rfl, by rw [← h.off_eq]; exact he.1.symm, he.2.symm⟩
    · right; rw [h.dd_keep j hj] at he; exact ⟨hj, he⟩
  refine ⟨by rw [h.ndds]; exact hw.ndds_pos, ?_, ?_, ?_, ?_⟩
  · intro j o l hj he
    rw [h.end_eq]
    rcases hext j o l he with ⟨_, ho, hl'⟩ | ⟨_, he'⟩
    · omega
    · have := hw.ext_le j o l ((hl j).mp hj) he'; omega
  · intro a b oa la ob lb hab ha hb hea heb x
    rcases hext a oa la hea with ⟨ha1, ha2, ha3⟩ | ⟨ha1, hea'⟩ <;> rcases hext b ob lb heb with ⟨hb1, hb2, hb3⟩ | ⟨hb1, heb'⟩
    · omega
    · have := hw.ext_le b ob lb ((hl b).mp hb) heb'; omega
    · have := hw.ext_le a oa la ((hl a).mp ha) hea'; omega
    · exact hw.disj a b oa la ob lb hab ((hl a).mp ha) ((hl b).mp hb) hea' heb' x
  · intro k hk; rw [h.rd_keep]; rw [h.end_eq] at hk; exact hw.tail0 k (by omega)
  · intro a b ha hb htag href
    have e : ∀ j, (f'.dd j).tag = (f.dd j).tag ∧ (f'.dd j).ref = (f.dd j).ref := by
      intro j
      by_cases hj : j = i
      · subst hj; rw [h.dd_new]; exact ⟨rfl, rfl⟩
      · rw [h.dd_keep j hj]; exact ⟨rfl, rfl⟩
    rw [(e a).1, (e b).1] at htag
    rw [(e a).2, (e b).2] at href
    exact hw.uniq a b ((hl a).mp ha) ((hl b).mp hb) htag href

/-- `HTPcreate` of an unregistered tag/ref keeps the file well-formed -/
theorem Created.wff {f f' : File} {i tag ref : Nat} (h : Created f f' i tag ref) (hw : WFF f) (htag : tag ≠ DFTAG_NULL)
    (hfresh : ∀ j, ¬ f.hasKey j tag ref) : WFF f' := by
  have hl : ∀ j, j ≠ i → (f'.live j ↔ f.live j) := by
    intro j hj; unfold File.live; rw [h.dd_keep j hj]
  have hnl : ¬ f.live i := fun hh => hh h.was_free
  refine ⟨by rw [h.ndds]; exact hw.ndds_pos, ?_, ?_, h.tail0, ?_⟩
  · intro j o l hj he
    by_cases hji : j = i
    · subst hji; rw [h.dd_new] at he; simp at he
    · rw [h.dd_keep j hji] at he
      have := hw.ext_le j o l ((hl j hji).mp hj) he
      have := h.end_le
      omega
  · intro a b oa la ob lb hab ha hb hea heb
    by_cases hai : a = i
    · subst hai; rw [h.dd_new] at hea; simp at hea
    · by_cases hbi : b = i
      · subst hbi; rw [h.dd_new] at heb; simp at heb
      · rw [h.dd_keep a hai] at hea; rw [h.dd_keep b hbi] at heb
        exact hw.disj a b oa la ob lb hab ((hl a hai).mp ha) ((hl b hbi).mp hb) hea heb
  · intro a b ha hb ht hr
    by_cases hai : a = i
    · by_cases hbi : b = i
      · omega
      · exfalso
        subst hai
        rw [h.dd_new, h.dd_keep b hbi] at ht hr
        simp only at ht hr
        exact hfresh b ⟨(hl b hbi).mp hb, ht.symm, hr.symm⟩
    · by_cases hbi : b = i
      · exfalso
        subst hbi
        rw [h.dd_new, h.dd_keep a hai] at ht hr
        simp only at ht hr
        exact hfresh a ⟨(hl a hai).mp ha, ht, hr⟩
      · rw [h.dd_keep a hai, h.dd_keep b hbi] at ht hr
        exact hw.uniq a b ((hl a hai).mp ha) ((hl b hbi).mp hb) ht hr

end H4.Elem
