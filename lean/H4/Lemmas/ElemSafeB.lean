import H4.Lemmas.ElemRefine
/-! A decidable (Boolean) version of the side conditions, sound for `Safe`: lets concrete histories be checked by
    evaluation, so that the hypotheses of the refinement theorem are seen to be satisfiable on non-trivial input. -/
namespace H4.Elem
open H4.Gen.Hdf

def userKeyB (k : Nat × Nat) : Bool :=
  !isSpecial k.1 && k.1 != DFTAG_LINKED && k.1 != DFTAG_NULL && k.1 != DFTAG_VERSION && decide (k.1 < H4.Gen.Elem.SPECIAL_TAG_BIT)

def noHandleInB (w : World) (fi : Nat) : Bool := w.accs.all fun p => p.2.file != fi
def noHandleOnB (w : World) (fi s : Nat) : Bool := w.accs.all fun p => !(p.2.file == fi && p.2.slot == s)
def aloneB (w : World) (h : Nat) : Bool :=
  match w.acc h with
  | none => true
  | some a => w.accs.all fun p => !(p.2.file == a.file && p.2.slot == a.slot) || p.1 == h
def notLastB (w : World) (a : Acc) : Bool :=
  decide (ddLen ((w.file a.file).dd a.slot) + ddOff ((w.file a.file).dd a.slot) ≠ (w.file a.file).endOff)

/-- the element behind `h` is contiguous, not the last thing in its file, and `h` is appendable: growing it promotes it -/
def mayPromoteB (w : World) (h : Nat) : Bool :=
  match w.acc h with
  | none => false
  | some a => !a.special && a.appendable && notLastB w a

def opSafeB (w : World) : Op → Bool
  | .open fi mode _ =>
    noHandleInB w fi &&
    (!(w.file fi).present || mode == DFACC_CREATE ||
      (!((w.file fi).dirtyEnd || (w.file fi).blkDirty.any id) &&
       ((w.file fi).disk.drop (endOffOf (w.file fi).ndds (w.file fi).blkOff (w.file fi).mem)).all (· == 0)))
  | .close fi => noHandleInB w fi
  | .startaccess h _ tag ref _ _ => (w.acc h).isNone && userKeyB (tag, ref)
  | .startwrite h _ tag ref _ => (w.acc h).isNone && userKeyB (tag, ref)
  | .hlcreate h fi tag ref blen nblk =>
    (w.acc h).isNone && userKeyB (tag, ref) && decide (1 ≤ blen) && decide (1 ≤ nblk) &&
    (match (w.file fi).select tag ref with
     | some s => noHandleOnB w fi s
     | none => true)
  | .hlconvert h blen nblk => decide (1 ≤ blen) && decide (1 ≤ nblk) && aloneB w h
  | .seek h _ _ => aloneB w h || !mayPromoteB w h
  | .write h bs => !bs.isEmpty && (aloneB w h || !mayPromoteB w h)
  | .deldd fi tag ref =>
    userKeyB (tag, ref) && (match (w.file fi).select tag ref with | some s => noHandleOnB w fi s | none => true)
  | _ => true

def safeB (w : World) : List Op → Bool
  | [] => true
  | op :: ops => opSafeB w op && safeB (step w op).1 ops

theorem acc_mem (w : World) (h : Nat) (a : Acc) (ha : w.acc h = some a) : (h, a) ∈ w.accs := by
  unfold World.acc at ha
  cases hf : w.accs.find? (fun p => p.1 == h) with
  | none => rw [hf] at ha; cases ha
  | some p =>
    rw [hf] at ha
    simp only [Option.map_some, Option.some.injEq] at ha
    have hm := List.mem_of_find?_eq_some hf
    have hp := List.find?_some hf
    simp only [beq_iff_eq] at hp
    obtain ⟨p1, p2⟩ := p
    simp only at ha hp
    subst ha hp
    exact hm

theorem userKeyB_sound (k : Nat × Nat) (h : userKeyB k = true) : UserKey k := by
  simp only [userKeyB, Bool.and_eq_true, Bool.not_eq_true', bne_iff_ne, ne_eq, decide_eq_true_eq] at h
  obtain ⟨⟨⟨⟨h1, h2⟩, h3⟩, h4⟩, h5⟩ := h
  exact ⟨h1, h2, h3, h4, h5⟩

theorem noHandleInB_sound (w : World) (fi : Nat) (h : noHandleInB w fi = true) : NoHandleIn w fi := by
  intro h' a ha
  have := List.all_eq_true.mp h _ (acc_mem w h' a ha)
  simpa using this

theorem noHandleOnB_sound (w : World) (fi s : Nat) (h : noHandleOnB w fi s = true) : NoHandleOn w fi s := by
  intro h' a ha hc
  have := List.all_eq_true.mp h _ (acc_mem w h' a ha)
  simp only [Bool.not_eq_true', Bool.and_eq_false_iff, beq_eq_false_iff_ne, ne_eq] at this
  rcases this with c | c
  · exact c hc.1
  · exact c hc.2

theorem aloneB_sound (w : World) (h : Nat) (hb : aloneB w h = true) : Alone w h := by
  intro a ha h' a' ha' ef es
  unfold aloneB at hb
  rw [ha] at hb
  have := List.all_eq_true.mp hb _ (acc_mem w h' a' ha')
  simp only [Bool.or_eq_true, Bool.not_eq_true', Bool.and_eq_false_iff, beq_eq_false_iff_ne, ne_eq, beq_iff_eq] at this
  rcases this with (c | c) | c
  · exact absurd ef c
  · exact absurd es c
  · exact c

theorem opSafeB_sound (w : World) (op : Op) (h : opSafeB w op = true) : OpSafe w op := by
  cases op with
  | «open» fi mode ndds =>
    simp only [opSafeB, Bool.and_eq_true, Bool.or_eq_true, Bool.not_eq_true', beq_iff_eq] at h
    obtain ⟨h1, h2⟩ := h
    refine ⟨noHandleInB_sound w fi h1, ?_⟩
    intro hp hm
    rcases h2 with (c | c) | c
    · rw [hp] at c; cases c
    · exact absurd c hm
    · refine ⟨c.1, ?_⟩
      intro k hk
      have hall := List.all_eq_true.mp c.2
      unfold rd
      by_cases hlt : k < (w.file fi).disk.length
      · have hm : (w.file fi).disk[k] ∈ (w.file fi).disk.drop (endOffOf (w.file fi).ndds (w.file fi).blkOff (w.file fi).mem) := by
          rw [List.mem_iff_getElem]
          refine ⟨k - endOffOf (w.file fi).ndds (w.file fi).blkOff (w.file fi).mem, by simp; omega, ?_⟩
          simp only [List.getElem_drop]
          congr 1; omega
        have := hall _ hm
        simp only [beq_iff_eq] at this
        simp [List.getD_eq_getElem?_getD, hlt, this]
      · simp [List.getD_eq_getElem?_getD, List.getElem?_eq_none (Nat.le_of_not_lt hlt)]
  | close fi => exact noHandleInB_sound w fi h
  | startaccess h' fi tag ref wr app =>
    simp only [opSafeB, Bool.and_eq_true, Option.isNone_iff_eq_none] at h
    exact ⟨h.1, userKeyB_sound _ h.2⟩
  | startwrite h' fi tag ref len =>
    simp only [opSafeB, Bool.and_eq_true, Option.isNone_iff_eq_none] at h
    exact ⟨h.1, userKeyB_sound _ h.2⟩
  | setlength h' len => trivial
  | hlcreate h' fi tag ref blen nblk =>
    simp only [opSafeB, Bool.and_eq_true, Option.isNone_iff_eq_none, decide_eq_true_eq] at h
    obtain ⟨⟨⟨⟨h1, h2⟩, h3⟩, h4⟩, h5⟩ := h
    refine ⟨h1, userKeyB_sound _ h2, h3, h4, ?_⟩
    intro s hs
    rw [hs] at h5
    exact noHandleOnB_sound w fi s h5
  | hlconvert h' blen nblk =>
    simp only [opSafeB, Bool.and_eq_true, decide_eq_true_eq] at h
    exact ⟨h.1.1, h.1.2, aloneB_sound w h' h.2⟩
  | setblockinfo h' blen nblk => trivial
  | appendable h' => trivial
  | seek h' off origin =>
    intro a ha hsp happ _ hnl
    simp only [opSafeB, Bool.or_eq_true, Bool.not_eq_true'] at h
    rcases h with h | h
    · exact aloneB_sound w h' h
    · exfalso
      have hnl' : notLastB w a = true := by unfold notLastB; exact decide_eq_true hnl
      simp [mayPromoteB, ha, hsp, happ, hnl'] at h
  | tell h' => trivial
  | inquire h' => trivial
  | read h' n => trivial
  | write h' bs =>
    simp only [opSafeB, Bool.and_eq_true, Bool.or_eq_true, Bool.not_eq_true', List.isEmpty_eq_false_iff] at h
    refine ⟨h.1, ?_⟩
    intro a ha hsp _ happ _ hnl
    rcases h.2 with h2 | h2
    · exact aloneB_sound w h' h2
    · exfalso
      have hnl' : notLastB w a = true := by unfold notLastB; exact decide_eq_true hnl
      simp [mayPromoteB, ha, hsp, happ, hnl'] at h2
  | trunc h' n => trivial
  | endaccess h' => trivial
  | deldd fi tag ref =>
    simp only [opSafeB, Bool.and_eq_true] at h
    refine ⟨userKeyB_sound _ h.1, ?_⟩
    intro s hs
    have h2 := h.2
    rw [hs] at h2
    exact noHandleOnB_sound w fi s h2

theorem safeB_sound (ops : List Op) : ∀ w, safeB w ops = true → Safe w ops := by
  induction ops with
  | nil => intro _ _; trivial
  | cons op ops ih =>
    intro w h
    simp only [safeB, Bool.and_eq_true] at h
    exact ⟨opSafeB_sound w op h.1, ih _ h.2⟩

end H4.Elem
