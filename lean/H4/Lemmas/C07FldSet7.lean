import H4.Lemmas.C07FldSet6
/-! `VSsetfields`: the pieces of the write-list branch around the loops (allocations, flags), list extensionality helpers. -/
namespace H4.Lemmas.C07Fld
open H4.Gen.Fn.Dfconv H4.Gen.Fn.Vsfld H4.VData H4.Gen.Hdf H4.Gen.Vs H4.C2L H4.VsfldEnc
set_option linter.unusedVariables false
set_option linter.unusedSimpArgs false

theorem cellsK (k : Int) (hk : k = 2 ∨ k = 4 ∨ k = 8) (n : Int) (h0 : 0 ≤ n) (h1 : n < 4294967296) :
    Int.tdiv ((k * (n % 18446744073709551616)) % 18446744073709551616) k = n := by
  rw [Int.emod_eq_of_lt h0 (by omega)]
  rcases hk with rfl | rfl | rfl <;>
  · rw [Int.emod_eq_of_lt (by omega) (by omega), Int.tdiv_eq_ediv_of_nonneg (by omega)]; omega

/-- the allocations at the start of the field branch: `bptr` (5·ac cells), the five arrays inside it, `name` (ac NULL rows) -/
theorem sfBInit_spec (fuel : Nat) (s : VSsetfields.St) (hcl : SfClean s) (ac : Nat) (hac : s.ac = ac) (hle : ac ≤ 256) :
    sfBInit fuel s = { s with vs_wlist_ivsize := 0, vs_wlist_n := 0, vs_wlist_bptr := List.replicate (5 * ac) 170, vs_wlist_bptr_null := false, vs_wlist_type_i := 0, vs_wlist_off_i := ac, vs_wlist_isize_i := 2 * ac, vs_wlist_order_i := 3 * ac, vs_wlist_esize_i := 4 * ac, vs_wlist_name := List.replicate ac [], vs_wlist_name_null := false } := by
  obtain ⟨h1, h2, h3⟩ := hcl
  have e1 : Int.tdiv ((2 * (((ac : Int) * 5) % 18446744073709551616)) % 18446744073709551616) 2 = ((5 * ac : Nat) : Int) := by
    rw [cellsK 2 (Or.inl rfl) ((ac : Int) * 5) (by omega) (by omega)]; omega
  have e2 : Int.tdiv ((8 * ((ac : Int) % 18446744073709551616)) % 18446744073709551616) 8 = (ac : Int) := by
    rw [cellsK 8 (Or.inr (Or.inr rfl)) (ac : Int) (by omega) (by omega)]
  cases s
  simp only at h1 h2 h3 hac
  subst h1 h2 h3 hac
  simp only [sfBInit, VSsetfields.St.set_vs_wlist_ivsize, VSsetfields.St.set_vs_wlist_n, VSsetfields.St.set_vs_wlist_bptr,
    VSsetfields.St.set_vs_wlist_bptr_null, VSsetfields.St.set_vs_wlist_type_i, VSsetfields.St.set_vs_wlist_off_i,
    VSsetfields.St.set_vs_wlist_isize_i, VSsetfields.St.set_vs_wlist_order_i, VSsetfields.St.set_vs_wlist_esize_i,
    VSsetfields.St.set_vs_wlist_name, VSsetfields.St.set_vs_wlist_name_null, e1, e2, Bool.false_eq_true, or_self, if_false,
    sf_chk_true _ _ (show (0 : Int) ≤ ((5 * ac : Nat) : Int) by omega), sf_chk_true _ _ (show (0 : Int) ≤ (ac : Int) by omega),
    Int.toNat_natCast]
  simp only [VSsetfields.St.mk.injEq, true_and, and_true]
  refine ⟨by omega, by omega, by omega, by omega⟩

theorem ext_getD {α} (l1 l2 : List α) (d : α) (hl : l1.length = l2.length) (h : ∀ i, i < l1.length → l1.getD i d = l2.getD i d) : l1 = l2 := by
  apply List.ext_getElem hl
  intro i h1 h2
  have := h i h1
  simpa [List.getD_eq_getElem?_getD, h1, h2] using this

theorem getD_append' {α} (l r : List α) (i : Nat) (d : α) :
    (l ++ r).getD i d = if i < l.length then l.getD i d else r.getD (i - l.length) d := by
  simp only [List.getD_eq_getElem?_getD]
  split
  · rename_i h; rw [List.getElem?_append_left h]
  · rename_i h; rw [List.getElem?_append_right (by omega)]

/-- a block of five arrays of `ac` cells each is determined by its cells -/
theorem five_ext (b A B C D E : List Int) (ac : Nat) (hA : A.length = ac) (hB : B.length = ac) (hC : C.length = ac) (hD : D.length = ac)
    (hE : E.length = ac) (hb : b.length = 5 * ac)
    (h : ∀ j, j < ac → b.getD j 0 = A.getD j 0 ∧ b.getD (ac + j) 0 = B.getD j 0 ∧ b.getD (2 * ac + j) 0 = C.getD j 0 ∧
      b.getD (3 * ac + j) 0 = D.getD j 0 ∧ b.getD (4 * ac + j) 0 = E.getD j 0) : b = A ++ B ++ C ++ D ++ E := by
  apply ext_getD _ _ 0 (by simp [hA, hB, hC, hD, hE, hb]; omega)
  intro i hi
  rw [hb] at hi
  simp only [getD_append', List.length_append, hA, hB, hC, hD]
  by_cases c1 : i < ac
  · rw [if_pos (by omega), if_pos (by omega), if_pos (by omega), if_pos c1]; exact (h i c1).1
  · by_cases c2 : i < 2 * ac
    · rw [if_pos (by omega), if_pos (by omega), if_pos (by omega), if_neg c1]
      have := (h (i - ac) (by omega)).2.1
      rw [show ac + (i - ac) = i by omega] at this; exact this
    · by_cases c3 : i < 3 * ac
      · rw [if_pos (by omega), if_pos (by omega), if_neg (by omega)]
        have := (h (i - 2 * ac) (by omega)).2.2.1
        rw [show 2 * ac + (i - 2 * ac) = i by omega] at this
        rw [show i - (ac + ac) = i - 2 * ac by omega]; exact this
      · by_cases c4 : i < 4 * ac
        · rw [if_pos (by omega), if_neg (by omega)]
          have := (h (i - 3 * ac) (by omega)).2.2.2.1
          rw [show 3 * ac + (i - 3 * ac) = i by omega] at this
          rw [show i - (ac + ac + ac) = i - 3 * ac by omega]; exact this
        · rw [if_neg (by omega)]
          have := (h (i - 4 * ac) (by omega)).2.2.2.2
          rw [show 4 * ac + (i - 4 * ac) = i by omega] at this
          rw [show i - (ac + ac + ac + ac) = i - 4 * ac by omega]; exact this

theorem sfBNull_spec (fuel : Nat) (s : VSsetfields.St) (hcl : SfClean s) (ac : Nat) (hac : s.ac = ac) (hl : s.vs_wlist_name.length = ac)
    (hf : ac ≤ fuel) : sfBNull fuel s = { s with i := ac, vs_wlist_name := List.replicate ac [] } := by
  obtain ⟨h1, h2, h3⟩ := hcl
  simp only [sfBNull]
  rw [if_neg (by simp [h1, h2, h3])]
  rw [sf_loop0_spec ac fuel (VSsetfields.St.set_i s 0) ac hf hac (by show (0 : Int) ≤ 0; omega) (by show (0 : Int).toNat + ac = ac; simp) h1 h2 h3 hl]
  show _ = _
  cases s; simp_all

theorem sfBFlag_spec (fuel : Nat) (s : VSsetfields.St) (hcl : SfClean s) : sfBFlag fuel s = { s with building := 1 } := by
  obtain ⟨h1, h2, h3⟩ := hcl
  simp [sfBFlag, h1, h2, h3]

theorem sfBFields_eq (fuel : Nat) (s : VSsetfields.St) (hcl : SfClean s) :
    sfBFields fuel s = VSsetfields.St.set_brk (VSsetfields.loop1 fuel { s with i := 0 }) false := by
  obtain ⟨h1, h2, h3⟩ := hcl
  simp only [sfBFields]
  rw [if_neg (by simp [h1, h2, h3])]

theorem sfBOffs_eq (fuel : Nat) (s : VSsetfields.St) (hcl : SfClean s) :
    sfBOffs fuel s = VSsetfields.St.set_brk (VSsetfields.loop4 fuel { s with uj := 0, i := 0 }) false := by
  obtain ⟨h1, h2, h3⟩ := hcl
  simp only [sfBOffs]
  rw [if_neg (by simp [h1, h2, h3])]
  rfl

theorem sfBOffs_gto (fuel : Nat) (s : VSsetfields.St) (h : s.gto = true) : sfBOffs fuel s = s := by simp [sfBOffs, h]

theorem sfBFin_gto (fuel : Nat) (s : VSsetfields.St) (h : s.gto = true) : sfBFin fuel s = s := by simp [sfBFin, h]

theorem sfBFin_ok (fuel : Nat) (s : VSsetfields.St) (hcl : SfClean s) :
    sfBFin fuel s = { s with vs_marked := 1, vs_new_h_sz := 1, building := 0, ret_value := 0, gto := true } := by
  obtain ⟨h1, h2, h3⟩ := hcl
  cases s
  simp only at h1 h2 h3
  subst h1 h2 h3
  simp [sfBFin]
end H4.Lemmas.C07Fld
