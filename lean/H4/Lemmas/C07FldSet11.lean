import H4.Lemmas.C07FldSet10
/-! `VSsetfields`: the whole function in its three cases (nothing applies / write list / read list); `VsImg`: the C image of a model vdata. -/
namespace H4.Lemmas.C07Fld
open H4.Gen.Fn.Dfconv H4.Gen.Fn.Vsfld H4.VData H4.Gen.Hdf H4.Gen.Vs H4.C2L H4.VsfldEnc
set_option linter.unusedVariables false
set_option linter.unusedSimpArgs false

/-- the vdata members of a state of the translated `VSsetfields` are the C image of the model vdata `v`: access mode, record count,
    write list (the five arrays inside `bptr`; `bptr`, `name` are NULL exactly when there is no field), user symbols, read list
    (`rlist.item` may be longer than `rlist.n`) -/
structure VsImg (v : VS) (s : VSsetfields.St) : Prop where
  acc : s.vs_access = 119 ↔ v.writable = true
  nv : s.vs_nvertices = v.nvertices
  wn : s.vs_wlist_n = v.w.n
  wiv : s.vs_wlist_ivsize = v.w.ivsize
  wb : s.vs_wlist_bptr = wBptr v.w
  wnm : s.vs_wlist_name = wNames v.w
  wbn : s.vs_wlist_bptr_null = v.w.fields.isEmpty
  wnn : s.vs_wlist_name_null = v.w.fields.isEmpty
  cur : v.w.fields ≠ [] → s.vs_wlist_type_i = 0 ∧ s.vs_wlist_off_i = v.w.n ∧ s.vs_wlist_isize_i = 2 * v.w.n ∧
    s.vs_wlist_order_i = 3 * v.w.n ∧ s.vs_wlist_esize_i = 4 * v.w.n
  u1 : s.vs_usym_name = nameRows v.usym
  u2 : s.vs_usym_type = typeCol v.usym
  u3 : s.vs_usym_isize = isizeCol v.usym
  u4 : s.vs_usym_order = orderCol v.usym
  un : s.vs_nusym = v.usym.length
  rn : s.vs_rlist_n = v.rlist.length
  ri : ∀ j, j < v.rlist.length → s.vs_rlist_item.getD j 0 = ((v.rlist.getD j 0 : Nat) : Int)

/-- refused at the entry tests, or neither branch applies: nothing is touched, `FAIL` is returned -/
theorem sf_untouched (fuel : Nat) (s0 : VSsetfields.St) (hcl : SfClean s0)
    (h : ¬ SfOk s0 ∨ (¬ (s0.vs_access = 119 ∧ s0.vs_nvertices = 0 ∧ s0.vs_wlist_n = 0) ∧ ¬ (s0.vs_nvertices > 0))) :
    sfRet fuel (sfDone fuel (sfRead fuel (sfBuild fuel (sfChk fuel s0)))) =
      { s0 with building := 0, ret_value := -1, ret := -1 } := by
  obtain ⟨h1, h2, h3⟩ := hcl
  rw [sfChk_spec fuel s0 ⟨h1, h2, h3⟩]
  by_cases c : SfOk s0
  · rw [if_pos c]
    have h' := h.resolve_left (fun hn => hn c)
    rw [sfBuild_skip _ _ (by exact h'.1), sfRead_skip _ _ (by exact h'.2), sfDone_spec, if_neg (by simp),
      sfRet_spec _ _ (by exact ⟨rfl, h2, h3⟩)]
    cases s0; simp_all
  · rw [if_neg c, sfBuild_gto _ _ (by rfl), sfRead_gto _ _ (by rfl), sfDone_spec, if_neg (by simp), sfRet_spec _ _ (by exact ⟨rfl, h2, h3⟩)]
    cases s0; simp_all

theorem rest_fields {r s : VSsetfields.St} (h : sfRest r = sfRest s) :
    r.av = s.av ∧ r.ac = s.ac ∧ r.vs_usym_name = s.vs_usym_name ∧ r.vs_usym_type = s.vs_usym_type ∧ r.vs_usym_isize = s.vs_usym_isize ∧
    r.vs_usym_order = s.vs_usym_order ∧ r.vs_nusym = s.vs_nusym ∧ r.vs_access = s.vs_access ∧ r.vs_nvertices = s.vs_nvertices ∧
    r.vs_rlist_n = s.vs_rlist_n ∧ r.vs_rlist_item = s.vs_rlist_item := by
  simp only [sfRest, Prod.mk.injEq] at h
  obtain ⟨⟨a1, a2, a3, a4, a5, a6, a7⟩, ⟨b1, b2, b3, b4, b5⟩, _⟩ := h
  exact ⟨a1, a2, a3, a4, a5, a6, a7, b1, b2, b3, b4⟩

/-- the whole function when the write-list branch applies -/
theorem sf_build_case (usym : List SymDef) (names : List String) (pads : List (List Int)) (fuel : Nat) (s0 : VSsetfields.St)
    (hcl : SfClean s0) (hub : s0.ub = false) (hoof : s0.oof = false) (hok : SfOk s0)
    (hb : s0.vs_access = 119 ∧ s0.vs_nvertices = 0 ∧ s0.vs_wlist_n = 0)
    (hpl : pads.length = names.length) (hnames : ∀ nm ∈ names, NameOK nm) (hus : ∀ sd ∈ usym, sd.Valid ∧ NameOK sd.name)
    (hav : s0.av = avRows names pads) (hac : s0.ac = names.length)
    (u1 : s0.vs_usym_name = nameRows usym) (u2 : s0.vs_usym_type = typeCol usym) (u3 : s0.vs_usym_isize = isizeCol usym)
    (u4 : s0.vs_usym_order = orderCol usym) (hnu : s0.vs_nusym = usym.length) (hf : names.length + usym.length + 9 ≤ fuel) :
    let r := sfRet fuel (sfDone fuel (sfRead fuel (sfBuild fuel (sfChk fuel s0))))
    r.ub = false ∧ r.oof = false ∧ sfRest r = sfRest s0 ∧
    match buildWList usym names with
    | some w => r.ret = 0 ∧ r.vs_marked = 1 ∧ r.vs_new_h_sz = 1 ∧ r.vs_wlist_n = w.n ∧
        r.vs_wlist_ivsize = w.ivsize ∧ r.vs_wlist_bptr = wBptr w ∧ r.vs_wlist_name = wNames w ∧
        r.vs_wlist_bptr_null = false ∧ r.vs_wlist_name_null = false ∧ r.vs_wlist_type_i = 0 ∧ r.vs_wlist_off_i = w.n ∧
        r.vs_wlist_isize_i = 2 * w.n ∧ r.vs_wlist_order_i = 3 * w.n ∧ r.vs_wlist_esize_i = 4 * w.n
    | none => r.ret = -1 ∧ r.vs_marked = s0.vs_marked ∧ r.vs_new_h_sz = s0.vs_new_h_sz ∧ r.vs_wlist_n = 0 ∧ r.vs_wlist_ivsize = 0 ∧
        r.vs_wlist_bptr = [] ∧ r.vs_wlist_name = [] ∧ r.vs_wlist_bptr_null = true ∧ r.vs_wlist_name_null = true := by
  intro r
  obtain ⟨h1, h2, h3⟩ := hcl
  have hr : r = sfRet fuel (sfDone fuel (sfRead fuel (sfBuild fuel (sfChk fuel s0)))) := rfl
  rw [sfChk_spec fuel s0 ⟨h1, h2, h3⟩, if_pos hok] at hr
  set s1 : VSsetfields.St := { s0 with building := 0, ret_value := -1 } with hs1
  have hn1 : 1 ≤ names.length := by have := hok.2.2.2.2.2.1; omega
  have hn2 : names.length ≤ 256 := by have := hok.2.2.2.2.2.2; omega
  rw [sfBuild_run fuel s1 ⟨h1, h2, h3⟩ hb] at hr
  have hin := sfBuild_inner usym names pads fuel s1 ⟨h1, h2, h3⟩ hub hoof rfl hpl hnames hus hav hac hn1 hn2 u1 u2 u3 u4 hnu hf
  simp only at hin
  set R := sfBFin fuel (sfBOffs fuel (sfBFields fuel (sfBFlag fuel (sfBNull fuel (sfBInit fuel s1))))) with hR
  obtain ⟨g1, g2, g3, g4, g5, g6, g7⟩ := hin
  rw [sfRead_gto _ _ g1, sfDone_spec] at hr
  cases hbw : buildWList usym names with
  | some w =>
    rw [hbw] at g7
    simp only at g7 ⊢
    obtain ⟨q1, q2, q3, q4, q5, q6, q7, q8, q9, q10, q11, q12, q13, q14, q15⟩ := g7
    rw [if_neg (by rw [q2]; simp), sfRet_spec _ _ (by exact ⟨rfl, g2, g3⟩)] at hr
    rw [hr]
    exact ⟨g4, g5, g6, q1, q3, q4, q5, q6, q7, q8, q9, q10, q11, q12, q13, q14, q15⟩
  | none =>
    rw [hbw] at g7
    simp only at g7 ⊢
    obtain ⟨q1, q2, q3, q4⟩ := g7
    obtain ⟨_, a2, _⟩ := rest_fields g6
    rw [if_pos (by rw [q2]; simp)] at hr
    rw [sf_loop7_spec names.length fuel { R with gto := false, i := 0 } names.length (by omega) (by show R.ac = _; rw [a2]; exact hac)
      (by show (0 : Int) ≤ 0; omega) (by show (0 : Int).toNat + _ = _; simp) rfl g2 g3] at hr
    rw [sfRet_spec _ _ (by exact ⟨rfl, rfl, g3⟩)] at hr
    rw [hr]
    exact ⟨g4, g5, g6, q1, q3, q4, rfl, rfl, rfl, rfl, rfl, rfl⟩

/-- the whole function when the vdata has records: the read list -/
theorem sf_read_case (w : WList) (names : List String) (pads : List (List Int)) (fuel : Nat) (s0 : VSsetfields.St)
    (hcl : SfClean s0) (hub : s0.ub = false) (hoof : s0.oof = false) (hok : SfOk s0) (hnv : s0.vs_nvertices > 0)
    (hpl : pads.length = names.length) (hnames : ∀ nm ∈ names, NameOK nm) (hw : ∀ f ∈ w.fields, NameOK f.name)
    (hav : s0.av = avRows names pads) (hac : s0.ac = names.length) (hwn : s0.vs_wlist_name = wNames w) (hwl : s0.vs_wlist_n = w.n)
    (hf : names.length + w.fields.length ≤ fuel) :
    let r := sfRet fuel (sfDone fuel (sfRead fuel (sfBuild fuel (sfChk fuel s0))))
    r.ub = false ∧ r.oof = false ∧ rFrame r = rFrame { s0 with building := 0 } ∧
    r.ret = (if (buildRList w names).2 = true then 0 else -1) ∧ r.vs_rlist_n = (buildRList w names).1.length ∧
    ∀ j, j < (buildRList w names).1.length → r.vs_rlist_item.getD j 0 = (((buildRList w names).1.getD j 0 : Nat) : Int) := by
  intro r
  obtain ⟨h1, h2, h3⟩ := hcl
  have hr : r = sfRet fuel (sfDone fuel (sfRead fuel (sfBuild fuel (sfChk fuel s0)))) := rfl
  rw [sfChk_spec fuel s0 ⟨h1, h2, h3⟩, if_pos hok] at hr
  set s1 : VSsetfields.St := { s0 with building := 0, ret_value := -1 } with hs1
  have hn2 : names.length ≤ 256 := by have := hok.2.2.2.2.2.2; omega
  rw [sfBuild_skip fuel s1 (by intro hc; have : s0.vs_nvertices = 0 := hc.2.1; omega)] at hr
  rw [sfRead_run fuel s1 ⟨h1, h2, h3⟩ hnv names.length hac hn2] at hr
  set s2 : VSsetfields.St := { s1 with vs_rlist_n := 0, vs_rlist_item := List.replicate names.length 170, vs_rlist_item_null := false, i := 0 } with hs2
  have I0 : RInv names.length s2 [] s2 := ⟨rfl, ⟨h1, h2, h3⟩, hub, hoof, rfl, rfl, rfl, by show (List.replicate names.length (170 : Int)).length = _; simp,
    fun j hj => by simp at hj⟩
  have hloop := l5_loop (s0 := s2) hw hnames hpl hav hac hwn hwl names.length fuel s2 [] I0 (by simp) (by omega)
  simp only [List.length_nil, List.drop_zero, List.reverse_nil] at hloop
  have hbr : buildRList w names = buildRList.go w names [] := rfl
  rw [hbr]
  set L := VSsetfields.loop5 fuel s2 with hL
  have hfr12 : rFrame s2 = rFrame { s0 with building := 0 } := rfl
  by_cases ok : (buildRList.go w names []).2 = true
  · rw [if_pos ok] at hloop ⊢
    obtain ⟨I, hlen⟩ := hloop
    obtain ⟨k1, k2, k3⟩ := I.cl
    rw [if_neg (by rw [k1, k3]; simp), sfDone_spec] at hr
    have hbz : L.building = 0 := by
      have := I.fr; simp only [rFrame, Prod.mk.injEq] at this; exact this.1.2.2.1
    rw [if_neg (by show ¬ (L.building ≠ 0); rw [hbz]; simp), sfRet_spec _ _ (by exact ⟨rfl, rfl, k3⟩)] at hr
    rw [hr]
    exact ⟨I.hub, I.hoof, I.fr.trans hfr12, rfl, I.hn, I.cells⟩
  · rw [if_neg ok] at hloop ⊢
    obtain ⟨g1, g2, g3, g4, g5, g6, g7, g8, g9⟩ := hloop
    rw [if_pos (Or.inl g1), sfDone_spec] at hr
    have hbz : L.building = 0 := by
      have := g5; simp only [rFrame, Prod.mk.injEq] at this; exact this.1.2.2.1
    rw [if_neg (by show ¬ (L.building ≠ 0); rw [hbz]; simp), sfRet_spec _ _ (by exact ⟨rfl, rfl, g3⟩)] at hr
    rw [hr]
    exact ⟨g6, g7, g5.trans hfr12, g4, g8, g9⟩
end H4.Lemmas.C07Fld
