import H4.VGroup
/-! Lemmas for the DFTAG_VG record codec (`vpackvg` / `vunpackvg`). -/
namespace H4.VGroup
open H4.Gen.Hdf

theorem getU16_u16 (n : Nat) (h : n < 65536) (r : Bytes) : getU16 (u16 n ++ r) = some (n, r) := by
  simp only [u16, List.cons_append, List.nil_append, getU16, UInt8.toNat_ofNat']
  congr 2; omega

theorem getU32_u32 (n : Nat) (h : n < 4294967296) (r : Bytes) : getU32 (u32 n ++ r) = some (n, r) := by
  simp only [u32, List.cons_append, List.nil_append, getU32, UInt8.toNat_ofNat']
  congr 2; omega

theorem getU16s_flatMap (l : List Nat) (h : ∀ x ∈ l, x < 65536) (r : Bytes) :
    getU16s l.length (l.flatMap u16 ++ r) = some (l, r) := by
  induction l with
  | nil => simp [getU16s]
  | cons a t ih =>
    have ha := h a (by simp)
    have ht := ih (fun x hx => h x (by simp [hx]))
    simp only [List.length_cons, List.flatMap_cons, List.append_assoc, getU16s, getU16_u16 a ha, ht]

theorem getPairs_pack (l : List Pair) (h : ∀ p ∈ l, PairOK p) (r : Bytes) :
    getPairs l.length (packPairs l ++ r) = some (l, r) := by
  induction l with
  | nil => simp [getPairs, packPairs]
  | cons a t ih =>
    obtain ⟨h1, h2⟩ := h a (by simp)
    have ht := ih (fun x hx => h x (by simp [hx]))
    simp only [packPairs] at ht ⊢
    simp only [List.length_cons, List.flatMap_cons, List.append_assoc, getPairs, getU16_u16 _ h1, getU16_u16 _ h2, ht]

theorem takeWhile_ne_zero (b : Bytes) (h : (0 : Byte) ∉ b) : b.takeWhile (· ≠ 0) = b := by
  induction b with
  | nil => rfl
  | cons a t ih =>
    have ha : a ≠ 0 := fun e => h (by simp [e])
    have ht : (0 : Byte) ∉ t := fun e => h (by simp [e])
    have := ih ht
    rw [List.takeWhile_cons]
    simp only [ne_eq, ha, not_false_eq_true, decide_true, if_true]
    rw [show (fun x : Byte => decide (¬ x = 0)) = (fun x => decide (x ≠ 0)) from rfl, this]

theorem getStr_pack (s : Option Bytes) (h : NameMemOK s) (r : Bytes) : getStr (packStr s ++ r) = some (normName s, r) := by
  cases s with
  | none => simp [packStr, getStr, normName, getU16_u16 0 (by omega)]
  | some b =>
    obtain ⟨h2, h3⟩ := h
    have hl : b.length % 65536 = b.length := Nat.mod_eq_of_lt h2
    cases b with
    | nil => simp [packStr, getStr, normName, getU16_u16 0 (by omega)]
    | cons a t =>
      have hpos : (a :: t).length ≠ 0 := by simp
      simp only [packStr, Option.getD_some, hl, List.take_length, List.append_assoc, getStr, getU16_u16 _ h2, hpos,
        if_false]
      have : ¬ (a :: t ++ r).length < (a :: t).length := by simp
      simp only [this, if_false, List.take_left', List.drop_left', takeWhile_ne_zero _ h3, normName]

theorem zip_map_fst_snd {α β} (l : List (α × β)) : (l.map (·.1)).zip (l.map (·.2)) = l := by
  induction l with
  | nil => rfl
  | cons a t ih => simp [ih]

theorem flatMap_comp_fst (l : List Pair) : l.flatMap (fun p => u16 p.1) = (l.map (·.1)).flatMap u16 := by
  simp [List.flatMap_map]
theorem flatMap_comp_snd (l : List Pair) : l.flatMap (fun p => u16 p.2) = (l.map (·.2)).flatMap u16 := by
  simp [List.flatMap_map]

theorem u16_length (n : Nat) : (u16 n).length = 2 := rfl

theorem toI16_small (v : Nat) (h : v < 32768) : toI16 v = v := by
  unfold toI16
  have : v % 65536 = v := Nat.mod_eq_of_lt (by omega)
  simp [this, h]

/-- `VG.WF` pins the version that `vpackvg` writes -/
theorem VG.WFmem.fix {g : VG} (h : g.WFmem) : g.WFfixmem := by
  obtain ⟨a1, a2, a3, a4, a5, a6, a7, a8, a9, a10, _, a12, a13, a14⟩ := h
  exact ⟨a1, a2, a3, a4, a5, a6, a7, a8, a9, a10, a12, a13, a14⟩

theorem packVersion_wf (g : VG) (h : g.WFfixmem) : packVersion g = g.version := by
  obtain ⟨_, _, _, _, _, _, _, _, _, hf, _⟩ := h
  unfold packVersion
  split
  · rename_i hc
    have := hf hc.1
    rw [this] at hc
    have h4 : toI16 VSET_NEW_VERSION = 4 := by decide
    rw [h4] at hc
    exact absurd hc.2 (by decide)
  · rfl

end H4.VGroup

namespace H4.VGroup
open H4.Gen.Hdf

/-- everything `vpackvg` writes before the version field -/
def packBody (fx : Bool) (g : VG) : Bytes :=
  u16 g.members.length ++ g.members.flatMap (fun p => u16 p.1) ++ g.members.flatMap (fun p => u16 p.2)
  ++ packStr g.name ++ packStr g.cls ++ u16 g.extag ++ u16 g.exref
  ++ (if hasFlagsWord fx g then
        u32 g.flags ++ (if g.flags &&& VG_ATTR_SET ≠ 0 then u32 g.attrs.length ++ packPairs g.attrs else [])
      else [])

theorem vpackvgF_eq (fx : Bool) (g : VG) :
    vpackvgF fx g = packBody fx g ++ (u16 (packVersion g) ++ (u16 g.more ++ [0])) := by
  simp [vpackvgF, packBody, List.append_assoc]

theorem toI16_eq4 (v : Nat) (h : v < 65536) : toI16 v = 4 ↔ v = 4 := by
  unfold toI16
  have : v % 65536 = v := Nat.mod_eq_of_lt h
  rw [this]
  split <;> omega

theorem toI16_eq_new (v : Nat) (h : v < 65536) : toI16 v = (VSET_NEW_VERSION : Nat) ↔ v = VSET_NEW_VERSION := by
  have c4 : VSET_NEW_VERSION = 4 := by decide
  rw [c4]; exact_mod_cast toI16_eq4 v h

/-- round trip of the record, for the code as it is (`fx = false`, needs "no flags ⇒ not version 4") and for the
    proposed fix of finding 3 (`fx = true`, no such restriction) -/
theorem vunpackvg_vpackvgF (fx : Bool) (g : VG) (h : g.WFfixmem)
    (h0 : fx = false → g.flags = 0 → g.version ≠ VSET_NEW_VERSION) : vunpackvg (vpackvgF fx g) = some g.norm := by
  have hv := packVersion_wf g h
  obtain ⟨hlen, hmem, hname, hcls, hextag, hexref, hmore, hver, hver4, hf1, hfl, ha1, ha0⟩ := h
  rw [vpackvgF_eq, hv]
  have hlen5 : (packBody fx g ++ (u16 g.version ++ (u16 g.more ++ [0]))).length = (packBody fx g).length + 5 := by
    simp [u16_length]
  have hdrop : (packBody fx g ++ (u16 g.version ++ (u16 g.more ++ [0]))).drop ((packBody fx g).length + 5 - 5)
      = u16 g.version ++ (u16 g.more ++ [0]) := by simp
  unfold vunpackvg
  rw [hlen5, hdrop]
  have n5 : ¬ (packBody fx g).length + 5 < 5 := by omega
  simp only [n5, if_false, getU16_u16 _ hver, getU16_u16 _ hmore, hver4, if_true]
  have htags : ∀ x ∈ g.members.map (·.1), x < 65536 := by
    intro x hx; obtain ⟨p, hp, rfl⟩ := List.mem_map.mp hx; exact (hmem p hp).1
  have hrefs : ∀ x ∈ g.members.map (·.2), x < 65536 := by
    intro x hx; obtain ⟨p, hp, rfl⟩ := List.mem_map.mp hx; exact (hmem p hp).2
  have t1 : ∀ r, getU16s g.members.length ((g.members.map (·.1)).flatMap u16 ++ r) = some (g.members.map (·.1), r) := by
    intro r; simpa using getU16s_flatMap _ htags r
  have t2 : ∀ r, getU16s g.members.length ((g.members.map (·.2)).flatMap u16 ++ r) = some (g.members.map (·.2), r) := by
    intro r; simpa using getU16s_flatMap _ hrefs r
  simp only [packBody, List.append_assoc, getU16_u16 _ hlen, flatMap_comp_fst, flatMap_comp_snd, t1, t2]
  simp only [getStr_pack _ hname, getStr_pack _ hcls, getU16_u16 _ hextag, getU16_u16 _ hexref, zip_map_fst_snd]
  by_cases hz : g.flags = 0
  · have hattr : g.attrs = [] := ha0 (by simp [hz])
    by_cases h4 : g.version = VSET_NEW_VERSION
    · -- only reachable with the fix: the flags word (0) is written and read back
      have hfx : fx = true := by
        cases fx with
        | true => rfl
        | false => exact absurd h4 (h0 rfl hz)
      have he : toI16 g.version = VSET_NEW_VERSION := (toI16_eq_new _ hver).mpr h4
      have hw : hasFlagsWord fx g = true := by simp [hasFlagsWord, hfx, he]
      have hb : g.flags &&& VG_ATTR_SET = 0 := by simp [hz]
      simp only [hw, if_true, he, hb, ne_eq, not_true_eq_false, if_false, List.nil_append, List.append_assoc,
        getU32_u32 _ hfl]
      cases g; simp_all [VG.norm]
    · have hne : ¬ toI16 g.version = VSET_NEW_VERSION := by rw [toI16_eq_new _ hver]; exact h4
      have hw : hasFlagsWord fx g = false := by simp [hasFlagsWord, hz, hne]
      simp only [hw, hne, if_false, Bool.false_eq_true, List.nil_append]
      cases g; simp_all [VG.norm]
  · have h4 : g.version = VSET_NEW_VERSION := hf1 hz
    have he : toI16 g.version = VSET_NEW_VERSION := (toI16_eq_new _ hver).mpr h4
    have hw : hasFlagsWord fx g = true := by simp [hasFlagsWord, hz]
    simp only [hw, he, if_true, List.append_assoc, getU32_u32 _ hfl]
    by_cases hb : g.flags &&& VG_ATTR_SET = 0
    · have hattr : g.attrs = [] := ha0 hb
      simp only [hb, ne_eq, not_true_eq_false, if_false, List.nil_append]
      cases g; simp_all [VG.norm]
    · obtain ⟨hal, hap⟩ := ha1 hb
      have hal' : g.attrs.length < 4294967296 := by omega
      have hnot : ¬ g.attrs.length ≥ 2147483648 := by omega
      simp only [ne_eq, hb, not_false_eq_true, if_true, List.append_assoc, getU32_u32 _ hal', hnot, if_false,
        getPairs_pack _ hap]
      cases g; simp_all [VG.norm]

theorem vunpackvg_vpackvg (g : VG) (h : g.WFmem) : vunpackvg (vpackvg g) = some g.norm :=
  vunpackvg_vpackvgF false g h.fix (fun _ => h.2.2.2.2.2.2.2.2.2.2.1)

/-- on a Vgroup the current code can represent, the fix changes no byte -/
theorem vpackvgF_eq_of_wfmem (fx : Bool) (g : VG) (h : g.WFmem) : vpackvgF fx g = vpackvg g := by
  obtain ⟨_, _, _, _, _, _, _, hver, _, _, hf0, _⟩ := h
  have : hasFlagsWord fx g = hasFlagsWord false g := by
    by_cases hz : g.flags = 0
    · have hne : ¬ toI16 g.version = VSET_NEW_VERSION := by rw [toI16_eq_new _ hver]; exact hf0 hz
      simp [hasFlagsWord, hz, hne]
    · simp [hasFlagsWord, hz]
  simp only [vpackvg, vpackvgF, this]

theorem normName_of_ne {s : Option Bytes} (h : s ≠ some []) : normName s = s := by
  cases s with
  | none => rfl
  | some b => cases b with
    | nil => exact absurd rfl h
    | cons a t => rfl

theorem VG.norm_of_wf {g : VG} (h : g.WF) : g.norm = g := by
  obtain ⟨_, h1, h2⟩ := h
  cases g; simp_all [VG.norm, normName_of_ne]

theorem packStr_norm (s : Option Bytes) : packStr (normName s) = packStr s := by
  cases s with
  | none => rfl
  | some b => cases b <;> rfl

theorem vpackvg_norm (g : VG) : vpackvg g.norm = vpackvg g := by
  simp only [vpackvg, vpackvgF, VG.norm, packStr_norm, packVersion, hasFlagsWord]
  rfl

theorem VG.norm_wfmem {g : VG} (h : g.WFmem) : g.norm.WFmem := by
  obtain ⟨h1, h2, h3, h4, h5⟩ := h
  refine ⟨h1, h2, ?_, ?_, h5⟩
  · cases hn : g.name with
    | none => simp [VG.norm, hn, normName, NameMemOK]
    | some b => cases b with
      | nil => simp [VG.norm, hn, normName, NameMemOK]
      | cons a t => rw [hn] at h3; simpa [VG.norm, hn, normName] using h3
  · cases hn : g.cls with
    | none => simp [VG.norm, hn, normName, NameMemOK]
    | some b => cases b with
      | nil => simp [VG.norm, hn, normName, NameMemOK]
      | cons a t => rw [hn] at h4; simpa [VG.norm, hn, normName] using h4

end H4.VGroup
