import H4.ElemSpec
/-! The block walk of `HLPread`/`HLPwrite` tiles the requested byte range (pure arithmetic). -/
namespace H4.Elem

theorem blockStart_succ (first blk b : Nat) :
    blockStart first blk (b + 1) = blockStart first blk b + blockLenOf first blk b := by
  unfold blockStart blockLenOf
  cases b with
  | zero => simp
  | succ k => simp [Nat.add_mul]; omega

/-- `ps` tile `[p, e)` exactly once, in order: every piece lies inside one block (`idx` within the table, `rel + n` within
    the block's length `cur`), is non-empty, and starts at the element position where the previous one ended -/
def Tiles (first blk nb : Nat) : Nat → List Piece → Nat → Prop
  | p, [], e => p = e
  | p, q :: rest, e =>
    q.idx < nb ∧ q.cur = blockLenOf first blk (q.tbl * nb + q.idx) ∧ 1 ≤ q.n ∧ q.rel + q.n ≤ q.cur ∧
    blockStart first blk (q.tbl * nb + q.idx) + q.rel = p ∧ Tiles first blk nb (p + q.n) rest e

theorem walkFrom_tiles (first blk nb : Nat) (hblk : 1 ≤ blk) (hnb : 1 ≤ nb) :
    ∀ (fuel t idx rel cur len : Nat), len ≤ fuel → 1 ≤ len → idx < nb → rel < cur →
      cur = blockLenOf first blk (t * nb + idx) →
      Tiles first blk nb (blockStart first blk (t * nb + idx) + rel) (walkFrom blk nb fuel t idx rel cur len)
        (blockStart first blk (t * nb + idx) + rel + len) := by
  intro fuel
  induction fuel with
  | zero => intro t idx rel cur len h1 h2; omega
  | succ fuel ih =>
    intro t idx rel cur len hf hl hidx hrel hcur
    simp only [walkFrom]
    by_cases hlast : len - min (cur - rel) len = 0
    · simp only [hlast, if_true, Tiles]
      have : min (cur - rel) len = len := by omega
      rw [this]
      exact ⟨hidx, hcur, hl, by omega, trivial, rfl⟩
    · simp only [hlast, if_false]
      have hn : min (cur - rel) len = cur - rel := by omega
      have hnext : blockStart first blk (t * nb + idx + 1) = blockStart first blk (t * nb + idx) + rel + (cur - rel) := by
        rw [blockStart_succ, ← hcur]; omega
      have hblk1 : blk = blockLenOf first blk (t * nb + idx + 1) := by simp [blockLenOf]
      by_cases hw : idx + 1 ≥ nb
      · simp only [hw, if_true, Tiles]
        have hidx' : t * nb + idx + 1 = (t + 1) * nb + 0 := by rw [Nat.add_mul]; omega
        refine ⟨hidx, hcur, by omega, by omega, ?_⟩
        have := ih (t + 1) 0 0 blk (len - (cur - rel)) (by omega) (by omega) (by omega) (by omega) (by rw [← hidx']; exact hblk1)
        rw [← hidx', hnext] at this
        rw [hn]
        have e : blockStart first blk (t * nb + idx) + rel + (cur - rel) + (len - (cur - rel)) = blockStart first blk (t * nb + idx) + rel + len := by omega
        simp only [Nat.add_zero] at this
        rw [e] at this
        exact ⟨trivial, this⟩
      · simp only [hw, if_false, Tiles]
        have hidx' : t * nb + idx + 1 = t * nb + (idx + 1) := by omega
        refine ⟨hidx, hcur, by omega, by omega, ?_⟩
        have := ih t (idx + 1) 0 blk (len - (cur - rel)) (by omega) (by omega) (by omega) (by omega) (by rw [← hidx']; exact hblk1)
        rw [← hidx', hnext] at this
        rw [hn]
        have e : blockStart first blk (t * nb + idx) + rel + (cur - rel) + (len - (cur - rel)) = blockStart first blk (t * nb + idx) + rel + len := by omega
        simp only [Nat.add_zero] at this
        rw [e] at this
        exact ⟨trivial, this⟩

/-- the start computed by "search for linked block to start from" is the block containing `p` -/
theorem startBlock_spec (first blk p : Nat) (hblk : 1 ≤ blk) :
    let s := startBlock first blk p
    s.2.1 < s.2.2 ∧ s.2.2 = blockLenOf first blk s.1 ∧ blockStart first blk s.1 + s.2.1 = p := by
  unfold startBlock
  by_cases h : p < first
  · simp [h, blockLenOf, blockStart]
  · simp only [h, if_false, blockLenOf, blockStart]
    refine ⟨Nat.mod_lt _ hblk, by simp, ?_⟩
    simp only [Nat.add_sub_cancel, Nat.add_one_ne_zero, if_false]
    have := Nat.div_add_mod (p - first) blk
    rw [Nat.mul_comm] at this
    omega

/-- inverse direction: position `blockStart b + rel` lies in block `b` at offset `rel` -/
theorem startBlock_block (first blk b rel : Nat) (hblk : 1 ≤ blk) (hrel : rel < blockLenOf first blk b) :
    startBlock first blk (blockStart first blk b + rel) = (b, rel, blockLenOf first blk b) := by
  unfold startBlock blockStart blockLenOf at *
  cases b with
  | zero => simp at hrel ⊢; exact hrel
  | succ k =>
    simp only [Nat.add_one_ne_zero, if_false, Nat.add_sub_cancel] at hrel ⊢
    have h1 : ¬ (first + k * blk + rel < first) := by omega
    simp only [h1, if_false]
    have h2 : first + k * blk + rel - first = rel + blk * k := by rw [Nat.mul_comm]; omega
    rw [h2, Nat.add_mul_div_left _ _ (by omega : 0 < blk), Nat.add_mul_mod_self_left, Nat.div_eq_of_lt hrel, Nat.mod_eq_of_lt hrel]
    simp

theorem blockStart_mono (first blk : Nat) : ∀ b b', b ≤ b' → blockStart first blk b ≤ blockStart first blk b' := by
  intro b b' h
  induction h with
  | refl => exact Nat.le_refl _
  | step _ ih => rw [blockStart_succ]; omega

theorem mul_add_div_mod (t nb idx : Nat) (h : idx < nb) : (t * nb + idx) / nb = t ∧ (t * nb + idx) % nb = idx := by
  have hnb : 0 < nb := by omega
  constructor
  · rw [Nat.mul_comm, Nat.mul_add_div hnb, Nat.div_eq_of_lt h]; simp
  · rw [Nat.mul_comm, Nat.mul_add_mod, Nat.mod_eq_of_lt h]

theorem walk_tiles (first blk nb p len : Nat) (hblk : 1 ≤ blk) (hnb : 1 ≤ nb) (hlen : 1 ≤ len) :
    Tiles first blk nb p (walk first blk nb p len) (p + len) := by
  have hs := startBlock_spec first blk p hblk
  unfold walk
  generalize startBlock first blk p = s at hs
  obtain ⟨b, rel, cur⟩ := s
  simp only at hs ⊢
  obtain ⟨h1, h2, h3⟩ := hs
  have hb : b / nb * nb + b % nb = b := by
    have := Nat.div_add_mod b nb; rw [Nat.mul_comm] at this; exact this
  have := walkFrom_tiles first blk nb hblk hnb len (b / nb) (b % nb) rel cur len (Nat.le_refl _) hlen
    (Nat.mod_lt _ hnb) h1 (by rw [hb]; exact h2)
  rw [hb, h3] at this
  exact this

end H4.Elem
