import H4.Lemmas.DDRun
/-! # The write log (C17): while caching is on, nothing is written below the end of the file as it was -/
namespace H4.DD
open H4.Gen.Hdf H4.Bitvect

/-- from `s` to `s'`: caching stays as it is, the end of the file does not move back, and every write logged in
    between starts at or beyond the end of the file in `s` -/
def Mono (s s' : File) : Prop :=
  s'.cache = s.cache ∧ s.fEnd ≤ s'.fEnd ∧ (∃ ws, s'.log = ws ++ s.log ∧ ∀ w ∈ ws, s.fEnd ≤ w.off) ∧
  /- and the disk image of the DD blocks is only extended by new blocks -/
  ∃ extra, s'.disk = s.disk ++ extra

theorem Mono.refl (s : File) : Mono s s := ⟨rfl, Nat.le_refl _, ⟨[], rfl, fun _ h => by cases h⟩, [], by simp⟩

theorem Mono.trans {a b c : File} (h1 : Mono a b) (h2 : Mono b c) : Mono a c := by
  obtain ⟨c1, f1, ⟨w1, l1, o1⟩, e1, d1⟩ := h1
  obtain ⟨c2, f2, ⟨w2, l2, o2⟩, e2, d2⟩ := h2
  refine ⟨by rw [c2, c1], Nat.le_trans f1 f2, ⟨w2 ++ w1, by rw [l2, l1, List.append_assoc], ?_⟩, e1 ++ e2, by rw [d2, d1, List.append_assoc]⟩
  intro w hw
  rcases List.mem_append.mp hw with hw | hw
  · exact Nat.le_trans f1 (o2 w hw)
  · exact o1 w hw

/-- a change that touches neither the log, nor the disk image, nor the caching flag, nor moves `f_end_off` back -/
theorem Mono.of_frame {s s' : File} (hc : s'.cache = s.cache) (hf : s.fEnd ≤ s'.fEnd) (hl : s'.log = s.log)
    (hd : s'.disk = s.disk := by rfl) : Mono s s' :=
  ⟨hc, hf, ⟨[], by simpa using hl, fun _ h => by cases h⟩, [], by simp [hd]⟩

theorem bumpEnd_log (s : File) (d : DD) : (bumpEnd s d).log = s.log := by unfold bumpEnd; split <;> rfl

theorem markOrWrite_cached_log {s : File} (hc : s.cache = true) (p : Pos) : (markOrWrite s p).log = s.log := by
  unfold markOrWrite; rw [if_pos hc]

theorem markOrWrite_cached_disk {s : File} (hc : s.cache = true) (p : Pos) : (markOrWrite s p).disk = s.disk := by
  unfold markOrWrite; rw [if_pos hc]

theorem htiUpdateDD_mono {s : File} (hc : s.cache = true) (p : Pos) : Mono s (htiUpdateDD s p) := by
  unfold htiUpdateDD
  exact Mono.of_frame (by rw [bumpEnd_cache, markOrWrite_cache])
    (Nat.le_trans (by rw [markOrWrite_fEnd]; exact Nat.le_refl _) (bumpEnd_fEnd_ge _ _))
    (by rw [bumpEnd_log, markOrWrite_cached_log hc]) (by rw [bumpEnd_disk, markOrWrite_cached_disk hc])

theorem fillSlot_mono {s : File} (hc : s.cache = true) (p : Pos) (d : DD) : Mono s (fillSlot s p d) := by
  unfold fillSlot
  exact htiUpdateDD_mono (s := { s with blocks := setDD s.blocks p d }) hc p

theorem newBlock_mono (cfg : Cfg) {s : File} (hc : s.cache = true) : Mono s (htiNewBlock cfg s) := by
  refine ⟨rfl, by show s.fEnd ≤ s.fEnd + (NDDS_SZ + OFFSET_SZ) + headNdds s * DD_SZ; omega,
    ⟨(newBlockWrites cfg s).reverse, rfl, ?_⟩,
    (by show ∃ extra, newBlockDisk cfg s = s.disk ++ extra
        unfold newBlockDisk; rw [if_pos hc]; exact ⟨_, rfl⟩)⟩
  intro w hw
  rw [List.mem_reverse] at hw
  unfold newBlockWrites at hw
  simp only [hc, if_true, List.nil_append, List.append_nil] at hw
  split at hw
  · simp at hw
    rcases hw with rfl | rfl
    · exact Nat.le_refl _
    · show s.fEnd ≤ s.fEnd + (NDDS_SZ + OFFSET_SZ); omega
  · simp at hw; subst hw; exact Nat.le_refl _

theorem allocSlot_mono (cfg : Cfg) {s : File} (hc : s.cache = true) : Mono s (allocSlot cfg s).2 := by
  unfold allocSlot
  rw [findNull_eq]
  cases scanFwd pNull s.blocks (s.nullBlk.getD 0) s.nullNext with
  | some p => exact Mono.of_frame rfl (Nat.le_refl _) rfl
  | none => exact newBlock_mono cfg hc

theorem raiseMaxref_mono (cfg : Cfg) (s : File) (r : Nat) : Mono s (raiseMaxref cfg s r) := by
  unfold raiseMaxref; split
  · exact Mono.of_frame rfl (Nat.le_refl _) rfl
  · exact Mono.refl _

theorem htpCreate_mono (cfg : Cfg) {s : File} (hc : s.cache = true) (t r : Nat) : Mono s (htpCreate cfg s t r).2 := by
  unfold htpCreate
  split
  · exact Mono.refl _
  split
  · exact Mono.refl _
  · have h1 := allocSlot_mono cfg hc
    have hc1 : (allocSlot cfg s).2.cache = true := by rw [h1.1]; exact hc
    have h2 := fillSlot_mono hc1 (allocSlot cfg s).1 ⟨t, r, INVALID_OFFSET, INVALID_LENGTH⟩
    have h12 := h1.trans h2
    simp only
    split
    · exact h12.trans (Mono.of_frame rfl (Nat.le_refl _) rfl)
    · exact (h12.trans (Mono.of_frame rfl (Nat.le_refl _) rfl)).trans (raiseMaxref_mono cfg _ r)

theorem htpUpdate_mono {s : File} (hc : s.cache = true) (p : Pos) (off len : Int) : Mono s (htpUpdate s p off len) := by
  unfold htpUpdate; exact fillSlot_mono hc p _

theorem findNull_eq' (s : File) (pdd : Option Pos) : htiFindDD s DFTAG_NULL DFTAG_WILDCARD pdd .fwd =
    match scanFwd pNull s.blocks (s.nullBlk.getD 0) s.nullNext with
    | some p => (some p, { s with nullBlk := some p.blk, nullNext := p.idx + 1 })
    | none => (none, s) := by
  simp [htiFindDD, DFTAG_NULL, DFTAG_WILDCARD, DFREF_WILDCARD]
  rfl

theorem htiFindDD_mono (s : File) (t r : Nat) (pdd : Option Pos) (dir : Dir) : Mono s (htiFindDD s t r pdd dir).2 := by
  by_cases hex : t ≠ 0 ∧ r ≠ 0
  · rw [htiFindDD_exact s hex.1 hex.2]; exact Mono.refl _
  · have hw : t = 0 ∨ r = 0 := by omega
    cases dir with
    | bwd => rw [htiFindDD_bwd s hw]; exact Mono.refl _
    | fwd =>
      by_cases h1 : t = 1
      · have hr : r = 0 := by omega
        subst h1 hr
        have := findNull_eq' s pdd
        simp only [DFTAG_NULL, DFTAG_WILDCARD] at this
        rw [this]
        cases scanFwd pNull s.blocks (s.nullBlk.getD 0) s.nullNext with
        | some p => exact Mono.of_frame rfl (Nat.le_refl _) rfl
        | none => exact Mono.refl _
      · rw [htiFindDD_fwd s hw h1]; exact Mono.refl _

theorem hfind_mono (s : File) (st sr ft fr : Nat) (dir : Dir) : Mono s (hfind s st sr ft fr dir).2 := by
  unfold hfind
  split
  · have h1 := htiFindDD_mono s ft fr none dir
    generalize htiFindDD s ft fr none dir = x at *
    obtain ⟨o, s1⟩ := x
    cases o with
    | none => exact h1
    | some p =>
      simp only
      have h2 := htiFindDD_mono s1 st sr (some p) dir
      generalize htiFindDD s1 st sr (some p) dir = y at *
      obtain ⟨o2, s2⟩ := y
      cases o2 <;> exact h1.trans h2
  · have h1 := htiFindDD_mono s st sr none dir
    generalize htiFindDD s st sr none dir = x at *
    obtain ⟨o, s1⟩ := x
    cases o <;> exact h1

theorem maxrefSet_mono (s : File) (m : Nat) : Mono s { s with maxref := m } := Mono.of_frame rfl (Nat.le_refl _) rfl

theorem access_tail_mono (cfg : Cfg) {s1 : File} (hc1 : s1.cache = true) (tag nt nr : Nat) (write isNew : Bool) :
    Mono s1 (match htpSelect s1 nt nr with
      | none =>
        if !write then (Acc.fail, s1)
        else match htpCreate cfg s1 nt nr with
          | (none, s) => (Acc.fail, s)
          | (some p, s) => (Acc.ok p true, { s with maxref := if nr > s.maxref then nr else s.maxref })
      | some p =>
        if !isSpecial tag ∧ isSpecial (getDD s1.blocks p).tag then (Acc.special p, s1)
        else (Acc.ok p isNew, { s1 with maxref := if nr > s1.maxref then nr else s1.maxref })).2 := by
  cases htpSelect s1 nt nr with
  | none =>
    cases write with
    | false => exact Mono.refl _
    | true =>
      simp only [Bool.not_true, Bool.false_eq_true, if_false]
      have h2 := htpCreate_mono cfg hc1 nt nr
      generalize htpCreate cfg s1 nt nr = y at *
      obtain ⟨o, s2⟩ := y
      cases o with
      | none => exact h2
      | some p => exact h2.trans (maxrefSet_mono s2 _)
  | some p =>
    by_cases hsp : !isSpecial tag ∧ isSpecial (getDD s1.blocks p).tag
    · simp only [hsp, and_self, if_true]; exact Mono.refl _
    · simp only [hsp, if_false]; exact maxrefSet_mono s1 _

theorem hstartaccess_mono (cfg : Cfg) {s : File} (hc : s.cache = true) (t r : Nat) (write : Bool) :
    Mono s (hstartaccess cfg s t r write).2 := by
  unfold hstartaccess
  have h1 := hfind_mono s t r 0 0 .fwd
  generalize hfind s t r 0 0 .fwd = x at *
  obtain ⟨found, s1⟩ := x
  have hc1 : s1.cache = true := by rw [h1.1]; exact hc
  cases found with
  | none => exact h1.trans (access_tail_mono cfg hc1 t t r write true)
  | some d => exact h1.trans (access_tail_mono cfg hc1 t d.tag d.ref write (decide (d.off = INVALID_OFFSET ∧ d.len = INVALID_LENGTH)))

theorem hsetlength_mono {s : File} (hc : s.cache = true) (p : Pos) (n : Nat) : Mono s (hsetlength s p n) := by
  unfold hsetlength
  have hlog : (if s.cache = false ∧ 0 < n then Wr.ext (s.fEnd + n - 1) :: s.log else s.log) = s.log := by
    rw [if_neg (by simp [hc])]
  rw [hlog]
  have h1 : Mono s { s with fEnd := s.fEnd + n, log := s.log } :=
    Mono.of_frame rfl (by show s.fEnd ≤ s.fEnd + n; omega) rfl
  exact h1.trans (htpUpdate_mono (s := { s with fEnd := s.fEnd + n, log := s.log }) hc p _ _)

theorem Mono.log_after {s s2 : File} (h : Mono s s2) (w : Wr) (hw : s.fEnd ≤ w.off) : Mono s (logW w s2) := by
  obtain ⟨c, f, ⟨ws, l, o⟩, e, d⟩ := h
  refine ⟨c, f, ⟨w :: ws, by show w :: s2.log = _; rw [l]; rfl, ?_⟩, e, d⟩
  intro x hx
  rcases List.mem_cons.mp hx with rfl | hx
  · exact hw
  · exact o x hx

/-- a call that only ADDS to the file: creates an element that does not exist yet (or only reads) -/
def adds (s : File) : Op → Bool
  | .put t r l => (htpSelect s (baseTag t) r).isNone && decide (0 < l)
  | .startwrite t r l => (htpSelect s (baseTag t) r).isNone && decide (0 ≤ l)
  | .dup t r _ _ => (htpSelect s t r).isNone
  | .inquire _ _ => true
  | .number _ => true
  | .exist _ _ => true
  | .newref => true
  | .tagnewref _ => true
  | _ => false

/-- every call of the history is an adding call (in the state it is executed in) -/
def addingOnly (cfg : Cfg) : File → List Op → Bool
  | _, [] => true
  | s, op :: ops => adds s op && (match (step cfg s op).2 with
    | none => true
    | some s' => addingOnly cfg s' ops)

theorem hdupdd_mono (cfg : Cfg) {s : File} (hc : s.cache = true) (t r ot or' : Nat) : Mono s (hdupdd cfg s t r ot or').2 := by
  rw [hdupdd_eq]
  cases htpSelect s ot or' with
  | none => exact Mono.refl _
  | some old =>
    simp only
    have h1 := htpCreate_mono cfg hc t r
    generalize htpCreate cfg s t r = y at *
    obtain ⟨o, s1⟩ := y
    cases o with
    | none => exact h1
    | some p =>
      have hc1 : s1.cache = true := by rw [h1.1]; exact hc
      exact h1.trans (htpUpdate_mono hc1 p _ _)

theorem hinquire_mono (cfg : Cfg) {s : File} (hc : s.cache = true) (t r : Nat) : Mono s (hinquire cfg s t r).2.2 := by
  unfold hinquire
  have h1 := hstartaccess_mono cfg hc (baseTag t) r false
  generalize hstartaccess cfg s (baseTag t) r false = y at *
  obtain ⟨a, s1⟩ := y
  cases a <;> exact h1

theorem select_absent {s : File} (h : WF s) {base r : Nat} (hb0 : base ≠ 0) (hb1 : base ≠ 1) (hr : r ≠ 0)
    (hsel : (htpSelect s base r).isNone = true) (hbb : baseTag base = base) : ∀ d ∈ s.live, keyOf d ≠ (base, r) := by
  have : htpSelect s base r = none := by cases hh : htpSelect s base r <;> simp_all
  have := htpSelect_none h hb0 hb1 hr this
  rw [hbb] at this; exact this

theorem existing_ordinary_absurd {cfg : Cfg} {s : File} (h : Inv cfg s) {t r : Nat} (h1 : baseTag t ≠ 0) (h2 : r ≠ 0)
    (hsel : (htpSelect s (baseTag t) r).isNone = true) {d : DD} (hd : d ∈ s.live) (hk : keyOf d = (baseTag t, r))
    (hsp : isSpecial d.tag = false) : False := by
  by_cases hb1 : baseTag t = 1
  · have := (h.wf.wfl.live_ok d hd).1.1
    have hk1 : baseTag d.tag = 1 := by simp [keyOf] at hk; rw [hk.1]; exact hb1
    rw [baseTag_of_not_special hsp] at hk1
    omega
  · exact select_absent h.wf h1 hb1 h2 hsel (baseTag_idem t) d hd hk

/-- `Hputelement` / `Hstartwrite` of a NEW element with caching on -/
theorem write_mono_adding (cfg : Cfg) (put : Bool) {s : File} (h : Inv cfg s) (hc : s.cache = true) {t r : Nat} {l : Int}
    (h1 : baseTag t ≠ 0) (h2 : r ≠ 0) (h3 : t < 65536) (h4 : r < 65536) (h5 : guardF3 cfg s = true)
    (hsel : (htpSelect s (baseTag t) r).isNone = true) (hl : 0 ≤ l) :
    Mono s (if put then hputelement cfg s t r l else hstartwriteEnd cfg s t r l).2 := by
  have hbs := baseTag_not_special t
  have hbl : baseTag t < 65536 := by unfold baseTag; split <;> omega
  have hx : (if put then hputelement cfg s t r l else hstartwriteEnd cfg s t r l) =
      (match hstartaccess cfg s (baseTag t) r true with
       | (.fail, s) => (.fail, s)
       | (.special _, s) => (.unsupported, s)
       | (.ok p newElem, s) =>
         if put then
           (if newElem ∧ l < 0 then (.fail, s)
            else
              (if l ≤ 0 ∨ l > (getDD (if newElem then hsetlength s p l.toNat else s).blocks p).len
               then (.fail, (if newElem then hsetlength s p l.toNat else s))
               else (.num l, logW (.data (getDD (if newElem then hsetlength s p l.toNat else s).blocks p).off.toNat l.toNat)
                      (if newElem then hsetlength s p l.toNat else s))))
         else (if newElem then (if l < 0 then (.fail, s) else (.ok, hsetlength s p l.toNat)) else (.ok, s))) := by
    cases put
    · simp only [Bool.false_eq_true, if_false]; unfold hstartwriteEnd; rfl
    · simp only [if_true]; unfold hputelement; rfl
  rw [hx]
  have hm1 := hstartaccess_mono cfg hc (baseTag t) r true
  rcases access_write_cases cfg h h1 hbs hbl h2 h4 h5 with
    ⟨d, hd, hk, hsp, q, hacc⟩ | ⟨d, hd, hk, hsp, _⟩ | ⟨hfree, hb1, hacc⟩ | ⟨hfree, hb1, p, s1, hacc, hinv1, hv1, hg1, _⟩
  · rw [hacc]; exact Mono.refl _
  · exact absurd (existing_ordinary_absurd h h1 h2 hsel hd hk hsp) id
  · rw [hacc]; exact Mono.refl _
  · rw [hacc] at hm1 ⊢
    have hm1' : Mono s s1 := hm1
    have hc1 : s1.cache = true := by rw [hm1'.1]; exact hc
    have hl1 : isLive (getDD s1.blocks p) = true := by
      rw [hg1]; simp [isLive, DFTAG_NULL]; exact hb1
    have hnl : ¬ l < 0 := by omega
    obtain ⟨_, _, hg2⟩ := hsetlength_inv cfg hinv1 hv1 hl1 l.toNat
    have hm2 : Mono s (hsetlength s1 p l.toNat) := hm1'.trans (hsetlength_mono hc1 p l.toNat)
    cases put
    · simp only [Bool.false_eq_true, if_false, if_true, hnl]
      exact hm2
    · simp only [if_true, hnl, and_false, if_false]
      split
      · exact hm2
      · apply hm2.log_after
        rw [hg2]
        show s.fEnd ≤ (s1.fEnd : Int).toNat
        have := hm1'.2.1
        omega

/-- one adding call, caching on: nothing is written below the end of the file as it was before the call -/
theorem step_mono_adding (cfg : Cfg) {s : File} (h : Inv cfg s) (hc : s.cache = true) (op : Op)
    (hg : guard cfg s op = true) (ha : adds s op = true) :
    ∀ s', (step cfg s op).2 = some s' → Mono s s' := by
  intro s' hs'
  cases op with
  | put t r l =>
    simp only [guard, Bool.and_eq_true, bne_iff_ne, ne_eq, decide_eq_true_eq] at hg
    obtain ⟨⟨⟨⟨h1, h2⟩, h3⟩, h4⟩, h5⟩ := hg
    simp only [adds, Bool.and_eq_true, decide_eq_true_eq] at ha
    simp only [step, Option.some.injEq] at hs'
    subst hs'
    have := write_mono_adding cfg true h hc (l := l) h1 h2 h3 h4 h5 ha.1 (by omega)
    simpa using this
  | startwrite t r l =>
    simp only [guard, Bool.and_eq_true, bne_iff_ne, ne_eq, decide_eq_true_eq] at hg
    obtain ⟨⟨⟨⟨h1, h2⟩, h3⟩, h4⟩, h5⟩ := hg
    simp only [adds, Bool.and_eq_true, decide_eq_true_eq] at ha
    simp only [step, Option.some.injEq] at hs'
    subst hs'
    have := write_mono_adding cfg false h hc (l := l) h1 h2 h3 h4 h5 ha.1 ha.2
    simpa using this
  | append t r n => simp [adds] at ha
  | del t r => simp [adds] at ha
  | dup t r ot or' =>
    simp only [step, Option.some.injEq] at hs'
    subst hs'
    exact hdupdd_mono cfg hc t r ot or'
  | reuse t r => simp [adds] at ha
  | inquire t r =>
    simp only [step, Option.some.injEq] at hs'
    subst hs'
    exact hinquire_mono cfg hc t r
  | number t =>
    simp only [step, Option.some.injEq] at hs'
    subst hs'; exact Mono.refl _
  | exist t r =>
    simp only [step, hexist, Option.some.injEq] at hs'
    subst hs'; exact hfind_mono s t r 0 0 .fwd
  | newref =>
    simp only [step, Option.some.injEq] at hs'
    subst hs'
    unfold hnewref
    split
    · exact Mono.of_frame rfl (Nat.le_refl _) rfl
    · exact Mono.refl _
  | tagnewref t =>
    simp only [step, Option.some.injEq] at hs'
    subst hs'
    unfold htagnewref
    cases tget s.tags (baseTag t) with
    | none => exact Mono.refl _
    | some bv => exact Mono.of_frame rfl (Nat.le_refl _) rfl
  | cache on => simp [adds] at ha
  | sync => simp [adds] at ha
  | reopen => simp [adds] at ha

/-- **append_only_before_flush** (C17): starting from any state of an open file with DD caching on, along any history of
    adding calls every physical write logged starts at or beyond the end of the file as it was at the start
    (`f_end_off`, which bounds every descriptor block and every element extent), caching stays on, and the end of the file
    only grows. No flush (`Hsync`, `Hcache`, `Hclose`) is part of an adding history. -/
theorem append_only (cfg : Cfg) : ∀ (ops : List Op) (s : File), Inv cfg s → s.cache = true →
    guarded cfg s ops = true → addingOnly cfg s ops = true →
    ∃ s', (run cfg s ops).2 = some s' ∧ Inv cfg s' ∧ Mono s s' := by
  intro ops
  induction ops with
  | nil => intro s h _ _ _; exact ⟨s, rfl, h, Mono.refl _⟩
  | cons op ops ih =>
    intro s h hc hg ha
    simp only [guarded, Bool.and_eq_true] at hg
    simp only [addingOnly, Bool.and_eq_true] at ha
    obtain ⟨s1, hs1, hinv1, _, _⟩ := step_refines cfg h op hg.1
    have hm1 := step_mono_adding cfg h hc op hg.1 ha.1 s1 hs1
    have hc1 : s1.cache = true := by rw [hm1.1]; exact hc
    have hg2 : guarded cfg s1 ops = true := by have := hg.2; rw [hs1] at this; exact this
    have ha2 : addingOnly cfg s1 ops = true := by have := ha.2; rw [hs1] at this; exact this
    obtain ⟨s', hs', hinv', hm'⟩ := ih s1 hinv1 hc1 hg2 ha2
    refine ⟨s', ?_, hinv', hm1.trans hm'⟩
    show (match step cfg s op with
      | (o, none) => ([o], none)
      | (o, some s') => (o :: (run cfg s' ops).1, (run cfg s' ops).2)).2 = some s'
    have : step cfg s op = ((step cfg s op).1, some s1) := by rw [← hs1]
    rw [this]
    exact hs'

end H4.DD
