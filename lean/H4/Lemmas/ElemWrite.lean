import H4.Lemmas.ElemDD
import H4.Lemmas.ElemLinked
/-! `HLPwrite` against the byte-array view: allocation of tables and blocks, the piece loop, the length update. -/
namespace H4.Elem
open H4.Gen.Hdf

/-! ### fresh refs -/

theorem foldl_max_ge (l : List DD) (p : DD → Bool) (m : Nat) :
    m ≤ l.foldl (fun m d => if p d then max m d.ref else m) m ∧
    ∀ d ∈ l, p d = true → d.ref ≤ l.foldl (fun m d => if p d then max m d.ref else m) m := by
  induction l generalizing m with
  | nil => simp
  | cons x xs ih =>
    simp only [List.foldl_cons, List.mem_cons]
    obtain ⟨h1, h2⟩ := ih (if p x then max m x.ref else m)
    constructor
    · have : m ≤ (if p x then max m x.ref else m) := by split <;> omega
      omega
    · intro d hd hp
      rcases hd with rfl | hd
      · rw [if_pos hp] at h1 ⊢; omega
      · exact h2 d hd hp

/-- `Htagnewref` returns a ref no DD of that tag uses -/
theorem tagNewRef_fresh (f : File) (tag : Nat) (j : Nat) : ¬ f.hasKey j tag (f.tagNewRef tag) := by
  intro hk
  have hj := live_lt f j hk.1
  have e : f.dd j = f.mem[j] := by simp [dd_def, hj]
  have := (foldl_max_ge f.mem (fun d => d.tag != DFTAG_NULL && baseTag d.tag == baseTag tag) 0).2 (f.mem[j]) (List.getElem_mem hj)
    (by rw [← e]; simp only [Bool.and_eq_true, bne_iff_ne, ne_eq, beq_iff_eq]; exact ⟨hk.1, hk.2.1⟩)
  rw [← e] at this
  have h2 := hk.2.2
  unfold File.tagNewRef at h2
  omega

theorem tagNewRef_pos (f : File) (tag : Nat) : f.tagNewRef tag ≠ 0 := by
  unfold File.tagNewRef; omega

/-! ### allocation-only steps -/

/-- `f'` comes from `f` by steps that only add DDs and space: every DD of `f` is still in its slot, no byte of the
    file reads differently, `f_end_off` did not shrink, the descriptors are untouched -/
structure Ext (f f' : File) : Prop where
  dd_keep : ∀ j, f.live j → f'.dd j = f.dd j
  rd_keep : ∀ x, rd f'.disk x = rd f.disk x
  end_le : f.endOff ≤ f'.endOff
  links : f'.links = f.links
  ndds : f'.ndds = f.ndds
  /-- the only DDs added are the library's own `DFTAG_LINKED` objects -/
  new_linked : ∀ j, f'.live j → f.live j ∨ (f'.dd j).tag = DFTAG_LINKED
  present : f'.present = f.present

theorem Ext.refl (f : File) : Ext f f := ⟨fun _ _ => rfl, fun _ => rfl, Nat.le_refl _, rfl, rfl, fun _ h => Or.inl h, rfl⟩

theorem Ext.trans {f g h : File} (a : Ext f g) (b : Ext g h) : Ext f h := by
  refine ⟨?_, ?_, Nat.le_trans a.end_le b.end_le, by rw [b.links, a.links], by rw [b.ndds, a.ndds], ?_, by rw [b.present, a.present]⟩
  · intro j hj
    have : g.live j := by unfold File.live; rw [a.dd_keep j hj]; exact hj
    rw [b.dd_keep j this, a.dd_keep j hj]
  · intro x; rw [b.rd_keep, a.rd_keep]
  · intro j hj
    rcases b.new_linked j hj with h1 | h1
    · rcases a.new_linked j h1 with h2 | h2
      · exact Or.inl h2
      · right; rw [b.dd_keep j h1]; exact h2
    · exact Or.inr h1

theorem Ext.hasKey {f f' : File} (e : Ext f f') {j tag ref : Nat} (h : f.hasKey j tag ref) : f'.hasKey j tag ref := by
  unfold File.hasKey File.live at *
  rw [e.dd_keep j h.1]; exact h

theorem Ext.select {f f' : File} (e : Ext f f') (hw' : WFF f') {tag ref j : Nat} (h : f.select tag ref = some j) :
    f'.select tag ref = some j :=
  select_of_hasKey f' hw' tag ref j (e.hasKey (select_some f tag ref j h))

theorem Ext.blockExt {f f' : File} (e : Ext f f') (hw' : WFF f') {ref : Nat} {x : Nat × Nat} (h : f.blockExt ref = some x) :
    f'.blockExt ref = some x := by
  unfold File.blockExt at *
  cases hs : f.select DFTAG_LINKED ref with
  | none => rw [hs] at h; simp at h
  | some j =>
    rw [hs] at h
    rw [e.select hw' hs]
    simp only at h ⊢
    rw [e.dd_keep j (select_some f _ _ j hs).1]
    exact h

theorem Created.ext {f f' : File} {i ref : Nat} (h : Created f f' i DFTAG_LINKED ref) : Ext f f' :=
  ⟨fun j hj => h.dd_keep j (fun e => hj (by rw [e]; exact h.was_free)), h.rd_keep, h.end_le, h.links, h.ndds,
   fun j hj => by
     by_cases e : j = i
     · right; rw [e, h.dd_new]
     · left; unfold File.live at *; rw [← h.dd_keep j e]; exact hj,
   h.present⟩

/-- create a DD and give it `n` bytes: what `Hstartwrite(tag, ref, n)` on an unused tag/ref does -/
structure NewElem (f f' : File) (i tag ref n off : Nat) : Prop where
  ext : Ext f f'
  wff : WFF f'
  not_live : ¬ f.live i
  dd_new : f'.dd i = { tag := tag, ref := ref, ext := some (off, n) }
  off_ge : f.endOff ≤ off
  end_eq : f'.endOff = off + n
  dd_other : ∀ j, j ≠ i → f'.dd j = f.dd j

theorem newElem_spec (f : File) (hw : WFF f) (tag ref n : Nat) (htag : tag ≠ DFTAG_NULL) (h20 : tag = DFTAG_LINKED)
    (hfresh : ∀ j, ¬ f.hasKey j tag ref) :
    let c := f.ddCreate tag ref
    let s := c.1.setLength c.2 n
    NewElem f s.1 c.2 tag ref n s.2 := by
  intro c s
  have hc : Created f c.1 c.2 tag ref := ddCreate_spec f tag ref hw.ndds_pos hw.tail0
  have hw1 : WFF c.1 := hc.wff hw htag hfresh
  have hs : Sized c.1 s.1 c.2 n s.2 := setLength_spec c.1 c.2 n hc.lt hw1.tail0
  have hlive1 : c.1.live c.2 := by unfold File.live; rw [hc.dd_new]; exact htag
  have hw2 : WFF s.1 := hs.wff hw1 hlive1 (by rw [hc.dd_new])
  refine ⟨?_, hw2, fun hh => hh hc.was_free, ?_, ?_, ?_, ?_⟩
  · refine ⟨?_, fun x => by rw [hs.rd_keep, hc.rd_keep], by rw [hs.end_eq]; have := hc.end_le; omega,
      by rw [hs.links, hc.links], by rw [hs.ndds, hc.ndds], ?_, by rw [hs.present, hc.present]⟩
    · intro j hj
      have hji : j ≠ c.2 := fun e => hj (by rw [e]; exact hc.was_free)
      rw [hs.dd_keep j hji, hc.dd_keep j hji]
    · intro j hj
      by_cases e : j = c.2
      · right; rw [e, hs.dd_new, hc.dd_new]; exact h20
      · left; unfold File.live at *; rw [hs.dd_keep j e, hc.dd_keep j e] at hj; exact hj
  · rw [hs.dd_new, hc.dd_new]
  · rw [hs.off_eq]; exact hc.end_le
  · rw [hs.end_eq, hs.off_eq]
  · intro j hj; rw [hs.dd_keep j hj, hc.dd_keep j hj]

end H4.Elem

namespace H4.Elem
open H4.Gen.Hdf

/-! ### block tables -/

theorem blockRef_ge (li : LinkInfo) (t idx : Nat) (h : li.tables.length ≤ t) : li.blockRef t idx = 0 := by
  unfold LinkInfo.blockRef
  have : li.tables.getD t (0, []) = (0, []) := by
    rw [List.getD_eq_getElem?_getD, List.getElem?_eq_none h]; rfl
  rw [this]; rfl

theorem blockRef_idx_ge (li : LinkInfo) (t idx : Nat) (h : (li.tables.getD t (0, [])).2.length ≤ idx) : li.blockRef t idx = 0 := by
  unfold LinkInfo.blockRef
  rw [List.getD_eq_getElem?_getD (l := (li.tables.getD t (0, [])).2), List.getElem?_eq_none h]
  rfl

theorem blockRef_setBlockRef (li : LinkInfo) (t idx r t' idx' : Nat) (ht : t < li.tables.length)
    (hidx : idx < (li.tables.getD t (0, [])).2.length) :
    (li.setBlockRef t idx r).blockRef t' idx' = if t' = t ∧ idx' = idx then r else li.blockRef t' idx' := by
  unfold LinkInfo.setBlockRef LinkInfo.blockRef
  simp only [List.getD_eq_getElem?_getD, List.getElem?_set]
  by_cases h1 : t = t'
  · subst h1
    simp only [ht, if_true, Option.getD_some, true_and]
    by_cases h2 : idx = idx'
    · subst h2
      have : idx < (li.tables[t]?.getD (0, [])).2.length := by simpa [List.getD_eq_getElem?_getD] using hidx
      simp [this]
    · have : ¬ (idx' = idx) := fun e => h2 e.symm
      simp [h2, this]
  · have : ¬ (t' = t) := fun e => h1 e.symm
    simp [h1, this]

theorem setBlockRef_tables_length (li : LinkInfo) (t idx r : Nat) : (li.setBlockRef t idx r).tables.length = li.tables.length := by
  simp [LinkInfo.setBlockRef]

theorem setBlockRef_table_len (li : LinkInfo) (t idx r t' : Nat) :
    ((li.setBlockRef t idx r).tables.getD t' (0, [])).2.length = (li.tables.getD t' (0, [])).2.length := by
  unfold LinkInfo.setBlockRef
  simp only [List.getD_eq_getElem?_getD, List.getElem?_set]
  by_cases h1 : t = t'
  · subst h1
    by_cases h2 : t < li.tables.length
    · simp [h2]
    · simp [h2, List.getElem?_eq_none (Nat.le_of_not_lt h2)]
  · simp [h1]

theorem blockRef_append_zero (li : LinkInfo) (r n t idx : Nat) :
    ({ li with tables := li.tables ++ [(r, List.replicate n 0)] } : LinkInfo).blockRef t idx = li.blockRef t idx := by
  unfold LinkInfo.blockRef
  simp only [List.getD_eq_getElem?_getD, List.getElem?_append]
  split
  · rfl
  · rename_i h
    rw [List.getElem?_eq_none (Nat.le_of_not_lt h)]
    by_cases h2 : t - li.tables.length = 0
    · simp [h2, List.getElem?_replicate]; split <;> rfl
    · have : ([(r, List.replicate n (0 : Nat))] : List (Nat × List Nat))[t - li.tables.length]? = none := by
        apply List.getElem?_eq_none; simp; omega
      rw [this]

end H4.Elem

namespace H4.Elem
open H4.Gen.Hdf

/-! ### writing inside allocated space -/

theorem pwrite_wff (f : File) (hw : WFF f) (off : Nat) (bs : Bytes) (h : off + bs.length ≤ f.endOff) : WFF (f.pwrite off bs) := by
  refine ⟨hw.ndds_pos, hw.ext_le, hw.disj, ?_, hw.uniq⟩
  intro k hk
  rw [pwrite_rd]
  have : ¬ (off ≤ k ∧ k < off + bs.length) := by
    have : f.endOff ≤ k := hk
    omega
  rw [if_neg this]
  exact hw.tail0 k hk

theorem endOff_max_noop (f : File) (x : Nat) (h : x ≤ f.endOff) : ({ f with endOff := max f.endOff x } : File) = f := by
  cases f
  simp only [File.mk.injEq, and_true, true_and]
  exact Nat.max_eq_left h

/-- zeros written into a fresh (all-zero) region change no byte -/
theorem pwrite_zeros_rd (f : File) (off n : Nat) (hz : ∀ x, off ≤ x → x < off + n → rd f.disk x = 0) (x : Nat) :
    rd (f.pwrite off (zeros n)).disk x = rd f.disk x := by
  rw [pwrite_rd]
  split
  · rename_i h
    rw [zeros_length] at h
    rw [hz x h.1 h.2]
    simp [zeros, List.getD_eq_getElem?_getD, List.getElem?_replicate]
    split <;> rfl
  · rfl

/-- `HLInewlink`: a new block table is one more `DFTAG_LINKED` element, nothing else moves -/
theorem newTable_spec (f : File) (hw : WFF f) (ref nb : Nat) (hfresh : ∀ j, ¬ f.hasKey j DFTAG_LINKED ref) :
    Ext f (f.newTable ref nb) ∧ WFF (f.newTable ref nb) := by
  unfold File.newTable File.putNew
  have hne := newElem_spec f hw DFTAG_LINKED ref (2 + 2 * nb) (by decide) rfl hfresh
  simp only at hne ⊢
  generalize hc : f.ddCreate DFTAG_LINKED ref = c at hne
  generalize hs : c.1.setLength c.2 (2 + 2 * nb) = s at hne
  obtain ⟨f2, off⟩ := s
  obtain ⟨f1, i⟩ := c
  simp only at hne ⊢
  have hlen : off + (zeros (2 + 2 * nb)).length ≤ f2.endOff := by rw [zeros_length, hne.end_eq]; omega
  have hw3 : WFF (f2.pwrite off (zeros (2 + 2 * nb))) := pwrite_wff f2 hne.wff off _ hlen
  rw [endOff_max_noop _ _ (by exact hlen)]
  refine ⟨?_, hw3⟩
  have hz : ∀ x, off ≤ x → x < off + (2 + 2 * nb) → rd f2.disk x = 0 := by
    intro x hx _
    rw [hne.ext.rd_keep]
    exact hw.tail0 x (by have := hne.off_ge; omega)
  exact ⟨fun j hj => by rw [pwrite_dd]; exact hne.ext.dd_keep j hj,
         fun x => by rw [pwrite_zeros_rd f2 off _ hz, hne.ext.rd_keep],
         hne.ext.end_le, hne.ext.links, hne.ext.ndds, hne.ext.new_linked, hne.ext.present⟩

theorem WFLs.ext {f f' : File} {li : LinkInfo} (h : WFLs f li) (e : Ext f f') (hw' : WFF f') : WFLs f' li := by
  refine ⟨h.blk_pos, h.nb_pos, h.tables_ne, h.table_len, ?_, h.inj⟩
  intro t idx ht hidx href
  obtain ⟨o, ho⟩ := h.block_ok t idx ht hidx href
  exact ⟨o, e.blockExt hw' ho⟩

theorem ensureTables_zero (f : File) (li : LinkInfo) (t : Nat) : ensureTables f li 0 t = (f, li) := rfl
theorem ensureTables_succ (f : File) (li : LinkInfo) (fuel t : Nat) :
    ensureTables f li (fuel + 1) t =
      if t < li.tables.length then (f, li)
      else
        let r := ensureTables f li fuel (t - 1)
        if t = r.2.tables.length then
          (r.1.newTable (r.1.tagNewRef DFTAG_LINKED) r.2.numBlocks,
           { r.2 with tables := r.2.tables ++ [(r.1.tagNewRef DFTAG_LINKED, List.replicate r.2.numBlocks 0)] })
        else r := rfl

/-- what "create missing block tables along the way" guarantees -/
structure Ensured (f : File) (li : LinkInfo) (t fuel : Nat) (r : File × LinkInfo) : Prop where
  ext : Ext f r.1
  wff : WFF r.1
  wfl : WFLs r.1 r.2
  refs : ∀ t' idx, r.2.blockRef t' idx = li.blockRef t' idx
  g1 : r.2.firstLen = li.firstLen
  g2 : r.2.blockLen = li.blockLen
  g3 : r.2.numBlocks = li.numBlocks
  g4 : r.2.length = li.length
  len_le : li.tables.length ≤ r.2.tables.length
  reach : t + 1 ≤ fuel + li.tables.length → t < r.2.tables.length

/-- "create missing block tables along the way": only empty tables are appended, the file only grows -/
theorem ensureTables_spec : ∀ (fuel : Nat) (f : File) (li : LinkInfo) (t : Nat), WFF f → WFLs f li →
    Ensured f li t fuel (ensureTables f li fuel t) := by
  intro fuel
  induction fuel with
  | zero =>
    intro f li t hw hl
    rw [ensureTables_zero]
    exact ⟨Ext.refl f, hw, hl, fun _ _ => rfl, rfl, rfl, rfl, rfl, Nat.le_refl _, fun h => by show t < li.tables.length; omega⟩
  | succ fuel ih =>
    intro f li t hw hl
    rw [ensureTables_succ]
    by_cases hlt : t < li.tables.length
    · rw [if_pos hlt]
      exact ⟨Ext.refl f, hw, hl, fun _ _ => rfl, rfl, rfl, rfl, rfl, Nat.le_refl _, fun _ => hlt⟩
    · rw [if_neg hlt]
      have h1 := ih f li (t - 1) hw hl
      generalize ensureTables f li fuel (t - 1) = r at h1
      obtain ⟨f1, li1⟩ := r
      obtain ⟨e1, w1, l1, b1, g1, g2, g3, g4, g5, g6⟩ := h1
      simp only at e1 w1 l1 b1 g1 g2 g3 g4 g5 g6 ⊢
      by_cases heq : t = li1.tables.length
      · rw [if_pos heq]
        have hfresh := tagNewRef_fresh f1 DFTAG_LINKED
        obtain ⟨e2, w2⟩ := newTable_spec f1 w1 (f1.tagNewRef DFTAG_LINKED) li1.numBlocks hfresh
        refine ⟨e1.trans e2, w2, ?_, ?_, g1, g2, g3, g4, ?_, ?_⟩
        · have l2 := l1.ext e2 w2
          refine ⟨l2.blk_pos, l2.nb_pos, by simp, ?_, ?_, ?_⟩
          · intro t' ht'
            simp only [List.length_append, List.length_cons, List.length_nil] at ht'
            by_cases h : t' < li1.tables.length
            · have := l2.table_len t' h
              simp only [List.getD_eq_getElem?_getD, List.getElem?_append, h, if_true] at this ⊢
              exact this
            · have : t' = li1.tables.length := by omega
              subst this
              simp [List.getD_eq_getElem?_getD]
          · intro t' idx ht' hidx href
            rw [blockRef_append_zero] at href ⊢
            simp only [List.length_append, List.length_cons, List.length_nil] at ht'
            by_cases h : t' < li1.tables.length
            · exact l2.block_ok t' idx h hidx href
            · exact absurd (blockRef_ge li1 t' idx (by omega)) href
          · intro a b a' b' href heq'
            rw [blockRef_append_zero] at href heq'
            rw [blockRef_append_zero] at heq'
            exact l2.inj a b a' b' href heq'
        · intro t' idx; rw [blockRef_append_zero]; exact b1 t' idx
        · simp only [List.length_append, List.length_cons, List.length_nil]; omega
        · intro _; simp only [List.length_append, List.length_cons, List.length_nil]; omega
      · rw [if_neg heq]
        refine ⟨e1, w1, l1, b1, g1, g2, g3, g4, g5, ?_⟩
        intro h
        have hne := hl.tables_ne
        have h6 : t - 1 < li1.tables.length := g6 (by omega)
        show t < li1.tables.length
        omega

end H4.Elem

namespace H4.Elem
open H4.Gen.Hdf

/-! ### helpers for the byte view -/

theorem hasKey_of_dd_keep {f f' : File} (hk : ∀ j, f.live j → f'.dd j = f.dd j) {j tag ref : Nat} (h : f.hasKey j tag ref) :
    f'.hasKey j tag ref := by
  unfold File.hasKey File.live at *
  rw [hk j h.1]; exact h

theorem blockExt_keep {f f' : File} (hk : ∀ j, f.live j → f'.dd j = f.dd j) (hw' : WFF f') {ref : Nat} {x : Nat × Nat}
    (h : f.blockExt ref = some x) : f'.blockExt ref = some x := by
  unfold File.blockExt at *
  cases hs : f.select DFTAG_LINKED ref with
  | none => rw [hs] at h; simp at h
  | some j =>
    rw [hs] at h
    have hkey := select_some f _ _ j hs
    rw [select_of_hasKey f' hw' _ _ j (hasKey_of_dd_keep hk hkey)]
    simp only at h ⊢
    rw [hk j hkey.1]
    exact h

/-- the slot behind an existing block -/
theorem blockExt_slot {f : File} {ref : Nat} {x : Nat × Nat} (h : f.blockExt ref = some x) :
    ∃ j, f.hasKey j DFTAG_LINKED ref ∧ (f.dd j).ext = some x := by
  unfold File.blockExt at h
  cases hs : f.select DFTAG_LINKED ref with
  | none => rw [hs] at h; simp at h
  | some j => rw [hs] at h; exact ⟨j, select_some f _ _ j hs, h⟩

theorem blockExt_of_slot {f : File} (hw : WFF f) {ref j : Nat} {x : Nat × Nat} (hk : f.hasKey j DFTAG_LINKED ref)
    (he : (f.dd j).ext = some x) : f.blockExt ref = some x := by
  unfold File.blockExt
  rw [select_of_hasKey f hw _ _ j hk]
  exact he

/-- `lbyte` in terms of the block that contains position `i` -/
theorem lbyte_block (f : File) (li : LinkInfo) (hblk : 1 ≤ li.blockLen) (hnb : 1 ≤ li.numBlocks) (t idx r : Nat)
    (hidx : idx < li.numBlocks) (hr : r < blockLenOf li.firstLen li.blockLen (t * li.numBlocks + idx)) :
    f.lbyte li (blockStart li.firstLen li.blockLen (t * li.numBlocks + idx) + r) = f.blockByte (li.blockRef t idx) r := by
  unfold File.lbyte
  rw [startBlock_block _ _ _ _ hblk hr]
  simp only
  obtain ⟨hd, hm⟩ := mul_add_div_mod t li.numBlocks idx hidx
  rw [hd, hm]

/-- every position lies in exactly one block: table `t`, entry `idx < number_blocks`, offset `r` within the block's length -/
theorem pos_block (first blk nb i : Nat) (hblk : 1 ≤ blk) (hnb : 1 ≤ nb) :
    ∃ t idx r, idx < nb ∧ r < blockLenOf first blk (t * nb + idx) ∧ blockStart first blk (t * nb + idx) + r = i := by
  have hs := startBlock_spec first blk i hblk
  generalize startBlock first blk i = s at hs
  obtain ⟨b, r, cur⟩ := s
  simp only at hs
  obtain ⟨h1, h2, h3⟩ := hs
  refine ⟨b / nb, b % nb, r, Nat.mod_lt _ hnb, ?_, ?_⟩
  · have : b / nb * nb + b % nb = b := by have := Nat.div_add_mod b nb; rw [Nat.mul_comm] at this; exact this
    rw [this, ← h2]; exact h1
  · have : b / nb * nb + b % nb = b := by have := Nat.div_add_mod b nb; rw [Nat.mul_comm] at this; exact this
    rw [this]; exact h3

/-- two descriptions of the same position name the same block -/
theorem pos_block_unique (first blk nb : Nat) (hblk : 1 ≤ blk) (t idx r t' idx' r' : Nat) (hidx : idx < nb) (hidx' : idx' < nb)
    (hr : r < blockLenOf first blk (t * nb + idx)) (hr' : r' < blockLenOf first blk (t' * nb + idx'))
    (h : blockStart first blk (t * nb + idx) + r = blockStart first blk (t' * nb + idx') + r') :
    t = t' ∧ idx = idx' ∧ r = r' := by
  have a := startBlock_block first blk _ _ hblk hr
  have b := startBlock_block first blk _ _ hblk hr'
  rw [h, b] at a
  simp only [Prod.mk.injEq] at a
  obtain ⟨h1, h2, _⟩ := a
  have d1 := mul_add_div_mod t nb idx hidx
  have d2 := mul_add_div_mod t' nb idx' hidx'
  rw [← h1] at d1
  exact ⟨d1.1.symm.trans d2.1, d1.2.symm.trans d2.2, h2.symm⟩

end H4.Elem

namespace H4.Elem
open H4.Gen.Hdf

/-- a nonzero table entry is an existing block -/
theorem WFLs.ref_block {f : File} {li : LinkInfo} (h : WFLs f li) (t idx : Nat) (hidx : idx < li.numBlocks)
    (href : li.blockRef t idx ≠ 0) :
    t < li.tables.length ∧ ∃ o, f.blockExt (li.blockRef t idx) = some (o, blockLenOf li.firstLen li.blockLen (t * li.numBlocks + idx)) := by
  have ht : t < li.tables.length := by
    by_cases ht : t < li.tables.length
    · exact ht
    · exact absurd (blockRef_ge li t idx (by omega)) href
  exact ⟨ht, h.block_ok t idx ht hidx href⟩

/-- the byte view only depends on the table entries, the extents of the listed blocks and the bytes inside them -/
theorem lbyte_congr {f f' : File} {li li' : LinkInfo} (hl : WFLs f li)
    (g1 : li'.firstLen = li.firstLen) (g2 : li'.blockLen = li.blockLen) (g3 : li'.numBlocks = li.numBlocks)
    (hrefs : ∀ t idx, li'.blockRef t idx = li.blockRef t idx)
    (hbe : ∀ ref x, f.blockExt ref = some x → f'.blockExt ref = some x)
    (hrd : ∀ t idx o l r, li.blockRef t idx ≠ 0 → f.blockExt (li.blockRef t idx) = some (o, l) → r < l →
      rd f'.disk (o + r) = rd f.disk (o + r)) (i : Nat) :
    f'.lbyte li' i = f.lbyte li i := by
  obtain ⟨t, idx, r, hidx, hr, hi⟩ := pos_block li.firstLen li.blockLen li.numBlocks i hl.blk_pos hl.nb_pos
  rw [← hi, lbyte_block f li hl.blk_pos hl.nb_pos t idx r hidx hr]
  have := lbyte_block f' li' (by rw [g2]; exact hl.blk_pos) (by rw [g3]; exact hl.nb_pos) t idx r (by rw [g3]; exact hidx)
    (by rw [g1, g2, g3]; exact hr)
  rw [g1, g2, g3] at this
  rw [this, hrefs]
  unfold File.blockByte
  by_cases h0 : li.blockRef t idx = 0
  · simp [h0]
  · simp only [h0, if_false]
    obtain ⟨_, o, ho⟩ := hl.ref_block t idx hidx h0
    rw [ho, hbe _ _ ho]
    exact hrd t idx o _ r h0 ho hr

/-! ### the write loop -/

/-- the part of `writePiece` after the block tables have been brought up to `p.tbl` -/
def writeBlock (f : File) (li : LinkInfo) (p : Piece) (bs : Bytes) : Option (File × LinkInfo) :=
  let ref := li.blockRef p.tbl p.idx
  if ref != 0 then
    match f.blockExt ref with
    | none => none
    | some (o, l) =>
      if p.rel > l ∨ p.rel + bs.length > l then none
      else some (f.pwrite (o + p.rel) bs, li)
  else
    let ref := f.tagNewRef DFTAG_LINKED
    let (f, i) := f.ddCreate DFTAG_LINKED ref
    let (f, off) := f.setLength i p.cur
    if p.rel > p.cur ∨ p.rel + bs.length > p.cur then none
    else
      let f := f.pwrite (off + p.rel) bs
      let f := { f with endOff := max f.endOff (off + p.rel + bs.length) }
      some (f, li.setBlockRef p.tbl p.idx ref)

theorem writePiece_eq (f : File) (li : LinkInfo) (p : Piece) (bs : Bytes) :
    writePiece f li p bs = writeBlock (ensureTables f li (p.tbl + 1) p.tbl).1 (ensureTables f li (p.tbl + 1) p.tbl).2 p bs := rfl

/-- progress of `HLPwrite`'s loop: `(f, li)` is the state after the bytes of `[posn, p)` have been written, starting
    from `(f0, li0)` -/
structure Prog (f0 : File) (li0 : LinkInfo) (posn : Nat) (d : Bytes) (p : Nat) (f : File) (li : LinkInfo) : Prop where
  wff0 : WFF f0
  wfl0 : WFLs f0 li0
  wff : WFF f
  wfl : WFLs f li
  g1 : li.firstLen = li0.firstLen
  g2 : li.blockLen = li0.blockLen
  g3 : li.numBlocks = li0.numBlocks
  g4 : li.length = li0.length
  dd_keep : ∀ j, f0.live j → f.dd j = f0.dd j
  end_le : f0.endOff ≤ f.endOff
  links : f.links = f0.links
  ndds : f.ndds = f0.ndds
  tables_le : li0.tables.length ≤ li.tables.length
  refs_keep : ∀ t idx, li0.blockRef t idx ≠ 0 → li.blockRef t idx = li0.blockRef t idx
  new_ext : ∀ t idx o l, li0.blockRef t idx = 0 → li.blockRef t idx ≠ 0 → f.blockExt (li.blockRef t idx) = some (o, l) → f0.endOff ≤ o
  new_fresh : ∀ t idx, li0.blockRef t idx = 0 → li.blockRef t idx ≠ 0 → ∀ j, ¬ f0.hasKey j DFTAG_LINKED (li.blockRef t idx)
  bytes : ∀ i, f.lbyte li i = if posn ≤ i ∧ i < p then d.getD (i - posn) 0 else f0.lbyte li0 i
  frame : ∀ x, x < f0.endOff →
    (∀ t idx o l, li0.blockRef t idx ≠ 0 → f0.blockExt (li0.blockRef t idx) = some (o, l) → ¬ (o ≤ x ∧ x < o + l)) →
    rd f.disk x = rd f0.disk x
  cap : posn < p → p ≤ blockStart li.firstLen li.blockLen (li.tables.length * li.numBlocks)
  new_slots : ∀ j, f.live j → f0.live j ∨ (f.dd j).tag = DFTAG_LINKED
  present : f.present = f0.present

theorem cap_mono (first blk nb L L' : Nat) (h : L ≤ L') : blockStart first blk (L * nb) ≤ blockStart first blk (L' * nb) :=
  blockStart_mono first blk _ _ (Nat.mul_le_mul_right nb h)

theorem Prog.init (f0 : File) (li0 : LinkInfo) (posn : Nat) (d : Bytes) (hw : WFF f0) (hl : WFLs f0 li0) :
    Prog f0 li0 posn d posn f0 li0 := by
  refine ⟨hw, hl, hw, hl, rfl, rfl, rfl, rfl, fun _ _ => rfl, Nat.le_refl _, rfl, rfl, Nat.le_refl _, fun _ _ _ => rfl, ?_, ?_, ?_, fun _ _ _ => rfl, fun h => by omega, fun _ h => Or.inl h, rfl⟩
  · intro t idx o l h0 h1; exact absurd h0 h1
  · intro t idx h0 h1; exact absurd h0 h1
  · intro i
    have : ¬ (posn ≤ i ∧ i < posn) := by omega
    rw [if_neg this]

/-- allocation-only steps (new block tables) keep the loop invariant -/
theorem Prog.ensured {f0 : File} {li0 : LinkInfo} {posn : Nat} {d : Bytes} {p : Nat} {f : File} {li : LinkInfo}
    (h : Prog f0 li0 posn d p f li) {t fuel : Nat} {r : File × LinkInfo} (e : Ensured f li t fuel r) :
    Prog f0 li0 posn d p r.1 r.2 := by
  have hbe : ∀ ref x, f.blockExt ref = some x → r.1.blockExt ref = some x := fun ref x hx => e.ext.blockExt e.wff hx
  refine ⟨h.wff0, h.wfl0, e.wff, e.wfl, by rw [e.g1, h.g1], by rw [e.g2, h.g2], by rw [e.g3, h.g3], by rw [e.g4, h.g4], ?_,
    Nat.le_trans h.end_le e.ext.end_le, by rw [e.ext.links, h.links], by rw [e.ext.ndds, h.ndds],
    Nat.le_trans h.tables_le e.len_le, ?_, ?_, ?_, ?_, ?_, ?_, ?_, by rw [e.ext.present, h.present]⟩
  · intro j hj
    have : f.live j := by unfold File.live; rw [h.dd_keep j hj]; exact hj
    rw [e.ext.dd_keep j this, h.dd_keep j hj]
  · intro t' idx h0; rw [e.refs]; exact h.refs_keep t' idx h0
  · intro t' idx o l h0 h1 hx
    rw [e.refs] at h1 hx
    -- the block already existed in `f` with the same extent
    by_cases ht : t' < li.tables.length
    · by_cases hi : idx < li.numBlocks
      · obtain ⟨o', ho'⟩ := h.wfl.block_ok t' idx ht hi h1
        have := hbe _ _ ho'
        rw [this] at hx
        simp only [Option.some.injEq, Prod.mk.injEq] at hx
        rw [← hx.1]
        exact h.new_ext t' idx o' _ h0 h1 ho'
      · exact absurd (blockRef_idx_ge li t' idx (by rw [h.wfl.table_len t' ht]; omega)) h1
    · exact absurd (blockRef_ge li t' idx (by omega)) h1
  · intro t' idx h0 h1; rw [e.refs] at h1 ⊢; exact h.new_fresh t' idx h0 h1
  · intro i
    rw [← h.bytes i]
    exact lbyte_congr h.wfl e.g1 e.g2 e.g3 (fun t' idx => e.refs t' idx) hbe (fun _ _ o _ r _ _ _ => e.ext.rd_keep (o + r)) i
  · intro x hx hn
    rw [e.ext.rd_keep]; exact h.frame x hx hn
  · intro hp
    have := h.cap hp
    rw [e.g1, e.g2, e.g3]
    exact Nat.le_trans this (cap_mono _ _ _ _ _ e.len_le)
  · intro j hj
    rcases e.ext.new_linked j hj with h1 | h1
    · rcases h.new_slots j h1 with h2 | h2
      · exact Or.inl h2
      · right; rw [e.ext.dd_keep j h1]; exact h2
    · exact Or.inr h1

end H4.Elem

namespace H4.Elem
open H4.Gen.Hdf

theorem pwrite_blockExt (f : File) (off : Nat) (bs : Bytes) (ref : Nat) : (f.pwrite off bs).blockExt ref = f.blockExt ref := rfl

theorem WFLs.pwrite {f : File} {li : LinkInfo} (h : WFLs f li) (off : Nat) (bs : Bytes) : WFLs (f.pwrite off bs) li :=
  ⟨h.blk_pos, h.nb_pos, h.tables_ne, h.table_len, h.block_ok, h.inj⟩

/-- one iteration of the write loop on a block that exists -/
theorem writeBlock_existing {f0 : File} {li0 : LinkInfo} {posn : Nat} {d : Bytes} {p : Nat} {f : File} {li : LinkInfo}
    (P : Prog f0 li0 posn d p f li) (q : Piece) (hidx : q.idx < li0.numBlocks)
    (hcur : q.cur = blockLenOf li0.firstLen li0.blockLen (q.tbl * li0.numBlocks + q.idx)) (hfit : q.rel + q.n ≤ q.cur)
    (hstart : blockStart li0.firstLen li0.blockLen (q.tbl * li0.numBlocks + q.idx) + q.rel = p) (hp : posn ≤ p)
    (href : li.blockRef q.tbl q.idx ≠ 0) (c : Bytes) (hc : c.length = q.n)
    (hcd : ∀ k, k < q.n → c.getD k 0 = d.getD (p - posn + k) 0) :
    ∃ f' li', writeBlock f li q c = some (f', li') ∧ Prog f0 li0 posn d (p + q.n) f' li' := by
  have hidx' : q.idx < li.numBlocks := by rw [P.g3]; exact hidx
  obtain ⟨ht, o, ho⟩ := P.wfl.ref_block q.tbl q.idx hidx' href
  rw [P.g1, P.g2, P.g3, ← hcur] at ho
  obtain ⟨j, hjk, hje⟩ := blockExt_slot ho
  have hend : o + q.cur ≤ f.endOff := P.wff.ext_le j o q.cur hjk.1 hje
  refine ⟨f.pwrite (o + q.rel) c, li, ?_, ?_⟩
  · unfold writeBlock
    have : (li.blockRef q.tbl q.idx != 0) = true := by simp [href]
    simp only [this, if_true, ho]
    have : ¬ (q.rel > q.cur ∨ q.rel + c.length > q.cur) := by omega
    simp only [this, if_false]
  · have hw' : WFF (f.pwrite (o + q.rel) c) := pwrite_wff f P.wff _ _ (by omega)
    refine ⟨P.wff0, P.wfl0, hw', P.wfl.pwrite _ _, P.g1, P.g2, P.g3, P.g4, P.dd_keep, P.end_le, P.links, P.ndds, P.tables_le,
      P.refs_keep, P.new_ext, P.new_fresh, ?_, ?_, ?_, P.new_slots, P.present⟩
    rotate_left 2
    · -- cap
      intro _
      show p + q.n ≤ blockStart li.firstLen li.blockLen (li.tables.length * li.numBlocks)
      have h1 : q.tbl * li.numBlocks + q.idx + 1 ≤ li.tables.length * li.numBlocks := by
        have : (q.tbl + 1) * li.numBlocks ≤ li.tables.length * li.numBlocks := Nat.mul_le_mul_right _ ht
        rw [Nat.add_mul] at this
        omega
      have h2 := blockStart_mono li.firstLen li.blockLen _ _ h1
      rw [blockStart_succ] at h2
      have hstart' : blockStart li.firstLen li.blockLen (q.tbl * li.numBlocks + q.idx) + q.rel = p := by
        rw [P.g1, P.g2, P.g3]; exact hstart
      have hcur' : q.cur = blockLenOf li.firstLen li.blockLen (q.tbl * li.numBlocks + q.idx) := by
        rw [P.g1, P.g2, P.g3]; exact hcur
      omega
    · -- bytes
      intro i
      obtain ⟨t, idx, r, hi1, hr, hi⟩ := pos_block li.firstLen li.blockLen li.numBlocks i P.wfl.blk_pos P.wfl.nb_pos
      have hl1 := lbyte_block (f.pwrite (o + q.rel) c) li P.wfl.blk_pos P.wfl.nb_pos t idx r hi1 hr
      have hl2 := lbyte_block f li P.wfl.blk_pos P.wfl.nb_pos t idx r hi1 hr
      rw [hi] at hl1 hl2
      have hstart' : blockStart li.firstLen li.blockLen (q.tbl * li.numBlocks + q.idx) + q.rel = p := by
        rw [P.g1, P.g2, P.g3]; exact hstart
      have hcur' : q.cur = blockLenOf li.firstLen li.blockLen (q.tbl * li.numBlocks + q.idx) := by
        rw [P.g1, P.g2, P.g3]; exact hcur
      by_cases hsame : t = q.tbl ∧ idx = q.idx
      · obtain ⟨e1, e2⟩ := hsame
        subst e1 e2
        rw [hl1]
        unfold File.blockByte
        simp only [href, if_false, pwrite_blockExt, ho, pwrite_rd]
        have hpi : i = p - q.rel + r := by omega
        by_cases hin : o + q.rel ≤ o + r ∧ o + r < o + q.rel + c.length
        · rw [if_pos hin]
          have h1 : posn ≤ i ∧ i < p + q.n := by omega
          rw [if_pos h1]
          have : o + r - (o + q.rel) = r - q.rel := by omega
          rw [this, hcd (r - q.rel) (by omega)]
          congr 1
          omega
        · rw [if_neg hin]
          have hb := P.bytes i
          rw [hl2] at hb
          unfold File.blockByte at hb
          simp only [href, if_false, ho] at hb
          rw [hb]
          have : (posn ≤ i ∧ i < p + q.n) ↔ (posn ≤ i ∧ i < p) := by
            rw [← hcur'] at hr
            constructor
            · intro h; exact ⟨h.1, by omega⟩
            · intro h; exact ⟨h.1, by omega⟩
          by_cases h2 : posn ≤ i ∧ i < p
          · rw [if_pos h2, if_pos (this.mpr h2)]
          · rw [if_neg h2, if_neg (fun h => h2 (this.mp h))]
      · -- another block: its bytes are not touched
        have hni : ¬ (p ≤ i ∧ i < p + q.n) := by
          intro hin
          have hr2 : q.rel + (i - p) < blockLenOf li.firstLen li.blockLen (q.tbl * li.numBlocks + q.idx) := by
            rw [← hcur']; omega
          have := pos_block_unique li.firstLen li.blockLen li.numBlocks P.wfl.blk_pos t idx r q.tbl q.idx (q.rel + (i - p))
            hi1 hidx' hr hr2 (by omega)
          exact hsame ⟨this.1, this.2.1⟩
        have hb := P.bytes i
        have : (posn ≤ i ∧ i < p + q.n) ↔ (posn ≤ i ∧ i < p) := by
          constructor
          · intro h; exact ⟨h.1, by omega⟩
          · intro h; exact ⟨h.1, by omega⟩
        have hgoal : (f.pwrite (o + q.rel) c).lbyte li i = f.lbyte li i := by
          rw [hl1, hl2]
          unfold File.blockByte
          by_cases h0 : li.blockRef t idx = 0
          · simp [h0]
          · simp only [h0, if_false, pwrite_blockExt]
            obtain ⟨_, o', ho'⟩ := P.wfl.ref_block t idx hi1 h0
            rw [ho']
            simp only [pwrite_rd]
            obtain ⟨j', hjk', hje'⟩ := blockExt_slot ho'
            have hjj : j ≠ j' := by
              intro e
              subst e
              have : li.blockRef q.tbl q.idx = li.blockRef t idx := by rw [← hjk.2.2, ← hjk'.2.2]
              have := P.wfl.inj q.tbl q.idx t idx href this
              exact hsame ⟨this.1.symm, this.2.symm⟩
            have hd := P.wff.disj j j' o q.cur o' _ hjj hjk.1 hjk'.1 hje hje' (o' + r)
            have : ¬ (o + q.rel ≤ o' + r ∧ o' + r < o + q.rel + c.length) := by omega
            rw [if_neg this]
        rw [hgoal, hb]
        by_cases h2 : posn ≤ i ∧ i < p
        · rw [if_pos h2, if_pos (this.mpr h2)]
        · rw [if_neg h2, if_neg (fun h => h2 (this.mp h))]
    · -- frame
      intro x hx hn
      rw [pwrite_rd]
      by_cases hin : o + q.rel ≤ x ∧ x < o + q.rel + c.length
      · exfalso
        by_cases h0 : li0.blockRef q.tbl q.idx = 0
        · have := P.new_ext q.tbl q.idx o q.cur h0 href ho
          omega
        · have hk := P.refs_keep q.tbl q.idx h0
          obtain ⟨_, o0, ho0⟩ := P.wfl0.ref_block q.tbl q.idx hidx h0
          have := blockExt_keep P.dd_keep P.wff ho0
          rw [← hk, ho] at this
          simp only [Option.some.injEq, Prod.mk.injEq] at this
          apply hn q.tbl q.idx o0 _ h0 ho0
          rw [← this.1, ← this.2]
          omega
      · rw [if_neg hin]; exact P.frame x hx hn

end H4.Elem

namespace H4.Elem
open H4.Gen.Hdf

/-- one iteration of the write loop on a missing block: it is allocated with its full length at the end of the file -/
theorem writeBlock_new {f0 : File} {li0 : LinkInfo} {posn : Nat} {d : Bytes} {p : Nat} {f : File} {li : LinkInfo}
    (P : Prog f0 li0 posn d p f li) (q : Piece) (hidx : q.idx < li0.numBlocks)
    (hcur : q.cur = blockLenOf li0.firstLen li0.blockLen (q.tbl * li0.numBlocks + q.idx)) (hfit : q.rel + q.n ≤ q.cur)
    (hstart : blockStart li0.firstLen li0.blockLen (q.tbl * li0.numBlocks + q.idx) + q.rel = p) (hp : posn ≤ p)
    (ht : q.tbl < li.tables.length)
    (href : li.blockRef q.tbl q.idx = 0) (c : Bytes) (hc : c.length = q.n)
    (hcd : ∀ k, k < q.n → c.getD k 0 = d.getD (p - posn + k) 0) :
    ∃ f' li', writeBlock f li q c = some (f', li') ∧ Prog f0 li0 posn d (p + q.n) f' li' := by
  have hidx' : q.idx < li.numBlocks := by rw [P.g3]; exact hidx
  have hfresh := tagNewRef_fresh f DFTAG_LINKED
  have hne := newElem_spec f P.wff DFTAG_LINKED (f.tagNewRef DFTAG_LINKED) q.cur (by decide) rfl hfresh
  simp only at hne
  generalize hnr : f.tagNewRef DFTAG_LINKED = nr at hne hfresh
  have hnr0 : nr ≠ 0 := by rw [← hnr]; exact tagNewRef_pos f _
  generalize hcr : f.ddCreate DFTAG_LINKED nr = cr at hne
  obtain ⟨f1, i⟩ := cr
  generalize hsl : f1.setLength i q.cur = sl at hne
  obtain ⟨f2, off⟩ := sl
  simp only at hne
  have hidxt : q.idx < (li.tables.getD q.tbl (0, [])).2.length := by rw [P.wfl.table_len q.tbl ht]; exact hidx'
  have hend2 : off + q.rel + c.length ≤ f2.endOff := by rw [hne.end_eq]; omega
  refine ⟨f2.pwrite (off + q.rel) c, li.setBlockRef q.tbl q.idx nr, ?_, ?_⟩
  · unfold writeBlock
    have : (li.blockRef q.tbl q.idx != 0) = false := by simp [href]
    simp only [this, Bool.false_eq_true, if_false, hnr, hcr, hsl]
    have : ¬ (q.rel > q.cur ∨ q.rel + c.length > q.cur) := by omega
    simp only [this, if_false]
    rw [endOff_max_noop _ _ (by exact hend2)]
  · have hw3 : WFF (f2.pwrite (off + q.rel) c) := pwrite_wff f2 hne.wff _ _ (by omega)
    have hrefs : ∀ t idx', (li.setBlockRef q.tbl q.idx nr).blockRef t idx' = if t = q.tbl ∧ idx' = q.idx then nr else li.blockRef t idx' :=
      fun t idx' => blockRef_setBlockRef li q.tbl q.idx nr t idx' ht hidxt
    have hkey : (f2.pwrite (off + q.rel) c).hasKey i DFTAG_LINKED nr := by
      unfold File.hasKey File.live
      rw [pwrite_dd, hne.dd_new]
      exact ⟨(by decide : DFTAG_LINKED ≠ DFTAG_NULL), rfl, rfl⟩
    have hbnew : (f2.pwrite (off + q.rel) c).blockExt nr = some (off, q.cur) :=
      blockExt_of_slot hw3 hkey (by rw [pwrite_dd, hne.dd_new])
    have hbold : ∀ ref x, f.blockExt ref = some x → (f2.pwrite (off + q.rel) c).blockExt ref = some x := by
      intro ref x hx; rw [pwrite_blockExt]; exact hne.ext.blockExt hne.wff hx
    have hcur' : q.cur = blockLenOf li.firstLen li.blockLen (q.tbl * li.numBlocks + q.idx) := by
      rw [P.g1, P.g2, P.g3]; exact hcur
    have hstart' : blockStart li.firstLen li.blockLen (q.tbl * li.numBlocks + q.idx) + q.rel = p := by
      rw [P.g1, P.g2, P.g3]; exact hstart
    have hold_ne : ∀ t idx', li.blockRef t idx' ≠ 0 → li.blockRef t idx' ≠ nr := by
      intro t idx' h0 he
      by_cases hi : idx' < li.numBlocks
      · obtain ⟨_, o', ho'⟩ := P.wfl.ref_block t idx' hi h0
        obtain ⟨j', hk', _⟩ := blockExt_slot ho'
        rw [he] at hk'
        exact hfresh j' hk'
      · by_cases ht' : t < li.tables.length
        · exact h0 (blockRef_idx_ge li t idx' (by rw [P.wfl.table_len t ht']; omega))
        · exact h0 (blockRef_ge li t idx' (by omega))
    refine ⟨P.wff0, P.wfl0, hw3, ?wfls, P.g1, P.g2, P.g3, P.g4, ?ddk, by have := hne.ext.end_le; have := P.end_le; show f0.endOff ≤ f2.endOff; omega,
      by show f2.links = f0.links; rw [hne.ext.links, P.links], by show f2.ndds = f0.ndds; rw [hne.ext.ndds, P.ndds],
      by rw [setBlockRef_tables_length]; exact P.tables_le, ?rk, ?nex, ?nfr, ?byt, ?frm, ?cap, ?nsl,
      by show f2.present = f0.present; rw [hne.ext.present, P.present]⟩
    case nsl =>
      intro j hj
      have hj2 : f2.live j := hj
      rcases hne.ext.new_linked j hj2 with h1 | h1
      · rcases P.new_slots j h1 with h2 | h2
        · exact Or.inl h2
        · right; rw [pwrite_dd, hne.ext.dd_keep j h1]; exact h2
      · right; rw [pwrite_dd]; exact h1
    case cap =>
      intro _
      show p + q.n ≤ blockStart li.firstLen li.blockLen ((li.setBlockRef q.tbl q.idx nr).tables.length * li.numBlocks)
      rw [setBlockRef_tables_length]
      have h1 : q.tbl * li.numBlocks + q.idx + 1 ≤ li.tables.length * li.numBlocks := by
        have : (q.tbl + 1) * li.numBlocks ≤ li.tables.length * li.numBlocks := Nat.mul_le_mul_right _ ht
        rw [Nat.add_mul] at this
        omega
      have h2 := blockStart_mono li.firstLen li.blockLen _ _ h1
      rw [blockStart_succ] at h2
      omega
    case wfls =>
      refine ⟨P.wfl.blk_pos, P.wfl.nb_pos, by rw [setBlockRef_tables_length]; exact P.wfl.tables_ne, ?_, ?_, ?_⟩
      · intro t ht'; rw [setBlockRef_tables_length] at ht'; rw [setBlockRef_table_len]; exact P.wfl.table_len t ht'
      · intro t idx' ht' hi' h0
        rw [setBlockRef_tables_length] at ht'
        rw [hrefs] at h0 ⊢
        by_cases hs : t = q.tbl ∧ idx' = q.idx
        · rw [if_pos hs]; obtain ⟨e1, e2⟩ := hs; subst e1 e2
          exact ⟨off, by rw [hbnew, hcur']; rfl⟩
        · rw [if_neg hs] at h0 ⊢
          obtain ⟨o', ho'⟩ := P.wfl.block_ok t idx' ht' hi' h0
          exact ⟨o', hbold _ _ ho'⟩
      · intro a b a' b' h0 he
        rw [hrefs] at h0 he
        rw [hrefs] at he
        by_cases hs : a = q.tbl ∧ b = q.idx
        · rw [if_pos hs] at he
          by_cases hs' : a' = q.tbl ∧ b' = q.idx
          · exact ⟨hs.1.trans hs'.1.symm, hs.2.trans hs'.2.symm⟩
          · rw [if_neg hs'] at he
            exact absurd he.symm (hold_ne a' b' (by rw [← he]; exact hnr0))
        · rw [if_neg hs] at h0 he
          by_cases hs' : a' = q.tbl ∧ b' = q.idx
          · rw [if_pos hs'] at he
            exact absurd he (hold_ne a b h0)
          · rw [if_neg hs'] at he
            exact P.wfl.inj a b a' b' h0 he
    case ddk =>
      intro j hj
      have hjl : f.live j := by unfold File.live; rw [P.dd_keep j hj]; exact hj
      rw [pwrite_dd, hne.ext.dd_keep j hjl, P.dd_keep j hj]
    case rk =>
      intro t idx' h0
      rw [hrefs]
      have hk := P.refs_keep t idx' h0
      by_cases hs : t = q.tbl ∧ idx' = q.idx
      · exfalso; rw [hs.1, hs.2] at h0 hk; rw [href] at hk; exact h0 hk.symm
      · rw [if_neg hs]; exact hk
    case nex =>
      intro t idx' o l h0 h1 hx
      rw [hrefs] at h1 hx
      by_cases hs : t = q.tbl ∧ idx' = q.idx
      · rw [if_pos hs] at hx
        rw [hbnew] at hx
        simp only [Option.some.injEq, Prod.mk.injEq] at hx
        rw [← hx.1]
        have := hne.off_ge; have := P.end_le; omega
      · rw [if_neg hs] at h1 hx
        by_cases hi : idx' < li.numBlocks
        · obtain ⟨_, o', ho'⟩ := P.wfl.ref_block t idx' hi h1
          rw [hbold _ _ ho'] at hx
          simp only [Option.some.injEq, Prod.mk.injEq] at hx
          rw [← hx.1]
          exact P.new_ext t idx' o' _ h0 h1 ho'
        · by_cases ht' : t < li.tables.length
          · exact absurd (blockRef_idx_ge li t idx' (by rw [P.wfl.table_len t ht']; omega)) h1
          · exact absurd (blockRef_ge li t idx' (by omega)) h1
    case nfr =>
      intro t idx' h0 h1 j hk
      rw [hrefs] at h1 hk
      by_cases hs : t = q.tbl ∧ idx' = q.idx
      · rw [if_pos hs] at hk
        exact hfresh j (hasKey_of_dd_keep P.dd_keep hk)
      · rw [if_neg hs] at h1 hk
        exact P.new_fresh t idx' h0 h1 j hk
    case byt =>
      intro i
      obtain ⟨t, idx', r, hi1, hr, hi⟩ := pos_block li.firstLen li.blockLen li.numBlocks i P.wfl.blk_pos P.wfl.nb_pos
      have hl1 := lbyte_block (f2.pwrite (off + q.rel) c) (li.setBlockRef q.tbl q.idx nr) P.wfl.blk_pos P.wfl.nb_pos t idx' r hi1 hr
      have hl2 := lbyte_block f li P.wfl.blk_pos P.wfl.nb_pos t idx' r hi1 hr
      rw [hi] at hl2
      have hl1' : (f2.pwrite (off + q.rel) c).lbyte (li.setBlockRef q.tbl q.idx nr) i =
          (f2.pwrite (off + q.rel) c).blockByte ((li.setBlockRef q.tbl q.idx nr).blockRef t idx') r := by
        rw [← hi]; exact hl1
      rw [hl1', hrefs]
      have hb := P.bytes i
      have hiff : ¬ (p ≤ i ∧ i < p + q.n) → ((posn ≤ i ∧ i < p + q.n) ↔ (posn ≤ i ∧ i < p)) := by
        intro hni
        constructor
        · intro h; exact ⟨h.1, by omega⟩
        · intro h; exact ⟨h.1, by omega⟩
      by_cases hsame : t = q.tbl ∧ idx' = q.idx
      · rw [if_pos hsame]
        obtain ⟨e1, e2⟩ := hsame
        subst e1 e2
        unfold File.blockByte
        simp only [hnr0, if_false, hbnew, pwrite_rd]
        rw [hl2] at hb
        unfold File.blockByte at hb
        simp only [href, if_true] at hb
        by_cases hin : off + q.rel ≤ off + r ∧ off + r < off + q.rel + c.length
        · rw [if_pos hin]
          have h1 : posn ≤ i ∧ i < p + q.n := by omega
          rw [if_pos h1]
          have : off + r - (off + q.rel) = r - q.rel := by omega
          rw [this, hcd (r - q.rel) (by omega)]
          congr 1
          omega
        · rw [if_neg hin, hne.ext.rd_keep, P.wff.tail0 _ (by have := hne.off_ge; omega)]
          have hni : ¬ (p ≤ i ∧ i < p + q.n) := by rw [← hcur'] at hr; omega
          by_cases h2 : posn ≤ i ∧ i < p
          · rw [if_pos ((hiff hni).mpr h2)]; rw [if_pos h2] at hb; exact hb
          · rw [if_neg (fun h => h2 ((hiff hni).mp h))]; rw [if_neg h2] at hb; exact hb
      · rw [if_neg hsame]
        have hni : ¬ (p ≤ i ∧ i < p + q.n) := by
          intro hin
          have hr2 : q.rel + (i - p) < blockLenOf li.firstLen li.blockLen (q.tbl * li.numBlocks + q.idx) := by
            rw [← hcur']; omega
          have := pos_block_unique li.firstLen li.blockLen li.numBlocks P.wfl.blk_pos t idx' r q.tbl q.idx (q.rel + (i - p))
            hi1 hidx' hr hr2 (by omega)
          exact hsame ⟨this.1, this.2.1⟩
        have hgoal : (f2.pwrite (off + q.rel) c).blockByte (li.blockRef t idx') r = f.lbyte li i := by
          rw [hl2]
          unfold File.blockByte
          by_cases h0 : li.blockRef t idx' = 0
          · simp [h0]
          · simp only [h0, if_false]
            obtain ⟨_, o', ho'⟩ := P.wfl.ref_block t idx' hi1 h0
            rw [ho', hbold _ _ ho']
            simp only [pwrite_rd]
            obtain ⟨j', hjk', hje'⟩ := blockExt_slot ho'
            have := P.wff.ext_le j' o' _ hjk'.1 hje'
            have hoff := hne.off_ge
            have : ¬ (off + q.rel ≤ o' + r ∧ o' + r < off + q.rel + c.length) := by omega
            rw [if_neg this, hne.ext.rd_keep]
        rw [hgoal, hb]
        by_cases h2 : posn ≤ i ∧ i < p
        · rw [if_pos h2, if_pos ((hiff hni).mpr h2)]
        · rw [if_neg h2, if_neg (fun h => h2 ((hiff hni).mp h))]
    case frm =>
      intro x hx hn
      rw [pwrite_rd]
      have hoff := hne.off_ge
      have := P.end_le
      have : ¬ (off + q.rel ≤ x ∧ x < off + q.rel + c.length) := by omega
      rw [if_neg this, hne.ext.rd_keep]
      exact P.frame x hx hn

end H4.Elem

namespace H4.Elem
open H4.Gen.Hdf

/-- one full iteration: bring the tables up to the piece's table, then write the block -/
theorem writePiece_step {f0 : File} {li0 : LinkInfo} {posn : Nat} {d : Bytes} {p : Nat} {f : File} {li : LinkInfo}
    (P : Prog f0 li0 posn d p f li) (q : Piece) (hidx : q.idx < li0.numBlocks)
    (hcur : q.cur = blockLenOf li0.firstLen li0.blockLen (q.tbl * li0.numBlocks + q.idx)) (hfit : q.rel + q.n ≤ q.cur)
    (hstart : blockStart li0.firstLen li0.blockLen (q.tbl * li0.numBlocks + q.idx) + q.rel = p) (hp : posn ≤ p)
    (c : Bytes) (hc : c.length = q.n) (hcd : ∀ k, k < q.n → c.getD k 0 = d.getD (p - posn + k) 0) :
    ∃ f' li', writePiece f li q c = some (f', li') ∧ Prog f0 li0 posn d (p + q.n) f' li' := by
  rw [writePiece_eq]
  have e := ensureTables_spec (q.tbl + 1) f li q.tbl P.wff P.wfl
  have P' := P.ensured e
  have ht : q.tbl < (ensureTables f li (q.tbl + 1) q.tbl).2.tables.length := e.reach (by omega)
  by_cases href : (ensureTables f li (q.tbl + 1) q.tbl).2.blockRef q.tbl q.idx = 0
  · exact writeBlock_new P' q hidx hcur hfit hstart hp ht href c hc hcd
  · exact writeBlock_existing P' q hidx hcur hfit hstart hp href c hc hcd

theorem getD_take_drop (d : Bytes) (a n k : Nat) (hk : k < n) : ((d.drop a).take n).getD k 0 = d.getD (a + k) 0 := by
  simp only [List.getD_eq_getElem?_getD, List.getElem?_take, hk, if_true, List.getElem?_drop]

/-- the write loop over a tiling of `[p, posn + |d|)` -/
theorem writePieces_spec {f0 : File} {li0 : LinkInfo} {posn : Nat} {d : Bytes} :
    ∀ (ps : List Piece) (p : Nat) (f : File) (li : LinkInfo), Prog f0 li0 posn d p f li → posn ≤ p →
      Tiles li0.firstLen li0.blockLen li0.numBlocks p ps (posn + d.length) →
      ∃ f' li', writePieces f li ps (d.drop (p - posn)) = some (f', li') ∧ Prog f0 li0 posn d (posn + d.length) f' li' := by
  intro ps
  induction ps with
  | nil =>
    intro p f li P _ ht
    simp only [Tiles] at ht
    subst ht
    exact ⟨f, li, rfl, P⟩
  | cons q rest ih =>
    intro p f li P hp ht
    simp only [Tiles] at ht
    obtain ⟨hidx, hcur, hn, hfit, hstart, hrest⟩ := ht
    have hle := tiles_le _ _ _ _ _ _ hrest
    have hc : ((d.drop (p - posn)).take q.n).length = q.n := by
      simp only [List.length_take, List.length_drop]; omega
    obtain ⟨f1, li1, h1, P1⟩ := writePiece_step P q hidx hcur hfit hstart hp _ hc
      (fun k hk => getD_take_drop d (p - posn) q.n k hk)
    obtain ⟨f2, li2, h2, P2⟩ := ih (p + q.n) f1 li1 P1 (by omega) hrest
    refine ⟨f2, li2, ?_, P2⟩
    simp only [writePieces, h1]
    rw [List.drop_drop]
    have : p - posn + q.n = p + q.n - posn := by omega
    rw [this]
    exact h2

end H4.Elem

namespace H4.Elem
open H4.Gen.Hdf

theorem be32_length (n : Nat) : (be32 n).length = 4 := rfl

/-- everything a successful `HLPwrite` of `bs` at `posn` achieves -/
structure Written (f : File) (li : LinkInfo) (hs posn : Nat) (bs : Bytes) (f' : File) (li' : LinkInfo) : Prop where
  wff : WFF f'
  wfl : WFL f' li'
  g1 : li'.firstLen = li.firstLen
  g2 : li'.blockLen = li.blockLen
  g3 : li'.numBlocks = li.numBlocks
  len : li'.length = max li.length (posn + bs.length)
  dd_keep : ∀ j, f.live j → f'.dd j = f.dd j
  end_le : f.endOff ≤ f'.endOff
  links : f'.links = f.links
  ndds : f'.ndds = f.ndds
  refs_keep : ∀ t idx, li.blockRef t idx ≠ 0 → li'.blockRef t idx = li.blockRef t idx
  new_ext : ∀ t idx o l, li.blockRef t idx = 0 → li'.blockRef t idx ≠ 0 → f'.blockExt (li'.blockRef t idx) = some (o, l) → f.endOff ≤ o
  new_fresh : ∀ t idx, li.blockRef t idx = 0 → li'.blockRef t idx ≠ 0 → ∀ j, ¬ f.hasKey j DFTAG_LINKED (li'.blockRef t idx)
  /-- byte-array semantics: overwrite and extend; everything else (including the zeros of a gap) as before -/
  bytes : ∀ i, f'.lbyte li' i = if posn ≤ i ∧ i < posn + bs.length then bs.getD (i - posn) 0 else f.lbyte li i
  /-- frame: below the old `f_end_off` only bytes of this element's own blocks and of its description record change -/
  frame : ∀ x ho hl, x < f.endOff → (f.dd hs).ext = some (ho, hl) →
    (∀ t idx o l, li.blockRef t idx ≠ 0 → f.blockExt (li.blockRef t idx) = some (o, l) → ¬ (o ≤ x ∧ x < o + l)) →
    ¬ (ho ≤ x ∧ x < ho + hl) → rd f'.disk x = rd f.disk x
  new_slots : ∀ j, f'.live j → f.live j ∨ (f'.dd j).tag = DFTAG_LINKED
  present : f'.present = f.present

/-- `HLPwrite` (`hblocks.c`): for every block length, table size, position (inside, at, or beyond the end) and data, the
    element afterwards is the byte array with `bs` written at `posn`, zero gap fill included; the count is `|bs|` -/
theorem hlpWrite_spec (f : File) (li : LinkInfo) (hw : WFF f) (hl : WFL f li) (hs posn : Nat) (bs : Bytes) (hbs : bs ≠ [])
    (hlive : f.live hs) (htag : baseTag (f.dd hs).tag ≠ DFTAG_LINKED) (ho hlen : Nat) (hext : (f.dd hs).ext = some (ho, hlen))
    (h6 : 6 ≤ hlen) :
    ∃ f' li', hlpWrite f li hs posn bs = (f', li', some bs.length) ∧ Written f li hs posn bs f' li' := by
  have hn : 1 ≤ bs.length := by cases bs with | nil => exact absurd rfl hbs | cons _ _ => simp
  unfold hlpWrite
  have h0 : ¬ (bs.length = 0) := by omega
  have hb : ¬ (li.blockLen = 0 ∨ li.numBlocks = 0) := by have := hl.blk_pos; have := hl.nb_pos; omega
  simp only [h0, hb, if_false]
  generalize hsb : startBlock li.firstLen li.blockLen posn = sb
  obtain ⟨b, rel, cur⟩ := sb
  simp only
  have P0 := Prog.init f li posn bs hw hl.toWFLs
  have e := ensureTables_spec (b / li.numBlocks + 1) f li (b / li.numBlocks) hw hl.toWFLs
  have P1 := P0.ensured e
  generalize ensureTables f li (b / li.numBlocks + 1) (b / li.numBlocks) = r at e P1
  obtain ⟨f1, li1⟩ := r
  simp only at e P1 ⊢
  have htiles := walk_tiles li.firstLen li.blockLen li.numBlocks posn bs.length hl.blk_pos hl.nb_pos hn
  obtain ⟨f2, li2, hwp, P2⟩ := writePieces_spec _ posn f1 li1 P1 (Nat.le_refl _) htiles
  rw [Nat.sub_self, List.drop_zero] at hwp
  rw [e.g1, e.g2, e.g3, hwp]
  simp only
  have hdd : f2.dd hs = f.dd hs := P2.dd_keep hs hlive
  rw [hdd, hext]
  simp only
  have h2 : ¬ (2 > hlen) := by omega
  have h6' : ¬ (6 > hlen) := by omega
  simp only [h2, h6', if_false]
  refine ⟨_, _, rfl, ?_⟩
  -- the element's blocks lie apart from the description record
  have hlive2 : f2.live hs := by unfold File.live; rw [hdd]; exact hlive
  have hhdr_le : ho + hlen ≤ f.endOff := hw.ext_le hs ho hlen hlive hext
  have hapart : ∀ t idx o l r, li2.blockRef t idx ≠ 0 → f2.blockExt (li2.blockRef t idx) = some (o, l) → r < l →
      ¬ (ho + 2 ≤ o + r ∧ o + r < ho + 2 + (be32 (max li2.length (posn + bs.length))).length) := by
    intro t idx o l r h0 hx hr
    obtain ⟨j, hjk, hje⟩ := blockExt_slot hx
    have hj : j ≠ hs := by
      intro e'
      subst e'
      have := hjk.2.1
      rw [hdd] at this
      exact htag this
    have := P2.wff.disj j hs o l ho hlen hj hjk.1 hlive2 hje (by rw [hdd]; exact hext) (o + r)
    rw [be32_length]
    omega
  have hlb : ∀ i, (f2.pwrite (ho + 2) (be32 (max li2.length (posn + bs.length)))).lbyte
      { li2 with length := max li2.length (posn + bs.length) } i = f2.lbyte li2 i := by
    intro i
    apply lbyte_congr P2.wfl rfl rfl rfl (fun _ _ => rfl) (fun ref x hx => by rw [pwrite_blockExt]; exact hx)
    intro t idx o l r h0 hx hr
    rw [pwrite_rd, if_neg (hapart t idx o l r h0 hx hr)]
  have hw3 : WFF (f2.pwrite (ho + 2) (be32 (max li2.length (posn + bs.length)))) :=
    pwrite_wff f2 P2.wff _ _ (by rw [be32_length]; have := P2.end_le; omega)
  refine ⟨hw3, ?_, P2.g1, P2.g2, P2.g3, by show max li2.length _ = _; rw [P2.g4], P2.dd_keep, P2.end_le, P2.links, P2.ndds,
    P2.refs_keep, P2.new_ext, P2.new_fresh, ?_, ?_, P2.new_slots, P2.present⟩
  · -- WFL
    have hs' : WFLs (f2.pwrite (ho + 2) (be32 (max li2.length (posn + bs.length)))) { li2 with length := max li2.length (posn + bs.length) } := by
      have := P2.wfl.pwrite (ho + 2) (be32 (max li2.length (posn + bs.length)))
      exact ⟨this.blk_pos, this.nb_pos, this.tables_ne, this.table_len, this.block_ok, this.inj⟩
    refine ⟨hs', ?_, ?_⟩
    · show max li2.length (posn + bs.length) ≤ blockStart li2.firstLen li2.blockLen (li2.tables.length * li2.numBlocks)
      have c1 := P2.cap (by omega)
      have c2 : li2.length ≤ blockStart li2.firstLen li2.blockLen (li2.tables.length * li2.numBlocks) := by
        rw [P2.g4, P2.g1, P2.g2, P2.g3]
        exact Nat.le_trans hl.covers (cap_mono _ _ _ _ _ P2.tables_le)
      omega
    · intro i hi
      have hi' : max li2.length (posn + bs.length) ≤ i := hi
      rw [hlb, P2.bytes]
      have : ¬ (posn ≤ i ∧ i < posn + bs.length) := by omega
      rw [if_neg this]
      exact hl.zero_beyond i (by rw [P2.g4] at hi'; omega)
  · intro i; rw [hlb]; exact P2.bytes i
  · intro x ho' hl' hx hext' hn hnh
    rw [hext] at hext'
    simp only [Option.some.injEq, Prod.mk.injEq] at hext'
    rw [pwrite_rd, be32_length]
    have : ¬ (ho + 2 ≤ x ∧ x < ho + 2 + 4) := by omega
    rw [if_neg this]
    exact P2.frame x hx hn

end H4.Elem
