import H4.Attr
/-! Helper lemmas for C10: `find` on association lists with stable indices, `put`, name invariants. -/
namespace H4.Attr

theorem find_lt {n : Bytes} {l : AList} {i : Nat} (h : find n l = some i) : i < l.length := by
  induction l generalizing i with
  | nil => simp [find] at h
  | cons a t ih =>
    simp only [find] at h
    split at h
    · cases h; simp
    · cases hf : find n t with
      | none => simp [hf] at h
      | some j => simp [hf] at h; subst h; have := ih hf; simp; omega

theorem find_name {n : Bytes} {l : AList} {i : Nat} (h : find n l = some i) :
    ∃ a, l[i]? = some a ∧ a.name = n := by
  induction l generalizing i with
  | nil => simp [find] at h
  | cons a t ih =>
    simp only [find] at h
    split at h
    · cases h; exact ⟨a, by simp, by assumption⟩
    · cases hf : find n t with
      | none => simp [hf] at h
      | some j => simp [hf] at h; subst h; obtain ⟨b, hb, hn⟩ := ih hf; exact ⟨b, by simpa using hb, hn⟩

/-- `find` returns the FIRST match -/
theorem find_first {n : Bytes} {l : AList} {i : Nat} (h : find n l = some i) :
    ∀ j, j < i → ∀ b, l[j]? = some b → b.name ≠ n := by
  induction l generalizing i with
  | nil => simp [find] at h
  | cons a t ih =>
    simp only [find] at h
    split at h
    · cases h; intro j hj; omega
    · rename_i hne
      cases hf : find n t with
      | none => simp [hf] at h
      | some k =>
        simp [hf] at h; subst h
        intro j hj b hb
        cases j with
        | zero => simp at hb; subst hb; exact hne
        | succ j' => simp at hb; exact ih hf j' (by omega) b hb

theorem find_none_iff {n : Bytes} {l : AList} : find n l = none ↔ ∀ a ∈ l, a.name ≠ n := by
  induction l with
  | nil => simp [find]
  | cons a t ih =>
    simp only [find]
    split
    · rename_i h; simp [h]
    · rename_i h
      simp only [Option.map_eq_none_iff, ih, List.mem_cons, forall_eq_or_imp]
      exact ⟨fun h2 => ⟨h, h2⟩, fun h2 => h2.2⟩

theorem find_isSome_iff {n : Bytes} {l : AList} : (find n l).isSome ↔ ∃ a ∈ l, a.name = n := by
  cases h : find n l with
  | none =>
    simp only [Option.isSome_none, Bool.false_eq_true, false_iff, not_exists, not_and]
    exact fun a ha => (find_none_iff.mp h) a ha
  | some i =>
    obtain ⟨a, ha, hn⟩ := find_name h
    simp only [Option.isSome_some, true_iff]
    exact ⟨a, List.mem_of_getElem? ha, hn⟩

/-- characterisation used everywhere: the index found is the least index carrying the name -/
theorem find_eq_some_iff {n : Bytes} {l : AList} {i : Nat} :
    find n l = some i ↔ (∃ a, l[i]? = some a ∧ a.name = n) ∧ ∀ j, j < i → ∀ b, l[j]? = some b → b.name ≠ n := by
  constructor
  · intro h; exact ⟨find_name h, find_first h⟩
  · intro ⟨⟨a, ha, hn⟩, hfirst⟩
    cases hf : find n l with
    | none =>
      exact absurd hn ((find_none_iff.mp hf) a (List.mem_of_getElem? ha))
    | some k =>
      obtain ⟨b, hb, hbn⟩ := find_name hf
      have h1 : ¬ k < i := fun hk => hfirst k hk b hb hbn
      have h2 : ¬ i < k := fun hk => find_first hf i hk a ha hn
      congr; omega

theorem names_set {l : AList} {i : Nat} {a b : Attr} (hb : l[i]? = some b) (hn : b.name = a.name) :
    (l.set i a).map (·.name) = l.map (·.name) := by
  apply List.ext_getElem?
  intro j
  simp only [List.getElem?_map, List.getElem?_set]
  by_cases hij : i = j
  · subst hij
    have hlt : i < l.length := by
      rcases Nat.lt_or_ge i l.length with h | h
      · exact h
      · simp [List.getElem?_eq_none h] at hb
    have hbi : l[i] = b := by simpa [List.getElem?_eq_getElem hlt] using hb
    simp [hlt, hbi, hn]
  · simp [hij]

/-- `find` only looks at names -/
theorem find_congr_names {l l' : AList} (h : l.map (·.name) = l'.map (·.name)) (n : Bytes) : find n l = find n l' := by
  induction l generalizing l' with
  | nil => cases l' with
    | nil => rfl
    | cons _ _ => simp at h
  | cons a t ih => cases l' with
    | nil => simp at h
    | cons a' t' =>
      simp only [List.map_cons, List.cons.injEq] at h
      simp only [find, h.1, ih h.2]

theorem find_append_left {n : Bytes} {l : AList} {i : Nat} (h : find n l = some i) (l2 : AList) :
    find n (l ++ l2) = some i := by
  induction l generalizing i with
  | nil => simp [find] at h
  | cons a t ih =>
    simp only [find, List.cons_append] at h ⊢
    split
    · rename_i hh; simp [hh] at h; exact congrArg some h
    · rename_i hh
      simp only [hh, if_false] at h
      cases hf : find n t with
      | none => simp [hf] at h
      | some k => simp [hf] at h; subst h; simp [ih hf]

theorem find_append_none {n : Bytes} {l : AList} (h : find n l = none) (l2 : AList) :
    find n (l ++ l2) = (find n l2).map (· + l.length) := by
  induction l with
  | nil => simp
  | cons a t ih =>
    simp only [find, List.cons_append] at h ⊢
    split
    · rename_i hh; simp [hh] at h
    · rename_i hh
      simp only [hh, if_false, Option.map_eq_none_iff] at h
      rw [ih h]
      cases find n l2 <;> simp <;> omega

theorem find_snoc_new {l : AList} {a : Attr} (h : find a.name l = none) : find a.name (l ++ [a]) = some l.length := by
  rw [find_append_none h]; simp [find]

theorem find_snoc_other {l : AList} {a : Attr} {n : Bytes} (hn : n ≠ a.name) : find n (l ++ [a]) = find n l := by
  cases hf : find n l with
  | some i => exact find_append_left hf _
  | none =>
    rw [find_append_none hf]
    have : a.name ≠ n := fun e => hn e.symm
    simp [find, this]

/-- unfolding of `put` in the "name exists" case -/
theorem put_found {k : Kind} {l : AList} {a : Attr} {i : Nat} (h : find a.name l = some i) :
    put k l a = if compatible k (l.getD i default) a then some (l.set i a) else none := by
  simp [put, h]

theorem put_new {k : Kind} {l : AList} {a : Attr} (h : find a.name l = none) :
    put k l a = if room k l then some (l ++ [a]) else none := by
  simp [put, h]

/-- a successful `put` changes the list of names only by appending a new name -/
theorem put_names {k : Kind} {l l' : AList} {a : Attr} (h : put k l a = some l') :
    l'.map (·.name) = if (find a.name l).isSome then l.map (·.name) else l.map (·.name) ++ [a.name] := by
  cases hf : find a.name l with
  | some i =>
    rw [put_found hf] at h
    split at h
    · cases h
      obtain ⟨b, hb, hbn⟩ := find_name hf
      simp [names_set hb hbn]
    · cases h
  | none =>
    rw [put_new hf] at h
    split at h
    · cases h; simp
    · cases h

theorem put_nodup {k : Kind} {l l' : AList} {a : Attr} (hnd : (l.map (·.name)).Nodup) (h : put k l a = some l') :
    (l'.map (·.name)).Nodup := by
  rw [put_names h]
  cases hf : find a.name l with
  | some i => simpa using hnd
  | none =>
    simp only [Option.isSome_none, Bool.false_eq_true, if_false]
    rw [List.nodup_append]
    refine ⟨hnd, by simp, ?_⟩
    intro x hx y hy
    simp only [List.mem_singleton] at hy
    subst hy
    simp only [List.mem_map] at hx
    obtain ⟨b, hb, hbn⟩ := hx
    intro e
    exact (find_none_iff.mp hf) b hb (hbn.trans e)

theorem putS_nodup {k : Kind} {l : AList} {a : Attr} (hnd : (l.map (·.name)).Nodup) :
    ((putS k l a).map (·.name)).Nodup := by
  unfold putS
  cases h : put k l a with
  | none => simpa using hnd
  | some l' => simpa using put_nodup hnd h

/-- with distinct names, `find` is the inverse of indexing -/
theorem find_of_nodup {l : AList} (hnd : (l.map (·.name)).Nodup) {i : Nat} {a : Attr} (h : l[i]? = some a) :
    find a.name l = some i := by
  rw [find_eq_some_iff]
  refine ⟨⟨a, h, rfl⟩, ?_⟩
  intro j hj b hb e
  have hi : i < l.length := by
    rcases Nat.lt_or_ge i l.length with h' | h'
    · exact h'
    · simp [List.getElem?_eq_none h'] at h
  have hjl : j < l.length := by omega
  have hbj : l[j] = b := by simpa [List.getElem?_eq_getElem hjl] using hb
  have hai : l[i] = a := by simpa [List.getElem?_eq_getElem hi] using h
  have hji : j = i := by
    have hj' : j < (l.map (·.name)).length := by simpa using hjl
    have hi' : i < (l.map (·.name)).length := by simpa using hi
    exact (List.getElem_inj (h₀ := hj') (h₁ := hi') hnd).mp (by simp [hbj, hai, e])
  omega

end H4.Attr
