import H4.Lemmas.ElemOpsWrite
import H4.Lemmas.ElemConvert
/-! Promotion (`HLconvert`) at the level of worlds, and the calls that perform it: `Hwrite`, `Hseek`, `HLconvert`. -/
namespace H4.Elem
open H4.Gen.Hdf

theorem Eqv.trans {a b c : View} (h1 : a.Eqv b) (h2 : b.Eqv c) : a.Eqv c :=
  ⟨fun fi => (h1.1 fi).trans (h2.1 fi), fun fi k hu => (h1.2.1 fi k hu).trans (h2.2.1 fi k hu), fun h => (h1.2.2 h).trans (h2.2.2 h)⟩

theorem Eqv.symm {a b : View} (h : a.Eqv b) : b.Eqv a :=
  ⟨fun fi => (h.1 fi).symm, fun fi k hu => (h.2.1 fi k hu).symm, fun x => (h.2.2 x).symm⟩

/-- overwriting the same element and the same access id makes earlier differences there irrelevant -/
theorem Eqv.overwrite {v v1 : View} {fi : Nat} {k : Nat × Nat} {x0 : Option (Option Bytes)} {h : Nat} {y0 : Option HView}
    (e : v1.Eqv ((v.setElem fi k x0).setHnd h y0)) (X : Option (Option Bytes)) (Y : Option HView) :
    ((v1.setElem fi k X).setHnd h Y).Eqv ((v.setElem fi k X).setHnd h Y) := by
  refine ⟨fun j => e.1 j, ?_, ?_⟩
  · intro j k' hu
    have := e.2.1 j k' hu
    simp only [View.setHnd, View.setElem] at this ⊢
    by_cases c : j = fi ∧ k' = k
    · simp [c]
    · simp only [c, if_false] at this ⊢; exact this
  · intro h'
    have := e.2.2 h'
    simp only [View.setHnd, View.setElem] at this ⊢
    by_cases c : h' = h
    · simp [c]
    · simp only [c, if_false] at this ⊢; exact this

/-- `HLconvert` on the element behind the only access id open on it: the world stays well-formed, the element keeps its
    bytes (an element without data becomes the empty string), every other element and access id is untouched -/
theorem convert_world (w : World) (hw : WFW w) (h : Nat) (a : Acc) (ha : w.acc h = some a) (hsp : a.special = false)
    (halone : Alone w h) (blen nblk : Nat) (hb : 1 ≤ blen) (hn : 1 ≤ nblk) (p' : Nat) (app ne : Bool) (hne : ne = false) :
    let f' := ((w.file a.file).convert a.slot blen nblk).1
    let s' := ((w.file a.file).convert a.slot blen nblk).2
    let a' : Acc := { a with slot := s', special := true, appendable := app, newElem := ne, posn := p' }
    let w' := (w.setFile a.file f').setAcc h a'
    WFW w' ∧ w'.acc h = some a' ∧ w'.file a.file = f' ∧
    (((abs w).setElem a.file ((w.file a.file).keyOf a.slot) (some (some (((w.file a.file).slotBytes a.slot).getD [])))).setHnd h
      (some { file := a.file, key := (w.file a.file).keyOf a.slot, pos := p' })).Eqv (abs w') := by
  intro f' s' a' w'
  have hh := hw.handles h a ha
  have hsp' : isSpecial ((w.file a.file).dd a.slot).tag = false := by rw [← hh.special_iff]; exact hsp
  have hfi := file_lt_of_live w a.file a.slot hh.live
  have hE := hw.files a.file
  have hbt : baseTag ((w.file a.file).dd a.slot).tag = ((w.file a.file).dd a.slot).tag := baseTag_not_special _ hsp'
  have hu := hh.user
  have hut : ((w.file a.file).dd a.slot).tag ≠ DFTAG_LINKED := by
    have := hu.2.1; unfold File.keyOf at this; simp only at this; rw [hbt] at this; exact this
  have hlt : ((w.file a.file).dd a.slot).tag < H4.Gen.Elem.SPECIAL_TAG_BIT := by
    have := hu.2.2.2.2; unfold File.keyOf at this; simp only at this; rw [hbt] at this; exact this
  have P := convert_spec (w.file a.file) hE a.slot blen nblk hh.live hsp' hlt hut hb hn
  have hC := coh_convert (hw.coh a.file) a.slot blen nblk (live_lt _ _ hh.live)
  have hacc : w'.acc h = some a' := by show ((w.setFile a.file f').setAcc h a').acc h = _; rw [acc_setAcc]; simp
  have hfile : w'.file a.file = f' := by
    show ((w.setFile a.file f').setAcc h a').file a.file = _; rw [file_setAcc, file_setFile_same w a.file _ hfi]
  have hother_slot : ∀ h' a'', h' ≠ h → w.acc h' = some a'' → a''.file = a.file → a''.slot ≠ a.slot := by
    intro h' a'' hne ha'' ef es
    exact hne (halone a ha h' a'' ha'' ef es)
  have hww : WFW w' := by
    apply hw.update a.file hfi f' P.wfe hC h a' rfl
    · refine ⟨P.live', by show UserKey (f'.keyOf s'); rw [P.key']; exact hu, by show true = _; rw [P.special'], ?_, ?_, hh.blk⟩
      · intro hf; exact absurd (show true = false from hf) (by decide)
      · intro _; exact hne
    · intro h' a'' hne ha'' ef
      have hl := (hw.handles h' a'' ha'').live
      rw [ef] at hl
      have := (P.others a''.slot hl (hother_slot h' a'' hne ha'' ef)).1
      rw [this]; exact ⟨rfl, rfl, id⟩
  refine ⟨hww, hacc, hfile, ?_⟩
  have := abs_update hw a.file hfi f' P.wfe.toWFF h a' rfl ((w.file a.file).keyOf a.slot)
    (some (some (((w.file a.file).slotBytes a.slot).getD []))) P.present
    (by
      have h1 := elem_keyOf f' P.wfe.toWFF s' P.live'
      rw [P.key'] at h1
      rw [h1, P.bytes])
    (by
      intro k' hu' hne
      apply elem_frame hE.toWFF P.wfe.toWFF
      · intro j
        constructor
        · intro hk
          rcases P.new_slots j hk.1 with ⟨h1, h2⟩ | h1 | h1
          · unfold File.hasKey File.live at *
            rw [← (P.others j h1 h2).1]; exact hk
          · exfalso
            have := keyOf_of_hasKey hu' hk
            rw [h1, P.key'] at this
            exact hne this.symm
          · exact absurd h1 (user_not_linked hu' hk)
        · intro hk
          have hjs : j ≠ a.slot := fun e => hne ((keyOf_of_hasKey hu' (e ▸ hk)).symm)
          unfold File.hasKey File.live at *
          rw [(P.others j hk.1 hjs).1]; exact hk
      · intro j hk
        have hjs : j ≠ a.slot := fun e => hne ((keyOf_of_hasKey hu' (e ▸ hk)).symm)
        exact (P.others j hk.1 hjs).2)
    (by
      intro h' a'' hne ha'' ef
      have hl := (hw.handles h' a'' ha'').live
      rw [ef] at hl
      exact keyOf_eq (P.others a''.slot hl (hother_slot h' a'' hne ha'' ef)).1)
  have hk : f'.keyOf a'.slot = (w.file a.file).keyOf a.slot := P.key'
  rw [hk] at this
  exact this

end H4.Elem

namespace H4.Elem
open H4.Gen.Hdf

theorem hwriteLinked_restart (w : World) (h : Nat) (a a0 : Acc) (f f0 : File) (bs : Bytes)
    (hl : (f.link (a.key f)).isSome = true) :
    hwriteLinked ((w.setFile a.file f0).setAcc h a0) h a f bs = hwriteLinked w h a f bs := by
  unfold hwriteLinked
  cases hk : f.link (a.key f) with
  | none => rw [hk] at hl; exact absurd hl (by decide)
  | some li =>
    simp only
    cases (hlpWrite f li a.slot a.posn bs).2.2 with
    | none => simp only [restart]
    | some n => simp only [restart]

/-- a call that changes nothing but flags of the access record (or puts back what is there) -/
theorem same_update_ok (w : World) (hw : WFW w) (op : Op) (h : Nat) (a a' : Acc) (ha : w.acc h = some a)
    (e1 : a'.file = a.file) (e2 : a'.slot = a.slot) (e3 : a'.posn = a.posn) (e4 : a'.special = a.special)
    (e5 : a'.newElem = a.newElem) (e6 : a'.blockSize = a.blockSize ∧ a'.numBlocks = a.numBlocks)
    (hspec : specStep (abs w) op .fail = some (abs w)) :
    ResOK w op ((w.setFile a.file (w.file a.file)).setAcc h a', .fail) := by
  have hh := hw.handles h a ha
  have hfi := file_lt_of_live w a.file a.slot hh.live
  refine ⟨?_, abs w, hspec, ?_⟩
  · apply hw.update a.file hfi (w.file a.file) (hw.files a.file) (hw.coh a.file) h a' e1
    · rw [e2, e4, e5, e6.1, e6.2]; exact ⟨hh.live, hh.user, hh.special_iff, hh.new_of_none, hh.special_new, hh.blk⟩
    · intro _ _ _ _ _; exact ⟨rfl, rfl, id⟩
  · refine ⟨?_, ?_, ?_⟩
    · intro j
      show (w.file j).present = (((w.setFile a.file (w.file a.file)).setAcc h a').file j).present
      rw [file_setAcc, file_setFile w a.file j _ hfi]; split
      · rename_i e; rw [e]
      · rfl
    · intro j k _
      show (w.file j).elem k.1 k.2 = (((w.setFile a.file (w.file a.file)).setAcc h a').file j).elem k.1 k.2
      rw [file_setAcc, file_setFile w a.file j _ hfi]; split
      · rename_i e; rw [e]
      · rfl
    · intro h'
      simp only [abs_hnd, acc_setAcc, acc_setFile]
      by_cases e : h' = h
      · simp only [e, if_true, ha, Option.map_some, file_setAcc, e1, e2, e3]
        rw [file_setFile_same w a.file _ hfi]
      · simp only [e, if_false]
        cases w.acc h' with
        | none => rfl
        | some a'' =>
          simp only [Option.map_some, file_setAcc]
          by_cases ef : a''.file = a.file
          · rw [ef, file_setFile_same w a.file _ hfi]
          · rw [file_setFile_ne w a.file _ _ ef]

/-- `Hwrite` on an appendable contiguous element that is not last in the file: silent promotion to linked blocks, then
    the write — the bytes are those of a plain append -/
theorem hwritePlain_promote_ok (w : World) (hw : WFW w) (h : Nat) (bs : Bytes) (hbs : bs ≠ []) (a : Acc)
    (ha : w.acc h = some a) (hsp : a.special = false)
    (hprom : a.appendable = true ∧ (bs.length : Int) + a.posn > ddLen ((w.file a.file).dd a.slot) ∧
      ddLen ((w.file a.file).dd a.slot) + ddOff ((w.file a.file).dd a.slot) ≠ (w.file a.file).endOff)
    (halone : (w.file a.file).writable = true → Alone w h) :
    ResOK w (.write h bs) (hwritePlain w h a (w.file a.file) bs) := by
  have hh := hw.handles h a ha
  have he := handle_elem w hw h a ha
  have hn : 1 ≤ bs.length := by cases bs with | nil => exact absurd rfl hbs | cons _ _ => simp
  unfold hwritePlain
  simp only
  have h1 : ¬ ((bs.length : Int) ≤ 0 ∨ (a.appendable = false ∧ (bs.length : Int) + a.posn > ddLen ((w.file a.file).dd a.slot))) := by
    intro h; rcases h with h | h
    · omega
    · rw [hprom.1] at h; exact absurd h.1 (by decide)
  rw [if_neg h1, if_pos hprom]
  by_cases hwr : (w.file a.file).writable = false
  · rw [if_pos hwr]
    exact same_update_ok w hw _ h a _ ha rfl rfl rfl rfl rfl ⟨rfl, rfl⟩ rfl
  · rw [if_neg hwr]
    have hwr' : (w.file a.file).writable = true := by simpa using hwr
    obtain ⟨hww, hacc, hfile, heqv⟩ := convert_world w hw h a ha hsp (halone hwr') a.blockSize a.numBlocks hh.blk.1 hh.blk.2
      a.posn false false rfl
    generalize hf2 : ((w.file a.file).convert a.slot a.blockSize a.numBlocks).1 = f2 at hww hacc hfile heqv ⊢
    generalize hs2 : ((w.file a.file).convert a.slot a.blockSize a.numBlocks).2 = s2 at hww hacc hfile heqv ⊢
    generalize ha2 : ({ a with slot := s2, special := true, appendable := false, newElem := false } : Acc) = a2 at hww hacc hfile heqv ⊢
    have ha2f : a2.file = a.file := by rw [← ha2]
    have hacc' : ((w.setFile a.file f2).setAcc h a2).acc h = some a2 := by rw [acc_setAcc]; simp
    have hsp2 : a2.special = true := by rw [← ha2]
    have hlk : (f2.link (a2.key f2)).isSome = true := by
      have hh2 := hww.handles h a2 hacc'
      have hE2 := hww.files a2.file
      rw [ha2f, hfile] at hE2
      have hl2 := hh2.live; rw [ha2f, hfile] at hl2
      have hs2' := hh2.special_iff; rw [ha2f, hfile, hsp2] at hs2'
      obtain ⟨li, _, _, hk, _⟩ := hE2.linked_ok a2.slot hl2 hs2'.symm
      rw [acc_key_eq, hk]; rfl
    have hrs := hwriteLinked_restart w h a2 a2 f2 f2 bs hlk
    rw [ha2f] at hrs
    rw [← hrs]
    have hfile2 : ((w.setFile a.file f2).setAcc h a2).file a2.file = f2 := by rw [ha2f]; exact hfile
    have hboth := hwriteLinked_ok _ hww h bs hbs a2 hacc' hsp2
    rw [hfile2] at hboth
    obtain ⟨⟨hw3, v1', hs1, he1⟩, hres⟩ := hboth
    refine ⟨hw3, ?_⟩
    rw [hres] at hs1 ⊢
    -- the two specifications (from the world before and after the promotion) agree
    have hu := hh.user
    have hpos2 : a2.posn = a.posn := by rw [← ha2]
    have hV := Eqv.symm heqv
    have hhnd : (abs ((w.setFile a.file f2).setAcc h a2)).hnd h =
        some { file := a.file, key := (w.file a.file).keyOf a.slot, pos := a.posn } := by
      rw [hV.2.2 h]; simp [View.setHnd]
    have helem : (abs ((w.setFile a.file f2).setAcc h a2)).elem a.file ((w.file a.file).keyOf a.slot) =
        some (some (((w.file a.file).slotBytes a.slot).getD [])) := by
      rw [hV.2.1 a.file _ hu]; simp [View.setHnd, View.setElem]
    simp only [specStep, hhnd, helem] at hs1
    simp only [hbs, ne_eq, not_false_eq_true, and_true, Int.natCast_inj, if_true, Option.some.injEq, Option.getD_some] at hs1
    refine ⟨((abs w).setElem a.file ((w.file a.file).keyOf a.slot)
        (some (some (specWrite (((w.file a.file).slotBytes a.slot).getD []) a.posn bs)))).setHnd h
        (some { file := a.file, key := (w.file a.file).keyOf a.slot, pos := a.posn + bs.length }), ?_, ?_⟩
    · simp only [specStep, abs_hnd, ha, Option.map_some, he]
      simp [hbs]
    · rw [← hs1] at he1
      exact Eqv.trans (Eqv.symm (Eqv.overwrite hV _ _)) he1

end H4.Elem

namespace H4.Elem
open H4.Gen.Hdf

theorem hwritePlain_restart (w : World) (h : Nat) (a a0 : Acc) (f f0 : File) (bs : Bytes)
    (hnp : ¬ (a.appendable = true ∧ (bs.length : Int) + a.posn > ddLen (f.dd a.slot) ∧ ddLen (f.dd a.slot) + ddOff (f.dd a.slot) ≠ f.endOff)) :
    hwritePlain ((w.setFile a.file f0).setAcc h a0) h a f bs = hwritePlain w h a f bs := by
  unfold hwritePlain
  simp only
  by_cases h1 : ((bs.length : Int) ≤ 0 ∨ (a.appendable = false ∧ (bs.length : Int) + a.posn > ddLen (f.dd a.slot)))
  · simp only [if_pos h1, restart]
  · simp only [if_neg h1, if_neg hnp, restart]

theorem specWrite_zeros (m p : Nat) (bs : Bytes) (h : m ≤ p + bs.length) : specWrite (zeros m) p bs = specWrite [] p bs := by
  unfold specWrite
  simp only [zeros_length, List.length_nil]
  have : max m (p + bs.length) = max 0 (p + bs.length) := by omega
  rw [this]
  apply List.map_congr_left
  intro i _
  split
  · rfl
  · simp [zeros, List.getD_eq_getElem?_getD, List.getElem?_replicate]
    split <;> rfl

/-- `Hsetlength` through one of the access ids of an element without data: the element becomes `length` reserved bytes
    (zeros: the space lies at the end of the file); other ids on it keep a stale "new" flag until they are next used -/
theorem setLength_world (w : World) (hw : WFW w) (h : Nat) (a : Acc) (ha : w.acc h = some a) (hsp : a.special = false)
    (hx : ((w.file a.file).dd a.slot).ext = none) (n : Nat) (app : Bool) :
    let f1 := ((w.file a.file).setLength a.slot n).1
    let a1 : Acc := { a with newElem := false, appendable := app }
    let w1 := (w.setFile a.file f1).setAcc h a1
    WFW w1 ∧ w1.acc h = some a1 ∧ w1.file a.file = f1 ∧
    (f1.dd a.slot).ext = some ((w.file a.file).endOff, n) ∧ f1.endOff = (w.file a.file).endOff + n ∧
    (((abs w).setElem a.file ((w.file a.file).keyOf a.slot) (some (some (zeros n)))).setHnd h
      (some { file := a.file, key := (w.file a.file).keyOf a.slot, pos := a.posn })).Eqv (abs w1) := by
  intro f1 a1 w1
  have hh := hw.handles h a ha
  have hsp' : isSpecial ((w.file a.file).dd a.slot).tag = false := by rw [← hh.special_iff]; exact hsp
  have hfi := file_lt_of_live w a.file a.slot hh.live
  have hE := hw.files a.file
  have hslt := live_lt _ _ hh.live
  have S := setLength_spec (w.file a.file) a.slot n hslt hE.tail0
  have W1 := S.wff hE.toWFF hh.live hx
  have hC := coh_setLength (hw.coh a.file) a.slot n hslt
  have hacc : w1.acc h = some a1 := by show ((w.setFile a.file f1).setAcc h a1).acc h = _; rw [acc_setAcc]; simp
  have hfile : w1.file a.file = f1 := by
    show ((w.setFile a.file f1).setAcc h a1).file a.file = _; rw [file_setAcc, file_setFile_same w a.file _ hfi]
  have hbt := keyOf_user_ne_linked hh.user
  have hlive1 : ∀ x, f1.live x ↔ (w.file a.file).live x := by
    intro x; unfold File.live
    by_cases e : x = a.slot
    · rw [e]; show ((((w.file a.file).setLength a.slot n).1).dd a.slot).tag ≠ _ ↔ _; rw [S.dd_new]
    · show ((((w.file a.file).setLength a.slot n).1).dd x).tag ≠ _ ↔ _; rw [S.dd_keep x e]
  obtain ⟨E1, hfr1⟩ := hE.plain_step W1 a.slot (fun x _ hne => S.dd_keep x hne)
    (by rw [S.dd_new]; exact ⟨hsp', hbt⟩) (fun _ => ⟨hsp', hbt⟩)
    (fun x hx1 hnx => absurd ((hlive1 x).mp hx1) hnx) S.links (fun y _ _ => S.rd_keep y)
  have hd1 : f1.dd a.slot = { (w.file a.file).dd a.slot with ext := some ((w.file a.file).endOff, n) } := by
    show (((w.file a.file).setLength a.slot n).1).dd a.slot = _; rw [S.dd_new, S.off_eq]
  have hkey1 : f1.keyOf a.slot = (w.file a.file).keyOf a.slot := by unfold File.keyOf; rw [hd1]
  have hdd1 : ∀ x, (f1.dd x).tag = ((w.file a.file).dd x).tag ∧ (f1.dd x).ref = ((w.file a.file).dd x).ref ∧
      ((f1.dd x).ext = none → ((w.file a.file).dd x).ext = none) := by
    intro x
    by_cases e : x = a.slot
    · rw [e, hd1]; exact ⟨rfl, rfl, fun c => by cases c⟩
    · have : f1.dd x = (w.file a.file).dd x := S.dd_keep x e
      rw [this]; exact ⟨rfl, rfl, id⟩
  have hww : WFW w1 := by
    apply hw.update a.file hfi f1 E1 hC h a1 rfl
    · refine ⟨(hlive1 a.slot).mpr hh.live, by rw [hkey1]; exact hh.user, ?_, ?_, fun _ => rfl, hh.blk⟩
      · show a.special = _; rw [hd1]; exact hh.special_iff
      · intro _ c; exfalso; have : (f1.dd a.slot).ext = none := c; rw [hd1] at this; cases this
    · intro h' a'' _ _ _
      exact hdd1 a''.slot
  refine ⟨hww, hacc, hfile, by rw [hd1], S.end_eq, ?_⟩
  have := abs_update hw a.file hfi f1 W1 h a1 rfl ((w.file a.file).keyOf a.slot) (some (some (zeros n))) S.present
    (by
      have h1 := elem_keyOf f1 W1 a.slot ((hlive1 a.slot).mpr hh.live)
      rw [hkey1] at h1
      rw [h1, slotBytes_plain _ _ (by rw [hd1]; exact hsp'), hd1]
      simp only [Option.map_some]
      congr 2
      unfold File.bytesAt zeros
      apply List.ext_getElem?
      intro i
      simp only [List.getElem?_map, List.getElem?_replicate]
      by_cases hi : i < n
      · simp only [hi, if_true, List.getElem?_range hi, Option.map_some]
        show some (rd (((w.file a.file).setLength a.slot n).1).disk _) = _
        rw [S.rd_keep, hE.tail0 _ (by omega)]
      · simp [hi, List.getElem?_eq_none (by simp; omega : (List.range n).length ≤ i)])
    (by
      intro k' hu' hne
      apply elem_frame hE.toWFF W1
      · intro j
        by_cases e : j = a.slot
        · rw [e]; exact hasKey_congr (by rw [hd1]) (by rw [hd1])
        · exact hasKey_congr (by show ((((w.file a.file).setLength a.slot n).1).dd j).tag = _; rw [S.dd_keep j e])
            (by show ((((w.file a.file).setLength a.slot n).1).dd j).ref = _; rw [S.dd_keep j e])
      · intro j hk
        have hjs : j ≠ a.slot := fun e => hne ((keyOf_of_hasKey hu' (e ▸ hk)).symm)
        exact hfr1 j hk.1 hjs)
    (by
      intro h' a'' _ _ _
      unfold File.keyOf
      rw [(hdd1 a''.slot).1, (hdd1 a''.slot).2.1])
  rw [hkey1] at this
  exact this

end H4.Elem

namespace H4.Elem
open H4.Gen.Hdf

/-- **`Hwrite`** after `HIrefresh_new` (all four ways the C can carry it out: linked blocks, first write of an element, in
    place / extended in place at the end of the file, silent promotion) is `specWrite` on the element's byte string -/
theorem stepOKC_write (w : World) (hw : WFW w) (h : Nat) (bs : Bytes) (hbs : bs ≠ [])
    (hprom_alone : ∀ a, w.acc h = some a → a.special = false → a.newElem = false → a.appendable = true →
      (bs.length : Int) + a.posn > ddLen ((w.file a.file).dd a.slot) → NotLast w a → Alone w h)
    (hfresh : Fresh w h) : StepOKC w (.write h bs) := by
  cases ha : w.acc h with
  | none => exact stepOKC_fail_same w hw _ (by simp [stepC, hwriteCore, ha])
  | some a =>
    have hstep : stepC w (.write h bs) =
        if a.canWrite = false then (w, .fail)
        else if a.special = true then hwriteLinked w h a (w.file a.file) bs
        else if a.newElem = true then
          hwritePlain w h { a with newElem := false, appendable := true } ((w.file a.file).setLength a.slot bs.length).1 bs
        else hwritePlain w h a (w.file a.file) bs := by
      simp only [stepC, hwriteCore, ha]
    by_cases hcw : a.canWrite = false
    · exact stepOKC_fail_same w hw _ (by rw [hstep, if_pos hcw])
    by_cases hsp : a.special = true
    · unfold StepOKC; rw [hstep, if_neg hcw, if_pos hsp]
      exact (hwriteLinked_ok w hw h bs hbs a ha hsp).1
    have hsp0 : a.special = false := by simpa using hsp
    by_cases hnew : a.newElem = true
    · -- first write of an element: Hsetlength(|bs|), then the write
      unfold StepOKC; rw [hstep, if_neg hcw, if_neg hsp, if_pos hnew]
      obtain ⟨hw1, hacc1, hfile1, hext1, hend1, heqv1⟩ := setLength_world w hw h a ha hsp0 (hfresh a ha hnew hsp0) bs.length true
      generalize hf1 : ((w.file a.file).setLength a.slot bs.length).1 = f1 at hw1 hacc1 hfile1 hext1 hend1 heqv1 ⊢
      generalize ha1 : ({ a with newElem := false, appendable := true } : Acc) = a1 at hw1 hacc1 hfile1 heqv1 ⊢
      have ha1f : a1.file = a.file := by rw [← ha1]
      have ha1s : a1.slot = a.slot := by rw [← ha1]
      have ha1p : a1.posn = a.posn := by rw [← ha1]
      have hnp : ¬ (a1.appendable = true ∧ (bs.length : Int) + a1.posn > ddLen (f1.dd a1.slot) ∧
          ddLen (f1.dd a1.slot) + ddOff (f1.dd a1.slot) ≠ f1.endOff) := by
        rw [ha1s]
        simp only [ddLen, ddOff, hext1, hend1]
        intro hh; apply hh.2.2; omega
      have hrs := hwritePlain_restart w h a1 a1 f1 f1 bs hnp
      rw [ha1f] at hrs
      rw [← hrs]
      have hfile1' : ((w.setFile a.file f1).setAcc h a1).file a1.file = f1 := by rw [ha1f]; exact hfile1
      have hok := hwritePlain_ok _ hw1 h bs hbs a1 hacc1 (by rw [← ha1]; exact hsp0) (by rw [← ha1]) (by rw [hfile1']; exact hnp)
      rw [hfile1'] at hok
      obtain ⟨hw3, v1', hs1, he1⟩ := hok
      refine ⟨hw3, ?_⟩
      -- the result is a successful write (the element is appendable and at the end of the file)
      have hh := hw.handles h a ha
      have hu := hh.user
      have hx : ((w.file a.file).dd a.slot).ext = none := hfresh a ha hnew hsp0
      have hsp' : isSpecial ((w.file a.file).dd a.slot).tag = false := by rw [← hh.special_iff]; exact hsp0
      have he := handle_elem w hw h a ha
      rw [slotBytes_plain _ _ hsp', hx] at he
      have hV := Eqv.symm heqv1
      have hhnd : (abs ((w.setFile a.file f1).setAcc h a1)).hnd h =
          some { file := a.file, key := (w.file a.file).keyOf a.slot, pos := a.posn } := by
        rw [hV.2.2 h]; simp [View.setHnd]
      have helem : (abs ((w.setFile a.file f1).setAcc h a1)).elem a.file ((w.file a.file).keyOf a.slot) =
          some (some (zeros bs.length)) := by
        rw [hV.2.1 a.file _ hu]; simp [View.setHnd, View.setElem]
      cases hr : (hwritePlain ((w.setFile a.file f1).setAcc h a1) h a1 f1 bs).2 with
      | num n =>
        rw [hr] at hs1
        simp only [specStep, hhnd, helem] at hs1
        by_cases hc : n = (bs.length : Int) ∧ bs ≠ []
        · rw [if_pos hc] at hs1
          simp only [Option.some.injEq, Option.getD_some] at hs1
          refine ⟨((abs w).setElem a.file ((w.file a.file).keyOf a.slot)
              (some (some (specWrite [] a.posn bs)))).setHnd h
              (some { file := a.file, key := (w.file a.file).keyOf a.slot, pos := a.posn + bs.length }), ?_, ?_⟩
          · simp only [specStep, abs_hnd, ha, Option.map_some, he]
            simp [hc.1, hbs]
          · rw [← hs1, specWrite_zeros _ _ _ (by omega)] at he1
            exact Eqv.trans (Eqv.symm (Eqv.overwrite hV _ _)) he1
        · rw [if_neg hc] at hs1; exact absurd hs1 (by simp)
      | fail =>
        -- cannot happen: the write fits or extends in place
        exfalso
        unfold hwritePlain at hr
        simp only [ha1s, ddLen, ddOff, hext1] at hr
        have hn : 1 ≤ bs.length := by cases bs with | nil => exact absurd rfl hbs | cons _ _ => simp
        have happ : a1.appendable = true := by rw [← ha1]
        have h1 : ¬ ((bs.length : Int) ≤ 0 ∨ (a1.appendable = false ∧ (bs.length : Int) + a1.posn > (bs.length : Int))) := by
          intro hh; rcases hh with hh | hh
          · omega
          · rw [happ] at hh; exact absurd hh.1 (by decide)
        rw [if_neg h1] at hr
        have h2 : ¬ (a1.appendable = true ∧ (bs.length : Int) + a1.posn > (bs.length : Int) ∧
            (bs.length : Int) + ((w.file a.file).endOff : Int) ≠ f1.endOff) := by
          rw [hend1]; intro hh; apply hh.2.2; omega
        rw [if_neg h2] at hr
        simp at hr
      | ok => rw [hr] at hs1; simp [specStep] at hs1
      | data _ _ => rw [hr] at hs1; simp [specStep] at hs1
      | info _ _ _ _ => rw [hr] at hs1; simp [specStep] at hs1
      | crash => rw [hr] at hs1; simp [specStep] at hs1
    · unfold StepOKC; rw [hstep, if_neg hcw, if_neg hsp, if_neg hnew]
      have hnew0 : a.newElem = false := by simpa using hnew
      by_cases hprom : a.appendable = true ∧ (bs.length : Int) + a.posn > ddLen ((w.file a.file).dd a.slot) ∧
          ddLen ((w.file a.file).dd a.slot) + ddOff ((w.file a.file).dd a.slot) ≠ (w.file a.file).endOff
      · exact hwritePlain_promote_ok w hw h bs hbs a ha hsp0 hprom
          (fun _ => hprom_alone a ha hsp0 hnew0 hprom.1 hprom.2.1 hprom.2.2)
      · exact hwritePlain_ok w hw h bs hbs a ha hsp0 hnew0 hprom


/-- **`Hwrite`**: argument check, `HIrefresh_new`, then the write proper -/
theorem stepOK_write (w : World) (hw : WFW w) (h : Nat) (bs : Bytes) (hsafe : OpSafe w (.write h bs)) :
    StepOK w (.write h bs) := by
  obtain ⟨hbs, hprom⟩ := hsafe
  have hdec : w.acc h = none ∨ ∃ a, w.acc h = some a := by cases w.acc h <;> simp
  rcases hdec with ha | ⟨a, ha⟩
  · exact stepOK_fail_same w hw _ (by simp [step, hwrite, ha])
  by_cases hcw : a.canWrite = false
  · exact stepOK_fail_same w hw _ (by simp [step, hwrite, ha, hcw])
  obtain ⟨hw', _, hfr, hfile, hacc, hoth⟩ := refresh_spec w hw h
  apply stepOK_of_core w hw h (.write h bs) (by simp only [step, stepC, hwrite, ha]; rw [if_neg hcw])
  apply stepOKC_write _ hw' h bs hbs _ hfr
  intro a' ha' hsp' hne' happ' hlen' hnl'
  rw [hacc a ha] at ha'
  simp only [Option.some.injEq] at ha'
  obtain ⟨r1, r2, r3, r4, r5, _, _, _, _, _⟩ := refresh_fields a (w.file a.file)
  subst ha'
  rw [r1, r2, hfile] at hlen'
  rw [r3] at hlen'
  have hnl : NotLast w a := by
    unfold NotLast at hnl' ⊢
    rw [r1, r2, hfile] at hnl'; exact hnl'
  have hxne : ((w.file a.file).dd a.slot).ext ≠ none := by
    intro c
    have h1 := (hw.handles h a ha).new_of_none (by rw [← r4]; exact hsp') c
    have h2 : (a.refresh (w.file a.file)).newElem = true := by
      unfold Acc.refresh; rw [if_neg (fun cc => cc.2.2 c)]; exact h1
    rw [hne'] at h2; exact absurd h2 (by decide)
  have hal := hprom a ha (by rw [← r4]; exact hsp') hxne (by rw [← r5]; exact happ') hlen' hnl
  -- `Alone` does not depend on the flag
  intro a0 ha0 h' a1 ha1 ef es
  rw [hacc a ha] at ha0
  simp only [Option.some.injEq] at ha0
  subst ha0
  rw [r1] at ef; rw [r2] at es
  by_cases e : h' = h
  · exact e
  · rw [hoth h' e] at ha1
    exact hal a ha h' a1 ha1 ef es

end H4.Elem
