import H4.Chunk
/-! Helper lemmas for the chunk address arithmetic (C04): mixed-radix numbers (`lin` / `digits`),
    the per-dimension facts about `DIM_REC`, no-carry addition in the fastest dimension. Core only. -/
namespace H4.Chunk

/-! ## generic arithmetic -/

theorem add_mod_of_lt {x d m : Nat} (h : x % d + m < d) : (x + m) % d = x % d + m := by
  have := Nat.div_add_mod x d
  rw [show x + m = (x % d + m) + (x / d) * d by grind]
  rw [Nat.add_mul_mod_self_right, Nat.mod_eq_of_lt h]

theorem add_div_of_lt {x d m : Nat} (h : x % d + m < d) : (x + m) / d = x / d := by
  have hd : 0 < d := by omega
  have := Nat.div_add_mod x d
  rw [show x + m = (x % d + m) + (x / d) * d by grind]
  rw [Nat.add_mul_div_right _ _ hd, Nat.div_eq_of_lt h]; omega

/-- uniqueness of `a + b·M` with `a < M` -/
theorem add_mul_inj {a a' b b' M : Nat} (ha : a < M) (ha' : a' < M) (h : a + b * M = a' + b' * M) :
    a = a' ∧ b = b' := by
  have hM : 0 < M := by omega
  have h1 := congrArg (· % M) h
  have h2 := congrArg (· / M) h
  simp only [Nat.add_mul_mod_self_right, Nat.mod_eq_of_lt ha, Nat.mod_eq_of_lt ha',
    Nat.add_mul_div_right _ _ hM, Nat.div_eq_of_lt ha, Nat.div_eq_of_lt ha'] at h1 h2
  omega

theorem map_range'_congr {α} (f g : Nat → α) : ∀ (k a b : Nat), (∀ j, j < k → f (a + j) = g (b + j)) →
    (List.range' a k).map f = (List.range' b k).map g
  | 0, _, _, _ => rfl
  | k + 1, a, b, h => by
    simp only [List.range'_succ, List.map_cons]
    rw [map_range'_congr f g k (a + 1) (b + 1) (fun j hj => by
      have := h (j + 1) (by omega); simpa [Nat.add_assoc, Nat.add_comm 1 j] using this)]
    have := h 0 (by omega)
    simp at this; rw [this]

/-! ## mixed radix -/

def AllPos (l : List Nat) : Prop := ∀ x ∈ l, 0 < x

instance (l : List Nat) : Decidable (AllPos l) := by unfold AllPos; infer_instance

/-- `xs` is a digit vector for the radices `rs`: same length and every digit below its radix -/
def Below : List Nat → List Nat → Prop
  | [], [] => True
  | x :: xs, r :: rs => x < r ∧ Below xs rs
  | _, _ => False

instance : (xs rs : List Nat) → Decidable (Below xs rs)
  | [], [] => isTrue trivial
  | x :: xs, r :: rs => by
    have := instDecidableBelow xs rs
    unfold Below; infer_instance
  | [], _ :: _ => isFalse (by simp [Below])
  | _ :: _, [] => isFalse (by simp [Below])

/-- spec-level digit extraction, fastest (last) radix first: (carry out, digits) -/
def digits : List Nat → Nat → Nat × List Nat
  | [], x => (x, [])
  | r :: rs, x => let t := digits rs x; (t.1 / r, (t.1 % r) :: t.2)

theorem allPos_cons {r : Nat} {rs : List Nat} : AllPos (r :: rs) ↔ 0 < r ∧ AllPos rs := by
  simp [AllPos]

theorem prod_pos {rs : List Nat} (h : AllPos rs) : 0 < rs.prod := by
  induction rs with
  | nil => simp
  | cons r rs ih =>
    rw [allPos_cons] at h
    simp only [List.prod_cons]
    exact Nat.mul_pos h.1 (ih h.2)

theorem lin_fst (rs xs : List Nat) : (lin rs xs).1 = rs.prod := by
  induction rs generalizing xs with
  | nil => simp [lin]
  | cons r rs ih => simp [lin, ih, Nat.mul_comm]

theorem below_length {xs rs : List Nat} (h : Below xs rs) : xs.length = rs.length := by
  induction xs generalizing rs with
  | nil => cases rs <;> simp_all [Below]
  | cons x xs ih =>
    cases rs with
    | nil => simp [Below] at h
    | cons r rs => simp [Below] at h; simp [ih h.2]

theorem lin_lt {rs xs : List Nat} (h : Below xs rs) : (lin rs xs).2 < rs.prod := by
  induction rs generalizing xs with
  | nil => cases xs <;> simp_all [Below, lin]
  | cons r rs ih =>
    cases xs with
    | nil => simp [Below] at h
    | cons x xs =>
      simp only [Below] at h
      have := ih h.2
      simp only [lin, List.tail_cons, List.headD_cons, lin_fst, List.prod_cons]
      calc (lin rs xs).2 + x * rs.prod < rs.prod + x * rs.prod := by omega
        _ = (x + 1) * rs.prod := by grind
        _ ≤ r * rs.prod := Nat.mul_le_mul_right _ h.1

theorem digits_spec {rs : List Nat} (hp : AllPos rs) (x : Nat) :
    Below (digits rs x).2 rs ∧ (lin rs (digits rs x).2).2 + (digits rs x).1 * rs.prod = x := by
  induction rs with
  | nil => simp [digits, Below, lin]
  | cons r rs ih =>
    rw [allPos_cons] at hp
    obtain ⟨hb, hs⟩ := ih hp.2
    refine ⟨⟨Nat.mod_lt _ hp.1, hb⟩, ?_⟩
    simp only [digits, lin, List.tail_cons, List.headD_cons, lin_fst, List.prod_cons]
    have := Nat.div_add_mod (digits rs x).1 r
    generalize (lin rs (digits rs x).2).2 = a at *
    generalize (digits rs x).1 = t at *
    generalize rs.prod = P at *
    subst hs
    grind

theorem digits_lin {rs xs : List Nat} (hp : AllPos rs) (h : Below xs rs) (q : Nat) :
    digits rs ((lin rs xs).2 + q * rs.prod) = (q, xs) := by
  induction rs generalizing xs q with
  | nil => cases xs <;> simp_all [Below, lin, digits]
  | cons r rs ih =>
    cases xs with
    | nil => simp [Below] at h
    | cons x xs =>
      rw [allPos_cons] at hp
      simp only [Below] at h
      simp only [lin, List.tail_cons, List.headD_cons, lin_fst, List.prod_cons, digits]
      have e : (lin rs xs).2 + x * rs.prod + q * (r * rs.prod) = (lin rs xs).2 + (x + q * r) * rs.prod := by grind
      rw [e, ih hp.2 h.2]
      simp only [Nat.add_mul_div_right _ _ hp.1, Nat.add_mul_mod_self_right, Nat.div_eq_of_lt h.1, Nat.mod_eq_of_lt h.1]
      simp

/-- digit vectors below the radices are determined by their value -/
theorem lin_inj {rs xs ys : List Nat} (hp : AllPos rs) (hx : Below xs rs) (hy : Below ys rs)
    (h : (lin rs xs).2 = (lin rs ys).2) : xs = ys := by
  have a := digits_lin hp hx 0
  have b := digits_lin hp hy 0
  rw [h, b] at a
  exact (Prod.mk.inj a).2.symm

theorem digits_of_lt {rs : List Nat} (hp : AllPos rs) {x : Nat} (hx : x < rs.prod) :
    (digits rs x).1 = 0 ∧ (lin rs (digits rs x).2).2 = x := by
  obtain ⟨_, hs⟩ := digits_spec hp x
  have hP := prod_pos hp
  have hq : (digits rs x).1 = 0 := by
    apply Classical.byContradiction; intro hne
    have : rs.prod ≤ (digits rs x).1 * rs.prod := Nat.le_mul_of_pos_left _ (Nat.pos_of_ne_zero hne)
    omega
  rw [hq] at hs
  exact ⟨hq, by omega⟩

/-! ## DIM_REC facts -/

/-- what `HMCcreate`/`HMCIstaccess` establish for a dimension with positive lengths:
    `(num_chunks-1)·chunk_length + last_chunk_length = dim_length`, `0 < last_chunk_length ≤ chunk_length` -/
def DimRec.WF (r : DimRec) : Prop :=
  0 < r.chunkLength ∧ 0 < r.lastChunkLength ∧ r.lastChunkLength ≤ r.chunkLength ∧ 0 < r.numChunks ∧
  (r.numChunks - 1) * r.chunkLength + r.lastChunkLength = r.dimLength

instance (r : DimRec) : Decidable r.WF := by unfold DimRec.WF; infer_instance

theorem mkDimRec_wf {d c : Nat} (hd : 0 < d) (hc : 0 < c) :
    (mkDimRec d c).WF ∧ (mkDimRec d c).dimLength = d ∧ (mkDimRec d c).chunkLength = c := by
  have hd0 : (d == 0) = false := by simp; omega
  have hdm := Nat.div_add_mod d c
  unfold mkDimRec
  simp only [hd0, Bool.false_eq_true, if_false]
  by_cases hodd : d % c = 0
  · have : ((d % c != 0) = false) := by simp [hodd]
    simp only [this, Bool.false_eq_true, if_false, DimRec.WF]
    have hq : 0 < d / c := by
      apply Nat.pos_of_ne_zero; intro h0; rw [h0, hodd] at hdm; omega
    refine ⟨⟨hc, hc, Nat.le_refl _, hq, ?_⟩, trivial, trivial⟩
    obtain ⟨n, hn⟩ : ∃ n, d / c = n + 1 := ⟨d / c - 1, by omega⟩
    rw [hn] at hdm ⊢
    rw [hodd] at hdm
    simp only [Nat.add_sub_cancel]
    rw [← hdm]; grind
  · have : ((d % c != 0) = true) := by simp [hodd]
    simp only [this, if_true, DimRec.WF]
    refine ⟨⟨hc, Nat.pos_of_ne_zero hodd, Nat.le_of_lt (Nat.mod_lt _ hc), Nat.succ_pos _, ?_⟩, trivial, trivial⟩
    simp only [Nat.add_sub_cancel]
    rw [Nat.mul_comm]; exact hdm

theorem DimRec.WF.dim_pos {r : DimRec} (h : r.WF) : 0 < r.dimLength := by
  obtain ⟨_, h2, _, _, h5⟩ := h; omega

/-- facts about one array index `a < dim_length` and its (chunk index, position in chunk) -/
theorem DimRec.WF.idx {r : DimRec} (h : r.WF) {a : Nat} (ha : a < r.dimLength) :
    a / r.chunkLength < r.numChunks ∧ a % r.chunkLength < r.chunkLength ∧
    (a / r.chunkLength + 1 = r.numChunks → a % r.chunkLength < r.lastChunkLength) ∧
    (a / r.chunkLength + 1 ≠ r.numChunks → a + (r.chunkLength - a % r.chunkLength) ≤ r.dimLength) := by
  obtain ⟨hc, hl, hlc, hn, hd⟩ := h
  have hdm := Nat.div_add_mod a r.chunkLength
  have hml := Nat.mod_lt a hc
  obtain ⟨n, hn'⟩ : ∃ n, r.numChunks = n + 1 := ⟨r.numChunks - 1, by omega⟩
  rw [hn'] at hd ⊢
  simp only [Nat.add_sub_cancel] at hd
  have h1 : a / r.chunkLength < n + 1 := by
    rw [Nat.div_lt_iff_lt_mul hc]
    have : (n + 1) * r.chunkLength = n * r.chunkLength + r.chunkLength := by grind
    omega
  refine ⟨h1, hml, ?_, ?_⟩
  · intro he
    have he' : a / r.chunkLength = n := by omega
    rw [he', Nat.mul_comm] at hdm
    omega
  · intro hne
    have hlt : a / r.chunkLength + 1 ≤ n := by omega
    have := Nat.mul_le_mul_left r.chunkLength hlt
    have e : r.chunkLength * (a / r.chunkLength + 1) = r.chunkLength * (a / r.chunkLength) + r.chunkLength := by grind
    rw [Nat.mul_comm r.chunkLength n] at this
    omega

def DDWF (dd : List DimRec) : Prop := ∀ r ∈ dd, r.WF

instance (dd : List DimRec) : Decidable (DDWF dd) := by unfold DDWF; infer_instance

theorem ddwf_cons {d : DimRec} {ds : List DimRec} : DDWF (d :: ds) ↔ d.WF ∧ DDWF ds := by simp [DDWF]

abbrev dimsOf (dd : List DimRec) : List Nat := dd.map (·.dimLength)
abbrev cdimsOf (dd : List DimRec) : List Nat := dd.map (·.chunkLength)
abbrev nchunksOf (dd : List DimRec) : List Nat := dd.map (·.numChunks)

theorem ddwf_pos {dd : List DimRec} (h : DDWF dd) :
    AllPos (dimsOf dd) ∧ AllPos (cdimsOf dd) ∧ AllPos (nchunksOf dd) := by
  induction dd with
  | nil => simp [AllPos]
  | cons d ds ih =>
    rw [ddwf_cons] at h
    obtain ⟨a, b, c⟩ := ih h.2
    simp only [List.map_cons, allPos_cons]
    exact ⟨⟨h.1.dim_pos, a⟩, ⟨h.1.1, b⟩, ⟨h.1.2.2.2.1, c⟩⟩

theorem mkDims_spec : ∀ {dims cdims : List Nat}, dims.length = cdims.length → AllPos dims → AllPos cdims →
    DDWF (mkDims dims cdims) ∧ dimsOf (mkDims dims cdims) = dims ∧ cdimsOf (mkDims dims cdims) = cdims
  | [], [], _, _, _ => by simp [mkDims, DDWF]
  | d :: ds, c :: cs, hl, hd, hc => by
    rw [allPos_cons] at hd hc
    obtain ⟨a, b, e⟩ := mkDims_spec (dims := ds) (cdims := cs) (by simpa using hl) hd.2 hc.2
    obtain ⟨w, wd, wc⟩ := mkDimRec_wf hd.1 hc.1
    simp only [mkDims, ddwf_cons, List.map_cons]
    exact ⟨⟨w, a⟩, by rw [wd]; exact congrArg (d :: ·) b, by rw [wc]; exact congrArg (c :: ·) e⟩
  | [], _ :: _, hl, _, _ => by simp at hl
  | _ :: _, [], hl, _, _ => by simp at hl

/-! ## `update_chunk_indices_seek` through digits -/

/-- chunk index per dimension of an array index vector -/
def sbiOf : List DimRec → List Nat → List Nat
  | d :: ds, a :: as => a / d.chunkLength :: sbiOf ds as
  | _, _ => []

/-- position inside the chunk per dimension of an array index vector -/
def spbOf : List DimRec → List Nat → List Nat
  | d :: ds, a :: as => a % d.chunkLength :: spbOf ds as
  | _, _ => []

theorem ucisLoop_eq (dd : List DimRec) (x : Nat) :
    ucisLoop dd x = ((digits (dimsOf dd) x).1, sbiOf dd (digits (dimsOf dd) x).2, spbOf dd (digits (dimsOf dd) x).2) := by
  induction dd with
  | nil => simp [ucisLoop, digits, sbiOf, spbOf]
  | cons d ds ih => simp [ucisLoop, digits, sbiOf, spbOf, ih]

theorem sbi_spb_below {dd : List DimRec} (h : DDWF dd) {a : List Nat} (ha : Below a (dimsOf dd)) :
    Below (sbiOf dd a) (nchunksOf dd) ∧ Below (spbOf dd a) (cdimsOf dd) := by
  induction dd generalizing a with
  | nil => cases a <;> simp_all [Below, sbiOf, spbOf]
  | cons d ds ih =>
    cases a with
    | nil => simp [Below] at ha
    | cons a as =>
      rw [ddwf_cons] at h
      simp only [List.map_cons, Below] at ha
      obtain ⟨i1, i2⟩ := ih h.2 ha.2
      obtain ⟨f1, f2, _, _⟩ := h.1.idx ha.1
      simp only [sbiOf, spbOf, List.map_cons, Below]
      exact ⟨⟨f1, i1⟩, ⟨f2, i2⟩⟩

theorem divmod_inj {dd : List DimRec} {a b : List Nat} (ha : a.length = dd.length) (hb : b.length = dd.length)
    (h1 : sbiOf dd a = sbiOf dd b) (h2 : spbOf dd a = spbOf dd b) : a = b := by
  induction dd generalizing a b with
  | nil => cases a <;> cases b <;> simp_all
  | cons d ds ih =>
    cases a with
    | nil => simp at ha
    | cons x xs =>
      cases b with
      | nil => simp at hb
      | cons y ys =>
        simp only [sbiOf, spbOf, List.cons.injEq] at h1 h2
        have := ih (by simpa using ha) (by simpa using hb) h1.2 h2.2
        have e1 := Nat.div_add_mod x d.chunkLength
        have e2 := Nat.div_add_mod y d.chunkLength
        rw [h1.1, h2.1] at e1
        simp [this]; omega

/-- element number → chunk number / element offset inside the chunk are jointly injective below `Π dim_length` -/
theorem elem_addr_inj {dd : List DimRec} (h : DDWF dd) {x y : Nat}
    (hx : x < (dimsOf dd).prod) (hy : y < (dimsOf dd).prod)
    (hc : calculateChunkNum dd (ucisLoop dd x).2.1 = calculateChunkNum dd (ucisLoop dd y).2.1)
    (hs : (lin (cdimsOf dd) (ucisLoop dd x).2.2).2 = (lin (cdimsOf dd) (ucisLoop dd y).2.2).2) : x = y := by
  obtain ⟨pD, pC, pN⟩ := ddwf_pos h
  simp only [ucisLoop_eq, calculateChunkNum] at hc hs
  obtain ⟨bx, _⟩ := digits_spec pD x
  obtain ⟨by', _⟩ := digits_spec pD y
  obtain ⟨sx, px⟩ := sbi_spb_below h bx
  obtain ⟨sy, py⟩ := sbi_spb_below h by'
  have e1 := lin_inj pN sx sy hc
  have e2 := lin_inj pC px py hs
  have := divmod_inj (by simpa using below_length bx) (by simpa using below_length by') e1 e2
  have vx := (digits_of_lt pD hx).2
  have vy := (digits_of_lt pD hy).2
  rw [this] at vx
  omega

/-! ## the fastest (last) dimension: no-carry addition -/

/-- add `m` to the last component -/
def addLast : List Nat → Nat → List Nat
  | [], _ => []
  | [x], m => [x + m]
  | x :: y :: l, m => x :: addLast (y :: l) m

theorem lin_addLast {m : Nat} : ∀ {rs xs : List Nat}, xs.length = rs.length → rs ≠ [] →
    (lin rs (addLast xs m)).2 = (lin rs xs).2 + m
  | [], _, _, h => absurd rfl h
  | [r], [x], _, _ => by simp [lin, addLast]
  | r :: r' :: rs, x :: y :: l, hl, _ => by
    have ih := lin_addLast (m := m) (rs := r' :: rs) (xs := y :: l) (by simpa using hl) (by simp)
    simp only [addLast, lin, List.tail_cons, List.headD_cons] at ih ⊢
    simp only [lin_fst] at ih ⊢
    omega
  | [_], [], hl, _ => by simp at hl
  | [_], _ :: _ :: _, hl, _ => by simp at hl
  | _ :: _ :: _, [], hl, _ => by simp at hl
  | _ :: _ :: _, [_], hl, _ => by simp at hl

theorem ucisLoop_length (dd : List DimRec) (x : Nat) :
    (ucisLoop dd x).2.1.length = dd.length ∧ (ucisLoop dd x).2.2.length = dd.length := by
  induction dd with
  | nil => simp [ucisLoop]
  | cons d ds ih => simp [ucisLoop, ih]

/-- the last components of `sbi`/`spb` only depend on the last dimension -/
theorem ucisLoop_last : ∀ {dd : List DimRec}, dd ≠ [] → ∀ (x : Nat) (d0 : DimRec) (n0 p0 : Nat),
    (ucisLoop dd x).2.1.getLastD n0 = (x % (dd.getLastD d0).dimLength) / (dd.getLastD d0).chunkLength ∧
    (ucisLoop dd x).2.2.getLastD p0 = (x % (dd.getLastD d0).dimLength) % (dd.getLastD d0).chunkLength
  | [], h, _, _, _, _ => absurd rfl h
  | [d], _, x, _, _, _ => by simp [ucisLoop]
  | d :: d' :: ds, _, x, d0, n0, p0 => by
    have ih := ucisLoop_last (dd := d' :: ds) (by simp) x d
    rw [ucisLoop]
    simp only [List.getLastD_cons] at ih ⊢
    exact ih _ _

/-- moving `m` elements forward inside the current chunk row of the fastest dimension changes nothing but the last
    position-in-chunk -/
theorem ucisLoop_add : ∀ {dd : List DimRec}, dd ≠ [] → ∀ (x m : Nat) (d0 : DimRec),
    (x % (dd.getLastD d0).dimLength) % (dd.getLastD d0).chunkLength + m < (dd.getLastD d0).chunkLength →
    x % (dd.getLastD d0).dimLength + m < (dd.getLastD d0).dimLength →
    ucisLoop dd (x + m) = ((ucisLoop dd x).1, (ucisLoop dd x).2.1, addLast (ucisLoop dd x).2.2 m)
  | [], h, _, _, _, _, _ => absurd rfl h
  | [d], _, x, m, _, h1, h2 => by
    simp only [List.getLastD_cons, List.getLastD_nil] at h1 h2
    simp only [ucisLoop, addLast]
    rw [add_mod_of_lt h2, add_div_of_lt h2, add_mod_of_lt h1, add_div_of_lt h1]
  | d :: d' :: ds, _, x, m, d0, h1, h2 => by
    have ih := ucisLoop_add (dd := d' :: ds) (by simp) x m d
    simp only [List.getLastD_cons] at ih h1 h2
    have ih := ih h1 h2
    rw [ucisLoop, ih]
    conv => rhs; rw [ucisLoop]
    simp only
    have hc : ∃ a l, (ucisLoop (d' :: ds) x).2.2 = a :: l := by rw [ucisLoop]; exact ⟨_, _, rfl⟩
    obtain ⟨a, l, hal⟩ := hc
    rw [hal, addLast]

theorem getLastD_mem {α} : ∀ {l : List α}, l ≠ [] → ∀ d0, l.getLastD d0 ∈ l
  | [], h, _ => absurd rfl h
  | [a], _, _ => by simp
  | a :: b :: l, _, _ => by
    have := getLastD_mem (l := b :: l) (by simp) a
    simp only [List.getLastD_cons] at this ⊢
    exact List.mem_cons_of_mem _ this

/-! ## byte addresses and pieces -/

/-- chunk number holding byte `q` of the element, as `HMCPread/HMCPwrite` compute it -/
def chunkNumAt (dd : List DimRec) (nt q : Nat) : Nat :=
  calculateChunkNum dd (updateChunkIndicesSeek dd nt q).1

/-- `read_seek`/`write_seek` for byte position `q` (start of the element containing `q`) -/
def seekAt (dd : List DimRec) (nt q : Nat) : Nat :=
  calculateSeekInChunk dd nt (updateChunkIndicesSeek dd nt q).2

/-- SPEC: where byte `q` of the flat element lives: (chunk number, byte offset inside that chunk's buffer) -/
def byteAddr (dd : List DimRec) (nt q : Nat) : Nat × Nat :=
  (chunkNumAt dd nt q, seekAt dd nt q + q % nt)

/-- elements left, from element number `x` on, in the current chunk row of the fastest dimension
    (`last_chunk_length - spb` in the last chunk, `chunk_length - spb` otherwise) -/
def rowRem (dd : List DimRec) (x : Nat) : Nat :=
  let dl := dd.getLastD default
  let a := x % dl.dimLength
  (if a / dl.chunkLength + 1 = dl.numChunks then dl.lastChunkLength else dl.chunkLength) - a % dl.chunkLength

theorem rowRem_facts {dd : List DimRec} (h : DDWF dd) (hne : dd ≠ []) (x : Nat) :
    let dl := dd.getLastD default
    let a := x % dl.dimLength
    0 < rowRem dd x ∧ a % dl.chunkLength + rowRem dd x ≤ dl.chunkLength ∧ a + rowRem dd x ≤ dl.dimLength := by
  intro dl a
  have hw : dl.WF := h _ (getLastD_mem hne _)
  have ha : a < dl.dimLength := Nat.mod_lt _ hw.dim_pos
  obtain ⟨f1, f2, f3, f4⟩ := hw.idx ha
  obtain ⟨hc, hl, hlc, hn, hd⟩ := hw
  show 0 < (if a / dl.chunkLength + 1 = dl.numChunks then dl.lastChunkLength else dl.chunkLength) - a % dl.chunkLength ∧ _ ∧ _
  unfold rowRem
  simp only []
  by_cases he : a / dl.chunkLength + 1 = dl.numChunks
  · have := f3 he
    have hdm := Nat.div_add_mod a dl.chunkLength
    have e : a / dl.chunkLength = dl.numChunks - 1 := by omega
    rw [e, Nat.mul_comm] at hdm
    simp only [dl, a] at *
    simp only [he, if_true]
    omega
  · have := f4 he
    simp only [dl, a] at *
    simp only [he, if_false]
    omega

/-- `calculate_chunk_for_chunk` on indices produced by `update_chunk_indices_seek`: the piece is the smaller of
    what is left of the transfer and what is left of the chunk row (in bytes) -/
theorem cfc_eq {dd : List DimRec} (h : DDWF dd) (hne : dd ≠ []) (nt len done x : Nat) (hd : done ≤ len) :
    calculateChunkForChunk dd nt len done (ucisLoop dd x).2.1 (ucisLoop dd x).2.2
      = ((min (len - done) (rowRem dd x * nt) : Nat) : Int) := by
  obtain ⟨r1, r2, r3⟩ := rowRem_facts h hne x
  obtain ⟨l1, l2⟩ := ucisLoop_last hne x default 0 0
  unfold calculateChunkForChunk
  simp only [l1, l2]
  unfold rowRem at r1 r2 r3 ⊢
  simp only [] at r1 r2 r3 ⊢
  generalize (dd.getLastD default) = dl at *
  generalize x % dl.dimLength = a at *
  simp only [beq_iff_eq]
  by_cases he : a / dl.chunkLength + 1 = dl.numChunks
  · simp only [he, if_true] at r1 r2 r3 ⊢
    have e : ((dl.lastChunkLength : Int) - ((a % dl.chunkLength : Nat) : Int)) * (nt : Int)
        = (((dl.lastChunkLength - a % dl.chunkLength) * nt : Nat) : Int) := by
      rw [Int.natCast_mul, Int.natCast_sub (by omega)]
    rw [e]
    generalize (dl.lastChunkLength - a % dl.chunkLength) * nt = z
    omega
  · simp only [he, if_false] at r1 r2 r3 ⊢
    have e : ((dl.chunkLength : Int) - ((a % dl.chunkLength : Nat) : Int)) * (nt : Int)
        = (((dl.chunkLength - a % dl.chunkLength) * nt : Nat) : Int) := by
      rw [Int.natCast_mul, Int.natCast_sub (by omega)]
    rw [e]
    generalize (dl.chunkLength - a % dl.chunkLength) * nt = z
    omega

/-- the bytes of a chunk row map to consecutive addresses of ONE chunk buffer -/
theorem row_contig {dd : List DimRec} (h : DDWF dd) (hne : dd ≠ []) {nt : Nat} (hnt : 0 < nt) {p : Nat}
    (hal : p % nt = 0) {j : Nat} (hj : j < rowRem dd (p / nt) * nt) :
    byteAddr dd nt (p + j) = (chunkNumAt dd nt p, seekAt dd nt p + j) := by
  obtain ⟨r1, r2, r3⟩ := rowRem_facts h hne (p / nt)
  have hm : j / nt < rowRem dd (p / nt) := (Nat.div_lt_iff_lt_mul hnt).2 hj
  have hp : p = p / nt * nt := by have := Nat.div_add_mod p nt; rw [hal, Nat.mul_comm] at this; omega
  have e1 : (p + j) / nt = p / nt + j / nt := by
    conv => lhs; rw [hp, Nat.add_comm, Nat.add_mul_div_right _ _ hnt]
    omega
  have e2 : (p + j) % nt = j % nt := by
    conv => lhs; rw [hp, Nat.add_comm, Nat.add_mul_mod_self_right]
  have ha := ucisLoop_add hne (p / nt) (j / nt) default (by omega) (by omega)
  unfold byteAddr chunkNumAt seekAt updateChunkIndicesSeek calculateSeekInChunk
  rw [e1, e2, ha]
  simp only []
  rw [lin_addLast (by simp [(ucisLoop_length dd (p / nt)).2]) (by simpa using hne)]
  have := Nat.div_add_mod j nt
  congr 1
  grind

/-- a byte position and the start of its element have the same chunk number and seek -/
theorem addr_floor (dd : List DimRec) {nt : Nat} (hnt : 0 < nt) (p : Nat) :
    (p - p % nt) % nt = 0 ∧ (p - p % nt) / nt = p / nt ∧
    chunkNumAt dd nt (p - p % nt) = chunkNumAt dd nt p ∧ seekAt dd nt (p - p % nt) = seekAt dd nt p := by
  have hdm := Nat.div_add_mod p nt
  have e : p - p % nt = nt * (p / nt) := by omega
  have e2 : (p - p % nt) / nt = p / nt := by rw [e, Nat.mul_div_cancel_left _ hnt]
  refine ⟨by rw [e, Nat.mul_mod_right], e2, ?_, ?_⟩
  · unfold chunkNumAt updateChunkIndicesSeek; rw [e2]
  · unfold seekAt updateChunkIndicesSeek; rw [e2]

/-- `row_contig` from ANY byte position `p` (inside an element or not): byte `p + j` lives `p % nt + j` bytes after the
    seek of `p`'s element, as long as the chunk row is not left -/
theorem row_contig_any {dd : List DimRec} (h : DDWF dd) (hne : dd ≠ []) {nt : Nat} (hnt : 0 < nt) {p j : Nat}
    (hj : p % nt + j < rowRem dd (p / nt) * nt) :
    byteAddr dd nt (p + j) = (chunkNumAt dd nt p, seekAt dd nt p + p % nt + j) := by
  obtain ⟨f1, f2, f3, f4⟩ := addr_floor dd hnt p
  have hml := Nat.mod_le p nt
  have := row_contig h hne hnt f1 (j := p % nt + j) (by rw [f2]; exact hj)
  rw [show p - p % nt + (p % nt + j) = p + j by omega, f3, f4] at this
  rw [this, Nat.add_assoc]

/-! ## the piece walk -/

/-- `ps` cuts the byte range `[rp, rp+n)` into consecutive non-empty pieces, each of which occupies consecutive
    addresses of one chunk buffer, namely the addresses `addr` assigns to its bytes -/
def Tiles (addr : Nat → Nat × Nat) : Nat → List Piece → Nat → Prop
  | _, [], n => n = 0
  | rp, pc :: ps, n => pc.pos = rp ∧ 0 < pc.size ∧ pc.size ≤ n ∧
      (∀ j, j < pc.size → addr (rp + j) = (pc.chunk, pc.seek + j)) ∧ Tiles addr (rp + pc.size) ps (n - pc.size)

theorem walkLoop_done (dd : List DimRec) (nt len fuel rp done : Nat) (sbi spb : List Nat) (h : len ≤ done) :
    walkLoop dd nt len fuel rp done sbi spb = [] := by
  cases fuel with
  | zero => rfl
  | succ f => rw [walkLoop]; simp [Nat.not_lt.2 h]

theorem walkLoop_tiles {dd : List DimRec} (h : DDWF dd) (hne : dd ≠ []) {nt : Nat} (hnt : 0 < nt) (len : Nat) :
    ∀ (fuel rp done : Nat), done ≤ len → len - done ≤ fuel →
    Tiles (byteAddr dd nt) rp
      (walkLoop dd nt len fuel rp done (updateChunkIndicesSeek dd nt rp).1 (updateChunkIndicesSeek dd nt rp).2)
      (len - done) := by
  intro fuel
  induction fuel with
  | zero => intro rp done _ h2; simp only [walkLoop, Tiles]; omega
  | succ fuel ih =>
    intro rp done h1 h2
    rw [walkLoop]
    by_cases hlt : done < len
    · simp only [hlt, if_true]
      have hoff : rp % nt < nt := Nat.mod_lt _ hnt
      have hk := cfc_eq h hne nt (len + rp % nt) done (rp / nt) (by omega)
      obtain ⟨r1, _, _⟩ := rowRem_facts h hne (rp / nt)
      have hrow : nt ≤ rowRem dd (rp / nt) * nt := Nat.le_mul_of_pos_left _ r1
      simp only [updateChunkIndicesSeek] at hk ⊢
      simp only [hk]
      generalize hkd : min (len + rp % nt - done) (rowRem dd (rp / nt) * nt) = k0 at *
      have hto : ((k0 : Int) - ((rp % nt : Nat) : Int)).toNat = k0 - rp % nt := by omega
      have hnot : ¬ ((k0 : Int) - ((rp % nt : Nat) : Int) ≤ 0) := by omega
      simp only [hnot, if_false, hto, Tiles]
      refine ⟨trivial, by omega, by omega, ?_, ?_⟩
      · intro j hj
        have := row_contig_any h hne hnt (p := rp) (j := j) (by omega)
        simpa [chunkNumAt, seekAt, updateChunkIndicesSeek] using this
      · by_cases hfin : k0 - rp % nt = len - done
        · rw [walkLoop_done _ _ _ _ _ _ _ _ (by omega)]
          simp only [Tiles]; omega
        · have := ih (rp + (k0 - rp % nt)) (done + (k0 - rp % nt)) (by omega) (by omega)
          simp only [updateChunkIndicesSeek] at this
          rw [show len - done - (k0 - rp % nt) = len - (done + (k0 - rp % nt)) by omega]
          exact this
    · simp only [hlt, if_false, Tiles]; omega

theorem walk_tiles {dd : List DimRec} (h : DDWF dd) (hne : dd ≠ []) {nt : Nat} (hnt : 0 < nt)
    (pos len : Nat) : Tiles (byteAddr dd nt) pos (walk dd nt pos len) len := by
  have := walkLoop_tiles h hne hnt len len pos 0 (by omega) (by omega)
  simpa [walk] using this

/-- chunk-buffer addresses touched by one piece, in `memcpy` order -/
def Piece.addrs (pc : Piece) : List (Nat × Nat) := (List.range' pc.seek pc.size).map fun o => (pc.chunk, o)

theorem tiles_positions {addr : Nat → Nat × Nat} : ∀ {ps : List Piece} {rp n : Nat}, Tiles addr rp ps n →
    ps.flatMap (fun pc => List.range' pc.pos pc.size) = List.range' rp n
  | [], _, _, h => by simp only [Tiles] at h; simp [h]
  | pc :: ps, rp, n, h => by
    obtain ⟨h1, _, h3, _, h5⟩ := h
    rw [List.flatMap_cons, tiles_positions h5, h1]
    have := @List.range'_append rp pc.size (n - pc.size) 1
    simp only [Nat.one_mul] at this
    rw [this]; congr 1; omega

theorem tiles_addrs {addr : Nat → Nat × Nat} : ∀ {ps : List Piece} {rp n : Nat}, Tiles addr rp ps n →
    ps.flatMap Piece.addrs = (List.range' rp n).map addr
  | [], _, _, h => by simp only [Tiles] at h; simp [h]
  | pc :: ps, rp, n, h => by
    obtain ⟨_, _, h3, h4, h5⟩ := h
    rw [List.flatMap_cons, tiles_addrs h5]
    have e : Piece.addrs pc = (List.range' rp pc.size).map addr := by
      unfold Piece.addrs
      exact map_range'_congr _ _ _ _ _ (fun j hj => (h4 j hj).symm)
    rw [e, ← List.map_append]
    have := @List.range'_append rp pc.size (n - pc.size) 1
    simp only [Nat.one_mul] at this
    rw [this]; congr 2; omega

theorem tiles_sizes {addr : Nat → Nat × Nat} : ∀ {ps : List Piece} {rp n : Nat}, Tiles addr rp ps n →
    (ps.map (·.size)).sum = n
  | [], _, _, h => by simp only [Tiles] at h; simp [h]
  | pc :: ps, rp, n, h => by
    obtain ⟨_, _, h3, _, h5⟩ := h
    simp only [List.map_cons, List.sum_cons, tiles_sizes h5]; omega

/-! ## chunk store refines a flat byte array -/

theorem byteAddr_inj {dd : List DimRec} (h : DDWF dd) {nt : Nat} (hnt : 0 < nt) {q1 q2 : Nat}
    (h1 : q1 < (dimsOf dd).prod * nt) (h2 : q2 < (dimsOf dd).prod * nt)
    (he : byteAddr dd nt q1 = byteAddr dd nt q2) : q1 = q2 := by
  unfold byteAddr chunkNumAt seekAt updateChunkIndicesSeek calculateSeekInChunk at he
  obtain ⟨hc, hs⟩ := Prod.mk.inj he
  have m1 := Nat.mod_lt q1 hnt
  have m2 := Nat.mod_lt q2 hnt
  rw [Nat.add_comm _ (q1 % nt), Nat.add_comm _ (q2 % nt)] at hs
  obtain ⟨e1, e2⟩ := add_mul_inj m1 m2 hs
  have x1 : q1 / nt < (dimsOf dd).prod := (Nat.div_lt_iff_lt_mul hnt).2 h1
  have x2 : q2 / nt < (dimsOf dd).prod := (Nat.div_lt_iff_lt_mul hnt).2 h2
  have := elem_addr_inj h x1 x2 hc e2
  have d1 := Nat.div_add_mod q1 nt
  have d2 := Nat.div_add_mod q2 nt
  rw [this, e1] at d1
  omega

/-- the chunk buffers `st` hold the flat byte array `f` (of `total` bytes) -/
def Sim (dd : List DimRec) (nt total : Nat) (st : Store) (f : Nat → UInt8) : Prop :=
  ∀ q, q < total → st.get (byteAddr dd nt q).1 (byteAddr dd nt q).2 = f q

/-- SPEC: writing `data` at byte `pos` of a flat byte array -/
def flatWrite (f : Nat → UInt8) (pos : Nat) (data : List UInt8) : Nat → UInt8 :=
  fun q => if pos ≤ q ∧ q < pos + data.length then data.getD (q - pos) 0 else f q

theorem copyIn_get (st : Store) (c o : Nat) (bs : List UInt8) (c' o' : Nat) :
    (st.copyIn c o bs).get c' o' =
      if c' = c ∧ o ≤ o' ∧ o' < o + bs.length then bs.getD (o' - o) 0 else st.get c' o' := by
  simp [Store.copyIn, Array.getD, List.getD]
  split <;> rename_i hh
  · have : o' - o < bs.length := by omega
    simp [this]
  · rfl

theorem flatWrite_split (f : Nat → UInt8) (rp k : Nat) (data : List UInt8) (hk : k ≤ data.length) (q : Nat) :
    flatWrite (flatWrite f rp (data.take k)) (rp + k) (data.drop k) q = flatWrite f rp data q := by
  unfold flatWrite
  simp only [List.length_take, List.length_drop, List.getD_eq_getElem?_getD, List.getElem?_drop, List.getElem?_take,
    Nat.min_eq_left hk]
  by_cases c1 : rp + k ≤ q ∧ q < rp + k + (data.length - k)
  · have c2 : rp ≤ q ∧ q < rp + data.length := by omega
    simp only [c1, c2, and_self, if_true]
    congr 2; omega
  · simp only [c1, if_false]
    by_cases c3 : rp ≤ q ∧ q < rp + k
    · have c2 : rp ≤ q ∧ q < rp + data.length := by omega
      have c4 : q - rp < k := by omega
      simp [c2, c3, c4]
    · have c2 : ¬ (rp ≤ q ∧ q < rp + data.length) := by omega
      simp [c2, c3]

theorem sim_piece {dd : List DimRec} (h : DDWF dd) {nt : Nat} (hnt : 0 < nt) {st : Store} {f : Nat → UInt8}
    (hs : Sim dd nt ((dimsOf dd).prod * nt) st f) {rp c sk : Nat} {bs : List UInt8}
    (ha : ∀ j, j < bs.length → byteAddr dd nt (rp + j) = (c, sk + j))
    (hr : rp + bs.length ≤ (dimsOf dd).prod * nt) :
    Sim dd nt ((dimsOf dd).prod * nt) (st.copyIn c sk bs) (flatWrite f rp bs) := by
  intro q hq
  rw [copyIn_get]
  unfold flatWrite
  by_cases hin : rp ≤ q ∧ q < rp + bs.length
  · have := ha (q - rp) (by omega)
    rw [show rp + (q - rp) = q by omega] at this
    rw [this]
    have c1 : c = c ∧ sk ≤ sk + (q - rp) ∧ sk + (q - rp) < sk + bs.length := by omega
    simp only [c1, hin, and_self, if_true]
    congr 1; omega
  · simp only [hin, if_false]
    by_cases hit : (byteAddr dd nt q).1 = c ∧ sk ≤ (byteAddr dd nt q).2 ∧ (byteAddr dd nt q).2 < sk + bs.length
    · exfalso
      have hj : (byteAddr dd nt q).2 - sk < bs.length := by omega
      have := ha _ hj
      have e : byteAddr dd nt q = byteAddr dd nt (rp + ((byteAddr dd nt q).2 - sk)) := by
        rw [this]; apply Prod.ext
        · exact hit.1
        · simp only []; omega
      have := byteAddr_inj h hnt hq (by omega) e
      omega
    · simp only [hit, if_false]
      exact hs q hq

theorem write_sim {dd : List DimRec} (h : DDWF dd) {nt : Nat} (hnt : 0 < nt) :
    ∀ {ps : List Piece} {rp : Nat} {data : List UInt8} {st : Store} {f : Nat → UInt8},
    Tiles (byteAddr dd nt) rp ps data.length → rp + data.length ≤ (dimsOf dd).prod * nt →
    Sim dd nt ((dimsOf dd).prod * nt) st f →
    Sim dd nt ((dimsOf dd).prod * nt) (writePieces st ps data) (flatWrite f rp data)
  | [], rp, data, st, f, ht, _, hs => by
    simp only [Tiles] at ht
    intro q hq
    simp only [writePieces, flatWrite, ht]
    rw [hs q hq]
    have : ¬ (rp ≤ q ∧ q < rp + 0) := by omega
    simp only [this, if_false]
  | pc :: ps, rp, data, st, f, ht, hr, hs => by
    obtain ⟨_, h2, h3, h4, h5⟩ := ht
    have hlen : (data.take pc.size).length = pc.size := by simp [List.length_take]; omega
    have s1 := sim_piece h hnt hs (rp := rp) (c := pc.chunk) (sk := pc.seek) (bs := data.take pc.size)
      (by rw [hlen]; exact h4) (by rw [hlen]; omega)
    have h5' : Tiles (byteAddr dd nt) (rp + pc.size) ps (data.drop pc.size).length := by
      rw [List.length_drop]; exact h5
    have s2 := write_sim h hnt h5' (by rw [List.length_drop]; omega) s1
    intro q hq
    rw [writePieces, s2 q hq, flatWrite_split f rp pc.size data h3 q]

theorem read_sim {dd : List DimRec} {nt total : Nat} {st : Store} {f : Nat → UInt8} (hs : Sim dd nt total st f) :
    ∀ {ps : List Piece} {rp n : Nat}, Tiles (byteAddr dd nt) rp ps n → rp + n ≤ total →
    readPieces st ps = (List.range' rp n).map f
  | [], _, _, ht, _ => by simp only [Tiles] at ht; simp [readPieces, ht]
  | pc :: ps, rp, n, ht, hr => by
    obtain ⟨_, _, h3, h4, h5⟩ := ht
    have ih := read_sim hs h5 (by omega)
    unfold readPieces at ih ⊢
    rw [List.flatMap_cons, ih]
    have e : st.copyOut pc.chunk pc.seek pc.size = (List.range' rp pc.size).map f := by
      unfold Store.copyOut
      apply map_range'_congr
      intro j hj
      have := hs (rp + j) (by omega)
      rw [h4 j hj] at this
      exact this
    rw [e, ← List.map_append]
    have := @List.range'_append rp pc.size (n - pc.size) 1
    simp only [Nat.one_mul] at this
    rw [this]; congr 2; omega

theorem sim_init {dd : List DimRec} {nt total : Nat} {fill : List UInt8} (hf : fill.length ∣ nt) :
    Sim dd nt total (initStore fill) (fillAt fill) := by
  intro q _
  obtain ⟨t, ht⟩ := hf
  simp only [initStore, fillAt, byteAddr, seekAt, calculateSeekInChunk]
  congr 1
  rw [ht, Nat.mul_comm fill.length t, ← Nat.mul_assoc, Nat.add_comm, Nat.add_mul_mod_self_right,
    ← Nat.mul_comm fill.length t]
  exact Nat.mod_mul_right_mod _ _ _

/-! ## array indices ↔ (chunk indices, position in chunk) -/

/-- `(sbi, spb)` names a real (non-ghost) cell: chunk index below `num_chunks`, position below `chunk_length`
    and, in the last chunk of a dimension, below `last_chunk_length` -/
def CoordOK : List DimRec → List Nat → List Nat → Prop
  | [], [], [] => True
  | d :: ds, b :: bs, p :: ps =>
    b < d.numChunks ∧ p < d.chunkLength ∧ (b + 1 = d.numChunks → p < d.lastChunkLength) ∧ CoordOK ds bs ps
  | _, _, _ => False

instance : (dd : List DimRec) → (sbi spb : List Nat) → Decidable (CoordOK dd sbi spb)
  | [], [], [] => isTrue trivial
  | d :: ds, b :: bs, p :: ps => by
    have := instDecidableCoordOK ds bs ps
    unfold CoordOK; infer_instance
  | [], _ :: _, _ => isFalse (by simp [CoordOK])
  | [], [], _ :: _ => isFalse (by simp [CoordOK])
  | _ :: _, [], _ => isFalse (by simp [CoordOK])
  | _ :: _, _ :: _, [] => isFalse (by simp [CoordOK])

theorem c2a_of_array {dd : List DimRec} (h : DDWF dd) {arr : List Nat} (ha : Below arr (dimsOf dd)) :
    computeChunkToArray dd (sbiOf dd arr) (spbOf dd arr) = arr := by
  induction dd generalizing arr with
  | nil => cases arr <;> simp_all [Below, computeChunkToArray]
  | cons d ds ih =>
    cases arr with
    | nil => simp [Below] at ha
    | cons a as =>
      rw [ddwf_cons] at h
      simp only [List.map_cons, Below] at ha
      obtain ⟨_, _, f3, _⟩ := h.1.idx ha.1
      have hdm := Nat.div_add_mod a d.chunkLength
      simp only [computeChunkToArray, sbiOf, spbOf, List.headD_cons, List.tail_cons, ih h.2 ha.2, beq_iff_eq]
      congr 1
      by_cases he : a / d.chunkLength + 1 = d.numChunks
      · have := f3 he
        have hn : ¬ (a % d.chunkLength > d.lastChunkLength) := by omega
        simp only [he, if_true, hn, if_false]
        rw [Nat.mul_comm]; exact hdm
      · simp only [he, if_false]
        rw [Nat.mul_comm]; exact hdm

theorem c2a_cons (d : DimRec) (ds : List DimRec) (b : Nat) (bs : List Nat) (p : Nat) (ps : List Nat) :
    computeChunkToArray (d :: ds) (b :: bs) (p :: ps) =
      (if b + 1 = d.numChunks then b * d.chunkLength + (if p > d.lastChunkLength then d.lastChunkLength else p)
       else b * d.chunkLength + p) :: computeChunkToArray ds bs ps := by
  simp [computeChunkToArray]

theorem array_of_coord {dd : List DimRec} (h : DDWF dd) {sbi spb : List Nat} (hc : CoordOK dd sbi spb) :
    Below (computeChunkToArray dd sbi spb) (dimsOf dd) ∧
    sbiOf dd (computeChunkToArray dd sbi spb) = sbi ∧ spbOf dd (computeChunkToArray dd sbi spb) = spb := by
  induction dd generalizing sbi spb with
  | nil => cases sbi <;> cases spb <;> simp_all [CoordOK, Below, computeChunkToArray, sbiOf, spbOf]
  | cons d ds ih =>
    cases sbi with
    | nil => simp [CoordOK] at hc
    | cons b bs =>
      cases spb with
      | nil => simp [CoordOK] at hc
      | cons p ps =>
        rw [ddwf_cons] at h
        obtain ⟨c1, c2, c3, c4⟩ := hc
        obtain ⟨i1, i2, i3⟩ := ih h.2 c4
        obtain ⟨hcp, hl, hlc, hn, hd⟩ := h.1
        have ea : (if b + 1 = d.numChunks then
            b * d.chunkLength + (if p > d.lastChunkLength then d.lastChunkLength else p)
            else b * d.chunkLength + p) = p + b * d.chunkLength := by
          by_cases he : b + 1 = d.numChunks
          · have := c3 he
            have hn : ¬ (p > d.lastChunkLength) := by omega
            simp only [he, if_true, hn, if_false]; omega
          · simp only [he, if_false]; omega
        rw [c2a_cons, ea]
        simp only [List.map_cons, Below, sbiOf, spbOf,
          i2, i3, Nat.add_mul_div_right _ _ hcp, Nat.add_mul_mod_self_right, Nat.div_eq_of_lt c2,
          Nat.mod_eq_of_lt c2, Nat.zero_add]
        refine ⟨⟨?_, i1⟩, trivial, trivial⟩
        by_cases he : b + 1 = d.numChunks
        · have := c3 he
          have : b = d.numChunks - 1 := by omega
          rw [this]; omega
        · have hle : b + 1 ≤ d.numChunks - 1 := by omega
          have := Nat.mul_le_mul_right d.chunkLength hle
          have e : (b + 1) * d.chunkLength = b * d.chunkLength + d.chunkLength := by grind
          omega

theorem coord_of_array {dd : List DimRec} (h : DDWF dd) {arr : List Nat} (ha : Below arr (dimsOf dd)) :
    CoordOK dd (sbiOf dd arr) (spbOf dd arr) := by
  induction dd generalizing arr with
  | nil => cases arr <;> simp_all [Below, CoordOK, sbiOf, spbOf]
  | cons d ds ih =>
    cases arr with
    | nil => simp [Below] at ha
    | cons a as =>
      rw [ddwf_cons] at h
      simp only [List.map_cons, Below] at ha
      obtain ⟨f1, f2, f3, _⟩ := h.1.idx ha.1
      exact ⟨f1, f2, f3, ih h.2 ha.2⟩

theorem tiles_pos {addr : Nat → Nat × Nat} : ∀ {ps : List Piece} {rp n : Nat}, Tiles addr rp ps n →
    ∀ pc ∈ ps, 0 < pc.size
  | [], _, _, _ => by simp
  | pc :: ps, rp, n, h => by
    obtain ⟨_, h2, _, _, h5⟩ := h
    intro x hx
    rcases List.mem_cons.mp hx with rfl | hx
    · exact h2
    · exact tiles_pos h5 x hx

/-- the chunk row ends either at the end of the chunk or (partial last chunk) at the end of the dimension -/
theorem rowRem_max {dd : List DimRec} (h : DDWF dd) (hne : dd ≠ []) (x : Nat) :
    let dl := dd.getLastD default
    let a := x % dl.dimLength
    a % dl.chunkLength + rowRem dd x = dl.chunkLength ∨ a + rowRem dd x = dl.dimLength := by
  intro dl a
  have hw : dl.WF := h _ (getLastD_mem hne _)
  have ha : a < dl.dimLength := Nat.mod_lt _ hw.dim_pos
  obtain ⟨f1, f2, f3, f4⟩ := hw.idx ha
  obtain ⟨hc, hl, hlc, hn, hd⟩ := hw
  unfold rowRem
  simp only []
  by_cases he : a / dl.chunkLength + 1 = dl.numChunks
  · right
    have := f3 he
    have hdm := Nat.div_add_mod a dl.chunkLength
    have e : a / dl.chunkLength = dl.numChunks - 1 := by omega
    rw [e, Nat.mul_comm] at hdm
    simp only [dl, a] at *
    simp only [he, if_true]
    omega
  · left
    simp only [dl, a] at *
    simp only [he, if_false]
    omega

/-- everything the piece length `calculate_chunk_for_chunk(len + elem_off, …) - elem_off` guarantees at ANY byte
    position `p` with bytes remaining (`elem_off = p % nt_size`) -/
theorem piece_props {dd : List DimRec} (hw : DDWF dd) (hne : dd ≠ []) {nt : Nat} (hnt : 0 < nt)
    (p len done : Nat) (hrem : done < len) :
    ∃ k : Nat, calculateChunkForChunk dd nt (len + p % nt) done (updateChunkIndicesSeek dd nt p).1
        (updateChunkIndicesSeek dd nt p).2 - ((p % nt : Nat) : Int) = (k : Int) ∧
      0 < k ∧ k ≤ len - done ∧
      ((p / nt) % (dd.getLastD default).dimLength % (dd.getLastD default).chunkLength) * nt + p % nt + k
        ≤ (dd.getLastD default).chunkLength * nt ∧
      ((p / nt) % (dd.getLastD default).dimLength) * nt + p % nt + k ≤ (dd.getLastD default).dimLength * nt ∧
      (k = len - done ∨
       ((p / nt) % (dd.getLastD default).dimLength % (dd.getLastD default).chunkLength) * nt + p % nt + k
          = (dd.getLastD default).chunkLength * nt ∨
       ((p / nt) % (dd.getLastD default).dimLength) * nt + p % nt + k = (dd.getLastD default).dimLength * nt) ∧
      ∀ j, j < k → byteAddr dd nt (p + j) = (chunkNumAt dd nt p, seekAt dd nt p + p % nt + j) := by
  obtain ⟨r1, r2, r3⟩ := rowRem_facts hw hne (p / nt)
  have rm := rowRem_max hw hne (p / nt)
  dsimp only at rm
  have hoff : p % nt < nt := Nat.mod_lt _ hnt
  have hk := cfc_eq hw hne nt (len + p % nt) done (p / nt) (by omega)
  have hrow : nt ≤ rowRem dd (p / nt) * nt := Nat.le_mul_of_pos_left _ r1
  refine ⟨min (len + p % nt - done) (rowRem dd (p / nt) * nt) - p % nt, ?_, ?_⟩
  · simp only [updateChunkIndicesSeek] at hk ⊢
    rw [hk]; omega
  have hcont : ∀ j, j < min (len + p % nt - done) (rowRem dd (p / nt) * nt) - p % nt →
      byteAddr dd nt (p + j) = (chunkNumAt dd nt p, seekAt dd nt p + p % nt + j) :=
    fun j hj => row_contig_any hw hne hnt (by omega)
  refine ⟨by omega, by omega, ?_, ?_, ?_, hcont⟩
  all_goals
    clear hcont hk
    generalize dd.getLastD default = dl at *
    generalize (p / nt) % dl.dimLength = a at *
    generalize rowRem dd (p / nt) = R at *
    generalize p % nt = off at *
    have e2 : (a % dl.chunkLength + R) * nt = a % dl.chunkLength * nt + R * nt := by grind
    have e3 : (a + R) * nt = a * nt + R * nt := by grind
    have m2 := Nat.mul_le_mul_right nt r2
    have m3 := Nat.mul_le_mul_right nt r3
  · omega
  · omega
  · by_cases hmin : len + off - done ≤ R * nt
    · left; omega
    · right
      rcases rm with rm | rm
      · left
        have h := congrArg (· * nt) rm
        omega
      · right
        have h := congrArg (· * nt) rm
        omega

end H4.Chunk
