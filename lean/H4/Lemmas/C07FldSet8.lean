import H4.Lemmas.C07FldSet7
/-! `VSsetfields`: the write-list branch as a whole computes `buildWList` (`sfBuild_inner`). -/
namespace H4.Lemmas.C07Fld
open H4.Gen.Fn.Dfconv H4.Gen.Fn.Vsfld H4.VData H4.Gen.Hdf H4.Gen.Vs H4.C2L H4.VsfldEnc
set_option linter.unusedVariables false
set_option linter.unusedSimpArgs false

/-- what the write-list branch of `VSsetfields` never changes: its inputs, the symbol table, the read list -/
def sfRest (s : VSsetfields.St) :=
  ((s.av, s.ac, s.vs_usym_name, s.vs_usym_type, s.vs_usym_isize, s.vs_usym_order, s.vs_nusym),
   (s.vs_access, s.vs_nvertices, s.vs_rlist_n, s.vs_rlist_item, s.vs_rlist_item_null),
   (s.fields_null, s.w_null, s.vs_null, s.vkey_group, s.scan_ret, s.vkey))

theorem rest_of_frame {r s : VSsetfields.St} (h : sfFrame r = sfFrame s) : sfRest r = sfRest s := by
  simp only [sfFrame, Prod.mk.injEq] at h
  obtain ⟨⟨a1, a2, a3, a4, a5, a6, a7⟩, ⟨b1, b2, b3, b4, b5⟩, ⟨c1, c2, c3, c4, c5, c6⟩, ⟨d1, d2, d3, d4, d5, d6⟩, ⟨e1, e2, e3, e4⟩⟩ := h
  simp only [sfRest, a1, a2, a3, a4, a5, a6, a7, c1, c2, c3, c4, d3, d4, d5, d6, e2, e3, e4]

theorem offsFrom_getD (o : Nat) (fs : List Field) (j : Nat) (hj : j < fs.length) :
    (offsFrom o fs).getD j default = { fs.getD j default with off := o + pre (fs.map (·.isize)) j } := by
  induction fs generalizing o j with
  | nil => simp at hj
  | cons f t ih =>
    cases j with
    | zero => simp [offsFrom, pre]
    | succ j =>
      simp only [offsFrom, List.getD_cons_succ]
      rw [ih _ _ (by simpa using hj)]
      simp only [pre, List.map_cons, List.take_succ_cons, List.sum_cons]
      congr 1; omega


/-- the write-list branch of `VSsetfields` (`vs->access == 'w'`, no records, no fields yet) computes `buildWList`: on success
    the five arrays in `bptr`, the names, `n`, `ivsize` are the model's write list; on failure it leaves `goto done` with
    `building = TRUE`, `ret_value = FAIL` -/
theorem sfBuild_inner (usym : List SymDef) (names : List String) (pads : List (List Int)) (fuel : Nat) (s : VSsetfields.St)
    (hcl : SfClean s) (hub : s.ub = false) (hoof : s.oof = false) (hrv : s.ret_value = -1)
    (hpl : pads.length = names.length) (hnames : ∀ nm ∈ names, NameOK nm) (hus : ∀ sd ∈ usym, sd.Valid ∧ NameOK sd.name)
    (hav : s.av = avRows names pads) (hac : s.ac = names.length) (hn1 : 1 ≤ names.length) (hn2 : names.length ≤ 256)
    (u1 : s.vs_usym_name = nameRows usym) (u2 : s.vs_usym_type = typeCol usym) (u3 : s.vs_usym_isize = isizeCol usym)
    (u4 : s.vs_usym_order = orderCol usym) (hnu : s.vs_nusym = usym.length) (hf : names.length + usym.length + 9 ≤ fuel) :
    let r := sfBFin fuel (sfBOffs fuel (sfBFields fuel (sfBFlag fuel (sfBNull fuel (sfBInit fuel s)))))
    r.gto = true ∧ r.brk = false ∧ r.cnt = false ∧ r.ub = false ∧ r.oof = false ∧ sfRest r = sfRest s ∧
    match buildWList usym names with
    | some w => r.ret_value = 0 ∧ r.building = 0 ∧ r.vs_marked = 1 ∧ r.vs_new_h_sz = 1 ∧ r.vs_wlist_n = w.n ∧
        r.vs_wlist_ivsize = w.ivsize ∧ r.vs_wlist_bptr = wBptr w ∧ r.vs_wlist_name = wNames w ∧
        r.vs_wlist_bptr_null = false ∧ r.vs_wlist_name_null = false ∧ r.vs_wlist_type_i = 0 ∧ r.vs_wlist_off_i = w.n ∧
        r.vs_wlist_isize_i = 2 * w.n ∧ r.vs_wlist_order_i = 3 * w.n ∧ r.vs_wlist_esize_i = 4 * w.n
    | none => r.ret_value = -1 ∧ r.building = 1 ∧ r.vs_marked = s.vs_marked ∧ r.vs_new_h_sz = s.vs_new_h_sz := by
  intro r
  obtain ⟨h1, h2, h3⟩ := hcl
  have hr : r = sfBFin fuel (sfBOffs fuel (sfBFields fuel (sfBFlag fuel (sfBNull fuel (sfBInit fuel s))))) := rfl
  rw [sfBInit_spec fuel s ⟨h1, h2, h3⟩ names.length hac hn2] at hr
  set sI : VSsetfields.St := { s with vs_wlist_ivsize := 0, vs_wlist_n := 0, vs_wlist_bptr := List.replicate (5 * names.length) 170, vs_wlist_bptr_null := false, vs_wlist_type_i := 0, vs_wlist_off_i := names.length, vs_wlist_isize_i := 2 * names.length, vs_wlist_order_i := 3 * names.length, vs_wlist_esize_i := 4 * names.length, vs_wlist_name := List.replicate names.length [], vs_wlist_name_null := false } with hsI
  rw [sfBNull_spec fuel sI ⟨h1, h2, h3⟩ names.length hac (by show (List.replicate names.length ([] : List Int)).length = names.length; simp) (by omega)] at hr
  set sN : VSsetfields.St := { sI with i := names.length, vs_wlist_name := List.replicate names.length [] } with hsN
  rw [sfBFlag_spec fuel sN ⟨h1, h2, h3⟩] at hr
  set sa : VSsetfields.St := { sN with building := 1 } with hsa
  rw [sfBFields_eq fuel sa ⟨h1, h2, h3⟩] at hr
  set s0 : VSsetfields.St := { sa with i := 0 } with hs0
  have E : BEnv usym names pads s0 := ⟨hpl, hnames, hus, hav, hac, u1, u2, u3, u4, hnu, rfl, rfl, rfl, rfl, rfl⟩
  have I0 : BInv names s0 [] 0 s0 := ⟨rfl, ⟨h1, h2, h3⟩, hub, hoof, hrv, rfl, rfl, rfl, by omega,
    by show (List.replicate (5 * names.length) (170 : Int)).length = 5 * names.length; simp,
    by show (List.replicate names.length ([] : List Int)).length = names.length; simp,
    fun j hj => by simp at hj, fun j hj => by simp at hj⟩
  have hloop := l1_loop E names.length fuel s0 [] 0 I0 (by simp) (by omega)
  simp only [List.length_nil, List.drop_zero, List.reverse_nil] at hloop
  unfold buildWList
  cases hgo : buildWList.go usym names [] 0 with
  | none =>
    rw [hgo] at hloop
    simp only at hloop ⊢
    obtain ⟨g1, g2, g3, g4, g5, g6, g7⟩ := hloop
    have hg : (VSsetfields.St.set_brk (VSsetfields.loop1 fuel s0) false).gto = true := g1
    rw [sfBOffs_gto _ _ hg, sfBFin_gto _ _ hg] at hr
    have hfr : sfFrame r = sfFrame s0 := by rw [hr]; exact g5
    have hrest := rest_of_frame hfr
    simp only [sfFrame, Prod.mk.injEq] at hfr
    obtain ⟨_, _, ⟨_, _, _, _, c5, c6⟩, _, ⟨e1, _⟩⟩ := hfr
    refine ⟨by rw [hr]; exact g1, by rw [hr], by rw [hr]; exact g3, by rw [hr]; exact g6, by rw [hr]; exact g7, hrest, ?_, e1, c5, c6⟩
    rw [hr]; exact g4
  | some p =>
    obtain ⟨fs, iv⟩ := p
    rw [hgo] at hloop
    simp only at hloop ⊢
    obtain ⟨I, hlen⟩ := hloop
    set r1 := VSsetfields.loop1 fuel s0 with hr1
    obtain ⟨a1, a2, a3, a4, a5, a6, a7, b1, b2, b3, b4, b5⟩ := frame_fields I.fr
    obtain ⟨k1, k2, k3⟩ := I.cl
    rw [sfBOffs_eq fuel (VSsetfields.St.set_brk r1 false) ⟨k1, rfl, k3⟩] at hr
    have hspec := buildWList_go_spec usym (fun sd h => (hus sd h).1) names [] 0 (by simp) (by simp) fs iv hgo
    have hsum : iv = (fs.map (·.isize)).sum ∧ iv ≤ 65535 := by
      have hM : MAX_FIELD_SIZE = 65535 := by decide
      rcases hspec with ⟨_, q2, q3⟩ | ⟨q1, _, _⟩
      · exact ⟨q2, by omega⟩
      · exfalso; rw [q1] at hn1; simp at hn1
    rw [sf_loop4_spec names.length names.length fuel { VSsetfields.St.set_brk r1 false with uj := 0, i := 0 } (by omega) (by show r1.vs_wlist_n = _; rw [I.hn, hlen]) (by show (0 : Int) ≤ 0; omega)
      (by show (0 : Int).toNat + names.length = names.length; simp) k1 rfl k3 (by show r1.vs_wlist_off_i = _; rw [b2]) (by show r1.vs_wlist_isize_i = _; rw [b3])
      (by show r1.vs_wlist_bptr.length = _; exact I.hbl)] at hr
    have hO := offLoop_spec names.length (fs.map (·.isize)) (by simp [hlen]) (by rw [← hsum.1]; exact hsum.2) names.length 0 r1.vs_wlist_bptr (by omega) I.hbl
      (fun j hj => by
        have := (I.cells j (by omega)).2.1
        rw [this]; simp [hlen ▸ hj])
    simp only [pre, List.take_zero, List.sum_nil, Nat.cast_zero] at hO
    obtain ⟨o1, o2, o3⟩ := hO
    set B := (offLoop names.length names.length 0 0 r1.vs_wlist_bptr).1 with hB
    rw [sfBFin_ok _ _ (by exact ⟨k1, rfl, k3⟩)] at hr
    have hfields : (assignOffs fs).length = names.length := by rw [assignOffs_eq, offsFrom_length, hlen]
    refine ⟨by rw [hr], by rw [hr], by rw [hr]; exact k3, by rw [hr]; exact I.hub, by rw [hr]; exact I.hoof, ?_,
      by rw [hr], by rw [hr], by rw [hr], by rw [hr], ?_, by rw [hr]; exact I.hiv, ?_, ?_, ?_, ?_, ?_, ?_, ?_, ?_, ?_⟩
    · rw [hr]; show sfRest r1 = sfRest s0; exact rest_of_frame I.fr
    · rw [hr]; show r1.vs_wlist_n = _; rw [I.hn, hlen]; simp [WList.n, hfields]
    · -- the block
      rw [hr]
      show B = wBptr _
      unfold wBptr
      apply five_ext B _ _ _ _ _ names.length (by simp [hfields]) (by simp [hfields]) (by simp [hfields]) (by simp [hfields]) (by simp [hfields]) o1
      intro j hj
      have hjf : j < fs.length := by omega
      have hjw : j < (assignOffs fs).length := by omega
      obtain ⟨q1, q2, q3, q4⟩ := I.cells j hjf
      have hfj : (assignOffs fs).getD j default = { fs.getD j default with off := pre (fs.map (·.isize)) j } := by
        rw [assignOffs_eq, offsFrom_getD 0 fs j hjf]; simp
      have m : ∀ (g : Field → Int), ((assignOffs fs).map g).getD j 0 = g ((assignOffs fs).getD j default) := fun g => col_getD g _ j hjw default
      simp only [m, hfj]
      refine ⟨?_, ?_, ?_, ?_, ?_⟩
      · rw [o3 j (Or.inl (by omega)), q1]
      · rw [o2 j (by omega) hj]; rfl
      · rw [o3 (2 * names.length + j) (Or.inr (by omega)), q2]
      · rw [o3 (3 * names.length + j) (Or.inr (by omega)), q3]
      · rw [o3 (4 * names.length + j) (Or.inr (by omega)), q4]
    · -- the names
      rw [hr]
      show r1.vs_wlist_name = wNames _
      unfold wNames
      apply ext_getD _ _ [] (by rw [I.hnl]; simp [hfields])
      intro j hj
      rw [I.hnl] at hj
      have hjf : j < fs.length := by omega
      have hjw : j < (assignOffs fs).length := by omega
      rw [I.rows j hjf]
      have hfj : (assignOffs fs).getD j default = { fs.getD j default with off := pre (fs.map (·.isize)) j } := by
        rw [assignOffs_eq, offsFrom_getD 0 fs j hjf]; simp
      simp [List.getD_eq_getElem?_getD, hjw] at hfj ⊢
      rw [hfj]
    · rw [hr]; show r1.vs_wlist_bptr_null = false
      have := I.fr; simp only [sfFrame, Prod.mk.injEq] at this; exact this.2.2.2.1.1
    · rw [hr]; show r1.vs_wlist_name_null = false
      have := I.fr; simp only [sfFrame, Prod.mk.injEq] at this; exact this.2.2.2.1.2.1
    · rw [hr]; show r1.vs_wlist_type_i = 0; rw [b1]
    · rw [hr]; show r1.vs_wlist_off_i = _; rw [b2]; simp [WList.n, hfields]; exact E.c2
    · rw [hr]; show r1.vs_wlist_isize_i = _; rw [b3]; simp [WList.n, hfields]; exact E.c3
    · rw [hr]; show r1.vs_wlist_order_i = _; rw [b4]; simp [WList.n, hfields]; exact E.c4
    · rw [hr]; show r1.vs_wlist_esize_i = _; rw [b5]; simp [WList.n, hfields]; exact E.c5
end H4.Lemmas.C07Fld
