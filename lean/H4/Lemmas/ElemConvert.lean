import H4.Lemmas.ElemLinkedOp
import H4.Lemmas.ElemCoh
/-! `HLconvert`: promotion of a contiguous element to linked blocks leaves every byte string unchanged. -/
namespace H4.Elem
open H4.Gen.Hdf

theorem mkSpecial_user (t : Nat) (h : t < H4.Gen.Elem.SPECIAL_TAG_BIT) :
    mkSpecial t = t + H4.Gen.Elem.SPECIAL_TAG_BIT ∧ isSpecial (mkSpecial t) = true ∧ baseTag (mkSpecial t) = t ∧
    mkSpecial t ≠ DFTAG_NULL := by
  have h' : t < 16384 := h
  have e : mkSpecial t = t + 16384 := by
    unfold mkSpecial
    simp only [H4.Gen.Elem.EXTENDED_TAG_BIT, H4.Gen.Elem.SPECIAL_TAG_BIT]
    have h1 : t % (2 * 32768) < 32768 := by omega
    have h2 : ¬ (t / 16384 % 2 = 1) := by omega
    simp [h1, h2]
  have hs : isSpecial (t + 16384) = true := by rw [isSpecial_iff]; omega
  refine ⟨e, by rw [e]; exact hs, ?_, ?_⟩
  · rw [e]; unfold baseTag; rw [if_pos hs]; show t + 16384 - 16384 = t; omega
  · rw [e]; simp only [DFTAG_NULL]; omega

/-! ### `HTPdelete` -/

theorem ddDelete_dd (f : File) (i j : Nat) (hi : i < f.mem.length) :
    (f.ddDelete i).dd j = if j = i then { f.dd i with tag := DFTAG_NULL } else f.dd j := by
  unfold File.ddDelete
  have : (f.updateDD i).mem = f.mem := updateDD_mem f i
  rw [dd_set (f.updateDD i) _ i j _ rfl (by rw [this]; exact hi)]
  simp [updateDD_dd]
theorem ddDelete_disk (f : File) (i : Nat) : (f.ddDelete i).disk = f.disk := by
  unfold File.ddDelete; simp only; exact updateDD_disk f i
theorem ddDelete_links (f : File) (i : Nat) : (f.ddDelete i).links = f.links := by
  unfold File.ddDelete; simp only; exact updateDD_links f i
theorem ddDelete_ndds (f : File) (i : Nat) : (f.ddDelete i).ndds = f.ndds := by
  unfold File.ddDelete; simp only; exact updateDD_ndds f i
theorem ddDelete_present (f : File) (i : Nat) : (f.ddDelete i).present = f.present := by
  unfold File.ddDelete; simp only; exact updateDD_present f i
theorem ddDelete_endOff (f : File) (i : Nat) :
    (f.ddDelete i).endOff = match (f.dd i).ext with | some (o, l) => max f.endOff (o + l) | none => f.endOff := by
  unfold File.ddDelete; simp only; exact updateDD_endOff f i
theorem ddSetExt_present (f : File) (i : Nat) (e : Nat × Nat) : (f.ddSetExt i e).present = f.present := by
  unfold File.ddSetExt; exact updateDD_present _ i

/-- the data extent moves from the element's DD (slot `s`, deleted) to a fresh `DFTAG_LINKED` DD (slot `j`):
    what `Hdupdd` + `HTPdelete` do inside `HLconvert`/`HLcreate` -/
theorem moveExt_spec (f : File) (hw : WFF f) (s j off len : Nat) (hs : f.live s) (hj : f.live j) (hne : j ≠ s)
    (hes : (f.dd s).ext = some (off, len)) (hej : (f.dd j).ext = none) :
    let f' := (f.ddSetExt j (off, len)).ddDelete s
    WFF f' ∧ (∀ x, f'.dd x = if x = s then { f.dd s with tag := DFTAG_NULL } else if x = j then { f.dd j with ext := some (off, len) } else f.dd x) ∧
    f'.disk = f.disk ∧ f'.endOff = f.endOff ∧ f'.links = f.links ∧ f'.ndds = f.ndds ∧ f'.present = f.present := by
  intro f'
  have hjl := live_lt f j hj
  have hsl := live_lt f s hs
  have hle := hw.ext_le s off len hs hes
  have hdd : ∀ x, f'.dd x = if x = s then { f.dd s with tag := DFTAG_NULL } else if x = j then { f.dd j with ext := some (off, len) } else f.dd x := by
    intro x
    show ((f.ddSetExt j (off, len)).ddDelete s).dd x = _
    rw [ddDelete_dd _ s x (by unfold File.ddSetExt; rw [updateDD_mem]; simp; exact hsl)]
    rw [ddSetExt_dd f j s _ hjl, ddSetExt_dd f j x _ hjl]
    have : ¬ (s = j) := fun e => hne e.symm
    simp only [this, if_false]
  have hend : f'.endOff = f.endOff := by
    show ((f.ddSetExt j (off, len)).ddDelete s).endOff = _
    rw [ddDelete_endOff, ddSetExt_dd f j s _ hjl]
    have : ¬ (s = j) := fun e => hne e.symm
    simp only [this, if_false, hes, ddSetExt_endOff f j _ hjl]
    rw [Nat.max_eq_left (by omega : off + len ≤ f.endOff), Nat.max_eq_left (by omega : off + len ≤ f.endOff)]
  have hdisk : f'.disk = f.disk := by
    show ((f.ddSetExt j (off, len)).ddDelete s).disk = _
    rw [ddDelete_disk, ddSetExt_disk]
  refine ⟨?_, hdd, hdisk, hend, ?_, ?_, ?_⟩
  · have hlive : ∀ x, f'.live x ↔ (f.live x ∧ x ≠ s) := by
      intro x
      unfold File.live
      rw [hdd]
      by_cases e1 : x = s
      · subst e1; simp
      · by_cases e2 : x = j
        · subst e2; simp [e1]
        · simp [e1, e2]
    have hext : ∀ x o l, f'.live x → (f'.dd x).ext = some (o, l) → (x = j ∧ o = off ∧ l = len) ∨ (x ≠ j ∧ x ≠ s ∧ (f.dd x).ext = some (o, l)) := by
      intro x o l hx he
      have hxs := ((hlive x).mp hx).2
      rw [hdd] at he
      simp only [hxs, if_false] at he
      by_cases e2 : x = j
      · subst e2; simp at he; left; exact ⟨rfl, he.1.symm, he.2.symm⟩
      · simp only [e2, if_false] at he; right; exact ⟨e2, hxs, he⟩
    refine ⟨by show f'.ndds ≥ 1; show ((f.ddSetExt j (off, len)).ddDelete s).ndds ≥ 1; rw [ddDelete_ndds, ddSetExt_ndds]; exact hw.ndds_pos, ?_, ?_, ?_, ?_⟩
    · intro x o l hx he
      rw [hend]
      rcases hext x o l hx he with ⟨_, h1, h2⟩ | ⟨_, _, h3⟩
      · omega
      · exact hw.ext_le x o l ((hlive x).mp hx).1 h3
    · intro a b oa la ob lb hab ha hb hea heb x
      rcases hext a oa la ha hea with ⟨a1, a2, a3⟩ | ⟨a1, a2, a3⟩ <;> rcases hext b ob lb hb heb with ⟨b1, b2, b3⟩ | ⟨b1, b2, b3⟩
      · omega
      · have := hw.disj s b off len ob lb (fun e => b2 e.symm) hs ((hlive b).mp hb).1 hes b3 x; omega
      · have := hw.disj a s oa la off len a2 ((hlive a).mp ha).1 hs a3 hes x; omega
      · exact hw.disj a b oa la ob lb hab ((hlive a).mp ha).1 ((hlive b).mp hb).1 a3 b3 x
    · intro k hk; rw [hdisk]; rw [hend] at hk; exact hw.tail0 k hk
    · intro a b ha hb ht hr
      have tr : ∀ x, x ≠ s → (f'.dd x).tag = (f.dd x).tag ∧ (f'.dd x).ref = (f.dd x).ref := by
        intro x hx
        rw [hdd]
        by_cases e2 : x = j
        · subst e2; simp [hx]
        · simp [hx, e2]
      have has := ((hlive a).mp ha).2
      have hbs := ((hlive b).mp hb).2
      rw [(tr a has).1, (tr b hbs).1] at ht
      rw [(tr a has).2, (tr b hbs).2] at hr
      exact hw.uniq a b ((hlive a).mp ha).1 ((hlive b).mp hb).1 ht hr
  · show ((f.ddSetExt j (off, len)).ddDelete s).links = _; rw [ddDelete_links, ddSetExt_links]
  · show ((f.ddSetExt j (off, len)).ddDelete s).ndds = _; rw [ddDelete_ndds, ddSetExt_ndds]
  · show ((f.ddSetExt j (off, len)).ddDelete s).present = _; rw [ddDelete_present, ddSetExt_present]

end H4.Elem

namespace H4.Elem
open H4.Gen.Hdf

/-- the descriptor `HLconvert`/`HLcreate` build: one table whose first entry is the old data -/
def firstInfo (len blen nblk linkRef firstRef : Nat) : LinkInfo :=
  { length := len, firstLen := if firstRef = 0 then blen else len, blockLen := blen, numBlocks := nblk,
    tables := [(linkRef, (List.replicate nblk 0).set 0 firstRef)] }

theorem firstInfo_blockRef (len blen nblk lr fr t idx : Nat) (hn : 1 ≤ nblk) :
    (firstInfo len blen nblk lr fr).blockRef t idx = if t = 0 ∧ idx = 0 then fr else 0 := by
  unfold firstInfo LinkInfo.blockRef
  simp only [List.getD_eq_getElem?_getD]
  cases t with
  | zero =>
    simp only [List.getElem?_cons_zero, Option.getD_some, List.getElem?_set, true_and]
    by_cases h : idx = 0
    · subst h
      have : 0 < nblk := by omega
      simp [this]
    · have : ¬ (0 = idx) := fun e => h e.symm
      simp only [this, if_false, h, List.getElem?_replicate]
      split <;> rfl
  | succ k => simp

/-- the byte view of such a descriptor: the old data, then nothing -/
theorem firstInfo_lbyte (f : File) (len blen nblk lr fr off : Nat) (hb : 1 ≤ blen) (hn : 1 ≤ nblk) (hfr : fr ≠ 0)
    (hbe : f.blockExt fr = some (off, len)) (i : Nat) :
    f.lbyte (firstInfo len blen nblk lr fr) i = if i < len then rd f.disk (off + i) else 0 := by
  have hli : (firstInfo len blen nblk lr fr).firstLen = len ∧ (firstInfo len blen nblk lr fr).blockLen = blen ∧
      (firstInfo len blen nblk lr fr).numBlocks = nblk := by simp [firstInfo, hfr]
  obtain ⟨t, idx, r, hidx, hr, hi⟩ := pos_block len blen nblk i hb hn
  have := lbyte_block f (firstInfo len blen nblk lr fr) (by rw [hli.2.1]; exact hb) (by rw [hli.2.2]; exact hn) t idx r
    (by rw [hli.2.2]; exact hidx) (by rw [hli.1, hli.2.1, hli.2.2]; exact hr)
  rw [hli.1, hli.2.1, hli.2.2, hi] at this
  rw [this, firstInfo_blockRef _ _ _ _ _ _ _ hn]
  by_cases h0 : t = 0 ∧ idx = 0
  · obtain ⟨e1, e2⟩ := h0
    subst e1 e2
    simp only [and_self, if_true, File.blockByte, hfr, if_false, hbe]
    simp only [Nat.zero_mul, Nat.add_zero, blockLenOf, blockStart, if_true, Nat.zero_add] at hr hi
    subst hi
    simp [hr]
  · rw [if_neg h0]
    simp only [File.blockByte, if_true]
    have : ¬ (i < len) := by
      intro hlt
      have h1 := startBlock_block len blen 0 i hb (by simp [blockLenOf]; exact hlt)
      have h2 := startBlock_block len blen (t * nblk + idx) r hb hr
      simp only [blockStart, if_true, Nat.zero_add] at h1
      rw [hi, h1] at h2
      simp only [Prod.mk.injEq] at h2
      have := mul_add_div_mod t nblk idx hidx
      rw [← h2.1] at this
      simp at this
      exact h0 ⟨this.1.symm, this.2.symm⟩
    rw [if_neg this]

end H4.Elem

namespace H4.Elem
open H4.Gen.Hdf

theorem linkHdr_length (a b c d : Nat) : (linkHdr a b c d).length = 16 := rfl

theorem writeLinkHdr_eq (f : File) (slot len blen nblk fr : Nat) :
    f.writeLinkHdr slot len blen nblk fr =
      (({ ((f.setLength slot 16).1.pwrite (f.setLength slot 16).2 (linkHdr len blen nblk (f.tagNewRef DFTAG_LINKED))) with
          endOff := max ((f.setLength slot 16).1.pwrite (f.setLength slot 16).2 (linkHdr len blen nblk (f.tagNewRef DFTAG_LINKED))).endOff
            ((f.setLength slot 16).2 + 16) } : File).newTable (f.tagNewRef DFTAG_LINKED) nblk,
       firstInfo len blen nblk (f.tagNewRef DFTAG_LINKED) fr) := rfl

/-- what `HLconvert` achieves -/
structure Converted (f : File) (s off len : Nat) (f' : File) (s' : Nat) : Prop where
  wfe : WFE f'
  live' : f'.live s'
  special' : isSpecial (f'.dd s').tag = true
  key' : f'.keyOf s' = f.keyOf s
  /-- the promoted element holds exactly the bytes it held -/
  bytes : f'.slotBytes s' = some (f.bytesAt off len)
  others : ∀ x, f.live x → x ≠ s → f'.dd x = f.dd x ∧ f'.slotBytes x = f.slotBytes x
  new_slots : ∀ x, f'.live x → (f.live x ∧ x ≠ s) ∨ x = s' ∨ (f'.dd x).tag = DFTAG_LINKED
  present : f'.present = f.present

end H4.Elem

namespace H4.Elem
open H4.Gen.Hdf

set_option maxHeartbeats 1000000 in
/-- `HLconvert` on a contiguous element with data extent `(off, len)`: the element becomes a linked-block element with
    the same bytes, nothing else changes -/
theorem convertTail_spec (f : File) (hw : WFE f) (s off len blen nblk : Nat) (hs : f.live s)
    (hsp : isSpecial (f.dd s).tag = false) (hlt : (f.dd s).tag < H4.Gen.Elem.SPECIAL_TAG_BIT)
    (hut : (f.dd s).tag ≠ DFTAG_LINKED) (hes : (f.dd s).ext = some (off, len)) (hb : 1 ≤ blen) (hn : 1 ≤ nblk) :
    Converted f s off len (f.convertTail s (f.dd s) off len blen nblk).1 (f.convertTail s (f.dd s) off len blen nblk).2 := by
  obtain ⟨hmk1, hmk2, hmk3, hmk4⟩ := mkSpecial_user (f.dd s).tag hlt
  have hbt : baseTag (f.dd s).tag = (f.dd s).tag := baseTag_not_special _ hsp
  -- step 1: the DD that will hold the data
  have fresh1 := tagNewRef_fresh f DFTAG_LINKED
  have hnr0 := tagNewRef_pos f DFTAG_LINKED
  have C1 := ddCreate_spec f DFTAG_LINKED (f.tagNewRef DFTAG_LINKED) hw.ndds_pos hw.tail0
  have W2 := C1.wff hw.toWFF (by decide) fresh1
  unfold File.convertTail
  simp only
  generalize hnr : f.tagNewRef DFTAG_LINKED = nr at fresh1 hnr0 C1 W2
  generalize hc1 : f.ddCreate DFTAG_LINKED nr = c1 at C1 W2
  obtain ⟨f2, j⟩ := c1
  simp only at C1 W2 ⊢
  have hjs : j ≠ s := fun e => hs (by rw [← e]; exact C1.was_free)
  have hd2s : f2.dd s = f.dd s := C1.dd_keep s (fun e => hjs e.symm)
  have hl2s : f2.live s := by unfold File.live; rw [hd2s]; exact hs
  have hl2j : f2.live j := by unfold File.live; rw [C1.dd_new]; exact (by decide : DFTAG_LINKED ≠ DFTAG_NULL)
  -- step 2: move the extent, delete the element's DD
  obtain ⟨W3, hdd3, hdisk3, hend3, hlinks3, hndds3, hpres3⟩ :=
    moveExt_spec f2 W2 s j off len hl2s hl2j hjs (by rw [hd2s]; exact hes) (by rw [C1.dd_new])
  generalize hf3 : (f2.ddSetExt j (off, len)).ddDelete s = f3 at W3 hdd3 hdisk3 hend3 hlinks3 hndds3 hpres3
  have hlive3 : ∀ x, f3.live x ↔ ((f.live x ∧ x ≠ s) ∨ x = j) := by
    intro x
    constructor
    · intro hx
      unfold File.live at hx
      rw [hdd3] at hx
      by_cases e1 : x = s
      · rw [if_pos e1] at hx; exact absurd rfl hx
      · rw [if_neg e1] at hx
        by_cases e2 : x = j
        · exact Or.inr e2
        · rw [if_neg e2, C1.dd_keep x e2] at hx; exact Or.inl ⟨hx, e1⟩
    · intro hx
      unfold File.live
      rw [hdd3]
      rcases hx with ⟨hl, hne⟩ | e2
      · have e2 : x ≠ j := fun e => hl (by rw [e]; exact C1.was_free)
        rw [if_neg hne, if_neg e2, C1.dd_keep x e2]; exact hl
      · rw [e2, if_neg hjs, if_pos rfl]; exact hl2j
  -- step 3: the special DD
  have fresh4 : ∀ x, ¬ f3.hasKey x (mkSpecial (f.dd s).tag) (f.dd s).ref := by
    intro x hk
    rcases (hlive3 x).mp hk.1 with ⟨hxl, hxs⟩ | hxj
    · have hxj : x ≠ j := fun e => hxl (by rw [e]; exact C1.was_free)
      have hd : f3.dd x = f.dd x := by rw [hdd3]; simp [hxs, hxj, C1.dd_keep x hxj]
      have h1 := hk.2.1; have h2 := hk.2.2
      rw [hd, hmk3] at h1; rw [hd] at h2
      exact hxs (hw.uniq x s hxl hs (by rw [h1, hbt]) h2)
    · subst hxj
      have hd : f3.dd x = { f2.dd x with ext := some (off, len) } := by rw [hdd3]; simp [hjs]
      have h1 := hk.2.1
      rw [hd, C1.dd_new, hmk3] at h1
      simp only [baseTag_linked] at h1
      exact hut h1.symm
  have C4 := ddCreate_spec f3 (mkSpecial (f.dd s).tag) (f.dd s).ref W3.ndds_pos W3.tail0
  have W4 := C4.wff W3 hmk4 fresh4
  generalize hc4 : f3.ddCreate (mkSpecial (f.dd s).tag) (f.dd s).ref = c4 at C4 W4
  obtain ⟨f4, s'⟩ := c4
  simp only at C4 W4 ⊢
  have hs'free3 : ¬ f3.live s' := fun h => h C4.was_free
  have hs'j : s' ≠ j := fun e => hs'free3 ((hlive3 s').mpr (Or.inr e))
  -- step 4: description record and first block table
  rw [writeLinkHdr_eq]
  simp only
  have fresh5 := tagNewRef_fresh f4 DFTAG_LINKED
  generalize hlr : f4.tagNewRef DFTAG_LINKED = lr at fresh5
  have S5 := setLength_spec f4 s' 16 C4.lt W4.tail0
  have hl4s' : f4.live s' := by unfold File.live; rw [C4.dd_new]; exact hmk4
  have W5 := S5.wff W4 hl4s' (by rw [C4.dd_new])
  generalize hsl : f4.setLength s' 16 = sl at S5 W5
  obtain ⟨f5, hoff⟩ := sl
  simp only at S5 W5 ⊢
  have hfit : hoff + (linkHdr len blen nblk lr).length ≤ f5.endOff := by rw [linkHdr_length, S5.end_eq, S5.off_eq]; exact Nat.le_refl _
  have W6 := pwrite_wff f5 W5 hoff (linkHdr len blen nblk lr) hfit
  rw [endOff_max_noop _ _ (by show hoff + 16 ≤ f5.endOff; rw [S5.end_eq, S5.off_eq]; exact Nat.le_refl _)]
  have hdd6 : ∀ x, (f5.pwrite hoff (linkHdr len blen nblk lr)).dd x =
      if x = s' then { tag := mkSpecial (f.dd s).tag, ref := (f.dd s).ref, ext := some (hoff, 16) } else f3.dd x := by
    intro x
    rw [pwrite_dd]
    by_cases e : x = s'
    · subst e; rw [S5.dd_new, C4.dd_new]; simp
    · rw [S5.dd_keep x e, C4.dd_keep x e]; simp [e]
  have fresh6 : ∀ x, ¬ (f5.pwrite hoff (linkHdr len blen nblk lr)).hasKey x DFTAG_LINKED lr := by
    intro x hk
    apply fresh5 x
    unfold File.hasKey File.live at *
    rw [hdd6] at hk
    by_cases e : x = s'
    · subst e
      simp only [if_true] at hk
      rw [C4.dd_new]; exact hk
    · simp only [e, if_false] at hk
      rw [C4.dd_keep x e]; exact hk
  obtain ⟨E7, W7⟩ := newTable_spec _ W6 lr nblk fresh6
  generalize hf7 : (f5.pwrite hoff (linkHdr len blen nblk lr)).newTable lr nblk = f7 at E7 W7
  -- facts about the final file
  have hoff_ge : f.endOff ≤ hoff := by
    rw [S5.off_eq]; have := C4.end_le; have := C1.end_le; omega
  have hlive6 : ∀ x, (f5.pwrite hoff (linkHdr len blen nblk lr)).live x ↔ (f3.live x ∨ x = s') := by
    intro x
    unfold File.live
    rw [hdd6]
    by_cases e : x = s'
    · subst e; simp [hmk4]
    · simp [e]
  have hdd7 : ∀ x, (f3.live x ∨ x = s') → (f7.setLink (baseTag (f.dd s).tag, (f.dd s).ref) (firstInfo len blen nblk lr nr)).dd x =
      if x = s' then { tag := mkSpecial (f.dd s).tag, ref := (f.dd s).ref, ext := some (hoff, 16) } else f3.dd x := by
    intro x hx
    rw [setLink_dd, E7.dd_keep x ((hlive6 x).mpr hx), hdd6]
  have hrd7 : ∀ y, y < f.endOff → rd f7.disk y = rd f.disk y := by
    intro y hy
    rw [E7.rd_keep, pwrite_rd]
    have : ¬ (hoff ≤ y ∧ y < hoff + (linkHdr len blen nblk lr).length) := by omega
    rw [if_neg this, S5.rd_keep, C4.rd_keep, hdisk3, C1.rd_keep]
  have hold_dd : ∀ x, f.live x → x ≠ s → (f7.setLink (baseTag (f.dd s).tag, (f.dd s).ref) (firstInfo len blen nblk lr nr)).dd x = f.dd x := by
    intro x hx hxs
    have hxj : x ≠ j := fun e => hx (by rw [e]; exact C1.was_free)
    have h3 : f3.live x := (hlive3 x).mpr (Or.inl ⟨hx, hxs⟩)
    have hxs' : x ≠ s' := fun e => hs'free3 (e ▸ h3)
    rw [hdd7 x (Or.inl h3)]
    simp only [hxs', if_false]
    rw [hdd3]; simp [hxs, hxj, C1.dd_keep x hxj]
  have hj_dd : (f7.setLink (baseTag (f.dd s).tag, (f.dd s).ref) (firstInfo len blen nblk lr nr)).dd j =
      { tag := DFTAG_LINKED, ref := nr, ext := some (off, len) } := by
    rw [hdd7 j (Or.inl ((hlive3 j).mpr (Or.inr rfl)))]
    have : ¬ (j = s') := fun e => hs'j e.symm
    simp only [this, if_false]
    rw [hdd3]; simp [hjs, C1.dd_new]
  have hs'_dd : (f7.setLink (baseTag (f.dd s).tag, (f.dd s).ref) (firstInfo len blen nblk lr nr)).dd s' =
      { tag := mkSpecial (f.dd s).tag, ref := (f.dd s).ref, ext := some (hoff, 16) } := by
    rw [hdd7 s' (Or.inr rfl)]; simp
  have W8 : WFF (f7.setLink (baseTag (f.dd s).tag, (f.dd s).ref) (firstInfo len blen nblk lr nr)) := W7.setLink _ _
  generalize hf8 : f7.setLink (baseTag (f.dd s).tag, (f.dd s).ref) (firstInfo len blen nblk lr nr) = f8 at hdd7 hold_dd hj_dd hs'_dd W8
  have hrd8 : ∀ y, y < f.endOff → rd f8.disk y = rd f.disk y := by
    intro y hy; rw [← hf8]; exact hrd7 y hy
  have hlive8 : ∀ x, f8.live x → (f.live x ∧ x ≠ s) ∨ x = s' ∨ (f8.dd x).tag = DFTAG_LINKED := by
    intro x hx
    have hx7 : f7.live x := by rw [← hf8] at hx; exact hx
    rcases E7.new_linked x hx7 with h6 | h6
    · rcases (hlive6 x).mp h6 with h3 | h3
      · rcases (hlive3 x).mp h3 with h | h
        · exact Or.inl h
        · right; right; rw [h, hj_dd]
      · exact Or.inr (Or.inl h3)
    · right; right; rw [← hf8]; exact h6
  have hkey_s' : f8.keyOf s' = f.keyOf s := by
    unfold File.keyOf; rw [hs'_dd]; simp only; rw [hmk3, hbt]
  have hlink8 : f8.link (f.keyOf s) = some (firstInfo len blen nblk lr nr) := by
    rw [← hf8]
    have : f.keyOf s = (baseTag (f.dd s).tag, (f.dd s).ref) := rfl
    rw [this]; exact link_setLink_same _ _ _
  have hlink8_ne : ∀ k, k ≠ f.keyOf s → f8.link k = f.link k := by
    intro k hk
    have hk' : k ≠ (baseTag (f.dd s).tag, (f.dd s).ref) := hk
    rw [← hf8, link_setLink_ne _ _ _ _ hk', link_of_links E7.links]
    show f5.link k = f.link k
    rw [link_of_links S5.links, link_of_links C4.links, link_of_links hlinks3, link_of_links C1.links]
  -- the new element
  have hj_key : f8.hasKey j DFTAG_LINKED nr := by
    unfold File.hasKey File.live; rw [hj_dd]; exact ⟨(by decide : DFTAG_LINKED ≠ DFTAG_NULL), rfl, rfl⟩
  have hbe_nr : f8.blockExt nr = some (off, len) := blockExt_of_slot W8 hj_key (by rw [hj_dd])
  have hle := hw.ext_le s off len hs hes
  have hfi : (firstInfo len blen nblk lr nr).firstLen = len ∧ (firstInfo len blen nblk lr nr).blockLen = blen ∧
      (firstInfo len blen nblk lr nr).numBlocks = nblk ∧ (firstInfo len blen nblk lr nr).length = len ∧
      (firstInfo len blen nblk lr nr).tables.length = 1 := by simp [firstInfo, hnr0]
  have hwfl : WFL f8 (firstInfo len blen nblk lr nr) := by
    refine ⟨⟨by rw [hfi.2.1]; exact hb, by rw [hfi.2.2.1]; exact hn, by rw [hfi.2.2.2.2]; exact Nat.le_refl _, ?_, ?_, ?_⟩, ?_, ?_⟩
    · intro t ht
      rw [hfi.2.2.2.2] at ht
      have : t = 0 := by omega
      subst this
      simp [firstInfo]
    · intro t idx _ _ h0
      rw [firstInfo_blockRef _ _ _ _ _ _ _ hn] at h0 ⊢
      by_cases e : t = 0 ∧ idx = 0
      · rw [if_pos e]; obtain ⟨e1, e2⟩ := e; subst e1 e2
        refine ⟨off, ?_⟩
        rw [hbe_nr, hfi.1]; simp [blockLenOf]
      · rw [if_neg e] at h0; exact absurd rfl h0
    · intro a b a' b' h0 he
      rw [firstInfo_blockRef _ _ _ _ _ _ _ hn] at h0 he
      rw [firstInfo_blockRef _ _ _ _ _ _ _ hn] at he
      by_cases e : a = 0 ∧ b = 0
      · rw [if_pos e] at he
        by_cases e' : a' = 0 ∧ b' = 0
        · exact ⟨e.1.trans e'.1.symm, e.2.trans e'.2.symm⟩
        · rw [if_neg e'] at he; exact absurd he hnr0
      · rw [if_neg e] at h0; exact absurd rfl h0
    · rw [hfi.2.2.2.1, hfi.1, hfi.2.1, hfi.2.2.1, hfi.2.2.2.2]
      unfold blockStart
      have : ¬ (1 * nblk = 0) := by omega
      rw [if_neg this]; omega
    · intro i hi
      rw [hfi.2.2.2.1] at hi
      rw [firstInfo_lbyte f8 len blen nblk lr nr off hb hn hnr0 hbe_nr i]
      have : ¬ (i < len) := by omega
      rw [if_neg this]
  have hs'live : f8.live s' := by unfold File.live; rw [hs'_dd]; exact hmk4
  have hs'sp : isSpecial (f8.dd s').tag = true := by rw [hs'_dd]; exact hmk2
  have hkey_ne : ∀ x, f.live x → x ≠ s → f.keyOf x ≠ f.keyOf s := by
    intro x hx hne e
    unfold File.keyOf at e
    simp only [Prod.mk.injEq] at e
    exact hne (hw.uniq x s hx hs e.1 e.2)
  have hs_not_blk : ∀ (li2 : LinkInfo) y, f.blockSlotOf li2 y → y ≠ s := by
    intro li2 y ⟨t, idx, _, hk⟩ e
    subst e
    have := hk.2.1
    rw [baseTag_linked, hbt] at this
    exact hut this
  -- blocks of an old element seen in the new file
  have hblk_back : ∀ (li1 : LinkInfo), WFLs f li1 → ∀ y, f8.blockSlotOf li1 y → f.blockSlotOf li1 y := by
    intro li1 hl1 y ⟨t, idx, h0, hk⟩
    obtain ⟨x0, hx0⟩ := hl1.ref_ext t idx h0
    obtain ⟨j0, hk0, _⟩ := blockExt_slot hx0
    have hj0s := hs_not_blk li1 j0 ⟨t, idx, h0, hk0⟩
    have hk0' : f8.hasKey j0 DFTAG_LINKED (li1.blockRef t idx) := by
      unfold File.hasKey File.live at *; rw [hold_dd j0 hk0.1 hj0s]; exact hk0
    have : y = j0 := W8.uniq y j0 hk.1 hk0'.1 (by rw [hk.2.1, hk0'.2.1]) (by rw [hk.2.2, hk0'.2.2])
    exact ⟨t, idx, h0, this ▸ hk0⟩
  have hblk_new : ∀ y, f8.blockSlotOf (firstInfo len blen nblk lr nr) y → y = j := by
    intro y ⟨t, idx, h0, hk⟩
    rw [firstInfo_blockRef _ _ _ _ _ _ _ hn] at h0 hk
    by_cases e : t = 0 ∧ idx = 0
    · rw [if_pos e] at hk
      exact W8.uniq y j hk.1 hj_key.1 (by rw [hk.2.1, hj_key.2.1]) (by rw [hk.2.2, hj_key.2.2])
    · rw [if_neg e] at h0; exact absurd rfl h0
  have hframe : ∀ x, f.live x → x ≠ s → f8.slotBytes x = f.slotBytes x := by
    intro x hx hxs
    apply slotBytes_frame hw W8 x hx (T := fun y => y = s)
    · intro y hy hys; exact hold_dd y hy hys
    · exact hlink8_ne _ (hkey_ne x hx hxs)
    · intro y hy _; exact hrd8 y hy
    · exact hxs
    · intro _ li2 _ y hb2 e; exact hs_not_blk li2 y hb2 e
  have hspecial8 : ∀ x, f8.live x → isSpecial (f8.dd x).tag = true → (f.live x ∧ x ≠ s ∧ f8.dd x = f.dd x) ∨ x = s' := by
    intro x hx hsx
    rcases hlive8 x hx with ⟨h1, h2⟩ | h | h
    · exact Or.inl ⟨h1, h2, hold_dd x h1 h2⟩
    · exact Or.inr h
    · rw [h, isSpecial_linked] at hsx; exact absurd hsx (by decide)
  refine ⟨⟨W8, ?_, ?_, ?_⟩, hs'live, hs'sp, hkey_s', ?_, ?_, hlive8, ?_⟩
  · -- linked_ok
    intro x hx hsx
    rcases hspecial8 x hx hsx with ⟨h1, h2, h3⟩ | h
    · rw [h3] at hsx
      obtain ⟨li1, ho1, hl1, hk1, hwl1, he1, h61⟩ := hw.linked_ok x h1 hsx
      refine ⟨li1, ho1, hl1, by rw [keyOf_eq h3, hlink8_ne _ (hkey_ne x h1 h2)]; exact hk1, ?_, by rw [h3]; exact he1, h61⟩
      apply hwl1.frame W8
      · intro y hb2
        obtain ⟨t, idx, h0, hk⟩ := hb2
        exact hold_dd y hk.1 (hs_not_blk li1 y ⟨t, idx, h0, hk⟩)
      · intro t idx o l r h0 hbx hr
        obtain ⟨y, hyk, hye⟩ := blockExt_slot hbx
        have := hw.ext_le y o l hyk.1 hye
        exact hrd8 (o + r) (by omega)
    · subst h
      exact ⟨_, hoff, 16, by rw [hkey_s']; exact hlink8, hwfl, by rw [hs'_dd], by omega⟩
  · -- hdr_tag
    intro x hx hsx
    rcases hspecial8 x hx hsx with ⟨h1, h2, h3⟩ | h
    · rw [h3] at hsx ⊢; exact hw.hdr_tag x h1 hsx
    · subst h; rw [hs'_dd]; simp only; rw [hmk3]; exact hut
  · -- own
    intro x1 x2 l1 l2 y hx1 hs1 hx2 hs2 hk1 hk2 hb1 hb2
    rcases hspecial8 x1 hx1 hs1 with ⟨a1, a2, a3⟩ | e1 <;> rcases hspecial8 x2 hx2 hs2 with ⟨b1, b2, b3⟩ | e2
    · rw [a3] at hs1; rw [b3] at hs2
      rw [keyOf_eq a3, hlink8_ne _ (hkey_ne x1 a1 a2)] at hk1
      rw [keyOf_eq b3, hlink8_ne _ (hkey_ne x2 b1 b2)] at hk2
      obtain ⟨l1', _, _, h11, h12, _, _⟩ := hw.linked_ok x1 a1 hs1
      obtain ⟨l2', _, _, h21, h22, _, _⟩ := hw.linked_ok x2 b1 hs2
      rw [hk1] at h11; rw [hk2] at h21
      simp only [Option.some.injEq] at h11 h21; subst h11 h21
      exact hw.own x1 x2 l1 l2 y a1 hs1 b1 hs2 hk1 hk2 (hblk_back l1 h12.toWFLs y hb1) (hblk_back l2 h22.toWFLs y hb2)
    · exfalso
      subst e2
      rw [a3] at hs1
      rw [keyOf_eq a3, hlink8_ne _ (hkey_ne x1 a1 a2)] at hk1
      rw [hkey_s', hlink8] at hk2
      simp only [Option.some.injEq] at hk2; subst hk2
      obtain ⟨l1', _, _, h11, h12, _, _⟩ := hw.linked_ok x1 a1 hs1
      rw [hk1] at h11; simp only [Option.some.injEq] at h11; subst h11
      have hy := hblk_new y hb2
      obtain ⟨_, _, _, hk⟩ := hblk_back l1 h12.toWFLs y hb1
      exact hk.1 (by rw [hy]; exact C1.was_free)
    · exfalso
      subst e1
      rw [b3] at hs2
      rw [keyOf_eq b3, hlink8_ne _ (hkey_ne x2 b1 b2)] at hk2
      rw [hkey_s', hlink8] at hk1
      simp only [Option.some.injEq] at hk1; subst hk1
      obtain ⟨l2', _, _, h21, h22, _, _⟩ := hw.linked_ok x2 b1 hs2
      rw [hk2] at h21; simp only [Option.some.injEq] at h21; subst h21
      have hy := hblk_new y hb1
      obtain ⟨_, _, _, hk⟩ := hblk_back l2 h22.toWFLs y hb2
      exact hk.1 (by rw [hy]; exact C1.was_free)
    · rw [e1, e2]
  · -- bytes
    rw [slotBytes_special _ _ hs'sp, hkey_s', hlink8]
    simp only [Option.map_some]
    congr 1
    unfold File.linkedBytes File.bytesAt
    rw [hfi.2.2.2.1]
    apply List.map_congr_left
    intro i hi
    have hi : i < len := List.mem_range.mp hi
    rw [firstInfo_lbyte f8 len blen nblk lr nr off hb hn hnr0 hbe_nr i, if_pos hi]
    exact hrd8 (off + i) (by omega)
  · -- others
    intro x hx hxs
    exact ⟨hold_dd x hx hxs, hframe x hx hxs⟩
  · -- present
    rw [← hf8]
    show f7.present = f.present
    rw [E7.present]
    show f5.present = f.present
    rw [S5.present, C4.present, hpres3, C1.present]

end H4.Elem

namespace H4.Elem
open H4.Gen.Hdf

theorem ddCreate_mem_le (f : File) (tag ref : Nat) : f.mem.length ≤ (f.ddCreate tag ref).1.mem.length := by
  unfold File.ddCreate
  cases hf : f.findFree with
  | some i => simp only [updateDD_mem, List.length_set]; exact Nat.le_refl _
  | none => simp only [updateDD_mem, List.length_set, newDDBlock_mem, List.length_append]; omega

theorem coh_writeLinkHdr {f : File} (h : Coh f) (slot len blen nblk fr : Nat) (hs : slot < f.mem.length) :
    Coh (f.writeLinkHdr slot len blen nblk fr).1 := by
  rw [writeLinkHdr_eq]
  exact coh_newTable (coh_endOff (coh_pwrite (coh_setLength h slot 16 hs) _ _) _) _ _

theorem coh_convertTail {f : File} (h : Coh f) (slot : Nat) (d : DD) (off len blen nblk : Nat) (hs : slot < f.mem.length) :
    Coh (f.convertTail slot d off len blen nblk).1 := by
  unfold File.convertTail
  simp only
  have h1 := coh_ddCreate h DFTAG_LINKED (f.tagNewRef DFTAG_LINKED)
  have hj := ddCreate_lt f DFTAG_LINKED (f.tagNewRef DFTAG_LINKED) h.ndds_pos
  have hle := ddCreate_mem_le f DFTAG_LINKED (f.tagNewRef DFTAG_LINKED)
  have h2 := coh_ddSetExt h1 _ (off, len) hj
  have hm2 : ((f.ddCreate DFTAG_LINKED (f.tagNewRef DFTAG_LINKED)).1.ddSetExt (f.ddCreate DFTAG_LINKED (f.tagNewRef DFTAG_LINKED)).2 (off, len)).mem.length =
      (f.ddCreate DFTAG_LINKED (f.tagNewRef DFTAG_LINKED)).1.mem.length := by
    unfold File.ddSetExt; rw [updateDD_mem]; simp
  have h3 := coh_ddDelete h2 slot (by rw [hm2]; omega)
  have h4 := coh_ddCreate h3 (mkSpecial d.tag) d.ref
  have hs' := ddCreate_lt _ (mkSpecial d.tag) d.ref h3.ndds_pos
  exact coh_setLink (coh_writeLinkHdr h4 _ len blen nblk _ hs') _ _

theorem coh_convert {f : File} (h : Coh f) (slot blen nblk : Nat) (hs : slot < f.mem.length) : Coh (f.convert slot blen nblk).1 := by
  unfold File.convert
  cases (f.dd slot).ext with
  | some e => exact coh_convertTail h slot _ _ _ _ _ hs
  | none =>
    simp only
    have h1 := coh_setLength h slot 0 hs
    have : ((f.setLength slot 0).1).mem.length = f.mem.length := by
      unfold File.setLength File.ddSetExt; simp only; rw [updateDD_mem]; simp [getDiskBlock_mem]
    exact coh_convertTail h1 slot _ _ _ _ _ (by rw [this]; exact hs)

theorem convertTail_congr (f : File) (slot : Nat) (d d' : DD) (off len blen nblk : Nat) (ht : d'.tag = d.tag) (hr : d'.ref = d.ref) :
    f.convertTail slot d' off len blen nblk = f.convertTail slot d off len blen nblk := by
  unfold File.convertTail
  simp only [ht, hr]

/-- what `HLconvert` achieves, whether or not the element already had data -/
structure Promoted (f : File) (s : Nat) (f' : File) (s' : Nat) : Prop where
  wfe : WFE f'
  live' : f'.live s'
  special' : isSpecial (f'.dd s').tag = true
  key' : f'.keyOf s' = f.keyOf s
  /-- `promote_preserves`: the promoted element holds exactly the bytes it held (none → the empty string) -/
  bytes : f'.slotBytes s' = some ((f.slotBytes s).getD [])
  others : ∀ x, f.live x → x ≠ s → f'.dd x = f.dd x ∧ f'.slotBytes x = f.slotBytes x
  new_slots : ∀ x, f'.live x → (f.live x ∧ x ≠ s) ∨ x = s' ∨ (f'.dd x).tag = DFTAG_LINKED
  present : f'.present = f.present

theorem convert_spec (f : File) (hw : WFE f) (s blen nblk : Nat) (hs : f.live s)
    (hsp : isSpecial (f.dd s).tag = false) (hlt : (f.dd s).tag < H4.Gen.Elem.SPECIAL_TAG_BIT)
    (hut : (f.dd s).tag ≠ DFTAG_LINKED) (hb : 1 ≤ blen) (hn : 1 ≤ nblk) :
    Promoted f s (f.convert s blen nblk).1 (f.convert s blen nblk).2 := by
  unfold File.convert
  cases hx : (f.dd s).ext with
  | some e =>
    obtain ⟨off, len⟩ := e
    simp only
    have C := convertTail_spec f hw s off len blen nblk hs hsp hlt hut hx hb hn
    refine ⟨C.wfe, C.live', C.special', C.key', ?_, C.others, C.new_slots, C.present⟩
    rw [C.bytes, slotBytes_plain _ _ hsp, hx]; rfl
  | none =>
    simp only
    have hslt := live_lt f s hs
    have S := setLength_spec f s 0 hslt hw.tail0
    have W1 := S.wff hw.toWFF hs hx
    generalize hsl : f.setLength s 0 = sl at S W1
    obtain ⟨f1, off⟩ := sl
    simp only at S W1 ⊢
    have hbt : baseTag (f.dd s).tag ≠ DFTAG_LINKED := by rw [baseTag_not_special _ hsp]; exact hut
    have hlive1 : ∀ x, f1.live x ↔ f.live x := by
      intro x; unfold File.live
      by_cases e : x = s
      · subst e; rw [S.dd_new]
      · rw [S.dd_keep x e]
    obtain ⟨E1, hfr1⟩ := hw.plain_step W1 s (fun x _ hne => S.dd_keep x hne)
      (by rw [S.dd_new]; exact ⟨hsp, hbt⟩) (fun _ => ⟨hsp, hbt⟩)
      (fun x hx1 hnx => absurd ((hlive1 x).mp hx1) hnx) S.links (fun y _ _ => S.rd_keep y)
    have hd1 : f1.dd s = { f.dd s with ext := some (off, 0) } := S.dd_new
    have hcg := convertTail_congr f1 s (f1.dd s) (f.dd s) off 0 blen nblk (by rw [hd1]) (by rw [hd1])
    rw [hcg]
    have C := convertTail_spec f1 E1 s off 0 blen nblk ((hlive1 s).mpr hs) (by rw [hd1]; exact hsp) (by rw [hd1]; exact hlt)
      (by rw [hd1]; exact hut) (by rw [hd1]) hb hn
    refine ⟨C.wfe, C.live', C.special', ?_, ?_, ?_, ?_, by rw [C.present, S.present]⟩
    · rw [C.key']; unfold File.keyOf; rw [hd1]
    · rw [C.bytes, slotBytes_plain _ _ hsp, hx]; simp [File.bytesAt]
    · intro x hxl hxs
      have h1 := C.others x ((hlive1 x).mpr hxl) hxs
      exact ⟨by rw [h1.1, S.dd_keep x hxs], by rw [h1.2]; exact hfr1 x hxl hxs⟩
    · intro x hx8
      rcases C.new_slots x hx8 with ⟨h1, h2⟩ | h | h
      · exact Or.inl ⟨(hlive1 x).mp h1, h2⟩
      · exact Or.inr (Or.inl h)
      · exact Or.inr (Or.inr h)

end H4.Elem
