import H4.Lemmas.Format
set_option linter.unusedSimpArgs false
/-! Lemmas about the file-level reader: the Bool checks decide their Prop specifications, the chain walk is
    faithful to the bytes and never runs out of fuel. Core-only. -/
namespace H4.Format
open H4.Gen.Hdf H4.Gen.Fmt

/-! ### Bool checks vs Prop specifications -/

theorem allPairs_iff {α} (p : α → α → Bool) (l : List α) : allPairs p l = true ↔ l.Pairwise (fun a b => p a b = true) := by
  induction l with
  | nil => simp [allPairs]
  | cons a t ih =>
    simp only [allPairs, Bool.and_eq_true, List.all_eq_true, ih, List.pairwise_cons]

/-- consecutive links, as a proposition -/
def LinkedP : List Block → Prop
  | [] => False
  | [x] => x.next = 0
  | x :: y :: l => x.next = y.off ∧ x.next ≠ 0 ∧ LinkedP (y :: l)

theorem linked_iff (l : List Block) : linked l = true ↔ LinkedP l := by
  induction l with
  | nil => simp [linked, LinkedP]
  | cons x t ih =>
    cases t with
    | nil => simp [linked, LinkedP]
    | cons y l =>
      simp only [linked, LinkedP, Bool.and_eq_true, beq_iff_eq, bne_iff_ne, ne_eq, ih, and_assoc]

/-! ### the chain walk -/

theorem readBlock_off {b : ByteArray} {off : Nat} {k : Block} (h : readBlock b off = .ok k) : k.off = off := by
  unfold readBlock at h
  split at h
  · simp [bad] at h
  · split at h
    · simp [bad] at h
    · split at h
      · simp [bad] at h
      · split at h
        · simp [bad] at h
        · split at h
          · simp [bad] at h
          · injection h with h; rw [← h]

theorem readBlock_bounds {b : ByteArray} {off : Nat} {k : Block} (h : readBlock b off = .ok k) :
    0 < k.ndds ∧ off + (NDDS_SZ + OFFSET_SZ) + DD_SZ * k.ndds ≤ b.size := by
  unfold readBlock at h
  split at h
  · simp [bad] at h
  · split at h
    · simp [bad] at h
    · rename_i hdr _
      split at h
      · simp [bad] at h
      · rename_i hnz
        split at h
        · simp [bad] at h
        · rename_i body hs
          split at h
          · simp [bad] at h
          · injection h with h
            rw [← h]
            simp only
            refine ⟨Nat.pos_of_ne_zero hnz, ?_⟩
            unfold slice at hs
            split at hs
            · assumption
            · simp at hs

theorem readBlock_ne_fuel (b : ByteArray) (off : Nat) : readBlock b off ≠ .error .fuel := by
  unfold readBlock
  repeat' split
  all_goals simp [bad]

/-- invariant of the accumulator of `walk` -/
def WalkInv (b : ByteArray) (acc : List Block) : Prop :=
  (∀ k ∈ acc, readBlock b k.off = .ok k) ∧ (acc.map (·.off)).Nodup

theorem walkInv_nil (b : ByteArray) : WalkInv b [] := ⟨by simp, by simp⟩

theorem walkInv_cons {b : ByteArray} {acc : List Block} {off : Nat} {k : Block} (hi : WalkInv b acc)
    (hn : acc.any (fun x => x.off == off) = false) (hr : readBlock b off = .ok k) : WalkInv b (k :: acc) := by
  have ho := readBlock_off hr
  refine ⟨?_, ?_⟩
  · intro x hx
    rcases List.mem_cons.mp hx with rfl | hx
    · rw [ho]; exact hr
    · exact hi.1 x hx
  · simp only [List.map_cons, List.nodup_cons]
    refine ⟨?_, hi.2⟩
    intro hm
    obtain ⟨x, hx, hxo⟩ := List.mem_map.mp hm
    have : acc.any (fun x => x.off == off) = true := by
      simp only [List.any_eq_true, beq_iff_eq]
      exact ⟨x, hx, by rw [hxo, ho]⟩
    rw [hn] at this; cases this

/-- every block of the result is exactly what the bytes at its offset decode to, and no offset repeats -/
theorem walk_inv (b : ByteArray) : ∀ (fuel off : Nat) (acc res : List Block), WalkInv b acc →
    walk b fuel off acc = .ok res → WalkInv b res.reverse := by
  intro fuel
  induction fuel with
  | zero => intro off acc res _ h; simp [walk] at h
  | succ n ih =>
    intro off acc res hi h
    unfold walk at h
    split at h
    · simp [bad] at h
    · rename_i hany
      split at h
      · simp at h
      · rename_i blk hr
        have hany' : acc.any (fun x => x.off == off) = false := by simpa using hany
        have hi' := walkInv_cons hi hany' hr
        split at h
        · injection h with h
          rw [← h, List.reverse_reverse]; exact hi'
        · exact ih _ _ _ hi' h

theorem nodup_of_reverse {β} (l : List β) (h : l.reverse.Nodup) : l.Nodup := by
  unfold List.Nodup at *
  rw [List.pairwise_reverse] at h
  exact h.imp (fun hab e => hab e.symm)

theorem nodup_reverse_map {α β} (f : α → β) (l : List α) (h : (l.reverse.map f).Nodup) : (l.map f).Nodup := by
  rw [List.map_reverse] at h; exact nodup_of_reverse _ h

/-! ### pigeonhole: a duplicate-free list of naturals below `n` has at most `n` elements -/

theorem nodup_bound : ∀ (n : Nat) (l : List Nat), l.Nodup → (∀ x ∈ l, x < n) → l.length ≤ n := by
  intro n
  induction n with
  | zero =>
    intro l _ h
    cases l with
    | nil => simp
    | cons a t => exact absurd (h a (by simp)) (by omega)
  | succ n ih =>
    intro l hnd h
    by_cases hm : n ∈ l
    · have h1 : (l.erase n).Nodup := hnd.erase n
      have h2 : ∀ x ∈ l.erase n, x < n := by
        intro x hx
        have hx' := (List.Nodup.mem_erase_iff hnd).mp hx
        have := h x hx'.2
        omega
      have h3 := ih _ h1 h2
      have h4 : (l.erase n).length = l.length - 1 := List.length_erase_of_mem hm
      have h5 : 0 < l.length := List.length_pos_of_mem hm
      omega
    · have h2 : ∀ x ∈ l, x < n := by
        intro x hx
        have := h x hx
        have : x ≠ n := fun e => hm (e ▸ hx)
        omega
      have := ih l hnd h2
      omega

/-- `walk` with fuel = file length minus blocks already read never reports fuel exhaustion -/
theorem walk_ne_fuel (b : ByteArray) : ∀ (fuel off : Nat) (acc : List Block), WalkInv b acc → acc.length + fuel = b.size → 0 < b.size →
    walk b fuel off acc ≠ .error .fuel := by
  intro fuel
  induction fuel with
  | zero =>
    intro off acc hi hl hpos
    exfalso
    -- acc.length = b.size, but the offsets are distinct and each leaves room for a header and one descriptor
    have hb : ∀ x ∈ acc.map (·.off), x < b.size - 1 := by
      intro x hx
      obtain ⟨k, hk, rfl⟩ := List.mem_map.mp hx
      have := readBlock_bounds (hi.1 k hk)
      simp only [NDDS_SZ, OFFSET_SZ, DD_SZ] at this
      omega
    have := nodup_bound _ _ hi.2 hb
    simp only [List.length_map] at this
    omega
  | succ n ih =>
    intro off acc hi hl hpos
    unfold walk
    split
    · simp [bad]
    · rename_i hany
      split
      · rename_i e hr
        intro he
        injection he with he
        exact readBlock_ne_fuel b off (he ▸ hr)
      · rename_i blk hr
        have hany' : acc.any (fun x => x.off == off) = false := by simpa using hany
        have hi' := walkInv_cons hi hany' hr
        split
        · simp
        · exact ih _ _ hi' (by simp only [List.length_cons]; omega) hpos

end H4.Format

namespace H4.Format
open H4.Gen.Hdf H4.Gen.Fmt

/-! ### what a successful `readRaw` / `decodeFile` went through -/

theorem readRaw_ok {b : ByteArray} {raw : Raw} (h : readRaw b = .ok raw) :
    ∃ blocks, readChain b = .ok blocks ∧ chainOK b.size blocks = true ∧ tagsOK (liveDDs blocks) = true ∧
      noDupKeys (liveDDs blocks) = true ∧ extentsOK b.size (liveDDs blocks) = true ∧
      noOverlap (regions blocks (liveDDs blocks)) = true ∧ raw = ⟨b.size, blocks, liveDDs blocks⟩ := by
  unfold readRaw at h
  split at h
  · simp at h
  · rename_i blocks hc
    refine ⟨blocks, hc, ?_⟩
    simp only at h
    split at h
    · simp [bad] at h
    · rename_i h1
      split at h
      · simp [bad] at h
      · rename_i h2
        split at h
        · simp [bad] at h
        · rename_i h3
          split at h
          · simp [bad] at h
          · rename_i h4
            split at h
            · simp [bad] at h
            · rename_i h5
              injection h with h
              simp only [Bool.not_eq_true, Bool.not_eq_eq_eq_not, Bool.not_true, Bool.not_false] at h1 h2 h3 h4 h5
              simp only [Bool.not_eq_false] at h1 h2 h3 h4 h5
              exact ⟨h1, h2, h3, h4, h5, h.symm⟩

theorem decodeFile_raw {b : ByteArray} {c : FileContent} (h : decodeFile b = .ok c) :
    ∃ raw, readRaw b = .ok raw ∧ c.size = raw.size ∧ c.blocks = raw.blocks ∧ c.dds = raw.dds ∧ finalOK c = true := by
  unfold decodeFile at h
  split at h
  · simp at h
  · rename_i raw hr
    split at h
    · simp at h
    · split at h
      · simp at h
      · simp only at h
        split at h
        · rename_i hf
          split at h
          · injection h with h
            subst h
            exact ⟨raw, hr, rfl, rfl, rfl, hf⟩
          · simp [bad] at h
        · simp [bad] at h

theorem readChain_ok {b : ByteArray} {blocks : List Block} (h : readChain b = .ok blocks) :
    magicOK b = true ∧ walk b b.size MAGICLEN [] = .ok blocks := by
  unfold readChain at h
  split at h
  · rename_i hm; exact ⟨hm, h⟩
  · simp [bad] at h

theorem magicOK_size {b : ByteArray} (h : magicOK b = true) : MAGICLEN ≤ b.size := by
  unfold magicOK slice at h
  split at h
  · rename_i hs; omega
  · simp at h

end H4.Format

namespace H4.Format
open H4.Gen.Crle

/-! ### the prefix RLE reader agrees with the proved whole-stream decoder -/

theorem rleAtLeast_of_dec : ∀ (fuel : Nat) (s out : List UInt8) (need : Nat), H4.Rle.decFuel fuel s = some out → need ≤ out.length →
    ∃ o, rleAtLeast fuel need s = some o ∧ o <+: out ∧ need ≤ o.length := by
  intro fuel
  induction fuel with
  | zero =>
    intro s out need h hn
    cases need with
    | zero => exact ⟨[], by simp [rleAtLeast], List.nil_prefix, Nat.le_refl _⟩
    | succ n =>
      cases s with
      | nil => simp [H4.Rle.decFuel] at h; subst h; simp at hn
      | cons a t => simp [H4.Rle.decFuel] at h
  | succ f ih =>
    intro s out need h hn
    cases need with
    | zero => exact ⟨[], by simp [rleAtLeast], List.nil_prefix, Nat.le_refl _⟩
    | succ n =>
      cases s with
      | nil => simp [H4.Rle.decFuel] at h; subst h; simp at hn
      | cons c rest =>
        unfold H4.Rle.decFuel at h
        unfold rleAtLeast
        split at h
        · rename_i hrun
          cases rest with
          | nil => simp at h
          | cons v r =>
            simp only at h ⊢
            cases hd : H4.Rle.decFuel f r with
            | none => rw [hd] at h; simp at h
            | some o2 =>
              rw [hd] at h
              simp only [Option.map_some, Option.some.injEq] at h
              subst h
              simp only [List.length_append, List.length_replicate] at hn
              obtain ⟨o', h1, h2, h3⟩ := ih r o2 (n + 1 - ((c.toNat &&& COUNT_MASK) + RLE_MIN_RUN)) hd (by omega)
              refine ⟨List.replicate ((c.toNat &&& COUNT_MASK) + RLE_MIN_RUN) v ++ o', by rw [if_pos hrun, h1]; rfl, ?_, ?_⟩
              · exact (List.prefix_append_right_inj _).mpr h2
              · simp only [List.length_append, List.length_replicate]; omega
        · rename_i hrun
          simp only at h
          split at h
          · simp at h
          · rename_i hlen
            cases hd : H4.Rle.decFuel f (rest.drop ((c.toNat &&& COUNT_MASK) + RLE_MIN_MIX)) with
            | none => rw [hd] at h; simp at h
            | some o2 =>
              rw [hd] at h
              simp only [Option.map_some, Option.some.injEq] at h
              subst h
              have hk : (rest.take ((c.toNat &&& COUNT_MASK) + RLE_MIN_MIX)).length = (c.toNat &&& COUNT_MASK) + RLE_MIN_MIX := by
                rw [List.length_take]; omega
              simp only [List.length_append, hk] at hn
              obtain ⟨o', h1, h2, h3⟩ := ih _ o2 (n + 1 - ((c.toNat &&& COUNT_MASK) + RLE_MIN_MIX)) hd (by omega)
              refine ⟨rest.take ((c.toNat &&& COUNT_MASK) + RLE_MIN_MIX) ++ o', by rw [if_neg hrun, if_neg hlen, h1]; rfl, ?_, ?_⟩
              · exact (List.prefix_append_right_inj _).mpr h2
              · simp only [List.length_append, hk]; omega

theorem take_of_prefix {α} {o out : List α} {n : Nat} (h : o <+: out) (hn : n ≤ o.length) : o.take n = out.take n := by
  obtain ⟨t, rfl⟩ := h
  rw [List.take_append_of_le_length hn]

/-- on every stream the proved decoder accepts, the prefix reader returns the first `n` bytes of its output -/
theorem rleTake_eq_dec (s out : List UInt8) (n : Nat) (h : H4.Rle.dec s = some out) (hn : n ≤ out.length) :
    rleTake n s = some (out.take n) := by
  obtain ⟨o, h1, h2, h3⟩ := rleAtLeast_of_dec s.length s out n h hn
  simp only [rleTake, h1, Option.map_some, take_of_prefix h2 h3]

end H4.Format
