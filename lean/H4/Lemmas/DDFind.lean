import H4.Lemmas.DDOps
/-! # `Hfind`: exact lookups through the tag tree and wildcard iteration in both directions -/
namespace H4.DD
open H4.Gen.Hdf

/-- the tag-tree path of `HTIfind_dd` / `HTPselect` -/
def lookupPos (s : File) (tag ref : Nat) : Option Pos := lookupDD s.tags s.blocks (baseTag tag) ref

theorem htiFindDD_exact (s : File) {t r : Nat} (ht : t ≠ 0) (hr : r ≠ 0) (pdd : Option Pos) (dir : Dir) :
    htiFindDD s t r pdd dir = (lookupPos s t r, s) := by
  unfold htiFindDD lookupPos
  rw [if_pos ⟨by simpa [DFTAG_WILDCARD] using ht, by simpa [DFTAG_WILDCARD] using hr⟩]

theorem htpSelect_eq (s : File) (t r : Nat) :
    htpSelect s t r = if t = DFTAG_NULL ∨ t = DFTAG_WILDCARD ∨ r = DFREF_WILDCARD then none else lookupPos s t r := by
  unfold htpSelect lookupPos; rfl

/-- what a search `(st, sr)` with at least one wildcard accepts -/
def findMatch (st sr : Nat) (d : DD) : Bool :=
  isLive d && (st == 0 || d.tag == st || (mkSpecial st != DFTAG_NULL && d.tag == mkSpecial st)) && (sr == 0 || d.ref == sr)

/-- the predicate tested by the forward wildcard loops -/
def fwdPred (st sr : Nat) : DD → Bool :=
  if st = 0 ∧ sr = 0 then pAny else if st = 0 then pRef sr else pTag st

theorem fwdPred_eq {st sr : Nat} (hw : st = 0 ∨ sr = 0) (h1 : st ≠ 1) (d : DD) : fwdPred st sr d = findMatch st sr d := by
  unfold fwdPred findMatch
  by_cases h00 : st = 0 ∧ sr = 0
  · rw [if_pos h00]; simp [pAny, isLive, h00.1, h00.2]
  · rw [if_neg h00]
    by_cases hs0 : st = 0
    · rw [if_pos hs0]
      have hsr : (sr == 0) = false := by
        have : sr ≠ 0 := fun e => h00 ⟨hs0, e⟩
        simpa using this
      simp [pRef, isLive, hs0, hsr]
    · rw [if_neg hs0]
      have hsr : sr = 0 := by rcases hw with h | h; exact absurd h hs0; exact h
      have h1' : (st == DFTAG_NULL) = false := by simpa [DFTAG_NULL] using h1
      have hs0' : (st == 0) = false := by simpa using hs0
      simp [pTag, isLive, hsr, h1', hs0', bne]

theorem pBwd_eq {st sr : Nat} (h1 : st ≠ 1) (d : DD) : pBwd st sr d = findMatch st sr d := by
  have h1' : (st == DFTAG_NULL) = false := by simpa [DFTAG_NULL] using h1
  simp [pBwd, findMatch, isLive, h1', DFTAG_WILDCARD, DFREF_WILDCARD, Bool.and_assoc, Bool.or_assoc, bne]

theorem findMatch_live {st sr : Nat} {d : DD} (h : findMatch st sr d = true) : isLive d = true := by
  simp [findMatch] at h; exact h.1.1

theorem htiFindDD_fwd (s : File) {st sr : Nat} (hw : st = 0 ∨ sr = 0) (hn : st ≠ 1) (pdd : Option Pos) :
    htiFindDD s st sr pdd .fwd =
      (scanFwd (fwdPred st sr) s.blocks (match pdd with | none => 0 | some p => p.blk)
        (match pdd with | none => 0 | some p => p.idx + 1), s) := by
  have hc : ¬ (st ≠ DFTAG_WILDCARD ∧ sr ≠ DFTAG_WILDCARD) := by
    simp only [DFTAG_WILDCARD]; omega
  have hnull : ¬ (st = DFTAG_NULL ∧ sr = DFTAG_WILDCARD) := by
    simp only [DFTAG_NULL]; omega
  by_cases h00 : st = 0 ∧ sr = 0
  · have h00' : st = DFTAG_WILDCARD ∧ sr = DFREF_WILDCARD := h00
    simp only [htiFindDD, fwdPred, if_neg hc, if_pos h00', if_pos h00]
    rfl
  · have h00' : ¬ (st = DFTAG_WILDCARD ∧ sr = DFREF_WILDCARD) := h00
    by_cases hs0 : st = 0
    · have hs0' : st = DFTAG_WILDCARD := hs0
      simp only [htiFindDD, fwdPred, if_neg hc, if_neg h00', if_neg h00, if_neg hnull, if_pos hs0', if_pos hs0]
      rfl
    · have hs0' : ¬ st = DFTAG_WILDCARD := hs0
      simp only [htiFindDD, fwdPred, if_neg hc, if_neg h00', if_neg h00, if_neg hnull, if_neg hs0', if_neg hs0]
      rfl

theorem htiFindDD_bwd (s : File) {st sr : Nat} (hw : st = 0 ∨ sr = 0) (pdd : Option Pos) :
    htiFindDD s st sr pdd .bwd =
      (scanBwd (pBwd st sr) s.blocks (match pdd with | none => s.blocks.length - 1 | some p => p.blk)
        (match pdd with
          | none => (match s.blocks.getLast? with | none => 0 | some blk => blk.dds.length)
          | some p => p.idx), s) := by
  have hc : ¬ (st ≠ DFTAG_WILDCARD ∧ sr ≠ DFTAG_WILDCARD) := by
    simp only [DFTAG_WILDCARD]; omega
  simp only [htiFindDD, if_neg hc]
  rfl

/-- a live descriptor is found again through the tag tree, at "the same place" of the slot sequence -/
theorem lookupPos_live {s : File} (hw : WF s) {q : Pos} (hv : Valid s.blocks q) (hl : isLive (getDD s.blocks q) = true) :
    ∃ q', lookupPos s (getDD s.blocks q).tag (getDD s.blocks q).ref = some q' ∧ Valid s.blocks q' ∧
      getDD s.blocks q' = getDD s.blocks q ∧
      preUpto s.blocks q'.blk q'.idx = preUpto s.blocks q.blk q.idx ∧
      sufFrom s.blocks q'.blk (q'.idx + 1) = sufFrom s.blocks q.blk (q.idx + 1) := by
  have hd : getDD s.blocks q ∈ s.live := mem_liveOf.mpr ⟨getDD_mem_slots hv, hl⟩
  unfold lookupPos
  cases hdd : lookupDD s.tags s.blocks (baseTag (getDD s.blocks q).tag) (getDD s.blocks q).ref with
  | none => exact absurd rfl (lookupDD_none hw hdd _ hd)
  | some q' =>
    obtain ⟨hv', hl', hk'⟩ := lookupDD_some hdd
    have hu := split_unique hw.wfl.nodup (slots_split_valid hv') (slots_split_valid hv) hl' hl (by rw [hk']; rfl)
    exact ⟨q', rfl, hv', hu.2.1, hu.1, hu.2.2⟩

theorem hfind_start (s : File) (st sr : Nat) (dir : Dir) :
    hfind s st sr 0 0 dir =
      match htiFindDD s st sr none dir with
      | (none, s') => (none, s')
      | (some q, s') => (some (getDD s'.blocks q), s') := by
  unfold hfind
  rw [if_neg (by simp)]
  rfl

theorem hfind_continue (s : File) (st sr : Nat) {ft fr : Nat} (h : fr ≠ 0 ∨ ft ≠ 0) (dir : Dir) :
    hfind s st sr ft fr dir =
      match htiFindDD s ft fr none dir with
      | (none, s') => (none, s')
      | (some p, s') =>
        match htiFindDD s' st sr (some p) dir with
        | (none, s'') => (none, s'')
        | (some q, s'') => (some (getDD s''.blocks q), s'') := by
  unfold hfind
  rw [if_pos h]
  rfl

theorem live_nonzero {s : File} (hw : WF s) {q : Pos} (hv : Valid s.blocks q) (hl : isLive (getDD s.blocks q) = true) :
    (getDD s.blocks q).tag ≠ 0 ∧ (getDD s.blocks q).ref ≠ 0 := by
  have := hw.wfl.live_ok _ (mem_liveOf.mpr ⟨getDD_mem_slots hv, hl⟩)
  omega

/-- continuing a wildcard search after the live descriptor at `q`: the position is recovered through the tag tree -/
theorem hfind_after {s : File} (hw : WF s) {st sr : Nat} {q : Pos} (hv : Valid s.blocks q)
    (hl : isLive (getDD s.blocks q) = true) (dir : Dir) :
    ∃ q', Valid s.blocks q' ∧ preUpto s.blocks q'.blk q'.idx = preUpto s.blocks q.blk q.idx ∧
      sufFrom s.blocks q'.blk (q'.idx + 1) = sufFrom s.blocks q.blk (q.idx + 1) ∧
      hfind s st sr (getDD s.blocks q).tag (getDD s.blocks q).ref dir =
        match htiFindDD s st sr (some q') dir with
        | (none, s'') => (none, s'')
        | (some q2, s'') => (some (getDD s''.blocks q2), s'') := by
  obtain ⟨ht, hr⟩ := live_nonzero hw hv hl
  obtain ⟨q', hq', hv', _, hpre, hsuf⟩ := lookupPos_live hw hv hl
  refine ⟨q', hv', hpre, hsuf, ?_⟩
  rw [hfind_continue s st sr (Or.inl hr), htiFindDD_exact s ht hr, hq']

theorem iterFind_succ (s : File) (st sr : Nat) (dir : Dir) (fuel ft fr : Nat) :
    iterFind s st sr dir (fuel + 1) ft fr =
      match (hfind s st sr ft fr dir).1 with
      | none => []
      | some d => d :: iterFind s st sr dir fuel d.tag d.ref := rfl

theorem filter_fwdPred {st sr : Nat} (hw : st = 0 ∨ sr = 0) (h1 : st ≠ 1) (l : List DD) :
    l.filter (fwdPred st sr) = l.filter (findMatch st sr) :=
  List.filter_congr (fun d _ => fwdPred_eq hw h1 d)

theorem filter_pBwd {st sr : Nat} (h1 : st ≠ 1) (l : List DD) :
    l.filter (pBwd st sr) = l.filter (findMatch st sr) :=
  List.filter_congr (fun d _ => pBwd_eq h1 d)

theorem iterFind_fwd_from {s : File} (hw : WF s) {st sr : Nat} (hwild : st = 0 ∨ sr = 0) (h1 : st ≠ 1) :
    ∀ (fuel : Nat) (q : Pos), Valid s.blocks q → isLive (getDD s.blocks q) = true →
      (sufFrom s.blocks q.blk (q.idx + 1)).length < fuel →
      iterFind s st sr .fwd fuel (getDD s.blocks q).tag (getDD s.blocks q).ref =
        (sufFrom s.blocks q.blk (q.idx + 1)).filter (findMatch st sr) := by
  intro fuel
  induction fuel with
  | zero => intro q _ _ h; omega
  | succ fuel ih =>
    intro q hv hl hlen
    obtain ⟨q', hv', _, hsuf, hf⟩ := hfind_after (st := st) (sr := sr) hw hv hl .fwd
    rw [iterFind_succ, hf, htiFindDD_fwd s hwild h1]
    simp only
    cases hs : scanFwd (fwdPred st sr) s.blocks q'.blk (q'.idx + 1) with
    | none =>
      simp only
      have := scanFwd_none hs
      rw [hsuf, filter_fwdPred hwild h1] at this
      exact this.symm
    | some q2 =>
      simp only
      obtain ⟨hv2, hp2, mid, hm, hmf⟩ := scanFwd_some hs
      rw [hsuf] at hm
      have hl2 : isLive (getDD s.blocks q2) = true := findMatch_live (by rw [← fwdPred_eq hwild h1]; exact hp2)
      rw [ih q2 hv2 hl2 (by rw [hm] at hlen; simp at hlen; omega), hm, List.filter_append, ← filter_fwdPred hwild h1 mid, hmf]
      simp [List.filter_cons, ← fwdPred_eq hwild h1, hp2]

/-- **forward enumeration**: iterating `Hfind` with a wildcard from the start lists exactly the matching live
    descriptors, in chain order -/
theorem iterFind_fwd {s : File} (hw : WF s) {st sr : Nat} (hwild : st = 0 ∨ sr = 0) (h1 : st ≠ 1)
    {fuel : Nat} (hf : s.slots.length < fuel) :
    iterFind s st sr .fwd fuel 0 0 = s.slots.filter (findMatch st sr) := by
  cases fuel with
  | zero => omega
  | succ fuel =>
    rw [iterFind_succ, hfind_start, htiFindDD_fwd s hwild h1]
    simp only
    cases hs : scanFwd (fwdPred st sr) s.blocks 0 0 with
    | none =>
      simp only
      have := scanFwd_none hs
      rw [sufFrom_zero_zero, filter_fwdPred hwild h1] at this
      exact this.symm
    | some q2 =>
      simp only
      obtain ⟨hv2, hp2, mid, hm, hmf⟩ := scanFwd_some hs
      rw [sufFrom_zero_zero] at hm
      have hl2 : isLive (getDD s.blocks q2) = true := findMatch_live (by rw [← fwdPred_eq hwild h1]; exact hp2)
      have hlen : (sufFrom s.blocks q2.blk (q2.idx + 1)).length < fuel := by
        have : s.slots.length = (slotsOf s.blocks).length := rfl
        rw [this, hm] at hf; simp at hf; omega
      rw [iterFind_fwd_from hw hwild h1 fuel q2 hv2 hl2 hlen]
      show _ = (slotsOf s.blocks).filter _
      rw [hm, List.filter_append, ← filter_fwdPred hwild h1 mid, hmf]
      simp [List.filter_cons, ← fwdPred_eq hwild h1, hp2]

/-! backward -/

theorem drop_length_sub_one' {α} {l : List α} (hne : l ≠ []) : l.drop (l.length - 1) = [l.getLast hne] := by
  have hlt : l.length - 1 < l.length := by
    cases l with
    | nil => exact absurd rfl hne
    | cons a t => simp
  rw [List.drop_eq_getElem_cons hlt, List.getLast_eq_getElem]
  have : l.length - 1 + 1 = l.length := by omega
  simp [this]

theorem preUpto_last {blocks : List Block} (hne : blocks ≠ []) :
    preUpto blocks (blocks.length - 1) (match blocks.getLast? with | none => 0 | some blk => blk.dds.length) =
      slotsOf blocks := by
  have h1 := slots_split blocks (blocks.length - 1) (match blocks.getLast? with | none => 0 | some blk => blk.dds.length)
  have hd : blocks.drop (blocks.length - 1) = [blocks.getLast hne] := drop_length_sub_one' hne
  have hl : blocks.getLast? = some (blocks.getLast hne) := List.getLast?_eq_some_getLast hne
  rw [h1]
  unfold sufFrom
  rw [hd, hl]
  simp

theorem iterFind_bwd_from {s : File} (hw : WF s) {st sr : Nat} (hwild : st = 0 ∨ sr = 0) (h1 : st ≠ 1) :
    ∀ (fuel : Nat) (q : Pos), Valid s.blocks q → isLive (getDD s.blocks q) = true →
      (preUpto s.blocks q.blk q.idx).length < fuel →
      iterFind s st sr .bwd fuel (getDD s.blocks q).tag (getDD s.blocks q).ref =
        ((preUpto s.blocks q.blk q.idx).filter (findMatch st sr)).reverse := by
  intro fuel
  induction fuel with
  | zero => intro q _ _ h; omega
  | succ fuel ih =>
    intro q hv hl hlen
    obtain ⟨q', hv', hpre, _, hf⟩ := hfind_after (st := st) (sr := sr) hw hv hl .bwd
    rw [iterFind_succ, hf, htiFindDD_bwd s hwild]
    simp only
    cases hs : scanBwd (pBwd st sr) s.blocks q'.blk q'.idx with
    | none =>
      simp only
      have := scanBwd_none (valid_blk_lt hv') hs
      rw [hpre, filter_pBwd h1] at this
      rw [this]; rfl
    | some q2 =>
      simp only
      obtain ⟨hv2, hp2, mid, hm, hmf⟩ := scanBwd_some hs
      rw [hpre] at hm
      have hl2 : isLive (getDD s.blocks q2) = true := findMatch_live (by rw [← pBwd_eq h1]; exact hp2)
      rw [ih q2 hv2 hl2 (by rw [hm] at hlen; simp at hlen; omega), hm, List.filter_append, List.filter_cons,
        ← filter_pBwd h1 mid, hmf]
      simp [← pBwd_eq h1, hp2]

/-- **backward enumeration** -/
theorem iterFind_bwd {s : File} (hw : WF s) {st sr : Nat} (hwild : st = 0 ∨ sr = 0) (h1 : st ≠ 1)
    {fuel : Nat} (hf : s.slots.length < fuel) :
    iterFind s st sr .bwd fuel 0 0 = (s.slots.filter (findMatch st sr)).reverse := by
  have hne : s.blocks ≠ [] := by intro e; have := hw.ne; simp [e] at this
  cases fuel with
  | zero => omega
  | succ fuel =>
    rw [iterFind_succ, hfind_start, htiFindDD_bwd s hwild]
    simp only
    have hlt : s.blocks.length - 1 < s.blocks.length := by have := hw.ne; omega
    cases hs : scanBwd (pBwd st sr) s.blocks (s.blocks.length - 1)
        (match s.blocks.getLast? with | none => 0 | some blk => blk.dds.length) with
    | none =>
      simp only
      have := scanBwd_none hlt hs
      rw [preUpto_last hne, filter_pBwd h1] at this
      show _ = ((slotsOf s.blocks).filter _).reverse
      rw [this]; rfl
    | some q2 =>
      simp only
      obtain ⟨hv2, hp2, mid, hm, hmf⟩ := scanBwd_some hs
      rw [preUpto_last hne] at hm
      have hl2 : isLive (getDD s.blocks q2) = true := findMatch_live (by rw [← pBwd_eq h1]; exact hp2)
      have hlen : (preUpto s.blocks q2.blk q2.idx).length < fuel := by
        have : s.slots.length = (slotsOf s.blocks).length := rfl
        rw [this, hm] at hf; simp at hf; omega
      rw [iterFind_bwd_from hw hwild h1 fuel q2 hv2 hl2 hlen]
      show _ = ((slotsOf s.blocks).filter _).reverse
      rw [hm, List.filter_append, List.filter_cons, ← filter_pBwd h1 mid, hmf]
      simp [← pBwd_eq h1, hp2]

theorem filter_findMatch_live (st sr : Nat) (l : List DD) :
    l.filter (findMatch st sr) = (liveOf l).filter (findMatch st sr) := by
  unfold liveOf
  rw [List.filter_filter]
  apply List.filter_congr
  intro d _
  simp [findMatch]
  intro h _ _; exact h

end H4.DD
