import H4.Lemmas.ElemRefine
/-! From the per-call simulation to whole result traces: `specStep` respects `Eqv`. -/
namespace H4.Elem
open H4.Gen.Hdf

/-- every access id of the view is on a user element -/
def View.UserHnd (v : View) : Prop := ∀ h hv, v.hnd h = some hv → UserKey hv.key

/-- the tag/ref named by a call is a user key -/
def OpKeyOK : Op → Prop
  | .startaccess _ _ tag ref _ _ => UserKey (tag, ref)
  | .startwrite _ _ tag ref _ => UserKey (tag, ref)
  | .hlcreate _ _ tag ref _ _ => UserKey (tag, ref)
  | .deldd _ tag ref => UserKey (tag, ref)
  | _ => True

theorem Eqv.setElem {v v' : View} (e : v.Eqv v') (fi : Nat) (k : Nat × Nat) (x : Option (Option Bytes)) :
    (v.setElem fi k x).Eqv (v'.setElem fi k x) := by
  refine ⟨e.1, ?_, e.2.2⟩
  intro j k' hu
  simp only [View.setElem]
  split
  · rfl
  · exact e.2.1 j k' hu

theorem UserHnd.setElem {v : View} (hv : v.UserHnd) (fi : Nat) (k : Nat × Nat) (x : Option (Option Bytes)) :
    (v.setElem fi k x).UserHnd := hv

theorem UserHnd.setHnd {v : View} (hv : v.UserHnd) (h : Nat) (y : Option HView) (hy : ∀ z, y = some z → UserKey z.key) :
    (v.setHnd h y).UserHnd := by
  intro h' z hz
  simp only [View.setHnd] at hz
  split at hz
  · exact hy z hz
  · exact hv h' z hz

theorem UserHnd.of_eqv {v v' : View} (e : v.Eqv v') (hv : v.UserHnd) : v'.UserHnd := by
  intro h z hz; rw [← e.2.2 h] at hz; exact hv h z hz

/-- the common shape of the calls that go through an access id -/
theorem specStep_congr (v v' : View) (e : v.Eqv v') (hu : v.UserHnd) (op : Op) (hk : OpKeyOK op) (r : Res) (v1 : View)
    (hs : specStep v op r = some v1) : ∃ v1', specStep v' op r = some v1' ∧ v1.Eqv v1' ∧ v1.UserHnd := by
  have hhnd : ∀ h, v'.hnd h = v.hnd h := fun h => (e.2.2 h).symm
  have hel : ∀ fi k, UserKey k → v'.elem fi k = v.elem fi k := fun fi k h => (e.2.1 fi k h).symm
  have hpr : ∀ fi, v'.present fi = v.present fi := fun fi => (e.1 fi).symm
  cases op with
  | «open» fi mode ndds =>
    cases r with
    | ok =>
      have h1 : ∀ u : View, specStep u (.open fi mode ndds) .ok =
          if mode = DFACC_CREATE ∨ u.present fi = false then
            some { u with present := fun fi' => if fi' = fi then true else u.present fi',
                          elem := fun fi' k => if fi' = fi then none else u.elem fi' k }
          else some u := fun _ => rfl
      rw [h1] at hs ⊢
      rw [hpr]
      split at hs <;> cases hs
      · rename_i c
        rw [if_pos c]
        refine ⟨_, rfl, ⟨?_, ?_, e.2.2⟩, hu⟩
        · intro j
          show (if j = fi then true else v.present j) = (if j = fi then true else v'.present j)
          split
          · rfl
          · exact e.1 j
        · intro j k hk'
          show (if j = fi then none else v.elem j k) = (if j = fi then none else v'.elem j k)
          split
          · rfl
          · exact e.2.1 j k hk'
      · rename_i c
        rw [if_neg c]
        exact ⟨_, rfl, e, hu⟩
    | fail => cases hs; exact ⟨_, rfl, e, hu⟩
    | crash => cases hs
    | num _ => cases hs
    | data _ _ => cases hs
    | info _ _ _ _ => cases hs
  | close fi =>
    cases r <;> simp only [specStep] at hs ⊢ <;> try contradiction
    all_goals (cases hs; exact ⟨_, rfl, e, hu⟩)
  | startaccess h fi tag ref wr app =>
    have hbase : baseTag tag = tag := baseTag_not_special _ hk.1
    cases r <;> simp only [specStep] at hs ⊢ <;> try contradiction
    · cases hs; exact ⟨_, rfl, e, hu⟩
    · rw [hbase] at hs ⊢
      rw [hel fi (tag, ref) hk]
      cases hs
      refine ⟨_, rfl, ?_, ?_⟩
      · apply Eqv.setHnd
        split
        · exact Eqv.setElem e _ _ _
        · exact e
      · apply UserHnd.setHnd
        · split
          · exact hu
          · exact hu
        · intro z hz; cases hz; exact hk
  | startwrite h fi tag ref len =>
    have hbase : baseTag tag = tag := baseTag_not_special _ hk.1
    cases r <;> simp only [specStep] at hs ⊢ <;> try contradiction
    · cases hs; exact ⟨_, rfl, e, hu⟩
    · rw [hbase] at hs ⊢
      rw [hel fi (tag, ref) hk]
      cases hs
      refine ⟨_, rfl, ?_, ?_⟩
      · apply Eqv.setHnd
        split
        · exact Eqv.setElem e _ _ _
        · exact Eqv.setElem e _ _ _
        · exact e
      · apply UserHnd.setHnd
        · split <;> exact hu
        · intro z hz; cases hz; exact hk
  | setlength h len =>
    cases r <;> simp only [specStep] at hs ⊢ <;> try contradiction
    · cases hs; exact ⟨_, rfl, e, hu⟩
    · rw [hhnd]
      cases hh : v.hnd h with
      | none => rw [hh] at hs; cases hs
      | some hv =>
        rw [hh] at hs
        simp only at hs ⊢
        rw [hel _ _ (hu h hv hh)]
        split at hs <;> cases hs
        rename_i c
        rw [if_pos c]
        exact ⟨_, rfl, Eqv.setElem e _ _ _, hu⟩
  | hlcreate h fi tag ref blen nblk =>
    have hbase : baseTag tag = tag := baseTag_not_special _ hk.1
    cases r <;> simp only [specStep] at hs ⊢ <;> try contradiction
    · cases hs; exact ⟨_, rfl, e, hu⟩
    · rw [hbase] at hs ⊢
      rw [hel fi (tag, ref) hk]
      cases hs
      refine ⟨_, rfl, ?_, ?_⟩
      · apply Eqv.setHnd
        split
        · exact Eqv.setElem e _ _ _
        · exact Eqv.setElem e _ _ _
        · exact e
      · apply UserHnd.setHnd
        · split <;> exact hu
        · intro z hz; cases hz; exact hk
  | hlconvert h blen nblk =>
    cases r <;> simp only [specStep] at hs ⊢ <;> try contradiction
    · cases hs; exact ⟨_, rfl, e, hu⟩
    · rw [hhnd]
      cases hh : v.hnd h with
      | none => rw [hh] at hs; cases hs
      | some hv =>
        rw [hh] at hs
        simp only at hs ⊢
        rw [hel _ _ (hu h hv hh)]
        split at hs <;> cases hs
        · rename_i c; rw [if_pos c]; exact ⟨_, rfl, Eqv.setElem e _ _ _, hu⟩
        · rename_i c; rw [if_neg c]; exact ⟨_, rfl, e, hu⟩
  | setblockinfo h blen nblk =>
    cases r <;> simp only [specStep] at hs ⊢ <;> try contradiction
    all_goals (cases hs; exact ⟨_, rfl, e, hu⟩)
  | appendable h =>
    cases r <;> simp only [specStep] at hs ⊢ <;> try contradiction
    all_goals (cases hs; exact ⟨_, rfl, e, hu⟩)
  | seek h off origin =>
    cases r <;> simp only [specStep] at hs ⊢ <;> try contradiction
    · cases hs; exact ⟨_, rfl, e, hu⟩
    · rw [hhnd]
      cases hh : v.hnd h with
      | none => rw [hh] at hs; cases hs
      | some hv =>
        rw [hh] at hs
        simp only at hs ⊢
        rw [hel _ _ (hu h hv hh)]
        cases hx : v.elem hv.file hv.key with
        | none => rw [hx] at hs; cases hs
        | some x =>
          rw [hx] at hs
          simp only at hs ⊢
          split at hs <;> cases hs
          rename_i c
          rw [if_neg c]
          refine ⟨_, rfl, ?_, ?_⟩
          · apply Eqv.setHnd
            split
            · exact Eqv.setElem e _ _ _
            · exact e
          · apply UserHnd.setHnd
            · split <;> exact hu
            · intro z hz; cases hz; exact hu h hv hh
  | tell h =>
    cases r <;> simp only [specStep] at hs ⊢ <;> try contradiction
    · cases hs; exact ⟨_, rfl, e, hu⟩
    · rw [hhnd]
      cases hh : v.hnd h with
      | none => rw [hh] at hs; cases hs
      | some hv =>
        rw [hh] at hs
        simp only at hs ⊢
        split at hs <;> cases hs
        rename_i c; rw [if_pos c]; exact ⟨_, rfl, e, hu⟩
  | inquire h =>
    cases r <;> simp only [specStep] at hs ⊢ <;> try contradiction
    · cases hs; exact ⟨_, rfl, e, hu⟩
    · rw [hhnd]
      cases hh : v.hnd h with
      | none => rw [hh] at hs; cases hs
      | some hv =>
        rw [hh] at hs
        simp only at hs ⊢
        rw [hel _ _ (hu h hv hh)]
        cases hx : v.elem hv.file hv.key with
        | none => rw [hx] at hs; cases hs
        | some x =>
          rw [hx] at hs
          simp only at hs ⊢
          split at hs <;> cases hs
          rename_i c; rw [if_pos c]; exact ⟨_, rfl, e, hu⟩
  | read h n =>
    cases r <;> simp only [specStep] at hs ⊢ <;> try contradiction
    · cases hs; exact ⟨_, rfl, e, hu⟩
    · rw [hhnd]
      cases hh : v.hnd h with
      | none => rw [hh] at hs; cases hs
      | some hv =>
        rw [hh] at hs
        simp only at hs ⊢
        rw [hel _ _ (hu h hv hh)]
        cases hx : v.elem hv.file hv.key with
        | none => rw [hx] at hs; cases hs
        | some x =>
          cases x with
          | none => rw [hx] at hs; cases hs
          | some b =>
            rw [hx] at hs
            simp only at hs ⊢
            split at hs <;> cases hs
            rename_i c; rw [if_pos c]
            refine ⟨_, rfl, Eqv.setHnd e _ _, UserHnd.setHnd hu _ _ ?_⟩
            intro z hz; cases hz; exact hu h hv hh
  | write h bs =>
    cases r <;> simp only [specStep] at hs ⊢ <;> try contradiction
    · cases hs; exact ⟨_, rfl, e, hu⟩
    · rw [hhnd]
      cases hh : v.hnd h with
      | none => rw [hh] at hs; cases hs
      | some hv =>
        rw [hh] at hs
        simp only at hs ⊢
        rw [hel _ _ (hu h hv hh)]
        cases hx : v.elem hv.file hv.key with
        | none => rw [hx] at hs; cases hs
        | some x =>
          rw [hx] at hs
          simp only at hs ⊢
          split at hs <;> cases hs
          rename_i c; rw [if_pos c]
          refine ⟨_, rfl, Eqv.setHnd (Eqv.setElem e _ _ _) _ _, UserHnd.setHnd hu _ _ ?_⟩
          intro z hz; cases hz; exact hu h hv hh
  | trunc h n =>
    cases r <;> simp only [specStep] at hs ⊢ <;> try contradiction
    · cases hs; exact ⟨_, rfl, e, hu⟩
    · rw [hhnd]
      cases hh : v.hnd h with
      | none => rw [hh] at hs; cases hs
      | some hv =>
        rw [hh] at hs
        simp only at hs ⊢
        rw [hel _ _ (hu h hv hh)]
        cases hx : v.elem hv.file hv.key with
        | none => rw [hx] at hs; cases hs
        | some x =>
          cases x with
          | none => rw [hx] at hs; cases hs
          | some b =>
            rw [hx] at hs
            simp only at hs ⊢
            split at hs <;> cases hs
            rename_i c; rw [if_pos c]
            refine ⟨_, rfl, Eqv.setHnd (Eqv.setElem e _ _ _) _ _, UserHnd.setHnd hu _ _ ?_⟩
            intro z hz; cases hz; exact hu h hv hh
  | endaccess h =>
    cases r <;> simp only [specStep] at hs ⊢ <;> try contradiction
    · cases hs; exact ⟨_, rfl, e, hu⟩
    · cases hs
      exact ⟨_, rfl, Eqv.setHnd e _ _, UserHnd.setHnd hu _ _ (fun z hz => by cases hz)⟩
  | deldd fi tag ref =>
    cases r <;> simp only [specStep] at hs ⊢ <;> try contradiction
    · cases hs; exact ⟨_, rfl, e, hu⟩
    · cases hs
      exact ⟨_, rfl, Eqv.setElem e _ _ _, hu⟩

end H4.Elem

namespace H4.Elem
open H4.Gen.Hdf

theorem specRun_congr (ops : List Op) : ∀ (v v' : View) (rs : List Res) (vf : View), v.Eqv v' → v.UserHnd →
    (∀ op ∈ ops, OpKeyOK op) → specRun v ops rs = some vf → ∃ vf', specRun v' ops rs = some vf' ∧ vf.Eqv vf' := by
  induction ops with
  | nil =>
    intro v v' rs vf e _ _ hs
    cases rs with
    | nil => simp only [specRun] at hs ⊢; cases hs; exact ⟨_, rfl, e⟩
    | cons _ _ => simp only [specRun] at hs; cases hs
  | cons op ops ih =>
    intro v v' rs vf e hu hk hs
    cases rs with
    | nil => simp only [specRun] at hs; cases hs
    | cons r rs =>
      simp only [specRun] at hs ⊢
      cases h1 : specStep v op r with
      | none => rw [h1] at hs; cases hs
      | some v1 =>
        rw [h1] at hs
        simp only [Option.bind_some] at hs
        obtain ⟨v1', h2, e1, hu1⟩ := specStep_congr v v' e hu op (hk op (List.mem_cons_self ..)) r v1 h1
        rw [h2]
        simp only [Option.bind_some]
        exact ih v1 v1' rs vf e1 hu1 (fun o ho => hk o (List.mem_cons_of_mem _ ho)) hs

theorem safe_key (w : World) (op : Op) (h : OpSafe w op) : OpKeyOK op := by
  cases op <;> try trivial
  · exact h.2
  · exact h.2
  · exact h.2.1
  · exact h.1

theorem safe_keys (ops : List Op) : ∀ w, Safe w ops → ∀ op ∈ ops, OpKeyOK op := by
  induction ops with
  | nil => intro _ _ op h; cases h
  | cons o ops ih =>
    intro w hs op hm
    rcases List.mem_cons.mp hm with e | e
    · rw [e]; exact safe_key w o hs.1
    · exact ih _ hs.2 op e

theorem abs_userHnd (w : World) (hw : WFW w) : (abs w).UserHnd := by
  intro h hv hh
  rw [abs_hnd] at hh
  cases ha : w.acc h with
  | none => rw [ha] at hh; cases hh
  | some a =>
    rw [ha] at hh
    simp only [Option.map_some, Option.some.injEq] at hh
    subst hh
    exact (hw.handles h a ha).user

/-- trace form: the list of results a safe history returns is a list of results of byte arrays, and the final state is
    the byte arrays' final state -/
theorem trace_of_safe (ops : List Op) : ∀ (w : World), WFW w → Safe w ops →
    ∃ vf, specRun (abs w) ops (run w ops).2 = some vf ∧ vf.Eqv (abs (run w ops).1) := by
  induction ops with
  | nil => intro w _ _; exact ⟨abs w, rfl, Eqv.refl _⟩
  | cons op ops ih =>
    intro w hw hs
    obtain ⟨hw1, v1, h1, e1⟩ := stepOK_all w hw op hs.1
    obtain ⟨vf, h2, e2⟩ := ih (step w op).1 hw1 hs.2
    obtain ⟨vf', h3, e3⟩ := specRun_congr ops (abs (step w op).1) v1 _ vf (Eqv.symm e1) (abs_userHnd _ hw1)
      (safe_keys ops _ hs.2) h2
    refine ⟨vf', ?_, Eqv.trans (Eqv.symm e3) ?_⟩
    · simp only [run, specRun, h1, Option.bind_some]
      exact h3
    · simp only [run]
      exact e2

end H4.Elem
