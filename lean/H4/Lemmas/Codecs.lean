import H4.Codecs
/-! Helper lemmas for C15: the `dfrle.c` round trip (encoder invariant + decoder-on-serialisation lemma).
    Property statements live in `H4/Props/C15.lean`. -/
namespace H4.Codecs
open H4.Gen.Codecs

/-- the measured limits of `DFCIrle` the proofs below were written for (Tie A re-measures them on every run) -/
theorem rle_consts : DFRLE_MAX_RUN = 120 ∧ DFRLE_MAX_LIT = 121 ∧ DFRLE_MIN_RUN = 3 ∧ DFRLE_RUN_FLAG = 128 := by decide

theorem toNat_ofNat_lt (n : Nat) (h : n < 256) : (UInt8.ofNat n).toNat = n := by
  simp [UInt8.toNat_ofNat']
  omega

theorem and128_lo : ∀ k < 128, k &&& 128 = 0 := by decide
theorem or128 : ∀ k < 128, 128 ||| k = 128 + k := by decide
theorem and128_hi : ∀ k < 128, (128 + k) &&& 128 = 128 := by decide
theorem and127_hi : ∀ k < 128, (128 + k) &&& 127 = k := by decide

theorem runScan_spec (v : Byte) : ∀ (l : List Byte) (cap : Nat),
    runScan v l cap ≤ cap ∧ runScan v l cap ≤ l.length ∧ l.take (runScan v l cap) = List.replicate (runScan v l cap) v := by
  intro l
  induction l with
  | nil => intro cap; simp [runScan]
  | cons b bs ih =>
    intro cap
    cases cap with
    | zero => simp [runScan]
    | succ cap =>
      by_cases hb : b = v
      · obtain ⟨h1, h2, h3⟩ := ih cap
        simp only [runScan, hb, ↓reduceIte, List.length_cons, List.take_succ_cons, List.replicate_succ]
        refine ⟨by omega, by omega, by rw [h3]⟩
      · simp [runScan, hb]

theorem expand_append (a b : List Pkt) : expand (a ++ b) = expand a ++ expand b := by
  simp [expand]

theorem ser_cons (p : Pkt) (ps : List Pkt) : ser (p :: ps) = p.ser ++ ser ps := by simp [ser]
theorem expand_cons (p : Pkt) (ps : List Pkt) : expand (p :: ps) = p.expand ++ expand ps := by simp [expand]

theorem flushLit_ok (lit : List Byte) (h : lit.length ≤ 121) :
    (∀ p ∈ flushLit lit, p.Valid) ∧ expand (flushLit lit) = lit := by
  obtain ⟨c1, c2, c3, c4⟩ := rle_consts
  cases lit with
  | nil => simp [flushLit, expand]
  | cons a l =>
    simp [flushLit, expand, Pkt.expand, Pkt.Valid, c2] at h ⊢
    omega

/-- encoder invariant: with at most 120 bytes pending, the loop emits valid packets that expand to pending ++ input -/
theorem encLoop_ok : ∀ (fuel : Nat) (lit input : List Byte), input.length ≤ fuel → lit.length ≤ 120 →
    (∀ p ∈ encLoop fuel lit input, p.Valid) ∧ expand (encLoop fuel lit input) = lit ++ input := by
  obtain ⟨c1, c2, c3, c4⟩ := rle_consts
  intro fuel
  induction fuel with
  | zero =>
    intro lit input hf hl
    have : input = [] := List.eq_nil_of_length_eq_zero (by omega)
    subst this
    have := flushLit_ok lit (by omega)
    simpa [encLoop] using this
  | succ fuel ih =>
    intro lit input hf hl
    cases input with
    | nil =>
      have := flushLit_ok lit (by omega)
      simpa [encLoop] using this
    | cons v rest =>
      obtain ⟨s1, s2, s3⟩ := runScan_spec v rest (DFRLE_MAX_RUN - 1)
      generalize hk : runScan v rest (DFRLE_MAX_RUN - 1) = k at s1 s2 s3
      rw [c1] at s1
      simp only [List.length_cons] at hf
      by_cases hrun : 1 + k ≥ DFRLE_MIN_RUN
      · -- a run of 1 + k bytes
        have hd : (rest.drop k).length ≤ fuel := by simp; omega
        obtain ⟨i1, i2⟩ := ih [] (rest.drop k) hd (by simp)
        obtain ⟨f1, f2⟩ := flushLit_ok lit (by omega)
        simp only [encLoop, hk, hrun, ↓reduceIte, Nat.add_sub_cancel_left]
        refine ⟨?_, ?_⟩
        · intro p hp
          rcases List.mem_append.mp hp with hp | hp
          · exact f1 p hp
          · rcases List.mem_cons.mp hp with hp | hp
            · subst hp; simp only [Pkt.Valid, c1]; exact ⟨hrun, by omega⟩
            · exact i1 p hp
        · rw [expand_append, expand_cons, f2, i2]
          simp only [Pkt.expand, List.nil_append]
          have : v :: rest = List.replicate (1 + k) v ++ rest.drop k := by
            conv => lhs; rw [← List.take_append_drop k rest, s3]
            simp [Nat.add_comm 1 k, List.replicate_succ]
          rw [this]
      · simp only [encLoop, hk, hrun, ↓reduceIte]
        by_cases hfull : (lit ++ [v]).length ≥ DFRLE_MAX_LIT
        · obtain ⟨i1, i2⟩ := ih [] rest (by omega) (by simp)
          simp only [hfull, ↓reduceIte]
          refine ⟨?_, ?_⟩
          · intro p hp
            rcases List.mem_cons.mp hp with hp | hp
            · subst hp; simp [Pkt.Valid, c2]; omega
            · exact i1 p hp
          · rw [expand_cons, i2]; simp [Pkt.expand]
        · simp only [hfull, ↓reduceIte]
          rw [c2] at hfull
          obtain ⟨i1, i2⟩ := ih (lit ++ [v]) rest (by omega) (by simp at hfull ⊢; omega)
          exact ⟨i1, by rw [i2]; simp⟩

theorem rlePkts_ok (row : List Byte) : (∀ p ∈ rlePkts row, p.Valid) ∧ expand (rlePkts row) = row := by
  have := encLoop_ok row.length [] row (Nat.le_refl _) (by simp)
  simpa [rlePkts] using this

theorem valid_expand_pos (p : Pkt) (h : p.Valid) : 1 ≤ p.expand.length := by
  obtain ⟨c1, c2, c3, c4⟩ := rle_consts
  cases p with
  | lit l => exact h.1
  | run n v => simp only [Pkt.Valid, c3] at h; simp [Pkt.expand]; omega

theorem ser_length_pos (p : Pkt) : 1 ≤ p.ser.length := by
  cases p <;> simp [Pkt.ser]

/-- decoder on a serialised packet list followed by anything: asked for exactly the expansion, it returns it,
    consumes exactly the packets and saves nothing -/
theorem unrleLoop_ser (tail : List Byte) : ∀ (ps : List Pkt), (∀ p ∈ ps, p.Valid) → ∀ fuel, (ser ps).length ≤ fuel →
    unrleLoop fuel (ser ps ++ tail) (expand ps).length = some ⟨expand ps, (ser ps).length, []⟩ := by
  obtain ⟨c1, c2, c3, c4⟩ := rle_consts
  intro ps
  induction ps with
  | nil => intro _ fuel _; simp [ser, expand, unrleLoop]
  | cons p ps ih =>
    intro hv fuel hf
    have hvp : p.Valid := hv p (by simp)
    have hvps : ∀ q ∈ ps, q.Valid := fun q hq => hv q (by simp [hq])
    have hpos := valid_expand_pos p hvp
    rw [ser_cons] at hf ⊢
    rw [expand_cons]
    cases fuel with
    | zero => have := ser_length_pos p; rw [List.length_append] at hf; omega
    | succ fuel =>
      cases p with
      | lit l =>
        obtain ⟨h1, h121⟩ := hvp
        rw [c2] at h121
        have hlen : (ser ps).length ≤ fuel := by simp [Pkt.ser] at hf; omega
        obtain ⟨m, hm⟩ : ∃ m, (l ++ expand ps).length = m + 1 := ⟨l.length + (expand ps).length - 1, by simp; omega⟩
        have hc : (UInt8.ofNat l.length).toNat = l.length := toNat_ofNat_lt _ (by omega)
        simp only [Pkt.ser, Pkt.expand, List.cons_append, hm]
        simp only [unrleLoop, hc, c4, and128_lo _ (show l.length < 128 by omega), ↓reduceIte]
        have h2 : ¬ (l ++ (ser ps ++ tail)).length < l.length := by simp
        have h3 : l.length ≤ m + 1 := by simp at hm; omega
        have h4 : m + 1 - l.length = (expand ps).length := by simp at hm; omega
        simp only [List.append_assoc, h2, ↓reduceIte, h3, List.take_left, List.drop_left, h4, ih hvps fuel hlen, Option.map_some]
        simp; omega
      | run n v =>
        obtain ⟨h3, h120⟩ := hvp
        rw [c3] at h3; rw [c1] at h120
        have hlen : (ser ps).length ≤ fuel := by simp [Pkt.ser] at hf; omega
        obtain ⟨m, hm⟩ : ∃ m, (List.replicate n v ++ expand ps).length = m + 1 := ⟨n + (expand ps).length - 1, by simp; omega⟩
        have hk : n < 128 := by omega
        have hc : (UInt8.ofNat (128 ||| n)).toNat = 128 + n := by rw [or128 _ hk]; exact toNat_ofNat_lt _ (by omega)
        simp only [Pkt.ser, Pkt.expand, List.cons_append, List.nil_append, hm, c4]
        simp only [unrleLoop, hc, c4, and128_hi _ hk]
        have h5 : (128 + n) &&& (128 - 1) = n := and127_hi _ hk
        have h3' : n ≤ m + 1 := by simp at hm; omega
        have h4 : m + 1 - n = (expand ps).length := by simp at hm; omega
        simp only [Nat.reduceEqDiff, ↓reduceIte, h5, h3', h4, ih hvps fuel hlen, Option.map_some]
        simp; omega

end H4.Codecs

namespace H4.Codecs
open H4.Gen.Codecs

/-! ### size of the compressed row (the buffer `DFputcomp` allocates) -/

theorem ser_append (a b : List Pkt) : ser (a ++ b) = ser a ++ ser b := by simp [ser]

theorem flushLit_len (lit : List Byte) : (ser (flushLit lit)).length ≤ lit.length + 1 := by
  cases lit <;> simp [flushLit, ser, Pkt.ser]

/-- with `l ≤ 120` bytes pending and `m` bytes of input the loop emits at most `l + m + 1 + (l + m) / 121` bytes:
    a run costs 2 bytes for ≥ 3, a literal block one count byte per at most 121 bytes -/
theorem encLoop_len : ∀ (fuel : Nat) (lit input : List Byte), input.length ≤ fuel → lit.length ≤ 120 →
    (ser (encLoop fuel lit input)).length ≤ lit.length + input.length + 1 + (lit.length + input.length) / 121 := by
  obtain ⟨c1, c2, c3, c4⟩ := rle_consts
  intro fuel
  induction fuel with
  | zero =>
    intro lit input hf hl
    have : input = [] := List.eq_nil_of_length_eq_zero (by omega)
    subst this
    have := flushLit_len lit
    simp only [encLoop, List.length_nil] at *; omega
  | succ fuel ih =>
    intro lit input hf hl
    cases input with
    | nil => have := flushLit_len lit; simp only [encLoop, List.length_nil] at *; omega
    | cons v rest =>
      obtain ⟨s1, s2, _⟩ := runScan_spec v rest (DFRLE_MAX_RUN - 1)
      generalize hk : runScan v rest (DFRLE_MAX_RUN - 1) = k at s1 s2
      simp only [List.length_cons] at hf
      by_cases hrun : 1 + k ≥ DFRLE_MIN_RUN
      · have i1 := ih [] (rest.drop k) (by simp; omega) (by simp)
        have f1 := flushLit_len lit
        simp only [encLoop, hk, hrun, ↓reduceIte, Nat.add_sub_cancel_left, ser_append, ser_cons, List.length_append, Pkt.ser,
          List.length_cons, List.length_nil, List.length_drop] at i1 ⊢
        rw [c3] at hrun
        omega
      · simp only [encLoop, hk, hrun, ↓reduceIte]
        by_cases hfull : (lit ++ [v]).length ≥ DFRLE_MAX_LIT
        · have i1 := ih [] rest (by omega) (by simp)
          simp only [hfull, ↓reduceIte]
          simp only [ser_cons, List.length_append, Pkt.ser, List.length_cons, List.length_nil] at i1 ⊢
          rw [c2] at hfull; simp only [List.length_append, List.length_cons, List.length_nil] at hfull
          omega
        · simp only [hfull, ↓reduceIte]
          rw [c2] at hfull; simp only [List.length_append, List.length_cons, List.length_nil] at hfull
          have i1 := ih (lit ++ [v]) rest (by omega) (by simp only [List.length_append, List.length_cons, List.length_nil]; omega)
          simp only [List.length_append, List.length_cons, List.length_nil] at i1 ⊢
          omega

end H4.Codecs

namespace H4.Codecs
open H4.Gen.Codecs

/-! ### decoding in pieces (the `save` area) -/

/-- one iteration of the decoder loop on a valid packet, uniformly for both kinds: the whole expansion goes out when it
    fits, else its first `need` bytes go out and the rest is saved -/
theorem unrleLoop_step (p : Pkt) (hp : p.Valid) (rest : List Byte) (f m : Nat) :
    unrleLoop (f + 1) (p.ser ++ rest) (m + 1) =
      if p.expand.length ≤ m + 1 then
        (unrleLoop f rest (m + 1 - p.expand.length)).map fun r => ⟨p.expand ++ r.out, p.ser.length + r.used, r.save⟩
      else some ⟨p.expand.take (m + 1), p.ser.length, p.expand.drop (m + 1)⟩ := by
  obtain ⟨c1, c2, c3, c4⟩ := rle_consts
  cases p with
  | lit l =>
    obtain ⟨h1, h121⟩ := hp
    rw [c2] at h121
    have hc : (UInt8.ofNat l.length).toNat = l.length := toNat_ofNat_lt _ (by omega)
    have h2 : ¬ (l ++ rest).length < l.length := by simp
    simp only [Pkt.ser, Pkt.expand, List.cons_append, unrleLoop, hc, c4, and128_lo _ (show l.length < 128 by omega), ↓reduceIte,
      h2, List.take_left, List.drop_left, List.length_cons]
    by_cases h : l.length ≤ m + 1
    · simp only [h, ↓reduceIte]; congr 1; funext r; simp [Nat.add_comm]
    · simp only [h, ↓reduceIte]; simp [Nat.add_comm]
  | run n v =>
    obtain ⟨h3, h120⟩ := hp
    rw [c3] at h3; rw [c1] at h120
    have hk : n < 128 := by omega
    have hc : (UInt8.ofNat (128 ||| n)).toNat = 128 + n := by rw [or128 _ hk]; exact toNat_ofNat_lt _ (by omega)
    have h5 : (128 + n) &&& (128 - 1) = n := and127_hi _ hk
    simp only [Pkt.ser, Pkt.expand, List.cons_append, List.nil_append, unrleLoop, hc, c4, and128_hi _ hk, h5,
      Nat.reduceEqDiff, ↓reduceIte, List.length_replicate, List.length_cons, List.length_nil]

theorem valid_expand_le (p : Pkt) (h : p.Valid) : p.expand.length ≤ 121 := by
  obtain ⟨c1, c2, c3, c4⟩ := rle_consts
  cases p with
  | lit l => exact c2 ▸ h.2
  | run n v => simp only [Pkt.Valid, c1] at h; simp [Pkt.expand]; omega

/-- asking a serialised packet list for `need` bytes (`0 < need ≤` its expansion): the first `need` bytes come out, whole
    packets are consumed, the unreturned part of the last one is saved (never more than 120 bytes: `save[255]` suffices) -/
theorem unrleLoop_take (tail : List Byte) : ∀ (ps : List Pkt), (∀ p ∈ ps, p.Valid) → ∀ (fuel need : Nat),
    (ser ps).length ≤ fuel → 0 < need → need ≤ (expand ps).length →
    ∃ (r : Unrle) (ps' : List Pkt), unrleLoop fuel (ser ps ++ tail) need = some r ∧ r.out = (expand ps).take need ∧
      (ser ps ++ tail).drop r.used = ser ps' ++ tail ∧ (∀ p ∈ ps', p.Valid) ∧
      r.save ++ expand ps' = (expand ps).drop need ∧ r.save.length ≤ 120 := by
  intro ps
  induction ps with
  | nil => intro _ fuel need _ h0 h1; simp [expand] at h1; omega
  | cons p ps ih =>
    intro hv fuel need hf h0 hn
    have hvp : p.Valid := hv p (by simp)
    have hvps : ∀ q ∈ ps, q.Valid := fun q hq => hv q (by simp [hq])
    have hpos := valid_expand_pos p hvp
    have hle := valid_expand_le p hvp
    have hsp := ser_length_pos p
    rw [ser_cons, List.length_append] at hf
    obtain ⟨f, rfl⟩ : ∃ f, fuel = f + 1 := ⟨fuel - 1, by omega⟩
    obtain ⟨m, rfl⟩ : ∃ m, need = m + 1 := ⟨need - 1, by omega⟩
    rw [expand_cons, List.length_append] at hn
    rw [ser_cons, List.append_assoc, unrleLoop_step p hvp _ f m, expand_cons]
    by_cases hfit : p.expand.length ≤ m + 1
    · simp only [hfit, ↓reduceIte]
      by_cases hz : m + 1 - p.expand.length = 0
      · -- exactly this packet
        refine ⟨⟨p.expand ++ [], p.ser.length + 0, []⟩, ps, ?_, ?_, ?_, hvps, ?_, by simp⟩
        · rw [hz]; cases f <;> cases (ser ps ++ tail) <;> simp [unrleLoop]
        · have : m + 1 = p.expand.length := by omega
          simp [this]
        · simp
        · have : m + 1 = p.expand.length := by omega
          simp [this]
      · obtain ⟨r', ps', e1, e2, e3, e4, e5, e6⟩ := ih hvps f (m + 1 - p.expand.length) (by omega) (by omega) (by omega)
        refine ⟨⟨p.expand ++ r'.out, p.ser.length + r'.used, r'.save⟩, ps', ?_, ?_, ?_, e4, ?_, e6⟩
        · rw [e1]; rfl
        · simp only [e2]; rw [List.take_append, List.take_of_length_le hfit]
        · rw [← List.drop_drop, List.drop_left]; exact e3
        · simp only [e5]; rw [List.drop_append, List.drop_of_length_le hfit, List.nil_append]
    · simp only [hfit, ↓reduceIte]
      refine ⟨_, ps, rfl, ?_, ?_, hvps, ?_, ?_⟩
      · simp only; rw [List.take_append_of_le_length (by omega)]
      · simp
      · simp only; rw [List.drop_append_of_le_length (by omega)]
      · simp only [List.length_drop]; omega

end H4.Codecs

namespace H4.Codecs

/-- a byte string cut into consecutive pieces of the given lengths -/
def chop : List Byte → List Nat → List (List Byte)
  | _, [] => []
  | row, n :: ns => row.take n :: chop (row.drop n) ns

/-- invariant of the `DFgetcomp` row loop over ONE compressed stream: saved bytes ++ expansion of the unread packets is
    what remains to be returned -/
theorem unrleRows_chop (tail : List Byte) : ∀ (ns : List Nat) (save : List Byte) (ps : List Pkt) (first : Bool),
    (∀ p ∈ ps, p.Valid) → (first = true → save = []) → ns.sum ≤ (save ++ expand ps).length →
    unrleRows save (ser ps ++ tail) first ns = some (chop (save ++ expand ps) ns) := by
  intro ns
  induction ns with
  | nil => intro save ps first _ _ _; simp [unrleRows, chop]
  | cons n ns ih =>
    intro save ps first hv hfirst hsum
    have hs0 : (if first = true then [] else save) = save := by
      cases first with
      | true => simp [hfirst rfl]
      | false => simp
    simp only [List.sum_cons, List.length_append] at hsum
    simp only [unrleRows, DFCIunrleS, hs0, chop]
    by_cases hlt : save.length < n
    · obtain ⟨r, ps', e1, e2, e3, e4, e5, _⟩ := unrleLoop_take tail ps hv ((ser ps ++ tail).length + 1) (n - save.length)
        (by simp; omega) (by omega) (by omega)
      simp only [hlt, ↓reduceIte, e1, Option.map_some, e3]
      have hrest : r.save ++ expand ps' = (save ++ expand ps).drop n := by
        have hd : save.drop n = [] := List.drop_of_length_le (by omega)
        rw [e5, List.drop_append, hd, List.nil_append]
      have := ih r.save ps' false e4 (by simp) (by rw [hrest]; simp; omega)
      rw [this, hrest, e2]
      simp only [Option.map_some, Option.some.injEq, List.cons.injEq, and_true]
      have ht : save.take n = save := List.take_of_length_le (by omega)
      rw [List.take_append, ht]
    · have hle : n ≤ save.length := by omega
      simp only [hlt, ↓reduceIte, List.drop_zero]
      have hrest : save.drop n ++ expand ps = (save ++ expand ps).drop n := by
        rw [List.drop_append_of_le_length hle]
      have := ih (save.drop n) ps false hv (by simp) (by rw [hrest]; simp; omega)
      rw [this, hrest]
      simp only [Option.map_some, Option.some.injEq, List.cons.injEq, and_true]
      rw [List.take_append_of_le_length hle]

end H4.Codecs
