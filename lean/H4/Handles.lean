import H4.Atom
import H4.Gen.Hdf
import H4.Gen.Src
import H4.Gen.Sdid
/-! # File table and access records over the atom layer (C13, file level)

Model of the handle bookkeeping of `hdf/src/hfile.c`: `Hopen` (the `HIget_filerec_node` / `refcount` path), `Hclose` (attach
check), `Hstartaccess` / `Hendaccess` (`attach++` / `attach--`), on top of the SPECIFICATION of the atom layer
(`H4.Atom.SState`: one finite map id ⇀ object per group).  The two groups used (FIDGROUP, AIDGROUP) are kept as concrete
`H4.Atom.SGroup` values; `World.atoms` is the `SState` they stand for and every id is issued, resolved and released exactly as
`H4.Atom.sstep` / `sres` / `slookup` do on it (lemmas `atoms_reg`, `atoms_rem`, `atoms_obj`).  The atom calls made are recorded in
`trace`, so `H4.Props.C13.run_refines_map` ties the ids used here to the hash tables / cache / free list of `atom.c`
(`handles_atoms_refine` in `Props/C13Files.lean`).

* a file record (`filerec_t`) / access record (`accrec_t`) is a heap object named by a fresh pointer (`nobj`); what the C code
  keeps in it that matters for handles: `path`, `access`, `refcount`, `attach` / `file_id`.
* `HAatom_object(id)` does NOT look at the group of the id: an access id given to `Hclose` resolves to an `accrec_t` that the
  C code then reads as a `filerec_t` (type confusion — observed: SEGV in `Hendaccess(fid)`, `Hread(fid)`).  The model returns
  `confused` for such calls and leaves the state alone; the theorems are about histories without confusion (`Res.confused`
  never returned), the engine probes the confused calls in a forked child.
* the DD atom group (`DDGROUP`, `hfiledd.c`) is modelled by its USE COUNT only (`World.ddUse`: `HTPstart` / `HTPinit` take one use per
  file record, `HTPend` gives it back; the group dies, with every DD id behind every access element of every file, when the count
  reaches 0) and by the number of its atoms (one `ddid` per access record); a FAILED `Hopen` is an op of its own (`hopenBad`): the
  answer is FAIL, the handle maps are unchanged, and what it does to the use count is read from the source (Tie A flags).
* NOT modelled: everything about the bytes of the file (that is `H4.ReadOnly`), the individual DD atoms, the access ids that
  `Hopen`/`Hclose` use internally and release again (`HIread_version`), failure of `HIsync` inside `Hclose`.
* ghost fields (no counterpart in C, used only in statements): `ARec.file` (the record the access was attached to),
  `World.leaked` (attach counts that can never be given back), `World.trace`.

Also here: the SD id layout (`mfsd.c`), on the expressions Tie A extracts from the source (`H4.Gen.Src`). -/
namespace H4.Handles
open H4.Atom H4.Gen.Atom H4.Gen.Hdf

/-- what matters of a `filerec_t` -/
structure FRec where
  path : Nat
  access : Nat
  refcount : Nat
  attach : Nat
deriving DecidableEq, Repr, Inhabited

/-- what matters of an `accrec_t` -/
structure ARec where
  /-- `access_rec->file_id`: the file ID the access was started through -/
  fileId : Nat
  /-- ghost: the file record it was attached to -/
  file : Nat
deriving DecidableEq, Repr, Inhabited

structure World where
  /-- FIDGROUP of the atom layer's specification machine (`H4.Atom.SGroup`: count, nextid, live registrations) -/
  fidg : SGroup
  /-- AIDGROUP -/
  aidg : SGroup
  /-- heap of file records: pointer ↦ record -/
  frecs : List (Nat × FRec)
  /-- heap of access records -/
  arecs : List (Nat × ARec)
  /-- next fresh pointer (`malloc`); pointers are ≥ 1, `NULL` = 0 -/
  nobj : Nat
  /-- ghost: one entry (the file record) per attach count lost by a failed `Hendaccess` -/
  leaked : List Nat
  /-- ghost: the atom calls made so far -/
  trace : List Atom.Op
  /-- `atom_group_list[DDGROUP]->count`: the uses of the DD atom group (`HAinit_group(DDGROUP)` minus `HAdestroy_group(DDGROUP)`);
      at 0 the group does not exist and no DD id of any file resolves -/
  ddUse : Nat := 0

/-- the state of the atom layer's specification machine: the two groups this model uses, every other group untouched -/
def World.atoms (w : World) : SState :=
  fun g => if g = FIDGROUP then w.fidg else if g = AIDGROUP then w.aidg else {}

/-- `HIstart`: `HAinit_group(FIDGROUP, 64)`, `HAinit_group(AIDGROUP, 256)` (done by the first `Hopen`) -/
def initOps : List Atom.Op := [.init FIDGROUP 64, .init AIDGROUP 256]

def World.init : World :=
  { fidg := { count := 1, nextid := 0, live := [] }, aidg := { count := 1, nextid := 0, live := [] },
    frecs := [], arecs := [], nobj := 1, leaked := [], trace := initOps }

inductive Res where
  | fail
  | ok
  | id (a : Nat)
  | confused     -- the C code would read an object of another kind through this id
deriving DecidableEq, Repr, Inhabited

/-- a fact Tie A reads from the source text (`H4.Gen.Src.H_CHECKS_ID_KIND`): the H entry points resolve a file id / access id
    only if `HAatom_group(id)` is FIDGROUP / AIDGROUP (`HIfid2rec`, `HIaid2rec` of `hfile_priv.h`) -/
structure Cfg where
  kindChecked : Bool
  /-- `H4.Gen.Src.HCLOSE_CHECKS_ID_AIDS`: `Hclose` refuses a file id through which access elements are still attached, also
      when other ids keep the file open -/
  closeChecksAids : Bool := true
  /-- `H4.Gen.Src.SPINFO_SHARED_PER_FILE_ID`: `HPcompare_accrec_tagref` (the `HAsearch_atom` callback of `HIgetspinfo`) matches two
      access records only if they were started through the SAME file id: special information, and the access elements it holds
      itself, are shared between the access records of one file id, never across the ids of one file -/
  spPerFileId : Bool := true
deriving DecidableEq, Repr

def Cfg.current : Cfg := ⟨H4.Gen.Src.H_CHECKS_ID_KIND, H4.Gen.Src.HCLOSE_CHECKS_ID_AIDS, H4.Gen.Src.SPINFO_SHARED_PER_FILE_ID⟩

/-! ## the atom calls (= `H4.Atom.sstep` / `sres` / `slookup` on `World.atoms`: lemmas `atoms_reg`, `atoms_rem`, `atoms_obj`) -/

/-- the group of this model an id belongs to, by its top bits (`ATOM_TO_GROUP`) -/
def grpOf (w : World) (id : Nat) : SGroup :=
  let g := H4.Gen.Macros.ATOM_TO_GROUP id
  if g = FIDGROUP then w.fidg else if g = AIDGROUP then w.aidg else {}

/-- the id the next `HAregister_atom(FIDGROUP, ·)` returns -/
def fidNew (w : World) : Nat := H4.Gen.Macros.MAKE_ATOM FIDGROUP w.fidg.nextid
/-- the id the next `HAregister_atom(AIDGROUP, ·)` returns -/
def aidNew (w : World) : Nat := H4.Gen.Macros.MAKE_ATOM AIDGROUP w.aidg.nextid

/-- `HAregister_atom(FIDGROUP, obj)` (the group is initialised: count > 0) -/
def regF (w : World) (obj : Nat) : World :=
  { w with fidg := { w.fidg with nextid := w.fidg.nextid + 1, live := ⟨fidNew w, obj⟩ :: w.fidg.live },
           trace := w.trace ++ [.register FIDGROUP obj] }

/-- `HAregister_atom(AIDGROUP, obj)` -/
def regA (w : World) (obj : Nat) : World :=
  { w with aidg := { w.aidg with nextid := w.aidg.nextid + 1, live := ⟨aidNew w, obj⟩ :: w.aidg.live },
           trace := w.trace ++ [.register AIDGROUP obj] }

/-- `HAatom_object(id)` (the cache of `atom.c` is invisible at this level: `step_object`) -/
def aObj (w : World) (id : Nat) : Nat := (((grpOf w id).live.find? (fun e => e.id == id)).map (·.obj)).getD NULL

/-- `HAremove_atom(id)`: the registration of `id` is deleted from the group its top bits name -/
def aRem (w : World) (id : Nat) : World :=
  let g := H4.Gen.Macros.ATOM_TO_GROUP id
  let w := if g = FIDGROUP then { w with fidg := { w.fidg with live := w.fidg.live.eraseP (fun e => e.id == id) } }
           else if g = AIDGROUP then { w with aidg := { w.aidg with live := w.aidg.live.eraseP (fun e => e.id == id) } }
           else w
  { w with trace := w.trace ++ [.remove id] }

/-! ## heaps -/

def getF (w : World) (p : Nat) : Option FRec := (w.frecs.find? (fun e => e.1 == p)).map (·.2)
def getA (w : World) (p : Nat) : Option ARec := (w.arecs.find? (fun e => e.1 == p)).map (·.2)
def setF (w : World) (p : Nat) (r : FRec) : World := { w with frecs := w.frecs.map (fun e => if e.1 == p then (p, r) else e) }
def delF (w : World) (p : Nat) : World := { w with frecs := w.frecs.filter (fun e => e.1 != p) }
def delA (w : World) (p : Nat) : World := { w with arecs := w.arecs.filter (fun e => e.1 != p) }

/-- `HIget_filerec_node`: `HAsearch_atom(FIDGROUP, HPcompare_filerec_path, path)` — the record of a live file id with this path -/
def findRec (w : World) (path : Nat) : Option Nat :=
  (w.fidg.live.find? (fun e => ((getF w e.obj).map (·.path)) == some path)).map (·.obj)

/-- `BADFREC(HAatom_object(id))`, telling apart the case where the object is not a file record at all -/
inductive FLook where
  | bad                      -- NULL, or a record with refcount 0
  | confused                 -- an object of another kind
  | file (p : Nat) (r : FRec)

def lookF (cfg : Cfg) (w : World) (id : Nat) : FLook :=
  if cfg.kindChecked && H4.Gen.Macros.ATOM_TO_GROUP id != FIDGROUP then .bad      -- `HIfid2rec`: not a file id at all
  else
    let p := aObj w id
    if p == NULL then .bad
    else match getF w p with
      | some r => if r.refcount == 0 then .bad else .file p r
      | none => if (getA w p).isSome then .confused else .bad

/-- `HAatom_object(id)` read as an access record -/
inductive ALook where
  | bad
  | confused
  | acc (q : Nat) (a : ARec)

def lookA (cfg : Cfg) (w : World) (id : Nat) : ALook :=
  if cfg.kindChecked && H4.Gen.Macros.ATOM_TO_GROUP id != AIDGROUP then .bad      -- `HIaid2rec`
  else
    let q := aObj w id
    if q == NULL then .bad
    else match getA w q with
      | some a => .acc q a
      | none => if (getF w q).isSome then .confused else .bad

/-! ## the H calls -/

/-- the use count of DDGROUP becomes `n` -/
def setDd (w : World) (n : Nat) : World := { w with ddUse := n }

/-- the access flags of a record that is opened once more with `acc` -/
def reopenAccess (r : FRec) (acc : Nat) : Nat :=
  if acc &&& DFACC_WRITE != 0 && H4.Gen.Src.HOPEN_REOPEN_SETS_ACCESS then r.access ||| DFACC_WRITE else r.access

/-- `Hopen(path, acc_mode, ndds)`; `osOk` = the operating-system open and `HTPstart`/`HTPinit` succeed -/
def hopen (w : World) (path acc : Nat) (osOk : Bool) : World × Res :=
  if acc &&& DFACC_ALL != acc then (w, .fail)
  else
    match findRec w path with
    | some p =>
      match getF w p with
      | some r =>
        -- "File is already opened, check that permission is okay"
        if acc == DFACC_CREATE then (w, .fail)
        else (regF (setF w p { r with refcount := r.refcount + 1, access := reopenAccess r acc }) p, .id (fidNew w))
      | none => (w, .fail)
    | none =>
      if !osOk then (w, .fail)
      else
        -- `HTPstart` / `HTPinit`: `HAinit_group(DDGROUP, 256)`, one use per file record
        (setDd (regF { w with frecs := w.frecs ++ [(w.nobj, ⟨path, if acc == DFACC_CREATE then DFACC_ALL else acc ||| DFACC_READ, 1, 0⟩)],
                              nobj := w.nobj + 1 } w.nobj) (w.ddUse + 1), .id (fidNew w))

/-- where an `Hopen` that cannot succeed gives up -/
inductive OpenStage where
  /-- `HI_OPEN` fails (directory opened for writing, a component of the path is not a directory, name too long, no permission) and
      the file is not created -/
  | os
  /-- `HIvalid_magic` fails: the file is shorter than the magic number or does not start with it (also: a directory opened for
      reading) -/
  | magic
  /-- the magic number is there but `HTPstart` fails: DD block header cut short, `ndds <= 0`, DD list cut short, next-block
      offset beyond the end of the file, a block chain that comes back to a block whose descriptors are registered already -/
  | dd
deriving DecidableEq, Repr, Inhabited

/-- the use count of DDGROUP after a FAILED `HTPstart` inside `Hopen`, from three facts Tie A reads from the source text:
    `HTPstart` calls `HAinit_group(DDGROUP)` BEFORE it reads the DD blocks (so every failure of the read loop has taken a use);
    `Hopen` ends the DD list of a file whose `HTPstart` failed (`HTPend` → `HAdestroy_group(DDGROUP)`), or `HTPstart` itself gives the
    use back on its failure path.  `HAdestroy_group` of a group with count 0 fails and changes nothing (truncated subtraction). -/
def ddAfterFailedStartOf (takesFirst givesBack : Bool) (n : Nat) : Nat :=
  let n1 := if takesFirst then n + 1 else n
  if givesBack then n1 - 1 else n1

/-- … for the source as it is -/
def ddAfterFailedStart (n : Nat) : Nat :=
  ddAfterFailedStartOf H4.Gen.Src.HTPSTART_TAKES_DDGROUP_FIRST
    (H4.Gen.Src.HOPEN_ENDS_DDLIST_OF_FAILED_START || H4.Gen.Src.HTPSTART_FAILURE_RELEASES_DDGROUP) n

/-- `Hopen(path, acc_mode, ndds)` of a path whose open cannot succeed, giving up at `stage`.  The answer is FAIL and no file
    record, no id, no access record is made or changed; a failure inside `HTPstart` moves the use count of DDGROUP as the source
    says (`ddAfterFailedStart`).  (A path that is open already is not looked at on disk: the record is shared as in `hopen`;
    `DFACC_CREATE` makes the file anew unless the operating system refuses.) -/
def hopenBad (w : World) (path acc : Nat) (stage : OpenStage) : World × Res :=
  if acc &&& DFACC_ALL != acc then (w, .fail)
  else
    match findRec w path with
    | some _ => hopen w path acc true
    | none =>
      if acc == DFACC_CREATE then hopen w path acc (stage != .os)
      else
        match stage with
        | .os => (w, .fail)
        | .magic => (w, .fail)
        | .dd => (setDd w (ddAfterFailedStart w.ddUse), .fail)

/-- `Hclose` once the id is known to designate the record `p` = `r`: drop one reference; the last one releases the record unless
    access records are still attached to it -/
def hcloseRec (w : World) (id p : Nat) (r : FRec) : World × Res :=
  if r.refcount == 1 then
    -- "if file reference count is zero but there are still attached access elts, reject this close"
    if r.attach > 0 then (w, .fail)
    -- `HTPend`: … `HAdestroy_group(DDGROUP)`
    else (setDd (aRem (delF w p) id) (w.ddUse - 1), .ok)
  else (aRem (setF w p { r with refcount := r.refcount - 1 }) id, .ok)

/-- `Hclose(file_id)` -/
def hclose (cfg : Cfg) (w : World) (id : Nat) : World × Res :=
  match lookF cfg w id with
  | .bad => (w, .fail)
  | .confused => (w, .confused)
  | .file p r =>
    -- "An access element that was started through THIS file id must be ended first"
    if cfg.closeChecksAids && w.arecs.any (fun a => a.2.fileId == id) then (w, .fail)
    else hcloseRec w id p r

/-- `Hstartaccess(file_id, tag, ref, flags)`; `found` = the element lookup (and, for a new element, its creation) succeeds,
    `write` = `flags & DFACC_WRITE` -/
def startAccess (cfg : Cfg) (w : World) (id : Nat) (found write : Bool) : World × Res :=
  match lookF cfg w id with
  | .bad => (w, .fail)
  | .confused => (w, .confused)
  | .file p r =>
    if write && r.access &&& DFACC_WRITE == 0 then (w, .fail)
    else if !found then (w, .fail)
    else
      (regA { setF w p { r with attach := r.attach + 1 } with arecs := w.arecs ++ [(w.nobj, ⟨id, p⟩)], nobj := w.nobj + 1 } w.nobj,
       .id (aidNew w))

/-- `Hendaccess(access_id)` -/
def endAccess (cfg : Cfg) (w : World) (id : Nat) : World × Res :=
  match lookA cfg w id with
  | .bad => (w, .fail)
  | .confused => (w, .confused)
  | .acc q a =>
    -- HAremove_atom; the access record is released on every path below
    match lookF cfg (delA (aRem w id) q) a.fileId with
    | .file p r => (setF (delA (aRem w id) q) p { r with attach := r.attach - 1 }, .ok)
    -- "BADFREC(file_rec)": FAIL without `attach--`
    | _ => ({ delA (aRem w id) q with leaked := w.leaked ++ [a.file] }, .fail)

/-- any inquiry on a file id (`Hexist`, `Hnumber`, `Hfidinquire` …): FAIL exactly when `BADFREC` -/
def useFid (cfg : Cfg) (w : World) (id : Nat) : Res :=
  match lookF cfg w id with
  | .bad => .fail
  | .confused => .confused
  | .file _ _ => .ok

/-- any inquiry on an access id (`Hinquire`, `Htell` …): FAIL exactly when the id yields no access record -/
def useAid (cfg : Cfg) (w : World) (id : Nat) : Res :=
  match lookA cfg w id with
  | .bad => .fail
  | .confused => .confused
  | .acc _ _ => .ok

/-- `Hnextread(access_id, tag, ref, origin)`: the access record moves to the next matching element.  Whatever kinds of element
    it leaves and reaches (ordinary, linked-block, compressed, chunked) and whether or not a further match exists (`found`),
    the record stays attached to the file exactly once: no counter changes. -/
def nextRead (cfg : Cfg) (w : World) (id : Nat) (found : Bool) : World × Res :=
  match lookA cfg w id with
  | .bad => (w, .fail)
  | .confused => (w, .confused)
  | .acc _ a =>
    match lookF cfg w a.fileId with
    | .file _ _ => (w, if found then .ok else .fail)
    | _ => (w, .fail)

inductive Op where
  | nextread (id : Nat) (found : Bool)
  | hopen (path acc : Nat) (osOk : Bool)
  | hclose (id : Nat)
  | startaccess (id : Nat) (found write : Bool)
  | endaccess (id : Nat)
  | usefid (id : Nat)
  | useaid (id : Nat)
  /-- an `Hopen` that cannot succeed (`hopenBad`) -/
  | hopenbad (path acc : Nat) (stage : OpenStage)
deriving DecidableEq, Repr, Inhabited

def step (cfg : Cfg) (w : World) : Op → World × Res
  | .nextread id f => nextRead cfg w id f
  | .hopen p a o => hopen w p a o
  | .hclose id => hclose cfg w id
  | .startaccess id f wr => startAccess cfg w id f wr
  | .endaccess id => endAccess cfg w id
  | .usefid id => (w, useFid cfg w id)
  | .useaid id => (w, useAid cfg w id)
  | .hopenbad p a st => hopenBad w p a st

def run (cfg : Cfg) (w : World) : List Op → World
  | [] => w
  | op :: ops => run cfg (step cfg w op).1 ops

def results (cfg : Cfg) (w : World) : List Op → List Res
  | [] => []
  | op :: ops => (step cfg w op).2 :: results cfg (step cfg w op).1 ops

/-! ## special elements: information records that hold access elements of their own

`Hstartaccess` on a special element calls the `stread` / `stwrite` function of its kind.  Two kinds start access elements of
their own, through `access_rec->file_id`, and keep them until the information record is released:
* compressed (`HCIstaccess`): `info->aid = Hstartread(access_rec->file_id, DFTAG_COMPRESSED, comp_ref)`; the record is private to
  the access record (`HCPendaccess` → `HCIendaccess` ends it);
* chunked (`HMCIstaccess`): `Vstart(access_rec->file_id)`, `info->aid = VSattach(access_rec->file_id, chktbl_ref, …)` (`VSattach`:
  `vs->aid = Hstartread(…)`); the record is found again by `HIgetspinfo` (`HAsearch_atom(AIDGROUP, HPcompare_accrec_tagref, …)`)
  and shared: `info->attached++`; `HMCPcloseAID` releases it (`VSdetach(info->aid)`) when `--info->attached == 0`.
Linked-block and external elements share their information the same way but it holds no access element: nothing to model here.

The layer below is written ON TOP of the H calls above: every call of it is a sequence of `Hstartaccess` / `Hendaccess` steps
(`expand`) run by `step`, so every theorem about all histories of `Op`s holds for histories with special elements
(`H4.Props.C13Files.spRun_is_history`). -/

inductive SpKind where
  | ordinary | linked | comp | chunked
deriving DecidableEq, Repr, Inhabited

/-- access elements the information record of a kind holds itself -/
def SpKind.innerCount : SpKind → Nat
  | .comp => 1
  | .chunked => 1
  | _ => 0

/-- `HIgetspinfo` is asked for an existing record (and the record carries something this model sees) -/
def SpKind.shared : SpKind → Bool
  | .chunked => true
  | _ => false

/-- a special-information record that holds access elements -/
structure SpInfo where
  /-- `file_id` of the access record that read the information: its own access elements are started through it -/
  fileId : Nat
  /-- the element (a number standing for tag/ref) -/
  elem : Nat
  kind : SpKind
  /-- the access ids that refer to it: `info->attached` = `users.length` -/
  users : List Nat
  /-- the access ids it holds itself -/
  inner : List Nat
deriving DecidableEq, Repr, Inhabited

structure SpWorld where
  w : World
  infos : List SpInfo

def SpWorld.init : SpWorld := ⟨World.init, []⟩

/-- do two file ids designate the same file record? (`HIfid2rec(id1) == HIfid2rec(id2)`) -/
def sameFile (cfg : Cfg) (w : World) (id1 id2 : Nat) : Bool :=
  match lookF cfg w id1, lookF cfg w id2 with
  | .file p _, .file p' _ => p == p'
  | _, _ => false

/-- `HPcompare_accrec_tagref` against a record that refers to `g`: same tag/ref, and started through the same file id
    (a source without that test, `spPerFileId = false`: through any id of the same file) -/
def spMatch (cfg : Cfg) (w : World) (id elem : Nat) (kind : SpKind) (g : SpInfo) : Bool :=
  g.elem == elem && g.kind == kind && (if cfg.spPerFileId then g.fileId == id else sameFile cfg w g.fileId id)

inductive SpOp where
  /-- an H call on an ordinary element / a file (`Hendaccess` is routed to `endsp`) -/
  | prim (op : Op)
  /-- `Hstartaccess(id, tag, ref, flags)` on a special element of kind `kind` -/
  | startsp (id elem : Nat) (kind : SpKind) (found write : Bool)
  /-- `Hendaccess(aid)` -/
  | endsp (aid : Nat)
deriving DecidableEq, Repr, Inhabited

/-- the information record `Hendaccess(aid)` detaches from -/
def infoOf (sw : SpWorld) (aid : Nat) : Option SpInfo := sw.infos.find? (fun g => g.users.contains aid)

/-- `Hendaccess(a)`: `HMCPendaccess` → `HMCPcloseAID` / `HCPendaccess` → `HCIendaccess` end the access elements of the information
    record first when `a` is the last one that refers to it, then the record of `a` is released -/
def endExpand (sw : SpWorld) (a : Nat) : List Op :=
  match infoOf sw a with
  | some g => if g.users.length ≤ 1 then g.inner.map .endaccess ++ [.endaccess a] else [.endaccess a]
  | none => [.endaccess a]

/-- the `Hstartaccess` / `Hendaccess` calls one call of the layer makes, in the order of the C code -/
def expand (cfg : Cfg) (sw : SpWorld) : SpOp → List Op
  | .prim (.endaccess a) => endExpand sw a
  | .prim op => [op]
  | .startsp id elem kind found write =>
    match (startAccess cfg sw.w id found write).2 with
    | .id _ =>
      -- "HIgetspinfo": an information record another access record of this file id already refers to
      if kind.shared && (sw.infos.any (spMatch cfg sw.w id elem kind)) then [.startaccess id found write]
      else List.replicate kind.innerCount (.startaccess id true false) ++ [.startaccess id found write]
    | _ => [.startaccess id found write]       -- refused before the special code is reached
  | .endsp a => endExpand sw a

def resIds : List Res → List Nat
  | [] => []
  | .id a :: t => a :: resIds t
  | _ :: t => resIds t

/-- `--info->attached`, the record is freed at 0 -/
def endUpd (sw : SpWorld) (a : Nat) : List SpInfo :=
  match infoOf sw a with
  | some g =>
    let i := sw.infos.findIdx (fun h => h.users.contains a)
    if g.users.length ≤ 1 then sw.infos.eraseIdx i
    else sw.infos.modify i (fun h => { h with users := h.users.erase a })
  | none => sw.infos

/-- the bookkeeping of information records after one call (`rs` = the results of its `expand`ed calls) -/
def updInfos (cfg : Cfg) (sw : SpWorld) (rs : List Res) : SpOp → List SpInfo
  | .prim (.endaccess a) => endUpd sw a
  | .prim _ => sw.infos
  | .startsp id elem kind _ _ =>
    match rs.getLast? with
    | some (.id a) =>
      if kind.shared && (sw.infos.any (spMatch cfg sw.w id elem kind)) then
        -- `info->attached++` on the FIRST record that matches
        let i := sw.infos.findIdx (spMatch cfg sw.w id elem kind)
        sw.infos.modify i (fun g => { g with users := a :: g.users })
      else if kind.innerCount == 0 then sw.infos
      else ⟨id, elem, kind, [a], (resIds rs).dropLast⟩ :: sw.infos
    | _ => sw.infos
  | .endsp a => endUpd sw a

def spStep (cfg : Cfg) (sw : SpWorld) (op : SpOp) : SpWorld × Res :=
  let ops := expand cfg sw op
  let rs := results cfg sw.w ops
  (⟨run cfg sw.w ops, updInfos cfg sw rs op⟩, rs.getLast?.getD .fail)

def spRun (cfg : Cfg) (sw : SpWorld) : List SpOp → SpWorld
  | [] => sw
  | op :: ops => spRun cfg (spStep cfg sw op).1 ops

def spResults (cfg : Cfg) (sw : SpWorld) : List SpOp → List Res
  | [] => []
  | op :: ops => (spStep cfg sw op).2 :: spResults cfg (spStep cfg sw op).1 ops

/-- all the H calls a history of the layer makes -/
def expandAll (cfg : Cfg) (sw : SpWorld) : List SpOp → List Op
  | [] => []
  | op :: ops => expand cfg sw op ++ expandAll cfg (spStep cfg sw op).1 ops

/-- live file ids / access ids: the registrations of the two groups -/
def liveFids (w : World) : List Info := w.fidg.live
def liveAids (w : World) : List Info := w.aidg.live

/-! ## SD ids (`mfsd.c`): id = slot << 20 | kind << 16 | index, on the extracted expressions -/

open H4.Gen.Src H4.Gen.Sdid

/-- the three fields `SDIhandle_from_id` / `SDIget_var` take out of an id -/
def sdidUnpack (id : Nat) : Nat × Nat × Nat := (SDID_SLOT id, SDID_KIND id, SDID_VARINDEX id)

/-- the id `SDstart` returns for the netCDF slot `cdfid` -/
def sdFileId (cdfid : Nat) : Nat := SDSTART_ID cdfid
/-- the id `SDselect(fid, index)` returns -/
def sdSdsId (fid index : Nat) : Nat := SDSELECT_ID fid index
/-- the id `SDcreate` returns for the variable number `index` -/
def sdCreateId (fid index : Nat) : Nat := (SDCREATE_ID_BASE fid + index) % 4294967296
/-- the id `SDgetdimid(sdsid, ·)` returns for the dimension number `dimindex` -/
def sdDimId (sdsid dimindex : Nat) : Nat := SDGETDIMID_ID sdsid dimindex

/-- `SDIhandle_from_id(id, typ)`: the netCDF slot, `none` = NULL; `isOpen` = `NC_check_id` -/
def sdHandleFromId (isOpen : Nat → Bool) (id typ : Nat) : Option Nat :=
  if id == FAIL_ATOM then none                    -- "id == -1"
  else if SDID_KIND id != typ then none           -- "check that it is the proper type of id"
  else if isOpen (SDID_SLOT id) then some (SDID_SLOT id) else none

end H4.Handles
