import H4.Gen.Hdf
import H4.Gen.Fmt
import H4.Gen.FmtNc
import H4.Gen.FmtDesc
import H4.Gen.Hcomp
import H4.Rle
import H4.SkpHuffIO
import H4.NBit
import H4.Gen.Conv
import H4.Inflate
/-! # C02 — an independent reader of the HDF4 file format

Written from the DOCUMENTED layout, not from any model of the writer:
* file header, data descriptor (DD), DD header and DD block: comment block "Internal Data Structures" of `hdf/src/hfile_priv.h`
  (magic `0x0e031301`; DD = tag(16) ref(16) offset(32) length(32); DDH = block size(16) next block(32), last block has next = 0);
  `INVALID_OFFSET`/`INVALID_LENGTH` = -1 "to indicate a partially defined element written to the HDF file i.e. can handle the case where
  the element is defined but not written out" (same header) — so `(offset, length) = (-1, -1)` IS legal on disk (kind `empty`);
  tag space: bit 15 clear and bit 14 set = special version of a library tag (`BASETAG`/`SPECIALTAG`/`MKSPECIALTAG`).
* linked-block elements: header comment of `hdf/src/hblocks.c` (LBDR = code, elem_tot_len, blk_length, num_blk, link_ref — 16 bytes;
  block table = next_ref, block_ref_1 .. block_ref_num_blk under `DFTAG_LINKED`; "first block is calculated" = the length of the DD of
  the first block; a block ref of 0 is a missing block (reads as zeros, `HLPread`)).
* external elements: header comment of `hdf/src/hextelt.c`.  NOTE the comment draws `ext_tag_desc | offset | length | filename`
  with a 4-byte descriptor; what `HXcreate`/`HXIstaccess` read and write is code(16) length(32) offset(32) name_length(32) name —
  the reader follows the code (documentation discrepancy, reported in REPORT.md).
* compressed elements: `HCIwrite_header`/`HCPencode_header` of `hdf/src/hcomp.c` (code, header version, uncompressed length, ref of the
  `DFTAG_COMPRESSED` element, model type, coder type, coder parameters).
* chunked elements: header comment of `hdf/src/hchunks.c` (chunked description record, dimension records, fill value, optional
  compression "specialness" header, chunk table Vdata of class `_HDF_CHK_TBL_0` with fields origin, chk_tag, chk_ref).
* Vdata header `DFTAG_VH`: "CONTENTS of VS stored in HDF file" in `hdf/src/vio.c` and the version-4 layout in the header of `vattr.c`.
* Vgroup record `DFTAG_VG`: comment before `vpackvg` in `hdf/src/vgp.c` and `vattr.c`.
* `DFTAG_VERSION`: `LIBVER_LEN` = 4+4+4+80 (`hfile.h`).
* the old-style descriptive records that the DFSD / DFR8 / DF24 / DFGR interfaces define and the SD and GR interfaces keep writing
  next to their Vgroups: number type `DFTAG_NT` (version, type, width in bits, class: `hntdefs.h`), dimension record `DFTAG_SDD`
  (rank, dimension sizes, data NT, one scale NT per dimension: `DFSDIputndg` of `dfsd.c`, `hdf_write_var` of `mfhdf/src/cdf.c`),
  image / palette dimension record `DFTAG_ID` / `DFTAG_LD` / `DFTAG_MD` (xdim, ydim, NT, components, interlace, compression tag/ref:
  `DFGRaddrig` of `dfgr.c`, `DFR8putrig` of `dfr8.c`, `GRIupdatemeta` of `mfgr.c`), label / unit / format strings
  `DFTAG_SDL` / `DFTAG_SDU` / `DFTAG_SDF` (rank + 1 NUL-terminated strings) and the groups `DFTAG_NDG` / `DFTAG_SDG` / `DFTAG_RIG` that tie
  them to the data (`DFdiwrite` of `dfgroup.c`).

Everything here is core-only and total.  Constants come from `H4.Gen.*` (Tie A). -/
namespace H4.Format
open H4.Gen.Hdf H4.Gen.Fmt

abbrev Bytes := List UInt8

/-! ## big-endian integer codecs (`UINT16ENCODE`/`INT32ENCODE`… of `hdf_priv.h`) -/

def enc8 (n : Nat) : Bytes := [UInt8.ofNat n]
def enc16 (n : Nat) : Bytes := [UInt8.ofNat (n / 256), UInt8.ofNat n]
def enc32 (n : Nat) : Bytes :=
  [UInt8.ofNat (n / 16777216), UInt8.ofNat (n / 65536), UInt8.ofNat (n / 256), UInt8.ofNat n]
def be16 (a b : UInt8) : Nat := a.toNat * 256 + b.toNat
def be32 (a b c d : UInt8) : Nat := ((a.toNat * 256 + b.toNat) * 256 + c.toNat) * 256 + d.toNat
/-- two's complement reading of a 32-bit / 16-bit field -/
def toS32 (n : Nat) : Int := if n < 2147483648 then (n : Int) else (n : Int) - 4294967296
def ofS32 (i : Int) : Nat := (i % 4294967296).toNat
def toS16 (n : Nat) : Int := if n < 32768 then (n : Int) else (n : Int) - 65536
def ofS16 (i : Int) : Nat := (i % 65536).toNat
def encS32 (i : Int) : Bytes := enc32 (ofS32 i)
def encS16 (i : Int) : Bytes := enc16 (ofS16 i)

def get8 : Bytes → Option (Nat × Bytes)
  | a :: r => some (a.toNat, r)
  | _ => none
def get16 : Bytes → Option (Nat × Bytes)
  | a :: b :: r => some (be16 a b, r)
  | _ => none
def get32 : Bytes → Option (Nat × Bytes)
  | a :: b :: c :: d :: r => some (be32 a b c d, r)
  | _ => none
def getS32 (r : Bytes) : Option (Int × Bytes) := (get32 r).map fun p => (toS32 p.1, p.2)
def getS16 (r : Bytes) : Option (Int × Bytes) := (get16 r).map fun p => (toS16 p.1, p.2)
/-- `n` raw bytes -/
def getN (n : Nat) (r : Bytes) : Option (Bytes × Bytes) :=
  if n ≤ r.length then some (r.take n, r.drop n) else none
/-- `n` consecutive 16-bit fields -/
def get16s : Nat → Bytes → Option (List Nat × Bytes)
  | 0, r => some ([], r)
  | n+1, r => do
    let (x, r) ← get16 r
    let (xs, r) ← get16s n r
    some (x :: xs, r)
def getS16s : Nat → Bytes → Option (List Int × Bytes)
  | 0, r => some ([], r)
  | n+1, r => do
    let (x, r) ← getS16 r
    let (xs, r) ← getS16s n r
    some (x :: xs, r)
/-- length-prefixed (16 bit) string without terminator -/
def getStr16 (r : Bytes) : Option (Bytes × Bytes) := do
  let (n, r) ← get16 r
  getN n r
def encStr16 (s : Bytes) : Bytes := enc16 s.length ++ s

/-! ## tag space (`BASETAG`, `SPECIALTAG`, `MKSPECIALTAG` of `hfile_priv.h`) -/

def isSpecialTag (t : Nat) : Bool := t < USER_TAG_BIT && SPECIAL_TAG_BIT ≤ t
def baseTag (t : Nat) : Nat := if isSpecialTag t then t - SPECIAL_TAG_BIT else t
def mkSpecialTag (t : Nat) : Nat := if t < USER_TAG_BIT then (if SPECIAL_TAG_BIT ≤ t then t else t + SPECIAL_TAG_BIT) else DFTAG_NULL

/-! ## data descriptors and DD blocks -/

structure DD where
  tag : Nat
  ref : Nat
  off : Int
  len : Int
deriving DecidableEq, Repr, Inhabited

def DD.InRange (d : DD) : Prop :=
  d.tag < 65536 ∧ d.ref < 65536 ∧ -2147483648 ≤ d.off ∧ d.off < 2147483648 ∧ -2147483648 ≤ d.len ∧ d.len < 2147483648

def encodeDD (d : DD) : Bytes := enc16 d.tag ++ enc16 d.ref ++ encS32 d.off ++ encS32 d.len
/-- exactly `DD_SZ` = 12 bytes -/
def decodeDD (b : Bytes) : Option DD := do
  let (tag, r) ← get16 b
  let (ref, r) ← get16 r
  let (off, r) ← getS32 r
  let (len, r) ← getS32 r
  if r.isEmpty then some ⟨tag, ref, off, len⟩ else none

structure BlockHdr where
  ndds : Nat
  next : Nat
deriving DecidableEq, Repr

def encodeBlockHdr (h : BlockHdr) : Bytes := enc16 h.ndds ++ enc32 h.next
/-- exactly `NDDS_SZ + OFFSET_SZ` = 6 bytes -/
def decodeBlockHdr (b : Bytes) : Option BlockHdr := do
  let (n, r) ← get16 b
  let (nx, r) ← get32 r
  if r.isEmpty then some ⟨n, nx⟩ else none

def encodeDDs (l : List DD) : Bytes := l.flatMap encodeDD
def decodeDDs : Nat → Bytes → Option (List DD)
  | 0, r => if r.isEmpty then some [] else none
  | n+1, r => do
    let (h, t) ← getN DD_SZ r
    let d ← decodeDD h
    let ds ← decodeDDs n t
    some (d :: ds)

/-! ## special element headers -/

/-- LINKED BLOCK DESCRIPTION RECORD (16 bytes, `hblocks.c`) -/
structure LBDR where
  length : Int
  blockLen : Int
  numBlocks : Int
  linkRef : Nat
deriving DecidableEq, Repr, Inhabited

def encodeLBDR (h : LBDR) : Bytes :=
  enc16 SPECIAL_LINKED ++ encS32 h.length ++ encS32 h.blockLen ++ encS32 h.numBlocks ++ enc16 h.linkRef
def decodeLBDR (b : Bytes) : Option LBDR := do
  let (code, r) ← get16 b
  if code ≠ SPECIAL_LINKED then none
  let (len, r) ← getS32 r
  let (bl, r) ← getS32 r
  let (nb, r) ← getS32 r
  let (lr, r) ← get16 r
  if r.isEmpty then some ⟨len, bl, nb, lr⟩ else none

/-- linked block table: next_ref, block_ref_1 .. block_ref_n -/
structure LinkTable where
  next : Nat
  refs : List Nat
deriving DecidableEq, Repr, Inhabited

def encodeLinkTable (t : LinkTable) : Bytes := enc16 t.next ++ t.refs.flatMap enc16
def decodeLinkTable (n : Nat) (b : Bytes) : Option LinkTable := do
  let (nx, r) ← get16 b
  let (refs, r) ← get16s n r
  if r.isEmpty then some ⟨nx, refs⟩ else none

/-- EXTERNAL ELEMENT DESCRIPTION RECORD as written by `HXcreate` (14 + name bytes) -/
structure ExtHdr where
  length : Int
  offset : Int
  name : Bytes
deriving DecidableEq, Repr, Inhabited

def encodeExtHdr (h : ExtHdr) : Bytes :=
  enc16 SPECIAL_EXT ++ encS32 h.length ++ encS32 h.offset ++ enc32 h.name.length ++ h.name
def decodeExtHdr (b : Bytes) : Option ExtHdr := do
  let (code, r) ← get16 b
  if code ≠ SPECIAL_EXT then none
  let (len, r) ← getS32 r
  let (off, r) ← getS32 r
  let (nl, r) ← get32 r
  let (name, r) ← getN nl r
  if r.isEmpty then some ⟨len, off, name⟩ else none

/-- coder type + parameters (`HCPencode_header`) -/
inductive Coder where
  | none
  | rle
  | nbit (nt : Int) (signExt fillOne : Nat) (startBit bitLen : Int)
  | skphuff (skpSize compSize : Nat)
  | deflate (level : Nat)
  | szip (pixels pixelsPerScanline optionsMask bitsPerPixel pixelsPerBlock : Nat)
  | other (code : Nat)
deriving DecidableEq, Repr, Inhabited

def Coder.code : Coder → Nat
  | .none => COMP_CODE_NONE
  | .rle => COMP_CODE_RLE
  | .nbit .. => COMP_CODE_NBIT
  | .skphuff .. => COMP_CODE_SKPHUFF
  | .deflate .. => COMP_CODE_DEFLATE
  | .szip .. => COMP_CODE_SZIP
  | .other c => c

def Coder.name : Coder → String
  | .none => "none"
  | .rle => "rle"
  | .nbit .. => "nbit"
  | .skphuff .. => "skphuff"
  | .deflate .. => "deflate"
  | .szip .. => "szip"
  | .other c => s!"coder{c}"

/-- model type + coder type + coder parameters: the part shared by compressed elements and the
    compression "specialness" header of chunked elements -/
structure CoderInfo where
  model : Nat
  coder : Coder
deriving DecidableEq, Repr, Inhabited

def encodeCoderParams : Coder → Bytes
  | .nbit nt se fo sb bl => encS32 nt ++ enc16 se ++ enc16 fo ++ encS32 sb ++ encS32 bl
  | .skphuff s c => enc32 s ++ enc32 c
  | .deflate l => enc16 l
  | .szip p ps m b pb => enc32 p ++ enc32 ps ++ enc32 m ++ enc8 b ++ enc8 pb
  | _ => []
def encodeCoderInfo (c : CoderInfo) : Bytes := enc16 c.model ++ enc16 c.coder.code ++ encodeCoderParams c.coder

def decodeCoderParams (code : Nat) (r : Bytes) : Option (Coder × Bytes) :=
  if code = COMP_CODE_NONE then some (.none, r)
  else if code = COMP_CODE_RLE then some (.rle, r)
  else if code = COMP_CODE_NBIT then do
    let (nt, r) ← getS32 r
    let (se, r) ← get16 r
    let (fo, r) ← get16 r
    let (sb, r) ← getS32 r
    let (bl, r) ← getS32 r
    some (.nbit nt se fo sb bl, r)
  else if code = COMP_CODE_SKPHUFF then do
    let (s, r) ← get32 r
    let (c, r) ← get32 r
    some (.skphuff s c, r)
  else if code = COMP_CODE_DEFLATE then do
    let (l, r) ← get16 r
    some (.deflate l, r)
  else if code = COMP_CODE_SZIP then do
    let (p, r) ← get32 r
    let (ps, r) ← get32 r
    let (m, r) ← get32 r
    let (b, r) ← get8 r
    let (pb, r) ← get8 r
    some (.szip p ps m b pb, r)
  else some (.other code, r)

def decodeCoderInfo (b : Bytes) : Option (CoderInfo × Bytes) := do
  let (m, r) ← get16 b
  let (c, r) ← get16 r
  let (cd, r) ← decodeCoderParams c r
  some (⟨m, cd⟩, r)

/-- compressed element description record (`HCIwrite_header`) -/
structure CompHdr where
  version : Nat
  length : Int
  compRef : Nat
  info : CoderInfo
deriving DecidableEq, Repr, Inhabited

def encodeCompHdr (h : CompHdr) : Bytes :=
  enc16 SPECIAL_COMP ++ enc16 h.version ++ encS32 h.length ++ enc16 h.compRef ++ encodeCoderInfo h.info
def decodeCompHdr (b : Bytes) : Option CompHdr := do
  let (code, r) ← get16 b
  if code ≠ SPECIAL_COMP then none
  let (v, r) ← get16 r
  let (len, r) ← getS32 r
  let (cr, r) ← get16 r
  let (ci, r) ← decodeCoderInfo r
  if r.isEmpty then some ⟨v, len, cr, ci⟩ else none

/-- one dimension record of a chunked description record -/
structure ChunkDim where
  flag : Nat
  dimLen : Int
  chunkLen : Int
deriving DecidableEq, Repr, Inhabited

def encodeChunkDim (d : ChunkDim) : Bytes := enc32 d.flag ++ encS32 d.dimLen ++ encS32 d.chunkLen
def decodeChunkDims : Nat → Bytes → Option (List ChunkDim × Bytes)
  | 0, r => some ([], r)
  | n+1, r => do
    let (f, r) ← get32 r
    let (dl, r) ← getS32 r
    let (cl, r) ← getS32 r
    let (ds, r) ← decodeChunkDims n r
    some (⟨f, dl, cl⟩ :: ds, r)

/-- CHUNKED DESCRIPTION RECORD (`hchunks.c`) -/
structure ChunkHdr where
  headLen : Int
  version : Nat
  flag : Nat
  length : Int
  chunkSize : Int
  ntSize : Int
  tblTag : Nat
  tblRef : Nat
  spTag : Nat
  spRef : Nat
  dims : List ChunkDim
  fill : Bytes
  /-- the additional compression "specialness" header: present iff `flag & 0xff = SPECIAL_COMP` -/
  comp : Option CoderInfo
deriving DecidableEq, Repr, Inhabited

def encodeChunkHdr (h : ChunkHdr) : Bytes :=
  enc16 SPECIAL_CHUNKED ++ encS32 h.headLen ++ enc8 h.version ++ enc32 h.flag ++ encS32 h.length ++ encS32 h.chunkSize ++
  encS32 h.ntSize ++ enc16 h.tblTag ++ enc16 h.tblRef ++ enc16 h.spTag ++ enc16 h.spRef ++ enc32 h.dims.length ++
  h.dims.flatMap encodeChunkDim ++ enc32 h.fill.length ++ h.fill ++
  (match h.comp with
   | some ci => enc16 SPECIAL_COMP ++ enc32 (encodeCoderInfo ci).length ++ encodeCoderInfo ci
   | none => [])

def decodeChunkHdr (b : Bytes) : Option ChunkHdr := do
  let (code, r) ← get16 b
  if code ≠ SPECIAL_CHUNKED then none
  let (hl, r) ← getS32 r
  let (v, r) ← get8 r
  let (fl, r) ← get32 r
  let (len, r) ← getS32 r
  let (cs, r) ← getS32 r
  let (nt, r) ← getS32 r
  let (tt, r) ← get16 r
  let (tr, r) ← get16 r
  let (st, r) ← get16 r
  let (sr, r) ← get16 r
  let (nd, r) ← get32 r
  let (dims, r) ← decodeChunkDims nd r
  let (fvl, r) ← get32 r
  let (fv, r) ← getN fvl r
  if fl % 256 = SPECIAL_COMP then do
    let (c2, r) ← get16 r
    if c2 ≠ SPECIAL_COMP then none
    let (cl, r) ← get32 r
    let (chdr, r) ← getN cl r
    let (ci, rest) ← decodeCoderInfo chdr
    if rest.isEmpty && r.isEmpty then some ⟨hl, v, fl, len, cs, nt, tt, tr, st, sr, dims, fv, some ci⟩ else none
  else
    if r.isEmpty then some ⟨hl, v, fl, len, cs, nt, tt, tr, st, sr, dims, fv, none⟩ else none

/-! ## Vdata header (`DFTAG_VH`) and Vgroup record (`DFTAG_VG`) -/

structure VField where
  type : Int
  isize : Nat
  off : Nat
  order : Nat
  name : Bytes
deriving DecidableEq, Repr, Inhabited

structure VAttr where
  findex : Int
  atag : Nat
  aref : Nat
deriving DecidableEq, Repr, Inhabited

structure VH where
  interlace : Int
  nvert : Int
  ivsize : Nat
  fields : List VField
  name : Bytes
  cls : Bytes
  extag : Nat
  exref : Nat
  version : Int
  more : Int
  /-- present in the record iff `version = VSET_NEW_VERSION` -/
  flags : Nat
  /-- present iff `flags & VS_ATTR_SET` -/
  attrs : List VAttr
deriving DecidableEq, Repr, Inhabited

def encodeVAttr (a : VAttr) : Bytes := encS32 a.findex ++ enc16 a.atag ++ enc16 a.aref
def decodeVAttrs : Nat → Bytes → Option (List VAttr × Bytes)
  | 0, r => some ([], r)
  | n+1, r => do
    let (fi, r) ← getS32 r
    let (t, r) ← get16 r
    let (rf, r) ← get16 r
    let (as, r) ← decodeVAttrs n r
    some (⟨fi, t, rf⟩ :: as, r)
def getStrs16 : Nat → Bytes → Option (List Bytes × Bytes)
  | 0, r => some ([], r)
  | n+1, r => do
    let (s, r) ← getStr16 r
    let (ss, r) ← getStrs16 n r
    some (s :: ss, r)

/-- the record `vpackvs` writes (vio.c): … extag exref version more [flags [nattrs attrs]] version more 0 -/
def vpackvs (v : VH) : Bytes :=
  encS16 v.interlace ++ encS32 v.nvert ++ enc16 v.ivsize ++ enc16 v.fields.length ++
  v.fields.flatMap (fun f => encS16 f.type) ++ v.fields.flatMap (fun f => enc16 f.isize) ++
  v.fields.flatMap (fun f => enc16 f.off) ++ v.fields.flatMap (fun f => enc16 f.order) ++
  v.fields.flatMap (fun f => encStr16 f.name) ++
  encStr16 v.name ++ encStr16 v.cls ++ enc16 v.extag ++ enc16 v.exref ++ encS16 v.version ++ encS16 v.more ++
  (if v.flags ≠ 0 then
     enc32 v.flags ++ (if v.flags % 2 = 1 then enc32 v.attrs.length ++ v.attrs.flatMap encodeVAttr else [])
   else []) ++
  encS16 v.version ++ encS16 v.more ++ [0]

def zipFields : List Int → List Nat → List Nat → List Nat → List Bytes → List VField
  | t :: ts, i :: is, o :: os, d :: ds, n :: ns => ⟨t, i, o, d, n⟩ :: zipFields ts is os ds ns
  | _, _, _, _, _ => []

/-- reader of a `DFTAG_VH` record.  The version is taken from the bottom (`len - 5`, the historical extra byte),
    the middle copy must agree, the version-4 fields must end exactly where the bottom copy starts. -/
def vunpackvs (b : Bytes) : Option VH := do
  if b.length < 5 then none
  let (vb, r) ← getS16 (b.drop (b.length - 5))
  let (mb, _) ← getS16 r
  let (il, r) ← getS16 b
  let (nv, r) ← getS32 r
  let (ivs, r) ← get16 r
  let (nf, r) ← get16 r
  if nf ≥ 32768 then none
  let (types, r) ← getS16s nf r
  let (isizes, r) ← get16s nf r
  let (offs, r) ← get16s nf r
  let (orders, r) ← get16s nf r
  let (names, r) ← getStrs16 nf r
  let (name, r) ← getStr16 r
  let (cls, r) ← getStr16 r
  let (et, r) ← get16 r
  let (er, r) ← get16 r
  let (vm, r) ← getS16 r
  let (mm, r) ← getS16 r
  if vm ≠ vb ∨ mm ≠ mb then none
  if vb = (VSET_NEW_VERSION : Nat) then do
    let (fl, r) ← get32 r
    if fl % 2 = 1 then do
      let (na, r) ← get32 r
      let (attrs, r) ← decodeVAttrs na r
      if r.length = 5 then some ⟨il, nv, ivs, zipFields types isizes offs orders names, name, cls, et, er, vb, mb, fl, attrs⟩ else none
    else
      if r.length = 5 then some ⟨il, nv, ivs, zipFields types isizes offs orders names, name, cls, et, er, vb, mb, fl, []⟩ else none
  else
    if r.length = 5 then some ⟨il, nv, ivs, zipFields types isizes offs orders names, name, cls, et, er, vb, mb, 0, []⟩ else none

structure VG where
  members : List (Nat × Nat)
  name : Bytes
  cls : Bytes
  extag : Nat
  exref : Nat
  version : Int
  more : Int
  flags : Nat
  attrs : List (Nat × Nat)
deriving DecidableEq, Repr, Inhabited

def getPairs16 : Nat → Bytes → Option (List (Nat × Nat) × Bytes)
  | 0, r => some ([], r)
  | n+1, r => do
    let (a, r) ← get16 r
    let (b, r) ← get16 r
    let (ps, r) ← getPairs16 n r
    some ((a, b) :: ps, r)

/-- reader of a `DFTAG_VG` record (layout of `vpackvg`, vgp.c): nvelt, tags, refs, name, class, extag, exref,
    [flags [nattrs (atag aref)*]] when version = 4, version, more, extra byte -/
def vunpackvg (b : Bytes) : Option VG := do
  if b.length < 5 then none
  let (vb, r) ← getS16 (b.drop (b.length - 5))
  let (mb, _) ← getS16 r
  let (n, r) ← get16 b
  let (tags, r) ← get16s n r
  let (refs, r) ← get16s n r
  let (name, r) ← getStr16 r
  let (cls, r) ← getStr16 r
  let (et, r) ← get16 r
  let (er, r) ← get16 r
  if vb = (VSET_NEW_VERSION : Nat) then do
    let (fl, r) ← get32 r
    if fl % 2 = 1 then do
      let (na, r) ← get32 r
      let (attrs, r) ← getPairs16 na r
      if r.length = 5 then some ⟨tags.zip refs, name, cls, et, er, vb, mb, fl, attrs⟩ else none
    else
      if r.length = 5 then some ⟨tags.zip refs, name, cls, et, er, vb, mb, fl, []⟩ else none
  else
    if r.length = 5 then some ⟨tags.zip refs, name, cls, et, er, vb, mb, 0, []⟩ else none

/-- the record `vpackvg` writes (vgp.c, after the fix "always write the flags word of a version-4 vgroup record"):
    nvelt tags refs name class extag exref [flags [nattrs (atag aref)*]] version more 0; the flags word is present
    iff `flags ≠ 0 ∨ version = 4` and then the version written is 4 -/
def vpackvg (g : VG) : Bytes :=
  enc16 g.members.length ++ g.members.flatMap (fun m => enc16 m.1) ++ g.members.flatMap (fun m => enc16 m.2) ++
  encStr16 g.name ++ encStr16 g.cls ++ enc16 g.extag ++ enc16 g.exref ++
  (if g.flags ≠ 0 ∨ g.version = (VSET_NEW_VERSION : Nat) then
     enc32 g.flags ++ (if g.flags % 2 = 1 then enc32 g.attrs.length ++ g.attrs.flatMap (fun a => enc16 a.1 ++ enc16 a.2) else [])
   else []) ++
  encS16 (if g.flags ≠ 0 ∨ g.version = (VSET_NEW_VERSION : Nat) then (VSET_NEW_VERSION : Nat) else g.version) ++ encS16 g.more ++ [0]

/-- `DFTAG_VERSION`: major, minor, release, 80-byte string -/
structure Version where
  major : Nat
  minor : Nat
  release : Nat
  str : Bytes
deriving DecidableEq, Repr, Inhabited

def encodeVersion (v : Version) : Bytes := enc32 v.major ++ enc32 v.minor ++ enc32 v.release ++ v.str
def decodeVersion (b : Bytes) : Option Version := do
  let (a, r) ← get32 b
  let (m, r) ← get32 r
  let (rl, r) ← get32 r
  if r.length = LIBVSTR_LEN then some ⟨a, m, rl, r⟩ else none

/-! ## old-style descriptive records (DFSD / DFR8 / DF24 / DFGR, also written by the SD and GR interfaces) -/

/-- `DFTAG_NT`: version, type (low byte of the `DFNT_` code), width in bits, class — one byte each -/
structure NT where
  version : Nat
  type : Nat
  width : Nat
  cls : Nat
deriving DecidableEq, Repr, Inhabited

def encodeNT (n : NT) : Bytes := enc8 n.version ++ enc8 n.type ++ enc8 n.width ++ enc8 n.cls
/-- exactly 4 bytes -/
def decodeNT : Bytes → Option NT
  | [a, b, c, d] => some ⟨a.toNat, b.toNat, c.toNat, d.toNat⟩
  | _ => none

def getS32s : Nat → Bytes → Option (List Int × Bytes)
  | 0, r => some ([], r)
  | n+1, r => do
    let (x, r) ← getS32 r
    let (xs, r) ← getS32s n r
    some (x :: xs, r)

def encPair (p : Nat × Nat) : Bytes := enc16 p.1 ++ enc16 p.2

/-- `DFTAG_SDD`: rank, dimension sizes, tag/ref of the number type of the data, tag/ref of the number type of the scale of every
    dimension ("scale NTs written even if no scale", `DFSDIputndg`) — 2 + 4·rank + 4·(rank+1) bytes -/
structure SDD where
  dims : List Int
  dataNT : Nat × Nat
  /-- one per dimension -/
  scaleNTs : List (Nat × Nat)
deriving DecidableEq, Repr, Inhabited

def encodeSDD (s : SDD) : Bytes :=
  enc16 s.dims.length ++ s.dims.flatMap encS32 ++ encPair s.dataNT ++ s.scaleNTs.flatMap encPair
def decodeSDD (b : Bytes) : Option SDD := do
  let (rank, r) ← get16 b
  let (dims, r) ← getS32s rank r
  let (dt, r) ← get16 r
  let (dr, r) ← get16 r
  let (sn, r) ← getPairs16 rank r
  if r.isEmpty then some ⟨dims, (dt, dr), sn⟩ else none

/-- `DFTAG_ID` (image), `DFTAG_LD` (palette), `DFTAG_MD` (matte): xdim, ydim (int32), NT tag/ref, number of components,
    interlace (int16), compression tag/ref — 20 bytes -/
structure ImgDesc where
  xdim : Int
  ydim : Int
  ntTag : Nat
  ntRef : Nat
  ncomps : Int
  interlace : Int
  compTag : Nat
  compRef : Nat
deriving DecidableEq, Repr, Inhabited

def encodeImgDesc (d : ImgDesc) : Bytes :=
  encS32 d.xdim ++ encS32 d.ydim ++ enc16 d.ntTag ++ enc16 d.ntRef ++ encS16 d.ncomps ++ encS16 d.interlace ++
  enc16 d.compTag ++ enc16 d.compRef
def decodeImgDesc (b : Bytes) : Option ImgDesc := do
  let (x, r) ← getS32 b
  let (y, r) ← getS32 r
  let (nt, r) ← get16 r
  let (nr, r) ← get16 r
  let (nc, r) ← getS16 r
  let (il, r) ← getS16 r
  let (ct, r) ← get16 r
  let (cr, r) ← get16 r
  if r.isEmpty then some ⟨x, y, nt, nr, nc, il, ct, cr⟩ else none

/-- `DFTAG_SDL` / `DFTAG_SDU` / `DFTAG_SDF`: NUL-terminated strings one after the other (the data set's, then one per dimension) -/
def encodeStrs (l : List Bytes) : Bytes := l.flatMap (· ++ [0])
/-- `cur` = the bytes of the string being read, reversed; `none` when the record does not end with a terminator -/
def decodeStrsAux : Bytes → Bytes → Option (List Bytes)
  | [], [] => some []
  | [], _ :: _ => none
  | c :: r, cur => if c = 0 then (decodeStrsAux r []).map (cur.reverse :: ·) else decodeStrsAux r (c :: cur)
def decodeStrs (b : Bytes) : Option (List Bytes) := decodeStrsAux b []

/-! ## the file-level reader -/

inductive FormatError where
  | fuel
  | bad (clause : String) (detail : String)
deriving Repr, DecidableEq

abbrev R := Except FormatError
def bad {α} (clause detail : String) : R α := .error (.bad clause detail)

structure Block where
  off : Nat
  ndds : Nat
  next : Nat
  dds : List DD
deriving DecidableEq, Repr, Inhabited

/-- `n` bytes at `off`, `none` when not inside the file -/
def slice (b : ByteArray) (off n : Nat) : Option Bytes :=
  if off + n ≤ b.size then some (b.extract off (off + n)).toList else none

/-- one DD block at `off` (header and `ndds` descriptors inside the file, `ndds > 0`) -/
def readBlock (b : ByteArray) (off : Nat) : R Block :=
  match slice b off (NDDS_SZ + OFFSET_SZ) with
  | none => bad "chain" s!"DD block header at {off} outside the file (size {b.size})"
  | some hb =>
    match decodeBlockHdr hb with
    | none => bad "chain" s!"DD block header at {off} unreadable"
    | some h =>
      if h.ndds = 0 then bad "chain" s!"DD block at {off} has ndds = 0"
      else match slice b (off + (NDDS_SZ + OFFSET_SZ)) (DD_SZ * h.ndds) with
        | none => bad "chain" s!"DD block at {off} with {h.ndds} descriptors ends outside the file (size {b.size})"
        | some body =>
          match decodeDDs h.ndds body with
          | none => bad "chain" s!"DD block at {off}: descriptors unreadable"
          | some dds => .ok ⟨off, h.ndds, h.next, dds⟩

/-- follow the `next` offsets from `off`; a repeated offset is a cycle; `acc` is reversed -/
def walk (b : ByteArray) : Nat → Nat → List Block → R (List Block)
  | 0, _, _ => .error .fuel
  | fuel+1, off, acc =>
    if acc.any (fun k => k.off == off) then bad "chain" s!"DD block chain revisits offset {off} (cycle)"
    else match readBlock b off with
      | .error e => .error e
      | .ok blk =>
        if blk.next = 0 then .ok (blk :: acc).reverse
        else walk b fuel blk.next (blk :: acc)

def magicOK (b : ByteArray) : Bool := slice b 0 MAGICLEN == some (HDFMAGIC.map UInt8.ofNat)

/-- the DD block chain starting right after the magic number; fuel = file length -/
def readChain (b : ByteArray) : R (List Block) :=
  if magicOK b then walk b b.size MAGICLEN [] else bad "magic" "the file does not start with 0e031301"

def isLive (d : DD) : Bool := d.tag != DFTAG_NULL
def liveDDs (blocks : List Block) : List DD := (blocks.flatMap (·.dds)).filter isLive
def isEmptyDD (d : DD) : Bool := d.off == INVALID_OFFSET && d.len == INVALID_LENGTH

/-! ### structural checks (the clauses of `WFFile`) -/

/-- every pair of a list satisfies `p` -/
def allPairs {α} (p : α → α → Bool) : List α → Bool
  | [] => true
  | a :: l => l.all (p a) && allPairs p l

/-- consecutive links: each block's `next` is the offset of its successor, the last one has next = 0 -/
def linked : List Block → Bool
  | [] => false
  | [x] => x.next == 0
  | x :: y :: l => x.next == y.off && x.next != 0 && linked (y :: l)

def blockInBounds (size : Nat) (k : Block) : Bool :=
  0 < k.ndds && k.off + (NDDS_SZ + OFFSET_SZ) + DD_SZ * k.ndds ≤ size && k.dds.length == k.ndds

def chainOK (size : Nat) (blocks : List Block) : Bool :=
  (blocks.head?.map (·.off)) == some MAGICLEN && linked blocks && blocks.all (blockInBounds size) &&
  allPairs (fun x y => x.off != y.off) blocks

def tagsOK (dds : List DD) : Bool := dds.all fun d => d.tag != 0 && d.ref != 0

def sameKey (x y : DD) : Bool := baseTag x.tag == baseTag y.tag && x.ref == y.ref
def noDupKeys (dds : List DD) : Bool := allPairs (fun x y => !sameKey x y) dds

def extentOK (size : Nat) (d : DD) : Bool :=
  isEmptyDD d || (0 ≤ d.off && 0 ≤ d.len && d.off + d.len ≤ (size : Int))
def extentsOK (size : Nat) (dds : List DD) : Bool := dds.all (extentOK size)

/-- an occupied byte range; `elem = false` for the file header and DD blocks (which may never be shared) -/
structure Region where
  off : Nat
  len : Nat
  elem : Bool
  what : String
deriving Repr

def disjointOrAlias (x y : Region) : Bool :=
  x.off + x.len ≤ y.off || y.off + y.len ≤ x.off || (x.elem && y.elem && x.off == y.off && x.len == y.len)

def regions (blocks : List Block) (dds : List DD) : List Region :=
  ⟨0, MAGICLEN, false, "file header"⟩ ::
  (blocks.map fun k => ⟨k.off, NDDS_SZ + OFFSET_SZ + DD_SZ * k.ndds, false, s!"DD block at {k.off}"⟩) ++
  ((dds.filter fun d => decide (0 ≤ d.off) && decide (0 < d.len)).map fun d => ⟨d.off.toNat, d.len.toNat, true, s!"{d.tag}/{d.ref}"⟩)

def noOverlap (rs : List Region) : Bool := allPairs disjointOrAlias rs

/-- first offending pair, for the error message -/
def firstBadPair {α} (p : α → α → Bool) : List α → Option (α × α)
  | [] => none
  | a :: l => match l.find? (fun y => !p a y) with
    | some y => some (a, y)
    | none => firstBadPair p l

structure Raw where
  size : Nat
  blocks : List Block
  dds : List DD
deriving Repr

/-- magic, chain, descriptors and the structural clauses -/
def readRaw (b : ByteArray) : R Raw :=
  match readChain b with
  | .error e => .error e
  | .ok blocks =>
    let dds := liveDDs blocks
    if !chainOK b.size blocks then bad "chain" "DD block chain is not a list of distinct in-bounds blocks linked by their next fields"
    else if !tagsOK dds then
      bad "tag0" (match dds.find? (fun d => d.tag == 0 || d.ref == 0) with
        | some d => s!"descriptor {d.tag}/{d.ref} at offset {d.off} uses tag 0 or ref 0" | none => "")
    else if !noDupKeys dds then
      bad "dup" (match firstBadPair (fun x y => !sameKey x y) dds with
        | some (x, y) => s!"tag/ref {x.tag}/{x.ref} and {y.tag}/{y.ref} name the same object" | none => "")
    else if !extentsOK b.size dds then
      bad "extent" (match dds.find? (fun d => !extentOK b.size d) with
        | some d => s!"{d.tag}/{d.ref} offset {d.off} length {d.len} not inside the file (size {b.size})" | none => "")
    else if !noOverlap (regions blocks dds) then
      bad "overlap" (match firstBadPair disjointOrAlias (regions blocks dds) with
        | some (x, y) => s!"{x.what} [{x.off},+{x.len}) overlaps {y.what} [{y.off},+{y.len})" | none => "")
    else .ok ⟨b.size, blocks, dds⟩

/-! ### elements -/

def findDD (dds : List DD) (tag ref : Nat) : Option DD :=
  dds.find? fun d => baseTag d.tag == baseTag tag && d.ref == ref

def rawBytes (b : ByteArray) (d : DD) : ByteArray :=
  if isEmptyDD d then ByteArray.empty else b.extract d.off.toNat (d.off.toNat + d.len.toNat)

def zeros (n : Nat) : ByteArray := ⟨Array.replicate n 0⟩

def baTake (a : ByteArray) (n : Nat) : ByteArray := a.extract 0 n

/-- a raw data block of an element: reference number of the `DFTAG_LINKED` block (0 for others), offset, length on disk -/
structure DataBlock where
  off : Int
  len : Int
deriving DecidableEq, Repr, Inhabited

/-- linked-block element, fully resolved -/
structure LinkedInfo where
  hdr : LBDR
  firstLen : Int
  tables : List (Nat × LinkTable)      -- (ref of the table, table)
  /-- every block slot in logical order: ref (0 = missing) and, when present, its DD -/
  slots : List (Nat × Option DD)
deriving Repr, Inhabited

structure ChunkRec where
  origin : List Int
  tag : Nat
  ref : Nat
deriving DecidableEq, Repr, Inhabited

inductive Kind where
  | plain
  | empty
  | linked (i : LinkedInfo)
  | ext (h : ExtHdr)
  | comp (h : CompHdr)
  | chunked (h : ChunkHdr) (table : List ChunkRec)
deriving Repr, Inhabited

def Kind.name : Kind → String
  | .plain => "plain"
  | .empty => "empty"
  | .linked _ => "linked"
  | .ext _ => "ext"
  | .comp h => "comp:" ++ h.info.coder.name
  | .chunked .. => "chunked"

/-- logical content of an element: its length and, when the reader can produce them, its bytes
    (`none`: external file, or a coder the reader knows only structurally: szip, jpeg, imcomp) -/
structure LData where
  len : Nat
  data : Option ByteArray
deriving Inhabited

structure Elem where
  dd : DD
  kind : Kind
  ldata : LData
  /-- where the raw data of the element lives in THIS file (what `HDgetdatainfo` is documented to report) -/
  blocks : List DataBlock
  /-- chunked elements: per chunk record, origin and raw data blocks -/
  chunks : List (List Int × List DataBlock)
deriving Inhabited

def specialCode (b : ByteArray) (d : DD) : Option Nat :=
  if d.len < 2 then none else (slice b d.off.toNat 2).bind fun s => (get16 s).map (·.1)

def elemBytes (b : ByteArray) (d : DD) : Bytes := (rawBytes b d).toList

/-- block tables of a linked-block element, following next_ref; fuel bounds the number of tables -/
def readTables (b : ByteArray) (dds : List DD) (nb : Nat) : Nat → Nat → List Nat → R (List (Nat × LinkTable))
  | 0, _, _ => bad "linked" "block table chain longer than the number of descriptors"
  | fuel+1, ref, seen =>
    if seen.contains ref then bad "linked" s!"block table chain revisits DFTAG_LINKED/{ref}" else
    match findDD dds DFTAG_LINKED ref with
    | none => bad "linked" s!"block table DFTAG_LINKED/{ref} does not exist"
    | some d =>
      if isSpecialTag d.tag then bad "linked" s!"block table DFTAG_LINKED/{ref} is itself special" else
      -- `HLIgetlink` reads 2 + 2*num_blocks bytes; a longer element is tolerated, a shorter one is not
      match (slice b d.off.toNat (2 + 2 * nb)).bind (decodeLinkTable nb) with
      | none => bad "linked" s!"block table DFTAG_LINKED/{ref} (length {d.len}) shorter than 2+2*{nb} bytes"
      | some t =>
        if d.len < (2 + 2 * nb : Nat) then bad "linked" s!"block table DFTAG_LINKED/{ref} (length {d.len}) shorter than 2+2*{nb} bytes"
        else if t.next = 0 then .ok [(ref, t)]
        else do
          let rest ← readTables b dds nb fuel t.next (ref :: seen)
          pure ((ref, t) :: rest)

def resolveSlots (dds : List DD) : List Nat → R (List (Nat × Option DD))
  | [] => .ok []
  | 0 :: l => do pure ((0, none) :: (← resolveSlots dds l))
  | r :: l =>
    match findDD dds DFTAG_LINKED r with
    | none => bad "linked" s!"data block DFTAG_LINKED/{r} does not exist"
    | some d =>
      if isSpecialTag d.tag then bad "linked" s!"data block DFTAG_LINKED/{r} is itself special"
      else do pure ((r, some d) :: (← resolveSlots dds l))

def readLinked (b : ByteArray) (dds : List DD) (d : DD) : R LinkedInfo := do
  if d.len < 16 then bad "linked" s!"{d.tag}/{d.ref}: description record shorter than 16 bytes"
  match (slice b d.off.toNat 16).bind decodeLBDR with
  | none => bad "linked" s!"{d.tag}/{d.ref}: description record unreadable"
  | some h =>
    if h.length < 0 ∨ h.blockLen < 0 ∨ h.numBlocks ≤ 0 then
      bad "linked" s!"{d.tag}/{d.ref}: length {h.length} block_length {h.blockLen} number_blocks {h.numBlocks}"
    else do
      let tables ← readTables b dds h.numBlocks.toNat (dds.length + 1) h.linkRef []
      let slots ← resolveSlots dds (tables.flatMap (·.2.refs))
      let firstLen : Int := match slots with
        | (_, some bd) :: _ => bd.len
        | _ => h.blockLen
      pure ⟨h, firstLen, tables, slots⟩

/-- concatenate the blocks (`first_length` for slot 0, `block_length` after), missing = zeros, truncate to `length` -/
def assembleLinked (b : ByteArray) (i : LinkedInfo) : R ByteArray := do
  let total := i.hdr.length.toNat
  let mut out := ByteArray.empty
  let mut idx := 0
  for (r, od) in i.slots do
    if out.size ≥ total then break
    let want := (if idx == 0 then i.firstLen else i.hdr.blockLen).toNat
    let need := min want (total - out.size)
    if want == 0 then
      if idx == 0 then pure () else throw (.bad "linked" "block_length 0 with data beyond the first block")
    match od with
    | none => out := out ++ zeros need
    | some bd =>
      if isEmptyDD bd ∨ bd.len.toNat < need then
        throw (.bad "linked" s!"data block DFTAG_LINKED/{r} (length {bd.len}) holds fewer than the {need} bytes the element needs from it")
      out := out ++ (b.extract bd.off.toNat (bd.off.toNat + need))
    idx := idx + 1
  if out.size < total then throw (.bad "linked" s!"block tables cover {out.size} bytes, element length is {total}")
  pure out

/-- data blocks of a linked-block element as the data-info interface documents them: every block that exists, in order,
    with the number of bytes of it that belong to the element -/
def linkedBlocks (i : LinkedInfo) : List DataBlock :=
  let total := i.hdr.length
  let rec go : List (Nat × Option DD) → Nat → Int → List DataBlock
    | [], _, _ => []
    | (_, od) :: l, idx, start =>
      let want := if idx == 0 then i.firstLen else i.hdr.blockLen
      match od with
      | none => go l (idx + 1) (start + want)
      | some bd =>
        let valid := if start + want ≤ total then bd.len else if start < total then min bd.len (total - start) else 0
        ⟨bd.off, valid⟩ :: go l (idx + 1) (start + want)
  go i.slots 0 0

def ba (l : Bytes) : ByteArray := ⟨l.toArray⟩

/-- RLE packets (`crle.c`) from the front of `s` until at least `need` bytes are produced; bytes of the stream after that
    point are NOT looked at: a compressed element that was rewritten with better-compressible data keeps its old
    length, so stale bytes may follow the packets (`HCPcrle_read` likewise stops after `length` bytes).  fuel = |s| -/
def rleAtLeast : Nat → Nat → List UInt8 → Option (List UInt8)
  | _, 0, _ => some []
  | 0, _ + 1, _ => none
  | _ + 1, _ + 1, [] => none
  | fuel + 1, need + 1, c :: rest =>
    if c.toNat &&& H4.Gen.Crle.RUN_MASK ≠ 0 then
      match rest with
      | [] => none
      | v :: r =>
        let k := (c.toNat &&& H4.Gen.Crle.COUNT_MASK) + H4.Gen.Crle.RLE_MIN_RUN
        (rleAtLeast fuel (need + 1 - k) r).map (List.replicate k v ++ ·)
    else
      let k := (c.toNat &&& H4.Gen.Crle.COUNT_MASK) + H4.Gen.Crle.RLE_MIN_MIX
      if rest.length < k then none
      else (rleAtLeast fuel (need + 1 - k) (rest.drop k)).map (rest.take k ++ ·)

/-- the first `n` bytes an RLE stream expands to -/
def rleTake (n : Nat) (s : List UInt8) : Option (List UInt8) := (rleAtLeast s.length n s).map (·.take n)

/-- records of a chunk table: origin (int32 × ndims), chk_tag, chk_ref, big-endian, full interlace -/
def parseChunkRecs (nd : Nat) : Nat → Bytes → Option (List ChunkRec)
  | 0, _ => some []
  | n+1, r => do
    let rec origin : Nat → Bytes → Option (List Int × Bytes)
      | 0, r => some ([], r)
      | k+1, r => do
        let (x, r) ← getS32 r
        let (xs, r) ← origin k r
        some (x :: xs, r)
    let (o, r) ← origin nd r
    let (t, r) ← get16 r
    let (rf, r) ← get16 r
    let rest ← parseChunkRecs nd n r
    some (⟨o, t, rf⟩ :: rest)

def bytesOfString (s : String) : Bytes := s.toUTF8.toList
def chkTblClass : Bytes := CHK_TBL_CLASS.map UInt8.ofNat ++ bytesOfString (toString _HDF_CHK_TBL_CLASS_VER)

def prod (l : List Nat) : Nat := l.foldl (· * ·) 1

/-- row-major number of `idx` in an array of extents `ext` -/
def rowMajor : List Nat → List Nat → Nat
  | i :: is, _ :: es => i * prod es + rowMajor is es
  | _, _ => 0

/-- coordinates of row-major position `p` -/
def coordsOf (p : Nat) (ext : List Nat) : List Nat :=
  (ext.foldr (fun e (acc : List Nat × Nat) => ((acc.2 % e) :: acc.1, acc.2 / e)) ([], p)).1

/-- the element in full: kind, logical data, raw block list.  `fuel` bounds the nesting of special elements
    (chunked → compressed chunk → linked compressed data → block). -/
def readElem (b : ByteArray) (dds : List DD) : Nat → DD → R Elem
  | 0, d => bad "special" s!"{d.tag}/{d.ref}: special elements nested too deeply"
  | fuel+1, d =>
    if isEmptyDD d then .ok ⟨d, .empty, ⟨0, some ByteArray.empty⟩, [], []⟩
    else if !isSpecialTag d.tag then .ok ⟨d, .plain, ⟨d.len.toNat, some (rawBytes b d)⟩, [⟨d.off, d.len⟩], []⟩
    else match specialCode b d with
    | none => bad "special" s!"{d.tag}/{d.ref}: special element without a 2-byte special code"
    | some code =>
      if code = SPECIAL_LINKED then do
        let i ← readLinked b dds d
        let data ← assembleLinked b i
        pure ⟨d, .linked i, ⟨i.hdr.length.toNat, some data⟩, linkedBlocks i, []⟩
      else if code = SPECIAL_EXT then
        match decodeExtHdr (elemBytes b d) with
        | none => bad "ext" s!"{d.tag}/{d.ref}: external element description record unreadable"
        | some h =>
          if h.length < 0 ∨ h.offset < 0 then bad "ext" s!"{d.tag}/{d.ref}: negative length or offset"
          else .ok ⟨d, .ext h, ⟨h.length.toNat, none⟩, [], []⟩
      else if code = SPECIAL_COMP then
        match decodeCompHdr (elemBytes b d) with
        | none => bad "comp" s!"{d.tag}/{d.ref}: compressed element description record unreadable"
        | some h =>
          if h.length < 0 then bad "comp" s!"{d.tag}/{d.ref}: negative length" else
          if h.version ≠ H4.Gen.Hcomp.COMP_HEADER_VERSION then bad "comp" s!"{d.tag}/{d.ref}: header version {h.version}" else
          match findDD dds DFTAG_COMPRESSED h.compRef with
          | none =>
            if h.length = 0 then .ok ⟨d, .comp h, ⟨0, some ByteArray.empty⟩, [], []⟩
            else bad "comp" s!"{d.tag}/{d.ref}: DFTAG_COMPRESSED/{h.compRef} does not exist but the length is {h.length}"
          | some cd => do
            let ce ← readElem b dds fuel cd
            let n := h.length.toNat
            let blocks := if n = 0 then [] else ce.blocks
            if n = 0 then pure ⟨d, .comp h, ⟨0, some ByteArray.empty⟩, blocks, []⟩ else
            match h.info.coder, ce.ldata.data with
            | .none, some payload =>
              if payload.size < n then bad "comp" s!"{d.tag}/{d.ref}: stored data shorter than the length {n}"
              else pure ⟨d, .comp h, ⟨n, some (baTake payload n)⟩, blocks, []⟩
            | .rle, some payload =>
              -- stale bytes may follow the packets (see `rleAtLeast`); `rleTake` agrees with the proved decoder `H4.Rle.dec`
              -- on every stream that decoder accepts (`rleTake_eq_dec` in Props/C02)
              match rleTake n payload.toList with
              | some out => pure ⟨d, .comp h, ⟨n, some (ba out)⟩, blocks, []⟩
              | none => bad "comp" s!"{d.tag}/{d.ref}: RLE stream does not hold whole packets for {n} bytes"
            | .deflate _, some payload =>
              -- zlib stream (RFC 1950/1951), expanded by the reader's own inflate; its Adler-32 trailer is verified
              match H4.Inflate.zlibDecode payload with
              | .ok out =>
                if out.size < n then bad "comp" s!"{d.tag}/{d.ref}: deflate stream expands to {out.size} bytes, length is {n}"
                else pure ⟨d, .comp h, ⟨n, some (baTake out n)⟩, blocks, []⟩
              | .error e => bad "comp" s!"{d.tag}/{d.ref}: {e}"
            | .skphuff skp _, some payload =>
              -- `H4.SkpHuff.decompress` is the decoder proved against the encoder in C05 (`skphuff_roundtrip`)
              if skp = 0 then bad "comp" s!"{d.tag}/{d.ref}: skipping size 0" else
              match H4.SkpHuff.decompress skp payload.toList n with
              | some out => pure ⟨d, .comp h, ⟨n, some (ba out)⟩, blocks, []⟩
              | none => bad "comp" s!"{d.tag}/{d.ref}: skipping-Huffman stream does not hold {n} symbols"
            | .nbit nt se fo sb bl, some payload =>
              -- `H4.NBit.readBack` (C05, `nbit_element_roundtrip`); only for configurations that model covers
              let sz := ((H4.Gen.Conv.table.find? (fun r => r.1 == nt.toNat)).map (·.2.1)).getD 0
              let cfg : H4.NBit.Cfg := ⟨sz, se != 0, fo != 0, sb.toNat, bl.toNat⟩
              if (sz = 1 ∨ sz = 2 ∨ sz = 4 ∨ sz = 8) ∧ 0 ≤ nt ∧ 0 ≤ sb ∧ sb.toNat < 8 * sz ∧ 1 ≤ bl ∧ bl.toNat ≤ sb.toNat + 1 ∧ n % sz = 0 then
                let out := (H4.NBit.readBack cfg payload.toList [n]).flatten
                if out.length = n then pure ⟨d, .comp h, ⟨n, some (ba out)⟩, blocks, []⟩
                else bad "comp" s!"{d.tag}/{d.ref}: n-bit stream yields {out.length} of {n} bytes"
              else pure ⟨d, .comp h, ⟨n, none⟩, blocks, []⟩
            | _, _ => pure ⟨d, .comp h, ⟨n, none⟩, blocks, []⟩
      else if code = SPECIAL_CHUNKED then
        match decodeChunkHdr (elemBytes b d) with
        | none => bad "chunk" s!"{d.tag}/{d.ref}: chunked element description record unreadable"
        | some h =>
          let nd := h.dims.length
          if h.version ≠ _HDF_CHK_HDR_VER then bad "chunk" s!"{d.tag}/{d.ref}: header version {h.version}" else
          if h.length < 0 ∨ h.chunkSize ≤ 0 ∨ h.ntSize ≤ 0 ∨ nd = 0 then bad "chunk" s!"{d.tag}/{d.ref}: bad sizes" else
          if h.dims.any (fun x => decide (x.dimLen < 0) || decide (x.chunkLen ≤ 0)) then bad "chunk" s!"{d.tag}/{d.ref}: bad dimension record" else
          if h.headLen ≠ (1 + 4 + 4 + 4 + 4 + 2 + 2 + 2 + 2 + 4 + 12 * nd + 4 + h.fill.length : Nat) then
            bad "chunk" s!"{d.tag}/{d.ref}: sp_tag_head_len {h.headLen} does not match the record" else
          if (h.chunkSize.toNat) ≠ prod (h.dims.map (·.chunkLen.toNat)) then
            bad "chunk" s!"{d.tag}/{d.ref}: chunk_size {h.chunkSize} is not the product of the chunk lengths" else
          if h.fill.length = 0 ∨ (h.chunkSize.toNat * h.ntSize.toNat) % h.fill.length ≠ 0 then
            bad "chunk" s!"{d.tag}/{d.ref}: fill value length {h.fill.length} does not divide the chunk" else
          if h.tblTag ≠ DFTAG_VH then bad "chunk" s!"{d.tag}/{d.ref}: chunk table tag {h.tblTag}" else
          match findDD dds DFTAG_VH h.tblRef, findDD dds DFTAG_VS h.tblRef with
          | some vhd, some vsd =>
            match vunpackvs (elemBytes b vhd) with
            | none => bad "chunk" s!"{d.tag}/{d.ref}: chunk table header DFTAG_VH/{h.tblRef} unreadable"
            | some vh =>
              if vh.cls.take chkTblClass.length ≠ chkTblClass then bad "chunk" s!"{d.tag}/{d.ref}: chunk table class" else
              if vh.fields.map (fun f => (f.type, f.order)) ≠
                  [(((DFNT_INT32 : Nat) : Int), nd), (((DFNT_UINT16 : Nat) : Int), 1), (((DFNT_UINT16 : Nat) : Int), 1)] ∨ vh.ivsize ≠ 4 * nd + 4 ∨ vh.nvert < 0 then
                bad "chunk" s!"{d.tag}/{d.ref}: chunk table fields are not origin[{nd}],chk_tag,chk_ref" else do
              let te ← readElem b dds fuel vsd
              let recs ← match te.ldata.data with
                | some tb =>
                  if tb.size < vh.nvert.toNat * vh.ivsize then bad "chunk" s!"{d.tag}/{d.ref}: chunk table data shorter than nvertices records"
                  else match parseChunkRecs nd vh.nvert.toNat tb.toList with
                    | some r => pure r
                    | none => bad "chunk" s!"{d.tag}/{d.ref}: chunk table unreadable"
                | none => bad "chunk" s!"{d.tag}/{d.ref}: chunk table data not readable"
              let dimLens := h.dims.map (·.dimLen.toNat)
              let chunkLens := h.dims.map (·.chunkLen.toNat)
              let nChunks := (dimLens.zip chunkLens).map fun (dl, cl) => (dl + cl - 1) / cl
              let chunkBytes := h.chunkSize.toNat * h.ntSize.toNat
              -- every chunk record: inside the chunk grid, no two for the same origin, chunk element readable
              let mut store : List (Nat × Option ByteArray) := []
              let mut cblocks : List (Nat × List Int × List DataBlock) := []
              for r in recs do
                if r.origin.any (· < 0) ∨ (r.origin.zip nChunks).any (fun (o, n) => decide (o.toNat ≥ n)) then
                  throw (.bad "chunk" s!"{d.tag}/{d.ref}: chunk origin {r.origin} outside the chunk grid {nChunks}")
                let num := rowMajor (r.origin.map (·.toNat)) nChunks
                if store.any (·.1 == num) then throw (.bad "chunk" s!"{d.tag}/{d.ref}: two chunk records for origin {r.origin}")
                if baseTag r.tag ≠ DFTAG_CHUNK then throw (.bad "chunk" s!"{d.tag}/{d.ref}: chunk record tag {r.tag}")
                match findDD dds DFTAG_CHUNK r.ref with
                | none => throw (.bad "chunk" s!"{d.tag}/{d.ref}: chunk DFTAG_CHUNK/{r.ref} does not exist")
                | some cd =>
                  let ce ← readElem b dds fuel cd
                  match ce.kind with
                  | .plain | .comp _ => pure ()
                  | _ => throw (.bad "chunk" s!"{d.tag}/{d.ref}: chunk DFTAG_CHUNK/{r.ref} is neither plain nor compressed")
                  if ce.ldata.len < chunkBytes then
                    throw (.bad "chunk" s!"{d.tag}/{d.ref}: chunk DFTAG_CHUNK/{r.ref} holds {ce.ldata.len} bytes, a chunk has {chunkBytes}")
                  store := (num, ce.ldata.data) :: store
                  cblocks := cblocks ++ [(num, r.origin, ce.blocks)]
              -- logical data: row-major array of `length` elements of nt_size bytes
              let total := h.length.toNat * h.ntSize.toNat
              if total > 134217728 then throw (.bad "limit" s!"{d.tag}/{d.ref}: chunked element of {total} bytes is beyond what this reader assembles")
              let nt := h.ntSize.toNat
              let fillChunk : ByteArray := ba ((List.replicate (chunkBytes / h.fill.length) h.fill).flatten)
              let known := store.all (·.2.isSome)
              let data : Option ByteArray :=
                if !known then none else some (Id.run do
                  let mut out := ByteArray.empty
                  for e in [0:h.length.toNat] do
                    let c := coordsOf e dimLens
                    let ci := (c.zip chunkLens).map fun (x, cl) => x / cl
                    let ri := (c.zip chunkLens).map fun (x, cl) => x % cl
                    let num := rowMajor ci nChunks
                    let pos := rowMajor ri chunkLens * nt
                    let src := match store.find? (·.1 == num) with
                      | some (_, some cb) => cb
                      | _ => fillChunk
                    out := out ++ src.extract pos (pos + nt)
                  pure out)
              -- chunks in row-major order of their origin (the order of the chunk numbers)
              let sorted := (cblocks.mergeSort (fun x y => x.1 ≤ y.1)).map (·.2)
              pure ⟨d, .chunked h recs, ⟨total, data⟩, [], sorted⟩
          | _, _ => bad "chunk" s!"{d.tag}/{d.ref}: chunk table DFTAG_VH/DFTAG_VS {h.tblRef} does not exist"
      else bad "special" s!"{d.tag}/{d.ref}: unknown special code {code}"

/-! ### Vdatas, Vgroups, cross references -/

/-- tags a Vgroup may name although no descriptor with that tag/ref is in the file.
    `DFTAG_SD`: an SDS whose data has not been written keeps a reserved data ref in its Vgroup and NDG
    (`hdf_write_var` in mfhdf/src/cdf.c adds `DFTAG_SD, data_ref` unconditionally);
    `DFTAG_SDS` is the reserved "no data" marker; `DFTAG_RI`/`DFTAG_CI`: an image created without pixels;
    `DFTAG_LUT`: a palette slot that was never written. -/
def virtualTags : List Nat := []

structure FileContent where
  size : Nat
  blocks : List Block
  dds : List DD
  elems : List Elem
  vhs : List (Nat × VH)
  vgs : List (Nat × VG)
  version : Option Version
deriving Inhabited

def exists_ (dds : List DD) (tag ref : Nat) : Bool := (findDD dds tag ref).isSome

def checkVH (dds : List DD) (ref : Nat) (v : VH) : R Unit := do
  if v.nvert < 0 then bad "vh" s!"DFTAG_VH/{ref}: nvertices {v.nvert}"
  if v.interlace ≠ (FULL_INTERLACE : Nat) ∧ v.interlace ≠ (NO_INTERLACE : Nat) then bad "vh" s!"DFTAG_VH/{ref}: interlace {v.interlace}"
  if v.version ≠ (VSET_VERSION : Nat) ∧ v.version ≠ (VSET_NEW_VERSION : Nat) ∧ v.version ≠ (VSET_OLD_VERSION : Nat) then
    bad "vh" s!"DFTAG_VH/{ref}: version {v.version}"
  if (v.fields.map (·.isize)).foldl (· + ·) 0 ≠ v.ivsize then bad "vh" s!"DFTAG_VH/{ref}: ivsize {v.ivsize} is not the sum of the field sizes"
  -- field offsets are the running sums of the sizes
  let offs := (v.fields.foldl (fun (acc : List Nat × Nat) f => (acc.1 ++ [acc.2], acc.2 + f.isize)) ([], 0)).1
  if v.fields.map (·.off) ≠ offs then bad "vh" s!"DFTAG_VH/{ref}: field offsets {v.fields.map (·.off)} are not the running sums {offs}"
  for a in v.attrs do
    if a.atag ≠ DFTAG_VH then bad "vh" s!"DFTAG_VH/{ref}: attribute tag {a.atag}"
    if !exists_ dds a.atag a.aref then bad "xref" s!"DFTAG_VH/{ref}: attribute vdata {a.atag}/{a.aref} does not exist"
    if a.findex < -1 ∨ a.findex ≥ v.fields.length then bad "vh" s!"DFTAG_VH/{ref}: attribute field index {a.findex}"
  -- the data element: exists unless the vdata is empty
  match findDD dds DFTAG_VS ref with
  | none => if v.nvert > 0 then bad "xref" s!"DFTAG_VH/{ref}: {v.nvert} records but no DFTAG_VS/{ref}"
  | some _ => pure ()

def checkVG (dds : List DD) (ref : Nat) (g : VG) : R Unit := do
  if g.version ≠ (VSET_VERSION : Nat) ∧ g.version ≠ (VSET_NEW_VERSION : Nat) ∧ g.version ≠ (VSET_OLD_VERSION : Nat) then
    bad "vg" s!"DFTAG_VG/{ref}: version {g.version}"
  for (t, r) in g.members do
    if !(virtualTags.contains t) ∧ !exists_ dds t r then bad "xref" s!"DFTAG_VG/{ref}: member {t}/{r} does not exist"
  for (t, r) in g.attrs do
    if t ≠ DFTAG_VH then bad "vg" s!"DFTAG_VG/{ref}: attribute tag {t}"
    if !exists_ dds t r then bad "xref" s!"DFTAG_VG/{ref}: attribute vdata {t}/{r} does not exist"

/-- a group record (`DFdiwrite`: `DFTAG_RIG`, `DFTAG_NDG`, `DFTAG_SDG`): a list of (tag, ref) pairs, 4 bytes each -/
def decodeGroup : Bytes → Option (List (Nat × Nat))
  | [] => some []
  | a :: b :: c :: d :: rest => (decodeGroup rest).map (fun l => (be16 a b, be16 c d) :: l)
  | _ => none

/-- members of a group that need not be in the file: the data element of an image / data set may be named before it is written;
    `BOGUS_TAG` (721) marks an NDG written by the SD interface and is "never actually written to the file" (htags.h) -/
def groupDataTags : List Nat := [DFTAG_RI, DFTAG_CI, DFTAG_SD, H4.Gen.FmtNc.BOGUS_TAG]

/-- every DESCRIPTIVE member of a group (dimension record, number type, palette, labels ...) is in the file: the old
    interfaces (DFR8, DF24, DFSD) and `GRstart` / `SDstart` read them through the group and fail when one is missing -/
def checkGroup (dds : List DD) (tag ref : Nat) (ms : List (Nat × Nat)) : R Unit := do
  for (t, r) in ms do
    if !(groupDataTags.contains t) ∧ !exists_ dds t r then bad "xref" s!"group {tag}/{ref}: member {t}/{r} does not exist"

/-- logical bytes of the element behind a descriptor, when the reader can produce them -/
def Elem.bytes? (e : Elem) : Option Bytes := e.ldata.data.map (·.toList)

/-! ### the descriptive records against the data they describe

Rules, each derived from the writers:
* `nt`: a number type named by a dimension record is a `DFTAG_NT` element of 4 bytes: version `DFNT_VERSION`, a type `DFKNTsize` knows,
  width = 8 · size, class one of the `DFNTF_` / `DFNTC_` codes (`DFSDIputndg`, `hdf_write_var`, `GRIupdatemeta`, `DFGRaddrig`, `DFR8putrig`
  all write exactly this).
* `sdd`: the dimension record of a data set decodes (rank, rank sizes ≥ 0, rank + 1 number types); when the group names a data element
  that is in the file and has been written, product(sizes) · size(NT) is the LOGICAL length of that element (`DFSDIputdata` /
  `DFSDstartslab` reserve exactly that; the SD interface pre-sizes a fixed-size variable at its first write and keeps
  `vp->numrecs` = length / record size for a record variable: `hdf_write_var` stores it at `SDend` of the creating session,
  `hdf_close` refreshes it in place at the end of every later writing session).  Label / unit / format records hold rank + 1 strings.
* `id`: an image / palette dimension record is 20 bytes, sizes ≥ 0, components ≥ 1, interlace 0..2; no compression tag: xdim · ydim ·
  components · size(NT) is the logical length of the image / palette element when that has been written (`GRIupdatemeta`,
  `DFGRaddrig`, `DFR8putrig`); compression tag `DFTAG_RLE` / `DFTAG_IMC`: nothing to compare (the element holds the packed rows);
  `DFTAG_JPEG5` / `DFTAG_GREYJPEG5`: the element is a JFIF stream; the old `DFTAG_JPEG` / `DFTAG_GREYJPEG`: the header element with the
  image's reference number is in the file (`DFCIunjpeg` reads it).  An image element of length 0 is an image without pixels
  (`GRIupdateRI` allocates it); a dimension record without number type (0/0, `DFGRaddrig` for palettes) describes 8-bit values.
  A palette named by a group without a palette dimension record (`DFR8putrig`) and every `DFTAG_IP8` is 768 bytes. -/

abbrev Complaint := String × String

def elemOf (elems : List Elem) (tag ref : Nat) : Option Elem :=
  elems.find? fun e => baseTag e.dd.tag == baseTag tag && e.dd.ref == ref

/-- an element that is in the file and has been written (not the `(-1, -1)` placeholder) -/
def writtenElem (elems : List Elem) (tag ref : Nat) : Option Elem :=
  (elemOf elems tag ref).filter fun e => !isEmptyDD e.dd

/-- `DFKNTsize` of a type code (Tie A table `H4.Gen.Conv.table`) -/
def ntSizeOf (t : Nat) : Option Nat := (H4.Gen.Conv.table.find? (·.1 == t)).map (·.2.1)

def ntOK (n : NT) : Option Nat :=
  match ntSizeOf n.type with
  | none => none
  | some sz => if n.version = H4.Gen.FmtDesc.DFNT_VERSION ∧ n.width = 8 * sz ∧ n.cls ≤ H4.Gen.FmtDesc.DFNTF_VP then some sz else none

/-- the number type `tag/ref` named by `who`: complaints, and the size of one value when there are none -/
def checkNT (elems : List Elem) (who : String) (tag ref : Nat) : List Complaint × Option Nat :=
  if tag ≠ DFTAG_NT then ([("nt", s!"{who}: number type {tag}/{ref} is not a DFTAG_NT")], none) else
  match elemOf elems tag ref with
  | none => ([("nt", s!"{who}: number type DFTAG_NT/{ref} does not exist")], none)
  | some e =>
    match e.ldata.data.map (·.toList) with
    | none => ([("nt", s!"{who}: number type DFTAG_NT/{ref} is not readable")], none)
    | some bs =>
      match decodeNT bs with
      | none => ([("nt", s!"{who}: number type DFTAG_NT/{ref} has {bs.length} bytes, not 4")], none)
      | some n =>
        match ntOK n with
        | some sz => ([], some sz)
        | none => ([("nt", s!"{who}: number type DFTAG_NT/{ref} version {n.version} type {n.type} width {n.width} class {n.cls}: unknown type, or the width is not that of the type")], none)

def lufTags : List Nat := [DFTAG_SDL, DFTAG_SDU, DFTAG_SDF]

/-- the first member with one of `tags` -/
def memberOf (ms : List (Nat × Nat)) (tags : List Nat) : Option (Nat × Nat) := ms.find? fun m => tags.contains m.1

/-- one dimension record `DFTAG_SDD/ref` of the data-set group `who` with members `ms` -/
def checkSDD (elems : List Elem) (who : String) (ms : List (Nat × Nat)) (ref : Nat) : List Complaint :=
  match elemOf elems DFTAG_SDD ref with
  | none => []        -- existence is the business of `checkGroup` / `checkVG` (clause xref)
  | some e =>
    match e.ldata.data.map (·.toList) with
    | none => [("sdd", s!"{who}: DFTAG_SDD/{ref} is not readable")]
    | some bs =>
      match decodeSDD bs with
      | none => [("sdd", s!"{who}: DFTAG_SDD/{ref} ({bs.length} bytes) is not rank, rank sizes and rank+1 number types")]
      | some s =>
        let who := s!"{who} DFTAG_SDD/{ref}"
        let rank := s.dims.length
        let cDims := if s.dims.any (· < 0) then [("sdd", s!"{who}: negative dimension size in {s.dims}")] else []
        let (cNT, osz) := checkNT elems who s.dataNT.1 s.dataNT.2
        let cScale := s.scaleNTs.flatMap fun p => (checkNT elems who p.1 p.2).1
        let cData := match osz, memberOf ms [DFTAG_SD] with
          | some sz, some (_, dr) =>
            match writtenElem elems DFTAG_SD dr with
            | some de =>
              let want := prod (s.dims.map (·.toNat)) * sz
              if de.ldata.len = want then []
              else [("sdd", s!"{who}: dimensions {s.dims} of {sz}-byte values describe {want} bytes, the data element DFTAG_SD/{dr} holds {de.ldata.len}")]
            | none => []
          | _, _ => []
        let cLuf := (ms.filter fun m => lufTags.contains m.1).flatMap fun m =>
          match (elemOf elems m.1 m.2).bind (fun e => e.ldata.data.map (·.toList)) with
          | none => []
          | some lb =>
            match decodeStrs lb with
            | none => [("sdd", s!"{who}: string record {m.1}/{m.2} does not end with a terminator")]
            | some strs => if strs.length = rank + 1 then [] else [("sdd", s!"{who}: string record {m.1}/{m.2} holds {strs.length} strings, rank + 1 = {rank + 1}")]
        cDims ++ cNT ++ cScale ++ cData ++ cLuf

/-- a data-set group (`DFTAG_NDG`, `DFTAG_SDG`, Vgroup of class `Var0.0`): every dimension record it names -/
def checkSDGroup (elems : List Elem) (who : String) (ms : List (Nat × Nat)) : List Complaint :=
  (ms.filter fun m => m.1 == DFTAG_SDD).flatMap fun m => checkSDD elems who ms m.2

/-- one image / palette dimension record `tag/ref` (`DFTAG_ID` with the data tags `DFTAG_RI`/`DFTAG_CI`, `DFTAG_LD` with `DFTAG_LUT`) -/
def checkImgDesc (elems : List Elem) (who : String) (ms : List (Nat × Nat)) (tag ref : Nat) (dataTags : List Nat) : List Complaint :=
  match elemOf elems tag ref with
  | none => []
  | some e =>
    match e.ldata.data.map (·.toList) with
    | none => [("id", s!"{who}: dimension record {tag}/{ref} is not readable")]
    | some bs =>
      match decodeImgDesc bs with
      | none => [("id", s!"{who}: dimension record {tag}/{ref} has {bs.length} bytes, not 20")]
      | some d =>
        let who := s!"{who} dimension record {tag}/{ref}"
        let cShape :=
          if d.xdim < 0 ∨ d.ydim < 0 ∨ d.ncomps < 1 ∨ d.interlace < 0 ∨ d.interlace > (H4.Gen.FmtDesc.DFIL_PLANE : Nat) then
            [("id", s!"{who}: xdim {d.xdim} ydim {d.ydim} components {d.ncomps} interlace {d.interlace}")] else []
        -- "A record without number type (tag/ref 0/0: DFGRaddlut writes such palette dimensions)" (`GRIget_nt`, mfgr.c): raster data
        -- without a number type are 8-bit values
        let (cNT, osz) := if d.ntTag = 0 ∨ d.ntRef = 0 then ([], some 1) else checkNT elems who d.ntTag d.ntRef
        let cData :=
          if d.compTag = 0 ∨ d.compTag = DFTAG_NULL then
            match osz, memberOf ms dataTags with
            | some sz, some (dt, dr) =>
              match writtenElem elems dt dr with
              | some de =>
                let want := d.xdim.toNat * d.ydim.toNat * d.ncomps.toNat * sz
                -- `GRIupdateRI` allocates the image element (length 0) of an image that has no pixels yet
                if de.ldata.len = want ∨ de.ldata.len = 0 then []
                else [("id", s!"{who}: {d.xdim} x {d.ydim} pixels of {d.ncomps} {sz}-byte components describe {want} bytes, the element {dt}/{dr} holds {de.ldata.len}")]
              | none => []
            | _, _ => []
          else if d.compTag = DFTAG_RLE ∨ d.compTag = DFTAG_IMC ∨ d.compTag = DFTAG_JPEG5 ∨ d.compTag = DFTAG_GREYJPEG5 then []
          else if d.compTag = H4.Gen.FmtDesc.DFTAG_JPEG ∨ d.compTag = H4.Gen.FmtDesc.DFTAG_GREYJPEG then
            -- the old JPEG layout: the tables are a separate element with the image's reference number (`DFCIunjpeg`)
            match memberOf ms dataTags with
            | some (_, dr) => if (elemOf elems d.compTag dr).isSome then [] else [("id", s!"{who}: JPEG header {d.compTag}/{dr} does not exist")]
            | none => []
          else [("id", s!"{who}: unknown compression tag {d.compTag}")]
        cShape ++ cNT ++ cData

/-- an image group (`DFTAG_RIG`, Vgroup of class `RI0.0`) -/
def checkRIGroup (elems : List Elem) (who : String) (ms : List (Nat × Nat)) : List Complaint :=
  ((ms.filter fun m => m.1 == DFTAG_ID).flatMap fun m => checkImgDesc elems who ms DFTAG_ID m.2 [DFTAG_RI, DFTAG_CI]) ++
  ((ms.filter fun m => m.1 == DFTAG_LD).flatMap fun m => checkImgDesc elems who ms DFTAG_LD m.2 [DFTAG_LUT]) ++
  (if (memberOf ms [DFTAG_LD]).isSome then [] else
    (ms.filter fun m => m.1 == DFTAG_LUT).flatMap fun m =>
      match writtenElem elems m.1 m.2 with
      | some pe => if pe.ldata.len = 768 then [] else [("id", s!"{who}: palette {m.1}/{m.2} without a dimension record holds {pe.ldata.len} bytes, not 768")]
      | none => [])

/-- complaints about one element in its role as a group record or a stand-alone 8-bit palette -/
def elemComplaints (elems : List Elem) (e : Elem) : List Complaint :=
  if e.dd.tag = Gen.Hdf.DFTAG_NDG ∨ e.dd.tag = DFTAG_SDG then
    match (e.ldata.data.map (·.toList)).bind decodeGroup with
    | some ms => checkSDGroup elems s!"group {e.dd.tag}/{e.dd.ref}" ms
    | none => []
  else if e.dd.tag = DFTAG_RIG then
    match (e.ldata.data.map (·.toList)).bind decodeGroup with
    | some ms => checkRIGroup elems s!"group {e.dd.tag}/{e.dd.ref}" ms
    | none => []
  else if e.dd.tag = DFTAG_IP8 ∧ !isEmptyDD e.dd then
    if e.ldata.len = 768 then [] else [("id", s!"DFTAG_IP8/{e.dd.ref} holds {e.ldata.len} bytes, not 768")]
  else []

/-- the Vgroups through which the SD and GR interfaces name the same records -/
def vgComplaints (elems : List Elem) (p : Nat × VG) : List Complaint :=
  if p.2.cls = H4.Gen.FmtDesc.VAR_CLASS.map UInt8.ofNat then checkSDGroup elems s!"DFTAG_VG/{p.1}" p.2.members
  else if p.2.cls = H4.Gen.FmtDesc.RI_CLASS.map UInt8.ofNat then checkRIGroup elems s!"DFTAG_VG/{p.1}" p.2.members
  else []

/-- everything the descriptive records have to say, file order -/
def descComplaints (elems : List Elem) (vgs : List (Nat × VG)) : List Complaint :=
  elems.flatMap (elemComplaints elems) ++ vgs.flatMap (vgComplaints elems)


def maxNest : Nat := 6

/-- Vdata headers, Vgroup records and the version record, each checked against the descriptors it names -/
def readRecords (dds : List DD) (elems : List Elem) : R (List (Nat × VH) × List (Nat × VG) × Option Version) := do
  let mut vhs : List (Nat × VH) := []
  let mut vgs : List (Nat × VG) := []
  let mut version : Option Version := none
  for e in elems do
    if baseTag e.dd.tag = DFTAG_VH then
      match e.bytes?.bind vunpackvs with
      | none => bad "vh" s!"DFTAG_VH/{e.dd.ref}: record unreadable (length {e.ldata.len})"
      | some v =>
        checkVH dds e.dd.ref v
        -- the records must fit into the data element
        match elems.find? (fun x => baseTag x.dd.tag == DFTAG_VS && x.dd.ref == e.dd.ref) with
        | some de =>
          if de.ldata.len < v.nvert.toNat * v.ivsize then
            bad "vh" s!"DFTAG_VH/{e.dd.ref}: {v.nvert} records of {v.ivsize} bytes but DFTAG_VS/{e.dd.ref} holds {de.ldata.len} bytes"
        | none => pure ()
        vhs := vhs ++ [(e.dd.ref, v)]
    else if baseTag e.dd.tag = DFTAG_VG then
      match e.bytes?.bind vunpackvg with
      | none => bad "vg" s!"DFTAG_VG/{e.dd.ref}: record unreadable (length {e.ldata.len})"
      | some g =>
        checkVG dds e.dd.ref g
        vgs := vgs ++ [(e.dd.ref, g)]
    else if e.dd.tag = DFTAG_RIG ∨ e.dd.tag = Gen.Hdf.DFTAG_NDG ∨ e.dd.tag = DFTAG_SDG then
      match e.bytes?.bind decodeGroup with
      | none => bad "group" s!"group {e.dd.tag}/{e.dd.ref}: record unreadable or not a list of tag/ref pairs (length {e.ldata.len})"
      | some ms => checkGroup dds e.dd.tag e.dd.ref ms
    else if e.dd.tag = DFTAG_VERSION then
      match e.bytes?.bind decodeVersion with
      | none => bad "version" s!"DFTAG_VERSION/{e.dd.ref}: not {LIBVER_LEN} bytes"
      | some v => version := some v
  pure (vhs, vgs, version)

/-- last line of defence, stated as one decidable predicate so that `decodeFile_wf` can carry it: every descriptor was
    read as an element, every Vgroup member / attribute and every Vdata attribute names an existing descriptor -/
def finalOK (c : FileContent) : Bool :=
  c.elems.map (·.dd) == c.dds &&
  c.vgs.all (fun p => p.2.members.all (fun m => virtualTags.contains m.1 || exists_ c.dds m.1 m.2) &&
                      p.2.attrs.all (fun m => exists_ c.dds m.1 m.2)) &&
  c.vhs.all (fun p => p.2.attrs.all (fun a => exists_ c.dds a.atag a.aref))

/-- the whole reader -/
def decodeFile (b : ByteArray) : R FileContent :=
  match readRaw b with
  | .error e => .error e
  | .ok raw =>
    match raw.dds.mapM (readElem b raw.dds maxNest) with
    | .error e => .error e
    | .ok elems =>
      match readRecords raw.dds elems with
      | .error e => .error e
      | .ok (vhs, vgs, version) =>
        let c : FileContent := ⟨raw.size, raw.blocks, raw.dds, elems, vhs, vgs, version⟩
        if finalOK c then
          match descComplaints elems vgs with
          | [] => .ok c
          | (clause, detail) :: _ => bad clause detail
        else bad "xref" "final cross-reference check failed"

/-- for diagnosis: ALL complaints about the descriptive records (the reader stops at the first) -/
def allDescComplaints (b : ByteArray) : List Complaint :=
  match readRaw b with
  | .error _ => []
  | .ok raw =>
    match raw.dds.mapM (readElem b raw.dds maxNest) with
    | .error _ => []
    | .ok elems =>
      match readRecords raw.dds elems with
      | .error _ => []
      | .ok (_, vgs, _) => descComplaints elems vgs

end H4.Format
