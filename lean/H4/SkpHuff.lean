import H4.Gen.Cskphuff
import H4.Bits
/-! Model of `hdf/src/cskphuff.c` (C05): the "skipping Huffman" coder, i.e. `skip_size` independent
    adaptive (semi-splayed) prefix-code trees used round-robin, in the array form of the C code
    (`left[SUCCMAX]`, `right[SUCCMAX]`, `uint8 up[TWICEMAX]`), branch by branch.
    All limits come from the generated constants (Tie A).  Core-only, executable, total. -/
namespace H4.SkpHuff
open H4.Gen.Cskphuff

/-- total array read (`arr[i]`); out-of-range reads give 0 (never happens on well-formed trees) -/
@[inline] def rd (a : Array Nat) (i : Nat) : Nat := a.getD i 0

/-- total array write (`arr[i] = v`); out-of-range writes are dropped (never happens on well-formed trees) -/
@[inline] def wr (a : Array Nat) (i v : Nat) : Array Nat := a.setIfInBounds i v

/-- one tree of `comp_coder_skphuff_info_t`: `left[k]`, `right[k]` (`unsigned[SUCCMAX]`) and
    `up[k]` (`uint8[TWICEMAX]`) -/
structure Tree where
  left : Array Nat
  right : Array Nat
  up : Array Nat

/-- `HCIcskphuff_init`, body of the `for (k ...)` loop:
    ```
    for (i = 0; i < TWICEMAX; i++) skphuff_info->up[k][i] = (uint8)(i >> 1);
    for (j = 0; j < SUCCMAX; j++) {
        skphuff_info->left[k][j]  = (unsigned)(j << 1);
        skphuff_info->right[k][j] = (unsigned)((j << 1) + 1);
    }
    ```
    (quirk: `ROOT = 0`, `left[0] = 0`, `right[0] = 1`, `up[0] = up[1] = 0`, `up[512] = (uint8)256 = 0`:
    node 0 is its own left child and the genuine tree hangs under node 1) -/
def Tree.init : Tree where
  left := ((List.range SUCCMAX).map fun j => j <<< 1).toArray
  right := ((List.range SUCCMAX).map fun j => (j <<< 1) + 1).toArray
  up := ((List.range TWICEMAX).map fun i => (i >>> 1) % 256).toArray

/-- one iteration of the `do { ... } while (a != ROOT)` loop of `HCIcskphuff_splay`
    (returns the new tree and the new `a`):
    ```
    c = lup[a];
    if (c != ROOT) {
        d = lup[(int)c];
        b = lleft[(int)d];
        if ((unsigned)c == b) { b = lright[(int)d]; lright[(int)d] = a; }
        else lleft[(int)d] = a;
        if (a == lleft[(int)c]) lleft[(int)c] = b;
        else lright[(int)c] = b;
        lup[a] = d;
        lup[b] = c;
        a = (unsigned)d;
    } else a = (unsigned)c;
    ```
    `c`, `d` are `uint8` variables, hence the `% 256`. -/
def splayStep (t : Tree) (a : Nat) : Tree × Nat :=
  let c := rd t.up a % 256
  if c ≠ ROOT then
    let d := rd t.up c % 256
    let b0 := rd t.left d
    let b := if c = b0 then rd t.right d else b0
    let r1 := if c = b0 then wr t.right d a else t.right
    let l1 := if c = b0 then t.left else wr t.left d a
    let l2 := if a = rd l1 c then wr l1 c b else l1
    let r2 := if a = rd l1 c then r1 else wr r1 c b
    let u1 := wr t.up a d
    let u2 := wr u1 b c
    ({ left := l2, right := r2, up := u2 }, d)
  else
    (t, c)

/-- the `do { ... } while (a != ROOT)` loop of `HCIcskphuff_splay` with explicit fuel -/
def splayLoop : Nat → Tree → Nat → Tree
  | 0, t, _ => t
  | fuel+1, t, a =>
    let r := splayStep t a
    if r.2 ≠ ROOT then splayLoop fuel r.1 r.2 else r.1

/-- `HCIcskphuff_splay(skphuff_info, plain)` on the current tree:
    `a = (unsigned)plain + SUCCMAX; do { ... } while (a != ROOT);` -/
def splay (t : Tree) (plain : Nat) : Tree := splayLoop TWICEMAX t (plain + SUCCMAX)

/-- the first `do { ... } while (a != ROOT)` loop of `HCIcskphuff_encode` seen as a bit list:
    ```
    last_node = a;
    a = (unsigned)up[skip_pos][a];
    if (right[skip_pos][a] == last_node) output_bits[stack_ptr] |= bit_mask;
    ...
    ```
    one bit per step, the last collected bit first (the order in which the stack is written out). -/
def climb : Nat → Tree → Nat → List Bool → List Bool
  | 0, _, _, acc => acc
  | fuel+1, t, a, acc =>
    let p := rd t.up a
    let bit := rd t.right p == a
    if p ≠ ROOT then climb fuel t p (bit :: acc) else bit :: acc

/-- the bits `HCIcskphuff_encode` writes for one source byte `plain` (ROOT-to-leaf order: the highest
    stack entry is written first and `Hbitwrite` writes each word most significant bit first) -/
def encSym (t : Tree) (plain : Nat) : List Bool := climb TWICEMAX t (plain + SUCCMAX) []

/-- the bit stack of `HCIcskphuff_encode`: `top = (bit_count[stack_ptr], output_bits[stack_ptr])`,
    `below` = the entries `stack_ptr-1, ..., 0`, `mask = bit_mask` (a `uint32`) -/
structure Stack where
  top : Nat × Nat
  below : List (Nat × Nat)
  mask : Nat

/-- the push part of the encoder loop body:
    ```
    if (...) output_bits[stack_ptr] |= bit_mask;
    bit_mask <<= 1;
    bit_count[stack_ptr]++;
    if (bit_count[stack_ptr] >= 32) {
        stack_ptr++; bit_mask = 1; output_bits[stack_ptr] = 0; bit_count[stack_ptr] = 0;
    }
    ``` -/
def Stack.push (s : Stack) (bit : Bool) : Stack :=
  let bits := if bit then s.top.2 ||| s.mask else s.top.2
  let mask := (s.mask <<< 1) % 2 ^ 32
  let cnt := s.top.1 + 1
  if cnt ≥ 32 then { top := (0, 0), below := (cnt, bits) :: s.below, mask := 1 }
  else { top := (cnt, bits), below := s.below, mask := mask }

/-- the first loop of `HCIcskphuff_encode`, literally, on the bit stack -/
def climbF : Nat → Tree → Nat → Stack → Stack
  | 0, _, _, s => s
  | fuel+1, t, a, s =>
    let p := rd t.up a
    let s := s.push (rd t.right p == a)
    if p ≠ ROOT then climbF fuel t p s else s

/-- the `(count, data)` arguments of the `Hbitwrite` calls `HCIcskphuff_encode` makes for one source byte:
    ```
    do {
        if (bit_count[stack_ptr] > 0)
            Hbitwrite(info->aid, (int)bit_count[stack_ptr], output_bits[stack_ptr]);
        stack_ptr--;
    } while (stack_ptr >= 0);
    ``` -/
def encFields (t : Tree) (plain : Nat) : List (Nat × Nat) :=
  let s := climbF TWICEMAX t (plain + SUCCMAX) { top := (0, 0), below := [], mask := 1 }
  (s.top :: s.below).filter fun e => e.1 > 0

/-- the inner `do { ... } while (a <= SKPHUFF_MAX_CHAR)` loop of `HCIcskphuff_decode`:
    ```
    if (Hbitread(info->aid, 1, &bit) == FAIL) HRETURN_ERROR(DFE_CDECODE, FAIL);
    a = ((bit == 0) ? left[skip_pos][a] : right[skip_pos][a]);
    ```
    returns `a - SUCCMAX` and the unread bits -/
def descend (t : Tree) : Nat → List Bool → Option (Nat × List Bool)
  | _, [] => none
  | a, bit :: bits =>
    let a' := if bit then rd t.right a else rd t.left a
    if a' > SKPHUFF_MAX_CHAR then some (a' - SUCCMAX, bits) else descend t a' bits

/-- one symbol of `HCIcskphuff_decode`: `a = ROOT; do { ... } while (a <= SKPHUFF_MAX_CHAR);` -/
def decSym (t : Tree) (bits : List Bool) : Option (Nat × List Bool) := descend t ROOT bits

/-- the tree `skphuff_info->{left,right,up}[pos]` -/
def getTree (ts : List Tree) (pos : Nat) : Tree := ts.getD pos Tree.init

/-- `while (length > 0)` loop of `HCIcskphuff_encode`, as a bit stream:
    emit the code of `*buf`, `HCIcskphuff_splay(skphuff_info, *buf)`,
    `skip_pos = (skip_pos + 1) % skip_size` -/
def encRun (skip : Nat) : List Tree → Nat → List UInt8 → List Bool
  | _, _, [] => []
  | ts, pos, b :: bs =>
    let t := getTree ts pos
    encSym t b.toNat ++ encRun skip (ts.set pos (splay t b.toNat)) ((pos + 1) % skip) bs

/-- same loop, as the list of `Hbitwrite(count, data)` calls -/
def encRunF (skip : Nat) : List Tree → Nat → List UInt8 → List (Nat × Nat)
  | _, _, [] => []
  | ts, pos, b :: bs =>
    let t := getTree ts pos
    encFields t b.toNat ++ encRunF skip (ts.set pos (splay t b.toNat)) ((pos + 1) % skip) bs

/-- `while (length > 0)` loop of `HCIcskphuff_decode`: decode a symbol, `plain = (uint8)(a - SUCCMAX)`,
    splay, advance `skip_pos`, store `plain` -/
def decRun (skip : Nat) : List Tree → Nat → List Bool → Nat → Option (List UInt8)
  | _, _, _, 0 => some []
  | ts, pos, bits, n+1 =>
    let t := getTree ts pos
    match decSym t bits with
    | none => none
    | some (s, rest) =>
      let plain := UInt8.ofNat s
      (decRun skip (ts.set pos (splay t plain.toNat)) ((pos + 1) % skip) rest n).map (plain :: ·)

/-- the `skip_size` freshly initialised trees (`HCIcskphuff_init`) -/
def initTrees (skip : Nat) : List Tree := List.replicate skip Tree.init

/-- bit stream written for `bs` by a fresh skipping-Huffman element with `skip_size = skip` -/
def encodeBits (skip : Nat) (bs : List UInt8) : List Bool := encRun skip (initTrees skip) 0 bs

/-- the `Hbitwrite(count, data)` calls made for `bs` by a fresh element with `skip_size = skip` -/
def encodeFields (skip : Nat) (bs : List UInt8) : List (Nat × Nat) := encRunF skip (initTrees skip) 0 bs

/-- `n` bytes read back from a fresh element with `skip_size = skip` -/
def decodeBits (skip : Nat) (bits : List Bool) (n : Nat) : Option (List UInt8) :=
  decRun skip (initTrees skip) 0 bits n

/-- number of bits of the code `HCIcskphuff_encode` writes for `plain`: the sum of the `count` arguments of its `Hbitwrite` calls -/
def codeBits (t : Tree) (plain : Nat) : Nat := ((encFields t plain).map (·.1)).sum

/-- number of `Hbitwrite` calls made for `plain` = number of non-empty words of the bit stack (`output_bits[]`/`bit_count[]`):
    1 up to 32 bits, 2 up to 64, 3 up to 96, ... -/
def codeWords (t : Tree) (plain : Nat) : Nat := (encFields t plain).length

/-- the `while (length > 0)` loop of `HCIcskphuff_encode` once more, keeping only
    (longest code in bits, most stack words used by one code, total number of bits written) -/
def lensRun (skip : Nat) : List Tree → Nat → List UInt8 → Nat × Nat × Nat → Nat × Nat × Nat
  | _, _, [], acc => acc
  | ts, pos, b :: bs, (mb, mw, tot) =>
    let t := getTree ts pos
    lensRun skip (ts.set pos (splay t b.toNat)) ((pos + 1) % skip) bs
      (max mb (codeBits t b.toNat), max mw (codeWords t b.toNat), tot + codeBits t b.toNat)

/-- code-length figures of a fresh element with `skip_size = skip` fed with `bs` -/
def codeLens (skip : Nat) (bs : List UInt8) : Nat × Nat × Nat := lensRun skip (initTrees skip) 0 bs (0, 0, 0)

end H4.SkpHuff
