import H4.Attr
/-!
# C10 — the SD file machine (mfsd.c + the persistence of cdf.c), built on `H4.Attr.put`

State = what `NC` holds for an HDF file: the dimension array (`handle->dims`, slots that may share one `NC_dim`
object after `SDsetdimname`), the variable array (`handle->vars`: datasets and coordinate variables, each with its
attribute list), the global attribute list, the `NC_HDIRTY` flag; plus `disk`, the image `hdf_read_xdr_cdf` would
rebuild (written by `SDend` through `hdf_write_xdr_cdf` when the file is writable and dirty).
Reference numbers (`Hnewref`) are inputs (`setRefs`).  Every function quotes the C routine it follows.
-/
namespace H4.AttrSD
open H4.Attr H4.Gen.Attr

structure Dim where
  name : Bytes
  size : Nat
deriving DecidableEq, Repr, Inhabited

structure Var where
  name : Bytes
  hdftype : Nat
  dims : List Nat        -- `assoc`: indices into the dimension array
  attrs : AList
  vtype : Nat            -- IS_SDSVAR / IS_CRDVAR / UNKNOWN
  ref : Nat              -- `ndg_ref`
  hasData : Bool         -- `numrecs != 0` in a session, `data_ref != 0` after reading the file
  scale : Bytes          -- the data element of a coordinate variable written by SDsetdimscale
deriving DecidableEq, Repr, Inhabited

/-- what `hdf_read_xdr_cdf` rebuilds -/
structure Disk where
  dims : List Dim := []
  vars : List Var := []
  gattrs : AList := []
deriving DecidableEq, Repr, Inhabited

structure File where
  isOpen : Bool := false
  rdwr : Bool := false
  dirty : Bool := false
  slots : List Nat := []     -- `handle->dims->values[i]` as an index into `objs` (two slots may share an object)
  objs : List Dim := []
  vars : List Var := []
  gattrs : AList := []
  disk : Disk := {}
deriving Repr, Inhabited

inductive Item
  | int (i : Int)
  | hex (b : Bytes)
  | null
deriving DecidableEq, Repr

inductive Out
  | fail | ok | bad
  | items (l : List Item)
deriving DecidableEq, Repr

/-- which object an id denotes: file, dataset index, dimension slot -/
inductive Obj
  | file
  | var (i : Nat)
  | dim (slot : Nat)
deriving DecidableEq, Repr

/-- decimal digits of `n` (`sprintf("%d")`), structurally recursive so that the kernel can evaluate it -/
def decAux : Nat → Nat → Bytes → Bytes
  | 0, _, acc => acc
  | fuel + 1, n, acc =>
    let acc' := UInt8.ofNat (48 + n % 10) :: acc
    if n / 10 = 0 then acc' else decAux fuel (n / 10) acc'

def dec (n : Nat) : Bytes := decAux (n + 1) n []

def startsWith (p s : Bytes) : Bool := s.take p.length == p

def dimOf (f : File) (slot : Nat) : Option Dim := (f.slots[slot]?).bind (f.objs[·]?)

def nctype (nt : Nat) : Option Nat := unmap nt

def updVar (f : File) (i : Nat) (g : Var → Var) : File :=
  match f.vars[i]? with
  | some v => { f with vars := f.vars.set i (g v) }
  | none => f

/-! ## persistence: `hdf_write_xdr_cdf` then `hdf_read_xdr_cdf` -/

/-- what an attribute looks like after `hdf_write_attr` + `hdf_read_attrs` -/
def reloadAttrs (l : AList) : AList := decodeAttrs (encodeAttrs l)

/-- is this one of the default names `SDcreate` gives: "fakeDim" followed by one or more decimal digits -/
def isDefaultName (n : Bytes) : Bool :=
  startsWith nFakeDim n && n.length > nFakeDim.length && (n.drop nFakeDim.length).all fun c => 48 ≤ c && c ≤ 57

/-- `hdf_write_xdr_cdf`, dimension loop: slot `i` is written unless an earlier slot has the same name and size;
    `hdf_write_dim` renames a default name "fakeDim<n>" to "fakeDim<number of dims written so far>".
    Returns the dims as read back, and for every slot the name under which its dimension went to disk. -/
def saveDims (ents : List Dim) : List Dim × List Bytes :=
  let rec go (rest seen : List Dim) (seenNames : List Bytes) (written : List Dim) (names : List Bytes) : List Dim × List Bytes :=
    match rest with
    | [] => (written.reverse, names.reverse)
    | d :: t =>
      match (seen.zip seenNames).find? (fun p => p.1 == d) with
      | some p => go t (d :: seen) (p.2 :: seenNames) written (p.2 :: names)
      | none =>
        let dn := if isDefaultName d.name then nFakeDim ++ dec written.length else d.name
        go t (d :: seen) (dn :: seenNames) ({ name := dn, size := d.size } :: written) (dn :: names)
  go ents [] [] [] []

/-- `hdf_write_dim`: a dimension whose default name changes takes its coordinate variable (rank 1, coordinate kind,
    defined on that dimension object, carrying the old name) along -/
def renameCoordVars (slots : List Nat) (ents : List Dim) (slotNames : List Bytes) (vars : List Var) : List Var :=
  vars.map fun v =>
    match v.dims with
    | [s] =>
      let old := (ents.getD s default).name
      let new := slotNames.getD s old
      if v.vtype == IS_CRDVAR && v.name == old && new != old && slots[s]?.isSome then { v with name := new } else v
    | _ => v

/-- `hdf_write_var` + `hdf_read_vars` for one variable: dimensions are found again BY NAME (`NC_dimid`), attributes go
    through the Vdata form, name/type/kind/ref/data stay. `none` = `NC_dimid` fails and the whole file cannot be opened. -/
def saveVar (slotNames : List Bytes) (dims : List Dim) (v : Var) : Option Var := do
  let ds ← v.dims.mapM fun s => do
    let n ← slotNames[s]?
    dims.findIdx? (·.name == n)
  some { v with dims := ds, attrs := reloadAttrs v.attrs }

def save (f : File) : Option Disk := do
  let ents := f.slots.map fun o => f.objs.getD o default
  let (dims, slotNames) := saveDims ents
  let vars ← (renameCoordVars f.slots ents slotNames f.vars).mapM (saveVar slotNames dims)
  some { dims := dims, vars := vars, gattrs := reloadAttrs f.gattrs }

/-- `SDstart(name, DFACC_CREATE)` -/
def create (_ : File) : File := { isOpen := true, rdwr := true }

/-- `SDstart(name, DFACC_READ | DFACC_WRITE)` on an existing file: `hdf_read_xdr_cdf` -/
def openF (f : File) (rdwr : Bool) : File :=
  { isOpen := true, rdwr := rdwr, dirty := false,
    slots := List.range f.disk.dims.length, objs := f.disk.dims,
    vars := f.disk.vars, gattrs := f.disk.gattrs, disk := f.disk }

/-- `SDend`: the metadata is rewritten iff the file is writable and NC_HDIRTY is set -/
def close (f : File) : File × Out :=
  if !f.isOpen then (f, .fail) else
  if f.rdwr && f.dirty then
    match save f with
    | some d => ({ disk := d }, .ok)
    | none => ({ disk := f.disk }, .fail)
  else ({ disk := f.disk }, .ok)

/-! ## object creation -/

/-- the fake dimensions `SDcreate` appends before anything can fail -/
def addFakeDims (f : File) : List Nat → File × List Nat
  | [] => (f, [])
  | sz :: t =>
    let num := f.slots.length
    let f1 := { f with slots := f.slots ++ [f.objs.length], objs := f.objs ++ [{ name := nFakeDim ++ dec num, size := sz }] }
    let (f2, r) := addFakeDims f1 t
    (f2, num :: r)

def dataSetName : Bytes := "DataSet".toUTF8.toList

/-- `SDcreate(fid, name, nt, rank, dimsizes)` -/
def sdCreate (f : File) (name : Bytes) (nt : Nat) (sizes : List Nat) : File × Out :=
  if !f.isOpen then (f, .fail) else
  if !f.rdwr then (f, .fail) else        -- since 83e4f62: `if (!(handle->flags & NC_RDWR)) HGOTO_ERROR(DFE_DENIED, FAIL)`
  let name := match name with
    | [] => dataSetName
    | c :: _ => if c == 32 then dataSetName else name
  if sizes.length > H4_MAX_VAR_DIMS then (f, .fail) else
  let (f1, ds) := addFakeDims f sizes
  match unmap nt with
  | none => (f1, .fail)
  | some _ =>
    if name.length > H4_MAX_NC_NAME then (f1, .fail) else
    match ntSize nt with
    | none => (f1, .fail)
    | some _ =>
      let v : Var := { name := name, hdftype := nt, dims := ds, attrs := [], vtype := IS_SDSVAR, ref := 0, hasData := false, scale := [] }
      ({ f1 with vars := f1.vars ++ [v], dirty := true }, .items [.int f1.vars.length])

/-- the harness tells the reference numbers `Hnewref` gave to the variables from index `first` on;
    answers `ok` iff the model created exactly that many variables -/
def setRefs (f : File) (first : Nat) (refs : List Nat) : File × Out :=
  if first + refs.length != f.vars.length then (f, .bad) else
  let vars := (f.vars.zip (List.range f.vars.length)).map fun (v, i) =>
    if i < first then v else { v with ref := refs.getD (i - first) 0 }
  ({ f with vars := vars }, .ok)

/-! ## coordinate variables -/

/-- is the rank-1 variable `v` defined on the dimension object `o` (`handle->dims->values[assoc[0]] == dim`) -/
def onObj (slots : List Nat) (o : Nat) (v : Var) : Bool :=
  match v.dims with
  | [s] => slots[s]? == some o
  | _ => false

def isCoordFor (slots : List Nat) (o : Nat) (dn : Bytes) (v : Var) : Bool :=
  onObj slots o v && v.name == dn && (v.vtype == IS_CRDVAR || v.vtype == UNKNOWN)

/-- `SDIgetcoordvar(handle, dim, id, nt)`: the first rank-1 coordinate variable carrying the dimension's name; its type
    is changed when a different non-zero `nt` is given; otherwise a new coordinate variable (float32 if `nt` = 0) is
    appended.  Returns the variable index, `none` = FAIL. -/
def getCoordVar (f : File) (d : Dim) (slot nt : Nat) : File × Option Nat :=
  match f.vars.findIdx? (isCoordFor f.slots (f.slots.getD slot 0) d.name) with
  | some i =>
    let v := f.vars.getD i default
    if nt != 0 && nt != v.hdftype then
      match unmap nt, ntSize nt with
      | some _, some sz =>
        -- stored values of another element size: their data element is deleted (it cannot grow), a writable file is needed
        if !v.scale.isEmpty && sz != (ntSize v.hdftype).getD 0 then
          if !f.rdwr then (f, none)
          else (updVar f i fun v => { v with hdftype := nt, scale := [], hasData := false }, some i)
        else (updVar f i fun v => { v with hdftype := nt }, some i)
      | _, _ => (f, none)
    else (f, some i)
  | none =>
    let nt := if nt == 0 then DFNT_FLOAT32 else nt
    match unmap nt with
    | none => (f, none)
    | some _ =>
      let v : Var := { name := d.name, hdftype := nt, dims := [slot], attrs := [], vtype := IS_CRDVAR, ref := 0, hasData := false, scale := [] }
      ({ f with vars := f.vars ++ [v] }, some f.vars.length)

/-- where an attribute list lives -/
inductive Loc
  | g
  | v (i : Nat)

/-- `SDIapfromid`: dataset id, file id or dimension id (the latter goes through `SDIgetcoordvar` and may CREATE a variable) -/
def apFromId (f : File) : Obj → File × Option Loc
  | .file => (f, some .g)
  | .var i => if i < f.vars.length then (f, some (.v i)) else (f, none)
  | .dim s =>
    match dimOf f s with
    | none => (f, none)
    | some d =>
      match getCoordVar f d s 0 with
      | (f1, some i) => (f1, some (.v i))
      | (f1, none) => (f1, none)

def attrsAt (f : File) : Loc → AList
  | .g => f.gattrs
  | .v i => (f.vars.getD i default).attrs

def setAttrsAt (f : File) (loc : Loc) (l : AList) : File :=
  match loc with
  | .g => { f with gattrs := l }
  | .v i => updVar f i fun v => { v with attrs := l }

/-- `SDIputattr`: `NC_new_attr` fails for names longer than H4_MAX_NC_NAME; otherwise `put .sd` -/
def sdiPut (l : AList) (a : Attr) : Option AList :=
  if a.name.length > H4_MAX_NC_NAME then none
  else if (unmap a.nt).isNone then none
  else put .sd l a

/-- a run of `SDIputattr` calls stopping at the first failure (the earlier ones stay) -/
def sdiPutAll (l : AList) : List Attr → AList × Bool
  | [] => (l, true)
  | a :: t => match sdiPut l a with
    | some l' => sdiPutAll l' t
    | none => (l, false)

/-! ## attributes -/

/-- `SDsetattr(id, name, nt, count, data)` -/
def sdSetAttr (f : File) (o : Obj) (name : Bytes) (nt : Nat) (count : Int) (val : Bytes) : File × Out :=
  if !f.isOpen then (f, .fail) else
  if nt / DFNT_NATIVE % 2 == 1 then (f, .fail) else
  if !argsOk nt count then (f, .fail) else
  -- a file opened read-only is refused BEFORE the attribute list is looked up (fix c23f180: for a dimension id the lookup
  -- would add an empty coordinate variable to the session)
  if !f.rdwr then (f, .fail) else
  match apFromId f o with
  | (f1, none) => (f1, .fail)
  | (f1, some loc) =>
    -- a name that does not fit a Vdata name is refused; so is a file opened read-only
    if name.length > VSNAMELENMAX then (f1, .fail) else
    if !f1.rdwr then (f1, .fail) else
    match sdiPut (attrsAt f1 loc) { name := name, nt := nt, count := count.toNat, val := val } with
    | none => (f1, .fail)
    | some l' => ({ setAttrsAt f1 loc l' with dirty := true }, .ok)

/-- `SDattrinfo(id, index, name, nt, count)` -/
def sdAttrInfo (f : File) (o : Obj) (index : Int) : File × Out :=
  if !f.isOpen then (f, .fail) else
  match apFromId f o with
  | (f1, none) => (f1, .fail)
  | (f1, some loc) =>
    if index < 0 then (f1, .fail) else
    match nth (attrsAt f1 loc) index.toNat with
    | none => (f1, .fail)
    | some a => (f1, .items [.hex a.name, .int a.nt, .int a.count])

/-- `SDreadattr(id, index, buf)` -/
def sdReadAttr (f : File) (o : Obj) (index : Int) : File × Out :=
  if !f.isOpen then (f, .fail) else
  match apFromId f o with
  | (f1, none) => (f1, .fail)
  | (f1, some loc) =>
    if index < 0 then (f1, .fail) else
    match nth (attrsAt f1 loc) index.toNat with
    | none => (f1, .fail)
    | some a => (f1, .items [.hex a.val])

/-- `SDfindattr(id, name)` -/
def sdFindAttr (f : File) (o : Obj) (name : Bytes) : File × Out :=
  if !f.isOpen then (f, .fail) else
  match apFromId f o with
  | (f1, none) => (f1, .fail)
  | (f1, some loc) =>
    match find name (attrsAt f1 loc) with
    | none => (f1, .fail)
    | some i => (f1, .items [.int i])

/-! ## predefined attributes of a dataset -/

def withVar (f : File) (i : Nat) (k : Var → File × Out) : File × Out :=
  if !f.isOpen then (f, .fail) else
  match f.vars[i]? with
  | none => (f, .fail)
  | some v => k v

/-- `SDsetdatastrs(sdsid, l, u, f, c)` -/
def sdSetDataStrs (f : File) (i : Nat) (l u fm c : Option Bytes) : File × Out :=
  withVar f i fun v =>
    if !f.rdwr then (f, .fail) else
    let (al, ok) := sdiPutAll v.attrs (datastrsPuts l u fm c)
    let f1 := updVar f i fun v => { v with attrs := al }
    if !ok then (f1, .fail)
    else if l.isSome || u.isSome || fm.isSome || c.isSome then ({ f1 with dirty := true }, .ok) else (f1, .ok)

def bufOld (len : Nat) : Bytes := List.replicate (len + 1) 0xAA

def strItem (al : AList) (name : Bytes) (want : Bool) (len : Nat) : Item :=
  if want then .hex (getStrImg al name len (bufOld len)) else .null

/-- `SDgetdatastrs(sdsid, l, u, f, c, len)`; `mask` bit k set = k-th pointer non-NULL; every buffer has `len+1` bytes of 0xAA before the call -/
def sdGetDataStrs (f : File) (i : Nat) (mask len : Nat) : File × Out :=
  withVar f i fun v =>
    (f, .items [strItem v.attrs nLongName (mask % 2 == 1) len, strItem v.attrs nUnits (mask / 2 % 2 == 1) len,
                strItem v.attrs nFormat (mask / 4 % 2 == 1) len, strItem v.attrs nCoordSys (mask / 8 % 2 == 1) len])

/-- `SDsetcal` -/
def sdSetCal (f : File) (i : Nat) (cal cale ioff ioffe nt : Bytes) : File × Out :=
  withVar f i fun v =>
    if !f.rdwr then (f, .fail) else
    let (al, ok) := sdiPutAll v.attrs (calPuts cal cale ioff ioffe nt)
    let f1 := updVar f i fun v => { v with attrs := al }
    if ok then ({ f1 with dirty := true }, .ok) else (f1, .fail)

/-- `NC_copy_arrayvals` into a caller buffer pre-filled with 0xAA, of which the harness shows the first `n` bytes -/
def copyOut (a : Attr) (n : Nat) : Bytes := (a.val ++ List.replicate n 0xAA).take n

/-- `SDgetcal` -/
def sdGetCal (f : File) (i : Nat) : File × Out :=
  withVar f i fun v =>
    match getByName v.attrs nScaleFactor, getByName v.attrs nScaleFactorErr, getByName v.attrs nAddOffset,
          getByName v.attrs nAddOffsetErr, getByName v.attrs nCalibratedNt with
    | some a, some b, some c, some d, some e =>
      (f, .items [.hex (copyOut a 8), .hex (copyOut b 8), .hex (copyOut c 8), .hex (copyOut d 8), .hex (copyOut e 4)])
    | _, _, _, _, _ => (f, .fail)

/-- `SDsetrange(sdsid, pmax, pmin)` -/
def sdSetRange (f : File) (i : Nat) (pmax pmin : Bytes) : File × Out :=
  withVar f i fun v =>
    if !f.rdwr then (f, .fail) else
    match ntSize v.hdftype with
    | none => (f, .fail)
    | some sz =>
      match sdiPut v.attrs (rangePut v.hdftype (pmax.take sz) (pmin.take sz)) with
      | none => (f, .fail)
      | some al => ({ updVar f i (fun v => { v with attrs := al }) with dirty := true }, .ok)

/-- `SDgetrange(sdsid, pmax, pmin)`: "valid_range" when it has the dataset's nc_type and at least two values, else "valid_max"/"valid_min" -/
def sdGetRange (f : File) (i : Nat) : File × Out :=
  withVar f i fun v =>
    let sz := (ntSize v.hdftype).getD 0
    let viaMinMax : File × Out :=
      match getByName v.attrs nValidMax, getByName v.attrs nValidMin with
      | some a1, some a2 =>
        if a1.nt != v.hdftype || a2.nt != v.hdftype then (f, .fail)
        else (f, .items [.hex (copyOut a1 sz), .hex (copyOut a2 sz)])
      | _, _ => (f, .fail)
    match getByName v.attrs nValidRange with
    | some a =>
      if nctype a.nt == nctype v.hdftype && a.count ≥ 2 then
        let szof := (ntSize a.nt).getD 0
        (f, .items [.hex ((a.val.drop szof).take szof), .hex (a.val.take szof)])
      else viaMinMax
    | none => viaMinMax

/-- `SDsetfillvalue` -/
def sdSetFill (f : File) (i : Nat) (val : Bytes) : File × Out :=
  withVar f i fun v =>
    if !f.rdwr then (f, .fail) else
    match sdiPut v.attrs (fillPut v.hdftype (val.take ((ntSize v.hdftype).getD 0))) with
    | none => (f, .fail)
    | some al => ({ updVar f i (fun v => { v with attrs := al }) with dirty := true }, .ok)

/-- `SDgetfillvalue` -/
def sdGetFill (f : File) (i : Nat) : File × Out :=
  withVar f i fun v =>
    match getByName v.attrs nFillValue with
    | none => (f, .fail)
    | some a => (f, .items [.hex (copyOut a ((ntSize v.hdftype).getD 0))])

/-! ## dimensions -/

/-- `SDgetdimid(sdsid, number)`: `number >= rank` FAILs -/
def sdGetDimId (f : File) (i : Nat) (k : Nat) : File × Out :=
  withVar f i fun v =>
    match v.dims[k]? with
    | some s => (f, .items [.int s])
    | none => (f, .fail)

/-- `SDsetdimname(id, name)`: if another dimension object already has that name the slot is redirected to it (sizes must
    agree); otherwise the object (and with it every slot sharing it) is renamed. -/
def sdSetDimName (f : File) (slot : Nat) (name : Bytes) : File × Out :=
  if !f.isOpen then (f, .fail) else
  if !f.rdwr then (f, .fail) else        -- since 83e4f62
  match f.slots[slot]?, dimOf f slot with
  | some o, some d =>
    let other := f.slots.find? fun o' => o' != o && (f.objs.getD o' default).name == name
    match other with
    | some o' =>
      if d.size != (f.objs.getD o' default).size then (f, .fail)
      else ({ f with slots := f.slots.set slot o', dirty := true }, .ok)
    | none =>
      if name.length > H4_MAX_NC_NAME then (f, .fail)
      else ({ f with objs := f.objs.set o { d with name := name }, dirty := true }, .ok)
  | _, _ => (f, .fail)

/-- `SDdiminfo(id, name, size, nt, nattr)` -/
def sdDimInfo (f : File) (slot : Nat) : File × Out :=
  if !f.isOpen then (f, .fail) else
  match dimOf f slot with
  | none => (f, .fail)
  | some d =>
    match f.vars.find? (isCoordFor f.slots (f.slots.getD slot 0) d.name) with
    | some v => (f, .items [.hex d.name, .int d.size, .int (if v.hasData then v.hdftype else 0), .int v.attrs.length])
    | none => (f, .items [.hex d.name, .int d.size, .int 0, .int 0])

/-- `SDsetdimstrs(id, l, u, f)` -/
def sdSetDimStrs (f : File) (slot : Nat) (l u fm : Option Bytes) : File × Out :=
  if !f.isOpen then (f, .fail) else
  match dimOf f slot with
  | none => (f, .fail)
  | some d =>
    if !f.rdwr then (f, .fail) else
    match getCoordVar f d slot 0 with
    | (f1, none) => (f1, .fail)
    | (f1, some i) =>
      let (al, ok) := sdiPutAll (f1.vars.getD i default).attrs (dimstrsPuts l u fm)
      let f2 := updVar f1 i fun v => { v with attrs := al }
      if ok then ({ f2 with dirty := true }, .ok) else (f2, .fail)

/-- `SDgetdimstrs(id, l, u, f, len)`: FAILs when a rank-1 DATASET carries the dimension's name; uses the LAST matching coordinate variable -/
def sdGetDimStrs (f : File) (slot : Nat) (mask len : Nat) : File × Out :=
  if !f.isOpen then (f, .fail) else
  if f.vars.isEmpty then (f, .fail) else
  match dimOf f slot with
  | none => (f, .fail)
  | some d =>
    let cands := f.vars.filter fun v => onObj f.slots (f.slots.getD slot 0) v && v.name == d.name
    if cands.any (·.vtype == IS_SDSVAR) then (f, .fail) else
    let al := match cands.getLast? with
      | some v => v.attrs
      | none => []
    (f, .items [strItem al nLongName (mask % 2 == 1) len, strItem al nUnits (mask / 2 % 2 == 1) len,
                strItem al nFormat (mask / 4 % 2 == 1) len])

/-- `SDsetdimscale(id, count, nt, data)` for dimensions of fixed size on a writable file; `buf` is the caller's whole
    buffer, of which `count * DFKNTsize(type of the coordinate variable)` bytes are written.  The data element of the
    coordinate variable is created by the first write and never grows: a later scale of a WIDER type does not fit,
    the call FAILs and leaves the variable retyped (known finding). `scale` = contents of that element. -/
def sdSetDimScale (f : File) (slot : Nat) (count : Nat) (nt : Nat) (buf : Bytes) : File × Out :=
  if !f.isOpen then (f, .fail) else
  match dimOf f slot with
  | none => (f, .fail)
  | some d =>
    if !f.rdwr then (f, .fail) else
    if d.size != 0 && count != d.size then (f, .fail) else
    match getCoordVar f d slot nt with
    | (f1, none) => (f1, .fail)
    | (f1, some i) =>
      let f2 := { f1 with dirty := true }
      let v := f2.vars.getD i default
      -- the variable found BY NAME may belong to another dimension (an orphan left behind by a rename): NCvario checks
      -- the edge against the variable's own shape
      let vsize := ((v.dims.head?).bind (dimOf f2)).map (·.size) |>.getD 0
      if vsize != 0 && count > vsize then (f2, .fail) else
      let new := buf.take (count * (ntSize v.hdftype).getD 0)
      if v.scale.isEmpty then (updVar f2 i fun v => { v with scale := new, hasData := true }, .ok)
      else if new.length > v.scale.length then (f2, .fail)
      else (updVar f2 i fun v => { v with scale := overlay new v.scale, hasData := true }, .ok)

/-- `SDgetdimscale(id, data)` (called by the harness only where SDdiminfo reports a scale type) -/
def sdGetDimScale (f : File) (slot : Nat) : File × Out :=
  if !f.isOpen then (f, .fail) else
  match dimOf f slot with
  | none => (f, .fail)
  | some d =>
    match getCoordVar f d slot 0 with
    | (f1, none) => (f1, .fail)
    | (f1, some i) =>
      let v := f1.vars.getD i default
      let need := d.size * (ntSize v.hdftype).getD 0
      let f2 := { f1 with dirty := true }
      let vsize := ((v.dims.head?).bind (dimOf f2)).map (·.size) |>.getD 0
      if vsize != 0 && d.size > vsize then (f2, .fail)
      else if need > v.scale.length then (f2, .fail)
      else (updVar f2 i (fun v => { v with hasData := true }), .items [.hex (v.scale.take need)])

/-! ## name / index / reference -/

def rows (f : File) : List ObjRow := f.vars.map fun v => { name := v.name, ref := v.ref }

def optInt : Option Nat → Out
  | some i => .items [.int i]
  | none => .fail

/-- `SDnametoindex` -/
def sdNameToIndex (f : File) (name : Bytes) : File × Out :=
  if !f.isOpen || f.vars.isEmpty then (f, .fail) else (f, optInt (nameToIndex (rows f) name))

/-- `SDnametoindices` (+ `SDgetnumvars_byname`): index and kind of every variable with that name -/
def sdNameToIndices (f : File) (name : Bytes) : File × Out :=
  if !f.isOpen || f.vars.isEmpty then (f, .fail) else
  (f, .items ((nameToIndices (rows f) name).flatMap fun (i : Nat) => [Item.int (Int.ofNat i), Item.int (Int.ofNat (f.vars.getD i default).vtype)]))

/-- `SDidtoref` -/
def sdIdToRef (f : File) (i : Nat) : File × Out :=
  if !f.isOpen then (f, .fail) else (f, optInt (idToRef (rows f) i))

/-- `SDreftoindex` -/
def sdRefToIndex (f : File) (r : Nat) : File × Out :=
  if !f.isOpen || f.vars.isEmpty then (f, .fail) else (f, optInt (refToIndex (rows f) r))

/-- `SDgetinfo`: name, rank, number type, number of attributes -/
def sdGetInfo (f : File) (i : Nat) : File × Out :=
  withVar f i fun v => (f, .items [.hex v.name, .int v.dims.length, .int v.hdftype, .int v.attrs.length])

/-- `SDiscoordvar` -/
def sdIsCoordVar (f : File) (i : Nat) : File × Out :=
  withVar f i fun v => (f, .items [.int (if v.vtype == IS_SDSVAR then 0 else 1)])

/-- `SDfileinfo` -/
def sdFileInfo (f : File) : File × Out :=
  if !f.isOpen then (f, .fail) else (f, .items [.int f.vars.length, .int f.gattrs.length])

/-! ## write requests (C14: read-only access)

Every SD entry point of this model that asks for something to be stored, with its arguments.  `Mut.apply` is the call.
`sdSetDimNameLate` is `SDsetdimname` with the `NC_RDWR` test placed AFTER the "name in use" loop (a plausible re-ordering
of the validation steps); `sdSetAttrLate` is `SDsetattr` with the test placed AFTER the attribute-list lookup (the order
`mfsd.c` had before repair c23f180).  They exist only so that `H4.Props.C14SD` can show that the position of the test matters. -/

inductive Mut
  | create (name : Bytes) (nt : Nat) (sizes : List Nat)
  | setAttr (o : Obj) (name : Bytes) (nt : Nat) (count : Int) (val : Bytes)
  | setDataStrs (i : Nat) (l u fm c : Option Bytes)
  | setCal (i : Nat) (cal cale ioff ioffe nt : Bytes)
  | setRange (i : Nat) (pmax pmin : Bytes)
  | setFill (i : Nat) (val : Bytes)
  | setDimName (slot : Nat) (name : Bytes)
  | setDimStrs (slot : Nat) (l u fm : Option Bytes)
  | setDimScale (slot count nt : Nat) (buf : Bytes)
deriving Repr

def Mut.apply (f : File) : Mut → File × Out
  | .create n nt sz => sdCreate f n nt sz
  | .setAttr o n nt c v => sdSetAttr f o n nt c v
  | .setDataStrs i l u fm c => sdSetDataStrs f i l u fm c
  | .setCal i a b c d e => sdSetCal f i a b c d e
  | .setRange i mx mn => sdSetRange f i mx mn
  | .setFill i v => sdSetFill f i v
  | .setDimName s n => sdSetDimName f s n
  | .setDimStrs s l u fm => sdSetDimStrs f s l u fm
  | .setDimScale s c nt b => sdSetDimScale f s c nt b

/-- a session of write requests: final state and the result of every call -/
def runMuts (f : File) : List Mut → File × List Out
  | [] => (f, [])
  | m :: t =>
    let r := m.apply f
    let rest := runMuts r.1 t
    (rest.1, r.2 :: rest.2)

/-- `SDsetdimname` with the read-only test moved below the argument validation and the "name in use" loop -/
def sdSetDimNameLate (f : File) (slot : Nat) (name : Bytes) : File × Out :=
  if !f.isOpen then (f, .fail) else
  match f.slots[slot]?, dimOf f slot with
  | some o, some d =>
    let other := f.slots.find? fun o' => o' != o && (f.objs.getD o' default).name == name
    match other with
    | some o' =>
      if d.size != (f.objs.getD o' default).size then (f, .fail)
      else ({ f with slots := f.slots.set slot o', dirty := true }, .ok)      -- leaves before the test below
    | none =>
      if !f.rdwr then (f, .fail) else
      if name.length > H4_MAX_NC_NAME then (f, .fail)
      else ({ f with objs := f.objs.set o { d with name := name }, dirty := true }, .ok)
  | _, _ => (f, .fail)

/-- `SDsetattr` with the read-only test below `SDIapfromid` (the order before the repair) -/
def sdSetAttrLate (f : File) (o : Obj) (name : Bytes) (nt : Nat) (count : Int) (val : Bytes) : File × Out :=
  if !f.isOpen then (f, .fail) else
  if nt / DFNT_NATIVE % 2 == 1 then (f, .fail) else
  if !argsOk nt count then (f, .fail) else
  match apFromId f o with
  | (f1, none) => (f1, .fail)
  | (f1, some loc) =>
    if name.length > VSNAMELENMAX then (f1, .fail) else
    if !f1.rdwr then (f1, .fail) else
    match sdiPut (attrsAt f1 loc) { name := name, nt := nt, count := count.toNat, val := val } with
    | none => (f1, .fail)
    | some l' => ({ setAttrsAt f1 loc l' with dirty := true }, .ok)

end H4.AttrSD
