import H4.Gen.Hdf
import H4.Gen.Elem
/-! Model of the element layer of `hdf/src/hfile.c` and of linked-block elements (`hdf/src/hblocks.c`) — C01.

    A file is a flat byte list with POSIX semantics (`diskWrite` past the end zero-fills the gap, `diskRead` past the
    end fails like `fread`), the end-of-file offset `f_end_off`, the DD list (in memory `mem` and its on-disk image
    `dsk`; only the extents of the DD blocks are represented on `disk`, their encoding is C12/C02's business) and the
    linked-block descriptors (`linkinfo_t`: `length`, `first_length`, `block_length`, `number_blocks`, chain of block
    tables holding block refs, 0 = missing block = hole).  The descriptors are kept per element, shared by all access
    records on it (as `HIgetspinfo` does) and survive close/reopen (they are what `HLIstaccess` re-reads).
    Every function quotes the C function it follows; quirks of the C are kept (see the `fixed` flag for the repaired
    variant).  Core only, no Mathlib. -/
namespace H4.Elem
open H4.Gen.Hdf H4.Gen.Elem

abbrev Bytes := List UInt8

def zeros (n : Nat) : Bytes := List.replicate n 0

/-! ## the physical file (stdio stream = byte array) -/

/-- byte at absolute offset `i`; beyond the physical end a byte reads as 0 once it exists (gap fill) -/
def rd (d : Bytes) (i : Nat) : UInt8 := d.getD i 0

/-- `fseek(off); fwrite(bs)`: writing past the end zero-fills the gap; an empty write changes nothing -/
def diskWrite (d : Bytes) (off : Nat) (bs : Bytes) : Bytes :=
  match bs with
  | [] => d
  | _ => (d ++ zeros (off - d.length)).take off ++ bs ++ d.drop (off + bs.length)

/-- make the file at least `n` bytes long (what rewriting a region that holds nothing the element layer ever reads
    amounts to: the DD blocks' own bytes are not represented) -/
def padTo (d : Bytes) (n : Nat) : Bytes := d ++ zeros (n - d.length)

/-- `fseek(off); fread(n)` with `HI_READ`'s all-or-nothing result -/
def diskRead (d : Bytes) (off n : Nat) : Option Bytes :=
  if n = 0 then some [] else if off + n ≤ d.length then some ((d.drop off).take n) else none

def be16 (n : Nat) : Bytes := [UInt8.ofNat (n / 256 % 256), UInt8.ofNat (n % 256)]
def be32 (n : Nat) : Bytes :=
  [UInt8.ofNat (n / 16777216 % 256), UInt8.ofNat (n / 65536 % 256), UInt8.ofNat (n / 256 % 256), UInt8.ofNat (n % 256)]

/-- the 16-byte linked-block description record written by `HLcreate`/`HLconvert` -/
def linkHdr (length blen nblk linkRef : Nat) : Bytes :=
  be16 SPECIAL_LINKED ++ be32 length ++ be32 blen ++ be32 nblk ++ be16 linkRef

/-! ## tags -/

/-- `SPECIALTAG(t)` -/
def isSpecial (t : Nat) : Bool := t % (2 * EXTENDED_TAG_BIT) < EXTENDED_TAG_BIT && (t / SPECIAL_TAG_BIT) % 2 == 1
/-- `BASETAG(t)` -/
def baseTag (t : Nat) : Nat := if isSpecial t then t - SPECIAL_TAG_BIT else t
/-- `MKSPECIALTAG(t)` -/
def mkSpecial (t : Nat) : Nat :=
  if t % (2 * EXTENDED_TAG_BIT) < EXTENDED_TAG_BIT then (if (t / SPECIAL_TAG_BIT) % 2 == 1 then t else t + SPECIAL_TAG_BIT)
  else DFTAG_NULL

/-! ## state -/

/-- one data descriptor (`dd_t`); `ext = none` is `INVALID_OFFSET/INVALID_LENGTH` -/
structure DD where
  tag : Nat := DFTAG_NULL
  ref : Nat := 0
  ext : Option (Nat × Nat) := none
deriving Repr, DecidableEq, Inhabited

def nilDD : DD := {}

/-- `linkinfo_t` + the chain of `link_t` block tables (ref of the table, refs of its blocks) -/
structure LinkInfo where
  length : Nat := 0
  firstLen : Nat := 0
  blockLen : Nat := 1
  numBlocks : Nat := 1
  tables : List (Nat × List Nat) := []
deriving Repr, DecidableEq, Inhabited

/-- `filerec_t` (+ the file's bytes) -/
structure File where
  present : Bool := false
  isOpen : Bool := false
  writable : Bool := false
  disk : Bytes := []
  endOff : Nat := 0
  ndds : Nat := 16
  cache : Bool := true
  dirtyEnd : Bool := false
  mem : List DD := []
  dsk : List DD := []
  blkOff : List Nat := []
  blkDirty : List Bool := []
  links : List ((Nat × Nat) × LinkInfo) := []
  attach : Nat := 0
deriving Repr, Inhabited

/-- `accrec_t` -/
structure Acc where
  file : Nat := 0
  slot : Nat := 0
  posn : Nat := 0
  appendable : Bool := false
  newElem : Bool := false
  canWrite : Bool := false
  special : Bool := false
  blockSize : Nat := HDF_APPENDABLE_BLOCK_LEN
  numBlocks : Nat := HDF_APPENDABLE_BLOCK_NUM
deriving Repr, DecidableEq, Inhabited

/-- model switch reserved for repairs that are proposed but not yet in /repo; none is modelled at present (the former
    ones, F18 and F23, are in /repo since 1e2fd75 and 21b8ab5 and are now the model's only behaviour) -/
structure Cfg where
  fixed : Bool := false
deriving Repr, DecidableEq, Inhabited

structure World where
  cfg : Cfg := {}
  files : List File := []
  accs : List (Nat × Acc) := []
deriving Repr, Inhabited

/-- result of one API call as the harness prints it -/
inductive Res where
  | fail
  | ok
  | num (n : Int)
  /-- `Hread`: returned count and every byte the call stored into the caller's buffer -/
  | data (n : Int) (buf : Bytes)
  /-- `Hinquire`: length, offset, position, special code -/
  | info (len off : Int) (posn : Nat) (special : Nat)
  /-- the C dereferences NULL / passes a negative size to `memset` -/
  | crash
deriving Repr, DecidableEq, Inhabited

/-! ## DD list (`hfiledd.c`), allocation (`HPgetdiskblock`) -/

def File.dd (f : File) (i : Nat) : DD := f.mem.getD i nilDD

def ddBlockSize (ndds : Nat) : Nat := NDDS_SZ + OFFSET_SZ + ndds * DD_SZ

/-- `HTIupdate_dd`: note the change (write-through: on disk now; cached: block marked dirty), push `f_end_off` -/
def File.updateDD (f : File) (i : Nat) : File :=
  let f := if f.cache then { f with blkDirty := f.blkDirty.set (i / f.ndds) true }
           else { f with dsk := f.dsk.set i (f.dd i) }
  match (f.dd i).ext with
  | some (o, l) => { f with endOff := max f.endOff (o + l) }
  | none => f

/-- `HPgetdiskblock`: space is handed out at `f_end_off` only. Write-through mode marks the last byte of the block
    (with a zero byte), cached mode postpones that to `HIextend_file`. -/
def File.getDiskBlock (f : File) (size : Nat) : File × Nat :=
  let off := f.endOff
  let f := if size = 0 then f
           else if f.cache then { f with dirtyEnd := true }
           else { f with disk := diskWrite f.disk (off + size - 1) [0] }
  ({ f with endOff := off + size }, off)

/-- `HTInew_dd_block` -/
def File.newDDBlock (f : File) : File :=
  let (f1, off) := f.getDiskBlock (ddBlockSize f.ndds)
  -- a complete, empty block (header + NIL descriptors) goes to the file at once, in both caching modes
  let disk := diskWrite f1.disk off (zeros (ddBlockSize f1.ndds))
  { f1 with
    disk := disk
    mem := f1.mem ++ List.replicate f1.ndds nilDD
    dsk := f1.dsk ++ List.replicate f1.ndds nilDD
    blkOff := f1.blkOff ++ [off]
    blkDirty := (if f1.cache then f1.blkDirty.set (f1.blkOff.length - 1) true else f1.blkDirty) ++ [f1.cache] }

/-- `HTIfind_dd(DFTAG_NULL)`: every slot before the `ddnull` cursor is in use, so this is the first free slot -/
def File.findFree (f : File) : Option Nat := f.mem.findIdx? (fun d => d.tag == DFTAG_NULL)

/-- `HTPcreate` (the tag/ref is known not to be registered yet) -/
def File.ddCreate (f : File) (tag ref : Nat) : File × Nat :=
  let (f, i) := match f.findFree with
    | some i => (f, i)
    | none => (f.newDDBlock, f.mem.length)
  let f := { f with mem := f.mem.set i { tag := tag, ref := ref, ext := none } }
  (f.updateDD i, i)

/-- `HTPdelete`: `HTIupdate_dd` runs BEFORE the tag is cleared -/
def File.ddDelete (f : File) (i : Nat) : File :=
  let f := f.updateDD i
  { f with mem := f.mem.set i { f.dd i with tag := DFTAG_NULL } }

/-- `HTPupdate` -/
def File.ddSetExt (f : File) (i : Nat) (e : Nat × Nat) : File :=
  let f := { f with mem := f.mem.set i { f.dd i with ext := some e } }
  f.updateDD i

/-- `Hsetlength` on the DD in slot `i`: `HPgetdiskblock(length)` then `HTPupdate(offset, length)`; returns the offset -/
def File.setLength (f : File) (i n : Nat) : File × Nat :=
  let (f, off) := f.getDiskBlock n
  (f.ddSetExt i (off, n), off)

/-- `HTPselect`: tag tree lookup by base tag, then ref -/
def File.select (f : File) (tag ref : Nat) : Option Nat :=
  f.mem.findIdx? (fun d => d.tag != DFTAG_NULL && baseTag d.tag == baseTag tag && d.ref == ref)

/-- `Htagnewref`: a ref ≥ 1 not in use for the tag. The C takes the lowest free one; refs of `DFTAG_LINKED` objects (the only
    use here) are never released, so they are always `1..k` and the lowest free one is `k + 1` = largest in use + 1. -/
def File.tagNewRef (f : File) (tag : Nat) : Nat :=
  (f.mem.foldl (fun m d => if d.tag != DFTAG_NULL && baseTag d.tag == baseTag tag then max m d.ref else m) 0) + 1

def File.link (f : File) (key : Nat × Nat) : Option LinkInfo := (f.links.find? (fun p => p.1 == key)).map (·.2)

def File.setLink (f : File) (key : Nat × Nat) (li : LinkInfo) : File :=
  { f with links := (key, li) :: f.links.filter (fun p => p.1 != key) }

/-- `HP_write` at an explicit offset -/
def File.pwrite (f : File) (off : Nat) (bs : Bytes) : File := { f with disk := diskWrite f.disk off bs }

/-- create a plain element with `len` bytes reserved and `bs` written at its start:
    `Hstartwrite(tag, ref, len)` on an unused tag/ref, `Hwrite(bs)`, `Hendaccess` -/
def File.putNew (f : File) (tag ref len : Nat) (bs : Bytes) : File × Nat :=
  let (f, i) := f.ddCreate tag ref
  let (f, off) := f.setLength i len
  let f := f.pwrite off bs
  ({ f with endOff := max f.endOff (off + bs.length) }, i)

/-- `HIsync`: flush dirty DD blocks (`HTPsync`) and extend the file to `f_end_off` (`HIextend_file`) -/
def File.sync (f : File) : File :=
  if f.cache && (f.dirtyEnd || f.blkDirty.any id) then
    let dsk := (List.range f.mem.length).map (fun i => if f.blkDirty.getD (i / f.ndds) false then f.dd i else f.dsk.getD i nilDD)
    let disk := (List.range f.blkOff.length).foldl
      (fun d b => if f.blkDirty.getD b false then padTo d (f.blkOff.getD b 0 + ddBlockSize f.ndds) else d) f.disk
    let disk := if f.dirtyEnd then diskWrite disk f.endOff [0] else disk
    { f with dsk := dsk, disk := disk, blkDirty := f.blkDirty.map (fun _ => false), dirtyEnd := false }
  else f

/-! ## files (`Hopen`, `Hclose`, `Hcache`) -/

/-- a file right after `HTPinit`: magic number and one DD block of `ndds` empty slots -/
def File.blank (ndds : Nat) : File :=
  { present := true, isOpen := true, writable := true
    disk := zeros (MAGICLEN + ddBlockSize ndds)
    endOff := MAGICLEN + ddBlockSize ndds
    ndds := ndds, cache := true
    mem := List.replicate ndds nilDD, dsk := List.replicate ndds nilDD
    blkOff := [MAGICLEN], blkDirty := [false], links := [] }

/-- `HTPinit`'s "reasonablize the value of ndds" -/
def nddsOf (ndds0 : Nat) : Nat := if ndds0 = 0 then DEF_NDDS else if ndds0 < MIN_NDDS then MIN_NDDS else ndds0

/-- `Hopen(DFACC_CREATE)` / first open of a missing path for writing: magic, first DD block (`HTPinit`), version element -/
def File.create (ndds0 : Nat) : File :=
  ((File.blank (nddsOf ndds0)).putNew DFTAG_VERSION 1 LIBVER_LEN (zeros LIBVER_LEN)).1

/-- does `HTPstart` find two DDs that register the same base tag/ref (→ `DFE_DUPDD`, `Hopen` fails)? -/
def dupDDs (l : List DD) : Bool :=
  (List.range l.length).any fun i => (List.range l.length).any fun j =>
    decide (i < j) && (l.getD i nilDD).tag != DFTAG_NULL && (l.getD j nilDD).tag != DFTAG_NULL &&
    baseTag (l.getD i nilDD).tag == baseTag (l.getD j nilDD).tag && (l.getD i nilDD).ref == (l.getD j nilDD).ref

/-- `f_end_off` as recomputed by `HTPstart`: end of every DD block and of every DD's extent (NULL ones too) -/
def endOffOf (ndds : Nat) (blkOff : List Nat) (l : List DD) : Nat :=
  let a := blkOff.foldl (fun m o => max m (o + ddBlockSize ndds)) 0
  l.foldl (fun m d => match d.ext with | some (o, n) => max m (o + n) | none => m) a

/-- `Hopen` of an existing file -/
def File.reopen (f : File) (writable : Bool) : Option File :=
  if dupDDs f.dsk then none
  else some { f with isOpen := true, writable := writable, mem := f.dsk, cache := true, dirtyEnd := false,
                     blkDirty := f.blkDirty.map (fun _ => false), attach := 0,
                     endOff := endOffOf f.ndds f.blkOff f.dsk }

/-! ## linked blocks: geometry of the walk (`HLPread`/`HLPwrite`) -/

/-- one step of the `do … while (length > 0)` loops: table index, index in the table, offset in the block, byte count -/
structure Piece where
  tbl : Nat
  idx : Nat
  rel : Nat
  n : Nat
  /-- `current_length`: length of the block this piece lies in -/
  cur : Nat
deriving Repr, DecidableEq, Inhabited

/-- "search for linked block to start from": global block index, offset in it, its length -/
def startBlock (first blk p : Nat) : Nat × Nat × Nat :=
  if p < first then (0, p, first) else ((p - first) / blk + 1, (p - first) % blk, blk)

/-- the loop itself, for `len > 0` bytes starting in table `t`, entry `idx`, offset `rel` of a block of length `cur`;
    `++block_idx >= number_blocks` moves to the next table -/
def walkFrom (blk nb : Nat) : (fuel : Nat) → (t idx rel cur len : Nat) → List Piece
  | 0, _, _, _, _, _ => []
  | fuel + 1, t, idx, rel, cur, len =>
    let n := min (cur - rel) len
    let p : Piece := { tbl := t, idx := idx, rel := rel, n := n, cur := cur }
    if len - n = 0 then [p]
    else if idx + 1 ≥ nb then p :: walkFrom blk nb fuel (t + 1) 0 0 blk (len - n)
    else p :: walkFrom blk nb fuel t (idx + 1) 0 blk (len - n)

/-- pieces visited for `len > 0` bytes at position `p` -/
def walk (first blk nb p len : Nat) : List Piece :=
  let (b, rel, cur) := startBlock first blk p
  walkFrom blk nb len (b / nb) (b % nb) rel cur len

/-- start offset (in the element) of global block `b` -/
def blockStart (first blk b : Nat) : Nat := if b = 0 then 0 else first + (b - 1) * blk

def LinkInfo.blockRef (li : LinkInfo) (t idx : Nat) : Nat := ((li.tables.getD t (0, [])).2).getD idx 0

def LinkInfo.setBlockRef (li : LinkInfo) (t idx ref : Nat) : LinkInfo :=
  { li with tables := li.tables.set t ((li.tables.getD t (0, [])).1, ((li.tables.getD t (0, [])).2).set idx ref) }

/-! ## linked blocks: read (`HLPread`) -/

/-- `HPseek(off)`, `HP_read(n)` (af826f2): a transfer that is short because the file ends delivers zeros for the missing tail
    when the space was handed out in this session and is not in the file yet (DD caching on, `FILE_END_DIRTY`, the range
    below `f_end_off`); any other short read fails -/
def File.hpRead (f : File) (off n : Nat) : Option Bytes :=
  match diskRead f.disk off n with
  | some bs => some bs
  | none =>
    if f.cache = true ∧ f.dirtyEnd = true ∧ off + n ≤ f.endOff then some ((List.range n).map (fun i => rd f.disk (off + i)))
    else none

/-- extent of the block element `(DFTAG_LINKED, ref)` -/
def File.blockExt (f : File) (ref : Nat) : Option (Nat × Nat) :=
  match f.select DFTAG_LINKED ref with
  | some i => (f.dd i).ext
  | none => none

/-- `Hstartread(DFTAG_LINKED, ref); Hseek(rel); Hread(n)` on a block from inside `HLPread` (`n ≥ 1`): the count is
    clamped at the block's end, the bytes must exist physically. `none` = FAIL (the block's access record is ended
    before `HLPread` returns the error). -/
def File.readBlock (f : File) (ref rel n : Nat) : Option Bytes :=
  match f.blockExt ref with
  | none => none
  | some (o, l) =>
    if rel > l then none
    else f.hpRead (o + rel) (if n = 0 ∨ n + rel > l then l - rel else n)

/-- the read loop over the pieces; `acc` the bytes stored so far, `cnt` is `bytes_read`
    (a missing block counts `remaining` bytes of zeros) -/
def readPieces (f : File) (li : LinkInfo) : List Piece → (cnt : Nat) → (acc : Bytes) → Res
  | [], cnt, acc => .data cnt acc
  | p :: rest, cnt, acc =>
    if p.tbl ≥ li.tables.length then .fail          -- `t_link == NULL` → DFE_INTERNAL
    else
      let ref := li.blockRef p.tbl p.idx
      if ref != 0 then
        match f.readBlock ref p.rel p.n with
        | none => .fail
        | some bs => readPieces f li rest (cnt + bs.length) (acc ++ bs ++ zeros (p.n - bs.length))
      else
        readPieces f li rest (cnt + p.n) (acc ++ zeros p.n)

/-- `HLPread` -/
def hlpRead (f : File) (li : LinkInfo) (posn : Nat) (length : Int) : Res :=
  if length < 0 then .fail
  else
    let len0 : Int := if length = 0 then (li.length : Int) - posn else length
    let len : Int := if (posn : Int) + len0 > li.length then (li.length : Int) - posn else len0
    -- "nothing to read at or beyond the end of the element"
    if len ≤ 0 then .data 0 []
    else if li.blockLen = 0 ∨ li.numBlocks = 0 then .crash      -- integer division by zero
    else
      let (b, _, _) := startBlock li.firstLen li.blockLen posn
      let t := b / li.numBlocks
      if t > li.tables.length then .fail          -- NULL met while walking the tables
      else if t = li.tables.length then .crash    -- NULL reached by the last step: `t_link->block_list` dereferences it
      else readPieces f li (walk li.firstLen li.blockLen li.numBlocks posn len.toNat) 0 []

/-! ## linked blocks: write (`HLPwrite`), creation (`HLInewlink`, `HLcreate`, `HLconvert`) -/

/-- `HLInewlink`: a new block table element `(DFTAG_LINKED, ref)` of `2 + 2*number_blocks` bytes, fully written -/
def File.newTable (f : File) (ref nb : Nat) : File :=
  (f.putNew DFTAG_LINKED ref (2 + 2 * nb) (zeros (2 + 2 * nb))).1

/-- make sure block table `t` exists, creating the missing ones in order ("create missing link (block table)");
    the nextref field of the predecessor is rewritten in place -/
def ensureTables (f : File) (li : LinkInfo) : (fuel : Nat) → (t : Nat) → File × LinkInfo
  | 0, _ => (f, li)
  | fuel + 1, t =>
    if t < li.tables.length then (f, li)
    else
      let (f, li) := ensureTables f li fuel (t - 1)
      if t = li.tables.length then
        let ref := f.tagNewRef DFTAG_LINKED
        (f.newTable ref li.numBlocks, { li with tables := li.tables ++ [(ref, List.replicate li.numBlocks 0)] })
      else (f, li)

/-- one iteration of the write loop: the block is written in place if it exists, else allocated with the full block
    length (`Hstartwrite(DFTAG_LINKED, new_ref, current_length)`), written, and entered in its table. `none` = FAIL. -/
def writePiece (f : File) (li : LinkInfo) (p : Piece) (bs : Bytes) : Option (File × LinkInfo) :=
  let (f, li) := ensureTables f li (p.tbl + 1) p.tbl
  let ref := li.blockRef p.tbl p.idx
  if ref != 0 then
    match f.blockExt ref with
    | none => none
    | some (o, l) =>
      if p.rel > l ∨ p.rel + bs.length > l then none       -- block elements are not appendable
      else some (f.pwrite (o + p.rel) bs, li)
  else
    let ref := f.tagNewRef DFTAG_LINKED
    let (f, i) := f.ddCreate DFTAG_LINKED ref
    let (f, off) := f.setLength i p.cur
    if p.rel > p.cur ∨ p.rel + bs.length > p.cur then none
    else
      let f := f.pwrite (off + p.rel) bs
      let f := { f with endOff := max f.endOff (off + p.rel + bs.length) }
      some (f, li.setBlockRef p.tbl p.idx ref)

def writePieces (f : File) (li : LinkInfo) : List Piece → Bytes → Option (File × LinkInfo)
  | [], _ => some (f, li)
  | p :: rest, bs =>
    match writePiece f li p (bs.take p.n) with
    | none => none
    | some (f, li) => writePieces f li rest (bs.drop p.n)

/-- `HLPwrite`. Result: new file, new descriptor, count (`none` = FAIL with the partial effects kept in the file). -/
def hlpWrite (f : File) (li : LinkInfo) (hdrSlot : Nat) (posn : Nat) (bs : Bytes) : File × LinkInfo × Option Nat :=
  if bs.length = 0 then (f, li, none)
  else if li.blockLen = 0 ∨ li.numBlocks = 0 then (f, li, none)
  else
    let (b, _, _) := startBlock li.firstLen li.blockLen posn
    -- "follow the links of block tables and create missing block tables along the way"
    let (f, li) := ensureTables f li (b / li.numBlocks + 1) (b / li.numBlocks)
    match writePieces f li (walk li.firstLen li.blockLen li.numBlocks posn bs.length) bs with
    | none => (f, li, none)
    | some (f, li) =>
      -- "update the info for the dataset": 4 bytes at offset 2 of the description record
      match (f.dd hdrSlot).ext with
      | none => (f, li, none)
      | some (ho, hl) =>
        if 2 > hl then (f, li, none)
        else
          let li := { li with length := max li.length (posn + bs.length) }
          if 6 > hl then (f, li, none)
          else (f.pwrite (ho + 2) (be32 li.length), li, some bs.length)

/-- common tail of `HLcreate`/`HLconvert`: write the description record under the special tag's DD `slot`,
    then the first block table (`HLInewlink`) -/
def File.writeLinkHdr (f : File) (slot : Nat) (dataLen blen nblk firstRef : Nat) : File × LinkInfo :=
  let linkRef := f.tagNewRef DFTAG_LINKED
  let (f, off) := f.setLength slot 16
  let f := f.pwrite off (linkHdr dataLen blen nblk linkRef)
  let f := { f with endOff := max f.endOff (off + 16) }
  let f := f.newTable linkRef nblk
  (f, { length := dataLen, firstLen := if firstRef = 0 then blen else dataLen, blockLen := blen, numBlocks := nblk,
        tables := [(linkRef, (List.replicate nblk 0).set 0 firstRef)] })

/-- `HLconvert` once the element has a data extent `(off, len)` (`d` is its DD): `Hdupdd` the data under a new
    `DFTAG_LINKED` ref, `HTPdelete` the old DD, `HTPcreate` the special one, write the description record and the first
    block table -/
def File.convertTail (f : File) (slot : Nat) (d : DD) (off len blen nblk : Nat) : File × Nat :=
  let newRef := f.tagNewRef DFTAG_LINKED
  let (f, j) := f.ddCreate DFTAG_LINKED newRef
  let f := f.ddSetExt j (off, len)
  let f := f.ddDelete slot
  let (f, s) := f.ddCreate (mkSpecial d.tag) d.ref
  let (f, li) := f.writeLinkHdr s len blen nblk newRef
  (f.setLink (baseTag d.tag, d.ref) li, s)

/-- `HLconvert` on the DD in `slot` (a plain element, possibly still without data). Returns the slot of the special DD. -/
def File.convert (f : File) (slot : Nat) (blen nblk : Nat) : File × Nat :=
  match (f.dd slot).ext with
  | some (o, l) => f.convertTail slot (f.dd slot) o l blen nblk
  -- "catch the case where the data doesn't exist yet": Hsetlength(aid, 0)
  | none => (f.setLength slot 0).1.convertTail slot (f.dd slot) (f.setLength slot 0).2 0 blen nblk

/-! ## access records (`hfile.c`) -/

def World.file (w : World) (i : Nat) : File := w.files.getD i {}
def World.setFile (w : World) (i : Nat) (f : File) : World := { w with files := w.files.set i f }
def World.acc (w : World) (h : Nat) : Option Acc := (w.accs.find? (fun p => p.1 == h)).map (·.2)
def World.setAcc (w : World) (h : Nat) (a : Acc) : World := { w with accs := (h, a) :: w.accs.filter (fun p => p.1 != h) }
def World.delAcc (w : World) (h : Nat) : World := { w with accs := w.accs.filter (fun p => p.1 != h) }

def Acc.key (a : Acc) (f : File) : Nat × Nat := (baseTag (f.dd a.slot).tag, (f.dd a.slot).ref)

/-- `Hopen` -/
def hopen (w : World) (fi : Nat) (mode : Nat) (ndds : Nat) : World × Res :=
  let f := w.file fi
  if f.isOpen then (w, .fail)
  else if mode = DFACC_CREATE then (w.setFile fi (File.create ndds), .ok)
  else if !f.present then
    if mode % 4 ≥ DFACC_WRITE then (w.setFile fi (File.create ndds), .ok) else (w, .fail)
  else match f.reopen (mode % 4 ≥ DFACC_WRITE) with
    | some f => (w.setFile fi f, .ok)
    | none => (w, .fail)

/-- `Hclose` -/
def hclose (w : World) (fi : Nat) : World × Res :=
  let f := w.file fi
  if !f.isOpen then (w, .fail)
  else if f.attach > 0 then (w, .fail)
  else (w.setFile fi { f.sync with isOpen := false }, .ok)

/-- `Hcache` -/
def hcache (w : World) (fi : Nat) (on : Bool) : World × Res :=
  let f := w.file fi
  if !f.isOpen then (w, .fail)
  else
    let f := if !on && f.cache then f.sync else f
    (w.setFile fi { f with cache := on }, .ok)

/-- `Hstartaccess(tag, ref, flags)` for a plain (non-special) tag; `flags`: write bit, `DFACC_APPENDABLE` -/
def hstartaccess (w : World) (h fi tag ref : Nat) (wr app : Bool) : World × Res :=
  let f := w.file fi
  if !f.isOpen then (w, .fail)
  else if wr && !f.writable then (w, .fail)
  else
    match f.select tag ref with
    | none =>
      if !wr then (w, .fail)
      else
        let (f, i) := f.ddCreate tag ref
        let a : Acc := { file := fi, slot := i, appendable := app, newElem := true, canWrite := wr }
        ((w.setFile fi { f with attach := f.attach + 1 }).setAcc h a, .ok)
    | some i =>
      let d := f.dd i
      if isSpecial d.tag then
        -- `HLIstaccess`: the descriptor is shared with every other access record on the element
        match f.link (baseTag d.tag, d.ref) with
        | none => (w, .fail)
        | some li =>
          let a : Acc := { file := fi, slot := i, appendable := app, canWrite := wr, special := true,
                           blockSize := li.blockLen, numBlocks := li.numBlocks }
          ((w.setFile fi { f with attach := f.attach + 1 }).setAcc h a, .ok)
      else
        let a : Acc := { file := fi, slot := i, appendable := app, newElem := d.ext.isNone, canWrite := wr }
        ((w.setFile fi { f with attach := f.attach + 1 }).setAcc h a, .ok)

/-- `HIrefresh_new` (7f7ac10): "new" is a property of the element's DD, not of one access record: another access
    record on the same element may have given it a length since this one was opened (special records are not looked at) -/
def Acc.refresh (a : Acc) (f : File) : Acc :=
  if a.newElem = true ∧ a.special = false ∧ (f.dd a.slot).ext ≠ none then { a with newElem := false } else a

/-- the access record behind `h` after `HIrefresh_new` (first thing `Hsetlength`, `Hread`, `Hwrite` do with a valid id) -/
def World.refresh (w : World) (h : Nat) : World :=
  match w.acc h with
  | none => w
  | some a => if a.refresh (w.file a.file) = a then w else w.setAcc h (a.refresh (w.file a.file))

/-- `Hsetlength` after `HIrefresh_new` -/
def hsetlengthCore (w : World) (h : Nat) (len : Nat) : World × Res :=
  match w.acc h with
  | none => (w, .fail)
  | some a =>
    if !a.newElem then (w, .fail)
    else if !a.canWrite then (w, .fail)      -- "allocating space for the element needs write access"
    else
      let f := w.file a.file
      let (f, _) := f.setLength a.slot len
      ((w.setFile a.file f).setAcc h { a with newElem := false }, .ok)

/-- `Hsetlength` -/
def hsetlength (w : World) (h : Nat) (len : Nat) : World × Res := hsetlengthCore (w.refresh h) h len

/-- `Hstartwrite(tag, ref, len)` -/
def hstartwrite (w : World) (h fi tag ref len : Nat) : World × Res :=
  match hstartaccess w h fi tag ref true false with
  | (w, .ok) =>
    (match w.acc h with
     | some a => if a.newElem then ((hsetlength w h len).1, .ok) else (w, .ok)
     | none => (w, .fail))
  | (w, r) => (w, r)

/-- `HLcreate` -/
def hlcreate (w : World) (h fi tag ref blen nblk : Nat) : World × Res :=
  let f := w.file fi
  if !f.isOpen || !f.writable || isSpecial tag then (w, .fail)
  else
    let mk (f : File) (dataLen firstRef : Nat) : World × Res :=
      let (f, s) := f.ddCreate (mkSpecial tag) ref
      let (f, li) := f.writeLinkHdr s dataLen blen nblk firstRef
      let f := f.setLink (baseTag tag, ref) li
      let a : Acc := { file := fi, slot := s, canWrite := true, special := true }
      ((w.setFile fi { f with attach := f.attach + 1 }).setAcc h a, .ok)
    match f.select tag ref with
    | none => mk f 0 0
    | some i =>
      let d := f.dd i
      if isSpecial d.tag then (w, .fail)
      else match d.ext with
        | none => mk (f.ddDelete i) 0 0
        | some (o, l) =>
          let newRef := f.tagNewRef DFTAG_LINKED
          let (f, j) := f.ddCreate DFTAG_LINKED newRef
          let f := f.ddSetExt j (o, l)
          mk (f.ddDelete i) l newRef

/-- `HLconvert(aid, block_length, number_blocks)` called by the application on a plain access record -/
def hlconvert (w : World) (h blen nblk : Nat) : World × Res :=
  match w.acc h with
  | none => (w, .fail)
  | some a =>
    let f := w.file a.file
    if a.special || !f.writable then (w, .fail)
    -- an element without data gets `Hsetlength(aid, 0)` first, which needs write access on `aid`
    else if (f.dd a.slot).ext.isNone && !a.canWrite then (w, .fail)
    else
      let (f, s) := f.convert a.slot blen nblk
      -- "the element has a length now, whoever gave it": `new_elem = FALSE` (dc05857)
      ((w.setFile a.file f).setAcc h { a with slot := s, special := true, appendable := false, newElem := false }, .ok)

/-- `HLsetblockinfo` -/
def hsetblockinfo (w : World) (h : Nat) (blen nblk : Int) : World × Res :=
  match w.acc h with
  | none => (w, .fail)
  | some a =>
    if (blen ≤ 0 ∧ blen ≠ -1) ∨ (nblk ≤ 0 ∧ nblk ≠ -1) then (w, .fail)
    else if a.special then (w, .ok)
    else (w.setAcc h { a with blockSize := if blen = -1 then a.blockSize else blen.toNat,
                              numBlocks := if nblk = -1 then a.numBlocks else nblk.toNat }, .ok)

/-- `Happendable` -/
def happendable (w : World) (h : Nat) : World × Res :=
  match w.acc h with
  | none => (w, .fail)
  | some a => (w.setAcc h { a with appendable := true }, .ok)

def ddLen (d : DD) : Int := match d.ext with | some (_, l) => l | none => INVALID_LENGTH
def ddOff (d : DD) : Int := match d.ext with | some (o, _) => o | none => INVALID_OFFSET

/-- `Hseek` (with `HLPseek` for linked-block elements) -/
def hseek (w : World) (h : Nat) (offset : Int) (origin : Nat) : World × Res :=
  match w.acc h with
  | none => (w, .fail)
  | some a =>
    if origin ≠ DF_START ∧ origin ≠ DF_CURRENT ∧ origin ≠ DF_END then (w, .fail)
    else
      let f := w.file a.file
      if a.special = true then
        -- `HLPseek`: "there is no upper bound to posn"
        match f.link (a.key f) with
        | none => (w, .fail)
        | some li =>
          let off := offset + (if origin = DF_CURRENT then (a.posn : Int) else 0) + (if origin = DF_END then (li.length : Int) else 0)
          if off < 0 then (w, .fail) else (w.setAcc h { a with posn := off.toNat }, .ok)
      else
        let d := f.dd a.slot
        let dataLen := ddLen d
        let off := offset + (if origin = DF_CURRENT then (a.posn : Int) else 0) + (if origin = DF_END then dataLen else 0)
        if off = a.posn then (w, .ok)
        else if off < 0 ∨ (a.appendable = false ∧ off > dataLen) then (w, .fail)
        else if a.appendable = true ∧ off ≥ dataLen ∧ dataLen + ddOff d ≠ f.endOff then
          -- not at the end of the file: "try to convert element into linked-block element", then seek there
          if f.writable = false ∨ (d.ext = none ∧ a.canWrite = false) then (w.setAcc h { a with appendable := false }, .fail)
          else
            ((w.setFile a.file (f.convert a.slot a.blockSize a.numBlocks).1).setAcc h
              { a with slot := (f.convert a.slot a.blockSize a.numBlocks).2, special := true, appendable := false,
                       newElem := false, posn := off.toNat }, .ok)
        else (w.setAcc h { a with posn := off.toNat }, .ok)

/-- `Htell` -/
def htell (w : World) (h : Nat) : World × Res :=
  match w.acc h with
  | none => (w, .fail)
  | some a => (w, .num a.posn)

/-- `Hinquire` (with `HLPinquire`) -/
def hinquire (w : World) (h : Nat) : World × Res :=
  match w.acc h with
  | none => (w, .fail)
  | some a =>
    let f := w.file a.file
    if a.special then
      match f.link (a.key f) with
      | none => (w, .fail)
      | some li => (w, .info li.length 0 a.posn SPECIAL_LINKED)
    else (w, .info (ddLen (f.dd a.slot)) (ddOff (f.dd a.slot)) a.posn 0)

/-- `Hread` (with `HLPread`) after `HIrefresh_new` -/
def hreadCore (w : World) (h : Nat) (length : Int) : World × Res :=
  match w.acc h with
  | none => (w, .fail)
  | some a =>
    if a.newElem then (w, .fail)
    else
      let f := w.file a.file
      if a.special then
        match f.link (a.key f) with
        | none => (w, .fail)
        | some li =>
          match hlpRead f li a.posn length with
          | .data n buf => (w.setAcc h { a with posn := a.posn + n.toNat }, .data n buf)
          | r => (w, r)
      else if length < 0 then (w, .fail)
      else
        let d := f.dd a.slot
        let dataLen := ddLen d
        let len : Int := if length = 0 ∨ length + a.posn > dataLen then dataLen - a.posn else length
        if len < 0 then (w, .data 0 [])   -- positioned beyond the end (appendable element): nothing to read (21b8ab5)
        else match f.hpRead ((ddOff d).toNat + a.posn) len.toNat with
          | none => (w, .fail)
          | some bs => (w.setAcc h { a with posn := a.posn + len.toNat }, .data len bs)

/-- `Hread` -/
def hread (w : World) (h : Nat) (length : Int) : World × Res := hreadCore (w.refresh h) h length

/-- `Hwrite` on a linked-block element (`HLPwrite`): `a` is the access record, `f` its file -/
def hwriteLinked (w : World) (h : Nat) (a : Acc) (f : File) (bs : Bytes) : World × Res :=
  match f.link (a.key f) with
  | none => (w, .fail)
  | some li =>
    let r := hlpWrite f li a.slot a.posn bs
    let f' := r.1.setLink (a.key r.1) r.2.1
    match r.2.2 with
    | none => ((w.setFile a.file f').setAcc h a, .fail)
    | some n => ((w.setFile a.file f').setAcc h { a with posn := a.posn + n }, .num n)

/-- `Hwrite` on a contiguous element that has a length (`a` is the access record, `f` its file): in place, extended in
    place when it is appendable and last in the file, promoted to linked blocks otherwise -/
def hwritePlain (w : World) (h : Nat) (a : Acc) (f : File) (bs : Bytes) : World × Res :=
  let d := f.dd a.slot
  let dataLen := ddLen d
  let len : Int := bs.length
  if len ≤ 0 ∨ (a.appendable = false ∧ len + a.posn > dataLen) then ((w.setFile a.file f).setAcc h a, .fail)
  else if a.appendable = true ∧ len + a.posn > dataLen ∧ dataLen + ddOff d ≠ f.endOff then
    -- not at the end of the file: promote to linked blocks, then write
    if f.writable = false then ((w.setFile a.file f).setAcc h { a with appendable := false }, .fail)
    else
      hwriteLinked w h { a with slot := (f.convert a.slot a.blockSize a.numBlocks).2, special := true, appendable := false, newElem := false }
        (f.convert a.slot a.blockSize a.numBlocks).1 bs
  else
    -- "The element grows in place. A gap between its old end and the write position must read as zeros" (998a325)
    let f := if a.appendable = true ∧ len + a.posn > dataLen ∧ (a.posn : Int) > dataLen then
               f.pwrite ((ddOff d).toNat + dataLen.toNat) (zeros (a.posn - dataLen.toNat)) else f
    let f := if a.appendable = true ∧ len + a.posn > dataLen then f.ddSetExt a.slot ((ddOff d).toNat, a.posn + bs.length) else f
    let off := (ddOff d).toNat + a.posn
    let f := f.pwrite off bs
    let f := { f with endOff := max f.endOff (off + bs.length) }
    ((w.setFile a.file f).setAcc h { a with posn := a.posn + bs.length }, .num len)

/-- `Hwrite` (with `HLPwrite`) after `HIrefresh_new` -/
def hwriteCore (w : World) (h : Nat) (bs : Bytes) : World × Res :=
  match w.acc h with
  | none => (w, .fail)
  | some a =>
    if a.canWrite = false then (w, .fail)
    else if a.special = true then hwriteLinked w h a (w.file a.file) bs
    else if a.newElem = true then
      -- "check for a "new" element and make it appendable if so": Hsetlength(aid, length)
      hwritePlain w h { a with newElem := false, appendable := true } ((w.file a.file).setLength a.slot bs.length).1 bs
    else hwritePlain w h a (w.file a.file) bs

/-- `Hwrite`: the argument check (valid id with write access) comes before `HIrefresh_new` -/
def hwrite (w : World) (h : Nat) (bs : Bytes) : World × Res :=
  match w.acc h with
  | none => (w, .fail)
  | some a => if a.canWrite = false then (w, .fail) else hwriteCore (w.refresh h) h bs

/-- `Htrunc` (contiguous elements only) -/
def htrunc (w : World) (h : Nat) (n : Nat) : World × Res :=
  match w.acc h with
  | none => (w, .fail)
  | some a =>
    if !a.canWrite then (w, .fail)
    else
      let f := w.file a.file
      -- "Truncating a special element is not implemented": refused (1e2fd75)
      if a.special then (w, .fail)
      else
      let d := f.dd a.slot
      if ddLen d > n then
        let f := f.ddSetExt a.slot ((ddOff d).toNat, n)
        ((w.setFile a.file f).setAcc h { a with posn := min a.posn n }, .num n)
      else (w, .fail)

/-- `Hendaccess` (with `HLPendaccess`) -/
def hendaccess (w : World) (h : Nat) : World × Res :=
  match w.acc h with
  | none => (w, .fail)
  | some a =>
    let f := w.file a.file
    ((w.setFile a.file { f with attach := f.attach - 1 }).delAcc h, .ok)

/-- `Hdupdd` onto an unused tag/ref -/
def hdupdd (w : World) (fi tag ref otag oref : Nat) : World × Res :=
  let f := w.file fi
  if !f.isOpen then (w, .fail)
  else match f.select otag oref with
    | none => (w, .fail)
    | some i =>
      let (f, j) := f.ddCreate tag ref
      let f := match (f.dd i).ext with
        | some e => f.ddSetExt j e
        | none => f.updateDD j
      (w.setFile fi f, .ok)

/-- `Hdeldd` -/
def hdeldd (w : World) (fi tag ref : Nat) : World × Res :=
  let f := w.file fi
  if !f.isOpen then (w, .fail)
  else match f.select tag ref with
    | none => (w, .fail)
    | some i => (w.setFile fi (f.ddDelete i), .ok)

/-- scratch handle for the compound calls -/
def tmpH : Nat := 1000000007

/-- `Hlength` -/
def hlength (w : World) (fi tag ref : Nat) : World × Res :=
  match hstartaccess w tmpH fi tag ref false false with
  | (w1, .ok) =>
    let r := match (hinquire w1 tmpH).2 with
      | .info len _ _ _ => if len < 0 then Res.fail else .num len
      | _ => .fail
    ((hendaccess w1 tmpH).1, r)
  | _ => (w, .fail)

/-- `Hgetelement` -/
def hgetelement (w : World) (fi tag ref : Nat) : World × Res :=
  match hstartaccess w tmpH fi tag ref false false with
  | (w1, .ok) =>
    let (w2, r) := hread w1 tmpH 0
    ((hendaccess w2 tmpH).1, r)
  | _ => (w, .fail)

/-- `Hputelement` -/
def hputelement (w : World) (fi tag ref : Nat) (bs : Bytes) : World × Res :=
  match hstartwrite w tmpH fi tag ref bs.length with
  | (w1, .ok) =>
    let (w2, r) := hwrite w1 tmpH bs
    ((hendaccess w2 tmpH).1, r)
  | _ => (w, .fail)

end H4.Elem
