import H4.Elem
/-! Abstraction of `H4.Elem` states to the byte-array view of C01 (definitions only, core-only):
    what an element *is* as a byte string, whatever its storage. -/
namespace H4.Elem
open H4.Gen.Hdf

/-- length of global block `b`: the first block has `first_length`, all others `block_length` -/
def blockLenOf (first blk b : Nat) : Nat := if b = 0 then first else blk

/-- the `l` bytes at file offset `o` (bytes not yet in the file count as 0: that is what they are once they exist) -/
def File.bytesAt (f : File) (o l : Nat) : Bytes := (List.range l).map (fun i => rd f.disk (o + i))

/-- byte `r` of the block element `(DFTAG_LINKED, ref)`; a missing block (`ref = 0`) is a hole and reads 0 -/
def File.blockByte (f : File) (ref r : Nat) : UInt8 :=
  if ref = 0 then 0 else
    match f.blockExt ref with
    | some (o, _) => rd f.disk (o + r)
    | none => 0

/-- byte `i` of a linked-block element: locate the block (`startBlock`), its table entry, then the byte -/
def File.lbyte (f : File) (li : LinkInfo) (i : Nat) : UInt8 :=
  let s := startBlock li.firstLen li.blockLen i
  f.blockByte (li.blockRef (s.1 / li.numBlocks) (s.1 % li.numBlocks)) s.2.1

/-- a linked-block element as a byte string -/
def File.linkedBytes (f : File) (li : LinkInfo) : Bytes := (List.range li.length).map (f.lbyte li)

/-- the element behind DD slot `i` as a byte string (`none`: no data yet) -/
def File.slotBytes (f : File) (i : Nat) : Option Bytes :=
  let d := f.dd i
  if isSpecial d.tag then (f.link (baseTag d.tag, d.ref)).map f.linkedBytes
  else d.ext.map (fun e => f.bytesAt e.1 e.2)

/-- C01's view of a file: tag/ref ↦ bytes -/
def File.elem (f : File) (tag ref : Nat) : Option (Option Bytes) := (f.select tag ref).map f.slotBytes

/-- byte-array semantics of a write: overwrite, extend, zero-fill the gap -/
def specWrite (old : Bytes) (p : Nat) (bs : Bytes) : Bytes :=
  (List.range (max old.length (p + bs.length))).map
    (fun i => if p ≤ i ∧ i < p + bs.length then bs.getD (i - p) 0 else old.getD i 0)

/-- byte-array semantics of a read of `n` bytes at `p` -/
def specRead (old : Bytes) (p n : Nat) : Bytes := (old.drop p).take n

/-- `Hread`'s count: `length = 0` means "to the end", clamped at the end, nothing at or beyond the end -/
def readCount (len p : Nat) (length : Nat) : Nat :=
  if p ≥ len then 0 else if length = 0 ∨ p + length > len then len - p else length

end H4.Elem

namespace H4.Elem
open H4.Gen.Hdf

/-- structural consistency of one linked-block descriptor with the file: geometry ≥ 1, every table has `number_blocks`
    entries, every block listed in a table is a `DFTAG_LINKED` element of exactly the length its index demands, and no
    block is listed twice -/
structure WFLs (f : File) (li : LinkInfo) : Prop where
  blk_pos : 1 ≤ li.blockLen
  nb_pos : 1 ≤ li.numBlocks
  tables_ne : 1 ≤ li.tables.length
  table_len : ∀ t, t < li.tables.length → (li.tables.getD t (0, [])).2.length = li.numBlocks
  block_ok : ∀ t idx, t < li.tables.length → idx < li.numBlocks → li.blockRef t idx ≠ 0 →
    ∃ o, f.blockExt (li.blockRef t idx) = some (o, blockLenOf li.firstLen li.blockLen (t * li.numBlocks + idx))
  inj : ∀ t idx t' idx', li.blockRef t idx ≠ 0 → li.blockRef t idx = li.blockRef t' idx' → t = t' ∧ idx = idx'

/-- full consistency: structure, the length is within the capacity of the tables, nothing but zeros lies beyond the length -/
structure WFL (f : File) (li : LinkInfo) : Prop extends WFLs f li where
  covers : li.length ≤ blockStart li.firstLen li.blockLen (li.tables.length * li.numBlocks)
  zero_beyond : ∀ i, li.length ≤ i → f.lbyte li i = 0

/-- every existing block of the element is completely in the file (not merely reserved) -/
def Materialised (f : File) (li : LinkInfo) : Prop :=
  ∀ t idx, t < li.tables.length → idx < li.numBlocks → li.blockRef t idx ≠ 0 →
    ∀ o l, f.blockExt (li.blockRef t idx) = some (o, l) → o + l ≤ f.disk.length

end H4.Elem

namespace H4.Elem
open H4.Gen.Hdf

/-- slot `i` holds a DD (not `DFTAG_NULL`) -/
def File.live (f : File) (i : Nat) : Prop := (f.dd i).tag ≠ DFTAG_NULL

/-- slot `i` holds the DD registered for `tag/ref` (tags are compared as base tags, like the tag tree does) -/
def File.hasKey (f : File) (i tag ref : Nat) : Prop :=
  f.live i ∧ baseTag (f.dd i).tag = baseTag tag ∧ (f.dd i).ref = ref

/-- well-formedness of the directory and of the allocation state of a file (the part every element relies on):
    every DD's extent lies below `f_end_off`, extents of different DDs have no byte in common, nothing but zeros lies at or beyond
    `f_end_off`, no tag/ref is registered twice -/
structure WFF (f : File) : Prop where
  ndds_pos : 1 ≤ f.ndds
  ext_le : ∀ i o l, f.live i → (f.dd i).ext = some (o, l) → o + l ≤ f.endOff
  disj : ∀ i j oi li oj lj, i ≠ j → f.live i → f.live j → (f.dd i).ext = some (oi, li) → (f.dd j).ext = some (oj, lj) →
    ∀ x, ¬ (oi ≤ x ∧ x < oi + li ∧ oj ≤ x ∧ x < oj + lj)
  tail0 : ∀ k, f.endOff ≤ k → rd f.disk k = 0
  uniq : ∀ i j, f.live i → f.live j → baseTag (f.dd i).tag = baseTag (f.dd j).tag → (f.dd i).ref = (f.dd j).ref → i = j

end H4.Elem

namespace H4.Elem
open H4.Gen.Hdf

/-- key (base tag, ref) of the DD in slot `s` -/
def File.keyOf (f : File) (s : Nat) : Nat × Nat := (baseTag (f.dd s).tag, (f.dd s).ref)

/-- slot `j` holds a data block of the linked-block element described by `li` -/
def File.blockSlotOf (f : File) (li : LinkInfo) (j : Nat) : Prop :=
  ∃ t idx, li.blockRef t idx ≠ 0 ∧ f.hasKey j DFTAG_LINKED (li.blockRef t idx)

/-- well-formedness of a file as a collection of elements: the directory (`WFF`), every special DD is a linked-block
    element with a consistent descriptor and an intact description record, no block belongs to two elements -/
structure WFE (f : File) : Prop extends WFF f where
  linked_ok : ∀ s, f.live s → isSpecial (f.dd s).tag = true →
    ∃ li ho hl, f.link (f.keyOf s) = some li ∧ WFL f li ∧ (f.dd s).ext = some (ho, hl) ∧ 6 ≤ hl
  hdr_tag : ∀ s, f.live s → isSpecial (f.dd s).tag = true → baseTag (f.dd s).tag ≠ DFTAG_LINKED
  own : ∀ s1 s2 li1 li2 j, f.live s1 → isSpecial (f.dd s1).tag = true → f.live s2 → isSpecial (f.dd s2).tag = true →
    f.link (f.keyOf s1) = some li1 → f.link (f.keyOf s2) = some li2 → f.blockSlotOf li1 j → f.blockSlotOf li2 j → s1 = s2

end H4.Elem

namespace H4.Elem
open H4.Gen.Hdf

/-! ## histories: operations, the model's run, the byte-array specification -/

/-- the element-level API calls a history is made of (access ids are chosen by the caller, `fi` numbers the files) -/
inductive Op where
  | open (fi mode ndds : Nat)
  | close (fi : Nat)
  | startaccess (h fi tag ref : Nat) (wr app : Bool)
  | startwrite (h fi tag ref len : Nat)
  | setlength (h len : Nat)
  | hlcreate (h fi tag ref blen nblk : Nat)
  | hlconvert (h blen nblk : Nat)
  | setblockinfo (h : Nat) (blen nblk : Int)
  | appendable (h : Nat)
  | seek (h : Nat) (off : Int) (origin : Nat)
  | tell (h : Nat)
  | inquire (h : Nat)
  | read (h : Nat) (n : Int)
  | write (h : Nat) (bs : Bytes)
  | trunc (h n : Nat)
  | endaccess (h : Nat)
  | deldd (fi tag ref : Nat)
deriving Repr, DecidableEq, Inhabited

/-- one call on the model -/
def step (w : World) : Op → World × Res
  | .open fi mode ndds => hopen (if fi < w.files.length then w else { w with files := w.files ++ List.replicate (fi + 1 - w.files.length) {} }) fi mode ndds
  | .close fi => hclose w fi
  | .startaccess h fi tag ref wr app => hstartaccess w h fi tag ref wr app
  | .startwrite h fi tag ref len => hstartwrite w h fi tag ref len
  | .setlength h len => hsetlength w h len
  | .hlcreate h fi tag ref blen nblk => hlcreate w h fi tag ref blen nblk
  | .hlconvert h blen nblk => hlconvert w h blen nblk
  | .setblockinfo h blen nblk => hsetblockinfo w h blen nblk
  | .appendable h => happendable w h
  | .seek h off origin => hseek w h off origin
  | .tell h => htell w h
  | .inquire h => hinquire w h
  | .read h n => hread w h n
  | .write h bs => hwrite w h bs
  | .trunc h n => htrunc w h n
  | .endaccess h => hendaccess w h
  | .deldd fi tag ref => hdeldd w fi tag ref

/-- a history on the model: final state and the result of every call -/
def run (w : World) : List Op → World × List Res
  | [] => (w, [])
  | op :: ops =>
    let (w1, r) := step w op
    let (w2, rs) := run w1 ops
    (w2, r :: rs)

/-- what an access id is, as far as C01 is concerned: which element, which position -/
structure HView where
  file : Nat
  key : Nat × Nat
  pos : Nat
deriving Repr, DecidableEq

/-- C01's view of a world: every element is a byte string (`some none`: created, no length yet), every access id a position -/
structure View where
  /-- does file `fi` exist -/
  present : Nat → Bool
  elem : Nat → Nat × Nat → Option (Option Bytes)
  hnd : Nat → Option HView

/-- keys of data elements proper: not the library's own `DFTAG_LINKED` blocks/tables, not the version record -/
def UserKey (k : Nat × Nat) : Prop :=
  isSpecial k.1 = false ∧ k.1 ≠ DFTAG_LINKED ∧ k.1 ≠ DFTAG_NULL ∧ k.1 ≠ DFTAG_VERSION ∧ k.1 < H4.Gen.Elem.SPECIAL_TAG_BIT

/-- the abstraction function -/
def abs (w : World) : View where
  present := fun fi => (w.file fi).present
  elem := fun fi k => (w.file fi).elem k.1 k.2
  hnd := fun h => (w.acc h).map fun a => { file := a.file, key := (w.file a.file).keyOf a.slot, pos := a.posn }

/-- agreement of two views on everything C01 talks about -/
def View.Eqv (v v' : View) : Prop :=
  (∀ fi, v.present fi = v'.present fi) ∧ (∀ fi k, UserKey k → v.elem fi k = v'.elem fi k) ∧ (∀ h, v.hnd h = v'.hnd h)

def View.setElem (v : View) (fi : Nat) (k : Nat × Nat) (x : Option (Option Bytes)) : View :=
  { v with elem := fun fi' k' => if fi' = fi ∧ k' = k then x else v.elem fi' k' }

def View.setHnd (v : View) (h : Nat) (x : Option HView) : View :=
  { v with hnd := fun h' => if h' = h then x else v.hnd h' }

/-- length as `Hinquire`/`Hseek(DF_END)` see it: −1 while the element has no length yet -/
def lenI (e : Option Bytes) : Int := match e with | some b => b.length | none => -1

/-- `Hseek`'s target position -/
def seekTarget (pos : Nat) (e : Option Bytes) (off : Int) (origin : Nat) : Int :=
  off + (if origin = DF_CURRENT then (pos : Int) else 0) + (if origin = DF_END then lenI e else 0)

/-- **the byte-array specification of one call**: given the view before, the call and the result the implementation
    returned, the view after. A failed call changes nothing; a successful call is exactly the operation on a growable
    byte array (`specWrite`: overwrite/extend with zero gap fill, `specRead`: slice clamped at the end, positions and
    lengths the true ones). `none`: this result is not possible for a byte array. -/
def specStep (v : View) (op : Op) (r : Res) : Option View :=
  match op, r with
  | _, .crash => none
  | _, .fail => some v
  | .open fi mode _, .ok =>
    -- creating truncates the file; opening leaves every element as it is
    if mode = DFACC_CREATE ∨ v.present fi = false then
      some { v with present := fun fi' => if fi' = fi then true else v.present fi',
                    elem := fun fi' k => if fi' = fi then none else v.elem fi' k }
    else some v
  | .close _, .ok => some v
  | .startaccess h fi tag ref _ _, .ok =>
    let k := (baseTag tag, ref)
    let v := if v.elem fi k = none then v.setElem fi k (some none) else v
    some (v.setHnd h (some { file := fi, key := k, pos := 0 }))
  | .startwrite h fi tag ref len, .ok =>
    let k := (baseTag tag, ref)
    let v := match v.elem fi k with
      | none | some none => v.setElem fi k (some (some (zeros len)))
      | _ => v
    some (v.setHnd h (some { file := fi, key := k, pos := 0 }))
  | .setlength h len, .ok =>
    match v.hnd h with
    | some hv => if v.elem hv.file hv.key = some none then some (v.setElem hv.file hv.key (some (some (zeros len)))) else none
    | none => none
  | .hlcreate h fi tag ref _ _, .ok =>
    let k := (baseTag tag, ref)
    let v := match v.elem fi k with
      | none | some none => v.setElem fi k (some (some []))
      | _ => v
    some (v.setHnd h (some { file := fi, key := k, pos := 0 }))
  | .hlconvert h _ _, .ok =>
    match v.hnd h with
    | some hv => if v.elem hv.file hv.key = some none then some (v.setElem hv.file hv.key (some (some []))) else some v
    | none => none
  | .setblockinfo _ _ _, .ok => some v
  | .appendable _, .ok => some v
  | .seek h off origin, .ok =>
    match v.hnd h with
    | some hv =>
      match v.elem hv.file hv.key with
      | some e =>
        let t := seekTarget hv.pos e off origin
        if t < 0 then none
        else
          -- seeking on an element without length (only possible when it is appendable) gives it the length 0
          let v := if e = none ∧ t ≠ hv.pos then v.setElem hv.file hv.key (some (some [])) else v
          some (v.setHnd h (some { hv with pos := t.toNat }))
      | none => none
    | none => none
  | .tell h, .num p =>
    match v.hnd h with
    | some hv => if p = hv.pos then some v else none
    | none => none
  | .inquire h, .info len _ pos _ =>
    match v.hnd h with
    | some hv =>
      match v.elem hv.file hv.key with
      | some e => if len = lenI e ∧ pos = hv.pos then some v else none
      | none => none
    | none => none
  | .read h n, .data c buf =>
    match v.hnd h with
    | some hv =>
      match v.elem hv.file hv.key with
      | some (some b) =>
        if 0 ≤ n ∧ c = (readCount b.length hv.pos n.toNat : Nat) ∧ buf = specRead b hv.pos (readCount b.length hv.pos n.toNat) then
          some (v.setHnd h (some { hv with pos := hv.pos + readCount b.length hv.pos n.toNat }))
        else none
      | _ => none
    | none => none
  | .write h bs, .num n =>
    match v.hnd h with
    | some hv =>
      match v.elem hv.file hv.key with
      | some e =>
        if n = bs.length ∧ bs ≠ [] then
          some ((v.setElem hv.file hv.key (some (some (specWrite (e.getD []) hv.pos bs)))).setHnd h
            (some { hv with pos := hv.pos + bs.length }))
        else none
      | none => none
    | none => none
  | .trunc h n, .num m =>
    match v.hnd h with
    | some hv =>
      match v.elem hv.file hv.key with
      | some (some b) =>
        if m = n ∧ n < b.length then
          some ((v.setElem hv.file hv.key (some (some (b.take n)))).setHnd h (some { hv with pos := min hv.pos n }))
        else none
      | _ => none
    | none => none
  | .endaccess h, .ok => some (v.setHnd h none)
  | .deldd fi tag ref, .ok => some (v.setElem fi (baseTag tag, ref) none)
  | _, _ => none

/-- a whole history against the specification: every result is one a byte array could give -/
def specRun (v : View) : List Op → List Res → Option View
  | [], [] => some v
  | op :: ops, r :: rs => (specStep v op r).bind fun v1 => specRun v1 ops rs
  | _, _ => none

end H4.Elem

namespace H4.Elem
open H4.Gen.Hdf

/-! ## invariant of worlds, side conditions of histories -/

/-- coherence of the cached directory with its on-disk image (`HTPsync` rewrites exactly the dirty blocks) -/
structure Coh (f : File) : Prop where
  cache : f.cache = true
  ndds_pos : 1 ≤ f.ndds
  dsk_len : f.dsk.length = f.mem.length
  dirty_len : f.blkDirty.length * f.ndds = f.mem.length
  dirty_ok : ∀ i, i < f.mem.length → f.blkDirty.getD (i / f.ndds) false = false → f.dsk.getD i nilDD = f.dd i

/-- an access record is consistent with the DD it points to -/
structure WFH (w : World) (a : Acc) : Prop where
  live : (w.file a.file).live a.slot
  user : UserKey ((w.file a.file).keyOf a.slot)
  special_iff : a.special = isSpecial ((w.file a.file).dd a.slot).tag
  /-- an id on an element without length carries the "new" flag; the converse fails while the flag is stale (another id
      gave the element its length; `HIrefresh_new` clears it at the next `Hread`/`Hwrite`/`Hsetlength`) -/
  new_of_none : a.special = false → ((w.file a.file).dd a.slot).ext = none → a.newElem = true
  special_new : a.special = true → a.newElem = false
  blk : 1 ≤ a.blockSize ∧ 1 ≤ a.numBlocks

/-- well-formed world -/
structure WFW (w : World) : Prop where
  files : ∀ fi, WFE (w.file fi)
  coh : ∀ fi, Coh (w.file fi)
  handles : ∀ h a, w.acc h = some a → WFH w a

/-- access id `h` is the only one on its element -/
def Alone (w : World) (h : Nat) : Prop :=
  ∀ a, w.acc h = some a → ∀ h' a', w.acc h' = some a' → a'.file = a.file → a'.slot = a.slot → h' = h

/-- no access id refers to slot `s` of file `fi` -/
def NoHandleOn (w : World) (fi s : Nat) : Prop := ∀ h a, w.acc h = some a → ¬ (a.file = fi ∧ a.slot = s)

/-- no access id refers to file `fi` -/
def NoHandleIn (w : World) (fi : Nat) : Prop := ∀ h a, w.acc h = some a → a.file ≠ fi

/-- the element behind the plain access record `a` is not the last thing in its file: growing it means promotion -/
def NotLast (w : World) (a : Acc) : Prop :=
  ddLen ((w.file a.file).dd a.slot) + ddOff ((w.file a.file).dd a.slot) ≠ (w.file a.file).endOff

/-- side conditions under which one call is covered by the refinement theorem. Each excluded situation is either outside
    the engine's scope or one of the open findings (F19 promotion while another id is open on the element, F20 stale
    bytes beyond a recomputed `f_end_off` that `HPgetdiskblock` hands out again; see `H4/Props/C01.lean` section 6 and known_findings.json). -/
def OpSafe (w : World) : Op → Prop
  | .open fi mode _ =>
    NoHandleIn w fi ∧
    ((w.file fi).present = true → mode ≠ DFACC_CREATE →
      -- the file was closed by `Hclose`: nothing is waiting to be flushed
      ((w.file fi).dirtyEnd || (w.file fi).blkDirty.any id) = false ∧
      -- F20: after `Hopen` nothing but zeros may lie beyond the recomputed `f_end_off` (998a325 repaired the in-place
      -- growth of a contiguous element only; new linked blocks and reserved lengths still land on the old bytes)
      ∀ k, endOffOf (w.file fi).ndds (w.file fi).blkOff (w.file fi).mem ≤ k → rd (w.file fi).disk k = 0)
  | .close fi => NoHandleIn w fi
  | .startaccess h _ tag ref _ _ => w.acc h = none ∧ UserKey (tag, ref)
  | .startwrite h _ tag ref _ => w.acc h = none ∧ UserKey (tag, ref)
  | .hlcreate h fi tag ref blen nblk =>
    w.acc h = none ∧ UserKey (tag, ref) ∧ 1 ≤ blen ∧ 1 ≤ nblk ∧
    (∀ s, (w.file fi).select tag ref = some s → NoHandleOn w fi s)
  | .hlconvert h blen nblk => 1 ≤ blen ∧ 1 ≤ nblk ∧ Alone w h
  | .seek h off origin =>
    -- F19: a seek that promotes the element (appendable, at or beyond the end, element not last in the file)
    ∀ a, w.acc h = some a → a.special = false → a.appendable = true →
      off + (if origin = DF_CURRENT then (a.posn : Int) else 0) + (if origin = DF_END then ddLen ((w.file a.file).dd a.slot) else 0)
        ≥ ddLen ((w.file a.file).dd a.slot) → NotLast w a → Alone w h
  | .write h bs =>
    bs ≠ [] ∧
    -- F19: a write that promotes the element (appendable, beyond the end, element not last in the file)
    (∀ a, w.acc h = some a → a.special = false → ((w.file a.file).dd a.slot).ext ≠ none → a.appendable = true →
      (bs.length : Int) + a.posn > ddLen ((w.file a.file).dd a.slot) → NotLast w a → Alone w h)
  | .deldd fi tag ref => UserKey (tag, ref) ∧ ∀ s, (w.file fi).select tag ref = some s → NoHandleOn w fi s
  | _ => True

/-- side conditions along a history -/
def Safe (w : World) : List Op → Prop
  | [] => True
  | op :: ops => OpSafe w op ∧ Safe (step w op).1 ops

end H4.Elem
