import H4.VGroup
/-! The reference graph model of C08: a file is a finite map `ref ⇀ Node` (ordered member LIST, name, class,
    attribute list, attach bookkeeping) plus the set of Vdata refs and the live handles.  No arrays, no `msize`,
    no uint16 counter, no marks, no disk, no record codec: `gstep` says what every operation of the Vgroup API
    *means*; `H4.Props.C08.vg_refines_graph_partial` proves that the implementation model `H4.VGroup.step`
    computes exactly this (outputs and abstract state) on every admissible history. -/
namespace H4.VGroup
open H4.Gen.Hdf

structure Node where
  members : List Pair := []
  name : Option Bytes := none
  cls : Option Bytes := none
  attrs : List Pair := []
  access : Nat := accW
  nattach : Nat := 1
deriving Repr, DecidableEq

structure Graph where
  vgs : List (Nat × Node) := []
  vds : List Nat := []
  slots : List (Nat × Nat) := []
deriving Repr, DecidableEq

def gwithSlot (s : Graph) (slot : Nat) (k : Node → Node × Out) : Graph × Out :=
  let r := withSlotG s.vgs s.slots slot k
  ({ s with vgs := r.1 }, r.2)

/-- what a Vgroup looks like after `Vend`/`Vstart`: same members, class, attributes; `""` names become "no name" -/
def Node.reopened (n : Node) : Node :=
  { n with name := normName n.name, cls := normName n.cls, access := 0, nattach := 0 }

/-- `Vattach(…,"r")`+`Vdetach` on one Vgroup, as done by `Vlone`/`VSlone`: only the access mode can change -/
def Node.touched (n : Node) : Node :=
  if n.nattach > 0 then { n with access := max n.access accR } else { n with access := accR }

def getnextOf (members : List Pair) (id : Int) : Out :=
  if id < -1 then .fail else
  match (match members with
    | [] => none
    | p :: _ => if id == -1 && isVset p.1 then some p.2 else getnextLoop (id % 65536).toNat members) with
  | none => .fail
  | some r => .int r

def gstep (s : Graph) : Op → Graph × Out
  | .new slot ref =>
    if ref = 0 ∨ ref ≥ 65536 ∨ (alook ref s.vgs).isSome ∨ (alook slot s.slots).isSome then (s, .bad)
    else ({ s with vgs := ains ref {} s.vgs, slots := (slot, ref) :: s.slots }, .int ref)
  | .attach slot ref w =>
    if (alook slot s.slots).isSome then (s, .bad) else
    match alook ref s.vgs with
    | none => (s, .fail)
    | some g =>
      let acc := if w then accW else accR
      let g' := if g.nattach > 0 then { g with access := max g.access acc, nattach := g.nattach + 1 }
                else { g with access := acc, nattach := 1 }
      ({ s with vgs := aset ref g' s.vgs, slots := (slot, ref) :: s.slots }, .int ref)
  | .detach slot =>
    match alook slot s.slots with
    | none => (s, .fail)
    | some r =>
      match alook r s.vgs with
      | none => (s, .bad)
      | some g => ({ s with vgs := aset r { g with nattach := g.nattach - 1 } s.vgs, slots := adel1 slot s.slots }, .ok)
  | .setname slot n => gwithSlot s slot fun g =>
      if g.access ≠ accW then (g, .fail) else ({ g with name := some (cstr n) }, .ok)
  | .setclass slot n => gwithSlot s slot fun g =>
      if g.access ≠ accW then (g, .fail) else ({ g with cls := some (cstr n) }, .ok)
  | .addtagref slot t r => gwithSlot s slot fun g =>
      -- since 6287f87: a vgroup that is not attached for writing is refused (as Vinsert always did)
      if g.access ≠ accW then (g, .fail)
      -- a Vgroup holds at most MAX_REF = 65535 members
      else if g.members.length = MAX_REF then (g, .fail)
      else ({ g with members := g.members ++ [(t % 65536, r % 65536)] }, .int (g.members.length + 1))
  | .insertvg slot slot2 =>
    match alook slot2 s.slots with
    | none => (s, .fail)
    | some r2 => gwithSlot s slot fun g =>
      if g.access ≠ accW then (g, .fail)
      else if g.members.contains (DFTAG_VG, r2 % 65536) then (g, .fail)
      else if g.members.length = MAX_REF then (g, .fail)
      else ({ g with members := g.members ++ [(DFTAG_VG, r2 % 65536)] }, .int g.members.length)
  | .insertvs slot vsref =>
    if ¬ s.vds.contains vsref then (s, .fail) else
    gwithSlot s slot fun g =>
      if g.access ≠ accW then (g, .fail)
      else if g.members.contains (DFTAG_VH, vsref % 65536) then (g, .fail)
      else if g.members.length = MAX_REF then (g, .fail)
      else ({ g with members := g.members ++ [(DFTAG_VH, vsref % 65536)] }, .int g.members.length)
  | .deltagref slot t r => gwithSlot s slot fun g =>
      if g.access ≠ accW then (g, .fail)      -- since 6287f87
      else if (t % 65536, r % 65536) ∈ g.members then ({ g with members := g.members.erase (t % 65536, r % 65536) }, .ok)
      else (g, .fail)
  | .setattr slot vsref =>
    match alook slot s.slots with
    | none => (s, .fail)
    | some r =>
      match alook r s.vgs with
      | none => (s, .bad)
      | some g =>
        if g.access ≠ accW then (s, .fail)
        else if g.attrs.any (fun a => ! s.vds.contains a.2) then (s, .fail)
        else if vsref = 0 ∨ vsref ≥ 65536 ∨ s.vds.contains vsref then (s, .bad)
        else ({ s with vgs := aset r { g with attrs := g.attrs ++ [(DFTAG_VH, vsref)] } s.vgs, vds := nins vsref s.vds }, .ok)
  | .vdelete ref =>
    match alook ref s.vgs with
    | none => (s, .fail)
    | some _ => ({ s with vgs := adel ref s.vgs }, .ok)
  | .vsdelete ref =>
    if s.vds.contains ref then ({ s with vds := s.vds.filter (· != ref) }, .ok) else (s, .fail)
  | .vsnew ref =>
    if ref = 0 ∨ ref ≥ 65536 ∨ s.vds.contains ref then (s, .bad) else ({ s with vds := nins ref s.vds }, .ok)
  | .reopen => ({ s with vgs := s.vgs.map (fun e => (e.1, e.2.reopened)), slots := [] }, .ok)
  | .ntagrefs slot => gwithSlot s slot fun g => (g, .int g.members.length)
  | .inq slot t r => gwithSlot s slot fun g => (g, .int (if (t % 65536, r % 65536) ∈ g.members then 1 else 0))
  | .gettagrefs slot n => gwithSlot s slot fun g => (g, .pairs (g.members.take n))
  | .gettagref slot i => gwithSlot s slot fun g =>
      (g, if i < 0 then .fail else match g.members[i.toNat]? with | none => .fail | some p => .pairs [p])
  | .nrefs slot t => gwithSlot s slot fun g => (g, .int (g.members.filter (fun p => p.1 == t % 65536)).length)
  | .getname slot => gwithSlot s slot fun g => (g, nameOut g.name)
  | .getclass slot => gwithSlot s slot fun g => (g, nameOut g.cls)
  | .getnamelen slot => gwithSlot s slot fun g => (g, lenOut g.name)
  | .getclasslen slot => gwithSlot s slot fun g => (g, lenOut g.cls)
  | .getid id => (s, getidIn (akeys s.vgs) id)
  | .getnext slot id => gwithSlot s slot fun g => (g, getnextOf g.members id)
  | .vsgetid id => (s, getidIn s.vds id)
  | .vlone =>
    ({ s with vgs := s.vgs.map (fun e => (e.1, e.2.touched)) }, .nats (loneOf (·.members) DFTAG_VG (akeys s.vgs) s.vgs))
  | .vslone =>
    ({ s with vgs := s.vgs.map (fun e => (e.1, e.2.touched)) }, .nats (loneOf (·.members) DFTAG_VH s.vds s.vgs))
  | .find n => (s, findBy (·.name) n s.vgs)
  | .findclass n => (s, findBy (·.cls) n s.vgs)

/-- admissibility of one operation in a reference state (decidable; the hypotheses of the refinement theorem):
    (no bound on member counts any more: since /repo dc883d2 an insertion into a full Vgroup fails cleanly, and the
     reference model says so too)
    * names fit the 16-bit length field of the record;
    * a Vgroup is deleted only while no handle is attached to it (C frees the `VGROUP` the handle points to);
    * `Vend`/`Vstart` happen with every handle detached (changes of attached Vgroups are only written by `Vdetach`). -/
def admissible (s : Graph) : Op → Bool
  | .setname _ n | .setclass _ n => (cstr n).length < 65536
  | .setattr slot _ =>
    match alook slot s.slots with
    | none => true
    | some r => match alook r s.vgs with
      | none => true
      | some g => g.attrs.length < 2147483647
  | .vdelete ref => match alook ref s.vgs with
    | none => true
    | some g => g.nattach = 0
  | .reopen => s.vgs.all (fun e => e.2.nattach = 0)
  | _ => true

def grun (s : Graph) : List Op → Graph × List Out
  | [] => (s, [])
  | op :: ops =>
    let r1 := gstep s op
    let r2 := grun r1.1 ops
    (r2.1, r1.2 :: r2.2)

/-- every operation of the history is admissible in the reference state it is applied to -/
def admissibleHist (s : Graph) : List Op → Bool
  | [] => true
  | op :: ops => admissible s op && admissibleHist (gstep s op).1 ops

end H4.VGroup
