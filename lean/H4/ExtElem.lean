import H4.Elem
/-! # External elements (`hextelt.c`): the data of an element lives at `extern_offset` of a separate file

Model of the position arithmetic of `HXcreate`, `HXPseek`, `HXPread`, `HXPwrite`, `HXPinquire`: the special information
(`extinfo_t`: external file, `extern_offset`, `length`) is kept per element and shared by all access records on it (as
`HIgetspinfo` does); it survives close/reopen (it is what `HXIstaccess` re-reads from the description record).  Several
elements may share one external file.  The stream mode (`rb` / `rb+`) is not represented: the "reopen for writing and retry"
path of `HXPwrite` has the effect of the plain path.  Core only. -/
namespace H4.ExtElem
open H4.Elem H4.Gen.Hdf

/-- `extinfo_t` as far as the bytes are concerned -/
structure XElem where
  file : Nat := 0
  off : Nat := 0
  len : Nat := 0
deriving Repr, DecidableEq, Inhabited

structure XAcc where
  elem : Nat := 0
  posn : Nat := 0
  canWrite : Bool := false
deriving Repr, DecidableEq, Inhabited

structure XWorld where
  files : List Bytes := []
  elems : List (Nat × XElem) := []
  accs : List (Nat × XAcc) := []
deriving Repr, Inhabited

inductive XRes where
  | fail
  | ok
  | num (n : Nat)
  | data (buf : Bytes)
  | info (len posn special : Nat)
deriving Repr, DecidableEq, Inhabited

def XWorld.file (w : XWorld) (f : Nat) : Bytes := w.files.getD f []
def XWorld.setFile (w : XWorld) (f : Nat) (b : Bytes) : XWorld :=
  { w with files := (w.files ++ List.replicate (f + 1 - w.files.length) []).set f b }
def XWorld.elem (w : XWorld) (e : Nat) : Option XElem := (w.elems.find? (fun p => p.1 == e)).map (·.2)
def XWorld.setElem (w : XWorld) (e : Nat) (x : XElem) : XWorld := { w with elems := (e, x) :: w.elems.filter (fun p => p.1 != e) }
def XWorld.acc (w : XWorld) (h : Nat) : Option XAcc := (w.accs.find? (fun p => p.1 == h)).map (·.2)
def XWorld.setAcc (w : XWorld) (h : Nat) (a : XAcc) : XWorld := { w with accs := (h, a) :: w.accs.filter (fun p => p.1 != h) }
def XWorld.delAcc (w : XWorld) (h : Nat) : XWorld := { w with accs := w.accs.filter (fun p => p.1 != h) }

/-- `HXcreate(tag/ref, extern_file_name, offset, start_len)`: `data` is what the tag/ref held before (`[]`: nothing); it is
    copied to `offset` of the external file; the access record it returns has read/write access and position 0 -/
def xcreate (w : XWorld) (h e f off startLen : Nat) (data : Bytes) : XWorld × XRes :=
  let w := w.setFile f (diskWrite (w.file f) off data)      -- `HI_OPEN`/`HI_CREATE`, then `HI_SEEK(offset)`, `HI_WRITE(data)`
  let x : XElem := { file := f, off := off, len := if data.length > 0 then data.length else startLen }
  ((w.setElem e x).setAcc h { elem := e, posn := 0, canWrite := true }, .ok)

/-- `Hstartaccess` on an external element (`HXIstaccess`) -/
def xopen (w : XWorld) (h e : Nat) (wr : Bool) : XWorld × XRes :=
  match w.elem e with
  | none => (w, .fail)
  | some _ => (w.setAcc h { elem := e, posn := 0, canWrite := wr }, .ok)

/-- `HXPseek`: "there is no upper bound to posn" -/
def xseek (w : XWorld) (h : Nat) (offset : Int) (origin : Nat) : XWorld × XRes :=
  match w.acc h with
  | none => (w, .fail)
  | some a =>
    match w.elem a.elem with
    | none => (w, .fail)
    | some x =>
      if origin ≠ DF_START ∧ origin ≠ DF_CURRENT ∧ origin ≠ DF_END then (w, .fail)
      else
        let t := offset + (if origin = DF_CURRENT then (a.posn : Int) else 0) + (if origin = DF_END then (x.len : Int) else 0)
        if t < 0 then (w, .fail) else (w.setAcc h { a with posn := t.toNat }, .ok)

/-- `HXPread`: `HI_SEEK(posn + extern_offset)`, `HI_READ(length)` -/
def xread (w : XWorld) (h : Nat) (length : Int) : XWorld × XRes :=
  match w.acc h with
  | none => (w, .fail)
  | some a =>
    match w.elem a.elem with
    | none => (w, .fail)
    | some x =>
      if length < 0 then (w, .fail)
      else
        let n0 : Int := if length = 0 ∨ (a.posn : Int) + length > x.len then (x.len : Int) - a.posn else length
        -- /repo ffb2786: at or beyond the end of the element there is nothing to read (0 bytes); before that a negative
        -- count was handed to `fread` and the call failed (finding `ext-read-past-end-fail`)
        let n : Int := if n0 < 0 then 0 else n0
        match diskRead (w.file x.file) (x.off + a.posn) n.toNat with
          | none => (w, .fail)
          | some bs => (w.setAcc h { a with posn := a.posn + n.toNat }, .data bs)

/-- `HXPwrite`: `HI_SEEK(posn + extern_offset)`, `HI_WRITE`; the length in the description record follows the position -/
def xwrite (w : XWorld) (h : Nat) (bs : Bytes) : XWorld × XRes :=
  match w.acc h with
  | none => (w, .fail)
  | some a =>
    if a.canWrite = false then (w, .fail)
    else match w.elem a.elem with
      | none => (w, .fail)
      | some x =>
        let w := w.setFile x.file (diskWrite (w.file x.file) (x.off + a.posn) bs)
        let w := w.setElem a.elem { x with len := max x.len (a.posn + bs.length) }
        (w.setAcc h { a with posn := a.posn + bs.length }, .num bs.length)

/-- `HXPinquire`: length, position, special code -/
def xinquire (w : XWorld) (h : Nat) : XWorld × XRes :=
  match w.acc h with
  | none => (w, .fail)
  | some a => match w.elem a.elem with
    | none => (w, .fail)
    | some x => (w, .info x.len a.posn SPECIAL_EXT)

/-- `Hendaccess` (`HXPendaccess`) -/
def xend (w : XWorld) (h : Nat) : XWorld × XRes :=
  match w.acc h with
  | none => (w, .fail)
  | some _ => (w.delAcc h, .ok)

/-- the element as a byte string -/
def XWorld.bytes (w : XWorld) (x : XElem) : Bytes := (List.range x.len).map (fun i => rd (w.file x.file) (x.off + i))

end H4.ExtElem
