import H4.Gen.Attr
/-!
# C10 — attribute lists (model of `NC_findattr` / `SDIputattr` / `GRsetattr` / `VSsetattr` / `Vsetattr`)

An attribute list is an association list with stable, insertion-ordered indices.  Every interface keeps one
such list per attributable object; they differ only in the rule for re-setting an existing name (`Kind`).

* `find`        – `NC_findattr` (attr.c), the loop of `SDfindattr` (mfsd.c), `GRfindattr` (mfgr.c), `Vfindattr`/`VSfindattr` (vattr.c):
                  index of the FIRST entry whose name equals the argument.
* `put`         – `SDIputattr` (mfsd.c), the found/new branches of `GRsetattr` (mfgr.c), `VSsetattr`/`Vsetattr` (vattr.c).
* `encodeAttrs`/`decodeAttrs` – the attribute Vdatas written by `hdf_write_attr` and read by `hdf_read_attrs` (cdf.c).

Constants and the predefined attribute names are generated from the headers (`H4.Gen.Attr`, Tie A).
-/
namespace H4.Attr
open H4.Gen.Attr

abbrev Bytes := List UInt8

def ofNats (l : List Nat) : Bytes := l.map UInt8.ofNat

/-- one attribute as the C keeps it: `NC_attr{name,data->count,data->values,HDFtype}`, `at_info_t{name,nt,len,data}`,
    or the attribute Vdata of vattr.c (`vsname`, `wlist.type[0]`, `wlist.order[0]`, one record). `val` is the memory image. -/
structure Attr where
  name : Bytes
  nt : Nat
  count : Nat
  val : Bytes
deriving DecidableEq, Repr, Inhabited

abbrev AList := List Attr

/-- `NC_findattr` / `SDfindattr` / `GRfindattr` / `Vfindattr`: index of the first entry named `name` -/
def find (name : Bytes) : AList → Option Nat
  | [] => none
  | a :: t => if a.name = name then some 0 else (find name t).map (· + 1)

/-- which re-set rule applies -/
inductive Kind
  | sd   -- SDIputattr: an existing name is replaced, type and count may change; at most H4_MAX_NC_ATTRS entries
  | gr   -- GRsetattr: the number type of an existing attribute may not change, the count may
  | vs   -- VSsetattr / Vsetattr: type and count (order) of an existing attribute may not change
deriving DecidableEq, Repr

/-- may the existing entry `old` be overwritten by `a` under rule `k`? -/
def compatible (k : Kind) (old a : Attr) : Bool :=
  match k with
  | .sd => true
  | .gr => old.nt == a.nt
  | .vs => old.nt == a.nt && old.count == a.count

/-- is there room for one more entry? (`(*ap)->count >= H4_MAX_NC_ATTRS` in SDIputattr; GR and V have no limit) -/
def room (k : Kind) (l : AList) : Bool :=
  match k with
  | .sd => l.length < H4_MAX_NC_ATTRS
  | _ => true

/-- `SDIputattr` / `GRsetattr` / `VSsetattr` / `Vsetattr` on the list: `none` = the call FAILs and nothing changes -/
def put (k : Kind) (l : AList) (a : Attr) : Option AList :=
  match find a.name l with
  | some i => if compatible k (l.getD i default) a then some (l.set i a) else none
  | none => if room k l then some (l ++ [a]) else none

/-- state after the call, whether it succeeded or not -/
def putS (k : Kind) (l : AList) (a : Attr) : AList := (put k l a).getD l

/-- `SDattrinfo`+`SDreadattr` / `GRattrinfo`+`GRgetattr` / `Vattrinfo`+`Vgetattr` by index -/
def nth (l : AList) (i : Nat) : Option Attr := l[i]?

/-- lookup by name: `find` then `nth` -/
def getByName (l : AList) (name : Bytes) : Option Attr := (find name l).bind (nth l)

/-! ## number types -/

def tab (t : List Int) (i : Nat) : Option Nat :=
  match t[i]? with
  | some v => if v < 0 then none else some v.toNat
  | none => none

/-- `DFKNTsize(nt)`: DFNT_LITEND is masked out, then plain or DFNT_NATIVE codes are accepted -/
def ntSize (nt : Nat) : Option Nat :=
  let x := if nt / DFNT_LITEND % 2 == 1 then nt - DFNT_LITEND else nt
  if x < 64 then tab NT_SIZE x
  else if DFNT_NATIVE ≤ x && x - DFNT_NATIVE < 64 then tab NT_SIZE_NATIVE (x - DFNT_NATIVE)
  else none

/-- `hdf_unmap_type(nt)`: only the low byte is looked at -/
def unmap (nt : Nat) : Option Nat := if nt % 256 < 64 then tab UNMAP (nt % 256) else none

/-- common argument check of `SDsetattr`, `GRsetattr` and (through `VSfdefine`) `VSsetattr`/`Vsetattr`:
    positive count, known type, `count <= MAX_ORDER`, `count * size <= MAX_FIELD_SIZE` -/
def argsOk (nt : Nat) (count : Int) : Bool :=
  match ntSize nt with
  | none => false
  | some sz => 0 < count && count ≤ MAX_ORDER && count * sz ≤ MAX_FIELD_SIZE

/-! ## predefined attribute names (from hlimits.h via Tie A) -/

def nLongName : Bytes := ofNats S_LongName
def nUnits : Bytes := ofNats S_Units
def nFormat : Bytes := ofNats S_Format
def nCoordSys : Bytes := ofNats S_CoordSys
def nValidRange : Bytes := ofNats S_ValidRange
def nScaleFactor : Bytes := ofNats S_ScaleFactor
def nScaleFactorErr : Bytes := ofNats S_ScaleFactorErr
def nAddOffset : Bytes := ofNats S_AddOffset
def nAddOffsetErr : Bytes := ofNats S_AddOffsetErr
def nCalibratedNt : Bytes := ofNats S_CalibratedNt
def nValidMax : Bytes := ofNats S_ValidMax
def nValidMin : Bytes := ofNats S_ValidMin
def nFillValue : Bytes := ofNats S_FillValue
def nFakeDim : Bytes := ofNats S_fakeDim

/-- a sequence of `SDIputattr` calls that stops at the first failure (`HGOTO_ERROR` in the predefined setters);
    the attributes set before the failure stay (the C does not roll back) -/
def putAll (k : Kind) (l : AList) : List Attr → AList × Bool
  | [] => (l, true)
  | a :: t => match put k l a with
    | some l' => putAll k l' t
    | none => (l, false)

/-- string argument of `SDsetdatastrs`/`SDsetdimstrs`: `none` = NULL pointer. Only a non-NULL, non-empty string is stored
    (`if (l && l[0] != '\0')`), as DFNT_CHAR with count = strlen. -/
def strAttr (name : Bytes) (s : Option Bytes) : List Attr :=
  match s with
  | some (c :: t) => [{ name := name, nt := DFNT_CHAR, count := (c :: t).length, val := c :: t }]
  | _ => []

/-- `SDsetdatastrs(sdsid, l, u, f, c)` as a list of puts -/
def datastrsPuts (l u f c : Option Bytes) : List Attr :=
  strAttr nLongName l ++ strAttr nUnits u ++ strAttr nFormat f ++ strAttr nCoordSys c

/-- `SDsetdimstrs(id, l, u, f)` -/
def dimstrsPuts (l u f : Option Bytes) : List Attr :=
  strAttr nLongName l ++ strAttr nUnits u ++ strAttr nFormat f

/-- `SDsetcal(sdsid, cal, cale, ioff, ioffe, nt)`: four float64 and one int32 attribute (memory images) -/
def calPuts (cal cale ioff ioffe nt : Bytes) : List Attr :=
  [{ name := nScaleFactor, nt := DFNT_FLOAT64, count := 1, val := cal },
   { name := nScaleFactorErr, nt := DFNT_FLOAT64, count := 1, val := cale },
   { name := nAddOffset, nt := DFNT_FLOAT64, count := 1, val := ioff },
   { name := nAddOffsetErr, nt := DFNT_FLOAT64, count := 1, val := ioffe },
   { name := nCalibratedNt, nt := DFNT_INT32, count := 1, val := nt }]

/-- `SDsetrange(sdsid, pmax, pmin)`: "valid_range" = [min, max] of the dataset's type -/
def rangePut (vnt : Nat) (pmax pmin : Bytes) : Attr :=
  { name := nValidRange, nt := vnt, count := 2, val := pmin ++ pmax }

/-- `SDsetfillvalue(sdsid, val)` -/
def fillPut (vnt : Nat) (v : Bytes) : Attr := { name := nFillValue, nt := vnt, count := 1, val := v }

/-- what `SDgetdatastrs`/`SDgetdimstrs` put into a caller buffer of `len+1` bytes that held `old`:
    `strncpy(dst, values, min(count,len))` (stops at a NUL in the value and pads with NULs), then a terminator
    at `dst[count]` when `count < len`; a missing attribute gives `dst[0] = 0`. -/
def strncpyImg (src : Bytes) (n : Nat) : Bytes :=
  let s := (src.take n).takeWhile (· != 0)
  s ++ List.replicate (n - s.length) 0

def overlay (img old : Bytes) : Bytes := img ++ old.drop img.length

def getStrImg (l : AList) (name : Bytes) (len : Nat) (old : Bytes) : Bytes :=
  match getByName l name with
  | none => overlay [0] old
  | some a =>
    if a.count < len then overlay (strncpyImg a.val a.count ++ [0]) old
    else overlay (strncpyImg a.val len) old

/-- the C string a caller reads out of such a buffer -/
def cstr (b : Bytes) : Bytes := b.takeWhile (· != 0)

/-! ## on-disk form of an attribute list (`hdf_write_attr` → `VHstoredatam`, `hdf_read_attrs`) -/

/-- an attribute Vdata: name (at most VSNAMELENMAX bytes, `VSsetname` truncates), class "Attr0.0", one field "VALUES"
    of type `nt` and order `order`, `nrec` records; `data` = the records as VSread returns them (memory order). -/
structure AttrVd where
  vsname : Bytes
  nt : Nat
  order : Nat
  nrec : Nat
  data : Bytes
deriving DecidableEq, Repr, Inhabited

/-- `hdf_write_attr`: DFNT_CHAR (exactly) is written as ONE record of order `count`; every other type as `count` records of order 1 -/
def encodeAttr (a : Attr) : AttrVd :=
  if a.nt = DFNT_CHAR then { vsname := a.name.take VSNAMELENMAX, nt := a.nt, order := a.count, nrec := 1, data := a.val }
  else { vsname := a.name.take VSNAMELENMAX, nt := a.nt, order := 1, nrec := a.count, data := a.val }

/-- `hdf_read_attrs`: count = number of records; for a type that unmaps to NC_CHAR the field order is the count when it
    describes the data (DFNT_CHAR is written as one record of order n, the other character types as n records of order 1) -/
def decodeAttr (v : AttrVd) : Attr :=
  let sz := (ntSize v.nt).getD 1
  if unmap v.nt = some NC_CHAR ∧ (v.order > 1 ∨ v.nrec ≤ 1) then
    { name := v.vsname, nt := v.nt, count := v.order, val := v.data.take (v.order * sz) }
  else { name := v.vsname, nt := v.nt, count := v.nrec, val := v.data.take (v.nrec * v.order * sz) }

def encodeAttrs (l : AList) : List AttrVd := l.map encodeAttr
def decodeAttrs (d : List AttrVd) : AList := d.map decodeAttr

/-- an attribute survives the disk form unchanged if (decidable) its name fits a Vdata name, it has at least one value
    and its value has `count * size` bytes — what `SDsetattr` and the predefined setters guarantee for everything they store. -/
def Storable (a : Attr) : Bool :=
  a.name.length ≤ VSNAMELENMAX && 0 < a.count &&
  (match ntSize a.nt with | some sz => a.val.length == a.count * sz | none => false)

/-! ## name / index / reference tables of a file (`SDnametoindex`, `SDnametoindices`, `SDidtoref`, `SDreftoindex`) -/

/-- the columns of `handle->vars` the lookups use -/
structure ObjRow where
  name : Bytes
  ref : Nat
deriving DecidableEq, Repr, Inhabited

/-- `SDnametoindex`: first index whose name matches -/
def nameToIndex (rows : List ObjRow) (name : Bytes) : Option Nat := rows.findIdx? (·.name == name)

/-- `SDnametoindices` / `SDgetnumvars_byname`: all indices whose name matches, ascending -/
def nameToIndices (rows : List ObjRow) (name : Bytes) : List Nat :=
  (List.range rows.length).filter fun i => (rows.getD i default).name == name

/-- `SDidtoref` on the dataset with index `i` -/
def idToRef (rows : List ObjRow) (i : Nat) : Option Nat := (rows[i]?).map (·.ref)

/-- `SDreftoindex`: first index carrying that reference number -/
def refToIndex (rows : List ObjRow) (r : Nat) : Option Nat := rows.findIdx? (·.ref == r)

end H4.Attr
