import H4.Gen.Hdf
import H4.Gen.DDTie
import H4.Bitvect
/-! # Model of the descriptor (DD) directory: `hdf/src/hfiledd.c` + the `hfile.c` callers

A file is (a) the in-memory mirror: the chain of DD blocks (`ddblock_t`, each `ndds` descriptors), the `cache`/`dirty`
flags, `maxref`, the `ddnull` cursor, `f_end_off`, and the per-base-tag bit-vectors of the tag tree; and (b) the on-disk
image of the DD blocks, as *decoded records* (`DBlock`); `encodeDD`/`decodeDD`/`encodeHdr`/`decodeHdr` give the byte
layout (`DDENCODE`/`DDDECODE`, big-endian) and `H4.Lemmas.DD` proves the codec round trip.
`tbbt.c`/`dynarray.c` are not modelled: the tag tree is the association list `tags : base tag ↦ bit-vector`, and the
`ref ↦ dd_t*` dynarray of a tag is the *derived* function `ddOf` (first live descriptor of that base tag and ref).

`Cfg` selects, per confirmed defect, the code AS IT IS (`false`) or the proposed minimal fix (`true`).
Core-only (the driver links this). Every function quotes the C function it follows. -/
namespace H4.DD
open H4.Gen.Hdf H4.Bitvect

/-- which of the confirmed defects are fixed in the modelled source (false = the C as it is today) -/
structure Cfg where
  /-- F3: `HTInew_dd_block` writes the NIL descriptors when caching is OFF (today: only when ON) -/
  fixF3 : Bool
  /-- F4: `HTPdelete` nulls the tag before `HTIupdate_dd` (today: after) -/
  fixF4 : Bool
  /-- F5: `HTIcount_dd` always steps over the odd slot (today: only when it matches) -/
  fixF5 : Bool
  /-- F6: `HTPcreate` raises `maxref` -/
  fixF6 : Bool
  /-- F7: `Htagnewref` tests the `int32` result against FAIL before the `uint16` cast -/
  fixF7 : Bool
  /-- F17: `HTPcreate` refuses a tag/ref that is already in the DD list before it takes a slot (commit e50dd65) -/
  fixF17 : Bool
  deriving Repr, DecidableEq

/-- the code before any of the fixes -/
def Cfg.asIs : Cfg := ⟨false, false, false, false, false, false⟩
def Cfg.fixed : Cfg := ⟨true, true, true, true, true, true⟩

/-! ## tags -/

/-- `BASETAG(t)` on a uint16 (shape checked exhaustively against the macro by Tie A, `H4.Gen.DDTie.BASETAG_SHAPE_OK`) -/
def baseTag (t : Nat) : Nat := if 16384 ≤ t ∧ t < 32768 then t - 16384 else t
/-- `SPECIALTAG(t)` -/
def isSpecial (t : Nat) : Bool := decide (16384 ≤ t ∧ t < 32768)
/-- `MKSPECIALTAG(t)`: `t | 0x4000` for library tags, `DFTAG_NULL` for user tags (≥ 0x8000) -/
def mkSpecial (t : Nat) : Nat := if t < 16384 then t + 16384 else if t < 32768 then t else DFTAG_NULL

/-- `DFTAG_FREE` -/
def DFTAG_FREE : Nat := H4.Gen.DDTie.DFTAG_FREE
/-- `static int default_cache` of hfile.c: the caching mode every `Hopen` starts in -/
def defaultCache : Bool := H4.Gen.DDTie.DEFAULT_CACHE != 0

/-! ## descriptors and blocks -/

/-- `dd_t` (without the back pointer) -/
structure DD where
  tag : Nat
  ref : Nat
  off : Int
  len : Int
  deriving Repr, DecidableEq, Inhabited

/-- the NIL descriptor `HTPinit`/`HTInew_dd_block` fill blocks with -/
def nilDD : DD := ⟨DFTAG_NULL, DFREF_WILDCARD, INVALID_OFFSET, INVALID_LENGTH⟩
/-- what 12 zero bytes (a hole in the file) decode to -/
def zeroDD : DD := ⟨0, 0, 0, 0⟩

/-- `ddblock_t` in memory -/
structure Block where
  myoff : Nat
  next : Nat
  dirty : Bool
  dds : List DD
  deriving Repr, DecidableEq, Inhabited

/-- the bytes of one DD block on disk, decoded: 6-byte header (`ndds`, `nextoffset`) and the descriptors.
    `hdr = false`: the header bytes were never written (block created with caching on, not yet flushed). -/
structure DBlock where
  myoff : Nat
  hdr : Bool
  ndds : Nat
  next : Nat
  dds : List DD
  deriving Repr, DecidableEq, Inhabited

/-- a `dd_t *`: block number in the chain and index in its `ddlist` -/
structure Pos where
  blk : Nat
  idx : Nat
  deriving Repr, DecidableEq, Inhabited

abbrev Tags := List (Nat × BV)

/-- one physical write of the library to the file (C17: the ordered write log), at the granularity the C issues them -/
inductive Wr
  /-- the 6-byte header of a DD block (`ndds`, `nextoffset`) at the block's offset -/
  | hdr (off ndds next : Nat)
  /-- the 4-byte `nextoffset` field of a block header, patched alone (at block offset + 2) -/
  | next (off next : Nat)
  /-- a whole DD list (`ndds` × 12 bytes) at block offset + 6 -/
  | dds (off : Nat) (dds : List DD)
  /-- one 12-byte descriptor at block offset + 6 + 12·idx (write-through `HTIupdate_dd`) -/
  | dd (off : Nat) (d : DD)
  /-- `len` bytes of element data -/
  | data (off len : Nat)
  /-- one byte reserving space at the end of a block (`HPgetdiskblock`, caching off) -/
  | ext (off : Nat)
  deriving Repr, DecidableEq, Inhabited

/-- first byte written -/
def Wr.off : Wr → Nat
  | .hdr o _ _ => o | .next o _ => o | .dds o _ => o | .dd o _ => o | .data o _ => o | .ext o => o

/-- `filerec_t`, DD-directory part, plus the disk image -/
structure File where
  blocks : List Block
  disk : List DBlock
  /-- `file_rec->cache` -/
  cache : Bool
  /-- `file_rec->dirty & DDLIST_DIRTY` -/
  fdirty : Bool
  maxref : Nat
  /-- `ddnull` (`none` = NULL) -/
  nullBlk : Option Nat
  /-- `ddnull_idx + 1` -/
  nullNext : Nat
  /-- `f_end_off` -/
  fEnd : Nat
  /-- the tag tree: base tag ↦ bit-vector of refs in use -/
  tags : Tags
  /-- undefined behaviour reached (F17: the dynarray of a tag was freed while still referenced) -/
  ub : Bool
  /-- the physical writes issued since the file was opened, NEWEST FIRST (`chronLog` reverses) -/
  log : List Wr := []
  deriving Repr, DecidableEq, Inhabited

/-- append one write to the log -/
def logW (w : Wr) (s : File) : File := { s with log := w :: s.log }
/-- the write log in the order the writes were issued -/
def File.chronLog (s : File) : List Wr := s.log.reverse

/-! ## byte layout (`DDENCODE`, `DDDECODE`, block header) -/

def be16 (n : Nat) : List Nat := [n / 256 % 256, n % 256]
def be32 (n : Nat) : List Nat := [n / 16777216 % 256, n / 65536 % 256, n / 256 % 256, n % 256]
/-- two's complement of an `int32` -/
def toU32 (i : Int) : Nat := (i % 4294967296).toNat
def ofU32 (n : Nat) : Int := if n < 2147483648 then (n : Int) else (n : Int) - 4294967296
def rd16 : List Nat → Nat
  | a :: b :: _ => a * 256 + b
  | _ => 0
def rd32 : List Nat → Nat
  | a :: b :: c :: d :: _ => a * 16777216 + b * 65536 + c * 256 + d
  | _ => 0
/-- `DDENCODE(p, tag, ref, offset, length)` -/
def encodeDD (d : DD) : List Nat := be16 d.tag ++ be16 d.ref ++ be32 (toU32 d.off) ++ be32 (toU32 d.len)
/-- `DDDECODE` of 12 bytes -/
def decodeDD (bs : List Nat) : DD :=
  ⟨rd16 bs, rd16 (bs.drop 2), ofU32 (rd32 (bs.drop 4)), ofU32 (rd32 (bs.drop 8))⟩
/-- `INT16ENCODE(p, ndds); INT32ENCODE(p, nextoffset)` -/
def encodeHdr (ndds next : Nat) : List Nat := be16 ndds ++ be32 next
def decodeHdr (bs : List Nat) : Nat × Nat := (rd16 bs, rd32 (bs.drop 2))
/-- bytes of a whole block as `HTPsync` writes it -/
def encodeBlock (ndds next : Nat) (dds : List DD) : List Nat := encodeHdr ndds next ++ dds.flatMap encodeDD
/-- split `n` 12-byte records -/
def decodeDDs : Nat → List Nat → List DD
  | 0, _ => []
  | n + 1, bs => decodeDD (bs.take 12) :: decodeDDs n (bs.drop 12)
/-- what `HTPstart` decodes from the bytes of a block -/
def decodeBlock (bs : List Nat) : Nat × Nat × List DD :=
  let (n, nx) := decodeHdr bs
  (n, nx, decodeDDs n (bs.drop 6))

/-! ## tag tree (association list base tag ↦ bit-vector) -/

/-- `tbbtdfind(file_rec->tag_tree, &base_tag)` -/
def tget : Tags → Nat → Option BV
  | [], _ => none
  | (k, v) :: r, t => if k = t then some v else tget r t
/-- insert or replace the node of a base tag -/
def tput : Tags → Nat → BV → Tags
  | [], t, v => [(t, v)]
  | (k, w) :: r, t, v => if k = t then (k, v) :: r else (k, w) :: tput r t v

/-- `HTIregister_tag_ref`: `none` = FAIL (`DFE_DUPDD`) -/
def register (tags : Tags) (d : DD) : Option Tags :=
  let base := baseTag d.tag
  match tget tags base with
  | none => some (tput tags base ((BV.new.set 0 true).set d.ref true))
  | some bv => if bv.get d.ref = 1 then none else some (tput tags base (bv.set d.ref true))

/-- `HTIunregister_tag_ref` (tag-tree part; the caller nulls the tag): `none` = FAIL -/
def unregister (tags : Tags) (d : DD) : Option Tags :=
  let base := baseTag d.tag
  match tget tags base with
  | none => none
  | some bv => if bv.get d.ref = 0 then none else some (tput tags base (bv.set d.ref false))

/-! ## positions -/

def getDD (blocks : List Block) (p : Pos) : DD :=
  match blocks[p.blk]? with
  | none => nilDD
  | some b => b.dds.getD p.idx nilDD

def setDD (blocks : List Block) (p : Pos) (d : DD) : List Block :=
  blocks.modify p.blk (fun b => { b with dds := b.dds.set p.idx d })

/-- all descriptors in chain order -/
def slotsOf (blocks : List Block) : List DD := blocks.flatMap (·.dds)
def File.slots (s : File) : List DD := slotsOf s.blocks
/-- the live descriptors (tag ≠ `DFTAG_NULL`) in chain order -/
def File.live (s : File) : List DD := s.slots.filter (fun d => d.tag != DFTAG_NULL)

/-! ## the scanning loops of `HTIfind_dd` -/

/-- first index of a descriptor satisfying `p` -/
def firstIdx (p : DD → Bool) : List DD → Option Nat
  | [] => none
  | d :: ds => if p d then some 0 else (firstIdx p ds).map (· + 1)
/-- last index of a descriptor satisfying `p` -/
def lastIdx (p : DD → Bool) : List DD → Option Nat
  | [] => none
  | d :: ds => match lastIdx p ds with
    | some i => some (i + 1)
    | none => if p d then some 0 else none

/-- `for (; block; block = block->next) { for (idx = 0; idx < ndds; idx++) ... }` over whole blocks `b, b+1, …` -/
def scanFwdBlocks (p : DD → Bool) : List Block → Nat → Option Pos
  | [], _ => none
  | blk :: rest, b => match firstIdx p blk.dds with
    | some i => some ⟨b, i⟩
    | none => scanFwdBlocks p rest (b + 1)

/-- forward scan starting at slot `idx` of block `b` -/
def scanFwd (p : DD → Bool) (blocks : List Block) (b idx : Nat) : Option Pos :=
  match blocks.drop b with
  | [] => none
  | blk :: rest => match firstIdx p (blk.dds.drop idx) with
    | some i => some ⟨b, i + idx⟩
    | none => scanFwdBlocks p rest (b + 1)

/-- backward over whole blocks; `rev` = blocks `cnt-1, cnt-2, …, 0` -/
def scanBwdBlocks (p : DD → Bool) : List Block → Nat → Option Pos
  | [], _ => none
  | blk :: rest, cnt => match lastIdx p blk.dds with
    | some i => some ⟨cnt - 1, i⟩
    | none => scanBwdBlocks p rest (cnt - 1)

/-- backward scan over slots `n-1 … 0` of block `b`, then blocks `b-1 … 0` -/
def scanBwd (p : DD → Bool) (blocks : List Block) (b n : Nat) : Option Pos :=
  match blocks[b]? with
  | none => none
  | some blk => match lastIdx p (blk.dds.take n) with
    | some i => some ⟨b, i⟩
    | none => scanBwdBlocks p (blocks.take b).reverse b

/-- the live descriptor of that base tag and ref, by search -/
def ddOf (blocks : List Block) (base ref : Nat) : Option Pos :=
  scanFwd (fun d => d.tag != DFTAG_NULL && baseTag d.tag == base && d.ref == ref) blocks 0 0

/-- `tbbtdfind(tag_tree, &base_tag)` then `DAget_elem(tinfo_ptr->d, ref)`, as a derived view: no node → NULL; a ref whose
    bit is clear in the tag's bit-vector has no dynarray entry (the two are always updated together) → NULL; otherwise the
    live descriptor of that base tag and ref. -/
def lookupDD (tags : Tags) (blocks : List Block) (base ref : Nat) : Option Pos :=
  match tget tags base with
  | none => none
  | some bv => if bv.get ref = 0 then none else ddOf blocks base ref

inductive Dir | fwd | bwd
  deriving Repr, DecidableEq

/-- the match predicates of the wildcard branches of `HTIfind_dd` -/
def pAny : DD → Bool := fun d => d.tag != DFTAG_NULL
def pNull : DD → Bool := fun d => d.tag == DFTAG_NULL
def pRef (lookRef : Nat) : DD → Bool := fun d => d.tag != DFTAG_NULL && d.ref == lookRef
def pTag (lookTag : Nat) : DD → Bool := fun d =>
  !(d.tag == DFTAG_NULL && lookTag != DFTAG_NULL) &&
    (d.tag == lookTag || (mkSpecial lookTag != DFTAG_NULL && d.tag == mkSpecial lookTag))
def pBwd (lookTag lookRef : Nat) : DD → Bool := fun d =>
  !(d.tag == DFTAG_NULL && lookTag != DFTAG_NULL) &&
    (((lookTag == DFTAG_WILDCARD || d.tag == lookTag) || (mkSpecial lookTag != DFTAG_NULL && d.tag == mkSpecial lookTag)) &&
     (lookRef == DFREF_WILDCARD || d.ref == lookRef))

/-- `HTIfind_dd(file_rec, look_tag, look_ref, &dd, direction)`; `pdd` = `*pdd` on entry.
    Returns the position found (`none` = FAIL) and the file record (the `ddnull` cursor moves in the NULL search). -/
def htiFindDD (s : File) (lookTag lookRef : Nat) (pdd : Option Pos) (dir : Dir) : Option Pos × File :=
  if lookTag ≠ DFTAG_WILDCARD ∧ lookRef ≠ DFTAG_WILDCARD then
    -- a specific tag/ref pair: tag tree + dynarray
    (lookupDD s.tags s.blocks (baseTag lookTag) lookRef, s)
  else match dir with
    | .fwd =>
      let b := match pdd with | none => 0 | some p => p.blk
      let idx := match pdd with | none => 0 | some p => p.idx + 1
      if lookTag = DFTAG_WILDCARD ∧ lookRef = DFREF_WILDCARD then
        (scanFwd pAny s.blocks b idx, s)
      else if lookTag = DFTAG_NULL ∧ lookRef = DFTAG_WILDCARD then
        -- quick lookup of empty DDs through the ddnull cursor (ignores *pdd)
        match scanFwd pNull s.blocks (s.nullBlk.getD 0) s.nullNext with
        | some p => (some p, { s with nullBlk := some p.blk, nullNext := p.idx + 1 })
        | none => (none, s)
      else if lookTag = DFTAG_WILDCARD then
        (scanFwd (pRef lookRef) s.blocks b idx, s)
      else
        -- ref is the wildcard (both loops, with and without a special variant, are `pTag`)
        (scanFwd (pTag lookTag) s.blocks b idx, s)
    | .bwd =>
      let b := match pdd with | none => s.blocks.length - 1 | some p => p.blk
      let n := match pdd with
        | none => (match s.blocks.getLast? with | none => 0 | some blk => blk.dds.length)
        | some p => p.idx
      (scanBwd (pBwd lookTag lookRef) s.blocks b n, s)

/-! ## `HTIupdate_dd`, `HTInew_dd_block`, `HTPsync` -/

/-- first half of `HTIupdate_dd`: caching → mark file and block dirty; not caching → write the 12 bytes of the
    descriptor through to `myoffset + 6 + idx * 12` -/
def markOrWrite (s : File) (p : Pos) : File :=
  if s.cache then
    { s with fdirty := true, blocks := s.blocks.modify p.blk (fun b => { b with dirty := true }) }
  else
    { s with disk := s.disk.modify p.blk (fun db => { db with dds := db.dds.set p.idx (getDD s.blocks p) }),
             log := Wr.dd ((match s.blocks[p.blk]? with | none => 0 | some b => b.myoff) + (NDDS_SZ + OFFSET_SZ) + p.idx * DD_SZ)
                      (getDD s.blocks p) :: s.log }

/-- second half of `HTIupdate_dd`: "check whether to incr. offset of end of file" -/
def bumpEnd (s : File) (d : DD) : File :=
  if d.off ≠ INVALID_OFFSET ∧ d.len ≠ INVALID_LENGTH ∧ d.off + d.len > (s.fEnd : Int) then
    { s with fEnd := (d.off + d.len).toNat }
  else s

/-- `HTIupdate_dd(file_rec, dd_ptr)`: note the change (caching) or write the descriptor through -/
def htiUpdateDD (s : File) (p : Pos) : File := bumpEnd (markOrWrite s p) (getDD s.blocks p)

/-- `ndds` of a new block: "snarf from first block" -/
def headNdds (s : File) : Nat := match s.blocks.head? with | none => 0 | some h => h.dds.length

/-- `HTInew_dd_block`, memory side: the new block (NIL descriptors, `dirty = cache`) is linked behind the last one,
    whose `nextoffset` is set (and which is marked dirty when caching) -/
def newBlockMem (s : File) : List Block :=
  (s.blocks.modify (s.blocks.length - 1)
      (fun b => { b with next := s.fEnd, dirty := if s.cache then true else b.dirty })) ++
    [{ myoff := s.fEnd, next := 0, dirty := s.cache, dds := List.replicate (headNdds s) nilDD }]

/-- `HTInew_dd_block`, disk side.
    Before commit fda7a17 (`fixF3 = false`): caching → the header is not written and the NIL list goes to the block start
    (`hdr = false`, overwritten by the next flush); not caching → the header is written and the previous block's
    `nextoffset` is patched on disk, but the descriptors are NOT written (F3): the hole reads back as zero bytes.
    Since that commit (`fixF3 = true`): a complete empty block (header with `next = 0`, then the NIL descriptors) is written
    at allocation time in both modes; caching only defers the patch of the previous block's `nextoffset`. -/
def newBlockDisk (cfg : Cfg) (s : File) : List DBlock :=
  if s.cache then
    s.disk ++ [{ myoff := s.fEnd, hdr := cfg.fixF3, ndds := headNdds s, next := 0, dds := List.replicate (headNdds s) nilDD }]
  else
    (s.disk.modify (s.blocks.length - 1) (fun d => { d with next := s.fEnd })) ++
      [{ myoff := s.fEnd, hdr := true, ndds := headNdds s, next := 0,
         dds := List.replicate (headNdds s) (if cfg.fixF3 then nilDD else zeroDD) }]

/-- the physical writes of `HTInew_dd_block`, in order: (caching off) the reservation byte of `HPgetdiskblock`; the header
    and the NIL list of the new block (both modes since fda7a17; before: header only when not caching, NIL list at the
    block start only when caching); (caching off) the patch of the previous block's `nextoffset` -/
def newBlockWrites (cfg : Cfg) (s : File) : List Wr :=
  let sz := (NDDS_SZ + OFFSET_SZ) + headNdds s * DD_SZ
  let nil := List.replicate (headNdds s) nilDD
  let prevOff := match s.blocks.getLast? with | none => 0 | some b => b.myoff
  (if s.cache then [] else [Wr.ext (s.fEnd + sz - 1)]) ++
  (if cfg.fixF3 then [Wr.hdr s.fEnd (headNdds s) 0, Wr.dds (s.fEnd + (NDDS_SZ + OFFSET_SZ)) nil]
   else if s.cache then [Wr.dds s.fEnd nil] else [Wr.hdr s.fEnd (headNdds s) 0]) ++
  (if s.cache then [] else [Wr.next (prevOff + NDDS_SZ) s.fEnd])

/-- `HTInew_dd_block(file_rec)`: append a block of NIL descriptors to the chain; its offset is `f_end_off`
    (`HPgetdiskblock(file_rec, NDDS_SZ + OFFSET_SZ + ndds * DD_SZ, TRUE)`) -/
def htiNewBlock (cfg : Cfg) (s : File) : File :=
  { s with fdirty := if s.cache then true else s.fdirty,
           blocks := newBlockMem s,
           disk := newBlockDisk cfg s,
           fEnd := s.fEnd + (NDDS_SZ + OFFSET_SZ) + headNdds s * DD_SZ,
           log := (newBlockWrites cfg s).reverse ++ s.log }

/-- the block loop of `HTPsync` -/
def syncBlocks : List Block → List DBlock → List Block × List DBlock
  | [], ds => ([], ds)
  | bs, [] => (bs, [])
  | b :: bs, d :: ds =>
    let (bs', ds') := syncBlocks bs ds
    if b.dirty then
      ({ b with dirty := false } :: bs', { myoff := b.myoff, hdr := true, ndds := b.dds.length, next := b.next, dds := b.dds } :: ds')
    else (b :: bs', d :: ds')

/-- the physical writes of `HTPsync`, in order: for every dirty block, head to tail, its header then its DD list -/
def syncWrites : List Block → List Wr
  | [] => []
  | b :: bs =>
    (if b.dirty then [Wr.hdr b.myoff b.dds.length b.next, Wr.dds (b.myoff + (NDDS_SZ + OFFSET_SZ)) b.dds] else []) ++
      syncWrites bs

/-- `HTPsync(file_rec)`: write every dirty block (header + all descriptors) -/
def htpSync (s : File) : File :=
  let (bs, ds) := syncBlocks s.blocks s.disk
  { s with blocks := bs, disk := ds, log := (syncWrites s.blocks).reverse ++ s.log }

/-- `HIsync(file_rec)` -/
def hiSync (s : File) : File :=
  if s.cache ∧ s.fdirty then { htpSync s with fdirty := false } else s

/-- `Hsync(file_id)` -/
def hsync (s : File) : File := hiSync s

/-- `Hcache(file_id, cache_on)` -/
def hcache (s : File) (on : Bool) : File :=
  let s := if on = false ∧ s.cache then hiSync s else s
  { s with cache := on }

/-! ## `HTPcreate`, `HTPselect`, `HTPdelete`, `HTPupdate` -/

/-- `HTPselect(file_rec, tag, ref)` -/
def htpSelect (s : File) (tag ref : Nat) : Option Pos :=
  if tag = DFTAG_NULL ∨ tag = DFTAG_WILDCARD ∨ ref = DFREF_WILDCARD then none
  else lookupDD s.tags s.blocks (baseTag tag) ref

/-- the slot `HTPcreate` takes: the first NULL slot found through the `ddnull` cursor
    (`HTIfind_dd(file_rec, DFTAG_NULL, DFTAG_WILDCARD, &dd_ptr, DF_FORWARD)`), else slot 0 of a new block -/
def allocSlot (cfg : Cfg) (s : File) : Pos × File :=
  match htiFindDD s DFTAG_NULL DFTAG_WILDCARD none .fwd with
  | (some p, s') => (p, s')
  | (none, s') => (⟨(htiNewBlock cfg s').blocks.length - 1, 0⟩, htiNewBlock cfg s')

/-- store a descriptor in memory, then `HTIupdate_dd` -/
def fillSlot (s : File) (p : Pos) (d : DD) : File :=
  htiUpdateDD { s with blocks := setDD s.blocks p d } p

/-- F6 fix: `if (ref > file_rec->maxref) file_rec->maxref = ref;` in `HTPcreate` -/
def raiseMaxref (cfg : Cfg) (s : File) (ref : Nat) : File :=
  if cfg.fixF6 ∧ ref > s.maxref then { s with maxref := ref } else s

/-- `HTPcreate(file_rec, tag, ref)`: `none` = FAIL. A registration failure (tag/ref already in the tree) happens
    AFTER the slot was filled and written, and frees the dynarray of the tag that is still in the tree: `ub`. -/
def htpCreate (cfg : Cfg) (s : File) (tag ref : Nat) : Option Pos × File :=
  if tag = DFTAG_NULL ∨ tag = DFTAG_WILDCARD ∨ ref = DFREF_WILDCARD then (none, s)
  else if cfg.fixF17 ∧ (lookupDD s.tags s.blocks (baseTag tag) ref).isSome then
    -- since e50dd65: `HTIfind_dd(file_rec, tag, ref, …) != FAIL` → DFE_DUPDD before a free DD is taken
    (none, s)
  else
    let a := allocSlot cfg s
    let s1 := fillSlot a.2 a.1 ⟨tag, ref, INVALID_OFFSET, INVALID_LENGTH⟩
    match register s1.tags ⟨tag, ref, INVALID_OFFSET, INVALID_LENGTH⟩ with
    | none => (none, { s1 with ub := true })
    | some tags => (some a.1, raiseMaxref cfg { s1 with tags := tags } ref)

/-- `HTPdelete(ddid)` for the descriptor at `p` -/
def htpDelete (cfg : Cfg) (s : File) (p : Pos) : Bool × File :=
  let s0 : File := { s with nullBlk := none, nullNext := 0 }
  let d := getDD s.blocks p
  if cfg.fixF4 then
    match unregister s0.tags d with
    | none => (false, s0)
    | some tags => (true, fillSlot { s0 with tags := tags } p { d with tag := DFTAG_NULL })
  else
    -- as is: the descriptor is written (with its old tag) BEFORE the tag is nulled
    let s1 := htiUpdateDD s0 p
    match unregister s1.tags d with
    | none => (false, s1)
    | some tags => (true, { s1 with tags := tags, blocks := setDD s1.blocks p { d with tag := DFTAG_NULL } })

/-- the descriptor `HTPupdate` stores; `-2` = leave unchanged -/
def updDD (d : DD) (newOff newLen : Int) : DD :=
  { d with len := if newLen ≠ -2 then newLen else d.len, off := if newOff ≠ -2 then newOff else d.off }

/-- `HTPupdate(ddid, new_off, new_len)` -/
def htpUpdate (s : File) (p : Pos) (newOff newLen : Int) : File :=
  fillSlot s p (updDD (getDD s.blocks p) newOff newLen)

/-! ## user level: `Hdupdd`, `Hdeldd`, `HDreuse_tagref`, `Hnumber`, `Hnewref`, `Htagnewref`, `Hfind`, `Hexist` -/

/-- `Hdupdd(file_id, tag, ref, old_tag, old_ref)` -/
def hdupdd (cfg : Cfg) (s : File) (tag ref oldTag oldRef : Nat) : Bool × File :=
  match htpSelect s oldTag oldRef with
  | none => (false, s)
  | some old =>
    match htpCreate cfg s tag ref with
    | (none, s) => (false, s)
    | (some p, s) =>
      let od := getDD s.blocks old
      (true, htpUpdate s p od.off od.len)

/-- `Hdeldd(file_id, tag, ref)` -/
def hdeldd (cfg : Cfg) (s : File) (tag ref : Nat) : Bool × File :=
  if tag = DFTAG_WILDCARD ∨ ref = DFREF_WILDCARD then (false, s)
  else match htpSelect s tag ref with
    | none => (false, s)
    | some p => htpDelete cfg s p

/-- `HDreuse_tagref(file_id, tag, ref)` -/
def hdreuse (s : File) (tag ref : Nat) : Bool × File :=
  if tag = DFTAG_WILDCARD ∨ ref = DFREF_WILDCARD then (false, s)
  else match htpSelect s tag ref with
    | none => (false, s)
    | some p => (true, htpUpdate s p INVALID_OFFSET INVALID_LENGTH)

/-- the unrolled two-at-a-time loop of `HTIcount_dd`
    (`for (; idx < ndds; idx++, dd_ptr++) { test; idx++; dd_ptr++; test; }`).
    Returns the count and whether the second test read `ddlist[ndds]`, one `dd_t` past the block. -/
def pairLoop (m : DD → Bool) : List DD → Nat × Bool
  | [] => (0, false)
  | [a] => ((if m a then 1 else 0), true)
  | a :: b :: rest =>
    let r := pairLoop m rest
    (r.1 + (if m a then 1 else 0) + (if m b then 1 else 0), r.2)

/-- one block of the `default:` / special-variant / wildcard-ref branch of `HTIcount_dd` -/
def countBlkPairs (cfg : Cfg) (m : DD → Bool) (dds : List DD) : Nat × Bool :=
  if dds.length % 2 = 1 then
    match dds with
    | [] => (0, false)
    | d0 :: rest =>
      if m d0 then let r := pairLoop m rest; (r.1 + 1, r.2)
      else if cfg.fixF5 then pairLoop m rest
      else pairLoop m dds        -- F5: idx/dd_ptr not advanced, the pair loop starts at the odd slot
  else pairLoop m dds

/-- `HTIcount_dd(file_rec, cnt_tag, DFREF_WILDCARD, &all, &real)` as called by `Hnumber`:
    (`real_cnt`, some read was past the end of a block) -/
def htiCountDD (cfg : Cfg) (s : File) (cntTag : Nat) : Nat × Bool :=
  let specialTag := mkSpecial cntTag
  if cntTag = DFTAG_WILDCARD then
    ((s.slots.filter (fun d => !(d.tag == DFTAG_NULL || d.tag == DFTAG_FREE))).length, false)
  else if cntTag = DFTAG_NULL ∨ cntTag = DFTAG_FREE then
    ((s.slots.filter (fun d => d.tag == cntTag || (specialTag != DFTAG_NULL && d.tag == specialTag))).length, false)
  else if specialTag = DFTAG_NULL then
    ((s.slots.filter (fun d => d.tag == cntTag)).length, false)
  else
    s.blocks.foldl (fun acc b =>
      let r := countBlkPairs cfg (fun d => d.tag == cntTag || d.tag == specialTag) b.dds
      (acc.1 + r.1, acc.2 || r.2)) (0, false)

/-- `Hnumber(file_id, tag)` -/
def hnumber (cfg : Cfg) (s : File) (tag : Nat) : Nat × Bool := htiCountDD cfg s tag

/-- the `for (i_ref = 1; i_ref <= MAX_REF; i_ref++)` loop of `Hnewref`; result 0 = none free -/
def refSearch (blocks : List Block) : Nat → Nat → Nat
  | 0, _ => 0
  | fuel + 1, i => if (scanFwd (pRef i) blocks 0 0).isNone then i else refSearch blocks fuel (i + 1)

/-- `Hnewref(file_id)` -/
def hnewref (s : File) : Nat × File :=
  if s.maxref < MAX_REF then (s.maxref + 1, { s with maxref := s.maxref + 1 })
  else (refSearch s.blocks MAX_REF 1, s)

/-- the value `Htagnewref` makes of the bit offset `z` returned by `bv_find_next_zero`:
    as is `(uint16)z`, 0 when `(uint16)z == (uint16)FAIL`; fixed: the `int32` is tested, 0 when `z > MAX_REF` -/
def tagnewrefValue (cfg : Cfg) (z : Nat) : Nat :=
  if cfg.fixF7 then (if z > MAX_REF then 0 else z)
  else (if z % 65536 = 65535 then 0 else z % 65536)

/-- `Htagnewref(file_id, tag)` -/
def htagnewref (cfg : Cfg) (s : File) (tag : Nat) : Nat × File :=
  match tget s.tags (baseTag tag) with
  | none => (1, s)
  | some bv =>
    (tagnewrefValue cfg bv.findNextZero.1, { s with tags := tput s.tags (baseTag tag) bv.findNextZero.2 })

/-- `Hfind(file_id, search_tag, search_ref, &find_tag, &find_ref, &off, &len, direction)`;
    `findTag findRef` are the in-values; `none` = FAIL -/
def hfind (s : File) (searchTag searchRef findTag findRef : Nat) (dir : Dir) : Option DD × File :=
  if findRef ≠ 0 ∨ findTag ≠ 0 then
    match htiFindDD s findTag findRef none dir with
    | (none, s) => (none, s)
    | (some p, s) =>
      match htiFindDD s searchTag searchRef (some p) dir with
      | (none, s) => (none, s)
      | (some q, s) => (some (getDD s.blocks q), s)
  else
    match htiFindDD s searchTag searchRef none dir with
    | (none, s) => (none, s)
    | (some q, s) => (some (getDD s.blocks q), s)

/-- `Hexist(file_id, tag, ref)` -/
def hexist (s : File) (tag ref : Nat) : Bool × File :=
  let r := hfind s tag ref 0 0 .fwd
  (r.1.isSome, r.2)

/-- iterate `Hfind` from the start, as `while (Hfind(...) == SUCCEED)` does; at most `fuel` results -/
def iterFind (s : File) (searchTag searchRef : Nat) (dir : Dir) : Nat → Nat → Nat → List DD
  | 0, _, _ => []
  | fuel + 1, ft, fr =>
    match (hfind s searchTag searchRef ft fr dir).1 with
    | none => []
    | some d => d :: iterFind s searchTag searchRef dir fuel d.tag d.ref

/-! ## `Hstartaccess` and the element-level calls that change the directory -/

inductive Acc
  | fail
  /-- the element is special and the special-element layer takes over (not modelled here) -/
  | special (p : Pos)
  | ok (p : Pos) (newElem : Bool)
  deriving Repr

/-- `Hstartaccess(file_id, tag, ref, flags)` (DD-directory part; `write` = `flags & DFACC_WRITE`) -/
def hstartaccess (cfg : Cfg) (s : File) (tag ref : Nat) (write : Bool) : Acc × File :=
  let (found, s) := hfind s tag ref 0 0 .fwd
  let newTag := match found with | some d => d.tag | none => tag
  let newRef := match found with | some d => d.ref | none => ref
  let isNew := match found with | some d => decide (d.off = INVALID_OFFSET ∧ d.len = INVALID_LENGTH) | none => true
  match htpSelect s newTag newRef with
  | none =>
    if !write then (.fail, s)
    else match htpCreate cfg s newTag newRef with
      | (none, s) => (.fail, s)
      | (some p, s) => (.ok p true, { s with maxref := if newRef > s.maxref then newRef else s.maxref })
  | some p =>
    if !isSpecial tag ∧ isSpecial (getDD s.blocks p).tag then (.special p, s)
    else (.ok p isNew, { s with maxref := if newRef > s.maxref then newRef else s.maxref })

/-- `Hsetlength(aid, length)`: `HPgetdiskblock` at the end of the file, then `HTPupdate(ddid, offset, length)` -/
def hsetlength (s : File) (p : Pos) (len : Nat) : File :=
  let off := s.fEnd
  -- HPgetdiskblock(file_rec, length, FALSE): not caching and length > 0 → one byte written at the end of the extent
  htpUpdate { s with fEnd := s.fEnd + len,
                     log := if s.cache = false ∧ 0 < len then Wr.ext (s.fEnd + len - 1) :: s.log else s.log } p off len

inductive Res
  | ok
  | fail
  | num (n : Int)
  | unsupported
  deriving Repr, DecidableEq

/-- `Hstartwrite(file_id, tag, ref, length)` then `Hendaccess` -/
def hstartwriteEnd (cfg : Cfg) (s : File) (tag ref : Nat) (len : Int) : Res × File :=
  match hstartaccess cfg s (baseTag tag) ref true with
  | (.fail, s) => (.fail, s)
  | (.special _, s) => (.unsupported, s)
  | (.ok p newElem, s) =>
    if newElem then
      if len < 0 then (.fail, s) else (.ok, hsetlength s p len.toNat)
    else (.ok, s)

/-- `Hputelement(file_id, tag, ref, data, length)` -/
def hputelement (cfg : Cfg) (s : File) (tag ref : Nat) (len : Int) : Res × File :=
  match hstartaccess cfg s (baseTag tag) ref true with
  | (.fail, s) => (.fail, s)
  | (.special _, s) => (.unsupported, s)
  | (.ok p newElem, s) =>
    if newElem ∧ len < 0 then (.fail, s)
    else
      let s := if newElem then hsetlength s p len.toNat else s
      -- Hwrite(aid, length, data): not appendable, must fit the element
      let d := getDD s.blocks p
      if len ≤ 0 ∨ len > d.len then (.fail, s) else (.num len, logW (.data d.off.toNat len.toNat) s)

/-- `Hstartaccess(…, DFACC_RDWR | DFACC_APPENDABLE)`, `Hwrite(aid, n, data)` at position 0, `Hendaccess`:
    grows an element that lies at the end of the file (`HTPupdate(ddid, -2, n)`) -/
def happend (cfg : Cfg) (s : File) (tag ref : Nat) (n : Int) : Res × File :=
  match hstartaccess cfg s tag ref true with
  | (.fail, s) => (.fail, s)
  | (.special _, s) => (.unsupported, s)
  | (.ok p newElem, s) =>
    if newElem ∧ n < 0 then (.unsupported, s)
    else
      let s := if newElem then hsetlength s p n.toNat else s
      let d := getDD s.blocks p
      if n ≤ 0 then (.fail, s)
      else if n > d.len then
        if d.len + d.off ≠ (s.fEnd : Int) then (.unsupported, s)   -- HLconvert: promoted to linked blocks
        else
          let s := htpUpdate s p (-2) n
          (.num n, s)
      else (.num n, s)

/-- `Hlength(file_id, tag, ref)` / `Hoffset`: through `Hstartread` = `Hstartaccess(BASETAG(tag), ref, DFACC_READ)`
    (which may raise `maxref`) -/
def hinquire (cfg : Cfg) (s : File) (tag ref : Nat) : Option DD × Bool × File :=
  match hstartaccess cfg s (baseTag tag) ref false with
  | (.fail, s) => (none, false, s)
  | (.special _, s) => (none, true, s)
  | (.ok p _, s) => (some (getDD s.blocks p), false, s)

/-! ## open / close -/

/-- `HTPinit(file_rec, ndds)` for a new file (after the 4 magic bytes) -/
def htpInit (ndds0 : Nat) : File :=
  let ndds := if ndds0 = 0 then DEF_NDDS else if ndds0 < MIN_NDDS then MIN_NDDS else ndds0
  { blocks := [{ myoff := MAGICLEN, next := 0, dirty := false, dds := List.replicate ndds nilDD }],
    disk := [{ myoff := MAGICLEN, hdr := true, ndds := ndds, next := 0, dds := List.replicate ndds nilDD }],
    cache := false, fdirty := false, maxref := 0, nullBlk := some 0, nullNext := 0,
    fEnd := MAGICLEN + (NDDS_SZ + OFFSET_SZ) + ndds * DD_SZ, tags := [], ub := false }

/-- `Hopen(path, DFACC_CREATE, ndds)`: `HTPinit`, `cache = default_cache`, then `HIupdate_version` puts `(DFTAG_VERSION, 1)` -/
def hopenCreate (cfg : Cfg) (ndds : Nat) : File :=
  (hputelement cfg { htpInit ndds with cache := defaultCache } DFTAG_VERSION 1 LIBVER_LEN).2

/-- the block-reading loop of `HTPstart`: follow `nextoffset` from `off`; `none` = FAIL -/
def readChain (disk : List DBlock) : Nat → Nat → Option (List Block)
  | 0, _ => none
  | fuel + 1, off =>
    match disk.find? (fun db => db.myoff == off) with
    | none => none
    | some db =>
      if !db.hdr ∨ db.ndds = 0 ∨ db.dds.length ≠ db.ndds then none
      else
        let blk : Block := { myoff := off, next := db.next, dirty := false, dds := db.dds }
        if db.next ≠ 0 then (readChain disk fuel db.next).map (blk :: ·) else some [blk]

/-- `HTIregister_tag_ref` for every non-NULL descriptor read -/
def registerAll : Tags → List DD → Option Tags
  | tags, [] => some tags
  | tags, d :: ds =>
    if d.tag = DFTAG_NULL then registerAll tags ds
    else match register tags d with
      | none => none
      | some tags => registerAll tags ds

/-- `end_off` computed by `HTPstart` -/
def endOff (blocks : List Block) : Nat :=
  blocks.foldl (fun e b =>
    let e := max e (b.myoff + (NDDS_SZ + OFFSET_SZ) + b.dds.length * DD_SZ)
    b.dds.foldl (fun e d => if d.off + d.len > (e : Int) then (d.off + d.len).toNat else e) e) 0

/-- `HTPstart(file_rec)` on the disk image: `none` = FAIL -/
def htpStart (disk : List DBlock) : Option File :=
  match readChain disk disk.length MAGICLEN with
  | none => none
  | some blocks =>
    let dds := slotsOf blocks
    match registerAll [] dds with
    | none => none
    | some tags =>
      some { blocks := blocks, disk := disk, cache := defaultCache, fdirty := false,
             maxref := dds.foldl (fun m d => if m < d.ref then d.ref else m) 0,
             nullBlk := none, nullNext := 0, fEnd := endOff blocks, tags := tags, ub := false }

/-- `Hclose(file_id)`: `HIsync`, then `HTPend` → `HTPsync` -/
def hclose (s : File) : File := htpSync (hiSync s)

/-- the disk image after everything pending has been flushed (`Hsync` with caching on; what `Hclose` leaves) -/
def syncedDisk (s : File) : List DBlock := (hclose s).disk

/-- what a reopen reads: the block chain decoded as `HTPstart` does -/
def decodeBlocks (disk : List DBlock) : Option (List Block) := readChain disk disk.length MAGICLEN

/-- `Hclose` then `Hopen(path, DFACC_RDWR, 0)` (the version element is read, not written) -/
def hreopen (cfg : Cfg) (s : File) : Option File :=
  match htpStart (hclose s).disk with
  | none => none
  | some s => some (hinquire cfg s DFTAG_VERSION 1).2.2

/-! ## op language for the history theorems -/

inductive Op
  | put (tag ref : Nat) (len : Int)
  | startwrite (tag ref : Nat) (len : Int)
  | append (tag ref : Nat) (n : Int)
  | del (tag ref : Nat)
  | dup (tag ref oldTag oldRef : Nat)
  | reuse (tag ref : Nat)
  | inquire (tag ref : Nat)
  | number (tag : Nat)
  | exist (tag ref : Nat)
  | newref
  | tagnewref (tag : Nat)
  | cache (on : Bool)
  | sync
  | reopen
  deriving Repr, DecidableEq

/-- result of one op, as the harness prints it -/
inductive Out
  | ok | fail | unsupported
  | num (n : Int)
  | dd (d : DD)
  | cnt (n : Nat) (oob : Bool)
  deriving Repr, DecidableEq

def Out.ofRes : Res → Out
  | .ok => .ok | .fail => .fail | .num n => .num n | .unsupported => .unsupported
def Out.ofBool (b : Bool) : Out := if b then .ok else .fail

/-- one API call on an open file; `none` = the file could not be reopened -/
def step (cfg : Cfg) (s : File) : Op → Out × Option File
  | .put t r l => let x := hputelement cfg s t r l; (.ofRes x.1, some x.2)
  | .startwrite t r l => let x := hstartwriteEnd cfg s t r l; (.ofRes x.1, some x.2)
  | .append t r n => let x := happend cfg s t r n; (.ofRes x.1, some x.2)
  | .del t r => let x := hdeldd cfg s t r; (.ofBool x.1, some x.2)
  | .dup t r ot or' => let x := hdupdd cfg s t r ot or'; (.ofBool x.1, some x.2)
  | .reuse t r => let x := hdreuse s t r; (.ofBool x.1, some x.2)
  | .inquire t r => let x := hinquire cfg s t r
      ((match x.1 with | some d => .dd d | none => if x.2.1 then .unsupported else .fail), some x.2.2)
  | .number t => let x := hnumber cfg s t; (.cnt x.1 x.2, some s)
  | .exist t r => let x := hexist s t r; (.ofBool x.1, some x.2)
  | .newref => let x := hnewref s; (.num x.1, some x.2)
  | .tagnewref t => let x := htagnewref cfg s t; (.num x.1, some x.2)
  | .cache on => (.ok, some (hcache s on))
  | .sync => (.ok, some (hsync s))
  | .reopen => match hreopen cfg s with
    | none => (.fail, none)
    | some s' => (.ok, some s')

/-- run a history; stops when the file cannot be reopened -/
def run (cfg : Cfg) : File → List Op → List Out × Option File
  | s, [] => ([], some s)
  | s, op :: ops =>
    match step cfg s op with
    | (o, none) => ([o], none)
    | (o, some s') => let r := run cfg s' ops; (o :: r.1, r.2)

end H4.DD
