import H4.Slab
import H4.Gen.Ncvar
/-! Model of the shape and index arithmetic of the SD/netCDF layer (C03, and the overflow side of C20):
    `NC_var_shape` (mfhdf/src/var.c), `NC_varoffset` and `NCcoordck` (mfhdf/src/putget.c).
    Units are BYTES here (`Slab.offset` counts elements; `xszof` is the element size `var->HDFsize`).
    The model is unbounded (`Nat`); what the C computes in `unsigned long` is the model's value modulo `2^64` (`W`) - the refinement
    theorems in `H4.Props.C03Fn2` state exactly that, and that nothing wraps iff `varLen < 2^64`.  Core only. -/
namespace H4.VarShape
open H4.Slab H4.Gen.Ncvar

/-- modulus of `unsigned long` / `size_t` (LP64) -/
def W : Nat := 18446744073709551616
/-- modulus of `unsigned` (`handle->numrecs`) -/
def W32 : Nat := 4294967296

/-- first loop of `NC_var_shape`: `shape[i]` = size of dimension `ids[i]`; `none` = `return -1`: a dimension id outside `0 ≤ id < dims->count`
    ("Bad dimension id"), or the unlimited size 0 at an index other than 0 (`NC_EUNLIMPOS`).  `first` = this is index 0. -/
def shapeOf (dimsizes : List Nat) : Bool → List Int → Option (List Nat)
  | _, [] => some []
  | first, id :: ids =>
    if id < 0 ∨ (dimsizes.length : Int) ≤ id then none
    else if dimsizes.getD id.toNat 0 = NC_UNLIMITED ∧ first = false then none
    else (shapeOf dimsizes false ids).map (dimsizes.getD id.toNat 0 :: ·)

/-- row-major element strides: `strides [a, b, c] = [b*c, c, 1]` (`Slab.offset shape coords = Σ coords[i] * strides[i]`) -/
def strides : List Nat → List Nat
  | [] => []
  | _ :: xs => prod xs :: strides xs

/-- `var->dsizes`: `dsizes[i] = xszof * shape[i+1] * … * shape[n-1]` (bytes one step along dimension `i` moves) -/
def dsizes (xszof : Nat) (shape : List Nat) : List Nat := (strides shape).map (· * xszof)

/-- number of elements of one record / of the whole fixed-size variable: the product of the extents, the record dimension
    (`shape[0] = NC_UNLIMITED = 0`) counting as 1 ("boundary condition for rec", "include last mult for non-rec vars") -/
def recProd : List Nat → Nat
  | [] => 1
  | x :: xs => (if x = NC_UNLIMITED then 1 else x) * prod xs

/-- `var->len` before the rounding: bytes of one record / of the whole variable; a scalar variable has `len = xszof` -/
def varLen (xszof : Nat) (shape : List Nat) : Nat := recProd shape * xszof

/-- the `switch (var->type)` at label `out:`: in files that are not HDF-encoded the length of a BYTE / CHAR / SHORT variable is rounded up
    to a multiple of 4 (XDR units) -/
def roundLen (fileType ty len : Nat) : Nat :=
  if fileType ≠ HDF_FILE ∧ (ty = NC_BYTE ∨ ty = NC_CHAR ∨ ty = NC_SHORT) ∧ len % 4 ≠ 0 then len + (4 - len % 4) else len

/-- what `NC_var_shape` leaves in the variable -/
structure Compiled where
  shape : List Nat
  dsizes : List Nat
  len : Nat
deriving Repr, DecidableEq

/-- `NC_var_shape`, unbounded: `none` = `-1` -/
def varShape (dimsizes : List Nat) (ids : List Int) (xszof fileType ty : Nat) : Option Compiled :=
  (shapeOf dimsizes true ids).map fun sh => ⟨sh, dsizes xszof sh, roundLen fileType ty (varLen xszof sh)⟩

/-- `NC_var_shape` as the C computes it: every product reduced modulo `2^64`, the rounding done in `unsigned long` -/
def varShapeC (dimsizes : List Nat) (ids : List Int) (xszof fileType ty : Nat) : Option Compiled :=
  (shapeOf dimsizes true ids).map fun sh =>
    ⟨sh, (dsizes xszof sh).map (· % W), roundLen fileType ty (varLen xszof sh % W) % W⟩

/-- `Σ_i coords[i] * dsizes[i]` (the loop of `NC_varoffset`, over the dimensions it is given) -/
def dot : List Nat → List Nat → Nat
  | d :: ds, c :: cs => d * c + dot ds cs
  | _, _ => 0

/-- `NC_varoffset` (byte offset of the element at `coords`, relative to the start of the variable's data for an HDF file, to the start of the
    file for a netCDF file).  HDF: `Slab.offset shape coords * xszof` for fixed-size AND record variables (`shape[0]` itself never enters the
    offset); netCDF: `begin +` that for a fixed-size variable, `begin + recsize * coords[0] +` the offset inside the record for a record
    variable; a scalar variable: `begin`.  (The CDF_FILE branches are not modelled.) -/
def varOffset (fileType begin recsize xszof : Nat) : List Nat → List Nat → Nat
  | [], _ => begin
  | sh :: shs, cs =>
    if fileType = HDF_FILE then offset (sh :: shs) cs * xszof
    else if fileType = netCDF_FILE then
      if sh = NC_UNLIMITED then begin + recsize * cs.headD 0 + offset shs cs.tail * xszof
      else begin + offset (sh :: shs) cs * xszof
    else 0

/-- the bounds loop of `NCcoordck`: every coordinate with index `≥ b` (given as the lists from `b` on) is inside its extent -/
def inExtents : List Nat → List Int → Bool
  | sh :: shs, c :: cs => decide (0 ≤ c) && decide (c < (sh : Int)) && inExtents shs cs
  | _, _ => true

/-- what `NCcoordck` answers and leaves behind -/
structure CkOut where
  ok : Bool
  vpNumrecs : Int     -- `vp->numrecs`
  hNumrecs : Nat      -- `handle->numrecs`
  flags : Nat         -- `handle->flags`
deriving Repr, DecidableEq

/-- `NCcoordck` for a variable of rank ≥ 1 (all I/O of the fill-on-extend paths succeeding).
    Fixed-size variable: accept iff every coordinate is inside its extent.  Record variable (`shape[0] = 0`): `coords[0] ≥ 0` has no upper
    bound, the other coordinates are checked; then
    * HDF file: a record below `vp->numrecs` is accepted as is; beyond it a READ (`x_op ≠ XDR_ENCODE`) is refused when it comes from the
      SD API (`¬ncApi`) or reaches `handle->numrecs`; otherwise (write, or nc-API read below the file's record count) the gap is filled
      unless NC_NOFILL, `vp->numrecs` becomes `coords[0] + 1`, and `handle->numrecs` grows to it (flag NC_NDIRTY);
    * netCDF file: at or beyond `handle->numrecs` a read is refused, a write extends `handle->numrecs` to `coords[0] + 1`
      (flag NC_NDIRTY, cleared again after `xdr_numrecs` when NC_NSYNC is set). -/
def coordck (fileType : Nat) (encode ncApi : Bool) (flags : Nat) (vpNumrecs : Int) (hNumrecs : Nat) (shape : List Nat) (coords : List Int) : CkOut :=
  let keep : CkOut := ⟨true, vpNumrecs, hNumrecs, flags⟩
  let bad : CkOut := ⟨false, vpNumrecs, hNumrecs, flags⟩
  if shape.headD 1 ≠ NC_UNLIMITED then
    if inExtents shape coords then keep else bad
  else
    let c0 := coords.headD 0
    if c0 < 0 ∨ inExtents shape.tail coords.tail = false then bad
    else if fileType = HDF_FILE then
      if c0 < vpNumrecs then keep
      else if encode = false ∧ (ncApi = false ∨ (hNumrecs : Int) ≤ c0) then bad
      else if (hNumrecs : Int) < c0 + 1 then ⟨true, c0 + 1, (c0 + 1).toNat % W32, flags ||| NC_NDIRTY⟩
      else ⟨true, c0 + 1, hNumrecs, flags⟩
    else
      if (hNumrecs : Int) ≤ c0 then
        if encode = false then bad
        else ⟨true, vpNumrecs, (c0 + 1).toNat % W32,
              if flags &&& NC_NSYNC ≠ 0 then (flags ||| NC_NDIRTY) &&& (W32 - 1 - NC_NDIRTY) else flags ||| NC_NDIRTY⟩
      else keep

end H4.VarShape
